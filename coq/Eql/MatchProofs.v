(* C11 -- proofs: the conditions match.py builds from a pattern, evaluated by the model of the engine, return exactly
   the elements the Spec [matches] denotes (fragment F11).  Induction on the pattern (mutual: pattern / keyword list /
   keyword value), unbounded in nesting depth and number of keywords. *)
From Coq Require Import List ZArith Bool Arith Lia.
From Krrood Require Import Eql.Syntax Eql.MatchSpec Gen.Match Eql.Match Eql.MatchFrag.
Import ListNotations.

(* ------------------------------------------------------------------ lists *)
Lemma flat_map_single {A} (l : list A) : flat_map (fun x => [x]) l = l.
Proof. induction l; simpl; congruence. Qed.
Lemma flat_map_flat_map {A B X} (f : A -> list B) (g : B -> list X) l :
  flat_map g (flat_map f l) = flat_map (fun x => flat_map g (f x)) l.
Proof. induction l; simpl; auto. rewrite flat_map_app. congruence. Qed.
Lemma flat_map_map {A B X} (f : A -> B) (g : B -> list X) l : flat_map g (map f l) = flat_map (fun x => g (f x)) l.
Proof. induction l; simpl; congruence. Qed.
Lemma map_flat_map {A B X} (f : A -> list B) (g : B -> X) l : map g (flat_map f l) = flat_map (fun x => map g (f x)) l.
Proof. induction l; simpl; auto. rewrite map_app. congruence. Qed.
Lemma flat_map_ext_in {A B} (f g : A -> list B) l : (forall x, In x l -> f x = g x) -> flat_map f l = flat_map g l.
Proof. induction l; simpl; intros H; auto. rewrite H by auto. rewrite IHl; auto. Qed.
Lemma flat_map_id_on {A} (f : A -> list A) l : (forall x, In x l -> f x = [x]) -> flat_map f l = l.
Proof. intros H. rewrite (flat_map_ext_in f (fun x => [x])) by exact H. apply flat_map_single. Qed.
Lemma nonempty_ex {A} (l : list A) : l <> [] <-> exists x, In x l.
Proof. destruct l; simpl; split; try congruence; eauto. intros [x []]. Qed.

(* ------------------------------------------------------------------ true results, sequential evaluation *)
Definition trues (rs : list res) : list env := map fst (filter (fun r : res => negb (snd r)) rs).
Lemma trues_app a b : trues (a ++ b) = trues a ++ trues b.
Proof. unfold trues. rewrite filter_app, map_app. reflexivity. Qed.
Lemma trues_flat_map {A} (f : A -> list res) l : trues (flat_map f l) = flat_map (fun x => trues (f x)) l.
Proof. induction l; simpl; auto. rewrite trues_app. congruence. Qed.
Lemma in_trues e rs : In e (trues rs) <-> In (e, false) rs.
Proof.
  unfold trues. rewrite in_map_iff. split.
  - intros [[e' f] [<- H]]. apply filter_In in H. destruct H as [H Hf]. simpl in *. destruct f; try discriminate. exact H.
  - intros H. exists (e, false). split; auto. apply filter_In. auto.
Qed.

Section Seq.
  Variable C : cmodel.
  Variable M : mworld.
  Variable D : list Z.

  Fixpoint eval_all (cs : list tcond) (e : env) : list env :=
    match cs with
    | [] => [e]
    | c :: cs' => flat_map (eval_all cs') (trues (eval C M D c e))
    end.

  Lemma eval_all_app xs ys e : eval_all (xs ++ ys) e = flat_map (eval_all ys) (eval_all xs e).
  Proof.
    revert e. induction xs as [|c xs IH]; intros e; simpl.
    - rewrite app_nil_r. reflexivity.
    - rewrite flat_map_flat_map. apply flat_map_ext_in. intros. apply IH.
  Qed.

  Lemma and_step (c : tcond) (rs : list res) :
    trues (flat_map (fun r : res => if snd r then [(fst r, true)] else eval C M D c (fst r)) rs)
    = flat_map (fun e => trues (eval C M D c e)) (trues rs).
  Proof.
    induction rs as [|[e f] rs IH]; simpl; auto.
    rewrite trues_app, IH. destruct f; simpl; auto.
  Qed.

  Lemma chain_trues cs : forall acc e,
    trues (eval_chain C M D acc cs e) = flat_map (eval_all cs) (trues (acc e)).
  Proof.
    induction cs as [|c cs IH]; intros acc e; simpl.
    - rewrite flat_map_single. reflexivity.
    - rewrite IH. rewrite and_step. rewrite flat_map_flat_map. reflexivity.
  Qed.

  (* the AND chain with its false results is the sequential evaluation of the true ones *)
  Lemma true_envs_seq cs : true_envs C M D cs = eval_all cs [].
  Proof.
    destruct cs as [|c cs]; simpl; auto.
    change (map fst (filter (fun r : res => negb (snd r)) (eval_chain C M D (eval C M D c) cs [])))
      with (trues (eval_chain C M D (eval C M D c) cs [])).
    apply chain_trues.
  Qed.
End Seq.

(* ------------------------------------------------------------------ paths *)
Fixpoint psize (p : path) : nat :=
  match p with PRoot => O | PAttr q _ => S (psize q) | PFlat q => S (psize q) end.
(* [under q x]: node x is q or lies below q *)
Fixpoint under (q x : path) : Prop :=
  x = q \/ match x with PRoot => False | PAttr x' _ => under q x' | PFlat x' => under q x' end.

Lemma under_refl q : under q q.
Proof. destruct q; simpl; auto. Qed.
Lemma under_size q x : under q x -> psize q <= psize x.
Proof. induction x; simpl; intros [H|H]; subst; simpl; auto; try contradiction; apply IHx in H; lia. Qed.
Lemma under_trans a b c : under a b -> under b c -> under a c.
Proof.
  intros Hab. induction c; simpl; intros [H|H]; subst; auto; try contradiction; right; auto.
Qed.
Lemma under_root x : under PRoot x.
Proof. induction x; simpl; auto. Qed.
Lemma under_attr q a : under q (PAttr q a).
Proof. simpl. right. apply under_refl. Qed.
Lemma under_flat q : under q (PFlat q).
Proof. simpl. right. apply under_refl. Qed.
Lemma under_antisym q x : under q x -> under x q -> x = q.
Proof.
  intros H1 H2. destruct x; simpl in H1; destruct H1 as [H1|H1]; auto; try contradiction;
    apply under_size in H1; apply under_size in H2; simpl in *; lia.
Qed.
Lemma under_attr_inj p a a' x : under (PAttr p a) x -> under (PAttr p a') x -> a = a'.
Proof.
  induction x; simpl; intros [H1|H1] [H2|H2]; try discriminate; try contradiction; auto; try congruence;
  repeat match goal with
  | H : PAttr _ _ = PAttr _ _ |- _ => injection H as ? ?; subst
  | H : under (PAttr ?p _) ?p |- _ => apply under_size in H; simpl in H; lia
  end.
Qed.

(* ------------------------------------------------------------------ bindings *)
Lemma lookup_cons q v e p : lookup ((q, v) :: e) p = if path_eq_dec q p then Some v else lookup e p.
Proof. reflexivity. Qed.
Lemma lookup_cons_eq q v e : lookup ((q, v) :: e) q = Some v.
Proof. rewrite lookup_cons. destruct (path_eq_dec q q); congruence. Qed.
Lemma lookup_cons_ne q v e p : q <> p -> lookup ((q, v) :: e) p = lookup e p.
Proof. intros. rewrite lookup_cons. destruct (path_eq_dec q p); congruence. Qed.

Definition ext (e' e : env) : Prop := forall p v, lookup e p = Some v -> lookup e' p = Some v.
Lemma ext_refl e : ext e e. Proof. red; auto. Qed.
Lemma ext_trans a b c : ext a b -> ext b c -> ext a c. Proof. unfold ext; auto. Qed.
Lemma ext_cons q v e : lookup e q = None -> ext ((q, v) :: e) e.
Proof. intros H p w Hp. rewrite lookup_cons_ne; auto. intros ->. congruence. Qed.

Section Paths.
  Variable C : cmodel.
  Variable M : mworld.
  Variable D : list Z.
  Notation W := (mw M).
  Notation eval_path := (eval_path M D).

  Lemma eval_path_eq p e :
    eval_path p e =
    match lookup e p with
    | Some v => [(e, v)]
    | None =>
        match p with
        | PRoot => map (fun o => ((PRoot, VO o) :: e, VO o)) D
        | PAttr q a => map (fun r : env * val => let v := getattr W (snd r) a in ((p, v) :: fst r, v)) (eval_path q e)
        | PFlat q => flat_map (fun r : env * val => map (fun x => ((p, x) :: fst r, x)) (elems (snd r))) (eval_path q e)
        end
    end.
  Proof. destruct p; reflexivity. Qed.

  Lemma eval_path_bound p e v : lookup e p = Some v -> eval_path p e = [(e, v)].
  Proof. intros H. rewrite eval_path_eq, H. reflexivity. Qed.

  (* what evaluating a node does to the bindings: binds the node, keeps what was bound, and binds nothing but
     ancestors of the node *)
  Lemma eval_path_props p : forall e e' v, In (e', v) (eval_path p e) ->
    lookup e' p = Some v /\ ext e' e /\ (forall x, lookup e x = None -> lookup e' x <> None -> under x p).
  Proof.
    induction p as [|q IH a|q IH]; intros e e' v; rewrite eval_path_eq; destruct (lookup e _) eqn:Hl.
    - intros [H|[]]. injection H as <- <-. split; auto. split; [apply ext_refl|]. intros x H1 H2. congruence.
    - rewrite in_map_iff. intros [o [H Ho]]. injection H as <- <-. split; [apply lookup_cons_eq|].
      split; [apply ext_cons; auto|]. intros x H1 H2. rewrite lookup_cons in H2.
      destruct (path_eq_dec PRoot x); [subst; apply under_refl|congruence].
    - intros [H|[]]. injection H as <- <-. split; auto. split; [apply ext_refl|]. intros x H1 H2. congruence.
    - rewrite in_map_iff. intros [[e1 u] [H Hin]]. simpl in H. injection H as <- <-.
      destruct (IH _ _ _ Hin) as [Hq [Hext Hfr]].
      split; [apply lookup_cons_eq|]. split.
      + intros x w Hx. rewrite lookup_cons_ne; auto. intros <-. congruence.
      + intros x H1 H2. rewrite lookup_cons in H2. destruct (path_eq_dec (PAttr q a) x); [subst; apply under_refl|].
        simpl. right. auto.
    - intros [H|[]]. injection H as <- <-. split; auto. split; [apply ext_refl|]. intros x H1 H2. congruence.
    - rewrite in_flat_map. intros [[e1 u] [Hin H]]. rewrite in_map_iff in H. destruct H as [y [H Hy]]. simpl in H.
      injection H as <- <-. destruct (IH _ _ _ Hin) as [Hq [Hext Hfr]].
      split; [apply lookup_cons_eq|]. split.
      + intros x w Hx. rewrite lookup_cons_ne; auto. intros <-. congruence.
      + intros x H1 H2. rewrite lookup_cons in H2. destruct (path_eq_dec (PFlat q) x); [subst; apply under_refl|].
        simpl. right. auto.
  Qed.

  Lemma eval_path_binds p e e' v : In (e', v) (eval_path p e) -> lookup e' p = Some v.
  Proof. intros H. apply eval_path_props in H. tauto. Qed.

  (* consistent bindings *)
  Definition pcond (e : env) (p : path) (v : val) : Prop :=
    match p with
    | PRoot => exists o, v = VO o /\ In o D
    | PAttr q a => exists u, lookup e q = Some u /\ v = getattr W u a
    | PFlat q => exists u, lookup e q = Some u /\ In v (elems u)
    end.
  Definition good (e : env) : Prop := forall p v, lookup e p = Some v -> pcond e p v.

  Lemma pcond_ext e e' p v : ext e' e -> pcond e p v -> pcond e' p v.
  Proof. intros Hx. destruct p; simpl; auto; intros [u [H1 H2]]; exists u; auto. Qed.
  Lemma good_cons e p v : good e -> lookup e p = None -> pcond e p v -> good ((p, v) :: e).
  Proof.
    intros Hg Hn Hp x w Hx. apply pcond_ext with e; [apply ext_cons; auto|].
    rewrite lookup_cons in Hx. destruct (path_eq_dec p x); [subst; congruence|auto].
  Qed.
  Lemma good_nil : good [].
  Proof. intros p v H. discriminate. Qed.

  (* explicit evaluation of an Attribute node and of the Flatten above it, from a bound parent *)
  Lemma eval_attr p a e u : lookup e p = Some u -> lookup e (PAttr p a) = None ->
    eval_path (PAttr p a) e = [((PAttr p a, getattr W u a) :: e, getattr W u a)].
  Proof. intros Hp Hn. rewrite eval_path_eq, Hn, (eval_path_bound _ _ _ Hp). reflexivity. Qed.
  Lemma eval_flat p a e u : lookup e p = Some u -> lookup e (PAttr p a) = None -> lookup e (PFlat (PAttr p a)) = None ->
    eval_path (PFlat (PAttr p a)) e =
    map (fun x => ((PFlat (PAttr p a), x) :: (PAttr p a, getattr W u a) :: e, x)) (elems (getattr W u a)).
  Proof.
    intros Hp Hn Hf. rewrite eval_path_eq, Hf, (eval_attr _ _ _ _ Hp Hn). simpl. rewrite app_nil_r. reflexivity.
  Qed.

  (* evaluating a node below q first evaluates q *)
  Lemma path_factor q pc : forall e, under q pc -> (forall x, under q x -> lookup e x = None) ->
    eval_path pc e = flat_map (fun r : env * val => eval_path pc (fst r)) (eval_path q e).
  Proof.
    induction pc as [|pc' IH a|pc' IH]; intros e Hu Hfr.
    - simpl in Hu. destruct Hu as [<-|[]]. symmetry. apply flat_map_id_on. intros [e1 v] Hin. cbn [fst snd].
      apply eval_path_bound. apply (eval_path_binds _ _ _ _ Hin).
    - simpl in Hu. destruct Hu as [<-|Hu].
      { symmetry. apply flat_map_id_on. intros [e1 v] Hin. cbn [fst snd]. apply eval_path_bound. apply (eval_path_binds _ _ _ _ Hin). }
      rewrite eval_path_eq. rewrite (Hfr (PAttr pc' a)) by (simpl; auto).
      rewrite (IH e Hu Hfr). rewrite map_flat_map. apply flat_map_ext_in. intros [e1 v] Hin. cbn [fst snd].
      symmetry. rewrite eval_path_eq.
      destruct (lookup e1 (PAttr pc' a)) eqn:Hl; auto.
      destruct (eval_path_props _ _ _ _ Hin) as [_ [_ Hnew]].
      assert (under (PAttr pc' a) q) by (apply Hnew; [apply Hfr; simpl; auto|congruence]).
      apply under_size in H. apply under_size in Hu. simpl in H. lia.
    - simpl in Hu. destruct Hu as [<-|Hu].
      { symmetry. apply flat_map_id_on. intros [e1 v] Hin. cbn [fst snd]. apply eval_path_bound. apply (eval_path_binds _ _ _ _ Hin). }
      rewrite eval_path_eq. rewrite (Hfr (PFlat pc')) by (simpl; auto).
      rewrite (IH e Hu Hfr). rewrite flat_map_flat_map. apply flat_map_ext_in. intros [e1 v] Hin. cbn [fst snd].
      symmetry. rewrite eval_path_eq.
      destruct (lookup e1 (PFlat pc')) eqn:Hl; auto.
      destruct (eval_path_props _ _ _ _ Hin) as [_ [_ Hnew]].
      assert (under (PFlat pc') q) by (apply Hnew; [apply Hfr; simpl; auto|congruence]).
      apply under_size in H. apply under_size in Hu. simpl in H. lia.
  Qed.
End Paths.

(* ------------------------------------------------------------------ exists_scan *)
Lemma exists_scan_sub ks rs : forall seen e f, In (e, f) (exists_scan ks seen rs) -> f = false /\ In (e, false) rs.
Proof.
  induction rs as [|[e1 f1] rs IH]; simpl; intros seen e f H; [contradiction|].
  destruct f1.
  - apply IH in H. tauto.
  - destruct (in_dec key_eq_dec _ seen).
    + apply IH in H. tauto.
    + destruct H as [H|H]; [injection H as <- <-; auto|]. apply IH in H. tauto.
Qed.
Lemma exists_scan_first ks rs : (exists e, In (e, false) rs) -> exists_scan ks [] rs <> [].
Proof.
  induction rs as [|[e1 f1] rs IH]; intros [e H]; simpl in *; [contradiction|].
  destruct f1; [|discriminate].
  destruct H as [H|H]; [discriminate|]. apply IH. eauto.
Qed.

(* a true result is kept iff it is the first true result with its key, and the key was not seen before *)
Lemma scan_spec ks rs : forall seen e,
  In (e, false) (exists_scan ks seen rs) <->
  exists pre post, rs = pre ++ (e, false) :: post /\ ~ In (keyof ks e) seen /\
                   (forall e0, In (e0, false) pre -> keyof ks e0 <> keyof ks e).
Proof.
  induction rs as [|[e1 f1] rs IH]; intros seen e; simpl.
  - split; [tauto|]. intros [pre [post [H _]]]. destruct pre; discriminate.
  - destruct f1.
    + rewrite IH. split.
      * intros [pre [post [-> [Hs Hp]]]]. exists ((e1, true) :: pre), post. split; auto. split; auto.
        intros e0 [H|H]; [discriminate|auto].
      * intros [pre [post [Heq [Hs Hp]]]]. destruct pre as [|r pre]; simpl in Heq; [discriminate|].
        injection Heq as ? ?; subst. exists pre, post. split; auto. split; auto. intros e0 H. apply Hp. simpl; auto.
    + destruct (in_dec key_eq_dec (keyof ks e1) seen) as [Hin|Hnin].
      * rewrite IH. split.
        -- intros [pre [post [-> [Hs Hp]]]]. exists ((e1, false) :: pre), post. split; auto. split; auto.
           intros e0 [H|H]; [injection H as <-; congruence|auto].
        -- intros [pre [post [Heq [Hs Hp]]]]. destruct pre as [|r pre]; simpl in Heq.
           ++ injection Heq as ? ?; subst. contradiction.
           ++ injection Heq as ? ?; subst. exists pre, post. split; auto. split; auto. intros e0 H. apply Hp. simpl; auto.
      * simpl. rewrite IH. split.
        -- intros [H|[pre [post [-> [Hs Hp]]]]].
           ++ injection H as <-. exists [], rs. split; [reflexivity|]. split; [exact Hnin|]. intros e0 [].
           ++ exists ((e1, false) :: pre), post. split; auto. split; [intros H; apply Hs; simpl; auto|].
              intros e0 [H|H]; [injection H as <-; intros Hk; apply Hs; simpl; auto|auto].
        -- intros [pre [post [Heq [Hs Hp]]]]. destruct pre as [|r pre]; simpl in Heq.
           ++ injection Heq as ? ?; subst. auto.
           ++ injection Heq as ? ?; subst. right. exists pre, post. split; auto. split.
              ** intros [H|H]; [|contradiction]. apply (Hp e1); simpl; auto.
              ** intros e0 H. apply Hp. simpl; auto.
Qed.

Lemma keyof_differs ks q e1 e2 : In q ks -> lookup e1 q <> lookup e2 q -> keyof ks e1 <> keyof ks e2.
Proof.
  unfold keyof. induction ks as [|k ks IH]; simpl; [intros []|].
  intros [->|Hin] Hne Heq; injection Heq as H1 H2; auto. apply IH; auto.
Qed.

Lemma flat_map_split {A B} (R : A -> list B) : forall L pre r post, flat_map R L = pre ++ r :: post ->
  exists L1 x L2 p1 p2, L = L1 ++ x :: L2 /\ R x = p1 ++ r :: p2 /\ pre = flat_map R L1 ++ p1.
Proof.
  induction L as [|x L IH]; intros pre r post H; simpl in H.
  - destruct pre; discriminate.
  - apply app_eq_app in H. destruct H as [l [[H1 H2]|[H1 H2]]].
    + destruct l as [|r0 l].
      * simpl in H2. symmetry in H2. rewrite app_nil_r in H1. change (r :: post) with ([] ++ r :: post) in H2.
        apply IH in H2. destruct H2 as [L1 [y [L2 [p1 [p2 [-> [Hy Hp]]]]]]].
        exists (x :: L1), y, L2, p1, p2. split; auto. split; auto. simpl. rewrite <- app_assoc, <- Hp, app_nil_r. auto.
      * simpl in H2. injection H2 as <- ->. exists [], x, L, pre, l. auto.
    + apply IH in H2. destruct H2 as [L1 [y [L2 [p1 [p2 [-> [Hy Hp]]]]]]].
      exists (x :: L1), y, L2, p1, p2. split; auto. split; auto. simpl. rewrite <- app_assoc, <- Hp. auto.
Qed.

Lemma first_gid {A} (gid : A -> val) (x : A) : forall L, In x L ->
  exists L1 y L2, L = L1 ++ y :: L2 /\ gid y = gid x /\ forall z, In z L1 -> gid z <> gid x.
Proof.
  induction L as [|z L IH]; intros Hin; [contradiction|].
  destruct (val_eq_dec (gid z) (gid x)) as [He|Hne].
  - exists [], z, L. split; [reflexivity|]. split; [exact He|]. intros ? [].
  - destruct Hin as [->|Hin]; [congruence|]. destruct (IH Hin) as [L1 [y [L2 [-> [Hy Hz]]]]].
    exists (z :: L1), y, L2. split; auto. split; auto. intros w [<-|Hw]; auto.
Qed.

(* results grouped by the value of a node that is part of the key: the scan works group by group *)
Lemma scan_chunks {A} ks (R : A -> list res) (gid : A -> val) (q : path) (L : list A) :
  In q ks ->
  (forall x r, In x L -> In r (R x) -> lookup (fst r) q = Some (gid x)) ->
  (forall x y, In x L -> In y L -> gid x = gid y -> x = y) ->
  forall e, In (e, false) (exists_scan ks [] (flat_map R L)) <-> exists x, In x L /\ In (e, false) (exists_scan ks [] (R x)).
Proof.
  intros Hq HR Hinj e. split.
  - intros H. apply scan_spec in H. destruct H as [pre [post [Heq [_ Hp]]]].
    apply flat_map_split in Heq. destruct Heq as [L1 [x [L2 [p1 [p2 [-> [Hx ->]]]]]]].
    exists x. split; [apply in_or_app; simpl; auto|]. apply scan_spec. exists p1, p2. split; auto. split; auto.
    intros e0 H0. apply Hp. apply in_or_app. auto.
  - intros [x [Hx H]]. apply scan_spec in H. destruct H as [p1 [p2 [Heq [_ Hp]]]].
    destruct (first_gid gid x L Hx) as [L1 [y [L2 [HL [Hy Hz]]]]].
    assert (y = x). { apply Hinj; auto. rewrite HL. apply in_or_app; simpl; auto. } subst y.
    apply scan_spec. exists (flat_map R L1 ++ p1), (p2 ++ flat_map R L2). split.
    + rewrite HL, flat_map_app. simpl. rewrite Heq. rewrite <- !app_assoc. reflexivity.
    + split; auto. intros e0 H0. apply in_app_or in H0. destruct H0 as [H0|H0]; auto.
      apply in_flat_map in H0. destruct H0 as [z [Hz1 Hz2]].
      apply (keyof_differs ks q); auto.
      assert (Hzin : In z L) by (rewrite HL; apply in_or_app; auto).
      pose proof (HR z (e0, false) Hzin Hz2) as Ha. simpl in Ha.
      assert (He : In (e, false) (R x)) by (rewrite Heq; apply in_or_app; simpl; auto).
      pose proof (HR x (e, false) Hx He) as Hb. simpl in Hb. rewrite Ha, Hb.
      intros Hc. injection Hc as Hc. apply (Hz z Hz1). exact Hc.
Qed.

(* ------------------------------------------------------------------ conditions *)
Definition cpath (c : tcond) : path := match c with TCmp _ _ p _ => p | THas p _ => p | TVar _ p _ => p end.
Definition is_ex (c : tcond) : bool := match c with TCmp true _ _ _ => true | _ => false end.

Lemma flats_in r : forall q, under (PFlat r) q -> In (PFlat r) (flats q).
Proof.
  induction q; simpl; intros [H|H]; try discriminate; try contradiction; auto.
Qed.

Section Conds.
  Variable C : cmodel.
  Variable M : mworld.
  Variable D : list Z.
  Notation W := (mw M).
  Notation eval_path := (eval_path M D).
  Notation eval := (eval C M D).
  Notation eval_all := (eval_all C M D).

  Lemma eval_factor1 c q e e1 v : under q (cpath c) -> (forall x, under q x -> lookup e x = None) ->
    eval_path q e = [(e1, v)] -> eval c e = eval c e1.
  Proof.
    intros Hu Hfr H1. destruct c as [ex k p lit|p T|k p lit]; simpl in *; [| |reflexivity];
      rewrite (path_factor M D q p e Hu Hfr), H1; simpl; rewrite app_nil_r; reflexivity.
  Qed.
  Lemma eval_factor c q e : is_ex c = false -> under q (cpath c) -> (forall x, under q x -> lookup e x = None) ->
    eval c e = flat_map (fun r : env * val => eval c (fst r)) (eval_path q e).
  Proof.
    intros Hx Hu Hfr. destruct c as [ex k p lit|p T|k p lit]; simpl in *.
    - destruct ex; [discriminate|]. rewrite (path_factor M D q p e Hu Hfr). rewrite map_flat_map. reflexivity.
    - rewrite (path_factor M D q p e Hu Hfr). rewrite map_flat_map. reflexivity.
    - induction (eval_path q e); simpl; auto.
  Qed.
  Lemma eval_all_factor1 c cs q e e1 v : under q (cpath c) -> (forall x, under q x -> lookup e x = None) ->
    eval_path q e = [(e1, v)] -> eval_all (c :: cs) e = eval_all (c :: cs) e1.
  Proof. intros Hu Hf H1. simpl. rewrite (eval_factor1 c q e e1 v Hu Hf H1). reflexivity. Qed.

  (* the first condition evaluated below an unbound node q: one independent evaluation per value of q -- also for an
     exists(...), because q is part of its key *)
  Lemma eval_all_split c cs q e :
    under q (cpath c) -> (forall x, under q x -> lookup e x = None) ->
    (is_ex c = true -> In q (exists_keys (cpath c)) /\
       (forall r1 r2, In r1 (eval_path q e) -> In r2 (eval_path q e) -> snd r1 = snd r2 -> r1 = r2)) ->
    forall e', In e' (eval_all (c :: cs) e) <-> exists r, In r (eval_path q e) /\ In e' (eval_all (c :: cs) (fst r)).
  Proof.
    intros Hu Hfr Hex e'. destruct (is_ex c) eqn:Hx.
    - destruct c as [[|] k pc v| |]; try discriminate. destruct (Hex eq_refl) as [Hq Hinj]. simpl in Hu, Hq.
      assert (Hscan : forall e1, In (e1, false) (eval (TCmp true k pc v) e) <->
                exists r, In r (eval_path q e) /\ In (e1, false) (eval (TCmp true k pc v) (fst r))).
      { intros e1. unfold Match.eval. rewrite (path_factor M D q pc e Hu Hfr), map_flat_map.
        apply (scan_chunks (exists_keys pc)
                 (fun r : env * val => map (fun r0 : env * val => (fst r0, negb (cmp M k (snd r0) v))) (eval_path pc (fst r)))
                 snd q (eval_path q e) Hq); auto.
        intros r r' Hr Hr'. apply in_map_iff in Hr'. destruct Hr' as [[e2 v2] [<- Hin]]. cbn [fst].
        destruct r as [er vr]. cbn [fst snd] in *.
        destruct (eval_path_props M D _ _ _ _ Hin) as [_ [Hx2 _]]. apply Hx2. apply (eval_path_binds M D _ _ _ _ Hr). }
      simpl eval_all. rewrite in_flat_map. split.
      + intros [e1 [H1 H2]]. apply in_trues in H1. apply Hscan in H1. destruct H1 as [r [Hr H1]].
        exists r. split; auto. apply in_flat_map. exists e1. split; auto. apply in_trues. exact H1.
      + intros [r [Hr H]]. apply in_flat_map in H. destruct H as [e1 [H1 H2]]. apply in_trues in H1.
        exists e1. split; auto. apply in_trues. apply Hscan. eauto.
    - simpl eval_all. rewrite (eval_factor c q e Hx Hu Hfr), trues_flat_map, flat_map_flat_map, in_flat_map. reflexivity.
  Qed.
End Conds.

(* ------------------------------------------------------------------ unfolding equations of the mutual fixpoints *)
Lemma tr_pat_eq C oc p a t l :
  tr_pat C oc p a (Pat t l) =
  nested_filter C oc p a t (negb (is_anil l)) ++ tr_alist C (dflt (f_type C oc a)) (nested_var C oc p a t (negb (is_anil l))) l.
Proof. reflexivity. Qed.
Lemma tr_alist_cons C oc p a c rest : tr_alist C oc p (ACons a c rest) = tr_apat C oc p a c ++ tr_alist C oc p rest.
Proof. reflexivity. Qed.
Lemma fok_pat_eq C objcls st oc p a t l :
  fok_pat C objcls st oc p a (Pat t l) =
  let d := dflt (f_type C oc a) in
  let pv := nested_var C oc p a t (negb (is_anil l)) in
  is_some (f_type C oc a) && objcls d
  && (if f_iter C oc a then type_filter C oc a t || negb st || head_ok (tr_alist C d pv l) else true)
  && fok_alist C objcls st d pv l.
Proof. reflexivity. Qed.
Lemma fok_alist_cons C objcls st oc p a c rest :
  fok_alist C objcls st oc p (ACons a c rest) =
  negb (nmemb a (names rest)) && fok_apat C objcls st oc p a c && fok_alist C objcls st oc p rest.
Proof. reflexivity. Qed.
Lemma matches_eq sub M t l o : matches sub M (Pat t l) o = type_ok sub M t o && matches_attrs sub M l o.
Proof. reflexivity. Qed.
Lemma matches_attr_coll sub M q xs : matches_attr sub M (PMatch q) (VLO xs) = existsb (matches sub M q) xs.
Proof. reflexivity. Qed.
Lemma matches_attr_obj sub M q o' : matches_attr sub M (PMatch q) (VO o') = matches sub M q o'.
Proof. reflexivity. Qed.
Lemma lax_alist_cons C M oc p a c rest o :
  lax_alist C M oc p (ACons a c rest) o = lax_apat C M oc p a c (attr (mw M) o a) && lax_alist C M oc p rest o.
Proof. reflexivity. Qed.
Lemma lax_match_obj C M oc p a t l o' :
  lax_apat C M oc p a (PMatch (Pat t l)) (VO o') =
  type_ok (sub C) M t o' && lax_alist C M (dflt (f_type C oc a)) (nested_var C oc p a t (negb (is_anil l))) l o'.
Proof. reflexivity. Qed.
Lemma lax_match_coll C M oc p a t l xs :
  lax_apat C M oc p a (PMatch (Pat t l)) (VLO xs) =
  let d := dflt (f_type C oc a) in
  let pv := nested_var C oc p a t (negb (is_anil l)) in
  if f_iter C oc a && negb (type_filter C oc a t) && cnil (tr_alist C d pv l) then true
  else existsb (fun x => type_ok (sub C) M t x && lax_alist C M d pv l x) xs.
Proof. reflexivity. Qed.
Lemma matches_attrs_cons sub M a c rest o :
  matches_attrs sub M (ACons a c rest) o = matches_attr sub M c (attr (mw M) o a) && matches_attrs sub M rest o.
Proof. reflexivity. Qed.

Lemma sels_pat_eq C s oc p a t l :
  sels_pat C s oc p a (Pat t l) =
  (if s then PAttr p a :: (match nested_var C oc p a t (negb (is_anil l)) with PFlat _ => [nested_var C oc p a t (negb (is_anil l))] | _ => [] end) else [])
  ++ sels_alist C (dflt (f_type C oc a)) (nested_var C oc p a t (negb (is_anil l))) l.
Proof. reflexivity. Qed.
Lemma sels_alist_cons C oc p a c rest : sels_alist C oc p (ACons a c rest) = sels_apat C false oc p a c ++ sels_alist C oc p rest.
Proof. reflexivity. Qed.
Lemma srows_pat_obj sub M s t l o' :
  srows_pat sub M s (Pat t l) (VO o') = guard (type_ok sub M t o') (map (app (cols s [VO o'])) (srows_alist sub M l o')).
Proof. reflexivity. Qed.
Lemma srows_pat_coll sub M s t l xs :
  srows_pat sub M s (Pat t l) (VLO xs) =
  flat_map (fun x => guard (type_ok sub M t x) (map (app (cols s [VLO xs; VO x])) (srows_alist sub M l x))) xs.
Proof. reflexivity. Qed.
Lemma srows_alist_cons sub M a c rest o :
  srows_alist sub M (ACons a c rest) o =
  flat_map (fun r1 => map (app r1) (srows_alist sub M rest o)) (srows_apat sub M false c (attr (mw M) o a)).
Proof. reflexivity. Qed.

(* ------------------------------------------------------------------ where the emitted conditions live *)
Section TrUnder.
  Variable C : cmodel.
  Lemma infer_under ai vi im un ex pa v : under pa (cpath (infer ai vi im un ex pa v)).
  Proof. unfold infer. destruct (infer_kind ai vi im un); cbn [cpath]; auto using under_refl, under_flat. Qed.
  Lemma infer_var_under ai vi pa v : under pa (cpath (infer_var ai vi pa v)).
  Proof. unfold infer_var. destruct (infer_kind ai vi false false); cbn [cpath]; auto using under_refl, under_flat. Qed.
  Lemma nested_var_under oc p a t kw : under (PAttr p a) (nested_var C oc p a t kw).
  Proof. unfold nested_var. destruct (resolve_flatten _ _ _); [apply under_flat|apply under_refl]. Qed.
  Lemma nested_filter_under oc p a t kw c : In c (nested_filter C oc p a t kw) -> under (PAttr p a) (cpath c).
  Proof.
    unfold nested_filter. destruct (type_filter C oc a t); simpl; [|tauto]. intros [<-|[]]. simpl. apply nested_var_under.
  Qed.
  Lemma tr_vals_under oc p a v un ex c : In c (tr_vals C oc p a v un ex) -> under (PAttr p a) (cpath c).
  Proof.
    unfold tr_vals. destruct (em_kind _ _ _ _); destruct (unresolved _ _); simpl;
      try (apply nested_filter_under); intros [<-|[]]; apply infer_under.
  Qed.

  Lemma tr_under :
    (forall q oc p a c, In c (tr_pat C oc p a q) -> under (PAttr p a) (cpath c)) /\
    (forall l oc p c, In c (tr_alist C oc p l) -> under p (cpath c)) /\
    (forall ap oc p a c, In c (tr_apat C oc p a ap) -> under (PAttr p a) (cpath c)).
  Proof.
    apply pat_mutind.
    - intros t l IH oc p a c. rewrite tr_pat_eq, in_app_iff. intros [H|H]; [eapply nested_filter_under; eauto|].
      eapply IH in H. eapply under_trans; [apply nested_var_under|exact H].
    - intros oc p c [].
    - intros a ap IHa rest IHr oc p c. rewrite tr_alist_cons, in_app_iff. intros [H|H]; [|eapply IHr; exact H].
      eapply IHa in H. eapply under_trans; [apply under_attr|exact H].
    - intros v oc p a c [<-|[]]. apply infer_under.
    - intros q IH oc p a c. simpl. apply IH.
    - intros v oc p a c. simpl. apply tr_vals_under.
    - intros v oc p a c. simpl. apply tr_vals_under.
    - intros v oc p a c. simpl. intros [<-|[]]. apply infer_var_under.
    - intros c' IH oc p a c. simpl. apply IH.
  Qed.
  Lemma tr_alist_under_attr l : forall oc p c, In c (tr_alist C oc p l) -> exists a, under (PAttr p a) (cpath c).
  Proof.
    induction l as [|a ap rest IH]; intros oc p c; [intros []|].
    rewrite tr_alist_cons, in_app_iff. intros [H|H]; [|eapply IH; exact H].
    exists a. eapply (proj2 (proj2 tr_under)); exact H.
  Qed.
End TrUnder.

(* ------------------------------------------------------------------ values *)
Section Values.
  Variable M : mworld.
  Notation W := (mw M).

  Lemma py_eq_sym x y : py_eq W x y = py_eq W y x.
  Proof.
    destruct x as [a|a|l|l], y as [b|b|m|m]; simpl; try reflexivity; try apply Z.eqb_sym;
      try (destruct l; reflexivity); try (destruct m; reflexivity); try (destruct l, m; simpl; try reflexivity; apply andb_comm).
  Qed.
  Lemma existsb_ext' {A} (f g : A -> bool) l : (forall x, f x = g x) -> existsb f l = existsb g l.
  Proof. intros H. induction l; simpl; auto. rewrite H, IHl. reflexivity. Qed.
  Lemma forallb_ext' {A} (f g : A -> bool) l : (forall x, f x = g x) -> forallb f l = forallb g l.
  Proof. intros H. induction l; simpl; auto. rewrite H, IHl. reflexivity. Qed.

  Lemma common_scalar_lit av v : is_coll av = true -> is_coll v = false -> common M av v = vmem M v (elems av).
  Proof.
    intros Ha Hv. unfold common, as_elems. rewrite Ha, Hv. unfold vmem. apply existsb_ext'. intros x. simpl.
    rewrite orb_false_r. apply py_eq_sym.
  Qed.
  Lemma common_coll av v : is_coll av = true -> is_coll v = true ->
    common M av v = existsb (fun x => vmem M x (elems v)) (elems av).
  Proof. intros Ha Hv. unfold common, as_elems. rewrite Ha, Hv. reflexivity. Qed.
  Lemma common_scalar_attr av v : is_coll av = false -> is_coll v = true -> common M av v = vmem M av (elems v).
  Proof. intros Ha Hv. unfold common, as_elems. rewrite Ha, Hv. simpl. apply orb_false_r. Qed.

  Lemma vmem_obj x m : vmem M (VO x) (map VO m) = zmem (okey W x) (map (okey W) m).
  Proof. unfold vmem, zmem. induction m; simpl; auto. rewrite IHm. reflexivity. Qed.
  Lemma subset_obj xs m : forallb (fun x => vmem M x (map VO m)) (map VO xs) = zsubset (map (okey W) xs) (map (okey W) m).
  Proof. unfold zsubset. induction xs; simpl; auto. rewrite vmem_obj, IHxs. reflexivity. Qed.
  Lemma same_set_obj xs m : same_set M (VLO xs) (VLO m) = py_eq W (VLO xs) (VLO m).
  Proof. unfold same_set, as_elems. simpl. rewrite !subset_obj. destruct xs, m; reflexivity. Qed.
End Values.

(* ------------------------------------------------------------------ strict fragment: the relaxed reading is the Spec *)
Lemma fok_mono C objcls :
  (forall q oc p a, fok_pat C objcls true oc p a q = true -> fok_pat C objcls false oc p a q = true) /\
  (forall l oc p, fok_alist C objcls true oc p l = true -> fok_alist C objcls false oc p l = true) /\
  (forall c oc p a, fok_apat C objcls true oc p a c = true -> fok_apat C objcls false oc p a c = true).
Proof.
  apply pat_mutind.
  - intros t l IH oc p a. rewrite !fok_pat_eq. cbv zeta. intros H.
    apply andb_true_iff in H. destruct H as [H Hal]. apply andb_true_iff in H. destruct H as [H Hh].
    rewrite H, (IH _ _ Hal). simpl. destruct (f_iter C oc a); auto. rewrite orb_true_r. reflexivity.
  - auto.
  - intros a c IHc rest IHr oc p. rewrite !fok_alist_cons. intros H.
    apply andb_true_iff in H. destruct H as [H Hr]. apply andb_true_iff in H. destruct H as [Hn Hc].
    rewrite Hn, (IHc _ _ _ Hc), (IHr _ _ Hr). reflexivity.
  - auto.
  - intros q IH oc p a H. apply IH. exact H.
  - auto.
  - auto.
  - auto.
  - intros c IH oc p a H. specialize (IH oc p a). destruct c; simpl in *; try discriminate; auto.
Qed.

Lemma lax_strict C objcls M :
  (forall q oc p a v, fok_pat C objcls true oc p a q = true -> lax_pat C M oc p a q v = matches_attr (sub C) M (PMatch q) v) /\
  (forall l oc p o, fok_alist C objcls true oc p l = true -> lax_alist C M oc p l o = matches_attrs (sub C) M l o) /\
  (forall c oc p a v, fok_apat C objcls true oc p a c = true -> lax_apat C M oc p a c v = matches_attr (sub C) M c v).
Proof.
  apply pat_mutind.
  - intros t l IH oc p a v. rewrite fok_pat_eq. cbv zeta. intros H.
    apply andb_true_iff in H. destruct H as [H Hal]. apply andb_true_iff in H. destruct H as [_ Hh].
    destruct v as [z|o'|zs|xs]; try reflexivity.
    + rewrite matches_attr_obj, matches_eq. change (lax_pat C M oc p a (Pat t l) (VO o')) with (lax_apat C M oc p a (PMatch (Pat t l)) (VO o')).
      rewrite lax_match_obj, (IH _ _ o' Hal). reflexivity.
    + rewrite matches_attr_coll. change (lax_pat C M oc p a (Pat t l) (VLO xs)) with (lax_apat C M oc p a (PMatch (Pat t l)) (VLO xs)).
      rewrite lax_match_coll. cbv zeta.
      assert (Hc : f_iter C oc a && negb (type_filter C oc a t) &&
                   cnil (tr_alist C (dflt (f_type C oc a)) (nested_var C oc p a t (negb (is_anil l))) l) = false).
      { destruct (f_iter C oc a); auto. destruct (type_filter C oc a t); auto. simpl in Hh. simpl.
        destruct (tr_alist C _ _ l); auto; try discriminate. }
      rewrite Hc. apply existsb_ext'. intros x. rewrite matches_eq, (IH _ _ x Hal). reflexivity.
  - reflexivity.
  - intros a c IHc rest IHr oc p o. rewrite fok_alist_cons. intros H.
    apply andb_true_iff in H. destruct H as [H Hr]. apply andb_true_iff in H. destruct H as [_ Hc].
    rewrite lax_alist_cons, matches_attrs_cons, (IHc _ _ _ _ Hc), (IHr _ _ _ Hr). reflexivity.
  - reflexivity.
  - intros q IH oc p a v H. apply IH. exact H.
  - reflexivity.
  - reflexivity.
  - reflexivity.
  - intros c IH oc p a v H. simpl in H. change (lax_apat C M oc p a (PSel c) v) with (lax_apat C M oc p a c v).
    change (matches_attr (sub C) M (PSel c) v) with (matches_attr (sub C) M c v).
    destruct c; try discriminate; apply IH; exact H.
Qed.

(* the Spec's answers are always among those of the relaxed reading (whatever the pattern) *)
Lemma lax_weaker C M :
  (forall q oc p a v, matches_attr (sub C) M (PMatch q) v = true -> lax_pat C M oc p a q v = true) /\
  (forall l oc p o, matches_attrs (sub C) M l o = true -> lax_alist C M oc p l o = true) /\
  (forall c oc p a v, matches_attr (sub C) M c v = true -> lax_apat C M oc p a c v = true).
Proof.
  apply pat_mutind.
  - intros t l IH oc p a v. destruct v as [z|o'|zs|xs]; try (intros H; exact H).
    + rewrite matches_attr_obj, matches_eq. change (lax_pat C M oc p a (Pat t l) (VO o')) with (lax_apat C M oc p a (PMatch (Pat t l)) (VO o')).
      rewrite lax_match_obj. intros H. apply andb_true_iff in H. destruct H as [H1 H2]. rewrite H1, (IH _ _ _ H2). reflexivity.
    + rewrite matches_attr_coll. change (lax_pat C M oc p a (Pat t l) (VLO xs)) with (lax_apat C M oc p a (PMatch (Pat t l)) (VLO xs)).
      rewrite lax_match_coll. cbv zeta. destruct (_ && _ && cnil _); auto.
      rewrite !existsb_exists. intros [x [Hx H]]. exists x. split; auto. rewrite matches_eq in H.
      apply andb_true_iff in H. destruct H as [H1 H2]. rewrite H1, (IH _ _ _ H2). reflexivity.
  - reflexivity.
  - intros a c IHc rest IHr oc p o. rewrite lax_alist_cons, matches_attrs_cons. intros H.
    apply andb_true_iff in H. destruct H as [H1 H2]. rewrite (IHc _ _ _ _ H1), (IHr _ _ _ H2). reflexivity.
  - intros v oc p a w H. exact H.
  - intros q IH oc p a v H. apply IH. exact H.
  - intros v oc p a w H. exact H.
  - intros v oc p a w H. exact H.
  - intros v oc p a w H. exact H.
  - intros c IH oc p a v H. apply (IH oc p a v). exact H.
Qed.

(* ------------------------------------------------------------------ the main induction *)
Lemma tr_apat_match C oc p a q : tr_apat C oc p a (PMatch q) = tr_pat C oc p a q.
Proof. reflexivity. Qed.

Section Main.
  Variable C : cmodel.
  Variable objcls : cls -> bool.
  Variable M : mworld.
  Variable D : list Z.
  Hypothesis Htrans : sub_trans C.
  Hypothesis Htyped : typed C objcls M.
  Notation W := (mw M).
  Notation eval_path := (eval_path M D).
  Notation eval := (eval C M D).
  Notation eval_all := (eval_all C M D).
  Notation good := (good M D).

  Definition fresh (e : env) (q : path) : Prop := forall x, under q x -> lookup e x = None.
  Definition frame (q : path) (e e' : env) : Prop := forall x, lookup e x = None -> lookup e' x <> None -> under q x.
  Definition inst (o : Z) (oc : cls) : Prop := sub C (otype M o) oc = true.

  Lemma eval_all_single c e : eval_all [c] e = trues (eval c e).
  Proof. simpl. apply flat_map_single. Qed.

  Lemma fresh_cons e q p0 v : fresh e q -> ~ under q p0 -> fresh ((p0, v) :: e) q.
  Proof. intros Hf Hn x Hx. rewrite lookup_cons_ne; auto. intros <-. auto. Qed.

  (* binding the Attribute node pa = p.a from a bound parent *)
  Lemma bind_attr e p a o : good e -> lookup e p = Some (VO o) -> fresh e (PAttr p a) ->
    let pa := PAttr p a in let av := attr W o a in let e1 := (pa, av) :: e in
    eval_path pa e = [(e1, av)] /\ good e1 /\ ext e1 e /\ frame pa e e1 /\ lookup e1 pa = Some av.
  Proof.
    intros Hg Hp Hf pa av e1. assert (Hn : lookup e pa = None) by (apply Hf, under_refl).
    split; [exact (eval_attr M D p a e (VO o) Hp Hn)|].
    split; [apply good_cons; auto; simpl; eauto|].
    split; [apply ext_cons; auto|]. split; [|apply lookup_cons_eq].
    intros x H1 H2. unfold e1 in H2. rewrite lookup_cons in H2. destruct (path_eq_dec pa x); [subst; apply under_refl|congruence].
  Qed.
  (* ... and the Flatten node above it, for one element *)
  Lemma bind_flat e p a o x : good e -> lookup e p = Some (VO o) -> fresh e (PAttr p a) -> In x (elems (attr W o a)) ->
    let pa := PAttr p a in let pf := PFlat pa in let av := attr W o a in let e2 := (pf, x) :: (pa, av) :: e in
    good e2 /\ ext e2 e /\ frame pa e e2 /\ lookup e2 pf = Some x.
  Proof.
    intros Hg Hp Hf Hx pa pf av e2.
    destruct (bind_attr e p a o Hg Hp Hf) as [_ [Hg1 [Hx1 [Hfr1 Hl1]]]]. fold pa av in Hg1, Hx1, Hfr1, Hl1.
    assert (Hn : lookup ((pa, av) :: e) pf = None).
    { rewrite lookup_cons_ne by discriminate. apply Hf. apply under_flat. }
    split; [apply good_cons; auto; simpl; eauto|].
    split; [eapply ext_trans; [apply ext_cons; exact Hn|exact Hx1]|]. split; [|apply lookup_cons_eq].
    intros y H1 H2. unfold e2 in H2. rewrite lookup_cons in H2. destruct (path_eq_dec pf y); [subst; apply under_flat|].
    apply Hfr1; auto.
  Qed.
  Lemma eval_flat_from e p a o : lookup e p = Some (VO o) -> fresh e (PAttr p a) ->
    eval_path (PFlat (PAttr p a)) e =
    map (fun x => ((PFlat (PAttr p a), x) :: (PAttr p a, attr W o a) :: e, x)) (elems (attr W o a)).
  Proof.
    intros Hp Hf. apply (eval_flat M D p a e (VO o) Hp); apply Hf; [apply under_refl|apply under_flat].
  Qed.

  (* the statements proved by mutual induction on the pattern *)
  Definition concl (q : path) (cs : list tcond) (e : env) (b : bool) : Prop :=
    (forall e', In e' (eval_all cs e) -> good e' /\ ext e' e /\ frame q e e') /\ (eval_all cs e <> [] <-> b = true).
  Definition A_stmt (l : alist) : Prop := forall oc p e o,
    good e -> lookup e p = Some (VO o) -> inst o oc -> (forall a, In a (names l) -> fresh e (PAttr p a)) ->
    fok_alist C objcls false oc p l = true ->
    (forall e', In e' (eval_all (tr_alist C oc p l) e) ->
       good e' /\ ext e' e /\
       (forall x, lookup e x = None -> lookup e' x <> None -> exists a, In a (names l) /\ under (PAttr p a) x))
    /\ (eval_all (tr_alist C oc p l) e <> [] <-> lax_alist C M oc p l o = true).
  Definition C_stmt (c : apat) : Prop := forall oc p a e o,
    good e -> lookup e p = Some (VO o) -> inst o oc -> fresh e (PAttr p a) ->
    fok_apat C objcls false oc p a c = true ->
    concl (PAttr p a) (tr_apat C oc p a c) e (lax_apat C M oc p a c (attr W o a)).
  Definition P_stmt (q : pat) : Prop := C_stmt (PMatch q).

  (* running the nested keyword list from bindings in which the nested variable pv is bound *)
  Lemma nested_run l' : A_stmt l' -> forall d p a pv e ein o',
    under (PAttr p a) pv -> good ein -> ext ein e -> frame (PAttr p a) e ein -> lookup ein pv = Some (VO o') ->
    inst o' d -> (forall a', fresh ein (PAttr pv a')) -> fok_alist C objcls false d pv l' = true ->
    concl (PAttr p a) (tr_alist C d pv l') ein (lax_alist C M d pv l' o') /\
    (forall e', In e' (eval_all (tr_alist C d pv l') ein) -> ext e' e /\ frame (PAttr p a) e e').
  Proof.
    intros IH d p a pv e ein o' Hu Hg Hx Hfr Hl Hi Hfresh Hok.
    destruct (IH d pv ein o' Hg Hl Hi (fun a' _ => Hfresh a') Hok) as [H1 H2].
    split; [split; auto|].
    - intros e' Hin. destruct (H1 e' Hin) as [Hg' [Hx' Hn']]. split; auto. split; auto.
      intros x Hnone Hsome. destruct (Hn' x Hnone Hsome) as [a' [_ Hua]].
      eapply under_trans; [exact Hu|]. eapply under_trans; [apply under_attr|exact Hua].
    - intros e' Hin. destruct (H1 e' Hin) as [Hg' [Hx' Hn']]. split; [eapply ext_trans; eauto|].
      intros x Hnone Hsome. destruct (lookup ein x) eqn:Hlx.
      + apply Hfr; auto. congruence.
      + destruct (Hn' x Hlx Hsome) as [a' [_ Hua]].
        eapply under_trans; [exact Hu|]. eapply under_trans; [apply under_attr|exact Hua].
  Qed.

  Lemma fresh_below e q pv a' p0 v : fresh e q -> under q pv -> under q p0 -> psize p0 <= psize pv ->
    fresh ((p0, v) :: e) (PAttr pv a').
  Proof.
    intros Hf Hu H0 Hs. apply fresh_cons.
    - intros x Hx. apply Hf. eapply under_trans; [exact Hu|]. eapply under_trans; [apply under_attr|exact Hx].
    - intros H. apply under_size in H. simpl in H. lia.
  Qed.

  (* ---- one comparator ---- *)
  Lemma trues_exists_scan ks rs :
    (forall e', In e' (trues (exists_scan ks [] rs)) -> In e' (trues rs)) /\ (trues (exists_scan ks [] rs) <> [] <-> trues rs <> []).
  Proof.
    split.
    - intros e' H. apply in_trues in H. apply exists_scan_sub in H. apply in_trues. tauto.
    - rewrite !nonempty_ex. split.
      + intros [e' H]. exists e'. apply in_trues in H. apply exists_scan_sub in H. apply in_trues. tauto.
      + intros [e' H]. apply in_trues in H. assert (Hne : exists_scan ks [] rs <> []) by (apply exists_scan_first; eauto).
        destruct (exists_scan ks [] rs) as [|[e0 f0] sc] eqn:Hsc; [congruence|].
        assert (Hin : In (e0, f0) (exists_scan ks [] rs)) by (rewrite Hsc; simpl; auto).
        apply exists_scan_sub in Hin. destruct Hin as [-> _]. exists e0. apply in_trues. simpl. auto.
  Qed.

  Lemma cmp_results ex k pc v e :
    let R := trues (map (fun r : env * val => (fst r, negb (cmp M k (snd r) v))) (eval_path pc e)) in
    (forall e', In e' (eval_all [TCmp ex k pc v] e) -> In e' R) /\ (eval_all [TCmp ex k pc v] e <> [] <-> R <> []).
  Proof.
    intros R. rewrite eval_all_single. simpl. destruct ex; [apply trues_exists_scan|]. split; auto. tauto.
  Qed.

  Lemma trues_one e1 b : trues [(e1, negb b)] = if b then [e1] else [].
  Proof. destruct b; reflexivity. Qed.

  Lemma cmp_attr ex k v e p a o : good e -> lookup e p = Some (VO o) -> fresh e (PAttr p a) ->
    concl (PAttr p a) [TCmp ex k (PAttr p a) v] e (cmp M k (attr W o a) v).
  Proof.
    intros Hg Hp Hf. destruct (bind_attr e p a o Hg Hp Hf) as [Hev [Hg1 [Hx1 [Hfr1 _]]]].
    destruct (cmp_results ex k (PAttr p a) v e) as [H1 H2]. rewrite Hev in H1, H2. simpl map in H1, H2.
    rewrite trues_one in H1, H2. split.
    - intros e' Hin. apply H1 in Hin. destruct (cmp M k (attr W o a) v); [|contradiction].
      destruct Hin as [<-|[]]. auto.
    - rewrite H2. destruct (cmp M k (attr W o a) v); split; congruence.
  Qed.

  Lemma trues_map_in {A} (E : A -> env) (P : A -> bool) l e' :
    In e' (trues (map (fun x => (E x, negb (P x))) l)) <-> exists x, In x l /\ P x = true /\ e' = E x.
  Proof.
    rewrite in_trues, in_map_iff. split.
    - intros [x [H Hx]]. injection H as <- Hb. exists x. split; auto. split; auto. destruct (P x); auto; discriminate.
    - intros [x [Hx [Hb ->]]]. exists x. rewrite Hb. auto.
  Qed.

  Lemma cmp_flat ex v e p a o : good e -> lookup e p = Some (VO o) -> fresh e (PAttr p a) ->
    concl (PAttr p a) [TCmp ex OIn (PFlat (PAttr p a)) v] e
          (existsb (fun x => vmem M x (elems v)) (elems (attr W o a))).
  Proof.
    intros Hg Hp Hf.
    destruct (cmp_results ex OIn (PFlat (PAttr p a)) v e) as [H1 H2].
    rewrite (eval_flat_from e p a o Hp Hf), map_map in H1, H2. cbn [fst snd cmp] in H1, H2. split.
    - intros e' Hin. apply H1 in Hin. apply trues_map_in in Hin. destruct Hin as [x [Hx [_ ->]]].
      destruct (bind_flat e p a o x Hg Hp Hf Hx) as [? [? [? _]]]. auto.
    - rewrite H2, nonempty_ex, existsb_exists. split.
      + intros [e' Hin]. apply trues_map_in in Hin. destruct Hin as [x [Hx [Hb _]]]. eauto.
      + intros [x [Hx Hb]]. eexists. apply trues_map_in. eauto.
  Qed.

  Lemma has_attr T e p a o : good e -> lookup e p = Some (VO o) -> fresh e (PAttr p a) ->
    concl (PAttr p a) [THas (PAttr p a) T] e (isinst C M (attr W o a) T)
    /\ eval_all [THas (PAttr p a) T] e = if isinst C M (attr W o a) T then [(PAttr p a, attr W o a) :: e] else [].
  Proof.
    intros Hg Hp Hf. destruct (bind_attr e p a o Hg Hp Hf) as [Hev [Hg1 [Hx1 [Hfr1 _]]]].
    assert (Heq : eval_all [THas (PAttr p a) T] e = if isinst C M (attr W o a) T then [(PAttr p a, attr W o a) :: e] else []).
    { rewrite eval_all_single. unfold Match.eval. rewrite Hev. simpl map. apply trues_one. }
    split; auto. unfold concl. rewrite Heq. split.
    - intros e' Hin. destruct (isinst C M (attr W o a) T); [|contradiction]. destruct Hin as [<-|[]]. auto.
    - destruct (isinst C M (attr W o a) T); split; congruence.
  Qed.

  (* ---- keyword values that are not nested matches ---- *)
  Lemma tr_apat_lit oc p a v :
    tr_apat C oc p a (PLit v) = [infer (f_iter C oc a) (is_coll v) false false false (PAttr p a) v].
  Proof. reflexivity. Qed.
  Lemma fok_apat_lit oc p a v :
    fok_apat C objcls false oc p a (PLit v) = is_some (f_type C oc a) && (f_iter C oc a || negb (is_coll v)) && negb (f_bcoll C oc a).
  Proof. reflexivity. Qed.

  Lemma scalar_not_coll o oc a d : inst o oc -> f_type C oc a = Some d -> f_iter C oc a = false ->
    f_bcoll C oc a = false -> is_coll (attr W o a) = false.
  Proof.
    intros Hi Hd Hit Hb. pose proof (Htyped o oc a d Hi Hd) as Ht. rewrite Hit in Ht.
    destruct (objcls d); [destruct Ht as [o' [-> _]]; reflexivity|]. destruct Ht as [Ht|Ht]; [congruence|exact Ht].
  Qed.
  Lemma coll_is_list o oc a d : inst o oc -> f_type C oc a = Some d -> f_iter C oc a = true ->
    exists xs, attr W o a = VLO xs /\ forall x, In x xs -> sub C (otype M x) d = true.
  Proof. intros Hi Hd Hit. pose proof (Htyped o oc a d Hi Hd) as Ht. rewrite Hit in Ht. exact Ht. Qed.

  Lemma C_lit v : C_stmt (PLit v).
  Proof.
    intros oc p a e o Hg Hp Hi Hf Hok. rewrite fok_apat_lit in Hok. apply andb_true_iff in Hok. destruct Hok as [Hok Hbc].
    apply negb_true_iff in Hbc. apply andb_true_iff in Hok. destruct Hok as [Hty Hsh].
    destruct (f_type C oc a) as [d|] eqn:Hd; [|discriminate].
    rewrite tr_apat_lit. change (lax_apat C M oc p a (PLit v) (attr W o a)) with (lit_ok M (attr W o a) v).
    unfold infer, infer_kind, infer_exists.
    destruct (f_iter C oc a) eqn:Hit; destruct (is_coll v) eqn:Hcv; simpl in Hsh; try discriminate; cbn.
    - destruct (coll_is_list o oc a d Hi Hd Hit) as [xs [Hav _]].
      replace (lit_ok M (attr W o a) v) with (existsb (fun x => vmem M x (elems v)) (elems (attr W o a))).
      + apply cmp_flat; auto.
      + unfold lit_ok. rewrite Hav. cbn [is_coll]. symmetry. apply common_coll; auto.
    - destruct (coll_is_list o oc a d Hi Hd Hit) as [xs [Hav _]].
      replace (lit_ok M (attr W o a) v) with (cmp M OHas (attr W o a) v).
      + apply cmp_attr; auto.
      + unfold lit_ok. rewrite Hav. cbn [is_coll cmp]. symmetry. apply common_scalar_lit; auto.
    - replace (lit_ok M (attr W o a) v) with (cmp M OEq (attr W o a) v).
      + apply cmp_attr; auto.
      + unfold lit_ok. rewrite (scalar_not_coll o oc a d Hi Hd Hit Hbc). reflexivity.
  Qed.

  Lemma tr_apat_any oc p a v : tr_apat C oc p a (PAny v) = tr_vals C oc p a v false true.
  Proof. reflexivity. Qed.
  Lemma tr_apat_all oc p a v : tr_apat C oc p a (PAll v) = tr_vals C oc p a v true false.
  Proof. reflexivity. Qed.
  (* entity_matching (since 663e923): any value that is not None and not a type becomes a Literal variable *)
  Lemma tr_vals_literal oc p a v un ex :
    tr_vals C oc p a v un ex = [infer (f_iter C oc a) true true un ex (PAttr p a) v].
  Proof. reflexivity. Qed.

  Lemma C_any v : C_stmt (PAny v).
  Proof.
    intros oc p a e o Hg Hp Hi Hf Hok.
    change (fok_apat C objcls false oc p a (PAny v)) with (is_some (f_type C oc a) && is_coll v && negb (f_bcoll C oc a)) in Hok.
    apply andb_true_iff in Hok. destruct Hok as [Hok Hbc]. apply negb_true_iff in Hbc.
    apply andb_true_iff in Hok. destruct Hok as [Hty Hcv].
    destruct (f_type C oc a) as [d|] eqn:Hd; [|discriminate].
    rewrite tr_apat_any, tr_vals_literal.
    change (lax_apat C M oc p a (PAny v) (attr W o a)) with (common M (attr W o a) v).
    unfold infer, infer_kind, infer_exists. destruct (f_iter C oc a) eqn:Hit; cbn.
    - destruct (coll_is_list o oc a d Hi Hd Hit) as [xs [Hav _]].
      replace (common M (attr W o a) v) with (existsb (fun x => vmem M x (elems v)) (elems (attr W o a))).
      + apply cmp_flat; auto.
      + rewrite Hav. symmetry. apply common_coll; auto.
    - replace (common M (attr W o a) v) with (cmp M OIn (attr W o a) v).
      + apply cmp_attr; auto.
      + cbn [cmp]. symmetry. apply common_scalar_attr; auto. apply (scalar_not_coll o oc a d Hi Hd Hit Hbc).
  Qed.

  Lemma C_all v : C_stmt (PAll v).
  Proof.
    intros oc p a e o Hg Hp Hi Hf Hok.
    change (fok_apat C objcls false oc p a (PAll v))
      with (is_some (f_type C oc a) && f_iter C oc a && match v with VLO _ => true | _ => false end) in Hok.
    apply andb_true_iff in Hok. destruct Hok as [Hok Hv].
    apply andb_true_iff in Hok. destruct Hok as [Hty Hit].
    destruct (f_type C oc a) as [d|] eqn:Hd; [|discriminate]. destruct v as [z|z|m|m]; try discriminate.
    rewrite tr_apat_all, tr_vals_literal.
    change (lax_apat C M oc p a (PAll (VLO m)) (attr W o a)) with (same_set M (attr W o a) (VLO m)).
    unfold infer, infer_kind, infer_exists. rewrite Hit. cbn.
    destruct (coll_is_list o oc a d Hi Hd Hit) as [xs [Hav _]].
    replace (same_set M (attr W o a) (VLO m)) with (cmp M OEq (attr W o a) (VLO m)).
    - apply cmp_attr; auto.
    - rewrite Hav. cbn [cmp]. symmetry. apply same_set_obj.
  Qed.

  (* ---- nested matches ---- *)
  Lemma concl_of_members q cs e b :
    (forall e', In e' (eval_all cs e) -> good e' /\ ext e' e /\ frame q e e') ->
    ((exists e', In e' (eval_all cs e)) <-> b = true) -> concl q cs e b.
  Proof. intros H1 H2. split; auto. rewrite nonempty_ex. exact H2. Qed.

  Lemma nofilter_type_ok oc a t d o' : type_filter C oc a t = false ->
    f_type C oc a = Some d -> inst o' d -> type_ok (sub C) M t o' = true.
  Proof.
    intros Htf Hd Hi. destruct t as [T|]; simpl; auto.
    unfold type_filter, type_filter_needed in Htf. rewrite Hd in Htf. simpl in Htf.
    apply orb_false_iff in Htf. destruct Htf as [_ Htf]. apply negb_false_iff in Htf. eapply Htrans; eauto.
  Qed.
  (* the type HasType tests: the written one, or the declared one for an untyped match on an Optional attribute; for
     values of the declared type it decides exactly the Spec's type constraint *)
  Definition ftype (t : option cls) (d : cls) : cls := match t with Some T => T | None => d end.
  Lemma filter_type_ok t d o' : inst o' d -> sub C (otype M o') (ftype t d) = type_ok (sub C) M t o'.
  Proof. intros Hi. destruct t; simpl; auto. Qed.
  Lemma fresh_nested e ein pa pv a' : fresh e pa -> under pa pv ->
    (forall x, lookup e x = None -> lookup ein x <> None -> psize x <= psize pv) -> fresh ein (PAttr pv a').
  Proof.
    intros Hf Hu Hs x Hx. destruct (lookup ein x) eqn:Hl; auto. exfalso.
    assert (lookup e x = None) by (apply Hf; eapply under_trans; [exact Hu|]; eapply under_trans; [apply under_attr|exact Hx]).
    assert (psize x <= psize pv) by (apply Hs; auto; congruence).
    apply under_size in Hx. simpl in Hx. lia.
  Qed.

  Lemma concl_nil q e : good e -> concl q [] e true.
  Proof.
    intros Hg. split.
    - intros e' [<-|[]]. split; auto. split; [apply ext_refl|]. intros x H1 H2. congruence.
    - simpl. split; auto. intros _. discriminate.
  Qed.

  (* the nested keyword list run from the bindings of one member of a flattened collection / of a one-to-one value *)
  Lemma nest_flat l' : A_stmt l' -> forall d p a e o xs ox,
    good e -> lookup e p = Some (VO o) -> fresh e (PAttr p a) -> attr W o a = VLO xs -> In ox xs -> inst ox d ->
    fok_alist C objcls false d (PFlat (PAttr p a)) l' = true ->
    concl (PAttr p a) (tr_alist C d (PFlat (PAttr p a)) l') ((PFlat (PAttr p a), VO ox) :: (PAttr p a, attr W o a) :: e)
          (lax_alist C M d (PFlat (PAttr p a)) l' ox) /\
    (forall e', In e' (eval_all (tr_alist C d (PFlat (PAttr p a)) l') ((PFlat (PAttr p a), VO ox) :: (PAttr p a, attr W o a) :: e)) ->
                ext e' e /\ frame (PAttr p a) e e').
  Proof.
    intros IH d p a e o xs ox Hg Hp Hf Hav Hox Hi Hok.
    assert (Hin : In (VO ox) (elems (attr W o a))) by (rewrite Hav; simpl; apply in_map; auto).
    destruct (bind_flat e p a o (VO ox) Hg Hp Hf Hin) as [Hg2 [Hx2 [Hfr2 Hl2]]].
    apply (nested_run l' IH d p a (PFlat (PAttr p a)) e); auto.
    - apply under_flat.
    - intros a'. apply (fresh_nested e _ (PAttr p a)); auto; [apply under_flat|].
      intros x H1 H2. destruct (path_eq_dec (PFlat (PAttr p a)) x) as [<-|N1]; [simpl; lia|].
      destruct (path_eq_dec (PAttr p a) x) as [<-|N2]; [simpl; lia|].
      rewrite !lookup_cons_ne in H2 by auto. congruence.
  Qed.
  Lemma nest_attr l' : A_stmt l' -> forall d p a e o o',
    good e -> lookup e p = Some (VO o) -> fresh e (PAttr p a) -> attr W o a = VO o' -> inst o' d ->
    fok_alist C objcls false d (PAttr p a) l' = true ->
    concl (PAttr p a) (tr_alist C d (PAttr p a) l') ((PAttr p a, attr W o a) :: e) (lax_alist C M d (PAttr p a) l' o') /\
    (forall e', In e' (eval_all (tr_alist C d (PAttr p a) l') ((PAttr p a, attr W o a) :: e)) -> ext e' e /\ frame (PAttr p a) e e').
  Proof.
    intros IH d p a e o o' Hg Hp Hf Hav Hi Hok.
    destruct (bind_attr e p a o Hg Hp Hf) as [Hev [Hg1 [Hx1 [Hfr1 Hl1]]]].
    apply (nested_run l' IH d p a (PAttr p a) e); auto.
    - apply under_refl.
    - rewrite Hl1, Hav. reflexivity.
    - intros a'. apply (fresh_nested e _ (PAttr p a)); auto; [apply under_refl|].
      intros x H1 H2. destruct (path_eq_dec (PAttr p a) x) as [<-|N2]; [lia|].
      rewrite lookup_cons_ne in H2 by auto. congruence.
  Qed.

  Lemma P_case t l' : A_stmt l' -> P_stmt (Pat t l').
  Proof.
    intros IH oc p a e o Hg Hp Hi Hf Hok.
    change (fok_apat C objcls false oc p a (PMatch (Pat t l'))) with (fok_pat C objcls false oc p a (Pat t l')) in Hok.
    rewrite fok_pat_eq in Hok. cbv zeta in Hok.
    apply andb_true_iff in Hok. destruct Hok as [Hok Hal]. apply andb_true_iff in Hok. destruct Hok as [Hok _].
    apply andb_true_iff in Hok. destruct Hok as [Hty Hobj].
    destruct (f_type C oc a) as [d|] eqn:Hd; [|discriminate]. cbn [dflt] in *.
    rewrite tr_apat_match, tr_pat_eq, Hd. cbn [dflt].
    pose proof (Htyped o oc a d Hi Hd) as Ht.
    destruct (bind_attr e p a o Hg Hp Hf) as [Hev [Hg1 [Hx1 [Hfr1 Hl1]]]].
    unfold nested_filter, nested_var in *. rewrite ?Hd. cbn [dflt].
    destruct (f_iter C oc a) eqn:Hit; destruct (type_filter C oc a t) eqn:Htf; unfold resolve_flatten in *; cbn [andb orb] in *.
    - (* collection attribute, type filter *)
      rewrite orb_true_r in *. change (match t with Some T => T | None => d end) with (ftype t d). set (T := ftype t d) in *.
      destruct Ht as [xs [Hav Hxs]].
      rewrite Hav, lax_match_coll. cbv zeta. unfold nested_var. rewrite Hd, Hit, Htf. unfold resolve_flatten.
      cbn [dflt andb orb negb]. rewrite orb_true_r.
      set (pf := PFlat (PAttr p a)) in *. set (cs := tr_alist C d pf l') in *.
      assert (Hmem : forall e', In e' (eval_all ([THas pf T] ++ cs) e) <->
                exists ox, In ox xs /\ sub C (otype M ox) T = true /\
                  In e' (eval_all cs ((pf, VO ox) :: (PAttr p a, attr W o a) :: e))).
      { intros e'. rewrite eval_all_app, eval_all_single, in_flat_map. unfold Match.eval.
        unfold pf. rewrite (eval_flat_from e p a o Hp Hf), map_map. cbn [fst snd]. rewrite Hav. cbn [elems].
        rewrite map_map. split.
        - intros [e2 [H1 H2]]. apply (trues_map_in (fun ox => (PFlat (PAttr p a), VO ox) :: (PAttr p a, VLO xs) :: e) (fun ox => isinst C M (VO ox) T)) in H1.
          destruct H1 as [ox [? [? ->]]]. eauto.
        - intros [ox [? [? ?]]]. eexists. split; [|eassumption].
          apply (trues_map_in (fun ox => (PFlat (PAttr p a), VO ox) :: (PAttr p a, VLO xs) :: e) (fun ox => isinst C M (VO ox) T)). eauto. }
      pose proof (fun ox Hox => nest_flat l' IH d p a e o xs ox Hg Hp Hf Hav Hox (Hxs ox Hox) Hal) as Hnest. fold pf cs in Hnest.
      apply concl_of_members.
      + intros e' Hin. apply Hmem in Hin. destruct Hin as [ox [Hox [_ Hin]]].
        destruct (Hnest ox Hox) as [[Hc1 _] Hc2]. destruct (Hc1 e' Hin) as [? _]. destruct (Hc2 e' Hin). auto.
      + rewrite existsb_exists. split.
        * intros [e' Hin]. apply Hmem in Hin. destruct Hin as [ox [Hox [Hty' Hin]]]. exists ox. split; auto.
          rewrite <- (filter_type_ok t d ox (Hxs ox Hox)). fold T. rewrite Hty'. simpl.
          destruct (Hnest ox Hox) as [[_ Hc] _]. apply Hc. apply nonempty_ex. eauto.
        * intros [ox [Hox Hm]]. apply andb_true_iff in Hm. destruct Hm as [Hty' Hm].
          rewrite <- (filter_type_ok t d ox (Hxs ox Hox)) in Hty'. fold T in Hty'.
          destruct (Hnest ox Hox) as [[_ Hc] _]. apply Hc in Hm. apply nonempty_ex in Hm. destruct Hm as [e' Hin].
          exists e'. apply Hmem. eauto.
    - (* collection attribute, no type filter *)
      rewrite orb_false_r in *. destruct Ht as [xs [Hav Hxs]]. simpl app.
      rewrite Hav, lax_match_coll. cbv zeta. unfold nested_var. rewrite Hd, Hit, Htf. unfold resolve_flatten.
      cbn [dflt andb orb negb]. rewrite orb_false_r.
      destruct (tr_alist C d (if negb (is_anil l') then PFlat (PAttr p a) else PAttr p a) l') as [|c cs'] eqn:Hcs.
      { (* no condition at all: the keyword constrains nothing (finding C11-e) *) cbn [cnil]. apply concl_nil. exact Hg. }
      cbn [cnil].
      destruct l' as [|a0 c0 rest0] eqn:Hl'; [simpl in Hcs; discriminate|]. rewrite <- Hl' in *.
      replace (negb (is_anil l')) with true in * by (rewrite Hl'; reflexivity).
      set (pf := PFlat (PAttr p a)) in *. set (cs := tr_alist C d pf l') in *.
      assert (Hmem : forall e', In e' (eval_all (c :: cs') e) <->
                exists ox, In ox xs /\ In e' (eval_all cs ((pf, VO ox) :: (PAttr p a, attr W o a) :: e))).
      { intros e'.
        assert (Hcu : exists ax, under (PAttr pf ax) (cpath c)).
        { apply (tr_alist_under_attr C l' d pf c). fold cs. rewrite Hcs. simpl. auto. }
        destruct Hcu as [ax Hcu].
        assert (Hev2 : eval_path pf e = map (fun x => ((pf, x) :: (PAttr p a, attr W o a) :: e, x)) (map VO xs)).
        { unfold pf. rewrite (eval_flat_from e p a o Hp Hf), Hav. reflexivity. }
        rewrite (eval_all_split C M D c cs' pf e).
        - rewrite <- Hcs, Hev2. split.
          + intros [r [Hr Hin]]. apply in_map_iff in Hr. destruct Hr as [x [<- Hx]]. apply in_map_iff in Hx.
            destruct Hx as [ox [<- Hox]]. exists ox. auto.
          + intros [ox [Hox Hin]]. exists ((pf, VO ox) :: (PAttr p a, attr W o a) :: e, VO ox). split; auto.
            apply in_map_iff. exists (VO ox). split; auto. apply in_map; auto.
        - eapply under_trans; [apply under_attr|exact Hcu].
        - intros x Hx. apply Hf. eapply under_trans; [apply under_flat|exact Hx].
        - intros Hx. split.
          + destruct c as [ex k pc v| |]; try discriminate. simpl in Hcu. unfold exists_keys. right. unfold pf. apply flats_in.
            destruct pc as [|pc' a1|pc']; simpl qvar.
            * eapply under_trans; [apply under_attr|exact Hcu].
            * eapply under_trans; [apply under_attr|exact Hcu].
            * simpl in Hcu. destruct Hcu as [Hc|Hc]; [discriminate|]. eapply under_trans; [apply under_attr|exact Hc].
          + rewrite Hev2. intros r1 r2 H1 H2 Heq. apply in_map_iff in H1. apply in_map_iff in H2.
            destruct H1 as [x1 [<- _]]. destruct H2 as [x2 [<- _]]. simpl in Heq. subst. reflexivity. }
      pose proof (fun ox Hox => nest_flat l' IH d p a e o xs ox Hg Hp Hf Hav Hox (Hxs ox Hox) Hal) as Hnest. fold pf cs in Hnest.
      apply concl_of_members.
      + intros e' Hin. apply Hmem in Hin. destruct Hin as [ox [Hox Hin]].
        destruct (Hnest ox Hox) as [[Hc1 _] Hc2]. destruct (Hc1 e' Hin) as [? _]. destruct (Hc2 e' Hin). auto.
      + rewrite existsb_exists. split.
        * intros [e' Hin]. apply Hmem in Hin. destruct Hin as [ox [Hox Hin]]. exists ox. split; auto.
          rewrite (nofilter_type_ok oc a t d ox Htf Hd) by (apply Hxs; auto). simpl.
          destruct (Hnest ox Hox) as [[_ Hc] _]. apply Hc. apply nonempty_ex. eauto.
        * intros [ox [Hox Hm]]. apply andb_true_iff in Hm. destruct Hm as [_ Hm].
          destruct (Hnest ox Hox) as [[_ Hc] _]. apply Hc in Hm. apply nonempty_ex in Hm. destruct Hm as [e' Hin].
          exists e'. apply Hmem. eauto.
    - (* one-to-one attribute, type filter *)
      change (match t with Some T => T | None => d end) with (ftype t d). set (T := ftype t d) in *.
      rewrite Hobj in Ht. destruct Ht as [o' [Hav Ho']].
      rewrite Hav, lax_match_obj. unfold nested_var. rewrite Hd, Hit. unfold resolve_flatten. cbn [dflt andb].
      set (cs := tr_alist C d (PAttr p a) l') in *.
      destruct (has_attr T e p a o Hg Hp Hf) as [_ Heq].
      pose proof (nest_attr l' IH d p a e o o' Hg Hp Hf Hav Ho' Hal) as Hnest. fold cs in Hnest.
      rewrite <- (filter_type_ok t d o' Ho'). fold T.
      change (match t with Some T0 => T0 | None => d end) with T.
      unfold concl. rewrite eval_all_app, Heq. rewrite Hav. cbn [isinst].
      destruct (sub C (otype M o') T); simpl.
      + rewrite app_nil_r. rewrite Hav in Hnest. destruct Hnest as [[Hc1 Hc2] Hc3]. split; auto.
        intros e' Hin. destruct (Hc1 e' Hin) as [? _]. destruct (Hc3 e' Hin). auto.
      + split; [intros e' []|]. split; [congruence|discriminate].
    - (* one-to-one attribute, no type filter *)
      rewrite Hobj in Ht. destruct Ht as [o' [Hav Ho']]. simpl app.
      rewrite Hav, lax_match_obj. unfold nested_var. rewrite Hd, Hit. unfold resolve_flatten. cbn [dflt andb].
      set (cs := tr_alist C d (PAttr p a) l') in *.
      pose proof (nest_attr l' IH d p a e o o' Hg Hp Hf Hav Ho' Hal) as Hnest. fold cs in Hnest.
      rewrite (nofilter_type_ok oc a t d o' Htf Hd Ho'). simpl.
      destruct Hnest as [[Hc1 Hc2] Hc3].
      destruct cs as [|c cs'] eqn:Hcs.
      + split.
        * intros e' [<-|[]]. split; auto. split; [apply ext_refl|]. intros x H1 H2. congruence.
        * split; [intros _|intros _; simpl; congruence]. apply Hc2. simpl. congruence.
      + assert (Heq : eval_all (c :: cs') e = eval_all (c :: cs') ((PAttr p a, attr W o a) :: e)).
        { apply (eval_all_factor1 C M D c cs' (PAttr p a) e _ (attr W o a)); auto.
          apply (proj1 (proj2 (tr_under C)) l' d (PAttr p a) c). fold cs. rewrite Hcs. simpl. auto. }
        unfold concl. rewrite Heq. split; auto.
        intros e' Hin. destruct (Hc1 e' Hin) as [? _]. destruct (Hc3 e' Hin). auto.
  Qed.

  (* ---- keyword lists ---- *)
  Lemma A_nil : A_stmt ANil.
  Proof.
    intros oc p e o Hg Hp Hi Hf Hok. simpl. split.
    - intros e' [<-|[]]. split; auto. split; [apply ext_refl|]. intros x H1 H2. congruence.
    - split; auto. intros _. discriminate.
  Qed.

  Lemma A_cons a c rest : C_stmt c -> A_stmt rest -> A_stmt (ACons a c rest).
  Proof.
    intros IHc IHr oc p e o Hg Hp Hi Hf Hok. rewrite fok_alist_cons in Hok.
    apply andb_true_iff in Hok. destruct Hok as [Hok Hokr]. apply andb_true_iff in Hok. destruct Hok as [Hnd Hokc].
    assert (Hnin : ~ In a (names rest)).
    { intros Hin. apply negb_true_iff in Hnd. unfold nmemb in Hnd.
      assert (existsb (Nat.eqb a) (names rest) = true) by (apply existsb_exists; exists a; split; auto; apply Nat.eqb_refl).
      congruence. }
    destruct (IHc oc p a e o Hg Hp Hi (Hf a (or_introl eq_refl)) Hokc) as [Hc1 Hc2].
    rewrite tr_alist_cons, lax_alist_cons.
    assert (Hrest : forall e1, In e1 (eval_all (tr_apat C oc p a c) e) ->
              (forall e', In e' (eval_all (tr_alist C oc p rest) e1) ->
                 good e' /\ ext e' e1 /\
                 (forall x, lookup e1 x = None -> lookup e' x <> None -> exists a', In a' (names rest) /\ under (PAttr p a') x))
              /\ (eval_all (tr_alist C oc p rest) e1 <> [] <-> lax_alist C M oc p rest o = true)).
    { intros e1 Hin1. destruct (Hc1 e1 Hin1) as [Hg1 [Hx1 Hfr1]].
      apply IHr; auto.
      intros a' Ha' x Hx. destruct (lookup e1 x) eqn:Hl; auto. exfalso.
      assert (Hn : lookup e x = None) by (apply (Hf a'); simpl; auto).
      assert (Hu : under (PAttr p a) x) by (apply Hfr1; auto; congruence).
      assert (a = a') by (eapply under_attr_inj; eauto). subst. contradiction. }
    split.
    - intros e' Hin. rewrite eval_all_app, in_flat_map in Hin. destruct Hin as [e1 [Hin1 Hin2]].
      destruct (Hc1 e1 Hin1) as [Hg1 [Hx1 Hfr1]]. destruct (Hrest e1 Hin1) as [Hr1 _].
      destruct (Hr1 e' Hin2) as [Hg' [Hx' Hn']]. split; auto. split; [eapply ext_trans; eauto|].
      intros x Hnone Hsome. destruct (lookup e1 x) eqn:Hl.
      + exists a. split; [simpl; auto|]. apply Hfr1; auto. congruence.
      + destruct (Hn' x Hl Hsome) as [a' [Ha' Hu]]. exists a'. split; [simpl; auto|auto].
    - rewrite eval_all_app, andb_true_iff, <- Hc2. rewrite !nonempty_ex. split.
      + intros [e' Hin]. apply in_flat_map in Hin. destruct Hin as [e1 [Hin1 Hin2]]. split; [eauto|].
        destruct (Hrest e1 Hin1) as [_ Hr2]. apply Hr2. apply nonempty_ex. eauto.
      + intros [[e1 Hin1] Hm]. destruct (Hrest e1 Hin1) as [_ Hr2]. apply Hr2 in Hm. apply nonempty_ex in Hm.
        destruct Hm as [e' Hin2]. exists e'. apply in_flat_map. eauto.
  Qed.

  Theorem all_stmts : (forall q, P_stmt q) /\ (forall l, A_stmt l) /\ (forall c, C_stmt c).
  Proof.
    apply pat_mutind.
    - intros t l IH. apply P_case; auto.
    - apply A_nil.
    - intros a c IHc rest IHr. apply A_cons; auto.
    - apply C_lit.
    - intros q IH. exact IH.
    - apply C_any.
    - apply C_all.
    - intros v oc p a e o _ _ _ _ Hok. discriminate Hok.
    - intros c' IH oc p a e o Hg Hp Hi Hf Hok.
      change (tr_apat C oc p a (PSel c')) with (tr_apat C oc p a c').
      change (lax_apat C M oc p a (PSel c') (attr W o a)) with (lax_apat C M oc p a c' (attr W o a)).
      apply IH; auto. simpl in Hok. destruct c'; try discriminate; exact Hok.
  Qed.

  (* the conditions built from the keywords of a pattern are satisfiable from the binding root := o exactly when o
     satisfies the keywords *)
  Theorem match_sat T l o : fok_alist C objcls false T PRoot l = true -> In o D -> inst o T ->
    (eval_all (tr_alist C T PRoot l) [(PRoot, VO o)] <> [] <-> lax_alist C M T PRoot l o = true)
    /\ (forall e', In e' (eval_all (tr_alist C T PRoot l) [(PRoot, VO o)]) -> lookup e' PRoot = Some (VO o)).
  Proof.
    intros Hok Hin Hi. destruct all_stmts as [_ [HA _]].
    assert (Hg : good [(PRoot, VO o)]).
    { apply good_cons; [apply good_nil|reflexivity|]. simpl. eauto. }
    destruct (HA l T PRoot [(PRoot, VO o)] o Hg (lookup_cons_eq _ _ _) Hi) as [H1 H2]; auto.
    - intros a _ x Hx. rewrite lookup_cons_ne; auto. intros <-. apply under_size in Hx. simpl in Hx. lia.
    - split; auto. intros e' He. destruct (H1 e' He) as [_ [Hx _]]. apply Hx. apply lookup_cons_eq.
  Qed.

  (* ================================================================== result rows (select) *)
  (* the value of a node as the bindings determine it: bound, or an attribute of a determined node *)
  Inductive dval (e : env) : path -> val -> Prop :=
  | dv_bound p v : lookup e p = Some v -> dval e p v
  | dv_attr q a u : lookup e (PAttr q a) = None -> dval e q u -> dval e (PAttr q a) (getattr W u a).

  Lemma dval_bound_eq e p v w : lookup e p = Some w -> dval e p v -> v = w.
  Proof. intros H Hd. destruct Hd; congruence. Qed.

  Lemma dval_ext e e'' p v : good e'' -> ext e'' e -> dval e p v -> dval e'' p v.
  Proof.
    intros Hg Hx Hd. induction Hd as [p v H|q a u Hn Hd IH].
    - apply dv_bound. auto.
    - destruct (lookup e'' (PAttr q a)) as [w|] eqn:Hl.
      + apply dv_bound. rewrite Hl. destruct (Hg _ _ Hl) as [u' [Hq ->]].
        rewrite (dval_bound_eq e'' q u u' Hq IH). reflexivity.
      + apply dv_attr; auto.
  Qed.

  Lemma eval_path_good p : forall e e' v, good e -> In (e', v) (eval_path p e) -> good e'.
  Proof.
    induction p as [|q IH a|q IH]; intros e e' v Hg; rewrite eval_path_eq; destruct (lookup e _) eqn:Hl.
    - intros [H|[]]. injection H as <- <-. exact Hg.
    - rewrite in_map_iff. intros [o [H Ho]]. injection H as <- <-. apply good_cons; auto. simpl. eauto.
    - intros [H|[]]. injection H as <- <-. exact Hg.
    - rewrite in_map_iff. intros [[e1 u] [H Hin]]. simpl in H. injection H as <- <-.
      destruct (eval_path_props M D _ _ _ _ Hin) as [Hq [Hext Hfr]].
      apply good_cons; [eapply IH; eauto| |simpl; eauto].
      destruct (lookup e1 (PAttr q a)) eqn:Hl1; auto. exfalso.
      assert (Hu : under (PAttr q a) q) by (apply Hfr; auto; congruence). apply under_size in Hu. simpl in Hu. lia.
    - intros [H|[]]. injection H as <- <-. exact Hg.
    - rewrite in_flat_map. intros [[e1 u] [Hin H]]. rewrite in_map_iff in H. destruct H as [y [H Hy]]. simpl in H.
      injection H as <- <-. destruct (eval_path_props M D _ _ _ _ Hin) as [Hq [Hext Hfr]].
      apply good_cons; [eapply IH; eauto| |simpl; eauto].
      destruct (lookup e1 (PFlat q)) eqn:Hl1; auto. exfalso.
      assert (Hu : under (PFlat q) q) by (apply Hfr; auto; congruence). apply under_size in Hu. simpl in Hu. lia.
  Qed.

  Lemma det_eval e p v : good e -> dval e p v -> exists e1, eval_path p e = [(e1, v)] /\ good e1 /\ ext e1 e.
  Proof.
    intros Hg Hd. induction Hd as [p v H|q a u Hn Hd IH].
    - exists e. split; [apply eval_path_bound; auto|]. split; auto. apply ext_refl.
    - destruct IH as [e0 [He0 [Hg0 Hx0]]].
      exists ((PAttr q a, getattr W u a) :: e0). rewrite eval_path_eq, Hn, He0. simpl. split; auto.
      assert (Hin : In (e0, u) (eval_path q e)) by (rewrite He0; simpl; auto).
      destruct (eval_path_props M D _ _ _ _ Hin) as [Hq [_ Hfr]].
      assert (Hn0 : lookup e0 (PAttr q a) = None).
      { destruct (lookup e0 (PAttr q a)) eqn:Hl1; auto. exfalso.
        assert (Hu : under (PAttr q a) q) by (apply Hfr; auto; congruence). apply under_size in Hu. simpl in Hu. lia. }
      split; [apply good_cons; auto; simpl; eauto|]. eapply ext_trans; [apply ext_cons; exact Hn0|exact Hx0].
  Qed.

  (* determined selected expressions give exactly one row, whatever was bound afterwards *)
  Lemma sel_rows_det sels r e' : Forall2 (dval e') sels r ->
    forall e'', good e'' -> ext e'' e' -> sel_rows M D sels e'' = [r].
  Proof.
    induction 1 as [|s v sels r Hd HF IH]; intros e'' Hg Hx; simpl; auto.
    destruct (det_eval e'' s v Hg (dval_ext e' e'' s v Hg Hx Hd)) as [e1 [He1 [Hg1 Hx1]]].
    rewrite He1. simpl. rewrite (IH e1 Hg1 (ext_trans _ _ _ Hx1 Hx)). reflexivity.
  Qed.

  Lemma dval_attr_of e p a o : good e -> lookup e p = Some (VO o) -> dval e (PAttr p a) (attr W o a).
  Proof.
    intros Hg Hp. destruct (lookup e (PAttr p a)) as [w|] eqn:Hl.
    - apply dv_bound. rewrite Hl. destruct (Hg _ _ Hl) as [u [Hq ->]]. rewrite Hp in Hq. injection Hq as <-. reflexivity.
    - change (attr W o a) with (getattr W (VO o) a). apply dv_attr; auto. apply dv_bound; auto.
  Qed.

  Lemma dval_uncons e p a o x v : good e -> lookup e p = Some (VO o) -> lookup e (PAttr p a) = None ->
    dval ((PAttr p a, attr W o a) :: e) x v -> dval e x v.
  Proof.
    intros Hg Hp Hn Hd. induction Hd as [x v H|q a' u Hn' Hd IH].
    - rewrite lookup_cons in H. destruct (path_eq_dec (PAttr p a) x) as [<-|Hne].
      + injection H as <-. apply dval_attr_of; auto.
      + apply dv_bound; auto.
    - apply dv_attr; auto. rewrite lookup_cons in Hn'. destruct (path_eq_dec (PAttr p a) (PAttr q a')); [discriminate|auto].
  Qed.

  Definition rowsOK (sels : list path) (cs : list tcond) (e : env) (R : list (list val)) : Prop :=
    (forall e', In e' (eval_all cs e) -> exists r, In r R /\ Forall2 (dval e') sels r) /\
    (forall r, In r R -> exists e', In e' (eval_all cs e) /\ Forall2 (dval e') sels r).

  Definition A_rows (l : alist) : Prop := forall oc p e o,
    good e -> lookup e p = Some (VO o) -> inst o oc -> (forall a, In a (names l) -> fresh e (PAttr p a)) ->
    fok_alist C objcls true oc p l = true ->
    rowsOK (sels_alist C oc p l) (tr_alist C oc p l) e (srows_alist (sub C) M l o).
  Definition C_rows (c : apat) : Prop := forall s oc p a e o,
    good e -> lookup e p = Some (VO o) -> inst o oc -> fresh e (PAttr p a) ->
    fok_apat C objcls true oc p a c = true ->
    rowsOK (sels_apat C s oc p a c) (tr_apat C oc p a c) e (srows_apat (sub C) M s c (attr W o a)).
  Definition P_rows (q : pat) : Prop := C_rows (PMatch q).

  Lemma rows_nosel q cs e b : concl q cs e b -> rowsOK [] cs e (guard b [[]]).
  Proof.
    intros [_ Hb]. split.
    - intros e' Hin. exists []. split; [|constructor].
      assert (b = true) by (apply Hb; apply nonempty_ex; eauto). subst. simpl. auto.
    - intros r Hr. destruct b; [|contradiction]. destruct Hr as [<-|[]].
      assert (Hne : eval_all cs e <> []) by (apply Hb; reflexivity). apply nonempty_ex in Hne. destruct Hne as [e' He'].
      exists e'. split; auto.
  Qed.
  Lemma rows_attrsel p a o cs e b : concl (PAttr p a) cs e b -> lookup e p = Some (VO o) ->
    rowsOK [PAttr p a] cs e (guard b [[attr W o a]]).
  Proof.
    intros [Hres Hb] Hp.
    assert (Hd : forall e', In e' (eval_all cs e) -> Forall2 (dval e') [PAttr p a] [attr W o a]).
    { intros e' Hin. destruct (Hres e' Hin) as [Hg' [Hx' _]]. constructor; [|constructor]. apply dval_attr_of; auto. }
    split.
    - intros e' Hin. exists [attr W o a]. split; auto.
      assert (b = true) by (apply Hb; apply nonempty_ex; eauto). subst. simpl. auto.
    - intros r Hr. destruct b; [|contradiction]. destruct Hr as [<-|[]].
      assert (Hne : eval_all cs e <> []) by (apply Hb; reflexivity). apply nonempty_ex in Hne. destruct Hne as [e' He'].
      exists e'. split; auto.
  Qed.

  Lemma C_rows_lit v : C_rows (PLit v).
  Proof.
    intros s oc p a e o Hg Hp Hi Hf Hok. destruct all_stmts as [_ [_ HC]].
    apply (rows_nosel (PAttr p a)). apply (HC (PLit v)); auto.
  Qed.
  Lemma C_rows_any v : C_rows (PAny v).
  Proof.
    intros s oc p a e o Hg Hp Hi Hf Hok. destruct all_stmts as [_ [_ HC]].
    pose proof (HC (PAny v) oc p a e o Hg Hp Hi Hf (proj2 (proj2 (fok_mono C objcls)) _ _ _ _ Hok)) as Hc.
    destruct s; [apply rows_attrsel; auto|apply (rows_nosel (PAttr p a)); auto].
  Qed.
  Lemma C_rows_all v : C_rows (PAll v).
  Proof.
    intros s oc p a e o Hg Hp Hi Hf Hok. destruct all_stmts as [_ [_ HC]].
    pose proof (HC (PAll v) oc p a e o Hg Hp Hi Hf (proj2 (proj2 (fok_mono C objcls)) _ _ _ _ Hok)) as Hc.
    destruct s; [apply rows_attrsel; auto|apply (rows_nosel (PAttr p a)); auto].
  Qed.

  (* membership in the results of a nested match on a collection attribute *)
  Lemma mem_coll_filter l' T d p a e o xs : lookup e p = Some (VO o) -> fresh e (PAttr p a) -> attr W o a = VLO xs ->
    forall e', In e' (eval_all ([THas (PFlat (PAttr p a)) T] ++ tr_alist C d (PFlat (PAttr p a)) l') e) <->
      exists ox, In ox xs /\ sub C (otype M ox) T = true /\
        In e' (eval_all (tr_alist C d (PFlat (PAttr p a)) l') ((PFlat (PAttr p a), VO ox) :: (PAttr p a, attr W o a) :: e)).
  Proof.
    intros Hp Hf Hav e'. rewrite eval_all_app, eval_all_single, in_flat_map. unfold Match.eval.
    rewrite (eval_flat_from e p a o Hp Hf), map_map. cbn [fst snd]. rewrite Hav. cbn [elems].
    rewrite map_map. split.
    - intros [e2 [H1 H2]]. apply (trues_map_in (fun ox => (PFlat (PAttr p a), VO ox) :: (PAttr p a, VLO xs) :: e) (fun ox => isinst C M (VO ox) T)) in H1.
      destruct H1 as [ox [? [? ->]]]. eauto.
    - intros [ox [? [? ?]]]. eexists. split; [|eassumption].
      apply (trues_map_in (fun ox => (PFlat (PAttr p a), VO ox) :: (PAttr p a, VLO xs) :: e) (fun ox => isinst C M (VO ox) T)). eauto.
  Qed.
  Lemma mem_coll_nofilter l' d p a e o xs c cs' : lookup e p = Some (VO o) -> fresh e (PAttr p a) -> attr W o a = VLO xs ->
    tr_alist C d (PFlat (PAttr p a)) l' = c :: cs' ->
    forall e', In e' (eval_all (c :: cs') e) <->
      exists ox, In ox xs /\ In e' (eval_all (c :: cs') ((PFlat (PAttr p a), VO ox) :: (PAttr p a, attr W o a) :: e)).
  Proof.
    intros Hp Hf Hav Hcs e'. set (pf := PFlat (PAttr p a)) in *.
    assert (Hcu : exists ax, under (PAttr pf ax) (cpath c)).
    { apply (tr_alist_under_attr C l' d pf c). rewrite Hcs. simpl. auto. }
    destruct Hcu as [ax Hcu].
    assert (Hev2 : eval_path pf e = map (fun x => ((pf, x) :: (PAttr p a, attr W o a) :: e, x)) (map VO xs)).
    { unfold pf. rewrite (eval_flat_from e p a o Hp Hf), Hav. reflexivity. }
    rewrite (eval_all_split C M D c cs' pf e).
    - rewrite Hev2. split.
      + intros [r [Hr Hin]]. apply in_map_iff in Hr. destruct Hr as [x [<- Hx]]. apply in_map_iff in Hx.
        destruct Hx as [ox [<- Hox]]. exists ox. auto.
      + intros [ox [Hox Hin]]. exists ((pf, VO ox) :: (PAttr p a, attr W o a) :: e, VO ox). split; auto.
        apply in_map_iff. exists (VO ox). split; auto. apply in_map; auto.
    - eapply under_trans; [apply under_attr|exact Hcu].
    - intros x Hx. apply Hf. eapply under_trans; [apply under_flat|exact Hx].
    - intros Hx. split.
      + destruct c as [ex k pc v| |]; try discriminate. simpl in Hcu. unfold exists_keys. right. unfold pf. apply flats_in.
        destruct pc as [|pc' a1|pc']; simpl qvar.
        * eapply under_trans; [apply under_attr|exact Hcu].
        * eapply under_trans; [apply under_attr|exact Hcu].
        * simpl in Hcu. destruct Hcu as [Hc|Hc]; [discriminate|]. eapply under_trans; [apply under_attr|exact Hc].
      + rewrite Hev2. intros r1 r2 H1 H2 Heq. apply in_map_iff in H1. apply in_map_iff in H2.
        destruct H1 as [x1 [<- _]]. destruct H2 as [x2 [<- _]]. simpl in Heq. subst. reflexivity.
  Qed.

  (* the rows of a nested match on a collection attribute, from those of its members *)
  Lemma rows_coll (s : bool) sels' cs whole (P : Z -> bool) (R' : Z -> list (list val)) p a e o xs :
    good e -> lookup e p = Some (VO o) -> attr W o a = VLO xs ->
    (forall e', In e' (eval_all whole e) <->
       exists ox, In ox xs /\ P ox = true /\ In e' (eval_all cs ((PFlat (PAttr p a), VO ox) :: (PAttr p a, attr W o a) :: e))) ->
    (forall ox, In ox xs -> rowsOK sels' cs ((PFlat (PAttr p a), VO ox) :: (PAttr p a, attr W o a) :: e) (R' ox)) ->
    (forall ox e', In ox xs -> In e' (eval_all cs ((PFlat (PAttr p a), VO ox) :: (PAttr p a, attr W o a) :: e)) ->
       good e' /\ ext e' ((PFlat (PAttr p a), VO ox) :: (PAttr p a, attr W o a) :: e) /\ ext e' e) ->
    rowsOK ((if s then [PAttr p a; PFlat (PAttr p a)] else []) ++ sels') whole e
           (flat_map (fun x => guard (P x) (map (app (cols s [VLO xs; VO x])) (R' x))) xs).
  Proof.
    intros Hg Hp Hav Hmem Hrows Hres.
    assert (Hpre : forall ox e', In ox xs -> In e' (eval_all cs ((PFlat (PAttr p a), VO ox) :: (PAttr p a, attr W o a) :: e)) ->
              Forall2 (dval e') (if s then [PAttr p a; PFlat (PAttr p a)] else []) (cols s [VLO xs; VO ox])).
    { intros ox e' Hox Hin. destruct (Hres ox e' Hox Hin) as [Hg' [Hx2 Hx]]. destruct s; simpl; [|constructor].
      constructor; [rewrite <- Hav; apply dval_attr_of; auto|]. constructor; [|constructor].
      apply dv_bound. apply Hx2. apply lookup_cons_eq. }
    split.
    - intros e' Hin. apply Hmem in Hin. destruct Hin as [ox [Hox [HP Hin]]].
      destruct (Hrows ox Hox) as [Hs _]. destruct (Hs e' Hin) as [r' [Hr' HF]].
      exists (cols s [VLO xs; VO ox] ++ r'). split.
      + apply in_flat_map. exists ox. split; auto. rewrite HP. simpl. apply in_map. exact Hr'.
      + apply Forall2_app; auto.
    - intros r Hr. apply in_flat_map in Hr. destruct Hr as [ox [Hox Hr]]. destruct (P ox) eqn:HP; [|contradiction].
      simpl in Hr. apply in_map_iff in Hr. destruct Hr as [r' [<- Hr']].
      destruct (Hrows ox Hox) as [_ Hc]. destruct (Hc r' Hr') as [e' [Hin HF]].
      exists e'. split; [apply Hmem; eauto|]. apply Forall2_app; auto.
  Qed.

  Lemma rows_one (s : bool) sels' cs whole (b : bool) (R' : list (list val)) p a e o o' :
    good e -> lookup e p = Some (VO o) -> attr W o a = VO o' ->
    (forall e', In e' (eval_all whole e) <-> b = true /\ In e' (eval_all cs ((PAttr p a, attr W o a) :: e))) ->
    rowsOK sels' cs ((PAttr p a, attr W o a) :: e) R' ->
    (forall e', In e' (eval_all cs ((PAttr p a, attr W o a) :: e)) -> good e' /\ ext e' e) ->
    rowsOK ((if s then [PAttr p a] else []) ++ sels') whole e (guard b (map (app (cols s [VO o'])) R')).
  Proof.
    intros Hg Hp Hav Hmem [Hs Hc] Hres.
    assert (Hpre : forall e', In e' (eval_all cs ((PAttr p a, attr W o a) :: e)) ->
              Forall2 (dval e') (if s then [PAttr p a] else []) (cols s [VO o'])).
    { intros e' Hin. destruct (Hres e' Hin) as [Hg' Hx]. destruct s; simpl; [|constructor].
      constructor; [rewrite <- Hav; apply dval_attr_of; auto|constructor]. }
    split.
    - intros e' Hin. apply Hmem in Hin. destruct Hin as [-> Hin]. destruct (Hs e' Hin) as [r' [Hr' HF]].
      exists (cols s [VO o'] ++ r'). split; [simpl; apply in_map; auto|]. apply Forall2_app; auto.
    - intros r Hr. destruct b; [|contradiction]. simpl in Hr. apply in_map_iff in Hr. destruct Hr as [r' [<- Hr']].
      destruct (Hc r' Hr') as [e' [Hin HF]]. exists e'. split; [apply Hmem; auto|]. apply Forall2_app; auto.
  Qed.

  Lemma nest_flat_hyps p a e o xs ox : good e -> lookup e p = Some (VO o) -> fresh e (PAttr p a) ->
    attr W o a = VLO xs -> In ox xs ->
    good ((PFlat (PAttr p a), VO ox) :: (PAttr p a, attr W o a) :: e) /\
    lookup ((PFlat (PAttr p a), VO ox) :: (PAttr p a, attr W o a) :: e) (PFlat (PAttr p a)) = Some (VO ox) /\
    (forall a', fresh ((PFlat (PAttr p a), VO ox) :: (PAttr p a, attr W o a) :: e) (PAttr (PFlat (PAttr p a)) a')).
  Proof.
    intros Hg Hp Hf Hav Hox.
    assert (Hin : In (VO ox) (elems (attr W o a))) by (rewrite Hav; simpl; apply in_map; auto).
    destruct (bind_flat e p a o (VO ox) Hg Hp Hf Hin) as [Hg2 [Hx2 [Hfr2 Hl2]]].
    split; auto. split; auto.
    intros a'. apply (fresh_nested e _ (PAttr p a)); auto; [apply under_flat|].
    intros x H1 H2. destruct (path_eq_dec (PFlat (PAttr p a)) x) as [<-|N1]; [simpl; lia|].
    destruct (path_eq_dec (PAttr p a) x) as [<-|N2]; [simpl; lia|].
    rewrite !lookup_cons_ne in H2 by auto. congruence.
  Qed.
  Lemma nest_attr_hyps p a e o : good e -> lookup e p = Some (VO o) -> fresh e (PAttr p a) ->
    good ((PAttr p a, attr W o a) :: e) /\ lookup ((PAttr p a, attr W o a) :: e) (PAttr p a) = Some (attr W o a) /\
    (forall a', fresh ((PAttr p a, attr W o a) :: e) (PAttr (PAttr p a) a')).
  Proof.
    intros Hg Hp Hf. destruct (bind_attr e p a o Hg Hp Hf) as [Hev [Hg1 [Hx1 [Hfr1 Hl1]]]].
    split; auto. split; auto.
    intros a'. apply (fresh_nested e _ (PAttr p a)); auto; [apply under_refl|].
    intros x H1 H2. destruct (path_eq_dec (PAttr p a) x) as [<-|N2]; [lia|].
    rewrite lookup_cons_ne in H2 by auto. congruence.
  Qed.

  Lemma P_rows_case t l' : A_rows l' -> P_rows (Pat t l').
  Proof.
    intros IHr s oc p a e o Hg Hp Hi Hf Hok. destruct all_stmts as [_ [HA _]]. pose proof (HA l') as IH.
    change (fok_apat C objcls true oc p a (PMatch (Pat t l'))) with (fok_pat C objcls true oc p a (Pat t l')) in Hok.
    rewrite fok_pat_eq in Hok. cbv zeta in Hok.
    apply andb_true_iff in Hok. destruct Hok as [Hok Hal]. apply andb_true_iff in Hok. destruct Hok as [Hok Hhead].
    apply andb_true_iff in Hok. destruct Hok as [Hty Hobj].
    pose proof (proj1 (proj2 (fok_mono C objcls)) _ _ _ Hal) as Hal0.
    destruct (f_type C oc a) as [d|] eqn:Hd; [|discriminate]. cbn [dflt] in *.
    change (sels_apat C s oc p a (PMatch (Pat t l'))) with (sels_pat C s oc p a (Pat t l')).
    change (srows_apat (sub C) M s (PMatch (Pat t l')) (attr W o a)) with (srows_pat (sub C) M s (Pat t l') (attr W o a)).
    rewrite sels_pat_eq, tr_apat_match, tr_pat_eq, Hd. cbn [dflt].
    pose proof (Htyped o oc a d Hi Hd) as Ht.
    unfold nested_filter, nested_var in *. rewrite ?Hd. cbn [dflt].
    destruct (f_iter C oc a) eqn:Hit; destruct (type_filter C oc a t) eqn:Htf; unfold resolve_flatten in *; cbn [andb orb] in *.
    - (* collection, type filter *)
      rewrite orb_true_r in *. change (match t with Some T => T | None => d end) with (ftype t d). set (T := ftype t d) in *.
      destruct Ht as [xs [Hav Hxs]]. rewrite Hav, srows_pat_coll.
      rewrite (flat_map_ext_in _ (fun x => guard ((fun ox => sub C (otype M ox) T) x)
                 (map (app (cols s [VLO xs; VO x])) ((fun ox => srows_alist (sub C) M l' ox) x))) xs).
      2:{ intros x Hx. rewrite <- (filter_type_ok t d x (Hxs x Hx)). reflexivity. }
      apply (rows_coll s _ (tr_alist C d (PFlat (PAttr p a)) l') _ (fun ox => sub C (otype M ox) T)
               (fun ox => srows_alist (sub C) M l' ox) p a e o xs Hg Hp Hav).
      + apply mem_coll_filter; auto.
      + intros ox Hox. destruct (nest_flat_hyps p a e o xs ox Hg Hp Hf Hav Hox) as [Hg2 [Hl2 Hf2]].
        apply IHr; auto. red. auto.
      + intros ox e' Hox Hin.
        destruct (nest_flat l' IH d p a e o xs ox Hg Hp Hf Hav Hox (Hxs ox Hox) Hal0) as [[Hc1 _] Hc2].
        destruct (Hc1 e' Hin) as [? [? _]]. destruct (Hc2 e' Hin). auto.
    - (* collection, no type filter: some condition is emitted (strict fragment) *)
      rewrite orb_false_r in *. simpl in Hhead.
      destruct l' as [|a0 c0 rest0] eqn:Hl'; [discriminate|]. rewrite <- Hl' in *.
      replace (negb (is_anil l')) with true in * by (rewrite Hl'; reflexivity).
      destruct Ht as [xs [Hav Hxs]]. rewrite Hav, srows_pat_coll. simpl app.
      destruct (tr_alist C d (PFlat (PAttr p a)) l') as [|c cs'] eqn:Hcs; [discriminate|].
      rewrite (flat_map_ext_in _ (fun x => guard ((fun _ : Z => true) x)
                 (map (app (cols s [VLO xs; VO x])) ((fun ox => srows_alist (sub C) M l' ox) x))) xs).
      2:{ intros x Hx. rewrite (nofilter_type_ok oc a t d x Htf Hd (Hxs x Hx)). reflexivity. }
      apply (rows_coll s _ (c :: cs') _ (fun _ => true) (fun ox => srows_alist (sub C) M l' ox) p a e o xs Hg Hp Hav).
      + intros e'. rewrite (mem_coll_nofilter l' d p a e o xs c cs' Hp Hf Hav Hcs e').
        split; intros [ox H]; exists ox; tauto.
      + intros ox Hox. destruct (nest_flat_hyps p a e o xs ox Hg Hp Hf Hav Hox) as [Hg2 [Hl2 Hf2]].
        rewrite <- Hcs. apply IHr; auto. red. auto.
      + intros ox e' Hox Hin. rewrite <- Hcs in Hin.
        destruct (nest_flat l' IH d p a e o xs ox Hg Hp Hf Hav Hox (Hxs ox Hox) Hal0) as [[Hc1 _] Hc2].
        destruct (Hc1 e' Hin) as [? [? _]]. destruct (Hc2 e' Hin). auto.
    - (* one-to-one, type filter *)
      change (match t with Some T => T | None => d end) with (ftype t d). set (T := ftype t d) in *.
      rewrite Hobj in Ht. destruct Ht as [o' [Hav Ho']].
      rewrite Hav, srows_pat_obj. rewrite <- (filter_type_ok t d o' Ho'). fold T.
      change (match t with Some T0 => T0 | None => d end) with T.
      destruct (has_attr T e p a o Hg Hp Hf) as [_ Heq].
      destruct (nest_attr_hyps p a e o Hg Hp Hf) as [Hg1 [Hl1 Hf1]].
      apply (rows_one s _ (tr_alist C d (PAttr p a) l') _ (sub C (otype M o') T) (srows_alist (sub C) M l' o') p a e o o' Hg Hp Hav).
      + intros e'. rewrite eval_all_app, Heq, Hav. cbn [isinst].
        destruct (sub C (otype M o') T); simpl; [rewrite app_nil_r; rewrite <- Hav; tauto|]. split; [tauto|intros [? _]; discriminate].
      + apply IHr; auto. rewrite Hl1, Hav. reflexivity.
      + intros e' Hin. destruct (nest_attr l' IH d p a e o o' Hg Hp Hf Hav Ho' Hal0) as [[Hc1 _] Hc2].
        destruct (Hc1 e' Hin) as [? _]. destruct (Hc2 e' Hin). auto.
    - (* one-to-one, no type filter *)
      rewrite Hobj in Ht. destruct Ht as [o' [Hav Ho']]. simpl app.
      rewrite Hav, srows_pat_obj. rewrite (nofilter_type_ok oc a t d o' Htf Hd Ho').
      destruct (nest_attr_hyps p a e o Hg Hp Hf) as [Hg1 [Hl1 Hf1]].
      assert (Hrows1 : rowsOK (sels_alist C d (PAttr p a) l') (tr_alist C d (PAttr p a) l') ((PAttr p a, attr W o a) :: e)
                         (srows_alist (sub C) M l' o')).
      { apply IHr; auto. rewrite Hl1, Hav. reflexivity. }
      destruct (nest_attr l' IH d p a e o o' Hg Hp Hf Hav Ho' Hal0) as [[Hc1 _] Hc2].
      destruct (tr_alist C d (PAttr p a) l') as [|c cs'] eqn:Hcs.
      + (* nothing emitted: the attribute node is not even bound, its value is determined all the same *)
        assert (Hn : lookup e (PAttr p a) = None) by (apply Hf, under_refl).
        destruct Hrows1 as [Hs Hc]. simpl in Hs, Hc. split.
        * intros e' [<-|[]]. destruct (Hs _ (or_introl eq_refl)) as [r' [Hr' HF]].
          exists (cols s [VO o'] ++ r'). split; [simpl; apply in_map; auto|]. apply Forall2_app.
          -- destruct s; simpl; [|constructor]. constructor; [rewrite <- Hav; apply dval_attr_of; auto|constructor].
          -- clear - HF Hg Hp Hn. induction HF; constructor; auto. eapply dval_uncons; eauto.
        * intros r Hr. simpl in Hr. apply in_map_iff in Hr. destruct Hr as [r' [<- Hr']].
          destruct (Hc r' Hr') as [e' [[<-|[]] HF]]. exists e. split; [simpl; auto|]. apply Forall2_app.
          -- destruct s; simpl; [|constructor]. constructor; [rewrite <- Hav; apply dval_attr_of; auto|constructor].
          -- clear - HF Hg Hp Hn. induction HF; constructor; auto. eapply dval_uncons; eauto.
      + assert (Heq : eval_all (c :: cs') e = eval_all (c :: cs') ((PAttr p a, attr W o a) :: e)).
        { destruct (bind_attr e p a o Hg Hp Hf) as [Hev _].
          apply (eval_all_factor1 C M D c cs' (PAttr p a) e _ (attr W o a)); auto.
          apply (proj1 (proj2 (tr_under C)) l' d (PAttr p a) c). rewrite Hcs. simpl. auto. }
        apply (rows_one s _ (c :: cs') _ true (srows_alist (sub C) M l' o') p a e o o' Hg Hp Hav); auto.
        * intros e'. rewrite Heq. tauto.
        * intros e' Hin. destruct (Hc1 e' Hin) as [? _]. destruct (Hc2 e' Hin). auto.
  Qed.

  Lemma A_rows_nil : A_rows ANil.
  Proof.
    intros oc p e o Hg Hp Hi Hf Hok. simpl. split.
    - intros e' [<-|[]]. exists []. split; [simpl; auto|constructor].
    - intros r [<-|[]]. exists e. split; [simpl; auto|constructor].
  Qed.

  Lemma A_rows_cons a c rest : C_rows c -> A_rows rest -> A_rows (ACons a c rest).
  Proof.
    intros IHc IHr oc p e o Hg Hp Hi Hf Hok. destruct all_stmts as [_ [HA HC]].
    rewrite fok_alist_cons in Hok.
    apply andb_true_iff in Hok. destruct Hok as [Hok Hokr]. apply andb_true_iff in Hok. destruct Hok as [Hnd Hokc].
    pose proof (proj2 (proj2 (fok_mono C objcls)) _ _ _ _ Hokc) as Hokc0.
    pose proof (proj1 (proj2 (fok_mono C objcls)) _ _ _ Hokr) as Hokr0.
    assert (Hnin : ~ In a (names rest)).
    { intros Hin. apply negb_true_iff in Hnd. unfold nmemb in Hnd.
      assert (existsb (Nat.eqb a) (names rest) = true) by (apply existsb_exists; exists a; split; auto; apply Nat.eqb_refl).
      congruence. }
    destruct (HC c oc p a e o Hg Hp Hi (Hf a (or_introl eq_refl)) Hokc0) as [Hc1 _].
    destruct (IHc false oc p a e o Hg Hp Hi (Hf a (or_introl eq_refl)) Hokc) as [Hcs Hcc].
    rewrite tr_alist_cons, sels_alist_cons, srows_alist_cons.
    (* the hypotheses hold again after the conditions of the first keyword *)
    assert (Hnext : forall e1, In e1 (eval_all (tr_apat C oc p a c) e) ->
              good e1 /\ lookup e1 p = Some (VO o) /\ (forall a', In a' (names rest) -> fresh e1 (PAttr p a'))).
    { intros e1 Hin1. destruct (Hc1 e1 Hin1) as [Hg1 [Hx1 Hfr1]]. split; auto. split; auto.
      intros a' Ha' x Hx. destruct (lookup e1 x) eqn:Hl; auto. exfalso.
      assert (Hn : lookup e x = None) by (apply (Hf a'); simpl; auto).
      assert (Hu : under (PAttr p a) x) by (apply Hfr1; auto; congruence).
      assert (a = a') by (eapply under_attr_inj; eauto). subst. contradiction. }
    split.
    - intros e' Hin. rewrite eval_all_app, in_flat_map in Hin. destruct Hin as [e1 [Hin1 Hin2]].
      destruct (Hnext e1 Hin1) as [Hg1 [Hp1 Hf1]].
      destruct (Hcs e1 Hin1) as [r1 [Hr1 HF1]].
      destruct (IHr oc p e1 o Hg1 Hp1 Hi Hf1 Hokr) as [Hrs _]. destruct (Hrs e' Hin2) as [r2 [Hr2 HF2]].
      destruct (HA rest oc p e1 o Hg1 Hp1 Hi Hf1 Hokr0) as [Hres _]. destruct (Hres e' Hin2) as [Hg' [Hx' _]].
      exists (r1 ++ r2). split.
      + apply in_flat_map. exists r1. split; auto. apply in_map. exact Hr2.
      + apply Forall2_app; auto. clear - HF1 Hg' Hx'. induction HF1; constructor; auto. eapply dval_ext; eauto.
    - intros r Hr. apply in_flat_map in Hr. destruct Hr as [r1 [Hr1 Hr]]. apply in_map_iff in Hr. destruct Hr as [r2 [<- Hr2]].
      destruct (Hcc r1 Hr1) as [e1 [Hin1 HF1]].
      destruct (Hnext e1 Hin1) as [Hg1 [Hp1 Hf1]].
      destruct (IHr oc p e1 o Hg1 Hp1 Hi Hf1 Hokr) as [_ Hrc]. destruct (Hrc r2 Hr2) as [e' [Hin2 HF2]].
      destruct (HA rest oc p e1 o Hg1 Hp1 Hi Hf1 Hokr0) as [Hres _]. destruct (Hres e' Hin2) as [Hg' [Hx' _]].
      exists e'. split; [rewrite eval_all_app; apply in_flat_map; eauto|].
      apply Forall2_app; auto. clear - HF1 Hg' Hx'. induction HF1; constructor; auto. eapply dval_ext; eauto.
  Qed.

  Theorem all_rows : (forall q, P_rows q) /\ (forall l, A_rows l) /\ (forall c, C_rows c).
  Proof.
    apply pat_mutind.
    - intros t l IH. apply P_rows_case; auto.
    - apply A_rows_nil.
    - intros a c IHc rest IHr. apply A_rows_cons; auto.
    - apply C_rows_lit.
    - intros q IH. exact IH.
    - apply C_rows_any.
    - apply C_rows_all.
    - intros v s oc p a e o _ _ _ _ Hok. discriminate Hok.
    - intros c' IH s oc p a e o Hg Hp Hi Hf Hok.
      change (sels_apat C s oc p a (PSel c')) with (sels_apat C true oc p a c').
      change (tr_apat C oc p a (PSel c')) with (tr_apat C oc p a c').
      change (srows_apat (sub C) M s (PSel c') (attr W o a)) with (srows_apat (sub C) M true c' (attr W o a)).
      apply IH; auto. simpl in Hok. destruct c'; try discriminate; exact Hok.
  Qed.

  (* ---- the root variable: one independent evaluation per domain element ---- *)
  Definition root_env (o : Z) : env := [(PRoot, VO o)].
  Lemma eval_root_nil : eval_path PRoot [] = map (fun o => (root_env o, VO o)) D.
  Proof. reflexivity. Qed.

  Lemma root_split c cs e' :
    In e' (eval_all (c :: cs) []) <-> exists o, In o D /\ In e' (eval_all (c :: cs) (root_env o)).
  Proof.
    rewrite (eval_all_split C M D c cs PRoot []).
    - rewrite eval_root_nil. split.
      + intros [r [Hr Hin]]. apply in_map_iff in Hr. destruct Hr as [o [<- Ho]]. eauto.
      + intros [o [Ho Hin]]. exists (root_env o, VO o). split; auto. apply in_map_iff. eauto.
    - apply under_root.
    - intros; reflexivity.
    - intros _. split; [simpl; auto|]. rewrite eval_root_nil. intros r1 r2 H1 H2 Heq.
      apply in_map_iff in H1. apply in_map_iff in H2. destruct H1 as [o1 [<- _]]. destruct H2 as [o2 [<- _]].
      simpl in Heq. injection Heq as ->. reflexivity.
  Qed.

  Lemma select_root_bound e o : lookup e PRoot = Some (VO o) -> select_root M D e = [o].
  Proof. intros H. unfold select_root. rewrite (eval_path_bound M D _ _ _ H). reflexivity. Qed.
  Lemma select_root_nil : select_root M D [] = D.
  Proof.
    unfold select_root. rewrite eval_root_nil, flat_map_map. cbn [snd]. apply flat_map_single.
  Qed.

  Theorem run_conds_exact T l : fok_alist C objcls false T PRoot l = true -> (forall o, In o D -> inst o T) ->
    forall o, In o (run_conds C M D (tr_alist C T PRoot l)) <-> In o D /\ lax_alist C M T PRoot l o = true.
  Proof.
    intros Hok HD o. unfold run_conds. rewrite true_envs_seq.
    destruct (tr_alist C T PRoot l) as [|c cs] eqn:Hcs.
    - simpl. rewrite app_nil_r, select_root_nil. split; [|tauto]. intros Hin. split; auto.
      destruct (match_sat T l o Hok Hin (HD o Hin)) as [Hm _]. rewrite Hcs in Hm. apply Hm. simpl. discriminate.
    - rewrite in_flat_map. split.
      + intros [e' [Hin Hsel]]. apply root_split in Hin. destruct Hin as [o1 [Ho1 Hin]]. rewrite <- Hcs in Hin.
        destruct (match_sat T l o1 Hok Ho1 (HD o1 Ho1)) as [Hm Hroot].
        rewrite (select_root_bound e' o1 (Hroot e' Hin)) in Hsel. destruct Hsel as [<-|[]]. split; auto.
        apply Hm. apply nonempty_ex. eauto.
      + intros [Hin Hmt]. destruct (match_sat T l o Hok Hin (HD o Hin)) as [Hm Hroot].
        apply Hm in Hmt. apply nonempty_ex in Hmt. destruct Hmt as [e' He']. rewrite Hcs in He'.
        exists e'. split; [apply root_split; eauto|]. rewrite <- Hcs in He'.
        rewrite (select_root_bound e' o (Hroot e' He')). simpl; auto.
  Qed.

  (* ---- rows at the root ---- *)
  Lemma sels_empty :
    (forall q oc p a, fok_pat C objcls true oc p a q = true ->
       (sels_pat C false oc p a q = [] <-> anysel_apat (PMatch q) = false)) /\
    (forall l oc p, fok_alist C objcls true oc p l = true -> (sels_alist C oc p l = [] <-> anysel_alist l = false)) /\
    (forall c oc p a, fok_apat C objcls true oc p a c = true ->
       (sels_apat C false oc p a c = [] <-> anysel_apat c = false)).
  Proof.
    apply pat_mutind.
    - intros t l IH oc p a Hok. rewrite fok_pat_eq in Hok. cbv zeta in Hok. apply andb_true_iff in Hok. destruct Hok as [_ Hal].
      rewrite sels_pat_eq. simpl app. apply IH. exact Hal.
    - intros oc p _. simpl. tauto.
    - intros a c IHc rest IHr oc p Hok. rewrite fok_alist_cons in Hok.
      apply andb_true_iff in Hok. destruct Hok as [Hok Hr]. apply andb_true_iff in Hok. destruct Hok as [_ Hc].
      rewrite sels_alist_cons. simpl anysel_alist. rewrite orb_false_iff, <- (IHc _ _ _ Hc), <- (IHr _ _ Hr).
      split; [apply app_eq_nil|intros [-> ->]; reflexivity].
    - intros v oc p a _. simpl. tauto.
    - intros q IH oc p a Hok. apply IH. exact Hok.
    - intros v oc p a _. simpl. tauto.
    - intros v oc p a _. simpl. tauto.
    - intros v oc p a Hok. discriminate Hok.
    - intros c IH oc p a Hok. simpl in Hok. simpl anysel_apat. split; [|discriminate].
      destruct c as [v|[t l]|v|v|v|c']; try discriminate; simpl; try discriminate;
      try (rewrite sels_pat_eq; discriminate).
  Qed.

  Lemma rows_root_split sels cs : sels <> [] -> forall r,
    In r (flat_map (sel_rows M D sels) (eval_all cs [])) <->
    exists o, In o D /\ In r (flat_map (sel_rows M D sels) (eval_all cs (root_env o))).
  Proof.
    intros Hne r. destruct cs as [|c cs'].
    - simpl. rewrite app_nil_r. destruct sels as [|s0 rest]; [congruence|]. simpl sel_rows.
      rewrite (path_factor M D PRoot s0 [] (under_root s0)) by (intros; reflexivity).
      rewrite eval_root_nil, flat_map_map, flat_map_flat_map, in_flat_map. cbn [fst].
      split; intros [o [Ho H]]; exists o; (split; [exact Ho|]).
      + rewrite app_nil_r. exact H.
      + rewrite app_nil_r in H. exact H.
    - rewrite in_flat_map. split.
      + intros [e' [Hin Hr]]. apply root_split in Hin. destruct Hin as [o [Ho Hin]]. exists o. split; auto.
        apply in_flat_map. eauto.
      + intros [o [Ho Hr]]. apply in_flat_map in Hr. destruct Hr as [e' [Hin Hr]]. exists e'. split; auto.
        apply root_split. eauto.
  Qed.

  Lemma sels_root_ne rootsel T l : sels_root C rootsel T l <> [].
  Proof. unfold sels_root. destruct rootsel; [discriminate|]. destruct (sels_alist C T PRoot l); discriminate. Qed.

  Theorem run_rows_conds_exact rootsel T l : fok_alist C objcls true T PRoot l = true -> (forall o, In o D -> inst o T) ->
    forall r, In r (run_rows_conds C M D (sels_root C rootsel T l) (tr_alist C T PRoot l)) <->
      exists o r', In o D /\ In r' (srows_alist (sub C) M l o) /\ r = cols (rootsel || negb (anysel_alist l)) [VO o] ++ r'.
  Proof.
    intros Hok HD r. unfold run_rows_conds. rewrite true_envs_seq.
    rewrite (rows_root_split _ _ (sels_root_ne rootsel T l)).
    destruct all_rows as [_ [HR _]]. destruct all_stmts as [_ [HA _]].
    pose proof (proj1 (proj2 (fok_mono C objcls)) _ _ _ Hok) as Hok0.
    assert (Hat : forall o, In o D ->
              good (root_env o) /\ lookup (root_env o) PRoot = Some (VO o) /\
              (forall a, In a (names l) -> fresh (root_env o) (PAttr PRoot a))).
    { intros o Ho. split; [apply good_cons; [apply good_nil|reflexivity|simpl; eauto]|]. split; [apply lookup_cons_eq|].
      intros a _ x Hx. unfold root_env. rewrite lookup_cons_ne; auto. intros <-. apply under_size in Hx. simpl in Hx. lia. }
    (* the row of one result *)
    assert (Hrow : forall o e' r', In o D -> In e' (eval_all (tr_alist C T PRoot l) (root_env o)) ->
              Forall2 (dval e') (sels_alist C T PRoot l) r' ->
              sel_rows M D (sels_root C rootsel T l) e' = [cols (rootsel || negb (anysel_alist l)) [VO o] ++ r']).
    { intros o e' r' Ho Hin HF. destruct (Hat o Ho) as [Hg [Hl Hf]].
      destruct (HA l T PRoot (root_env o) o Hg Hl (HD o Ho) Hf Hok0) as [Hres _]. destruct (Hres e' Hin) as [Hg' [Hx' _]].
      apply (sel_rows_det _ _ e'); [|exact Hg'|apply ext_refl].
      assert (Hroot : dval e' PRoot (VO o)) by (apply dv_bound; apply Hx'; exact Hl).
      unfold sels_root. destruct rootsel; simpl orb.
      - simpl. constructor; auto.
      - destruct (sels_alist C T PRoot l) as [|s0 rest] eqn:Hs.
        + rewrite (proj1 (proj1 (proj2 sels_empty) l T PRoot Hok) Hs). simpl. inversion HF; subst. constructor; [auto|constructor].
        + destruct (anysel_alist l) eqn:Han; [simpl; exact HF|].
          apply (proj2 (proj1 (proj2 sels_empty) l T PRoot Hok)) in Han. congruence. }
    split.
    - intros [o [Ho Hr]]. apply in_flat_map in Hr. destruct Hr as [e' [Hin Hr]].
      destruct (Hat o Ho) as [Hg [Hl Hf]].
      destruct (HR l T PRoot (root_env o) o Hg Hl (HD o Ho) Hf Hok) as [Hs _]. destruct (Hs e' Hin) as [r' [Hr' HF]].
      rewrite (Hrow o e' r' Ho Hin HF) in Hr. destruct Hr as [<-|[]]. exists o, r'. auto.
    - intros [o [r' [Ho [Hr' ->]]]]. destruct (Hat o Ho) as [Hg [Hl Hf]].
      destruct (HR l T PRoot (root_env o) o Hg Hl (HD o Ho) Hf Hok) as [_ Hc]. destruct (Hc r' Hr') as [e' [Hin HF]].
      exists o. split; auto. apply in_flat_map. exists e'. split; auto. rewrite (Hrow o e' r' Ho Hin HF). simpl. auto.
  Qed.
End Main.

(* C11 on the relaxed fragment: the answer is exactly what the relaxed reading denotes *)
Theorem match_run_lax C objcls M T l dom :
  sub_trans C -> typed C objcls M -> F11lax C objcls T l = true ->
  forall o, In o (run C M T l dom) <-> In o (lax_run C M T l dom).
Proof.
  intros Ht Hty HF o. unfold run, lax_run.
  rewrite (run_conds_exact C objcls M (filter (fun o0 => sub C (otype M o0) T) dom) Ht Hty T l); auto.
  - rewrite !filter_In, andb_true_iff. tauto.
  - intros o0 Ho0. apply filter_In in Ho0. apply Ho0.
Qed.

(* C11: the answer of the pattern query is the set of domain elements of type T that the Spec denotes *)
Theorem match_run_exact C objcls M T l dom :
  sub_trans C -> typed C objcls M -> F11 C objcls T l = true ->
  forall o, In o (run C M T l dom) <-> In o (spec_run (sub C) M T l dom).
Proof.
  intros Ht Hty HF o.
  rewrite (match_run_lax C objcls M T l dom Ht Hty (proj1 (proj2 (fok_mono C objcls)) _ _ _ HF)).
  unfold lax_run, spec_run. rewrite !filter_In, matches_eq. cbn [type_ok].
  rewrite (proj1 (proj2 (lax_strict C objcls M)) l T PRoot o HF). tauto.
Qed.

(* C11, selected inner parts: the rows reported for a pattern written with select / entity_selection are exactly the
   Spec's projections of the satisfying assignments -- as a set.  (Multiplicities: the model, like the implementation,
   yields a row once per satisfying assignment of the flattened collections, selected or not, and once per common member
   for a literal collection given for a collection attribute; an exists(...) keeps one.) *)
Theorem match_rows_exact C objcls M rootsel T l dom :
  sub_trans C -> typed C objcls M -> F11 C objcls T l = true ->
  forall r, In r (run_rows C M rootsel T l dom) <-> In r (spec_rows (sub C) M rootsel T l dom).
Proof.
  intros Ht Hty HF r. unfold run_rows, spec_rows.
  rewrite (run_rows_conds_exact C objcls M (filter (fun o0 => sub C (otype M o0) T) dom) Ht Hty rootsel T l HF).
  2:{ intros o0 Ho0. apply filter_In in Ho0. apply Ho0. }
  rewrite in_flat_map. split.
  - intros [o [r' [Ho [Hr' ->]]]]. apply filter_In in Ho. destruct Ho as [Ho Hi]. exists o. split; auto.
    rewrite Hi. simpl. apply in_map. exact Hr'.
  - intros [o [Ho Hr]]. destruct (sub C (otype M o) T) eqn:Hi; [|contradiction]. simpl in Hr.
    apply in_map_iff in Hr. destruct Hr as [r' [<- Hr']]. exists o, r'. split; [apply filter_In; auto|auto].
Qed.

(* the Spec's answers are never lost, also where finding C11-e applies *)
Theorem lax_superset C M T l dom o : In o (spec_run (sub C) M T l dom) -> In o (lax_run C M T l dom).
Proof.
  unfold lax_run, spec_run. rewrite !filter_In, matches_eq. cbn [type_ok]. intros [Hin H].
  apply andb_true_iff in H. destruct H as [H1 H2]. split; auto.
  rewrite H1, (proj1 (proj2 (lax_weaker C M)) l T PRoot o H2). reflexivity.
Qed.

(* where exactly the two readings part for the simplest vacuous keyword  a = match(T)()  on a collection attribute
   (T absent, the declared type or wider): the code accepts every element, the Spec those whose collection has a member *)
Theorem vacuous_keyword C objcls M oc p a t o d xs :
  sub_trans C -> typed C objcls M -> sub C (otype M o) oc = true ->
  f_type C oc a = Some d -> f_iter C oc a = true -> type_filter C oc a t = false -> attr (mw M) o a = VLO xs ->
  lax_apat C M oc p a (PMatch (Pat t ANil)) (VLO xs) = true /\
  matches_attr (sub C) M (PMatch (Pat t ANil)) (VLO xs) = negb (match xs with [] => true | _ => false end).
Proof.
  intros Ht Hty Hi Hd Hit Htf Hav. split.
  - rewrite lax_match_coll. cbv zeta. rewrite Hit, Htf. reflexivity.
  - rewrite matches_attr_coll. pose proof (Hty o oc a d Hi Hd) as Hx. rewrite Hit in Hx.
    destruct Hx as [xs' [Hav' Hall]]. rewrite Hav in Hav'. injection Hav' as <-.
    destruct xs as [|x xs]; [reflexivity|]. simpl. rewrite matches_eq.
    rewrite (nofilter_type_ok C M Ht oc a t d x Htf Hd (Hall x (or_introl eq_refl))). reflexivity.
Qed.

(* ------------------------------------------------------------------ no exception inside the fragment *)
Definition is_tvar (c : tcond) : bool := match c with TVar _ _ _ => true | _ => false end.
Definition no_tvar (cs : list tcond) : bool := forallb (fun c => negb (is_tvar c)) cs.

Lemma raises_no_tvar C M D cs : no_tvar cs = true -> forall e, raises_all C M D cs e = false.
Proof.
  induction cs as [|c cs IH]; simpl; intros H e; auto.
  apply andb_true_iff in H. destruct H as [Hc Hcs].
  assert (raises1 M D c e = false) by (destruct c; simpl in *; auto; discriminate).
  rewrite H. simpl. induction (map fst _) as [|e1 l IHl]; simpl; auto. rewrite (IH Hcs e1), IHl. reflexivity.
Qed.

Lemma infer_no_tvar ai vi im un ex pa v : is_tvar (infer ai vi im un ex pa v) = false.
Proof. unfold infer. destruct (infer_kind ai vi im un); reflexivity. Qed.

Lemma tr_no_tvar C objcls :
  (forall q oc p a, fok_pat C objcls false oc p a q = true -> no_tvar (tr_pat C oc p a q) = true) /\
  (forall l oc p, fok_alist C objcls false oc p l = true -> no_tvar (tr_alist C oc p l) = true) /\
  (forall c oc p a, fok_apat C objcls false oc p a c = true -> no_tvar (tr_apat C oc p a c) = true).
Proof.
  apply pat_mutind.
  - intros t l IH oc p a. rewrite fok_pat_eq, tr_pat_eq. cbv zeta. intros H.
    apply andb_true_iff in H. destruct H as [_ Hal]. unfold no_tvar. rewrite forallb_app.
    fold (no_tvar (tr_alist C (dflt (f_type C oc a)) (nested_var C oc p a t (negb (is_anil l))) l)).
    rewrite (IH _ _ Hal), andb_true_r. unfold nested_filter. destruct (type_filter C oc a t); reflexivity.
  - reflexivity.
  - intros a c IHc rest IHr oc p. rewrite fok_alist_cons, tr_alist_cons. intros H.
    apply andb_true_iff in H. destruct H as [H Hr]. apply andb_true_iff in H. destruct H as [_ Hc].
    unfold no_tvar. rewrite forallb_app. fold (no_tvar (tr_apat C oc p a c)). fold (no_tvar (tr_alist C oc p rest)).
    rewrite (IHc _ _ _ Hc), (IHr _ _ Hr). reflexivity.
  - intros v oc p a _. simpl. rewrite infer_no_tvar. reflexivity.
  - intros q IH oc p a H. apply IH. exact H.
  - intros v oc p a _. simpl. rewrite infer_no_tvar. reflexivity.
  - intros v oc p a _. simpl. rewrite infer_no_tvar. reflexivity.
  - intros v oc p a H. discriminate H.
  - intros c IH oc p a H. simpl in H. change (tr_apat C oc p a (PSel c)) with (tr_apat C oc p a c).
    destruct c; try discriminate; apply IH; exact H.
Qed.

(* inside the (relaxed) fragment the query raises nothing *)
Theorem no_error C objcls M T l dom : F11lax C objcls T l = true -> run_raises C M T l dom = false.
Proof. intros H. apply raises_no_tvar. apply (proj1 (proj2 (tr_no_tvar C objcls))). exact H. Qed.

(* ------------------------------------------------------------------ no AttributeError in a world without None *)
Section NoNone.
  Variable C : cmodel.
  Variable M : mworld.
  Variable D : list Z.
  Hypothesis Hnn : forall o a, nonone_v (attr (mw M) o a) = true.
  Hypothesis HD : ~ In 0%Z D.

  Definition clean (e : env) : Prop := forall p v, lookup e p = Some v -> nonone_v v = true.
  Lemma nonone_not_none v : nonone_v v = true -> is_none v = false.
  Proof. destruct v; simpl; auto. intros H. apply negb_true_iff in H. exact H. Qed.
  Lemma clean_cons e p v : clean e -> nonone_v v = true -> clean ((p, v) :: e).
  Proof. intros Hc Hv q w H. rewrite lookup_cons in H. destruct (path_eq_dec p q); [injection H as <-; auto|eauto]. Qed.

  Lemma eval_path_clean p : forall e, clean e -> forall e' v, In (e', v) (eval_path M D p e) -> clean e' /\ nonone_v v = true.
  Proof.
    induction p as [|q IH a|q IH]; intros e Hc e' v; rewrite eval_path_eq; destruct (lookup e _) eqn:Hl.
    - intros [H|[]]. injection H as <- <-. split; eauto.
    - rewrite in_map_iff. intros [o [H Ho]]. injection H as <- <-.
      assert (Hv : nonone_v (VO o) = true).
      { simpl. apply negb_true_iff. apply Z.eqb_neq. intros ->. contradiction. }
      split; auto. apply clean_cons; auto.
    - intros [H|[]]. injection H as <- <-. split; eauto.
    - rewrite in_map_iff. intros [[e1 u] [H Hin]]. simpl in H. injection H as <- <-.
      destruct (IH e Hc e1 u Hin) as [Hc1 _].
      assert (Hv : nonone_v (getattr (mw M) u a) = true) by (destruct u; simpl; auto).
      split; auto. apply clean_cons; auto.
    - intros [H|[]]. injection H as <- <-. split; eauto.
    - rewrite in_flat_map. intros [[e1 u] [Hin H]]. rewrite in_map_iff in H. destruct H as [y [H Hy]]. simpl in H.
      injection H as <- <-. destruct (IH e Hc e1 u Hin) as [Hc1 Hu].
      assert (Hv : nonone_v y = true).
      { destruct u as [z|o|zs|xs]; simpl in Hy; try contradiction.
        - apply in_map_iff in Hy. destruct Hy as [z [<- _]]. reflexivity.
        - apply in_map_iff in Hy. destruct Hy as [x [<- Hx]]. simpl in *. apply negb_true_iff. apply negb_true_iff in Hu.
          destruct (Z.eqb x 0) eqn:Hx0; auto. apply Z.eqb_eq in Hx0. subst.
          assert (existsb (Z.eqb 0) xs = true) by (apply existsb_exists; exists 0%Z; split; auto). congruence. }
      split; auto. apply clean_cons; auto.
  Qed.

  Lemma path_raises_clean p : forall e, clean e -> path_raises M D p e = false.
  Proof.
    induction p as [|q IH a|q IH]; intros e Hc; simpl; destruct (lookup e _); auto.
    rewrite (IH e Hc). simpl.
    destruct (existsb (fun r : env * val => is_none (snd r)) (eval_path M D q e)) eqn:He; auto.
    apply existsb_exists in He. destruct He as [[e1 u] [Hin Hn]].
    destruct (eval_path_clean q e Hc e1 u Hin) as [_ Hu]. apply nonone_not_none in Hu. simpl in Hn. congruence.
  Qed.

  Lemma eval_clean c e e' : clean e -> In e' (trues (eval C M D c e)) -> clean e'.
  Proof.
    intros Hc Hin. apply in_trues in Hin. destruct c as [ex k p v|p T|k p v]; simpl in Hin; [| |contradiction].
    - assert (Hm : In (e', false) (map (fun r : env * val => (fst r, negb (cmp M k (snd r) v))) (eval_path M D p e))).
      { destruct ex; auto. apply exists_scan_sub in Hin. tauto. }
      apply in_map_iff in Hm. destruct Hm as [[e1 u] [H Hr]]. injection H as <- _. apply (eval_path_clean p e Hc e1 u Hr).
    - apply in_map_iff in Hin. destruct Hin as [[e1 u] [H Hr]]. injection H as <- _. apply (eval_path_clean p e Hc e1 u Hr).
  Qed.

  Lemma araises_clean cs : forall e, clean e -> araises_all C M D cs e = false.
  Proof.
    induction cs as [|c cs IH]; intros e Hc; simpl; auto.
    rewrite (path_raises_clean _ e Hc). simpl.
    change (map fst (filter (fun r : res => negb (snd r)) (eval C M D c e))) with (trues (eval C M D c e)).
    destruct (existsb (araises_all C M D cs) (trues (eval C M D c e))) eqn:He; auto.
    apply existsb_exists in He. destruct He as [e1 [Hin Hr]]. rewrite (IH e1 (eval_clean c e e1 Hc Hin)) in Hr. discriminate.
  Qed.
End NoNone.

(* whatever the pattern: in a world without None no attribute access fails *)
Theorem no_attr_error C M T l dom : no_none M dom -> run_araises C M T l dom = false.
Proof.
  intros [Hnn HD]. apply araises_clean; auto.
  - intros H. apply filter_In in H. tauto.
  - intros p v H. discriminate.
Qed.

(* ------------------------------------------------------------------ no error while the pattern is built *)
Lemma no_unk C objcls :
  (forall q oc p a, fok_pat C objcls false oc p a q = true -> unk_pat C oc a q = false) /\
  (forall l oc p, fok_alist C objcls false oc p l = true -> unk_alist C oc l = false) /\
  (forall c oc p a, fok_apat C objcls false oc p a c = true -> is_some (f_type C oc a) = true /\ unk_apat C oc a c = false).
Proof.
  apply pat_mutind.
  - intros t l IH oc p a. rewrite fok_pat_eq. cbv zeta. intros H. apply andb_true_iff in H. destruct H as [_ Hal].
    simpl. eapply IH. exact Hal.
  - reflexivity.
  - intros a c IHc rest IHr oc p. rewrite fok_alist_cons. intros H.
    apply andb_true_iff in H. destruct H as [H Hr]. apply andb_true_iff in H. destruct H as [_ Hc].
    destruct (IHc _ _ _ Hc) as [Hs Hu].
    change (unk_alist C oc (ACons a c rest)) with (negb (is_some (f_type C oc a)) || unk_apat C oc a c || unk_alist C oc rest).
    rewrite Hs, Hu, (IHr _ _ Hr). reflexivity.
  - intros v oc p a H. simpl in H. repeat (apply andb_true_iff in H; destruct H as [H _]). tauto.
  - intros [t l] IH oc p a H. split; [|eapply IH; exact H].
    change (fok_apat C objcls false oc p a (PMatch (Pat t l))) with (fok_pat C objcls false oc p a (Pat t l)) in H.
    rewrite fok_pat_eq in H. cbv zeta in H. repeat (apply andb_true_iff in H; destruct H as [H _]). exact H.
  - intros v oc p a H. simpl in H. repeat (apply andb_true_iff in H; destruct H as [H _]). tauto.
  - intros v oc p a H. simpl in H. repeat (apply andb_true_iff in H; destruct H as [H _]). tauto.
  - intros v oc p a H. discriminate H.
  - intros c IH oc p a H. simpl in H. destruct c; try discriminate; simpl; apply (IH oc p a); exact H.
Qed.

Theorem no_build_error C objcls T l : F11lax C objcls T l = true -> build_raises C T l = false.
Proof. intros H. apply (proj1 (proj2 (no_unk C objcls)) l T PRoot). exact H. Qed.
