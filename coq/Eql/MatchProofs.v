(* C11 -- proofs: the conditions match.py builds from a pattern, evaluated by the model of the engine, return exactly
   the elements the Spec [matches] denotes (fragment F11).  Induction on the pattern (mutual: pattern / keyword list /
   keyword value), unbounded in nesting depth and number of keywords. *)
From Coq Require Import List ZArith Bool Arith Lia.
From Krrood Require Import Eql.Syntax Eql.MatchSpec Gen.Match Eql.Match Eql.MatchFrag.
Import ListNotations.

(* ------------------------------------------------------------------ lists *)
Lemma flat_map_single {A} (l : list A) : flat_map (fun x => [x]) l = l.
Proof. induction l; simpl; congruence. Qed.
Lemma flat_map_flat_map {A B X} (f : A -> list B) (g : B -> list X) l :
  flat_map g (flat_map f l) = flat_map (fun x => flat_map g (f x)) l.
Proof. induction l; simpl; auto. rewrite flat_map_app. congruence. Qed.
Lemma flat_map_map {A B X} (f : A -> B) (g : B -> list X) l : flat_map g (map f l) = flat_map (fun x => g (f x)) l.
Proof. induction l; simpl; congruence. Qed.
Lemma map_flat_map {A B X} (f : A -> list B) (g : B -> X) l : map g (flat_map f l) = flat_map (fun x => map g (f x)) l.
Proof. induction l; simpl; auto. rewrite map_app. congruence. Qed.
Lemma flat_map_ext_in {A B} (f g : A -> list B) l : (forall x, In x l -> f x = g x) -> flat_map f l = flat_map g l.
Proof. induction l; simpl; intros H; auto. rewrite H by auto. rewrite IHl; auto. Qed.
Lemma flat_map_id_on {A} (f : A -> list A) l : (forall x, In x l -> f x = [x]) -> flat_map f l = l.
Proof. intros H. rewrite (flat_map_ext_in f (fun x => [x])) by exact H. apply flat_map_single. Qed.
Lemma nonempty_ex {A} (l : list A) : l <> [] <-> exists x, In x l.
Proof. destruct l; simpl; split; try congruence; eauto. intros [x []]. Qed.

(* ------------------------------------------------------------------ true results, sequential evaluation *)
Definition trues (rs : list res) : list env := map fst (filter (fun r : res => negb (snd r)) rs).
Lemma trues_app a b : trues (a ++ b) = trues a ++ trues b.
Proof. unfold trues. rewrite filter_app, map_app. reflexivity. Qed.
Lemma trues_flat_map {A} (f : A -> list res) l : trues (flat_map f l) = flat_map (fun x => trues (f x)) l.
Proof. induction l; simpl; auto. rewrite trues_app. congruence. Qed.
Lemma in_trues e rs : In e (trues rs) <-> In (e, false) rs.
Proof.
  unfold trues. rewrite in_map_iff. split.
  - intros [[e' f] [<- H]]. apply filter_In in H. destruct H as [H Hf]. simpl in *. destruct f; try discriminate. exact H.
  - intros H. exists (e, false). split; auto. apply filter_In. auto.
Qed.

Section Seq.
  Variable C : cmodel.
  Variable M : mworld.
  Variable D : list Z.

  Fixpoint eval_all (cs : list tcond) (e : env) : list env :=
    match cs with
    | [] => [e]
    | c :: cs' => flat_map (eval_all cs') (trues (eval C M D c e))
    end.

  Lemma eval_all_app xs ys e : eval_all (xs ++ ys) e = flat_map (eval_all ys) (eval_all xs e).
  Proof.
    revert e. induction xs as [|c xs IH]; intros e; simpl.
    - rewrite app_nil_r. reflexivity.
    - rewrite flat_map_flat_map. apply flat_map_ext_in. intros. apply IH.
  Qed.

  Lemma and_step (c : tcond) (rs : list res) :
    trues (flat_map (fun r : res => if snd r then [(fst r, true)] else eval C M D c (fst r)) rs)
    = flat_map (fun e => trues (eval C M D c e)) (trues rs).
  Proof.
    induction rs as [|[e f] rs IH]; simpl; auto.
    rewrite trues_app, IH. destruct f; simpl; auto.
  Qed.

  Lemma chain_trues cs : forall acc e,
    trues (eval_chain C M D acc cs e) = flat_map (eval_all cs) (trues (acc e)).
  Proof.
    induction cs as [|c cs IH]; intros acc e; simpl.
    - rewrite flat_map_single. reflexivity.
    - rewrite IH. rewrite and_step. rewrite flat_map_flat_map. reflexivity.
  Qed.

  (* the AND chain with its false results is the sequential evaluation of the true ones *)
  Lemma true_envs_seq cs : true_envs C M D cs = eval_all cs [].
  Proof.
    destruct cs as [|c cs]; simpl; auto.
    change (map fst (filter (fun r : res => negb (snd r)) (eval_chain C M D (eval C M D c) cs [])))
      with (trues (eval_chain C M D (eval C M D c) cs [])).
    apply chain_trues.
  Qed.
End Seq.

(* ------------------------------------------------------------------ paths *)
Fixpoint psize (p : path) : nat :=
  match p with PRoot => O | PAttr q _ => S (psize q) | PFlat q => S (psize q) end.
(* [under q x]: node x is q or lies below q *)
Fixpoint under (q x : path) : Prop :=
  x = q \/ match x with PRoot => False | PAttr x' _ => under q x' | PFlat x' => under q x' end.

Lemma under_refl q : under q q.
Proof. destruct q; simpl; auto. Qed.
Lemma under_size q x : under q x -> psize q <= psize x.
Proof. induction x; simpl; intros [H|H]; subst; simpl; auto; try contradiction; apply IHx in H; lia. Qed.
Lemma under_trans a b c : under a b -> under b c -> under a c.
Proof.
  intros Hab. induction c; simpl; intros [H|H]; subst; auto; try contradiction; right; auto.
Qed.
Lemma under_root x : under PRoot x.
Proof. induction x; simpl; auto. Qed.
Lemma under_attr q a : under q (PAttr q a).
Proof. simpl. right. apply under_refl. Qed.
Lemma under_flat q : under q (PFlat q).
Proof. simpl. right. apply under_refl. Qed.
Lemma under_antisym q x : under q x -> under x q -> x = q.
Proof.
  intros H1 H2. destruct x; simpl in H1; destruct H1 as [H1|H1]; auto; try contradiction;
    apply under_size in H1; apply under_size in H2; simpl in *; lia.
Qed.
Lemma under_attr_inj p a a' x : under (PAttr p a) x -> under (PAttr p a') x -> a = a'.
Proof.
  induction x; simpl; intros [H1|H1] [H2|H2]; try discriminate; try contradiction; auto; try congruence;
  repeat match goal with
  | H : PAttr _ _ = PAttr _ _ |- _ => injection H as ? ?; subst
  | H : under (PAttr ?p _) ?p |- _ => apply under_size in H; simpl in H; lia
  end.
Qed.

(* ------------------------------------------------------------------ bindings *)
Lemma lookup_cons q v e p : lookup ((q, v) :: e) p = if path_eq_dec q p then Some v else lookup e p.
Proof. reflexivity. Qed.
Lemma lookup_cons_eq q v e : lookup ((q, v) :: e) q = Some v.
Proof. rewrite lookup_cons. destruct (path_eq_dec q q); congruence. Qed.
Lemma lookup_cons_ne q v e p : q <> p -> lookup ((q, v) :: e) p = lookup e p.
Proof. intros. rewrite lookup_cons. destruct (path_eq_dec q p); congruence. Qed.

Definition ext (e' e : env) : Prop := forall p v, lookup e p = Some v -> lookup e' p = Some v.
Lemma ext_refl e : ext e e. Proof. red; auto. Qed.
Lemma ext_trans a b c : ext a b -> ext b c -> ext a c. Proof. unfold ext; auto. Qed.
Lemma ext_cons q v e : lookup e q = None -> ext ((q, v) :: e) e.
Proof. intros H p w Hp. rewrite lookup_cons_ne; auto. intros ->. congruence. Qed.

Section Paths.
  Variable C : cmodel.
  Variable M : mworld.
  Variable D : list Z.
  Notation W := (mw M).
  Notation eval_path := (eval_path M D).

  Lemma eval_path_eq p e :
    eval_path p e =
    match lookup e p with
    | Some v => [(e, v)]
    | None =>
        match p with
        | PRoot => map (fun o => ((PRoot, VO o) :: e, VO o)) D
        | PAttr q a => map (fun r : env * val => let v := getattr W (snd r) a in ((p, v) :: fst r, v)) (eval_path q e)
        | PFlat q => flat_map (fun r : env * val => map (fun x => ((p, x) :: fst r, x)) (elems (snd r))) (eval_path q e)
        end
    end.
  Proof. destruct p; reflexivity. Qed.

  Lemma eval_path_bound p e v : lookup e p = Some v -> eval_path p e = [(e, v)].
  Proof. intros H. rewrite eval_path_eq, H. reflexivity. Qed.

  (* what evaluating a node does to the bindings: binds the node, keeps what was bound, and binds nothing but
     ancestors of the node *)
  Lemma eval_path_props p : forall e e' v, In (e', v) (eval_path p e) ->
    lookup e' p = Some v /\ ext e' e /\ (forall x, lookup e x = None -> lookup e' x <> None -> under x p).
  Proof.
    induction p as [|q IH a|q IH]; intros e e' v; rewrite eval_path_eq; destruct (lookup e _) eqn:Hl.
    - intros [H|[]]. injection H as <- <-. split; auto. split; [apply ext_refl|]. intros x H1 H2. congruence.
    - rewrite in_map_iff. intros [o [H Ho]]. injection H as <- <-. split; [apply lookup_cons_eq|].
      split; [apply ext_cons; auto|]. intros x H1 H2. rewrite lookup_cons in H2.
      destruct (path_eq_dec PRoot x); [subst; apply under_refl|congruence].
    - intros [H|[]]. injection H as <- <-. split; auto. split; [apply ext_refl|]. intros x H1 H2. congruence.
    - rewrite in_map_iff. intros [[e1 u] [H Hin]]. simpl in H. injection H as <- <-.
      destruct (IH _ _ _ Hin) as [Hq [Hext Hfr]].
      split; [apply lookup_cons_eq|]. split.
      + intros x w Hx. rewrite lookup_cons_ne; auto. intros <-. congruence.
      + intros x H1 H2. rewrite lookup_cons in H2. destruct (path_eq_dec (PAttr q a) x); [subst; apply under_refl|].
        simpl. right. auto.
    - intros [H|[]]. injection H as <- <-. split; auto. split; [apply ext_refl|]. intros x H1 H2. congruence.
    - rewrite in_flat_map. intros [[e1 u] [Hin H]]. rewrite in_map_iff in H. destruct H as [y [H Hy]]. simpl in H.
      injection H as <- <-. destruct (IH _ _ _ Hin) as [Hq [Hext Hfr]].
      split; [apply lookup_cons_eq|]. split.
      + intros x w Hx. rewrite lookup_cons_ne; auto. intros <-. congruence.
      + intros x H1 H2. rewrite lookup_cons in H2. destruct (path_eq_dec (PFlat q) x); [subst; apply under_refl|].
        simpl. right. auto.
  Qed.

  Lemma eval_path_binds p e e' v : In (e', v) (eval_path p e) -> lookup e' p = Some v.
  Proof. intros H. apply eval_path_props in H. tauto. Qed.

  (* consistent bindings *)
  Definition pcond (e : env) (p : path) (v : val) : Prop :=
    match p with
    | PRoot => exists o, v = VO o /\ In o D
    | PAttr q a => exists u, lookup e q = Some u /\ v = getattr W u a
    | PFlat q => exists u, lookup e q = Some u /\ In v (elems u)
    end.
  Definition good (e : env) : Prop := forall p v, lookup e p = Some v -> pcond e p v.

  Lemma pcond_ext e e' p v : ext e' e -> pcond e p v -> pcond e' p v.
  Proof. intros Hx. destruct p; simpl; auto; intros [u [H1 H2]]; exists u; auto. Qed.
  Lemma good_cons e p v : good e -> lookup e p = None -> pcond e p v -> good ((p, v) :: e).
  Proof.
    intros Hg Hn Hp x w Hx. apply pcond_ext with e; [apply ext_cons; auto|].
    rewrite lookup_cons in Hx. destruct (path_eq_dec p x); [subst; congruence|auto].
  Qed.
  Lemma good_nil : good [].
  Proof. intros p v H. discriminate. Qed.

  (* explicit evaluation of an Attribute node and of the Flatten above it, from a bound parent *)
  Lemma eval_attr p a e u : lookup e p = Some u -> lookup e (PAttr p a) = None ->
    eval_path (PAttr p a) e = [((PAttr p a, getattr W u a) :: e, getattr W u a)].
  Proof. intros Hp Hn. rewrite eval_path_eq, Hn, (eval_path_bound _ _ _ Hp). reflexivity. Qed.
  Lemma eval_flat p a e u : lookup e p = Some u -> lookup e (PAttr p a) = None -> lookup e (PFlat (PAttr p a)) = None ->
    eval_path (PFlat (PAttr p a)) e =
    map (fun x => ((PFlat (PAttr p a), x) :: (PAttr p a, getattr W u a) :: e, x)) (elems (getattr W u a)).
  Proof.
    intros Hp Hn Hf. rewrite eval_path_eq, Hf, (eval_attr _ _ _ _ Hp Hn). simpl. rewrite app_nil_r. reflexivity.
  Qed.

  (* evaluating a node below q first evaluates q *)
  Lemma path_factor q pc : forall e, under q pc -> (forall x, under q x -> lookup e x = None) ->
    eval_path pc e = flat_map (fun r : env * val => eval_path pc (fst r)) (eval_path q e).
  Proof.
    induction pc as [|pc' IH a|pc' IH]; intros e Hu Hfr.
    - simpl in Hu. destruct Hu as [<-|[]]. symmetry. apply flat_map_id_on. intros [e1 v] Hin. cbn [fst snd].
      apply eval_path_bound. apply (eval_path_binds _ _ _ _ Hin).
    - simpl in Hu. destruct Hu as [<-|Hu].
      { symmetry. apply flat_map_id_on. intros [e1 v] Hin. cbn [fst snd]. apply eval_path_bound. apply (eval_path_binds _ _ _ _ Hin). }
      rewrite eval_path_eq. rewrite (Hfr (PAttr pc' a)) by (simpl; auto).
      rewrite (IH e Hu Hfr). rewrite map_flat_map. apply flat_map_ext_in. intros [e1 v] Hin. cbn [fst snd].
      symmetry. rewrite eval_path_eq.
      destruct (lookup e1 (PAttr pc' a)) eqn:Hl; auto.
      destruct (eval_path_props _ _ _ _ Hin) as [_ [_ Hnew]].
      assert (under (PAttr pc' a) q) by (apply Hnew; [apply Hfr; simpl; auto|congruence]).
      apply under_size in H. apply under_size in Hu. simpl in H. lia.
    - simpl in Hu. destruct Hu as [<-|Hu].
      { symmetry. apply flat_map_id_on. intros [e1 v] Hin. cbn [fst snd]. apply eval_path_bound. apply (eval_path_binds _ _ _ _ Hin). }
      rewrite eval_path_eq. rewrite (Hfr (PFlat pc')) by (simpl; auto).
      rewrite (IH e Hu Hfr). rewrite flat_map_flat_map. apply flat_map_ext_in. intros [e1 v] Hin. cbn [fst snd].
      symmetry. rewrite eval_path_eq.
      destruct (lookup e1 (PFlat pc')) eqn:Hl; auto.
      destruct (eval_path_props _ _ _ _ Hin) as [_ [_ Hnew]].
      assert (under (PFlat pc') q) by (apply Hnew; [apply Hfr; simpl; auto|congruence]).
      apply under_size in H. apply under_size in Hu. simpl in H. lia.
  Qed.
End Paths.
