(* C03 (b) -- state that survives an evaluation: the domain cache of every variable (warm vs cold) and the
   [concluded_before] memory of the conclusion selector (conclusion_selector.py; forgotten at the start of every top-level evaluation).
   [run : qstate -> query -> rows * qstate] is one whole evaluation (iterator consumed to the end); evaluations of a
   history are threaded through the state.  Each [for v in variable._domain_] of a whole evaluation is a fresh
   HashedIterable handle run to exhaustion ([iter_full], tied to DomainCache.rexhaust by [iter_full_exhaust]). *)
From Coq Require Import List ZArith Bool Arith.
From Krrood Require Import Eql.DomainCacheSpec Eql.DomainCache Eql.ReevalSpec.
Import ListNotations.
Open Scope Z_scope.

Record qstate := { doms : list dstate; concl : list (list Z) }.

(* a fresh handle of the current iterator run to exhaustion: the cached elements, then the new ones of the source, an id
   already cached skipped *)
Definition iter_full (d : dstate) : list Z * dstate :=
  let c := fold_left ins (src d) (cache d) in (c, {| cache := c; src := [] |}).

Definition enum (s : qstate) (x : nat) : list Z * qstate :=
  match nth_error (doms s) x with
  | None => ([], s)
  | Some d => let '(vs, d') := iter_full d in (vs, {| doms := upd x d' (doms s); concl := concl s |})
  end.

Fixpoint loop {X R} (xs : list X) (f : X -> qstate -> list R * qstate) (s : qstate) : list R * qstate :=
  match xs with
  | [] => ([], s)
  | x :: r => let '(r1, s1) := f x s in let '(r2, s2) := loop r f s1 in (r1 ++ r2, s2)
  end.

Definition with_var {R} (x : nat) (b : bindings) (s : qstate) (k : bindings -> qstate -> list R * qstate)
  : list R * qstate :=
  match lookup b x with
  | Some _ => k b s
  | None => let '(vs, s') := enum s x in loop vs (fun v s => k ((x, v) :: b) s) s'
  end.

Fixpoint bind_all {R} (xs : list nat) (b : bindings) (s : qstate) (k : bindings -> qstate -> list R * qstate)
  : list R * qstate :=
  match xs with
  | [] => k b s
  | x :: r => with_var x b s (fun b' s' => bind_all r b' s' k)
  end.

Definition eval_atom (A : attrs) (a : atom) (b : bindings) (s : qstate) : list bindings * qstate :=
  bind_all (atom_vars a) b s (fun b' s' => (if sat_atom A b' a then [b'] else [], s')).

Fixpoint eval_conds (A : attrs) (cs : list atom) (b : bindings) (s : qstate) : list bindings * qstate :=
  match cs with
  | [] => ([b], s)
  | a :: r => let '(bs, s1) := eval_atom A a b s in loop bs (fun b' s' => eval_conds A r b' s') s1
  end.

(* current code (krrood a3cd335): ResultQuantifier.evaluate() makes every conclusion selector of the query forget its
   coverage memory when the evaluation starts (first advance of the generator); the memory then lives for the evaluation *)
Definition run (A : attrs) (s : qstate) (q : query) : list (list Z) * qstate :=
  let '(bs, s1) := eval_conds A (q_conds q) [] s in
  match q_rule q with
  | None => loop bs (fun b s => bind_all (q_sel q) b s (fun b' s' => ([row (q_sel q) b'], s'))) s1
  | Some exc => let '(rows, seen) := conclude A exc (q_sel q) bs [] in
                (rows, {| doms := doms s1; concl := seen |})
  end.

(* the code before a3cd335: the memory was never reset (kept for the regression Example only) *)
Definition run_old (A : attrs) (s : qstate) (q : query) : list (list Z) * qstate :=
  let '(bs, s1) := eval_conds A (q_conds q) [] s in
  match q_rule q with
  | None => loop bs (fun b s => bind_all (q_sel q) b s (fun b' s' => ([row (q_sel q) b'], s'))) s1
  | Some exc => let '(rows, seen) := conclude A exc (q_sel q) bs (concl s1) in
                (rows, {| doms := doms s1; concl := seen |})
  end.

(* a history of whole evaluations of query objects over the same variables *)
Fixpoint hist (A : attrs) (s : qstate) (qs : list query) : list (list (list Z)) :=
  match qs with
  | [] => []
  | q :: r => let '(rows, s') := run A s q in rows :: hist A s' r
  end.
Fixpoint hist_old (A : attrs) (s : qstate) (qs : list query) : list (list (list Z)) :=
  match qs with
  | [] => []
  | q :: r => let '(rows, s') := run_old A s q in rows :: hist_old A s' r
  end.

Definition cold (W : world) : qstate := {| doms := map (fun w => {| cache := []; src := w |}) W; concl := [] |}.
