(* C12 -- the fixed idiom table of translator/t_pred.py: what each Python library construct that occurs in
   predicate.py's argument merging / dispatch means in Gallina.  This file is the assumption
   "this Python construct means this Gallina function" (DESIGN section 7); it is small on purpose.

     dict                      insertion-ordered association list with unique keys
     d[k] = v / dict.update    replace the value in place if the key exists, else append at the end
     {k: v for k, v in pairs}  the pairs inserted one after the other into an empty dict
     zip(a, b)                 stops at the shorter list
     l[i:]                     drops the first i elements
     any(f(x) for x in l)      existsb
     d.values()                the values in insertion order
   Parameter and variable names are interned to Z by the harness. *)
From Coq Require Import List ZArith Bool.
Import ListNotations.
Open Scope Z_scope.

Definition name := Z.

Section Dict.
  Context {V : Type}.
  Definition dict := list (name * V).

  Fixpoint dict_get (d : dict) (k : name) : option V :=
    match d with
    | [] => None
    | (k', v) :: d' => if Z.eqb k' k then Some v else dict_get d' k
    end.

  Fixpoint dict_set (d : dict) (k : name) (v : V) : dict :=
    match d with
    | [] => [(k, v)]
    | (k', v') :: d' => if Z.eqb k' k then (k, v) :: d' else (k', v') :: dict_set d' k v
    end.

  Definition dict_update (d : dict) (other : list (name * V)) : dict :=
    fold_left (fun acc kv => dict_set acc (fst kv) (snd kv)) other d.

  Definition dict_of_pairs (pairs : list (name * V)) : dict := dict_update [] pairs.

  Definition dict_keys (d : dict) : list name := map fst d.
  Definition dict_values (d : dict) : list V := map snd d.
End Dict.
Arguments dict V : clear implicits.

Definition py_zip {A B : Type} (a : list A) (b : list B) : list (A * B) := combine a b.
Definition slice_from {A : Type} (i : nat) (l : list A) : list A := skipn i l.
Definition py_any {A : Type} (f : A -> bool) (l : list A) : bool := existsb f l.
