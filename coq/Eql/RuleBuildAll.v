(* C08: consequences of [build_written] (RuleBuildProofs.v): the decidable predicate Gb holds for every program, so the
   theorems of the fragment need no computed premise about the construction. *)
From Coq Require Import List ZArith Bool Arith Lia Permutation.
From Krrood Require Import Eql.RuleSpec Eql.RuleEval Eql.RuleBuild Eql.RulePure Eql.RuleEvalProofs Eql.RuleSpecProofs
  Eql.RuleProofs Eql.RuleBuildProofs Eql.RuleNextProofs Eql.RuleNextSpecProofs.
Import ListNotations.

Lemma nodup_nodupb l : NoDup l -> nodupb l = true.
Proof.
  induction l as [|x l IH]; intros H; [reflexivity|]. apply NoDup_cons_iff in H. destruct H as [Hx H].
  cbn [nodupb]. rewrite (IH H), andb_true_r. apply negb_true_iff. apply memb_false. exact Hx.
Qed.

Theorem Gb_all prog : Gb prog = true.
Proof.
  destruct (build_written prog) as [h [t [Hb [Hr [He Hnd]]]]].
  unfold Gb. rewrite Hb, Hr, He. rewrite tree_eqb_refl. apply nodup_nodupb. exact Hnd.
Qed.

(* C08 for every program without next_rule *)
Theorem rules_ok_all prog : has_next prog = false -> forall W,
  exists rows, model prog W = Some rows /\ singles rows = Some (rdr prog W).
Proof. intros Hn. apply rules_ok. unfold Fb. rewrite Gb_all, Hn. reflexivity. Qed.

(* every written branch is a leaf of the tree that is evaluated, for every program *)
Theorem no_branch_ignored_all prog :
  exists h t, build prog = Some h /\ reify h = Some t /\
              forall q, In q (rules_of prog) -> In (leaf_of q) (leaves t).
Proof. apply no_branch_ignored. apply Gb_all. Qed.
