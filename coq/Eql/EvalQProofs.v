(* C01 with quantifiers, part 4: the cover theorem for conditions with exists / for_all.
   Four aspects are proved together by induction on the condition (they depend on each other through not_):
   TS/FS true/false results tell the truth; TC/FC every satisfying / non-satisfying assignment is covered. *)
From Coq Require Import List ZArith Bool Arith Lia.
From Krrood Require Import Eql.Syntax Eql.Sat Eql.Eval Eql.EvalProofs Eql.EvalQInv Eql.EvalQDefs Eql.EvalQTotal.
Import ListNotations.

Lemma oval_eqb_eq a b : oval_eqb a b = true <-> a = b.
Proof.
  destruct a, b; simpl; try (split; congruence).
  rewrite val_eqb_eq. split; congruence.
Qed.

Lemma key_eqb_eq k1 : forall k2, key_eqb k1 k2 = true <-> k1 = k2.
Proof.
  induction k1 as [|a k1 IH]; intros [|b k2]; simpl; try (split; congruence).
  rewrite andb_true_iff, oval_eqb_eq, IH. split; [intros [-> ->]; reflexivity|intros [= -> ->]; auto].
Qed.

Lemma map_eq_in {A B} (f g : A -> B) l : map f l = map g l -> forall x, In x l -> f x = g x.
Proof.
  induction l as [|a l IH]; simpl; intros H x Hx; [contradiction|].
  injection H as H1 H2. destruct Hx as [<-|Hx]; auto.
Qed.

Lemma fold_filter_iff {A B} (P : B -> A -> bool) (bs : list B) : forall (l : list A) a,
  In a (fold_left (fun ss b => filter (P b) ss) bs l) <-> In a l /\ forall b, In b bs -> P b a = true.
Proof.
  induction bs as [|b bs IH]; simpl; intros l a.
  - split; [intros H; split; auto; intros ? []|tauto].
  - rewrite IH, filter_In. split.
    + intros [[H1 H2] H3]. split; auto. intros b' [<-|Hb]; auto.
    + intros [H1 H2]. split; [split|]; auto.
Qed.

Section QProofs.
  Variable W : world.
  Variable D : domains.

  Lemma exists_scan_complete others : forall rs seen b1,
    In (b1, false) rs ->
    existsb (key_eqb (map (lookup b1) others)) seen = true \/
    exists b0, In (b0, false) (exists_scan others seen rs) /\ map (lookup b0) others = map (lookup b1) others.
  Proof.
    induction rs as [|[b f] rs IH]; simpl; intros seen b1 Hin; [contradiction|].
    destruct Hin as [[= -> ->]|Hin].
    - destruct (existsb (key_eqb (map (lookup b1) others)) seen) eqn:E; auto.
      right. exists b1. split; auto. now left.
    - destruct f.
      + apply IH; auto.
      + destruct (existsb (key_eqb (map (lookup b) others)) seen) eqn:E.
        * apply IH; auto.
        * destruct (IH (map (lookup b) others :: seen) b1 Hin) as [H|(b0 & H0 & K0)].
          -- simpl in H. apply orb_true_iff in H as [H|H]; auto.
             apply key_eqb_eq in H. right. exists b. split; [now left|auto].
          -- right. exists b0. split; auto. now right.
  Qed.

  Lemma sat_agree c rho rho' Q :
    agree_off Q rho rho' -> (forall x, In x (cond_vars c) -> ~ In x Q) -> sat W D rho' c = sat W D rho c.
  Proof. intros Ha Hq. apply sat_ext. intros x Hx. apply Ha. apply Hq. apply fv_sub_vars. exact Hx. Qed.

  Lemma upd_self rho y c : sat W D (upd rho y (rho y)) c = sat W D rho c.
  Proof.
    apply sat_ext. intros x _. destruct (Nat.eq_dec x y) as [->|Hne]; [apply upd_eq|now apply upd_ne].
  Qed.

  Lemma extends_upd_fresh rho b y v : lookup b y = None -> extends rho b -> extends (upd rho y v) b.
  Proof. intros Hn He x u Hl. rewrite upd_ne; auto. intros ->. congruence. Qed.

  (* fresh-ness is inherited by the right operand evaluated under a result of the left one *)
  Lemma fresh_after l r b b1 f :
    In (b1, f) (eval W D l b) -> fresh b r -> disj (qvars r) (cond_vars l) = true -> fresh b1 r.
  Proof.
    intros Hin Hf Hd y Hy. destruct (lookup b1 y) eqn:E; auto. exfalso.
    destruct (eval_dom W D l _ _ _ Hin y) as [H|H]; [congruence| |].
    - apply H. apply Hf. exact Hy.
    - eapply disj_spec; eauto.
  Qed.

  (* ---------- for_all under closed bindings ---------- *)
  Section ForAll.
    Variables (y : var) (c : cond) (b : binds).
    Hypothesis Q : qfree c = true.
    Hypothesis S : snd_ok true c = true.
    Hypothesis Hy : lookup b y = None.
    Hypothesis Hcl : binds_all b (remove_var y (cond_vars c)).

    Let others := remove_var y (cond_vars c).
    Let star : binds := restrict others b.

    Lemma star_lookup x : lookup star x = if nmem x others then lookup b x else None.
    Proof. apply lookup_restrict. Qed.

    Lemma restrict_bv v : restrict others ((y, v) :: b) = star.
    Proof.
      unfold star, restrict. simpl. destruct (nmem y others) eqn:E; auto.
      apply nmem_true in E. apply in_remove_var in E. tauto.
    Qed.

    Lemma bv_total v s1 : binds_all (((y, v) :: b) ++ s1) (cond_vars c).
    Proof.
      intros x Hx. unfold bound. rewrite lookup_app. destruct (Nat.eq_dec x y) as [->|Hne].
      - now rewrite lookup_cons_eq.
      - rewrite lookup_cons_ne by exact Hne.
        assert (Hb : bound b x = true) by (apply Hcl; apply in_remove_var; auto).
        unfold bound in Hb. destruct (lookup b x); [reflexivity|discriminate].
    Qed.

    Lemma bv_asg rho v s1 : extends rho b ->
      sat W D (asg_of (((y, v) :: b) ++ s1)) c = sat W D (upd rho y v) c.
    Proof.
      intros He. apply sat_ext. intros x Hx. apply fv_sub_vars in Hx. unfold asg_of. rewrite lookup_app.
      destruct (Nat.eq_dec x y) as [->|Hne].
      - rewrite lookup_cons_eq. now rewrite upd_eq.
      - rewrite lookup_cons_ne by exact Hne. rewrite upd_ne by exact Hne.
        assert (Hb : bound b x = true) by (apply Hcl; apply in_remove_var; auto).
        unfold bound in Hb. destruct (lookup b x) eqn:E; [|discriminate]. symmetry. now apply He.
    Qed.

    Lemma bv_first rho v s1 : extends rho b ->
      first_true (eval W D c (((y, v) :: b) ++ s1)) = sat W D (upd rho y v) c.
    Proof. intros He. rewrite first_true_total; auto using bv_total. now apply bv_asg. Qed.

    Lemma bv0_true_iff rho v : extends rho b ->
      (exists b1, In (b1, false) (eval W D c ((y, v) :: b))) <-> sat W D (upd rho y v) c = true.
    Proof.
      intros He. assert (Ht : binds_all ((y, v) :: b) (cond_vars c)).
      { intros x Hx. generalize (bv_total v [] x Hx). now rewrite app_nil_r. }
      split.
      - intros (b1 & H1). pose proof (eval_total_same W D c Q _ Ht _ _ H1) as ->.
        apply (eval_sound W D c true _ _ S H1). apply extends_cons; auto. split; [apply upd_eq|].
        now apply extends_upd_fresh.
      - intros Hs. destruct (eval_total_head W D c Q _ Ht) as (rest & E).
        assert (Ea : sat W D (asg_of ((y, v) :: b)) c = true).
        { rewrite <- Hs. generalize (bv_asg rho v [] He). now rewrite app_nil_r. }
        rewrite Ea in E. exists ((y, v) :: b). rewrite E. now left.
    Qed.

    Lemma s0_char v0 s1 :
      In s1 (map (fun p : res => restrict others (fst p)) (filter (fun p : res => negb (snd p)) (eval W D c ((y, v0) :: b))))
      <-> s1 = star /\ exists b1, In (b1, false) (eval W D c ((y, v0) :: b)).
    Proof.
      assert (Ht : binds_all ((y, v0) :: b) (cond_vars c)).
      { intros x Hx. generalize (bv_total v0 [] x Hx). now rewrite app_nil_r. }
      rewrite in_map_iff. split.
      - intros ([b1 f1] & <- & Hp). apply filter_In in Hp as [Hp Hf]. simpl in *. destruct f1; [discriminate|].
        pose proof (eval_total_same W D c Q _ Ht _ _ Hp) as ->. split; [apply restrict_bv|eauto].
      - intros [-> (b1 & H1)]. exists (b1, false). split.
        + simpl. pose proof (eval_total_same W D c Q _ Ht _ _ H1) as ->. apply restrict_bv.
        + apply filter_In. auto.
    Qed.

    Lemma star_app_extends rho : extends rho b <-> extends rho (star ++ b).
    Proof.
      split; intros He x u Hl.
      - rewrite lookup_app, star_lookup in Hl. destruct (nmem x others).
        + destruct (lookup b x) eqn:E; [|discriminate]. inversion Hl; subst. now apply He.
        + now apply He.
      - apply He. rewrite lookup_app, star_lookup. destruct (nmem x others); now rewrite ?Hl.
    Qed.

    (* the results of for_all, when the domain of y is v0 :: vs *)
    Lemma forall_results v0 vs rho : D y = v0 :: vs -> extends rho b -> forall b' f,
      In (b', f) (eval W D (CForAll y c) b) <->
      (b' = star ++ b /\ f = false /\ forallb (fun v => sat W D (upd rho y v) c) (D y) = true).
    Proof.
      intros HD He b' f. simpl. rewrite Hy, HD. simpl map.
      fold others. rewrite in_map_iff. split.
      - intros (s1 & [= <- <-] & Hs).
        apply (fold_filter_iff (fun (bv : binds) s1 => first_true (eval W D c (bv ++ s1)))) in Hs as [H0 Hall].
        apply s0_char in H0 as [-> Hex]. split; auto. split; auto. simpl. apply andb_true_iff. split.
        + now apply (bv0_true_iff rho v0 He).
        + apply forallb_forall. intros v Hv. rewrite <- (bv_first rho v star He).
          apply Hall. apply in_map_iff. eauto.
      - intros (-> & -> & Hall). simpl in Hall. apply andb_true_iff in Hall as [H0 Hall].
        exists star. split; auto.
        apply (fold_filter_iff (fun (bv : binds) s1 => first_true (eval W D c (bv ++ s1)))). split.
        + apply s0_char. split; auto. now apply (bv0_true_iff rho v0 He).
        + intros bv Hbv. apply in_map_iff in Hbv as (v & <- & Hv). rewrite (bv_first rho v star He).
          rewrite forallb_forall in Hall. auto.
    Qed.
  End ForAll.

  (* ---------- the four aspects ---------- *)
  Definition holds_TS (c : cond) : Prop := forall bnd b b',
    ok TS bnd c = true -> wfq c = true -> binds_all b bnd -> fresh b c -> b_ok D b ->
    In (b', false) (eval W D c b) -> forall rho, extends rho b' -> in_domc D rho c -> sat W D rho c = true.
  Definition holds_FS (c : cond) : Prop := forall bnd b b',
    ok FS bnd c = true -> wfq c = true -> binds_all b bnd -> fresh b c -> b_ok D b ->
    In (b', true) (eval W D c b) -> forall rho, extends rho b' -> in_domc D rho c -> sat W D rho c = false.
  Definition holds_TC (c : cond) : Prop := forall bnd b rho,
    ok TC bnd c = true -> wfq c = true -> binds_all b bnd -> fresh b c -> b_ok D b ->
    extends rho b -> in_domc D rho c -> sat W D rho c = true ->
    exists b' rho', In (b', false) (eval W D c b) /\ extends rho' b' /\ agree_off (qvars c) rho rho'.
  Definition holds_FC (c : cond) : Prop := forall bnd b rho,
    ok FC bnd c = true -> wfq c = true -> binds_all b bnd -> fresh b c -> b_ok D b ->
    extends rho b -> in_domc D rho c -> sat W D rho c = false ->
    exists b' rho', In (b', true) (eval W D c b) /\ extends rho' b' /\ agree_off (qvars c) rho rho'.

  Lemma agree_off_refl Q rho : agree_off Q rho rho.
  Proof. intros x _. reflexivity. Qed.
  Lemma agree_off_weaken Q Q' rho rho' : agree_off Q rho rho' -> (forall x, In x Q -> In x Q') -> agree_off Q' rho rho'.
  Proof. intros H Hs x Hx. apply H. intros Hq. apply Hx. auto. Qed.
  Lemma agree_off_trans Q rho1 rho2 rho3 : agree_off Q rho1 rho2 -> agree_off Q rho2 rho3 -> agree_off Q rho1 rho3.
  Proof. intros H1 H2 x Hx. rewrite H2, H1; auto. Qed.

  Lemma in_domc_agree c c' rho rho' Q :
    in_domc D rho c' -> agree_off Q rho rho' -> (forall x, In x (cond_vars c) -> In x (cond_vars c')) ->
    (forall x, In x (cond_vars c) -> ~ In x Q) -> in_domc D rho' c.
  Proof. intros Hd Ha Hs Hq x Hx. rewrite Ha; auto. Qed.

  Lemma fresh_sub b c c' : fresh b c' -> (forall y, In y (qvars c) -> In y (qvars c')) -> fresh b c.
  Proof. intros H Hs y Hy. auto. Qed.

  Ltac split_wf H :=
    apply andb_prop in H as [H ?Hd2]; apply andb_prop in H as [H ?Hd1]; apply andb_prop in H as [?Wl ?Wr].

  Ltac dj := match goal with
              | [H : disj ?a ?b = true, H1 : In ?x ?a, H2 : In ?x ?b |- _] => exact (disj_spec _ _ H x H1 H2)
              end.

  Theorem cover_q c : holds_TS c /\ holds_FS c /\ holds_TC c /\ holds_FC c.
  Proof.
    induction c as [op l r|l IHl r IHr|l IHl r IHr|l IHl r IHr|c IH|e c IH|y c IH].
    - (* comparison *)
      repeat split.
      + intros bnd b b' _ _ _ _ _ Hin rho He _. simpl in *.
        destruct (ev_cmp_sound W D _ _ _ _ _ _ Hin rho He) as [_ Hf].
        destruct (apply_op W op (den W rho l) (den W rho r)); simpl in Hf; congruence.
      + intros bnd b b' _ _ _ _ _ Hin rho He _. simpl in *.
        destruct (ev_cmp_sound W D _ _ _ _ _ _ Hin rho He) as [_ Hf].
        destruct (apply_op W op (den W rho l) (den W rho r)); simpl in Hf; congruence.
      + intros bnd b rho _ _ _ _ _ He Hd Hs. simpl in *.
        destruct (ev_cmp_complete W D op l r b rho He Hd) as (b' & H1 & He').
        rewrite Hs in H1. exists b', rho. split; auto. split; auto. apply agree_off_refl.
      + intros bnd b rho _ _ _ _ _ He Hd Hs. simpl in *.
        destruct (ev_cmp_complete W D op l r b rho He Hd) as (b' & H1 & He').
        rewrite Hs in H1. exists b', rho. split; auto. split; auto. apply agree_off_refl.
    - (* and *)
      destruct IHl as (TSl & FSl & TCl & FCl). destruct IHr as (TSr & FSr & TCr & FCr).
      assert (Dl : forall rho, in_domc D rho (CAnd l r) -> in_domc D rho l) by (intros rho H x Hx; apply H; simpl; apply in_or_app; auto).
      assert (Dr : forall rho, in_domc D rho (CAnd l r) -> in_domc D rho r) by (intros rho H x Hx; apply H; simpl; apply in_or_app; auto).
      assert (Fl : forall b, fresh b (CAnd l r) -> fresh b l) by (intros b H z Hz; apply H; simpl; apply in_or_app; auto).
      assert (Fr : forall b, fresh b (CAnd l r) -> fresh b r) by (intros b H z Hz; apply H; simpl; apply in_or_app; auto).
      repeat split.
      + intros bnd b b' Hok Wf Hb Hf Hbk Hin rho He Hd. simpl in *. split_wf Wf.
        apply andb_prop in Hok as [Okl Okr].
        apply in_flat_map in Hin as ([b1 f1] & H1 & H2). simpl in H2. destruct f1; [destruct H2 as [[=]|[]]|].
        assert (P1 : pres b1 b') by (eapply eval_pres; eauto).
        rewrite (TSl bnd b b1 Okl Wl Hb (Fl _ Hf) Hbk H1 rho (pres_extends _ _ _ P1 He) (Dl _ Hd)).
        rewrite (TSr (bnd ++ mb true l) b1 b' Okr Wr); auto.
        * apply binds_all_app; [eapply binds_all_pres; [eapply eval_pres; eauto|auto]|eapply (eval_mb W D l true); eauto].
        * eapply fresh_after; eauto.
        * eapply eval_bok_q; eauto.
      + intros bnd b b' Hok Wf Hb Hf Hbk Hin rho He Hd. simpl in *. split_wf Wf.
        apply andb_prop in Hok as [Okl Okr].
        apply in_flat_map in Hin as ([b1 f1] & H1 & H2). simpl in H2. destruct f1.
        * destruct H2 as [[= <-]|[]].
          rewrite (FSl bnd b b1 Okl Wl Hb (Fl _ Hf) Hbk H1 rho He (Dl _ Hd)). reflexivity.
        * rewrite (FSr (bnd ++ mb true l) b1 b' Okr Wr); auto; [apply andb_false_r| | |].
          -- apply binds_all_app; [eapply binds_all_pres; [eapply eval_pres; eauto|auto]|eapply (eval_mb W D l true); eauto].
          -- eapply fresh_after; eauto.
          -- eapply eval_bok_q; eauto.
      + intros bnd b rho Hok Wf Hb Hf Hbk He Hd Hs. simpl in *. split_wf Wf.
        apply andb_prop in Hok as [Okl Okr]. apply andb_prop in Hs as [Sl Sr].
        destruct (TCl bnd b rho Okl Wl Hb (Fl _ Hf) Hbk He (Dl _ Hd) Sl) as (b1 & rho1 & H1 & He1 & A1).
        assert (Sr1 : sat W D rho1 r = true).
        { rewrite (sat_agree r rho rho1 (qvars l) A1); auto. intros x Hx Hq. dj. }
        destruct (TCr (bnd ++ mb true l) b1 rho1 Okr Wr) as (b2 & rho2 & H2 & He2 & A2); auto.
        * apply binds_all_app; [eapply binds_all_pres; [eapply eval_pres; eauto|auto]|eapply (eval_mb W D l true); eauto].
        * eapply fresh_after; eauto.
        * eapply eval_bok_q; eauto.
        * eapply in_domc_agree with (Q := qvars l); [exact Hd|exact A1|intros ? ?; simpl; apply in_or_app; auto|intros x Hx Hq; dj].
        * exists b2, rho2. split; [apply in_flat_map; exists (b1, false); auto|]. split; auto.
          eapply agree_off_trans; eapply agree_off_weaken; eauto; intros; apply in_or_app; auto.
      + intros bnd b rho Hok Wf Hb Hf Hbk He Hd Hs. simpl in *. split_wf Wf.
        apply andb_prop in Hok as [Okl Okr]. apply andb_prop in Okl as [Okl Oktl].
        destruct (sat W D rho l) eqn:Sl; simpl in Hs.
        * destruct (TCl bnd b rho Oktl Wl Hb (Fl _ Hf) Hbk He (Dl _ Hd) Sl) as (b1 & rho1 & H1 & He1 & A1).
          assert (Sr1 : sat W D rho1 r = false).
          { rewrite (sat_agree r rho rho1 (qvars l) A1); auto. intros x Hx Hq. dj. }
          destruct (FCr (bnd ++ mb true l) b1 rho1 Okr Wr) as (b2 & rho2 & H2 & He2 & A2); auto.
          -- apply binds_all_app; [eapply binds_all_pres; [eapply eval_pres; eauto|auto]|eapply (eval_mb W D l true); eauto].
          -- eapply fresh_after; eauto.
          -- eapply eval_bok_q; eauto.
          -- eapply in_domc_agree with (Q := qvars l); [exact Hd|exact A1|intros ? ?; simpl; apply in_or_app; auto|intros x Hx Hq; dj].
          -- exists b2, rho2. split; [apply in_flat_map; exists (b1, false); auto|]. split; auto.
             eapply agree_off_trans; eapply agree_off_weaken; eauto; intros; apply in_or_app; auto.
        * destruct (FCl bnd b rho Okl Wl Hb (Fl _ Hf) Hbk He (Dl _ Hd) Sl) as (b1 & rho1 & H1 & He1 & A1).
          exists b1, rho1. split; [apply in_flat_map; exists (b1, true); simpl; auto|]. split; auto.
          eapply agree_off_weaken; eauto; intros; apply in_or_app; auto.
    - (* else-if *)
      destruct IHl as (TSl & FSl & TCl & FCl). destruct IHr as (TSr & FSr & TCr & FCr).
      assert (Dl : forall rho, in_domc D rho (CElseIf l r) -> in_domc D rho l) by (intros rho H x Hx; apply H; simpl; apply in_or_app; auto).
      assert (Dr : forall rho, in_domc D rho (CElseIf l r) -> in_domc D rho r) by (intros rho H x Hx; apply H; simpl; apply in_or_app; auto).
      assert (Fl : forall b, fresh b (CElseIf l r) -> fresh b l) by (intros b H z Hz; apply H; simpl; apply in_or_app; auto).
      assert (Fr : forall b, fresh b (CElseIf l r) -> fresh b r) by (intros b H z Hz; apply H; simpl; apply in_or_app; auto).
      repeat split.
      + intros bnd b b' Hok Wf Hb Hf Hbk Hin rho He Hd. simpl in *. split_wf Wf.
        apply andb_prop in Hok as [Okl Okr].
        apply in_flat_map in Hin as ([b1 f1] & H1 & H2). simpl in H2. destruct f1.
        * rewrite (TSr (bnd ++ mb false l) b1 b' Okr Wr); auto; [apply orb_true_r| | |].
          -- apply binds_all_app; [eapply binds_all_pres; [eapply eval_pres; eauto|auto]|eapply (eval_mb W D l false); eauto].
          -- eapply fresh_after; eauto.
          -- eapply eval_bok_q; eauto.
        * destruct H2 as [[= <-]|[]].
          rewrite (TSl bnd b b1 Okl Wl Hb (Fl _ Hf) Hbk H1 rho He (Dl _ Hd)). reflexivity.
      + intros bnd b b' Hok Wf Hb Hf Hbk Hin rho He Hd. simpl in *. split_wf Wf.
        apply andb_prop in Hok as [Okl Okr].
        apply in_flat_map in Hin as ([b1 f1] & H1 & H2). simpl in H2. destruct f1; [|destruct H2 as [[=]|[]]].
        assert (P1 : pres b1 b') by (eapply eval_pres; eauto).
        rewrite (FSl bnd b b1 Okl Wl Hb (Fl _ Hf) Hbk H1 rho (pres_extends _ _ _ P1 He) (Dl _ Hd)).
        rewrite (FSr (bnd ++ mb false l) b1 b' Okr Wr); auto.
        * apply binds_all_app; [eapply binds_all_pres; [eapply eval_pres; eauto|auto]|eapply (eval_mb W D l false); eauto].
        * eapply fresh_after; eauto.
        * eapply eval_bok_q; eauto.
      + intros bnd b rho Hok Wf Hb Hf Hbk He Hd Hs. simpl in *. split_wf Wf.
        apply andb_prop in Hok as [Okl Okr]. apply andb_prop in Okl as [Okl Okfl].
        destruct (sat W D rho l) eqn:Sl; simpl in Hs.
        * destruct (TCl bnd b rho Okl Wl Hb (Fl _ Hf) Hbk He (Dl _ Hd) Sl) as (b1 & rho1 & H1 & He1 & A1).
          exists b1, rho1. split; [apply in_flat_map; exists (b1, false); simpl; auto|]. split; auto.
          eapply agree_off_weaken; eauto; intros; apply in_or_app; auto.
        * destruct (FCl bnd b rho Okfl Wl Hb (Fl _ Hf) Hbk He (Dl _ Hd) Sl) as (b1 & rho1 & H1 & He1 & A1).
          assert (Sr1 : sat W D rho1 r = true).
          { rewrite (sat_agree r rho rho1 (qvars l) A1); auto. intros x Hx Hq. dj. }
          destruct (TCr (bnd ++ mb false l) b1 rho1 Okr Wr) as (b2 & rho2 & H2 & He2 & A2); auto.
          -- apply binds_all_app; [eapply binds_all_pres; [eapply eval_pres; eauto|auto]|eapply (eval_mb W D l false); eauto].
          -- eapply fresh_after; eauto.
          -- eapply eval_bok_q; eauto.
          -- eapply in_domc_agree with (Q := qvars l); [exact Hd|exact A1|intros ? ?; simpl; apply in_or_app; auto|intros x Hx Hq; dj].
          -- exists b2, rho2. split; [apply in_flat_map; exists (b1, true); auto|]. split; auto.
             eapply agree_off_trans; eapply agree_off_weaken; eauto; intros; apply in_or_app; auto.
      + intros bnd b rho Hok Wf Hb Hf Hbk He Hd Hs. simpl in *. split_wf Wf.
        apply andb_prop in Hok as [Okl Okr]. apply orb_false_iff in Hs as [Sl Sr].
        destruct (FCl bnd b rho Okl Wl Hb (Fl _ Hf) Hbk He (Dl _ Hd) Sl) as (b1 & rho1 & H1 & He1 & A1).
        assert (Sr1 : sat W D rho1 r = false).
        { rewrite (sat_agree r rho rho1 (qvars l) A1); auto. intros x Hx Hq. dj. }
        destruct (FCr (bnd ++ mb false l) b1 rho1 Okr Wr) as (b2 & rho2 & H2 & He2 & A2); auto.
        * apply binds_all_app; [eapply binds_all_pres; [eapply eval_pres; eauto|auto]|eapply (eval_mb W D l false); eauto].
        * eapply fresh_after; eauto.
        * eapply eval_bok_q; eauto.
        * eapply in_domc_agree with (Q := qvars l); [exact Hd|exact A1|intros ? ?; simpl; apply in_or_app; auto|intros x Hx Hq; dj].
        * exists b2, rho2. split; [apply in_flat_map; exists (b1, true); auto|]. split; auto.
          eapply agree_off_trans; eapply agree_off_weaken; eauto; intros; apply in_or_app; auto.
    - (* union (since 6dfdafd: the first pass is ElseIf, the second pass contributes true results of r only) *)
      destruct IHl as (TSl & FSl & TCl & FCl). destruct IHr as (TSr & FSr & TCr & FCr).
      assert (Dl : forall rho, in_domc D rho (CUnion l r) -> in_domc D rho l) by (intros rho H x Hx; apply H; simpl; apply in_or_app; auto).
      assert (Dr : forall rho, in_domc D rho (CUnion l r) -> in_domc D rho r) by (intros rho H x Hx; apply H; simpl; apply in_or_app; auto).
      assert (Fl : forall b, fresh b (CUnion l r) -> fresh b l) by (intros b H z Hz; apply H; simpl; apply in_or_app; auto).
      assert (Fr : forall b, fresh b (CUnion l r) -> fresh b r) by (intros b H z Hz; apply H; simpl; apply in_or_app; auto).
      repeat split.
      + intros bnd b b' Hok Wf Hb Hf Hbk Hin rho He Hd. simpl in *. split_wf Wf.
        apply andb_prop in Hok as [Okl Okr].
        apply in_app_or in Hin as [Hin|Hin].
        * apply in_flat_map in Hin as ([b1 f1] & H1 & H2). simpl in H2. destruct f1.
          -- rewrite (TSr bnd b1 b' Okr Wr); auto; [apply orb_true_r| | |].
             ++ eapply binds_all_pres; [eapply eval_pres; eauto|auto].
             ++ eapply fresh_after; eauto.
             ++ eapply eval_bok_q; eauto.
          -- destruct H2 as [[= <-]|[]].
             rewrite (TSl bnd b b1 Okl Wl Hb (Fl _ Hf) Hbk H1 rho He (Dl _ Hd)). reflexivity.
        * apply filter_In in Hin as [Hin _].
          rewrite (TSr bnd b b' Okr Wr Hb (Fr _ Hf) Hbk Hin rho He (Dr _ Hd)). apply orb_true_r.
      + intros bnd b b' Hok Wf Hb Hf Hbk Hin rho He Hd. simpl in *. split_wf Wf.
        apply andb_prop in Hok as [Okl Okr].
        apply in_app_or in Hin as [Hin|Hin]; [|apply filter_In in Hin as [_ Hin]; discriminate].
        apply in_flat_map in Hin as ([b1 f1] & H1 & H2). simpl in H2. destruct f1; [|destruct H2 as [[=]|[]]].
        assert (P1 : pres b1 b') by (eapply eval_pres; eauto).
        rewrite (FSl bnd b b1 Okl Wl Hb (Fl _ Hf) Hbk H1 rho (pres_extends _ _ _ P1 He) (Dl _ Hd)).
        rewrite (FSr (bnd ++ mb false l) b1 b' Okr Wr); auto.
        * apply binds_all_app; [eapply binds_all_pres; [eapply eval_pres; eauto|auto]|eapply (eval_mb W D l false); eauto].
        * eapply fresh_after; eauto.
        * eapply eval_bok_q; eauto.
      + intros bnd b rho Hok Wf Hb Hf Hbk He Hd Hs. simpl in *. split_wf Wf.
        apply andb_prop in Hok as [Okl Okr].
        destruct (sat W D rho l) eqn:Sl; simpl in Hs.
        * destruct (TCl bnd b rho Okl Wl Hb (Fl _ Hf) Hbk He (Dl _ Hd) Sl) as (b1 & rho1 & H1 & He1 & A1).
          exists b1, rho1. split; [apply in_or_app; left; apply in_flat_map; exists (b1, false); simpl; auto|]. split; auto.
          eapply agree_off_weaken; eauto; intros; apply in_or_app; auto.
        * destruct (TCr bnd b rho Okr Wr Hb (Fr _ Hf) Hbk He (Dr _ Hd) Hs) as (b2 & rho2 & H2 & He2 & A2).
          exists b2, rho2. split; [apply in_or_app; right; apply filter_In; split; auto|]. split; auto.
          eapply agree_off_weaken; eauto; intros; apply in_or_app; auto.
      + intros bnd b rho Hok Wf Hb Hf Hbk He Hd Hs. simpl in *. split_wf Wf.
        apply andb_prop in Hok as [Okl Okr]. apply orb_false_iff in Hs as [Sl Sr].
        destruct (FCl bnd b rho Okl Wl Hb (Fl _ Hf) Hbk He (Dl _ Hd) Sl) as (b1 & rho1 & H1 & He1 & A1).
        assert (Sr1 : sat W D rho1 r = false).
        { rewrite (sat_agree r rho rho1 (qvars l) A1); auto. intros x Hx Hq. dj. }
        destruct (FCr (bnd ++ mb false l) b1 rho1 Okr Wr) as (b2 & rho2 & H2 & He2 & A2); auto.
        * apply binds_all_app; [eapply binds_all_pres; [eapply eval_pres; eauto|auto]|eapply (eval_mb W D l false); eauto].
        * eapply fresh_after; eauto.
        * eapply eval_bok_q; eauto.
        * eapply in_domc_agree with (Q := qvars l); [exact Hd|exact A1|intros ? ?; simpl; apply in_or_app; auto|intros x Hx Hq; dj].
        * exists b2, rho2. split; [apply in_or_app; left; apply in_flat_map; exists (b1, true); auto|]. split; auto.
          eapply agree_off_trans; eapply agree_off_weaken; eauto; intros; apply in_or_app; auto.
    - (* not *)
      destruct IH as (TSc & FSc & TCc & FCc).
      repeat split.
      + intros bnd b b' Hok Wf Hb Hf Hbk Hin rho He Hd. simpl in *.
        apply in_map_iff in Hin as ([b1 f1] & [= <- Hn] & H1). destruct f1; [|discriminate].
        rewrite (FSc bnd b b1 Hok Wf Hb Hf Hbk H1 rho He Hd). reflexivity.
      + intros bnd b b' Hok Wf Hb Hf Hbk Hin rho He Hd. simpl in *.
        apply in_map_iff in Hin as ([b1 f1] & [= <- Hn] & H1). destruct f1; [discriminate|].
        rewrite (TSc bnd b b1 Hok Wf Hb Hf Hbk H1 rho He Hd). reflexivity.
      + intros bnd b rho Hok Wf Hb Hf Hbk He Hd Hs. simpl in *. apply negb_true_iff in Hs.
        destruct (FCc bnd b rho Hok Wf Hb Hf Hbk He Hd Hs) as (b1 & rho1 & H1 & He1 & A1).
        exists b1, rho1. split; auto. apply in_map_iff. exists (b1, true). auto.
      + intros bnd b rho Hok Wf Hb Hf Hbk He Hd Hs. simpl in *. apply negb_false_iff in Hs.
        destruct (TCc bnd b rho Hok Wf Hb Hf Hbk He Hd Hs) as (b1 & rho1 & H1 & He1 & A1).
        exists b1, rho1. split; auto. apply in_map_iff. exists (b1, false). auto.
    - (* exists *)
      destruct IH as (TSc & FSc & TCc & FCc).
      destruct e as [v|y|e' a]; try (repeat split; intros bnd b ? Hok; simpl in Hok; discriminate).
      assert (Dc : forall rho, in_domc D rho (CExists (OVar y) c) -> in_domc D rho c) by (intros rho H x Hx; apply H; simpl; right; auto).
      assert (Fc : forall b, fresh b (CExists (OVar y) c) -> fresh b c) by (intros b H z Hz; apply H; simpl; auto).
      repeat split.
      + intros bnd b b' Hok Wf Hb Hf Hbk Hin rho He Hd. simpl in Hok, Wf, Hin. apply andb_prop in Wf as [Wc Wy].
        apply exists_scan_in in Hin as [Hin _].
        pose proof (TSc bnd b b' Hok Wc Hb (Fc _ Hf) Hbk Hin rho He (Dc _ Hd)) as Hs.
        simpl. apply existsb_exists. exists (rho y). split; [apply Hd; simpl; auto|]. now rewrite upd_self.
      + intros bnd b b' Hok Wf Hb Hf Hbk Hin. simpl in Hin. apply exists_scan_in in Hin as [_ Hin]. discriminate.
      + intros bnd b rho Hok Wf Hb Hf Hbk He Hd Hs. simpl in Hok, Wf, Hs. apply andb_prop in Wf as [Wc Wy].
        apply existsb_exists in Hs as (v & Hv & Hs).
        assert (Hy : lookup b y = None) by (apply Hf; simpl; auto).
        assert (Hdv : in_domc D (upd rho y v) c).
        { intros x Hx. destruct (Nat.eq_dec x y) as [->|Hne]; [now rewrite upd_eq|]. rewrite upd_ne by exact Hne.
          apply Hd. simpl. right. exact Hx. }
        destruct (TCc bnd b (upd rho y v) Hok Wc Hb (Fc _ Hf) Hbk (extends_upd_fresh _ _ _ _ Hy He) Hdv Hs)
          as (b1 & rho1 & H1 & He1 & A1).
        destruct (exists_scan_complete (remove_var y (cond_vars c)) (eval W D c b) [] b1 H1) as [Hc|(b0 & H0 & K0)];
          [discriminate|].
        pose proof (exists_scan_in _ _ _ _ H0) as [H0' _].
        exists b0, (fun x => match lookup b0 x with Some u => u | None => rho1 x end).
        split; [exact H0|]. split.
        * intros x u Hl. now rewrite Hl.
        * intros x Hx. simpl in Hx.
          assert (Hxy : x <> y) by (intros ->; apply Hx; now left).
          assert (Hxq : ~ In x (qvars c)) by (intros Hq; apply Hx; now right).
          assert (R1 : rho1 x = rho x) by (rewrite A1 by exact Hxq; now apply upd_ne).
          destruct (lookup b0 x) eqn:E0; [|exact R1].
          destruct (eval_dom W D c _ _ _ H0' x) as [Hb0|Hc0]; [congruence| |].
          -- destruct (lookup b x) eqn:Eb; [|congruence].
             rewrite (eval_pres W D c _ _ _ H0' _ _ Eb) in E0. inversion E0; subst. symmetry. now apply He.
          -- assert (Hin : In x (remove_var y (cond_vars c))) by (apply in_remove_var; auto).
             pose proof (map_eq_in _ _ _ K0 x Hin) as K. rewrite E0 in K. symmetry in K.
             rewrite <- R1. symmetry. now apply He1.
      + intros bnd b rho Hok. simpl in Hok. discriminate.
    - (* for_all *)
      repeat split.
      + intros bnd b b' Hok Wf Hb Hf Hbk Hin rho He Hd.
        simpl in Hok. apply andb_prop in Hok as [Hok Hcl]. apply andb_prop in Hok as [Q S].
        assert (Hy : lookup b y = None) by (apply Hf; simpl; auto).
        assert (Hcb : binds_all b (remove_var y (cond_vars c))).
        { intros x Hx. apply Hb. eapply nsubset_spec; eauto. }
        destruct (D y) as [|v0 vs] eqn:HD.
        * simpl. now rewrite HD.
        * assert (Heb : extends rho b) by (eapply pres_extends; [eapply eval_pres; eauto|exact He]).
          destruct (proj1 (forall_results y c b Q S Hy Hcb v0 vs rho HD Heb b' false) Hin) as (_ & _ & Hall). exact Hall.
      + intros bnd b b' Hok Wf Hb Hf Hbk Hin rho He Hd. exfalso.
        simpl in Hin. destruct (match lookup b y with Some _ => [b] | None => map (fun v => (y, v) :: b) (D y) end).
        * destruct Hin as [[=]|[]].
        * apply in_map_iff in Hin as (s1 & [=] & _).
      + intros bnd b rho Hok Wf Hb Hf Hbk He Hd Hs.
        simpl in Hok. apply andb_prop in Hok as [Hok Hcl]. apply andb_prop in Hok as [Q S].
        assert (Hy : lookup b y = None) by (apply Hf; simpl; auto).
        assert (Hcb : binds_all b (remove_var y (cond_vars c))).
        { intros x Hx. apply Hb. eapply nsubset_spec; eauto. }
        destruct (D y) as [|v0 vs] eqn:HD.
        * exists b, rho. split; [simpl; rewrite Hy, HD; now left|]. split; auto. apply agree_off_refl.
        * exists (restrict (remove_var y (cond_vars c)) b ++ b), rho. split.
          -- apply (forall_results y c b Q S Hy Hcb v0 vs rho HD He). simpl in Hs. auto.
          -- split; [now apply star_app_extends|apply agree_off_refl].
      + intros bnd b rho Hok. simpl in Hok. discriminate.
  Qed.
End QProofs.
