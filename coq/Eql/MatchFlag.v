(* C11 -- the flag the harness evaluates on a concrete case ([in_F], booleans over the finite data of the case) implies
   the hypotheses of the theorem, so the theorem applies to every case the harness counts as inside F11. *)
From Coq Require Import List ZArith Bool Arith Lia.
From Krrood Require Import Base.Sx Eql.Syntax Eql.ShowSpec Eql.MatchSpec Eql.MatchSpecShow Gen.Match Eql.Match Eql.MatchFrag
  Eql.MatchProofs.
Import ListNotations.

Lemma pair_mem_in l a b : pair_mem l a b = true <-> In (a, b) l.
Proof.
  unfold pair_mem. rewrite existsb_exists. split.
  - intros [[x y] [Hin H]]. simpl in H. apply andb_true_iff in H. destruct H as [H1 H2].
    apply Nat.eqb_eq in H1. apply Nat.eqb_eq in H2. subst. exact Hin.
  - intros Hin. exists (a, b). split; auto. simpl. rewrite !Nat.eqb_refl. reflexivity.
Qed.

Lemma sub_trans_of_b c : sub_trans_b c = true -> sub_trans (case_cmodel c).
Proof.
  intros H x y z Hxy Hyz. simpl in *. apply pair_mem_in in Hxy. apply pair_mem_in in Hyz.
  unfold sub_trans_b in H. rewrite forallb_forall in H. specialize (H _ Hxy). rewrite forallb_forall in H.
  specialize (H _ Hyz). simpl in H. rewrite Nat.eqb_refl in H. exact H.
Qed.

Lemma assocZ_cases l o : (exists k, In (o, k) l /\ assocZ l o = k) \/ assocZ l o = O.
Proof.
  induction l as [|[o' k] l IH]; simpl; auto.
  destruct (Z.eqb o o') eqn:He.
  - apply Z.eqb_eq in He. subst. left. exists k. auto.
  - destruct IH as [[k' [Hin Hk]]|H0]; auto. left. exists k'. auto.
Qed.

Lemma find_field_in l oc a it d : find_field l oc a = Some (it, d) -> In (oc, a, it, d) l.
Proof.
  induction l as [|[[[oc' a'] it'] d'] l IH]; simpl; [discriminate|].
  destruct (Nat.eqb oc oc' && Nat.eqb a a') eqn:He.
  - intros H. injection H as -> ->. apply andb_true_iff in He. destruct He as [H1 H2].
    apply Nat.eqb_eq in H1. apply Nat.eqb_eq in H2. subst. auto.
  - intros H. auto.
Qed.

Lemma typed_of_b c : typed_b c = true -> class0_b c = true -> typed (case_cmodel c) (case_objcls c) (case_world c).
Proof.
  intros Ht H0 o oc a d Hsub Hd.
  assert (Hfld : exists it, find_field (c_fields c) oc a = Some (it, d)).
  { simpl in Hd. destruct (find_field (c_fields c) oc a) as [[it d']|]; [|discriminate]. injection Hd as ->. eauto. }
  destruct Hfld as [it Hfld].
  assert (Hit : f_iter (case_cmodel c) oc a = it) by (simpl; rewrite Hfld; reflexivity).
  rewrite Hit. apply find_field_in in Hfld.
  simpl in Hsub. destruct (assocZ_cases (c_types c) o) as [[k [Hin Hk]]|Hz].
  - rewrite Hk in Hsub. unfold typed_b in Ht. rewrite forallb_forall in Ht. specialize (Ht _ Hin).
    rewrite forallb_forall in Ht. specialize (Ht _ Hfld). cbn [fst snd] in Ht.
    change (sub (case_cmodel c) k oc) with (pair_mem (c_sub c) k oc) in Ht. rewrite Hsub in Ht.
    destruct (attr (mw (case_world c)) o a) as [z|o'|zs|xs] eqn:Hav.
    + apply andb_true_iff in Ht. destruct Ht as [H1 H2]. apply negb_true_iff in H1, H2. rewrite H1.
      rewrite H2. right. reflexivity.
    + apply andb_true_iff in Ht. destruct Ht as [Ht H3]. apply andb_true_iff in Ht. destruct Ht as [H1 H2].
      apply negb_true_iff in H1. rewrite H1. rewrite H2. eauto.
    + apply andb_true_iff in Ht. destruct Ht as [Ht H3]. apply andb_true_iff in Ht. destruct Ht as [H1 H2].
      apply negb_true_iff in H1, H2. rewrite H1, H2. left. exact H3.
    + apply andb_true_iff in Ht. destruct Ht as [H1 H2]. rewrite H1. exists xs. split; auto.
      rewrite forallb_forall in H2. exact H2.
  - rewrite Hz in Hsub. apply pair_mem_in in Hsub. unfold class0_b in H0. rewrite forallb_forall in H0.
    specialize (H0 _ Hsub). simpl in H0. discriminate.
Qed.

Lemma find_attr_nonone t a : forallb (fun av : nat * val => nonone_v (snd av)) t = true -> nonone_v (find_attr t a) = true.
Proof.
  induction t as [|[a' v] t IH]; simpl; auto. intros H. apply andb_true_iff in H. destruct H as [Hv Ht].
  destruct (Nat.eqb a a'); auto.
Qed.
Lemma nonone_of_b c : nonone_b c = true -> no_none (case_world c) (c_dom c).
Proof.
  unfold nonone_b. intros H. apply andb_true_iff in H. destruct H as [Hw Hd]. split.
  - intros o a. simpl. induction (c_world c) as [|[[o' k] t] d IH]; simpl; auto.
    simpl in Hw. apply andb_true_iff in Hw. destruct Hw as [Ht Hrest].
    destruct (Z.eqb o o'); [apply find_attr_nonone; exact Ht|apply IH; exact Hrest].
  - intros Hin. apply negb_true_iff in Hd.
    assert (existsb (Z.eqb 0) (c_dom c) = true) by (apply existsb_exists; exists 0%Z; split; auto). congruence.
Qed.

(* every case the harness counts as inside F11 is covered by the theorem *)
Theorem fragment_flag c : in_F c = true ->
  build_raises (case_cmodel c) (c_T c) (c_pat c) = false /\
  run_araises (case_cmodel c) (case_world c) (c_T c) (c_pat c) (c_dom c) = false /\
  run_raises (case_cmodel c) (case_world c) (c_T c) (c_pat c) (c_dom c) = false /\
  forall o, In o (run (case_cmodel c) (case_world c) (c_T c) (c_pat c) (c_dom c)) <->
            In o (spec_run (sub (case_cmodel c)) (case_world c) (c_T c) (c_pat c) (c_dom c)).
Proof.
  unfold in_F. intros H. apply andb_true_iff in H. destruct H as [H Hnn]. apply andb_true_iff in H. destruct H as [H H0]. apply andb_true_iff in H. destruct H as [H Hty].
  apply andb_true_iff in H. destruct H as [HF Htr].
  split; [apply (no_build_error _ (case_objcls c)); apply (proj1 (proj2 (fok_mono _ _))); exact HF|].
  split; [apply no_attr_error; apply nonone_of_b; exact Hnn|].
  split; [apply (no_error _ (case_objcls c)); apply (proj1 (proj2 (fok_mono _ _))); exact HF|].
  apply (match_run_exact (case_cmodel c) (case_objcls c)); auto using sub_trans_of_b, typed_of_b.
Qed.

(* ... and every case inside the relaxed fragment (finding C11-e allowed) is answered as the relaxed reading says *)
Theorem fragment_flag_lax c : in_Flax c = true ->
  build_raises (case_cmodel c) (c_T c) (c_pat c) = false /\
  run_araises (case_cmodel c) (case_world c) (c_T c) (c_pat c) (c_dom c) = false /\
  run_raises (case_cmodel c) (case_world c) (c_T c) (c_pat c) (c_dom c) = false /\
  forall o, In o (run (case_cmodel c) (case_world c) (c_T c) (c_pat c) (c_dom c)) <->
            In o (lax_run (case_cmodel c) (case_world c) (c_T c) (c_pat c) (c_dom c)).
Proof.
  unfold in_Flax. intros H. apply andb_true_iff in H. destruct H as [H Hnn]. apply andb_true_iff in H. destruct H as [H H0]. apply andb_true_iff in H. destruct H as [H Hty].
  apply andb_true_iff in H. destruct H as [HF Htr].
  split; [apply (no_build_error _ (case_objcls c)); exact HF|].
  split; [apply no_attr_error; apply nonone_of_b; exact Hnn|].
  split; [apply (no_error _ (case_objcls c)); exact HF|].
  apply (match_run_lax (case_cmodel c) (case_objcls c)); auto using sub_trans_of_b, typed_of_b.
Qed.

(* ... and the rows reported for select / entity_selection are the Spec's projections *)
Theorem fragment_flag_rows c : in_F c = true ->
  forall r, In r (run_rows (case_cmodel c) (case_world c) (c_rootsel c) (c_T c) (c_pat c) (c_dom c)) <->
            In r (spec_rows (sub (case_cmodel c)) (case_world c) (c_rootsel c) (c_T c) (c_pat c) (c_dom c)).
Proof.
  unfold in_F. intros H. apply andb_true_iff in H. destruct H as [H Hnn]. apply andb_true_iff in H. destruct H as [H H0]. apply andb_true_iff in H. destruct H as [H Hty].
  apply andb_true_iff in H. destruct H as [HF Htr].
  apply (match_rows_exact (case_cmodel c) (case_objcls c)); auto using sub_trans_of_b, typed_of_b.
Qed.
