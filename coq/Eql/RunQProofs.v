(* C01 with quantifiers, part 5: whole queries whose condition may contain exists / for_all. *)
From Coq Require Import List ZArith Bool Arith Lia.
From Krrood Require Import Eql.Syntax Eql.Sat Eql.Eval Eql.EvalProofs Eql.RunProofs
                           Eql.EvalQInv Eql.EvalQDefs Eql.EvalQTotal Eql.EvalQProofs.
Import ListNotations.

Lemma vars_fv_or_q c : forall x, In x (cond_vars c) -> In x (cond_fv c) \/ In x (qvars c).
Proof.
  induction c as [op l r|l IHl r IHr|l IHl r IHr|l IHl r IHr|c IH|e c IH|y c IH]; simpl; intros x Hx; auto;
    try (apply in_app_or in Hx as [Hx|Hx]; [destruct (IHl x Hx)|destruct (IHr x Hx)];
         [left|right|left|right]; apply in_or_app; auto).
  - destruct e as [v|z|e' a]; simpl in *.
    + destruct (IH x Hx); auto.
    + destruct Hx as [<-|Hx]; [right; now left|].
      destruct (Nat.eq_dec x z) as [->|Hne]; [right; now left|].
      destruct (IH x Hx); [left; apply in_remove_var; auto|right; now right].
    + apply in_app_or in Hx as [Hx|Hx]; [left; apply in_or_app; auto|].
      destruct (IH x Hx); [left; apply in_or_app; auto|auto].
  - destruct Hx as [<-|Hx]; [right; now left|].
    destruct (Nat.eq_dec x y) as [->|Hne]; [right; now left|].
    destruct (IH x Hx); [left; apply in_remove_var; auto|right; now right].
Qed.

Lemma wfq_fv_not_q c : wfq c = true -> forall x, In x (cond_fv c) -> ~ In x (qvars c).
Proof.
  induction c as [op l r|l IHl r IHr|l IHl r IHr|l IHl r IHr|c IH|e c IH|y c IH]; simpl; intros Wf x Hx Hq; auto;
    try (apply andb_prop in Wf as [Wf Hd2]; apply andb_prop in Wf as [Wf Hd1]; apply andb_prop in Wf as [Wl Wr];
         apply in_app_or in Hx as [Hx|Hx]; apply in_app_or in Hq as [Hq|Hq];
         [eapply IHl; eauto
         |apply (disj_spec _ _ Hd2 x Hq); apply fv_sub_vars; exact Hx
         |apply (disj_spec _ _ Hd1 x Hq); apply fv_sub_vars; exact Hx
         |eapply IHr; eauto]).
  - eapply IH; eauto.
  - destruct e as [v|z|e' a]; try discriminate. apply andb_prop in Wf as [Wc Wz].
    apply in_remove_var in Hx as [Hx Hne]. destruct Hq as [->|Hq]; [congruence|]. eapply IH; eauto.
  - apply andb_prop in Wf as [Wc Wz].
    apply in_remove_var in Hx as [Hx Hne]. destruct Hq as [->|Hq]; [congruence|]. eapply IH; eauto.
Qed.

Section RunQ.
  Variable W : world.
  Variable D : domains.

  Theorem run_sound_q q c row :
    q_cond q = Some c -> wfq c = true -> ok TS [] c = true ->
    (forall x, In x (cond_vars c ++ flat_map opnd_vars (q_sels q)) -> D x <> []) ->
    In row (run W D q) -> answer W D q row.
  Proof.
    intros Ec Wf Ok Hne Hin. unfold run in Hin. apply in_flat_map in Hin as (b1 & Hb1 & Hrow).
    rewrite Ec in Hb1. simpl in Hb1. apply in_map_iff in Hb1 as ([b f] & <- & Hf).
    apply filter_In in Hf as [Hf Ht]. simpl in *. destruct f; [discriminate|].
    assert (Hb : b_ok D b) by (eapply eval_bok_q; eauto; apply b_ok_nil).
    assert (He0 : extends (fill D b) b). { intros x v Hl. unfold fill. now rewrite Hl. }
    destruct (select_sound W D _ _ _ _ Hrow Hb He0) as (rho & He & Hag & Hdm & ->).
    assert (Hdom : forall x, In x (cond_vars c ++ flat_map opnd_vars (q_sels q)) -> In (rho x) (D x)).
    { intros x Hx. destruct (in_dec Nat.eq_dec x (flat_map opnd_vars (q_sels q))) as [Hi|Hi]; auto.
      rewrite Hag by exact Hi. unfold fill. destruct (lookup b x) eqn:El.
      - eapply Hb; eauto.
      - specialize (Hne x Hx). destruct (D x); [contradiction|]. simpl. auto. }
    exists rho. split; [|split; auto].
    - intros x Hx. apply Hdom. unfold query_vars in Hx. rewrite Ec in Hx.
      apply in_app_or in Hx as [Hx|Hx]; apply in_or_app; auto. left. now apply fv_sub_vars.
    - rewrite Ec. simpl.
      destruct (cover_q W D c) as (TSc & _).
      apply (TSc [] [] b Ok Wf); auto.
      + intros x [].
      + intros y _. reflexivity.
      + apply b_ok_nil.
      + intros x Hx. apply Hdom. apply in_or_app. auto.
  Qed.

  Theorem run_complete_q q c row :
    q_cond q = Some c -> wfq c = true -> ok TC [] c = true ->
    (forall x, In x (flat_map opnd_vars (q_sels q)) -> ~ In x (qvars c)) ->
    (forall x, In x (qvars c) -> D x <> []) ->
    answer W D q row -> In row (run W D q).
  Proof.
    intros Ec Wf Ok Hsq Hne (rho & Hd & Hs & ->). rewrite Ec in Hs. simpl in Hs.
    set (rho0 := fun x => if nmem x (qvars c) then hd (VI 0) (D x) else rho x).
    assert (A0 : forall x, ~ In x (qvars c) -> rho0 x = rho x).
    { intros x Hx. unfold rho0. apply nmem_false in Hx. now rewrite Hx. }
    assert (Hd0 : in_domc D rho0 c).
    { intros x Hx. unfold rho0. destruct (nmem x (qvars c)) eqn:E.
      - apply nmem_true in E. specialize (Hne x E). destruct (D x); [contradiction|]. simpl. auto.
      - apply nmem_false in E. apply Hd. unfold query_vars. rewrite Ec. apply in_or_app. right.
        destruct (vars_fv_or_q c x Hx); [auto|contradiction]. }
    assert (Hs0 : sat W D rho0 c = true).
    { rewrite <- Hs. apply sat_ext. intros x Hx. apply A0. now apply wfq_fv_not_q. }
    destruct (cover_q W D c) as (_ & _ & TCc & _).
    destruct (TCc [] [] rho0 Ok Wf) as (b' & rho' & H1 & He' & A'); auto.
    - intros x [].
    - intros y _. reflexivity.
    - apply b_ok_nil.
    - apply extends_nil.
    - unfold run. apply in_flat_map. exists b'. split.
      + rewrite Ec. simpl. apply in_map_iff. exists (b', false). split; auto. apply filter_In. auto.
      + assert (E : map (den W rho) (q_sels q) = map (den W rho') (q_sels q)).
        { apply map_den_ext. intros x Hx. rewrite A' by (apply Hsq; exact Hx). symmetry. apply A0. now apply Hsq. }
        rewrite E. apply select_complete; auto.
        intros x Hx. rewrite A' by (apply Hsq; exact Hx). rewrite A0 by (apply Hsq; exact Hx).
        apply Hd. unfold query_vars. apply in_or_app. auto.
  Qed.

  Theorem run_exact_q q c :
    q_cond q = Some c -> wfq c = true -> ok TS [] c = true -> ok TC [] c = true ->
    (forall x, In x (flat_map opnd_vars (q_sels q)) -> ~ In x (qvars c)) ->
    (forall x, In x (cond_vars c ++ flat_map opnd_vars (q_sels q)) -> D x <> []) ->
    forall row, In row (run W D q) <-> answer W D q row.
  Proof.
    intros Ec Wf Ots Otc Hsq Hne row. split.
    - eapply run_sound_q; eauto.
    - eapply run_complete_q; eauto. intros x Hx. apply Hne. apply in_or_app. left. now apply qvars_sub_vars.
  Qed.
End RunQ.

(* ---------- quantifier-free conditions: the general side conditions collapse to the polarity check ---------- *)
Lemma qfree_ok c : qfree c = true -> forall bnd,
  wfq c = true /\ ok TC bnd c = true /\ ok FC bnd c = true /\
  ok TS bnd c = snd_ok true c /\ ok FS bnd c = snd_ok false c.
Proof.
  induction c as [op l r|l IHl r IHr|l IHl r IHr|l IHl r IHr|c IH|e c IH|y c IH]; simpl; intros Q bnd;
    try discriminate; auto.
  - apply andb_prop in Q as [Ql Qr].
    destruct (IHl Ql bnd) as (W1 & T1 & F1 & S1 & G1).
    destruct (IHr Qr (bnd ++ mb true l)) as (W2 & T2 & F2 & S2 & G2).
    rewrite W1, W2, T1, T2, F1, F2, S1, S2, G1, G2. simpl.
    assert (E : forall c', qfree c' = true -> qvars c' = []).
    { clear. induction c'; simpl; intros H; auto; try discriminate;
        try (apply andb_prop in H as [H1 H2]; rewrite IHc'1, IHc'2; auto). }
    rewrite (E l Ql), (E r Qr). simpl. auto.
  - apply andb_prop in Q as [Ql Qr].
    destruct (IHl Ql bnd) as (W1 & T1 & F1 & S1 & G1).
    destruct (IHr Qr (bnd ++ mb false l)) as (W2 & T2 & F2 & S2 & G2).
    rewrite W1, W2, T1, T2, F1, F2, S1, S2, G1, G2. simpl.
    assert (E : forall c', qfree c' = true -> qvars c' = []).
    { clear. induction c'; simpl; intros H; auto; try discriminate;
        try (apply andb_prop in H as [H1 H2]; rewrite IHc'1, IHc'2; auto). }
    rewrite (E l Ql), (E r Qr). simpl. auto.
  - apply andb_prop in Q as [Ql Qr].
    destruct (IHl Ql bnd) as (W1 & T1 & F1 & S1 & G1).
    destruct (IHr Qr bnd) as (W2 & T2 & F2 & S2 & G2).
    destruct (IHr Qr (bnd ++ mb false l)) as (_ & _ & F3 & _ & G3).
    rewrite W1, W2, T1, T2, F1, F3, S1, S2, G1, G3. simpl.
    assert (E : forall c', qfree c' = true -> qvars c' = []).
    { clear. induction c'; simpl; intros H; auto; try discriminate;
        try (apply andb_prop in H as [H1 H2]; rewrite IHc'1, IHc'2; auto). }
    rewrite (E l Ql), (E r Qr). simpl. auto.
  - destruct (IH Q bnd) as (W1 & T1 & F1 & S1 & G1). auto.
Qed.

(* ---------- the decidable fragment the correspondence check uses ---------- *)
Fixpoint nodupb (l : list var) : bool :=
  match l with [] => true | x :: l' => negb (nmem x l') && nodupb l' end.
Lemma nodupb_spec l : nodupb l = true -> NoDup l.
Proof.
  induction l as [|x l IH]; simpl; intros H; constructor; apply andb_prop in H as [H1 H2]; auto.
  apply negb_true_iff in H1. now apply nmem_false.
Qed.

Definition nonemptyb (D : domains) (x : var) : bool := match D x with [] => false | _ => true end.

Definition in_F01 (D : domains) (q : query) : bool :=
  let roots := flat_map opnd_vars (q_sels q) in
  match q_cond q with
  | None => forallb (nonemptyb D) roots
  | Some c => wfq c && ok TS [] c && ok TC [] c && disj roots (qvars c) && forallb (nonemptyb D) (cond_vars c ++ roots)
  end.

Theorem in_F01_exact W D q : in_F01 D q = true -> forall row, In row (run W D q) <-> answer W D q row.
Proof.
  unfold in_F01. intros H.
  assert (Hne : forall xs, forallb (nonemptyb D) xs = true -> forall x, In x xs -> D x <> []).
  { intros xs Hf x Hx. rewrite forallb_forall in Hf. specialize (Hf x Hx). unfold nonemptyb in Hf.
    destruct (D x); [discriminate|congruence]. }
  destruct (q_cond q) as [c|] eqn:Ec.
  - apply andb_prop in H as [H Hd]. apply andb_prop in H as [H Hdj]. apply andb_prop in H as [H Htc].
    apply andb_prop in H as [Hwf Hts].
    apply (run_exact_q W D q c Ec Hwf Hts Htc); [|now apply Hne].
    intros x Hx. eapply disj_spec; eauto.
  - apply run_exact; auto.
    + now rewrite Ec.
    + unfold query_vars. rewrite Ec, app_nil_r. now apply Hne.
Qed.
