(* C08, one variable, programs WITH next_rule anywhere: the summary (fires, Tg) of the written tree is the Spec's
   ripple-down-rules interpreter, as a set of conclusions per element -- for every program outside the class
   [later_ref_next] (a next_rule in the level of a refinement that is not the first refinement of its rule, where the
   property text does not settle the reading). *)
From Coq Require Import List ZArith Bool Arith Lia.
From Krrood Require Import Eql.RuleSpec Eql.RuleEval Eql.RuleBuild Eql.RulePure Eql.RuleEvalProofs Eql.RuleSpecProofs Eql.RuleBuildProofs
  Eql.RuleMultiProofs Eql.RuleMultiRootProofs Eql.RuleMultiPure.
Import ListNotations.

Definition seteq (a b : list nat) : Prop := forall x, In x a <-> In x b.
Lemma seteq_refl a : seteq a a.
Proof. intros x. tauto. Qed.
Lemma seteq_nil a : seteq a [] -> a = [].
Proof. destruct a as [|x a]; [reflexivity|]. intros H. destruct (proj1 (H x) (or_introl eq_refl)). Qed.

Definition rel2 (e : elem) (a : option tree) (st : lstate) : Prop :=
  match a with
  | None => st = (false, [])
  | Some t => fst st = fires t e /\ seteq (snd st) (Tg t e)
  end.

(* once a branch of a level has fired, a level without next_rule leaves the state alone *)
Lemma level_fired_nl e r : next_in_level r = false -> forall k o, k <> KNext -> level e k r (true, o) = (true, o).
Proof.
  induction r as [cs tg body IH] using rule_ind'. intros Hn k o Hk.
  cbn [level].
  assert (Hmay : (match k with KNext => true | _ => negb (fst (true, o)) end && holds e cs) = false)
    by (destruct k; try reflexivity; congruence).
  rewrite Hmay. clear Hmay. cbn [next_in_level] in Hn.
  induction body as [|[k0 q] body IHb]; [reflexivity|].
  inversion IH as [|? ? Hq Hrest]; subst. simpl in Hq.
  destruct k0.
  - apply IHb; assumption.
  - apply orb_false_iff in Hn. destruct Hn as [Hn1 Hn2]. rewrite (Hq Hn1 KAlt o) by discriminate. apply IHb; assumption.
  - discriminate.
Qed.

Lemma later_all body : forall sr,
  (fix go (l : list (kind * rule)) (seen_ref : bool) : bool :=
     match l with
     | [] => false
     | (KRef, q) :: l' => (seen_ref && next_in_level q) || later_ref_next q || go l' true
     | (_, q) :: l' => later_ref_next q || go l' seen_ref
     end) body sr = false ->
  Forall (fun kq => later_ref_next (snd kq) = false) body.
Proof.
  induction body as [|[k q] body IHb]; intros sr H; [constructor|].
  destruct k.
  - apply orb_false_iff in H. destruct H as [H H2]. apply orb_false_iff in H. destruct H as [_ H1].
    constructor; [exact H1|]. eapply IHb; eauto.
  - apply orb_false_iff in H. destruct H as [H1 H2]. constructor; [exact H1|]. eapply IHb; eauto.
  - apply orb_false_iff in H. destruct H as [H1 H2]. constructor; [exact H1|]. eapply IHb; eauto.
Qed.

Lemma level_ok2 e r : later_ref_next r = false -> forall k a st, rel2 e a st ->
  rel2 e (Some (tlevel k r a)) (level e k r st).
Proof.
  induction r as [cs tg body IH] using rule_ind'. intros Hn k a st Hrel.
  cbn [later_ref_next] in Hn.
  (* the branch with its refinements: the first written refinement that fires wins *)
  assert (Hme : forall sr s0,
     (fix go (l : list (kind * rule)) (seen_ref : bool) : bool :=
        match l with
        | [] => false
        | (KRef, q) :: l' => (seen_ref && next_in_level q) || later_ref_next q || go l' true
        | (_, q) :: l' => later_ref_next q || go l' seen_ref
        end) body sr = false ->
     let met := (fix rf (l : list (kind * rule)) {struct l} : tree :=
                   match l with
                   | [] => Leaf 0 cs (tag_list tg)
                   | (KRef, q) :: l' => Node 0 SExc (rf l') (tlevel KAlt q None)
                   | _ :: l' => rf l'
                   end) body in
     let exc := (fix rf (l : list (kind * rule)) (s : lstate) {struct l} : lstate :=
                   match l with
                   | [] => s
                   | (KRef, q) :: l' => rf l' (level e KAlt q s)
                   | _ :: l' => rf l' s
                   end) body s0 in
     fires met e = holds e cs /\
     (s0 = (false, []) -> holds e cs = true -> seteq (Tg met e) (if fst exc then snd exc else tag_list tg)) /\
     (fst s0 = true -> sr = true -> exc = s0)).
  { clear Hrel Hn. induction body as [|[k0 q] body IHb]; intros sr s0 Hgo.
    - cbn zeta. cbn [fires Tg]. split; [reflexivity|]. split; [|reflexivity].
      intros -> Hh. rewrite Hh. cbn [fst]. apply seteq_refl.
    - inversion IH as [|? ? Hq Hrest]; subst. simpl in Hq. specialize (IHb Hrest).
      destruct k0.
      + (* a refinement q *)
        apply orb_false_iff in Hgo. destruct Hgo as [Hgo Hgo2]. apply orb_false_iff in Hgo. destruct Hgo as [Hsr Hlq].
        destruct (IHb true (level e KAlt q s0) Hgo2) as [I1 [I2 I3]].
        destruct (IHb true (false, []) Hgo2) as [_ [I2' _]].
        pose proof (Hq Hlq KAlt None (false, []) eq_refl) as Hrq. cbn [rel2] in Hrq. destruct Hrq as [Hqf Hqs].
        cbn zeta in *.
        set (rest := (fix rf (l : list (kind * rule)) {struct l} : tree := _) body) in *.
        cbn [fires Tg]. rewrite I1. split; [reflexivity|]. split.
        * intros -> Hh. rewrite Hh.
          destruct (fires (tlevel KAlt q None) e) eqn:Fq.
          -- (* q fires: it wins, whatever comes after *)
             rewrite (I3 Hqf eq_refl). rewrite Hqf. intros x. symmetry. apply Hqs.
          -- (* q does not fire: as if it were not there *)
             assert (Esq : level e KAlt q (false, []) = (false, [])).
             { destruct (level e KAlt q (false, [])) as [sf sc]. cbn [fst snd] in *. subst sf. f_equal.
               apply seteq_nil. rewrite (Tg_nofire _ _ Fq) in Hqs. exact Hqs. }
             rewrite Esq. apply I2'; [reflexivity|exact Hh].
        * intros Hf0 ->. destruct s0 as [sf sc]. cbn [fst] in Hf0. subst sf.
          cbn [andb] in Hsr. rewrite (level_fired_nl e q Hsr KAlt sc) by discriminate.
          destruct (IHb true (true, sc) Hgo2) as [_ [_ I3']]. apply I3'; reflexivity.
      + apply orb_false_iff in Hgo. destruct Hgo as [_ Hgo2]. apply (IHb sr s0 Hgo2).
      + apply orb_false_iff in Hgo. destruct Hgo as [_ Hgo2]. apply (IHb sr s0 Hgo2). }
  (* the siblings *)
  pose proof (later_all body false Hn) as Hall.
  assert (Hsib : forall t0 st0, rel2 e (Some t0) st0 ->
     rel2 e (Some ((fix sib (l : list (kind * rule)) (t : tree) {struct l} : tree :=
               match l with
               | [] => t
               | (KRef, _) :: l' => sib l' t
               | (k', q) :: l' => sib l' (tlevel k' q (Some t))
               end) body t0))
           ((fix sib (l : list (kind * rule)) (s : lstate) {struct l} : lstate :=
               match l with
               | [] => s
               | (KRef, _) :: l' => sib l' s
               | (k', q) :: l' => sib l' (level e k' q s)
               end) body st0)).
  { clear Hrel Hme Hn. induction body as [|[k0 q] body IHb]; intros t0 st0 H0; [exact H0|].
    inversion IH as [|? ? Hq Hrest]; subst. inversion Hall as [|? ? Hlq Hallrest]; subst. simpl in Hq, Hlq.
    destruct k0.
    - apply IHb; assumption.
    - apply IHb; try assumption. apply Hq; assumption.
    - apply IHb; try assumption. apply Hq; assumption. }
  cbn [tlevel level]. apply Hsib. clear Hsib.
  destruct (Hme false (false, []) Hn) as [Hme1 [Hme2' _]]. clear Hme.
  cbn zeta in *.
  set (me := (fix rf (l : list (kind * rule)) {struct l} : tree := _) body) in *.
  set (exc_s := (fix rf (l : list (kind * rule)) (s : lstate) {struct l} : lstate := _) body (false, [])) in *.
  set (mine := if fst exc_s then snd exc_s else tag_list tg) in *.
  assert (Hme2 : holds e cs = true -> seteq (Tg me e) mine) by (apply Hme2'; reflexivity).
  assert (Hme0 : holds e cs = false -> Tg me e = []) by (intros Hh; apply Tg_nofire; rewrite Hme1; exact Hh).
  destruct a as [ta|]; cbn [rel2] in Hrel.
  - destruct Hrel as [Hf Hs]. destruct st as [sf sc]. cbn [fst snd] in *. subst sf.
    destruct k; cbn [sel_of].
    + (* entered as a refinement head with siblings before it: as ElseIf *)
      cbn [rel2 fires Tg]. rewrite Hme1.
      destruct (fires ta e) eqn:Fa; cbn [negb andb orb].
      * split; [reflexivity|exact Hs].
      * rewrite (Tg_nofire _ _ Fa) in Hs. apply seteq_nil in Hs. subst sc.
        destruct (holds e cs) eqn:Hh; cbn [fst snd app].
        -- split; [reflexivity|]. intros x. symmetry. apply (Hme2 eq_refl).
        -- split; [reflexivity|]. rewrite (Hme0 eq_refl). apply seteq_refl.
    + cbn [rel2 fires Tg]. rewrite Hme1.
      destruct (fires ta e) eqn:Fa; cbn [negb andb orb].
      * split; [reflexivity|exact Hs].
      * rewrite (Tg_nofire _ _ Fa) in Hs. apply seteq_nil in Hs. subst sc.
        destruct (holds e cs) eqn:Hh; cbn [fst snd app].
        -- split; [reflexivity|]. intros x. symmetry. apply (Hme2 eq_refl).
        -- split; [reflexivity|]. rewrite (Hme0 eq_refl). apply seteq_refl.
    + (* a next_rule: fires whenever its conditions hold *)
      cbn [rel2 fires Tg]. rewrite Hme1. cbn [andb].
      destruct (holds e cs) eqn:Hh; cbn [fst snd].
      * rewrite orb_true_r. split; [reflexivity|].
        destruct (fires ta e) eqn:Fa.
        -- intros x. rewrite !in_app_iff. rewrite (Hs x). rewrite (Hme2 eq_refl x). tauto.
        -- rewrite (Tg_nofire _ _ Fa) in Hs. apply seteq_nil in Hs. subst sc. cbn [app]. intros x. symmetry. apply (Hme2 eq_refl).
      * rewrite orb_false_r. split; [reflexivity|]. rewrite (Hme0 eq_refl).
        destruct (fires ta e) eqn:Fa.
        -- rewrite app_nil_r. exact Hs.
        -- rewrite (Tg_nofire _ _ Fa) in Hs. exact Hs.
  - subst st.
    assert (Hmay : match k with KNext => true | _ => negb (fst (false, @nil nat)) end = true) by (destruct k; reflexivity).
    rewrite Hmay. cbn [rel2 andb]. rewrite Hme1.
    destruct (holds e cs) eqn:Hh; cbn [fst snd app].
    + split; [reflexivity|]. intros x. symmetry. apply (Hme2 eq_refl).
    + split; [reflexivity|]. rewrite (Hme0 eq_refl). apply seteq_refl.
Qed.

(* the summary of the written tree is the Spec, per element, as a set of conclusions *)
Theorem tree_is_rdr_next prog e : later_ref_next prog = false ->
  forall tg, In tg (rdr1 prog e) <-> In tg (Tg (tree_of prog) e).
Proof.
  intros Hn. destruct (level_ok2 e prog Hn KAlt None (false, []) eq_refl) as [_ Hs]. exact Hs.
Qed.

Lemma fires_erase t e : fires (erase t) e = fires t e.
Proof. induction t as [|i s l IHl r IHr]; simpl; [reflexivity|]. rewrite IHl, IHr. reflexivity. Qed.
Lemma Tg_erase t e : Tg (erase t) e = Tg t e.
Proof. induction t as [|i s l IHl r IHr]; simpl; [reflexivity|]. rewrite IHl, IHr, !fires_erase. reflexivity. Qed.

Lemma in_insts1_trows1 rows tg i :
  In (tg, i) (insts1 (trows1 rows)) <-> exists y, In y rows /\ rtrue y = true /\ In tg (snd (fst y)) /\ i = fst (snd y).
Proof.
  unfold insts1, trows1. rewrite in_flat_map. split.
  - intros [r0 [Hr0 Hin]]. apply in_map_iff in Hr0. destruct Hr0 as [y [<- Hy]]. apply filter_In in Hy. destruct Hy as [Hy Ht].
    cbn [fst snd] in Hin. apply in_map_iff in Hin. destruct Hin as [tg' [E Hin]]. inversion E; subst. exists y. auto.
  - intros [y [Hy [Ht [Hin ->]]]]. exists (snd (fst y), fst (snd y)). split.
    + apply in_map_iff. exists y. split; [reflexivity|]. apply filter_In. auto.
    + cbn [fst snd]. apply in_map_iff. exists tg. auto.
Qed.

(* C08 for one-variable programs with next_rule ANYWHERE (nested in a branch, not last, several, with alternatives or
   next_rules in its own block), outside the unsettled class: the instances inferred by the run of the built query are,
   as a set, the Spec's *)
Theorem rules_next_all prog : later_ref_next prog = false -> forall W,
  exists rows, model prog W = Some rows /\ forall x, In x (insts1 rows) <-> In x (rdr prog W).
Proof.
  intros Hn W. destruct (build_written prog) as [h [t [Hb [Hr [He Hnd]]]]].
  unfold model. rewrite Hb, Hr. eexists. split; [reflexivity|].
  intros [tg i]. rewrite (run_all W t Hnd (tg, i)). rewrite in_insts1_trows1.
  unfold rdr. rewrite in_flat_map. split.
  - intros [y [Hy [Ht [Hin ->]]]]. apply pes1_unbound in Hy. destruct Hy as [ie [Hie Hy]].
    destruct (summ_all W t ie) as [_ [Hu Htg]]. destruct (Hu y Hy) as [Ey _].
    exists ie. split; [exact Hie|]. rewrite Ey. apply in_map_iff. exists tg. split; [reflexivity|].
    apply (tree_is_rdr_next prog (snd ie) Hn). rewrite <- He, Tg_erase. apply Htg. exists y. auto.
  - intros [ie [Hie Hin]]. apply in_map_iff in Hin. destruct Hin as [tg' [E Hin]]. inversion E; subst. clear E.
    apply (tree_is_rdr_next prog (snd ie) Hn) in Hin. rewrite <- He, Tg_erase in Hin.
    destruct (summ_all W t ie) as [_ [Hu Htg]]. apply Htg in Hin. destruct Hin as [y [Hy [Ht Hin]]].
    destruct (Hu y Hy) as [Ey _]. exists y. split; [apply pes1_unbound; exists ie; auto|]. rewrite Ey. auto.
Qed.

(* ---- a witness outside all earlier fragments: next_rule nested in a refinement's block (two of them, the first with an
   alternative of its own), a top-level next_rule that is not last and has a refinement, then an alternative ---- *)
Definition w_next_nested : rule :=
  Rule [Atom 0 CLe (RConst 6%Z)] (Some 0)
   [ (KRef, Rule [Atom 0 CGe (RConst 2%Z)] (Some 1)
                 [ (KNext, Rule [Atom 0 CGe (RConst 3%Z)] (Some 2) [(KAlt, Rule [Atom 0 CEq (RConst 2%Z)] (Some 5) [])]);
                   (KNext, Rule [Atom 0 CLe (RConst 4%Z)] (Some 3) []) ]);
     (KNext, Rule [Atom 0 CGe (RConst 5%Z)] (Some 4) [(KRef, Rule [Atom 0 CEq (RConst 6%Z)] (Some 6) [])]);
     (KAlt, Rule [Atom 0 CEq (RConst 7%Z)] (Some 7) []) ].
Definition W8n : list elem := [(0,0); (1,0); (2,0); (3,0); (4,0); (5,0); (6,0); (7,0)]%Z.
Lemma next_all_nonvacuous :
  later_ref_next w_next_nested = false /\ Fx w_next_nested = false /\
  rdr w_next_nested W8n
  = [(3, 0); (3, 1); (1, 2); (3, 2); (1, 3); (2, 3); (3, 3); (1, 4); (2, 4); (3, 4); (1, 5); (2, 5); (4, 5);
     (1, 6); (2, 6); (6, 6); (4, 7)] /\
  option_map insts1 (model w_next_nested W8n)
  = Some [(3, 0); (3, 1); (1, 2); (3, 2); (1, 3); (2, 3); (3, 3); (1, 4); (2, 4); (3, 4); (1, 5); (2, 5);
          (1, 6); (2, 6); (4, 7); (4, 5); (6, 6)].
Proof. vm_compute. repeat split. Qed.
