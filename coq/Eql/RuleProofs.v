(* C08: proofs.  Part A: comparison of outcomes and the refutation witnesses (vm_compute).
   Part B (below): the evaluator is right on every properly built tree. *)
From Coq Require Import List ZArith Bool Arith Lia Permutation.
From Krrood Require Import Eql.RuleSpec Eql.RuleEval Eql.RuleBuild Eql.RulePure Eql.RuleEvalProofs Eql.RuleSpecProofs.
Import ListNotations.

(* ---- comparing a model outcome with the Spec's ---- *)
Definition single (r : list nat * nat) : option (nat * nat) :=
  match fst r with [t] => Some (t, snd r) | _ => None end.
Fixpoint singles (rows : list (list nat * nat)) : option (list (nat * nat)) :=
  match rows with
  | [] => Some []
  | r :: rows' => match single r, singles rows' with
                  | Some x, Some xs => Some (x :: xs)
                  | _, _ => None
                  end
  end.
Definition pair_eqb (a b : nat * nat) : bool := Nat.eqb (fst a) (fst b) && Nat.eqb (snd a) (snd b).
Fixpoint remove1 (x : nat * nat) (l : list (nat * nat)) : option (list (nat * nat)) :=
  match l with
  | [] => None
  | y :: l' => if pair_eqb x y then Some l'
               else match remove1 x l' with Some r => Some (y :: r) | None => None end
  end.
Fixpoint mseteqb (a b : list (nat * nat)) : bool :=
  match a with
  | [] => match b with [] => true | _ => false end
  | x :: a' => match remove1 x b with Some b' => mseteqb a' b' | None => false end
  end.
(* the model's run produced exactly the Spec's instances (as a multiset) *)
Definition agrees (prog : rule) (W : list elem) : bool :=
  match model prog W with
  | Some rows => match singles rows with Some xs => mseteqb xs (rdr prog W) | None => false end
  | None => false
  end.

(* ---- witnesses ---- *)
Definition cnd (op : cmp) (k : Z) : list atom := [Atom 0 op (RConst k)].
Definition leafr (op : cmp) (k : Z) (t : nat) : rule := Rule (cnd op k) (Some t) [].
Definition W8 : list elem := [(0,0); (1,0); (2,0); (3,0); (4,0); (5,0); (6,0); (7,0)]%Z.

(* C08-a: three alternatives in a chain: the third replaces the second *)
Definition w_alt3 := Rule (cnd CEq 0) (Some 0) [(KAlt, leafr CEq 1 1); (KAlt, leafr CEq 2 2); (KAlt, leafr CEq 3 3)].
(* C08-b: a refinement inside a refinement / inside an alternative is never evaluated *)
Definition w_refref := Rule (cnd CLe 5) (Some 0) [(KRef, Rule (cnd CGe 2) (Some 1) [(KRef, leafr CEq 3 2)])].
Definition w_altref := Rule (cnd CLe 1) (Some 0) [(KAlt, Rule (cnd CLe 4) (Some 1) [(KRef, leafr CEq 3 2)])].
(* C08-c: a second refinement at one level / a refinement written after an alternative is ignored *)
Definition w_ref2 := Rule (cnd CLe 3) (Some 0) [(KRef, leafr CEq 1 1); (KRef, leafr CEq 2 2)].
Definition w_alt_ref := Rule (cnd CLe 3) (Some 0) [(KAlt, leafr CEq 5 2); (KRef, leafr CEq 1 1)].
(* C08-d/e: next_rule on a binding for which an earlier branch concluded *)
Definition w_next := Rule (cnd CLe 1) (Some 0) [(KNext, Rule (cnd CGe 1 ++ cnd CLe 2) (Some 1) [])].
Definition w_alt_next := Rule (cnd CLe 1) (Some 0) [(KAlt, leafr CEq 3 1); (KNext, Rule (cnd CGe 1 ++ cnd CLe 3) (Some 2) [])].

Definition model_tags (prog : rule) (W : list elem) : list (nat * nat) :=
  match model prog W with Some rows => match singles rows with Some xs => xs | None => [] end | None => [] end.

(* C08-a/b/c were defects of the surgery before commit 4511011; on the current code these programs are in the
   fragment and the model's run is the Spec's answer (regression witnesses) *)
Lemma fixed_surgery :
  (Fb w_alt3 = true /\ agrees w_alt3 W8 = true /\ In (2, 2) (model_tags w_alt3 W8)) /\
  (Fb w_refref = true /\ agrees w_refref W8 = true /\ In (2, 3) (model_tags w_refref W8)) /\
  (Fb w_altref = true /\ agrees w_altref W8 = true /\ In (2, 3) (model_tags w_altref W8)) /\
  (Fb w_ref2 = true /\ agrees w_ref2 W8 = true /\ In (2, 2) (model_tags w_ref2 W8)) /\
  (Fb w_alt_ref = true /\ agrees w_alt_ref W8 = true /\ In (1, 1) (model_tags w_alt_ref W8)).
Proof.
  repeat match goal with |- _ /\ _ => split end;
    first [vm_compute; reflexivity | vm_compute; tauto].
Qed.
(* C08-d/e (next_rule dropped for a binding an earlier branch concluded; repaired by /repo 35fa150) and C08-g
   (alternative after a next_rule fired for bindings whose earlier branch fired; repaired by /repo 6dfdafd):
   regression witnesses -- the tree is the written one and the model's run is the Spec's answer *)
Definition w_next_alt := Rule (cnd CLe 1) None [(KNext, leafr CEq 3 1); (KAlt, leafr CLe 4 2)].
Lemma fixed_next :
  (Gb w_next = true /\ agrees w_next W8 = true /\ In (1, 1) (model_tags w_next W8)) /\
  (Gb w_alt_next = true /\ agrees w_alt_next W8 = true /\ In (2, 1) (model_tags w_alt_next W8)) /\
  (Gb w_next_alt = true /\ agrees w_next_alt W8 = true /\ ~ In (2, 0) (model_tags w_next_alt W8)).
Proof.
  repeat match goal with |- _ /\ _ => split end;
    first [vm_compute; reflexivity | vm_compute; tauto | vm_compute; intuition congruence].
Qed.

(* the reading the property text does not settle: next_rule in the level of a second sibling refinement while the
   first sibling refinement fires.  Spec: W3 for element 1 in addition; tree (and implementation): the first refinement
   overrides everything written after it.  Not a finding; such programs are outside the fragment. *)
Definition w_unsettled :=
  Rule (cnd CLe 3) (Some 0) [(KRef, leafr CEq 1 1); (KRef, Rule (cnd CGe 1) (Some 2) [(KNext, leafr CLe 2 3)])].
Lemma unsettled_reading :
  later_ref_next w_unsettled = true /\ Gb w_unsettled = true /\
  In (3, 1) (rdr w_unsettled W8) /\ ~ In (3, 1) (model_tags w_unsettled W8) /\ In (3, 2) (model_tags w_unsettled W8).
Proof.
  repeat match goal with |- _ /\ _ => split end;
    first [vm_compute; reflexivity | vm_compute; tauto | vm_compute; intuition congruence].
Qed.

(* ---- Part B: assembling the theorem on the fragment ---- *)
Lemma list_eqb_eq {A} (eqb : A -> A -> bool) (Heq : forall x y, eqb x y = true -> x = y) :
  forall a b, list_eqb eqb a b = true -> a = b.
Proof.
  induction a as [|x a IH]; intros [|y b]; simpl; intros H; try discriminate; [reflexivity|].
  apply andb_prop in H. destruct H as [H1 H2]. f_equal; [apply Heq; exact H1|apply IH; exact H2].
Qed.
Lemma atom_eqb_eq a b : atom_eqb a b = true -> a = b.
Proof.
  destruct a as [a1 o1 r1], b as [a2 o2 r2]. unfold atom_eqb. simpl. intros H.
  apply andb_prop in H. destruct H as [H H3]. apply andb_prop in H. destruct H as [H1 H2].
  apply Nat.eqb_eq in H1. subst.
  assert (o1 = o2) by (destruct o1, o2; simpl in H2; congruence). subst.
  destruct r1, r2; simpl in H3; try discriminate.
  - apply Z.eqb_eq in H3. subst. reflexivity.
  - apply Nat.eqb_eq in H3. subst. reflexivity.
Qed.
Lemma tree_eqb_eq a : forall b, tree_eqb a b = true -> a = b.
Proof.
  induction a as [i cs c|i s l IHl r IHr]; intros [j ds d|j s' l' r']; simpl; intros H; try discriminate.
  - apply andb_prop in H. destruct H as [H H3]. apply andb_prop in H. destruct H as [H1 H2].
    apply Nat.eqb_eq in H1. apply (list_eqb_eq _ atom_eqb_eq) in H2.
    apply (list_eqb_eq _ (fun x y => proj1 (Nat.eqb_eq x y))) in H3. subst. reflexivity.
  - apply andb_prop in H. destruct H as [H H4]. apply andb_prop in H. destruct H as [H H3].
    apply andb_prop in H. destruct H as [H1 H2]. apply Nat.eqb_eq in H1.
    assert (s = s') by (destruct s, s'; simpl in H2; congruence).
    apply IHl in H3. apply IHr in H4. subst. reflexivity.
Qed.
Lemma nodupb_nodup l : nodupb l = true -> NoDup l.
Proof.
  induction l as [|x l IH]; simpl; intros H; [constructor|].
  apply andb_prop in H. destruct H as [H1 H2]. constructor; [|apply IH; exact H2].
  intro Hin. apply negb_true_iff in H1. unfold memb in H1.
  assert (existsb (Nat.eqb x) l = true) by (apply existsb_exists; exists x; split; [exact Hin|apply Nat.eqb_refl]).
  congruence.
Qed.
Lemma pe_erase t e : pe (erase t) e = pe t e.
Proof.
  induction t as [i cs c|i s l IHl r IHr]; simpl; [reflexivity|]. rewrite IHl, IHr. reflexivity.
Qed.
Lemma nextfree_erase t : nextfree (erase t) = nextfree t.
Proof.
  induction t as [i cs c|i s l IHl r IHr]; simpl; [reflexivity|]. rewrite IHl, IHr. reflexivity.
Qed.

(* what Gb says *)
Lemma Gb_spec prog : Gb prog = true ->
  exists h t, build prog = Some h /\ reify h = Some t /\ erase t = tree_of prog /\ NoDup (ids t).
Proof.
  unfold Gb. destruct (build prog) as [h|] eqn:Eb; [|discriminate]. destruct (reify h) as [t|] eqn:Er; [|discriminate].
  intros H. apply andb_prop in H. destruct H as [H1 H2]. exists h, t. split; [reflexivity|]. split; [exact Er|].
  split; [apply tree_eqb_eq; exact H1|apply nodupb_nodup; exact H2].
Qed.

Lemma singles_rows t (prog : rule) : erase t = tree_of prog -> has_next prog = false -> forall l,
  singles (flat_map (rows1 t) l)
  = Some (flat_map (fun ie => map (fun tg => (tg, fst ie)) (rdr1 prog (snd ie))) l).
Proof.
  intros He Hn. induction l as [|[i e] l IH]; [reflexivity|].
  simpl flat_map. destruct (pe_tree_of prog e Hn) as [_ [Hr Hl]].
  rewrite <- He, pe_erase in Hr. unfold rows1 in *. simpl snd. simpl fst.
  destruct (pe t e) as [f c]. simpl in Hr. destruct f.
  - rewrite Hr. cbn [app map]. exact IH.
  - rewrite Hr in *. destruct c as [|x [|y c]]; simpl in Hl; try lia.
    + cbn [app map]. exact IH.
    + cbn [app map singles single fst snd]. rewrite IH. reflexivity.
Qed.

(* C08 on the fragment: the model's run yields exactly the Spec's instances, each built from its own element *)
Theorem rules_ok prog : Fb prog = true -> forall W,
  exists rows, model prog W = Some rows /\ singles rows = Some (rdr prog W).
Proof.
  unfold Fb. intros H W. apply andb_prop in H. destruct H as [HG Hn]. apply negb_true_iff in Hn.
  destruct (Gb_spec prog HG) as [h [t [Hb [Hr [He Hnd]]]]].
  unfold model. rewrite Hb, Hr. eexists. split; [reflexivity|].
  assert (Hnf : nextfree t = true).
  { rewrite <- nextfree_erase, He. apply (pe_tree_of prog (0, 0)%Z Hn). }
  rewrite (run_nextfree W t Hnf Hnd). unfold rdr. apply singles_rows; assumption.
Qed.

Lemma mseteqb_refl l : mseteqb l l = true.
Proof.
  induction l as [|x l IH]; [reflexivity|]. simpl. unfold pair_eqb. rewrite !Nat.eqb_refl. simpl. exact IH.
Qed.
Corollary rules_agree prog : Fb prog = true -> forall W, agrees prog W = true.
Proof.
  intros H W. destruct (rules_ok prog H W) as [rows [Hm Hs]]. unfold agrees. rewrite Hm, Hs. apply mseteqb_refl.
Qed.

(* ---- every written branch is a leaf of the intended tree ---- *)
Fixpoint leaves (t : tree) : list (list atom * list nat) :=
  match t with Leaf _ cs c => [(cs, c)] | Node _ _ l r => leaves l ++ leaves r end.
Definition oleaves (a : option tree) := match a with Some t => leaves t | None => [] end.
Definition leaf_of (r : rule) := (r_conds r, tag_list (r_tag r)).

Lemma leaves_erase t : leaves (erase t) = leaves t.
Proof. induction t as [|i s l IHl r IHr]; simpl; [reflexivity|]. rewrite IHl, IHr. reflexivity. Qed.

Lemma tlevel_leaves r : forall k a,
  incl (oleaves a) (leaves (tlevel k r a)) /\
  forall q, In q (rules_of r) -> In (leaf_of q) (leaves (tlevel k r a)).
Proof.
  induction r as [cs tg body IH] using rule_ind'. intros k a.
  assert (Hexc :
     In (cs, tag_list tg) (leaves ((fix rf (l : list (kind * rule)) {struct l} : tree :=
                   match l with
                   | [] => Leaf 0 cs (tag_list tg)
                   | (KRef, q) :: l' => Node 0 SExc (rf l') (tlevel KAlt q None)
                   | _ :: l' => rf l'
                   end) body)) /\
     forall k0 q0 q, In (k0, q0) body -> k0 = KRef -> In q (rules_of q0) ->
        In (leaf_of q) (leaves ((fix rf (l : list (kind * rule)) {struct l} : tree :=
                   match l with
                   | [] => Leaf 0 cs (tag_list tg)
                   | (KRef, q) :: l' => Node 0 SExc (rf l') (tlevel KAlt q None)
                   | _ :: l' => rf l'
                   end) body))).
  { induction body as [|[k0 q0] body IHb].
    - split; [simpl; auto|intros ? ? ? []].
    - inversion IH as [|? ? Hq Hrest]; subst. specialize (IHb Hrest). simpl in Hq. destruct IHb as [I1 I2].
      destruct k0.
      + destruct (Hq KAlt None) as [_ Q2]. split.
        * cbn [leaves]. apply in_or_app. left. exact I1.
        * intros k1 q1 q [E|Hin] Hk Hq1.
          -- inversion E; subst. cbn [leaves]. apply in_or_app. right. apply Q2. exact Hq1.
          -- cbn [leaves]. apply in_or_app. left. eapply I2; eauto.
      + split; [exact I1|].
        intros k1 q1 q [E|Hin] Hk Hq1; [inversion E; subst; discriminate|eapply I2; eauto].
      + split; [exact I1|].
        intros k1 q1 q [E|Hin] Hk Hq1; [inversion E; subst; discriminate|eapply I2; eauto]. }
  assert (Hsib : forall t0,
     incl (leaves t0) (leaves ((fix sib (l : list (kind * rule)) (t : tree) {struct l} : tree :=
               match l with
               | [] => t
               | (KRef, _) :: l' => sib l' t
               | (k', q) :: l' => sib l' (tlevel k' q (Some t))
               end) body t0)) /\
     forall k0 q0 q, In (k0, q0) body -> k0 <> KRef -> In q (rules_of q0) ->
        In (leaf_of q) (leaves ((fix sib (l : list (kind * rule)) (t : tree) {struct l} : tree :=
               match l with
               | [] => t
               | (KRef, _) :: l' => sib l' t
               | (k', q) :: l' => sib l' (tlevel k' q (Some t))
               end) body t0))).
  { clear Hexc. induction body as [|[k0 q0] body IHb]; intros t0.
    - split; [apply incl_refl|intros ? ? ? []].
    - inversion IH as [|? ? Hq Hrest]; subst. specialize (IHb Hrest). simpl in Hq.
      destruct k0.
      + destruct (IHb t0) as [I1 I2]. split; [exact I1|].
        intros k1 q1 q [E|Hin] Hk Hq1; [inversion E; subst; congruence|eapply I2; eauto].
      + destruct (IHb (tlevel KAlt q0 (Some t0))) as [I1 I2]. destruct (Hq KAlt (Some t0)) as [Q1 Q2]. split.
        * intros x Hx. apply I1. apply Q1. exact Hx.
        * intros k1 q1 q [E|Hin] Hk Hq1.
          -- inversion E; subst. apply I1. apply Q2. exact Hq1.
          -- eapply I2; eauto.
      + destruct (IHb (tlevel KNext q0 (Some t0))) as [I1 I2]. destruct (Hq KNext (Some t0)) as [Q1 Q2]. split.
        * intros x Hx. apply I1. apply Q1. exact Hx.
        * intros k1 q1 q [E|Hin] Hk Hq1.
          -- inversion E; subst. apply I1. apply Q2. exact Hq1.
          -- eapply I2; eauto. }
  cbn [tlevel].
  destruct Hexc as [Hleaf E2].
  set (me := (fix rf (l : list (kind * rule)) {struct l} : tree := _) body) in *.
  set (t0 := match a with None => me | Some a0 => Node 0 (sel_of k) a0 me end).
  destruct (Hsib t0) as [S1 S2]. clear Hsib.
  assert (Hme_in : incl (leaves me) (leaves t0)).
  { unfold t0. destruct a; simpl; [apply incl_appr|]; apply incl_refl. }
  split.
  - intros x Hx. apply S1. unfold t0. destruct a; simpl in *; [apply in_or_app; auto|destruct Hx].
  - intros q Hq. simpl in Hq. destruct Hq as [<-|Hq].
    + apply S1, Hme_in, Hleaf.
    + (* q is below some body element *)
      assert (Hex : exists k0 q0, In (k0, q0) body /\ In q (rules_of q0)).
      { clear - Hq. induction body as [|[k0 q0] body IHb]; [destruct Hq|].
        apply in_app_or in Hq. destruct Hq as [Hq|Hq].
        - exists k0, q0. split; [left; reflexivity|exact Hq].
        - destruct (IHb Hq) as [k1 [q1 [H1 H2]]]. exists k1, q1. split; [right; exact H1|exact H2]. }
      destruct Hex as [k0 [q0 [Hin Hq0]]].
      destruct k0.
      * apply S1, Hme_in. exact (E2 KRef q0 q Hin eq_refl Hq0).
      * eapply S2; eauto. discriminate.
      * eapply S2; eauto. discriminate.
Qed.

Theorem no_branch_ignored prog : Gb prog = true ->
  exists h t, build prog = Some h /\ reify h = Some t /\
              forall q, In q (rules_of prog) -> In (leaf_of q) (leaves t).
Proof.
  intros HG. destruct (Gb_spec prog HG) as [h [t [Hb [Hr [He _]]]]]. exists h, t. split; [exact Hb|]. split; [exact Hr|].
  intros q Hq. rewrite <- leaves_erase, He. apply (tlevel_leaves prog KAlt None). exact Hq.
Qed.

(* ---- the documented shapes are in the fragment, whatever their conditions and conclusions ---- *)
Definition built (prog : rule) : option tree :=
  match build prog with Some h => reify h | None => None end.
Lemma atom_eqb_refl a : atom_eqb a a = true.
Proof.
  destruct a as [a o r]. unfold atom_eqb. simpl. rewrite Nat.eqb_refl.
  assert (cmp_eqb o o = true) by (destruct o; reflexivity).
  assert (rhs_eqb r r = true) by (destruct r; simpl; [apply Z.eqb_refl|apply Nat.eqb_refl]).
  rewrite H, H0. reflexivity.
Qed.
Lemma list_eqb_refl {A} (eqb : A -> A -> bool) (Hr : forall x, eqb x x = true) l : list_eqb eqb l l = true.
Proof. induction l as [|x l IH]; simpl; [reflexivity|]. rewrite Hr, IH. reflexivity. Qed.
Lemma tree_eqb_refl t : tree_eqb t t = true.
Proof.
  induction t as [i cs c|i s l IHl r IHr]; simpl.
  - rewrite Nat.eqb_refl, (list_eqb_refl _ atom_eqb_refl), (list_eqb_refl _ Nat.eqb_refl). reflexivity.
  - rewrite Nat.eqb_refl, IHl, IHr. destruct s; reflexivity.
Qed.
Lemma Gb_intro prog t : built prog = Some t -> erase t = tree_of prog -> nodupb (ids t) = true -> Gb prog = true.
Proof.
  unfold built, Gb. destruct (build prog) as [h|]; [|discriminate]. intros -> <- ->.
  rewrite tree_eqb_refl. reflexivity.
Qed.

Ltac shape := intros; eapply Gb_intro; [cbv; reflexivity|cbv; reflexivity|reflexivity].

Theorem documented_shapes : forall c0 t0 c1 t1 c2 t2 c3 t3,
  Gb (Rule c0 t0 []) = true /\
  Gb (Rule c0 t0 [(KRef, Rule c1 t1 [])]) = true /\
  Gb (Rule c0 t0 [(KAlt, Rule c1 t1 [])]) = true /\
  Gb (Rule c0 t0 [(KAlt, Rule c1 t1 []); (KAlt, Rule c2 t2 [])]) = true /\
  Gb (Rule c0 t0 [(KRef, Rule c1 t1 []); (KAlt, Rule c2 t2 [])]) = true /\
  Gb (Rule c0 t0 [(KRef, Rule c1 t1 [(KAlt, Rule c2 t2 [])])]) = true /\
  Gb (Rule c0 t0 [(KRef, Rule c1 t1 [(KAlt, Rule c2 t2 []); (KAlt, Rule c3 t3 [])])]) = true /\
  Gb (Rule c0 t0 [(KRef, Rule c1 t1 [(KAlt, Rule c2 t2 [])]); (KAlt, Rule c3 t3 [])]) = true /\
  Gb (Rule c0 t0 [(KRef, Rule c1 t1 [(KRef, Rule c2 t2 []); (KAlt, Rule c3 t3 [])])]) = true /\
  Gb (Rule c0 t0 [(KAlt, Rule c1 t1 [(KAlt, Rule c2 t2 [(KAlt, Rule c3 t3 [])])])]) = true /\
  Gb (Rule c0 t0 [(KNext, Rule c1 t1 [])]) = true /\
  (* shapes that were built wrongly before commit 4511011 *)
  Gb (Rule c0 t0 [(KAlt, Rule c1 t1 []); (KAlt, Rule c2 t2 []); (KAlt, Rule c3 t3 [])]) = true /\
  Gb (Rule c0 t0 [(KRef, Rule c1 t1 [(KRef, Rule c2 t2 [])])]) = true /\
  Gb (Rule c0 t0 [(KAlt, Rule c1 t1 [(KRef, Rule c2 t2 [])])]) = true /\
  Gb (Rule c0 t0 [(KRef, Rule c1 t1 []); (KRef, Rule c2 t2 [])]) = true /\
  Gb (Rule c0 t0 [(KAlt, Rule c1 t1 []); (KRef, Rule c2 t2 [])]) = true /\
  Gb (Rule c0 t0 [(KRef, Rule c1 t1 []); (KRef, Rule c2 t2 []); (KAlt, Rule c3 t3 [])]) = true /\
  Gb (Rule c0 t0 [(KAlt, Rule c1 t1 []); (KRef, Rule c2 t2 []); (KAlt, Rule c3 t3 [])]) = true.
Proof. intros. destruct t0, t1, t2, t3; repeat split; shape. Qed.

(* non-vacuity: a program of the fragment with a refinement carrying an alternative, followed by an alternative *)
Definition ex_prog : rule :=
  Rule (cnd CLe 5) (Some 0)
       [(KRef, Rule (cnd CGe 2) (Some 1) [(KAlt, leafr CEq 1 2)]); (KAlt, leafr CEq 7 3)].
Lemma ex_nonvacuous :
  Fb ex_prog = true /\
  rdr ex_prog W8 = [(0, 0); (2, 1); (1, 2); (1, 3); (1, 4); (1, 5); (3, 7)] /\
  model_tags ex_prog W8 = rdr ex_prog W8.
Proof. repeat split; vm_compute; reflexivity. Qed.
