(* C08: proofs.  Part A: comparison of outcomes and the refutation witnesses (vm_compute).
   Part B (below): the evaluator is right on every properly built tree. *)
From Coq Require Import List ZArith Bool Arith Lia Permutation.
From Krrood Require Import Eql.RuleSpec Eql.RuleEval Eql.RuleBuild Eql.RulePure.
Import ListNotations.

(* ---- comparing a model outcome with the Spec's ---- *)
Definition single (r : list nat * nat) : option (nat * nat) :=
  match fst r with [t] => Some (t, snd r) | _ => None end.
Fixpoint singles (rows : list (list nat * nat)) : option (list (nat * nat)) :=
  match rows with
  | [] => Some []
  | r :: rows' => match single r, singles rows' with
                  | Some x, Some xs => Some (x :: xs)
                  | _, _ => None
                  end
  end.
Definition pair_eqb (a b : nat * nat) : bool := Nat.eqb (fst a) (fst b) && Nat.eqb (snd a) (snd b).
Fixpoint remove1 (x : nat * nat) (l : list (nat * nat)) : option (list (nat * nat)) :=
  match l with
  | [] => None
  | y :: l' => if pair_eqb x y then Some l'
               else match remove1 x l' with Some r => Some (y :: r) | None => None end
  end.
Fixpoint mseteqb (a b : list (nat * nat)) : bool :=
  match a with
  | [] => match b with [] => true | _ => false end
  | x :: a' => match remove1 x b with Some b' => mseteqb a' b' | None => false end
  end.
(* the model's run produced exactly the Spec's instances (as a multiset) *)
Definition agrees (prog : rule) (W : list elem) : bool :=
  match model prog W with
  | Some rows => match singles rows with Some xs => mseteqb xs (rdr prog W) | None => false end
  | None => false
  end.

(* ---- witnesses ---- *)
Definition cnd (op : cmp) (k : Z) : list atom := [Atom 0 op (RConst k)].
Definition leafr (op : cmp) (k : Z) (t : nat) : rule := Rule (cnd op k) (Some t) [].
Definition W8 : list elem := [(0,0); (1,0); (2,0); (3,0); (4,0); (5,0); (6,0); (7,0)]%Z.

(* C08-a: three alternatives in a chain: the third replaces the second *)
Definition w_alt3 := Rule (cnd CEq 0) (Some 0) [(KAlt, leafr CEq 1 1); (KAlt, leafr CEq 2 2); (KAlt, leafr CEq 3 3)].
(* C08-b: a refinement inside a refinement / inside an alternative is never evaluated *)
Definition w_refref := Rule (cnd CLe 5) (Some 0) [(KRef, Rule (cnd CGe 2) (Some 1) [(KRef, leafr CEq 3 2)])].
Definition w_altref := Rule (cnd CLe 1) (Some 0) [(KAlt, Rule (cnd CLe 4) (Some 1) [(KRef, leafr CEq 3 2)])].
(* C08-c: a second refinement at one level / a refinement written after an alternative is ignored *)
Definition w_ref2 := Rule (cnd CLe 3) (Some 0) [(KRef, leafr CEq 1 1); (KRef, leafr CEq 2 2)].
Definition w_alt_ref := Rule (cnd CLe 3) (Some 0) [(KAlt, leafr CEq 5 2); (KRef, leafr CEq 1 1)].
(* C08-d/e: next_rule on a binding for which an earlier branch concluded *)
Definition w_next := Rule (cnd CLe 1) (Some 0) [(KNext, Rule (cnd CGe 1 ++ cnd CLe 2) (Some 1) [])].
Definition w_alt_next := Rule (cnd CLe 1) (Some 0) [(KAlt, leafr CEq 3 1); (KNext, Rule (cnd CGe 1 ++ cnd CLe 3) (Some 2) [])].

Definition model_tags (prog : rule) (W : list elem) : list (nat * nat) :=
  match model prog W with Some rows => match singles rows with Some xs => xs | None => [] end | None => [] end.

Lemma refuted_alt3 : agrees w_alt3 W8 = false /\ In (2, 2) (rdr w_alt3 W8) /\ ~ In (2, 2) (model_tags w_alt3 W8).
Proof. split; [vm_compute; reflexivity|]. split; [vm_compute; tauto|]. vm_compute. intuition congruence. Qed.
Lemma refuted_ref_nested :
  (agrees w_refref W8 = false /\ In (2, 3) (rdr w_refref W8) /\ ~ In (2, 3) (model_tags w_refref W8)) /\
  (agrees w_altref W8 = false /\ In (2, 3) (rdr w_altref W8) /\ ~ In (2, 3) (model_tags w_altref W8)).
Proof.
  split; (split; [vm_compute; reflexivity|]; split; [vm_compute; tauto|]; vm_compute; intuition congruence).
Qed.
Lemma refuted_ref_second :
  (agrees w_ref2 W8 = false /\ In (2, 2) (rdr w_ref2 W8) /\ ~ In (2, 2) (model_tags w_ref2 W8)) /\
  (agrees w_alt_ref W8 = false /\ In (1, 1) (rdr w_alt_ref W8) /\ ~ In (1, 1) (model_tags w_alt_ref W8)).
Proof.
  split; (split; [vm_compute; reflexivity|]; split; [vm_compute; tauto|]; vm_compute; intuition congruence).
Qed.
Lemma refuted_next :
  (Gb w_next = true /\ agrees w_next W8 = false /\ In (1, 1) (rdr w_next W8) /\ ~ In (1, 1) (model_tags w_next W8)) /\
  (Gb w_alt_next = true /\ agrees w_alt_next W8 = false /\ In (2, 1) (rdr w_alt_next W8) /\ ~ In (2, 1) (model_tags w_alt_next W8)).
Proof.
  split; (split; [vm_compute; reflexivity|]; split; [vm_compute; reflexivity|]; split; [vm_compute; tauto|];
          vm_compute; intuition congruence).
Qed.
