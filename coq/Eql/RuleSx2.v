(* C08, two-variable programs: printing of model / spec outcomes for the correspondence check. *)
From Coq Require Import List ZArith Bool Arith.
From Krrood Require Import Base.Sx Eql.RuleSpec Eql.RuleSpec2 Eql.RuleEval Eql.RuleBuild Eql.RulePure Eql.RuleEval2 Eql.RuleEval2SpecProofs.
Import ListNotations. Open Scope nat_scope.

Definition selfun (l : list nat) (t : nat) : nat := nth t l 0.
Definition opt_sx (o : option nat) : sx := match o with Some n => SN n | None => SZ (-1)%Z end.

(* spec: list of [tag; c index or -1; b index or -1] *)
Definition spec2_sx (prog : rule) (sels : list nat) (Cs : list (Z * nat)) (Bs : list Z) : sx :=
  SL (map (fun x => SL [SN (fst (fst x)); opt_sx (snd (fst x)); opt_sx (snd x)]) (rdr2 (selfun sels) prog Cs Bs)).

(* model: [0; rows] with rows = [[tags selected at once]; c index; b index or -1]  |  [1] no tree *)
Definition model2_sx (prog : rule) (sels : list nat) (Cs : list (Z * nat)) (Bs : list Z) : sx :=
  match build prog with
  | Some h =>
      match reify h with
      | Some t =>
          SL [SZ 0; SL (map (fun r => SL [SL (map SN (fst r)); SN (fst (bc (snd r)));
                                          match bb (snd r) with Some (bi, _) => SN bi | None => SZ (-1)%Z end])
                            (run2 (selfun sels) Cs Bs t))]
      | None => SL [SZ 1]
      end
  | None => SL [SZ 1]
  end.

(* [in the fragment of C08_rules2; parents in range; next_rule in the level of a later sibling refinement (unsettled reading)] *)
Definition frag2_sx (prog : rule) (sels : list nat) (Cs : list (Z * nat)) (Bs : list Z) : sx :=
  SL [SN (if F2b (selfun sels) prog then 1 else 0); SN (if inrangeb Cs Bs then 1 else 0);
      SN (if later_ref_next prog then 1 else 0)].
