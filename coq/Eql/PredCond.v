(* C02 (predicate bridge) -- conditions whose atoms are comparisons OR calls of a boolean user function
   (a Predicate subclass / @symbolic_function applied to operands), with the logical operators of Eql/Eval.v.

     pcond       the condition syntax (quantifier-free; Eql/Syntax.v's [cond] embeds via [pinj])
     peval       code-faithful evaluator: the comparison atom is Eql/Eval.v's [ev_cmp]; the predicate atom is the
                 predicate-variable evaluation of symbolic.py (Variable._instantiate_using_child_vars_and_yield_results_
                 over _generate_combinations_for_child_vars_values_ as of 3f7e74b: nested loops over the arguments, each
                 evaluated under the bindings produced by the ones before it -- the same recursion as
                 Eql/PredEval.v's [combinations], here over Eql/Eval.v's operands and cons-bindings); AND / ElseIf /
                 Union / Not exactly as in Eql/Eval.v
     mk_por      or_ (optimize_or since 8c61b7d): ElseIf iff both sides RANGE over the same variables -- the results
                 of predicate / function calls are not counted, only the variables of their arguments
     psat        the first-order Spec
   The user's functions are a parameter [P]: [P p vals] = bool(result of calling function number p on vals). *)
From Coq Require Import List ZArith Bool Arith.
From Krrood Require Import Eql.Syntax Eql.Sat Eql.Eval.
Import ListNotations.

Inductive pcond : Type :=
| PCmp (op : cmpop) (l r : opnd)
| PPred (p : nat) (args : list opnd)
| PAnd (l r : pcond)
| PElseIf (l r : pcond)
| PUnion (l r : pcond)
| PNot (c : pcond).

Definition args_vars (es : list opnd) : list var := flat_map opnd_vars es.

(* the variables a condition ranges over *)
Fixpoint pcond_vars (c : pcond) : list var :=
  match c with
  | PCmp _ l r => opnd_vars l ++ opnd_vars r
  | PPred _ es => args_vars es
  | PAnd l r | PElseIf l r | PUnion l r => pcond_vars l ++ pcond_vars r
  | PNot c => pcond_vars c
  end.

Definition mk_por (l r : pcond) : pcond :=
  if same_vars (pcond_vars l) (pcond_vars r) then PElseIf l r else PUnion l r.
Definition mk_pand (l r : pcond) : pcond := PAnd l r.
Definition mk_pnot (c : pcond) : pcond := PNot c.

(* the quantifier-free conditions of Eql/Syntax.v are the predicate-free [pcond]s *)
Fixpoint pinj (c : cond) : pcond :=
  match c with
  | CCmp op l r => PCmp op l r
  | CAnd l r => PAnd (pinj l) (pinj r)
  | CElseIf l r => PElseIf (pinj l) (pinj r)
  | CUnion l r => PUnion (pinj l) (pinj r)
  | CNot c => PNot (pinj c)
  | CExists _ _ | CForAll _ _ => PPred 0 []      (* not in the image for quantifier-free conditions *)
  end.

Record pquery : Type := { pq_sels : list opnd; pq_cond : pcond }.
Definition pquery_vars (q : pquery) : list var := flat_map opnd_vars (pq_sels q) ++ pcond_vars (pq_cond q).

Section PEval.
  Variable W : world.
  Variable D : domains.
  Variable P : nat -> list val -> bool.

  (* the arguments of a call, left to right, each under the bindings of the one before: (bindings, values) *)
  Fixpoint ev_args (es : list opnd) (b : binds) : list (binds * list val) :=
    match es with
    | [] => [(b, [])]
    | e :: es' => flat_map (fun p : binds * val =>
                              map (fun q : binds * list val => (fst q, snd p :: snd q)) (ev_args es' (fst p)))
                           (ev_opnd W D e b)
    end.

  (* one result per combination: the function is called with the values; is_false = not bool(result) *)
  Definition ev_pred (p : nat) (es : list opnd) (b : binds) : list res :=
    map (fun q : binds * list val => (fst q, negb (P p (snd q)))) (ev_args es b).

  Fixpoint peval (c : pcond) (b : binds) : list res :=
    match c with
    | PCmp op l r => ev_cmp W D op l r b
    | PPred p es => ev_pred p es b
    | PAnd l r =>
        flat_map (fun p : res => if snd p then [(fst p, true)] else peval r (fst p)) (peval l b)
    | PElseIf l r =>
        flat_map (fun p : res => if snd p then peval r (fst p) else [(fst p, false)]) (peval l b)
    | PUnion l r =>
        flat_map (fun p : res => if snd p then peval r (fst p) else [(fst p, false)]) (peval l b)
        ++ filter (fun p : res => negb (snd p)) (peval r b)
    | PNot c => map (fun p : res => (fst p, negb (snd p))) (peval c b)
    end.

  Definition ptrue_results (c : pcond) : list binds :=
    map fst (filter (fun p : res => negb (snd p)) (peval c [])).

  Definition prun (q : pquery) : list (list val) :=
    flat_map (select W D (pq_sels q)) (ptrue_results (pq_cond q)).

  (* ---------- Spec ---------- *)
  Fixpoint psat (rho : asg) (c : pcond) : bool :=
    match c with
    | PCmp op l r => apply_op W op (den W rho l) (den W rho r)
    | PPred p es => P p (map (den W rho) es)
    | PAnd l r => psat rho l && psat rho r
    | PElseIf l r | PUnion l r => psat rho l || psat rho r
    | PNot c => negb (psat rho c)
    end.

  Definition panswer (q : pquery) (row : list val) : Prop :=
    exists rho, in_dom_on D (pquery_vars q) rho /\ psat rho (pq_cond q) = true /\
                row = map (den W rho) (pq_sels q).

  Definition panswers_exec (q : pquery) : list (list val) :=
    map (fun b => map (den W (asg_of b)) (pq_sels q))
        (filter (fun b => psat (asg_of b) (pq_cond q)) (assignments D (nodup Nat.eq_dec (pquery_vars q)))).
End PEval.
