(* C11 -- code-faithful model of match.py (what conditions a pattern is turned into) and of the evaluation of those
   conditions by symbolic.py (Attribute / Flatten / Comparator / HasType / Exists / AND / Entity).
   The boolean decisions (eight-way case split, type filter, flatten, resolved-or-not, entity_matching) are NOT written
   here: they come from Gen/Match.v, regenerated from match.py on every run.  Reading notes: DESIGN.md A.1, A.2, A.6.

   Nodes: match.py creates one Attribute node per (match variable, keyword) and at most one Flatten node above it, so a
   node is identified by its path from the root variable.  Bindings are keyed by node, exactly as `sources`. *)
From Coq Require Import List ZArith Bool Arith.
From Krrood Require Import Eql.Syntax Eql.MatchSpec Gen.Match.
Import ListNotations.

(* class model, given as data: issubclass, and per (owner class, attribute): WrappedField.is_iterable and type_endpoint *)
Record cmodel : Type := { sub : cls -> cls -> bool; f_iter : cls -> nat -> bool; f_type : cls -> nat -> option cls;
                          f_opt : cls -> nat -> bool (* WrappedField.is_optional *);
                          f_bcoll : cls -> nat -> bool (* a collection of builtin values, classified non-iterable *) }.

Inductive path : Type :=
| PRoot                          (* the variable let(T, domain) *)
| PAttr (q : path) (a : nat)     (* Attribute(q, a) *)
| PFlat (q : path).              (* Flatten(q) *)

Definition path_eq_dec (p q : path) : {p = q} + {p <> q}.
Proof. decide equality; apply Nat.eq_dec. Defined.

Inductive cop := OHas | OIn | OEq.   (* attribute value contains literal / literal contains attribute value / == *)

Inductive tcond : Type :=
| TCmp (ex : bool) (k : cop) (p : path) (v : val)   (* Comparator between node p and a Literal; ex: wrapped in exists(attr, .) *)
| THas (p : path) (T : cls)                          (* HasType(p, T) *)
| TVar (k : cop) (p : path) (v : val).               (* Comparator between node p and a let-variable with domain v *)

Definition is_some {A} (o : option A) : bool := match o with Some _ => true | None => false end.
Definition is_anil (l : alist) : bool := match l with ANil => true | _ => false end.
(* Python truthiness of the value given to match_any / match_all *)
Definition truthy (v : val) : bool :=
  match v with VI z => negb (Z.eqb z 0) | VO _ => true | VLI l => negb (Nat.eqb (length l) 0) | VLO l => negb (Nat.eqb (length l) 0) end.

Section Translate.
  Variable C : cmodel.

  Definition same_t (t d : option cls) : bool :=
    match t, d with Some T, Some D => Nat.eqb T D | None, None => true | _, _ => false end.
  Definition sub_t (t d : option cls) : bool :=
    match t, d with Some T, Some D => sub C T D | _, _ => false end.
  Definition sup_t (t d : option cls) : bool :=
    match t, d with Some T, Some D => sub C D T | _, _ => false end.
  Definition dflt (d : option cls) : cls := match d with Some D => D | None => O end.

  (* infer_condition_between_attribute_and_assigned_value on the attribute node pa *)
  Definition infer (ai vi im un ex : bool) (pa : path) (v : val) : tcond :=
    let e := infer_exists im ex in
    match infer_kind ai vi im un with
    | KContainsAttrVal => TCmp e OHas pa v
    | KInAttrVal => TCmp e OIn pa v
    | KContainsValFlat => TCmp e OIn (PFlat pa) v
    | KEq => TCmp e OEq pa v
    end.

  (* the value is a variable (CanBehaveLikeAVariable, not a Match): never wrapped in exists; is_iterable_value is
     Variable._is_iterable_ = "has a (non-empty) domain" *)
  Definition infer_var (ai vi : bool) (pa : path) (v : val) : tcond :=
    match infer_kind ai vi false false with
    | KContainsAttrVal => TVar OHas pa v
    | KInAttrVal => TVar OIn pa v
    | KContainsValFlat => TVar OIn (PFlat pa) v
    | KEq => TVar OEq pa v
    end.

  (* AttributeAssignment.resolve up to the nested conditions: the node the nested match is resolved on,
     the HasType condition if any *)
  Definition type_filter (oc : cls) (a : nat) (t : option cls) : bool :=
    let d := f_type C oc a in type_filter_needed (is_some d) (is_some t) (same_t t d) (sub_t t d) (sup_t t d) (f_opt C oc a).
  Definition nested_var (oc : cls) (p : path) (a : nat) (t : option cls) (kw : bool) : path :=
    if resolve_flatten (f_iter C oc a) kw (type_filter oc a t) then PFlat (PAttr p a) else PAttr p a.
  Definition nested_filter (oc : cls) (p : path) (a : nat) (t : option cls) (kw : bool) : list tcond :=
    if type_filter oc a t
    then [THas (nested_var oc p a t kw) (match t with Some T => T | None => dflt (f_type C oc a) end)]
    else [].

  (* a value given to match_any / match_all: entity_matching decides between a Literal variable and "a type" *)
  Definition tr_vals (oc : cls) (p : path) (a : nat) (v : val) (un ex : bool) : list tcond :=
    match em_kind false true (truthy v) false with
    | EmLiteral =>
        if unresolved true true then nested_filter oc p a None false    (* not reachable: a Literal variable is set *)
        else [infer (f_iter C oc a) true true un ex (PAttr p a) v]
    | _ =>
        (* Match(type_ = v) without a variable: resolved like match()() -- the value is never looked at again *)
        if unresolved true false then nested_filter oc p a None false
        else [infer (f_iter C oc a) true true un ex (PAttr p a) v]
    end.

  Fixpoint tr_pat (oc : cls) (p : path) (a : nat) (q : pat) {struct q} : list tcond :=
    match q with
    | Pat t l =>
        let kw := negb (is_anil l) in
        nested_filter oc p a t kw ++ tr_alist (dflt (f_type C oc a)) (nested_var oc p a t kw) l
    end
  with tr_alist (oc : cls) (p : path) (l : alist) {struct l} : list tcond :=
    match l with
    | ANil => []
    | ACons a c rest => tr_apat oc p a c ++ tr_alist oc p rest
    end
  with tr_apat (oc : cls) (p : path) (a : nat) (c : apat) {struct c} : list tcond :=
    match c with
    | PLit v => [infer (f_iter C oc a) (is_coll v) false false false (PAttr p a) v]
    | PMatch q => tr_pat oc p a q
    | PAny v => tr_vals oc p a v false true
    | PAll v => tr_vals oc p a v true false
    | PVar v => if unresolved false true then [] else [infer_var (f_iter C oc a) (truthy v) (PAttr p a) v]
    | PSel c' => tr_apat oc p a c'          (* Select is a Match: the conditions are the same *)
    end.

  (* Match._resolve / _update_fields / _update_selected_variables: the expressions selected by the keywords, in the
     order in which they are appended (a node is appended once).  For a keyword written with select...: the Attribute
     node itself (`_update_selected_variables(attr_assignment.attr)`), then -- when the nested match is resolved on the
     Flatten node above it -- that node (`_update_fields`: is_selected), then what the nested keywords select. *)
  Fixpoint sels_pat (s : bool) (oc : cls) (p : path) (a : nat) (q : pat) {struct q} : list path :=
    match q with
    | Pat t l =>
        let pv := nested_var oc p a t (negb (is_anil l)) in
        (if s then PAttr p a :: (match pv with PFlat _ => [pv] | _ => [] end) else [])
        ++ sels_alist (dflt (f_type C oc a)) pv l
    end
  with sels_alist (oc : cls) (p : path) (l : alist) {struct l} : list path :=
    match l with
    | ANil => []
    | ACons a c rest => sels_apat false oc p a c ++ sels_alist oc p rest
    end
  with sels_apat (s : bool) (oc : cls) (p : path) (a : nat) (c : apat) {struct c} : list path :=
    match c with
    | PMatch q => sels_pat s oc p a q
    | PAny _ | PAll _ => if s then [PAttr p a] else []
    | PSel c' => sels_apat true oc p a c'
    | PLit _ | PVar _ => []
    end.
  (* AttributeAssignment.attr: a keyword that is not a (wrapped) field of the class the match variable is DECLARED with
     raises NoneWrappedFieldError while the pattern is resolved -- also for an attribute only the matched subtype has *)
  Fixpoint unk_pat (oc : cls) (a : nat) (q : pat) {struct q} : bool :=
    match q with Pat _ l => unk_alist (dflt (f_type C oc a)) l end
  with unk_alist (oc : cls) (l : alist) {struct l} : bool :=
    match l with
    | ANil => false
    | ACons a c rest => negb (is_some (f_type C oc a)) || unk_apat oc a c || unk_alist oc rest
    end
  with unk_apat (oc : cls) (a : nat) (c : apat) {struct c} : bool :=
    match c with
    | PMatch q => unk_pat oc a q
    | PSel c' => unk_apat oc a c'
    | _ => false
    end.

  (* Match.expression: the root variable first if it was written with entity_selection; the root variable alone if
     nothing is selected *)
  Definition sels_root (rootsel : bool) (T : cls) (l : alist) : list path :=
    let inner := sels_alist T PRoot l in
    if rootsel then PRoot :: inner else match inner with [] => [PRoot] | _ => inner end.
End Translate.

(* ------------------------------------------------------------------ evaluation *)
Definition env := list (path * val).
Fixpoint lookup (e : env) (p : path) : option val :=
  match e with
  | [] => None
  | (q, v) :: e' => if path_eq_dec q p then Some v else lookup e' p
  end.
Definition res := (env * bool)%type.      (* OperationResult: bindings, is_false *)

(* Exists._evaluate__ (since ded4892 / 38657f3): false results skipped; one result per binding of the OTHER variables.
   For the conditions match.py builds, exists(attr, c), these are: the root variable (Attribute nodes and Literals are
   not variables) and the Flatten nodes in the chain of the quantified expression attr itself (not the Flatten that
   the condition puts on top of attr). *)
Definition qvar (pc : path) : path := match pc with PFlat q => q | _ => pc end.   (* attr, from the compared node *)
Fixpoint flats (p : path) : list path :=
  match p with PRoot => [] | PAttr q _ => flats q | PFlat q => p :: flats q end.
Definition exists_keys (pc : path) : list path := PRoot :: flats (qvar pc).
Definition key := list (option val).
Definition key_eq_dec (a b : key) : {a = b} + {a <> b}.
Proof. apply list_eq_dec. decide equality. apply val_eq_dec. Defined.
Definition keyof (ks : list path) (e : env) : key := map (lookup e) ks.

Fixpoint exists_scan (ks : list path) (seen : list key) (rs : list res) : list res :=
  match rs with
  | [] => []
  | (e, f) :: rs' =>
      if f then exists_scan ks seen rs'
      else let k := keyof ks e in
           if in_dec key_eq_dec k seen then exists_scan ks seen rs'
           else (e, false) :: exists_scan ks (k :: seen) rs'
  end.

Section Eval.
  Variable C : cmodel.
  Variable M : mworld.
  Variable D : list Z.              (* the values of the root variable: domain elements that are instances of T *)
  Let W := mw M.

  (* DomainMapping._evaluate__: bound node -> its binding; otherwise every value of the child, mapped *)
  Fixpoint eval_path (p : path) (e : env) {struct p} : list (env * val) :=
    match lookup e p with
    | Some v => [(e, v)]
    | None =>
        match p with
        | PRoot => map (fun o => ((PRoot, VO o) :: e, VO o)) D
        | PAttr q a => map (fun r : env * val => let v := getattr W (snd r) a in ((p, v) :: fst r, v)) (eval_path q e)
        | PFlat q => flat_map (fun r : env * val => map (fun x => ((p, x) :: fst r, x)) (elems (snd r))) (eval_path q e)
        end
    end.

  Definition cmp (k : cop) (av lit : val) : bool :=
    match k with
    | OHas => vmem M lit (elems av)
    | OIn => vmem M av (elems lit)
    | OEq => py_eq W av lit
    end.
  Definition isinst (v : val) (T : cls) : bool :=
    match v with VO o => sub C (otype M o) T | _ => false end.

  Definition eval (c : tcond) (e : env) : list res :=
    match c with
    | TCmp ex k p v =>
        let rs := map (fun r : env * val => (fst r, negb (cmp k (snd r) v))) (eval_path p e) in
        if ex then exists_scan (exists_keys p) [] rs else rs
    | THas p T => map (fun r : env * val => (fst r, negb (isinst (snd r) T))) (eval_path p e)
    | TVar _ _ _ => []       (* only the exception such a comparison raises is modelled: see [raises1] *)
    end.

  (* Comparator.apply_operation on (node value, a value x of the let-variable's domain): `value in x` raises TypeError
     when x is not a container -- which is the case for every domain of objects or ints *)
  Definition cmp_raises (k : cop) (x : val) : bool :=
    match k with OIn => negb (is_coll x) | OHas => false | OEq => false end.
  Definition raises1 (c : tcond) (e : env) : bool :=
    match c with
    | TVar k p v => match eval_path p e with [] => false | _ => existsb (cmp_raises k) (elems v) end
    | _ => false
    end.

  (* and_(c1, ..., cn) = AND(AND(c1, c2), ...): a false result is passed up without evaluating the right side *)
  Fixpoint eval_chain (acc : env -> list res) (cs : list tcond) : env -> list res :=
    match cs with
    | [] => acc
    | c :: cs' =>
        eval_chain (fun e => flat_map (fun r : res => if snd r then [(fst r, true)] else eval c (fst r)) (acc e)) cs'
    end.
  (* Entity: the true results of the conditions root; no condition: the empty bindings *)
  Definition true_envs (cs : list tcond) : list env :=
    match cs with
    | [] => [[]]
    | c :: cs' => map fst (filter (fun r : res => negb (snd r)) (eval_chain (eval c) cs' []))
    end.
  (* evaluate_selected_variables (lazy nested loops since 32abf51; one selected expression here, so one loop): the root
     variable evaluated under the result bindings -- its binding, or the whole domain when no condition bound it *)
  Definition select_root (e : env) : list Z :=
    flat_map (fun r : env * val => match snd r with VO o => [o] | _ => [] end) (eval_path PRoot e).

  Definition run_conds (cs : list tcond) : list Z := flat_map select_root (true_envs cs).

  (* evaluate_selected_variables (since 32abf51): lazy nested loops, every selected expression evaluated under the
     bindings the ones before it produced; a row is the list of their values *)
  Fixpoint sel_rows (sels : list path) (e : env) : list (list val) :=
    match sels with
    | [] => [[]]
    | s :: rest => flat_map (fun r : env * val => map (cons (snd r)) (sel_rows rest (fst r))) (eval_path s e)
    end.
  Definition run_rows_conds (sels : list path) (cs : list tcond) : list (list val) :=
    flat_map (sel_rows sels) (true_envs cs).

  (* None is the object 0 (no world object has this identity).  Attribute._apply_mapping_ = getattr(value, name) raises
     AttributeError on it: evaluating node p raises as soon as an unbound Attribute node on the way is applied to None *)
  Definition is_none (v : val) : bool := match v with VO o => Z.eqb o 0 | _ => false end.
  Fixpoint path_raises (p : path) (e : env) {struct p} : bool :=
    match lookup e p with
    | Some _ => false
    | None =>
        match p with
        | PRoot => false
        | PAttr q _ => path_raises q e || existsb (fun r : env * val => is_none (snd r)) (eval_path q e)
        | PFlat q => path_raises q e
        end
    end.
  Definition cond_path (c : tcond) : path := match c with TCmp _ _ p _ => p | THas p _ => p | TVar _ p _ => p end.
  Fixpoint araises_all (cs : list tcond) (e : env) : bool :=
    match cs with
    | [] => false
    | c :: cs' =>
        path_raises (cond_path c) e
        || existsb (araises_all cs') (map fst (filter (fun r : res => negb (snd r)) (eval c e)))
    end.

  (* does evaluating the conditions (all results are consumed) raise TypeError *)
  Fixpoint raises_all (cs : list tcond) (e : env) : bool :=
    match cs with
    | [] => false
    | c :: cs' =>
        raises1 c e || existsb (raises_all cs') (map fst (filter (fun r : res => negb (snd r)) (eval c e)))
    end.
End Eval.

(* an(entity_matching(T, domain)(a1 = .., ..)).evaluate(): let(T, domain) keeps the instances of T *)
Definition run (C : cmodel) (M : mworld) (T : cls) (l : alist) (dom : list Z) : list Z :=
  run_conds C M (filter (fun o => sub C (otype M o) T) dom) (tr_alist C T PRoot l).
(* an(entity_matching / entity_selection (T, domain)(a1 = .., ..)).evaluate() as rows of the selected expressions *)
Definition run_rows (C : cmodel) (M : mworld) (rootsel : bool) (T : cls) (l : alist) (dom : list Z) : list (list val) :=
  run_rows_conds C M (filter (fun o => sub C (otype M o) T) dom) (sels_root C rootsel T l) (tr_alist C T PRoot l).
Definition build_raises (C : cmodel) (T : cls) (l : alist) : bool := unk_alist C T l.
Definition run_araises (C : cmodel) (M : mworld) (T : cls) (l : alist) (dom : list Z) : bool :=
  araises_all C M (filter (fun o => sub C (otype M o) T) dom) (tr_alist C T PRoot l) [].
Definition run_raises (C : cmodel) (M : mworld) (T : cls) (l : alist) (dom : list Z) : bool :=
  raises_all C M (filter (fun o => sub C (otype M o) T) dom) (tr_alist C T PRoot l) [].
