(* C10 -- a repeated evaluation that needs only what is cached touches no generator, proved of the model:
   after n results were pulled from a query and the iterator was abandoned, pulling m <= n results from a fresh
   evaluation of the SAME query pulls no element and finishes no generator.
   Proof: the second run and a run from the empty log go through the same program in lockstep; wherever the first pulls,
   the second finds the element cached, because the log it started from extends the log of that shorter run. *)
From Coq Require Import List ZArith Bool Arith Lia.
From Krrood Require Import Eql.Syntax Eql.Sat Eql.Eval Eql.TraceSpec Eql.Trace Eql.TraceProofs.
Import ListNotations.
Open Scope nat_scope.

Lemma npulls_cons x e s : npulls x (e :: s) = (if is_pull x e then 1 else 0) + npulls x s.
Proof. unfold npulls. simpl. destruct (is_pull x e); reflexivity. Qed.
Lemma ended_cons x e s : ended x (e :: s) = is_end x e || ended x s.
Proof. reflexivity. Qed.
Lemma nyields_cons e s : nyields (e :: s) = (if is_yield e then 1 else 0) + nyields s.
Proof. unfold nyields. simpl. destruct (is_yield e); reflexivity. Qed.

Section Lockstep.
  Variable W : world.
  Variable D : domains.
  Variable s0 : store.                (* the log the second run starts from *)

  (* A: the run from an earlier log; B: the same program run on top of s0 *)
  Definition M (sA sB : store) : Prop :=
    (forall x, npulls x sB = Nat.max (npulls x sA) (npulls x s0)) /\
    (forall x, ended x sB = ended x sA || ended x s0) /\
    nyields sB = nyields sA + nyields s0.
  Definition M2 (oA oB : store * signal) : Prop := snd oA = snd oB /\ M (fst oA) (fst oB).
  Definition krelM {A} (kA kB : A -> store -> store * signal) : Prop :=
    forall a sA sB, M sA sB -> M2 (kA a sA) (kB a sB).

  (* the same event on both sides, as long as it is no pull and no end *)
  Lemma M_plain e sA sB : (forall x, is_pull x e = false) -> (forall x, is_end x e = false) -> is_yield e = false ->
    M sA sB -> M (e :: sA) (e :: sB).
  Proof.
    intros H1 H2 H3 (Hn & He & Hy). split; [|split].
    - intros x. rewrite !npulls_cons, H1. simpl. apply Hn.
    - intros x. rewrite !ended_cons, H2. simpl. apply He.
    - rewrite !nyields_cons, H3. simpl. exact Hy.
  Qed.
  Lemma M_yield r sA sB : M sA sB -> M (Yield r :: sA) (Yield r :: sB).
  Proof.
    intros (Hn & He & Hy). split; [|split].
    - intros x. rewrite !npulls_cons. simpl. apply Hn.
    - intros x. rewrite !ended_cons. simpl. apply He.
    - rewrite !nyields_cons. simpl. lia.
  Qed.
  Lemma M_get v a sA sB : M sA sB -> M (get_ev v a sA) (get_ev v a sB).
  Proof. intros H. unfold get_ev. destruct v; auto; apply M_plain; auto. Qed.
  Lemma M_touch x i sA sB : i <= npulls x sA -> i <= npulls x sB -> M sA sB -> M (touch x i sA) (touch x i sB).
  Proof.
    intros HA HB (Hn & He & Hy). unfold touch.
    destruct (Nat.ltb_spec i (npulls x sA)) as [LA|LA]; destruct (Nat.ltb_spec i (npulls x sB)) as [LB|LB].
    - split; [|split]; auto.
    - exfalso. rewrite (Hn x) in LB. lia.
    - (* A pulls, B finds it cached *)
      split; [|split]; auto.
      + intros y. rewrite npulls_cons. simpl. destruct (Nat.eqb_spec y x) as [->|N]; [|apply Hn].
        rewrite (Hn x) in *. lia.
    - split; [|split]; auto.
      + intros y. rewrite !npulls_cons. simpl. destruct (Nat.eqb_spec y x) as [->|N]; [|apply Hn].
        rewrite (Hn x) in *. lia.
  Qed.
  Lemma M_finish x sA sB : M sA sB -> M (finish x sA) (finish x sB).
  Proof.
    intros (Hn & He & Hy). unfold finish.
    assert (Hgen : forall sA' sB', (forall y, npulls y sB' = npulls y sB) -> (forall y, npulls y sA' = npulls y sA) ->
                     (forall y, ended y sB' = Nat.eqb y x || ended y sB) -> (forall y, ended y sA' = Nat.eqb y x || ended y sA) ->
                     nyields sB' = nyields sB -> nyields sA' = nyields sA -> M sA' sB').
    { intros sA' sB' N1 N2 E1 E2 Y1 Y2. split; [|split].
      - intros y. rewrite N1, N2. apply Hn.
      - intros y. rewrite E1, E2, He. destruct (Nat.eqb y x); reflexivity.
      - rewrite Y1, Y2. exact Hy. }
    assert (Hself : forall s, ended x s = true -> forall y, ended y s = Nat.eqb y x || ended y s).
    { intros s Hs y. destruct (Nat.eqb_spec y x) as [->|N]; simpl; auto. }
    destruct (ended x sA) eqn:EA; destruct (ended x sB) eqn:EB.
    - split; [|split]; auto.
    - exfalso. rewrite (He x), EA in EB. discriminate.
    - apply Hgen; auto; try (intros y; rewrite ?npulls_cons, ?ended_cons; simpl; auto).
    - apply Hgen; auto; try (intros y; rewrite ?npulls_cons, ?ended_cons; simpl; auto).
  Qed.

  Lemma andthen_M oA oB fA fB : M2 oA oB -> (forall sA sB, M sA sB -> M2 (fA sA) (fB sB)) -> M2 (andthen oA fA) (andthen oB fB).
  Proof.
    destruct oA as [sA sg], oB as [sB sg']. intros [H1 H2] Hf. simpl in *. subst sg'.
    destruct sg; simpl; [apply Hf; auto | split; auto].
  Qed.
  Lemma each_M {A} (fA fB : A -> store -> store * signal) l : krelM fA fB ->
    forall sA sB, M sA sB -> M2 (each fA l sA) (each fB l sB).
  Proof.
    intros Hf. induction l as [|a l IH]; intros sA sB H; simpl; [split; auto|].
    apply andthen_M; auto.
  Qed.

  Lemma enum_loop_M x (kA kB : val -> store -> store * signal) : kmono kA -> kmono kB -> krelM kA kB ->
    forall l i sA sB, M sA sB -> i <= npulls x sA -> i <= npulls x sB ->
    M2 (each (fun iv s1 => kA (snd iv) (touch x (fst iv) s1)) (combine (seq i (length l)) l) sA)
       (each (fun iv s1 => kB (snd iv) (touch x (fst iv) s1)) (combine (seq i (length l)) l) sB).
  Proof.
    intros HmA HmB Hk. induction l as [|v l IH]; intros i sA sB HM HA HB; simpl; [split; auto|].
    pose proof (Hk v _ _ (M_touch x i sA sB HA HB HM)) as [Hs HM'].
    pose proof (npulls_Ext x _ _ (HmA v (touch x i sA))) as GA.
    pose proof (npulls_Ext x _ _ (HmB v (touch x i sB))) as GB.
    assert (TA : i < npulls x (touch x i sA)).
    { unfold touch. destruct (Nat.ltb_spec i (npulls x sA)); auto. rewrite npulls_cons. simpl. rewrite Nat.eqb_refl. lia. }
    assert (TB : i < npulls x (touch x i sB)).
    { unfold touch. destruct (Nat.ltb_spec i (npulls x sB)); auto. rewrite npulls_cons. simpl. rewrite Nat.eqb_refl. lia. }
    destruct (kA v (touch x i sA)) as [sA2 sgA]. destruct (kB v (touch x i sB)) as [sB2 sgB]. simpl in *. subst sgB.
    destruct sgA; simpl; [|split; auto]. apply IH; auto; lia.
  Qed.

  Lemma enum_M x kA kB : kmono kA -> kmono kB -> krelM kA kB ->
    forall sA sB, M sA sB -> M2 (enum D x kA sA) (enum D x kB sB).
  Proof.
    intros HmA HmB Hk sA sB HM. unfold enum, indexed. apply andthen_M.
    - apply enum_loop_M; auto; lia.
    - intros sA' sB' H'. split; simpl; auto. apply M_finish; auto.
  Qed.

  Lemma opnd_M e : forall b kA kB, kmono kA -> kmono kB -> krelM kA kB ->
    forall sA sB, M sA sB -> M2 (tr_opnd W D e b kA sA) (tr_opnd W D e b kB sB).
  Proof.
    induction e as [v|x|e IH a]; intros b kA kB HmA HmB Hk sA sB HM; simpl.
    - apply Hk; auto.
    - destruct (lookup b x); [apply Hk; auto|]. apply enum_M; auto.
      + intros v s. apply HmA.
      + intros v s. apply HmB.
      + intros v s1 s2 H. apply Hk; auto.
    - apply IH; auto.
      + intros p s. eapply Ext_trans; [apply Ext_get | apply HmA].
      + intros p s. eapply Ext_trans; [apply Ext_get | apply HmB].
      + intros p s1 s2 H. apply Hk. apply M_get; auto.
  Qed.

  Section ForAllM.
    Variable trc : binds -> (res -> store -> store * signal) -> store -> store * signal.
    Variable evalc : binds -> list res.
    Variable y : var.
    Variable others : list var.
    Hypothesis trc_mono : forall b k, kmono k -> forall s, Ext s (fst (trc b k s)).
    Hypothesis trc_M : forall b kA kB, kmono kA -> kmono kB -> krelM kA kB ->
                                       forall sA sB, M sA sB -> M2 (trc b kA sA) (trc b kB sB).

    Lemma drain_full_M b sA sB : M sA sB -> M (drain_full trc b sA) (drain_full trc b sB).
    Proof.
      intros H. unfold drain_full.
      apply (trc_M b (fun _ s1 => (s1, Continue)) (fun _ s1 => (s1, Continue))); auto;
        try (intros a s; apply Ext_refl). intros a s1 s2 H12. split; auto.
    Qed.
    Lemma drain_first_M b sA sB : M sA sB -> M (drain_first trc b sA) (drain_first trc b sB).
    Proof.
      intros H. unfold drain_first.
      apply (trc_M b (fun _ s1 => (s1, Stop)) (fun _ s1 => (s1, Stop))); auto;
        try (intros a s; apply Ext_refl). intros a s1 s2 H12. split; auto.
    Qed.
    Lemma narrow_events_M bv ss : forall sA sB, M sA sB -> M (narrow_events trc bv ss sA) (narrow_events trc bv ss sB).
    Proof.
      unfold narrow_events. induction ss as [|s1 ss IH]; intros sA sB H; simpl; auto. apply IH, drain_first_M; auto.
    Qed.
    Lemma fa_step_M bv S sA sB : M sA sB ->
      fst (fa_step trc evalc others bv S sA) = fst (fa_step trc evalc others bv S sB) /\
      M (snd (fa_step trc evalc others bv S sA)) (snd (fa_step trc evalc others bv S sB)).
    Proof. intros H. destruct S; simpl; split; auto; [apply narrow_events_M | apply drain_full_M]; auto. Qed.
    Lemma fa_loop_M b l : forall i S sA sB, M sA sB -> i <= npulls y sA -> i <= npulls y sB ->
      fst (fa_loop trc evalc y others b (combine (seq i (length l)) l) S sA)
        = fst (fa_loop trc evalc y others b (combine (seq i (length l)) l) S sB) /\
      M (snd (fa_loop trc evalc y others b (combine (seq i (length l)) l) S sA))
        (snd (fa_loop trc evalc y others b (combine (seq i (length l)) l) S sB)).
    Proof.
      induction l as [|v l IH]; intros i S sA sB HM HA HB; simpl; [split; auto; apply M_finish; auto|].
      destruct (fa_step_M ((y, v) :: b) S _ _ (M_touch y i sA sB HA HB HM)) as [E HM'].
      pose proof (npulls_Ext y _ _ (fa_step_mono trc evalc others trc_mono ((y, v) :: b) S (touch y i sA))) as GA.
      pose proof (npulls_Ext y _ _ (fa_step_mono trc evalc others trc_mono ((y, v) :: b) S (touch y i sB))) as GB.
      assert (TA : i < npulls y (touch y i sA)).
      { unfold touch. destruct (Nat.ltb_spec i (npulls y sA)); auto. rewrite npulls_cons. simpl. rewrite Nat.eqb_refl. lia. }
      assert (TB : i < npulls y (touch y i sB)).
      { unfold touch. destruct (Nat.ltb_spec i (npulls y sB)); auto. rewrite npulls_cons. simpl. rewrite Nat.eqb_refl. lia. }
      rewrite <- E. destruct (fst (fa_step trc evalc others ((y, v) :: b) S (touch y i sA))); simpl; [split; auto|].
      apply IH; auto; lia.
    Qed.
  End ForAllM.

  Lemma cond_M c : exists_free c = true -> forall b kA kB, kmono kA -> kmono kB -> krelM kA kB ->
    forall sA sB, M sA sB -> M2 (tr_cond W D c b kA sA) (tr_cond W D c b kB sB).
  Proof.
    induction c as [op l r|l IHl r IHr|l IHl r IHr|l IHl r IHr|c IH|e c IH|y c IH]; intros Hx b kA kB HmA HmB Hk sA sB HM;
      simpl in Hx; try discriminate; try (apply andb_true_iff in Hx; destruct Hx as [Hxl Hxr]); simpl.
    - destruct (right_first b r); apply opnd_M; auto;
        try (intros p1 s1; apply opnd_mono; intros p2 s2; (apply HmA || apply HmB));
        intros p1 s1 s2 H1; apply opnd_M; auto;
        try (intros p2 s3; (apply HmA || apply HmB)); intros p2 s3 s4 H2; apply Hk; auto.
    - apply IHl; auto.
      + intros p s1. destruct (snd p); [apply HmA | apply cond_mono; auto].
      + intros p s1. destruct (snd p); [apply HmB | apply cond_mono; auto].
      + intros p s1 s2 H1. destruct (snd p); [apply Hk; auto | apply IHr; auto].
    - apply IHl; auto.
      + intros p s1. destruct (snd p); [apply cond_mono; auto | apply HmA].
      + intros p s1. destruct (snd p); [apply cond_mono; auto | apply HmB].
      + intros p s1 s2 H1. destruct (snd p); [apply IHr; auto | apply Hk; auto].
    - apply andthen_M.
      + apply IHl; auto.
        * intros p s1. destruct (snd p); [apply cond_mono; auto | apply HmA].
        * intros p s1. destruct (snd p); [apply cond_mono; auto | apply HmB].
        * intros p s1 s2 H1. destruct (snd p); [apply IHr; auto | apply Hk; auto].
      + intros s1 s2 H1. apply IHr; auto; try (apply M_plain; auto; fail).
        * intros p s3. destruct (snd p); [apply Ext_refl | apply HmA].
        * intros p s3. destruct (snd p); [apply Ext_refl | apply HmB].
        * intros p s3 s4 H3. destruct (snd p); [split; auto | apply Hk; auto].
    - apply IH; auto.
      + intros p s1. apply HmA.
      + intros p s1. apply HmB.
      + intros p s1 s2 H1. apply Hk; auto.
    - (* ForAll *)
      assert (Hmc : forall b0 k0, kmono k0 -> forall s, Ext s (fst (tr_cond W D c b0 k0 s))) by (intros; apply cond_mono; auto).
      assert (HMc : forall b0 k1 k2, kmono k1 -> kmono k2 -> krelM k1 k2 ->
                                    forall s1 s2, M s1 s2 -> M2 (tr_cond W D c b0 k1 s1) (tr_cond W D c b0 k2 s2))
        by (intros; apply IH; auto).
      destruct (lookup b y).
      + apply each_M; [intros a s1 s2 H; apply Hk; auto|]. apply drain_full_M; auto.
      + destruct (fa_loop_M (tr_cond W D c) (eval W D c) y (remove_var y (cond_vars c)) Hmc HMc b (D y) 0 None sA sB HM
                            (Nat.le_0_l _) (Nat.le_0_l _)) as [E HM'].
        unfold indexed. rewrite <- E. destruct (fst (fa_loop _ _ _ _ _ _ _ sA)).
        * apply each_M; [intros a s1 s2 H; apply Hk; auto | exact HM'].
        * apply Hk; auto.
  Qed.

  Lemma select_M sels : forall b kA kB, kmono kA -> kmono kB -> krelM kA kB ->
    forall sA sB, M sA sB -> M2 (tr_select W D sels b kA sA) (tr_select W D sels b kB sB).
  Proof.
    induction sels as [|e ss IH]; intros b kA kB HmA HmB Hk sA sB HM; simpl; [apply Hk; auto|].
    apply opnd_M; auto.
    - intros p s. apply select_mono. intros row s1. apply HmA.
    - intros p s. apply select_mono. intros row s1. apply HmB.
    - intros p s1 s2 H. apply IH; auto; [intros row s; apply HmA | intros row s; apply HmB | intros row s3 s4 H3; apply Hk; auto].
  Qed.

  Lemma run_M q kA kB : exists_free_o (q_cond q) = true -> kmono kA -> kmono kB -> krelM kA kB ->
    forall sA sB, M sA sB -> M2 (tr_run W D q kA sA) (tr_run W D q kB sB).
  Proof.
    intros Hx HmA HmB Hk sA sB HM. unfold tr_run. destruct (q_cond q) as [c|]; [|apply select_M; auto].
    simpl in Hx. apply cond_M; auto.
    - intros p s. destruct (snd p); [apply Ext_refl | apply select_mono; auto].
    - intros p s. destruct (snd p); [apply Ext_refl | apply select_mono; auto].
    - intros p s1 s2 H. destruct (snd p); [split; auto | apply select_M; auto].
  Qed.

  Lemma take_M m : krelM (take m) (take (nyields s0 + m)).
  Proof.
    intros row sA sB HM. pose proof (M_yield row _ _ HM) as H. unfold take, M2. simpl. split; auto.
    destruct H as (_ & _ & Hy). rewrite Hy.
    destruct (Nat.leb_spec m (nyields (Yield row :: sA)));
      destruct (Nat.leb_spec (nyields s0 + m) (nyields (Yield row :: sA) + nyields s0)); auto; lia.
  Qed.
End Lockstep.

Lemma take_rel_le m n : m <= n -> krel (take m) (take n).
Proof.
  intros Hmn row s. unfold take, Rel.
  destruct (Nat.leb_spec m (nyields (Yield row :: s))) as [H|H].
  - simpl. apply Ext_refl.
  - destruct (Nat.leb_spec n (nyields (Yield row :: s))); [lia | reflexivity].
Qed.
Lemma ended_Ext x s s' : Ext s s' -> ended x s = true -> ended x s' = true.
Proof. intros [l ->] H. unfold ended in *. rewrite existsb_app, H. apply orb_true_r. Qed.
Lemma npulls_rev x s : npulls x (rev s) = npulls x s.
Proof.
  induction s as [|e s IH]; simpl; [reflexivity|]. rewrite npulls_app, IH, !npulls_cons.
  change (npulls x []) with 0. lia.
Qed.
Lemma ended_rev x s : ended x (rev s) = ended x s.
Proof.
  induction s as [|e s IH]; simpl; [reflexivity|]. unfold ended in *. rewrite existsb_app, IH. simpl.
  rewrite orb_false_r. apply orb_comm.
Qed.

Section Requiet.
  Variable W : world.
  Variable D : domains.

  (* C10_reeval_quiet *)
  Theorem reeval_quiet q n m x : exists_free_o (q_cond q) = true -> m <= n ->
    npulls x (trace_seq W D [(q, n); (q, m)]) = npulls x (trace_seq W D [(q, n)]) /\
    ended x (trace_seq W D [(q, n); (q, m)]) = ended x (trace_seq W D [(q, n)]).
  Proof.
    intros Hx Hmn. unfold trace_seq, store_seq. simpl. rewrite !npulls_rev, !ended_rev.
    destruct m as [|m]; [split; reflexivity|].
    destruct n as [|n]; [lia|].
    set (s1 := run_from W D q (S n) []).
    assert (HM0 : M s1 [] s1).
    { split; [|split]; simpl; auto. }
    destruct (run_M W D s1 q (take (S m)) (take (nyields s1 + S m)) Hx (take_mono (S m)) (take_mono _) (take_M s1 (S m))
                    [] s1 HM0) as [_ (Hn & He & _)].
    assert (HE : Ext (fst (tr_run W D q (take (S m)) [])) s1).
    { unfold s1, run_from. simpl. apply Rel_Ext. apply run_rel; [apply take_rel_le; lia | apply take_mono]. }
    change (run_from W D q (S m) s1) with (fst (tr_run W D q (take (nyields s1 + S m)) s1)). split.
    - rewrite (Hn x). pose proof (npulls_Ext x _ _ HE). lia.
    - rewrite (He x). destruct (ended x (fst (tr_run W D q (take (S m)) []))) eqn:E; simpl; auto.
      symmetry. eapply ended_Ext; eauto.
  Qed.
End Requiet.
