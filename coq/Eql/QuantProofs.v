From Coq Require Import List ZArith Bool Lia.
From Krrood Require Import Base.Sx Eql.QuantSpec Eql.Quant.
Import ListNotations.
Open Scope Z_scope.

(* ---------- construction ---------- *)
Definition canonical (k : ctor) : constraint :=
  match k with
  | KExactly v => CExactly (G.Build_Exactly v)
  | KAtLeast v => CAtLeast (G.Build_AtLeast v)
  | KAtMost v => CAtMost (G.Build_AtMost v)
  | KRange lo hi => CRange (G.Build_Range (G.Build_AtLeast lo) (G.Build_AtMost hi))
  end.

Lemma construct_ok k :
  construct k = match ctor_spec k with Some e => inr e | None => inl (canonical k) end.
Proof.
  destruct k as [v|v|v|lo hi]; cbn;
    unfold G.Exactly_post_init, G.AtLeast_post_init, G.AtMost_post_init, G.Range_post_init; cbn.
  1-3: destruct (v <? 0); reflexivity.
  destruct (lo <? 0) eqn:E1; cbn; [reflexivity|].
  destruct (hi <? 0) eqn:E2; cbn; [reflexivity|].
  destruct (hi <? lo); reflexivity.
Qed.

(* a constructed constraint has sane bounds *)
Lemma ctor_spec_wf k : ctor_spec k = None ->
  0 <= lower k /\ match upper k with Some u => lower k <= u | None => True end.
Proof.
  destruct k as [v|v|v|lo hi]; cbn.
  1-3: destruct (Z.ltb_spec v 0); try discriminate; intros _; lia.
  destruct (Z.ltb_spec lo 0); cbn; try discriminate.
  destruct (Z.ltb_spec hi 0); cbn; try discriminate.
  destruct (Z.ltb_spec hi lo); try discriminate. intros _; lia.
Qed.

(* ---------- the two checks, characterised ---------- *)
Ltac unfold_checks :=
  unfold assert_sat; cbn;
  unfold G.Range_assert_satisfaction, G.seq, G.Exactly_assert_satisfaction,
    G.AtLeast_assert_satisfaction, G.AtMost_assert_satisfaction, above; cbn;
  rewrite ?Z.gtb_ltb.
Ltac split_ltb :=
  repeat match goal with |- context [Z.ltb ?a ?b] => destruct (Z.ltb_spec a b); cbn end;
  try reflexivity; try lia.

Lemma assert_running k n :
  assert_sat (canonical k) n false = if above k n then Some GreaterThanExpectedNumberOfSolutions else None.
Proof. destruct k as [v|v|v|lo hi]; unfold_checks; split_ltb. Qed.

(* the done-check, for counts n >= 0 (the loop only ever produces those) *)
Lemma assert_done k n : ctor_spec k = None -> 0 <= n ->
  assert_sat (canonical k) n true =
    if above k n then Some GreaterThanExpectedNumberOfSolutions
    else if n <? lower k then Some LessThanExpectedNumberOfSolutions else None.
Proof.
  intros W Hn. apply ctor_spec_wf in W.
  destruct k as [v|v|v|lo hi]; cbn in W; unfold_checks; split_ltb.
Qed.

(* ---------- the loop, from any count ---------- *)
Definition an_spec_from {A} (k : ctor) (rows : list A) (n : Z) : list A * option exn :=
  let total := n + Z.of_nat (length rows) in
  if above k total then
    (firstn (Z.to_nat (match upper k with Some u => u - n | None => 0 end)) rows,
     Some GreaterThanExpectedNumberOfSolutions)
  else if total <? lower k then (rows, Some LessThanExpectedNumberOfSolutions)
  else (rows, None).

Lemma loop_from {A} k : ctor_spec k = None -> forall (rows : list A) n,
  0 <= n -> above k n = false ->
  loop (Some (canonical k)) rows n = an_spec_from k rows n.
Proof.
  intros W rows. induction rows as [|r rows IH]; intros n Hn Hab.
  - cbn [loop]. rewrite (assert_done k n W Hn). unfold an_spec_from. cbn [length Z.of_nat].
    rewrite Z.add_0_r, Hab. destruct (n <? lower k); reflexivity.
  - cbn [loop]. rewrite assert_running.
    destruct (above k (n + 1)) eqn:E.
    + (* the (n+1)-th row already exceeds the upper bound: nothing more is yielded *)
      unfold an_spec_from. unfold above in *. destruct (upper k) as [u|]; [|discriminate].
      apply Z.ltb_lt in E. apply Z.ltb_ge in Hab.
      assert (u = n) by lia. subst u.
      replace (n <? n + Z.of_nat (length (r :: rows))) with true
        by (symmetry; apply Z.ltb_lt; cbn [length]; lia).
      replace (Z.to_nat (n - n)) with 0%nat by lia. reflexivity.
    + rewrite IH by (auto; lia). unfold an_spec_from.
      replace (n + 1 + Z.of_nat (length rows)) with (n + Z.of_nat (length (r :: rows)))
        by (cbn [length]; lia).
      destruct (above k (n + Z.of_nat (length (r :: rows)))) eqn:E2.
      * unfold above in *. destruct (upper k) as [u|]; [|discriminate].
        apply Z.ltb_ge in E. 
        replace (Z.to_nat (u - n)) with (S (Z.to_nat (u - (n + 1)))) by lia. reflexivity.
      * destruct (_ <? lower k); reflexivity.
Qed.

Theorem an_correct {A} k (rows : list A) : ctor_spec k = None ->
  run_an (Some (canonical k)) rows = an_spec k rows.
Proof.
  intros W. unfold run_an. rewrite loop_from; auto; try lia.
  - unfold an_spec_from, an_spec. cbn. destruct (upper k); rewrite ?Z.sub_0_r; reflexivity.
  - pose proof (ctor_spec_wf k W) as [H0 H1]. unfold above. destruct (upper k); auto.
    apply Z.ltb_ge. lia.
Qed.

Theorem an_unconstrained {A} (rows : list A) : run_an None rows = (rows, None).
Proof.
  unfold run_an. generalize 0. induction rows as [|r rows IH]; intros n; cbn; auto.
  now rewrite IH.
Qed.

(* never more rows than the upper bound allows, whatever the count *)
Corollary an_never_exceeds {A} k (rows : list A) u : ctor_spec k = None -> upper k = Some u ->
  Z.of_nat (length (fst (run_an (Some (canonical k)) rows))) <= u.
Proof.
  intros W U. rewrite an_correct by auto. unfold an_spec, above. rewrite U.
  pose proof (ctor_spec_wf k W) as [H0 H1]. rewrite U in H1.
  destruct (Z.ltb_spec u (Z.of_nat (length rows))); cbn [fst].
  - rewrite firstn_length. lia.
  - destruct (_ <? lower k); cbn [fst]; lia.
Qed.

(* yielded rows are always a prefix of the child's rows *)
Corollary an_prefix {A} k (rows : list A) : ctor_spec k = None ->
  exists m, fst (run_an (Some (canonical k)) rows) = firstn m rows.
Proof.
  intros W. rewrite an_correct by auto. unfold an_spec.
  destruct (above k _); [eexists; reflexivity|].
  exists (length rows). rewrite firstn_all. destruct (_ <? lower k); reflexivity.
Qed.

Theorem the_correct {A} (rows : list A) : run_the rows = the_spec rows.
Proof.
  unfold run_the. change (CExactly (G.Build_Exactly 1)) with (canonical (KExactly 1)).
  fold (@run_an A (Some (canonical (KExactly 1))) rows).
  rewrite an_correct by reflexivity. unfold an_spec, above. cbn [upper lower].
  destruct rows as [|x [|y rest]]; try reflexivity.
  cbn [length]. replace (1 <? Z.of_nat (S (S (length rest)))) with true by (symmetry; apply Z.ltb_lt; lia).
  reflexivity.
Qed.

(* the correspondence functions agree: model = spec on *every* case, so F is everything *)
Theorem model_an_eq_spec k rows : model_an k rows = spec_an k rows.
Proof.
  destruct k as [k|]; cbn.
  - rewrite construct_ok. destruct (ctor_spec k) eqn:W; [reflexivity|]. now rewrite an_correct.
  - now rewrite an_unconstrained.
Qed.
Theorem model_the_eq_spec rows : model_the rows = spec_the rows.
Proof. unfold model_the, spec_the. now rewrite the_correct. Qed.
