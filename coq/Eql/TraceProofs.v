(* C10 -- proofs about the instrumented evaluator Eql/Trace.v:
   1. bridge: it hands out exactly the rows of the list-monad model Eql/Eval.v, in order, and the n-stopped run the first n;
   2. the log of a run that stops earlier is a prefix of the log of a run that stops later;
   3. every domain is consumed as the prefix 0, 1, 2, ... (each element pulled at most once, in order). *)
From Coq Require Import List ZArith Bool Arith Lia.
From Krrood Require Import Eql.Syntax Eql.Sat Eql.Eval Eql.TraceSpec Eql.Trace.
Import ListNotations.
Open Scope nat_scope.

Definition qfree_o (c : option cond) : bool := match c with Some c => qfree c | None => true end.

(* ================= generic facts about [each] / [andthen] ================= *)
Lemma andthen_ret {S} (o : S * signal) : andthen o (fun s => (s, Continue)) = o.
Proof. destruct o as [s [|]]; reflexivity. Qed.

Lemma andthen_assoc {S} (o : S * signal) f g : andthen (andthen o f) g = andthen o (fun s => andthen (f s) g).
Proof. destruct o as [s [|]]; reflexivity. Qed.

Lemma each_one {S A} (f : A -> S -> S * signal) a s : each f [a] s = f a s.
Proof. simpl. apply andthen_ret. Qed.

Lemma each_app {S A} (f : A -> S -> S * signal) l1 l2 s :
  each f (l1 ++ l2) s = andthen (each f l1 s) (each f l2).
Proof.
  revert s; induction l1 as [|a l1 IH]; intros s; simpl; [reflexivity|].
  rewrite andthen_assoc. destruct (f a s) as [s' [|]]; simpl; auto.
Qed.

Lemma each_ext {S A} (f g : A -> S -> S * signal) l s :
  (forall a s0, f a s0 = g a s0) -> each f l s = each g l s.
Proof.
  intros H; revert s; induction l as [|a l IH]; intros s; simpl; [reflexivity|].
  rewrite H. destruct (g a s) as [s' [|]]; simpl; auto.
Qed.

Lemma each_flat_map {S A B} (g : A -> list B) (f : B -> S -> S * signal) l s :
  each f (flat_map g l) s = each (fun a s0 => each f (g a) s0) l s.
Proof.
  revert s; induction l as [|a l IH]; intros s; simpl; [reflexivity|].
  rewrite each_app. destruct (each f (g a) s) as [s' [|]]; simpl; auto.
Qed.

Lemma each_map {S A B} (g : A -> B) (f : B -> S -> S * signal) l s :
  each f (map g l) s = each (fun a s0 => f (g a) s0) l s.
Proof.
  revert s; induction l as [|a l IH]; intros s; simpl; [reflexivity|].
  destruct (f (g a) s) as [s' [|]]; simpl; auto.
Qed.

Lemma each_filter {S A} (p : A -> bool) (f : A -> S -> S * signal) l s :
  each f (filter p l) s = each (fun a s0 => if p a then f a s0 else (s0, Continue)) l s.
Proof.
  revert s; induction l as [|a l IH]; intros s; simpl; [reflexivity|].
  destruct (p a); simpl; [|apply IH].
  destruct (f a s) as [s' [|]]; simpl; auto.
Qed.

Lemma each_skip {S A} (l : list A) (s : S) : each (fun _ s0 => (s0, Continue)) l s = (s, Continue).
Proof. induction l; simpl; auto. Qed.

Lemma map_snd_indexed {A} (l : list A) : forall n, map snd (combine (seq n (length l)) l) = l.
Proof. induction l as [|a l IH]; intros n; simpl; [reflexivity|]. now rewrite IH. Qed.

(* ================= 1. simulation by the list-monad model ================= *)
Section Sim.
  Variable W : world.
  Variable D : domains.
  Variable T : Type.
  Variable R : store -> T -> Prop.
  Hypothesis R_ev : forall e s t, is_yield e = false -> R s t -> R (e :: s) t.

  Definition R2 (o : store * signal) (o' : T * signal) : Prop := snd o = snd o' /\ R (fst o) (fst o').
  Definition ksim {A} (k : A -> store -> store * signal) (k' : A -> T -> T * signal) : Prop :=
    forall a s t, R s t -> R2 (k a s) (k' a t).

  Lemma R_touch x i s t : R s t -> R (touch x i s) t.
  Proof. unfold touch. intros H. destruct (i <? npulls x s); auto. Qed.
  Lemma R_finish x s t : R s t -> R (finish x s) t.
  Proof. unfold finish. intros H. destruct (ended x s); auto. Qed.
  Lemma R_get v a s t : R s t -> R (get_ev v a s) t.
  Proof. unfold get_ev. intros H. destruct v; auto. Qed.

  Lemma andthen_sim o o' f f' :
    R2 o o' -> (forall s t, R s t -> R2 (f s) (f' t)) -> R2 (andthen o f) (andthen o' f').
  Proof.
    destruct o as [s sg], o' as [t sg']. intros [H1 H2] Hf. simpl in *. subst sg'.
    destruct sg; simpl; [apply Hf; auto | split; auto].
  Qed.

  Lemma each_sim {A B} (g : A -> B) (f : A -> store -> store * signal) (k' : B -> T -> T * signal) l :
    (forall a s t, R s t -> R2 (f a s) (k' (g a) t)) ->
    forall s t, R s t -> R2 (each f l s) (each k' (map g l) t).
  Proof.
    intros H. induction l as [|a l IH]; intros s t HR; simpl; [split; auto|].
    apply andthen_sim; auto.
  Qed.

  Lemma enum_sim x (k : val -> store -> store * signal) (k' : val -> T -> T * signal) :
    ksim k k' -> forall s t, R s t -> R2 (enum D x k s) (each k' (D x) t).
  Proof.
    intros Hk s t HR. unfold enum, indexed.
    rewrite <- (andthen_ret (each k' (D x) t)).
    apply andthen_sim.
    - replace (each k' (D x) t) with (each k' (map snd (combine (seq 0 (length (D x))) (D x))) t)
        by (now rewrite map_snd_indexed).
      apply each_sim; auto.
      intros iv s0 t0 H0. apply Hk. apply R_touch; auto.
    - intros s' t' H'. split; simpl; auto. apply R_finish; auto.
  Qed.

  Lemma opnd_sim e : forall b (k : binds * val -> store -> store * signal) k',
    ksim k k' -> forall s t, R s t -> R2 (tr_opnd W D e b k s) (each k' (ev_opnd W D e b) t).
  Proof.
    induction e as [v|x|e IH a]; intros b k k' Hk s t HR; simpl.
    - rewrite andthen_ret. apply Hk; auto.
    - destruct (lookup b x) as [v|].
      + rewrite each_one. apply Hk; auto.
      + rewrite each_map. apply enum_sim; auto. intros v s0 t0 H0. apply Hk; auto.
    - rewrite each_map. apply IH; auto. intros p s0 t0 H0. apply Hk. apply R_get; auto.
  Qed.

  Lemma cond_sim c : qfree c = true -> forall b (k : res -> store -> store * signal) k',
    ksim k k' -> forall s t, R s t -> R2 (tr_cond W D c b k s) (each k' (eval W D c b) t).
  Proof.
    induction c as [op l r|l IHl r IHr|l IHl r IHr|l IHl r IHr|c IH|e c IH|y c IH]; intros Hq b k k' Hk s t HR;
      simpl in Hq; try discriminate; try (apply andb_true_iff in Hq; destruct Hq as [Hql Hqr]).
    - simpl. unfold ev_cmp. destruct (right_first b r); rewrite each_flat_map.
      + apply opnd_sim; auto. intros p1 s1 t1 H1. rewrite each_map. apply opnd_sim; auto.
        intros p2 s2 t2 H2. apply Hk; auto.
      + apply opnd_sim; auto. intros p1 s1 t1 H1. rewrite each_map. apply opnd_sim; auto.
        intros p2 s2 t2 H2. apply Hk; auto.
    - simpl. rewrite each_flat_map. apply IHl; auto. intros p s1 t1 H1. destruct (snd p).
      + rewrite each_one. apply Hk; auto.
      + apply IHr; auto.
    - simpl. rewrite each_flat_map. apply IHl; auto. intros p s1 t1 H1. destruct (snd p).
      + apply IHr; auto.
      + rewrite each_one. apply Hk; auto.
    - simpl. rewrite each_app. apply andthen_sim.
      + rewrite each_flat_map. apply IHl; auto. intros p s1 t1 H1. destruct (snd p).
        * apply IHr; auto.
        * rewrite each_one. apply Hk; auto.
      + intros s' t' H'. rewrite each_filter. apply IHr; auto.
        intros p s1 t1 H1. destruct (snd p); simpl; [split; auto | apply Hk; auto].
    - simpl. rewrite each_map. apply IH; auto. intros p s1 t1 H1. apply Hk; auto.
  Qed.

  Lemma select_sim sels : forall b (k : list val -> store -> store * signal) k',
    ksim k k' -> forall s t, R s t -> R2 (tr_select W D sels b k s) (each k' (select W D sels b) t).
  Proof.
    induction sels as [|e ss IH]; intros b k k' Hk s t HR; simpl.
    - rewrite andthen_ret. apply Hk; auto.
    - rewrite each_flat_map. apply opnd_sim; auto. intros p s1 t1 H1. rewrite each_map.
      apply IH; auto. intros row s2 t2 H2. apply Hk; auto.
  Qed.

  Lemma run_sim q (k : list val -> store -> store * signal) k' :
    qfree_o (q_cond q) = true -> ksim k k' ->
    forall s t, R s t -> R2 (tr_run W D q k s) (each k' (run W D q) t).
  Proof.
    intros Hq Hk s t HR. unfold tr_run, run, true_results.
    destruct (q_cond q) as [c|]; simpl in Hq.
    - rewrite each_flat_map, each_map, each_filter.
      apply cond_sim; auto. intros p s1 t1 H1. destruct (snd p); simpl.
      + split; auto.
      + apply select_sim; auto.
    - simpl. rewrite app_nil_r. apply select_sim; auto.
  Qed.
End Sim.

(* ---- instance: the rows handed out ---- *)
Lemma rows_of_app a b : rows_of (a ++ b) = rows_of a ++ rows_of b.
Proof. induction a as [|e a IH]; simpl; [reflexivity|]. destruct e; simpl; rewrite ?IH; reflexivity. Qed.
Lemma rows_of_rev s : rows_of (rev s) = rev (rows_of s).
Proof.
  induction s as [|e s IH]; simpl; [reflexivity|]. rewrite rows_of_app, IH.
  destruct e; simpl; rewrite ?app_nil_r; reflexivity.
Qed.
Lemma nyields_rows s : nyields s = length (rows_of s).
Proof. unfold nyields. induction s as [|e s IH]; simpl; [reflexivity|]. destruct e; simpl; auto. Qed.
Lemma rows_of_nonyield e s : is_yield e = false -> rows_of (e :: s) = rows_of s.
Proof. destruct e; simpl; auto; discriminate. Qed.

Definition take' (n : nat) (row : list val) (t : list (list val)) : list (list val) * signal :=
  let t' := row :: t in (t', if n <=? length t' then Stop else Continue).
Definition take_all' (row : list val) (t : list (list val)) : list (list val) * signal := (row :: t, Continue).

Lemma each_take' n l : forall t, length t < n -> fst (each (take' n) l t) = rev (firstn (n - length t) l) ++ t.
Proof.
  induction l as [|a l IH]; intros t Ht; simpl.
  - now rewrite firstn_nil.
  - destruct (Nat.leb_spec n (S (length t))); simpl.
    + replace (n - length t) with 1 by lia. reflexivity.
    + rewrite IH by (simpl; lia). simpl length.
      replace (n - length t) with (S (n - S (length t))) by lia. simpl. now rewrite <- app_assoc.
Qed.
Lemma each_take_all' l : forall t, fst (each take_all' l t) = rev l ++ t.
Proof. induction l as [|a l IH]; intros t; simpl; [reflexivity|]. rewrite IH. now rewrite <- app_assoc. Qed.

Section Bridge.
  Variable W : world.
  Variable D : domains.
  Let R (s : store) (t : list (list val)) : Prop := rows_of s = t.

  Lemma R_ev_rows : forall e s t, is_yield e = false -> R s t -> R (e :: s) t.
  Proof. unfold R. intros e s t He <-. apply rows_of_nonyield; auto. Qed.

  Lemma take_sim n : ksim (list (list val)) R (take n) (take' n).
  Proof.
    intros row s t H. unfold R in *. unfold take, take', R2. simpl. subst t.
    rewrite nyields_rows. simpl. split; reflexivity.
  Qed.
  Lemma take_all_sim : ksim (list (list val)) R take_all take_all'.
  Proof. intros row s t H. unfold R in *. unfold take_all, take_all', R2. simpl. subst t. split; reflexivity. Qed.

  (* the instrumented evaluator hands out exactly the rows of the list-monad model, in order *)
  Theorem trace_full_rows q : qfree_o (q_cond q) = true -> rows_of (trace_full W D q) = run W D q.
  Proof.
    intros Hq. unfold trace_full. rewrite rows_of_rev.
    destruct (run_sim W D _ R R_ev_rows q take_all take_all' Hq take_all_sim [] [] eq_refl) as [_ H].
    unfold R in H. rewrite H, each_take_all', app_nil_r. apply rev_involutive.
  Qed.

  (* the run stopped after n rows handed out the first n rows *)
  Theorem trace_k_rows q n : qfree_o (q_cond q) = true -> rows_of (trace_k W D q n) = firstn n (run W D q).
  Proof.
    intros Hq. destruct n as [|n]; [reflexivity|]. unfold trace_k. rewrite rows_of_rev.
    destruct (run_sim W D _ R R_ev_rows q (take (S n)) (take' (S n)) Hq (take_sim (S n)) [] [] eq_refl) as [_ H].
    unfold R in H. rewrite H, each_take' by (simpl; lia). simpl length. rewrite Nat.sub_0_r, app_nil_r.
    apply rev_involutive.
  Qed.
End Bridge.

(* ================= 2. stopping earlier gives a prefix of the log ================= *)
Definition Ext (s s' : store) : Prop := exists l, s' = l ++ s.
Lemma Ext_refl s : Ext s s. Proof. exists []; reflexivity. Qed.
Lemma Ext_trans a b c : Ext a b -> Ext b c -> Ext a c.
Proof. intros [l ->] [m ->]. exists (m ++ l). now rewrite app_assoc. Qed.
Lemma Ext_cons e s : Ext s (e :: s). Proof. exists [e]; reflexivity. Qed.
Lemma Ext_touch x i s : Ext s (touch x i s).
Proof. unfold touch. destruct (i <? npulls x s); [apply Ext_refl | apply Ext_cons]. Qed.
Lemma Ext_finish x s : Ext s (finish x s).
Proof. unfold finish. destruct (ended x s); [apply Ext_refl | apply Ext_cons]. Qed.
Lemma Ext_get v a s : Ext s (get_ev v a s).
Proof. unfold get_ev. destruct v; try apply Ext_refl. apply Ext_cons. Qed.
#[global] Hint Resolve Ext_refl Ext_cons Ext_touch Ext_finish Ext_get : ext.

Definition kmono {A} (k : A -> store -> store * signal) : Prop := forall a s, Ext s (fst (k a s)).
Definition Rel (oA oB : store * signal) : Prop :=
  match oA with
  | (sA, Continue) => oB = (sA, Continue)
  | (sA, Stop) => Ext sA (fst oB)
  end.
Definition krel {A} (kA kB : A -> store -> store * signal) : Prop := forall a s, Rel (kA a s) (kB a s).

Lemma Rel_Ext oA oB : Rel oA oB -> Ext (fst oA) (fst oB).
Proof. destruct oA as [sA [|]]; simpl; [intros ->; apply Ext_refl | auto]. Qed.

Lemma andthen_mono s (o : store * signal) f :
  Ext s (fst o) -> (forall s', Ext s' (fst (f s'))) -> Ext s (fst (andthen o f)).
Proof. destruct o as [s1 [|]]; simpl; intros H Hf; auto. eapply Ext_trans; eauto. Qed.

Lemma each_mono {A} (f : A -> store -> store * signal) l : kmono f -> forall s, Ext s (fst (each f l s)).
Proof.
  intros Hf. induction l as [|a l IH]; intros s; simpl; [apply Ext_refl|].
  apply andthen_mono; auto.
Qed.

Lemma andthen_rel oA oB fA fB :
  Rel oA oB -> (forall s, Rel (fA s) (fB s)) -> (forall s, Ext s (fst (fB s))) ->
  Rel (andthen oA fA) (andthen oB fB).
Proof.
  destruct oA as [sA [|]]; simpl; intros H Hf Hm.
  - subst oB. simpl. apply Hf.
  - apply andthen_mono; auto.
Qed.

Lemma each_rel {A} (f g : A -> store -> store * signal) l :
  krel f g -> kmono g -> forall s, Rel (each f l s) (each g l s).
Proof.
  intros Hr Hm. induction l as [|a l IH]; intros s; simpl; [reflexivity|].
  apply andthen_rel; auto. intros s'. apply each_mono; auto.
Qed.

Section Prefix.
  Variable W : world.
  Variable D : domains.

  Lemma enum_mono x k : kmono k -> kmono (fun (_ : unit) => enum D x k).
  Proof.
    intros Hk _ s. unfold enum. apply andthen_mono.
    - apply each_mono. intros iv s0. eapply Ext_trans; [apply Ext_touch | apply Hk].
    - intros s'. simpl. apply Ext_finish.
  Qed.

  Lemma opnd_mono e : forall b k, kmono k -> forall s, Ext s (fst (tr_opnd W D e b k s)).
  Proof.
    induction e as [v|x|e IH a]; intros b k Hk s; simpl.
    - apply Hk.
    - destruct (lookup b x); [apply Hk|]. apply (enum_mono x _ (fun v s0 => Hk _ s0) tt).
    - apply IH. intros p s1. eapply Ext_trans; [apply Ext_get | apply Hk].
  Qed.

  Lemma cond_mono c : forall b k, kmono k -> forall s, Ext s (fst (tr_cond W D c b k s)).
  Proof.
    induction c as [op l r|l IHl r IHr|l IHl r IHr|l IHl r IHr|c IH|e c IH|y c IH]; intros b k Hk s; simpl;
      try apply Ext_refl.
    - destruct (right_first b r); apply opnd_mono; intros p1 s1; apply opnd_mono; intros p2 s2; apply Hk.
    - apply IHl. intros p s1. destruct (snd p); [apply Hk | apply IHr; auto].
    - apply IHl. intros p s1. destruct (snd p); [apply IHr; auto | apply Hk].
    - apply andthen_mono.
      + apply IHl. intros p s1. destruct (snd p); [apply IHr; auto | apply Hk].
      + intros s'. apply IHr; auto. intros p s1. destruct (snd p); [apply Ext_refl | apply Hk].
    - apply IH. intros p s1. apply Hk.
  Qed.

  Lemma select_mono sels : forall b k, kmono k -> forall s, Ext s (fst (tr_select W D sels b k s)).
  Proof.
    induction sels as [|e ss IH]; intros b k Hk s; simpl; [apply Hk|].
    apply opnd_mono. intros p s1. apply IH. intros row s2. apply Hk.
  Qed.
  Lemma run_mono q k : kmono k -> forall s, Ext s (fst (tr_run W D q k s)).
  Proof.
    intros Hk s. unfold tr_run. destruct (q_cond q) as [c|]; [|apply select_mono; auto].
    apply cond_mono. intros p s1. destruct (snd p); [apply Ext_refl | apply select_mono; auto].
  Qed.

  Lemma enum_rel x kA kB : krel kA kB -> kmono kB -> forall s, Rel (enum D x kA s) (enum D x kB s).
  Proof.
    intros Hr Hm s. unfold enum. apply andthen_rel.
    - apply each_rel.
      + intros iv s0. apply Hr.
      + intros iv s0. eapply Ext_trans; [apply Ext_touch | apply Hm].
    - intros s'. reflexivity.
    - intros s'. apply Ext_finish.
  Qed.

  Lemma opnd_rel e : forall b kA kB, krel kA kB -> kmono kB ->
    forall s, Rel (tr_opnd W D e b kA s) (tr_opnd W D e b kB s).
  Proof.
    induction e as [v|x|e IH a]; intros b kA kB Hr Hm s; simpl.
    - apply Hr.
    - destruct (lookup b x); [apply Hr|]. apply enum_rel.
      + intros v s0. apply Hr.
      + intros v s0. apply Hm.
    - apply IH.
      + intros p s1. apply Hr.
      + intros p s1. eapply Ext_trans; [apply Ext_get | apply Hm].
  Qed.

  Lemma cond_rel c : forall b kA kB, krel kA kB -> kmono kB ->
    forall s, Rel (tr_cond W D c b kA s) (tr_cond W D c b kB s).
  Proof.
    induction c as [op l r|l IHl r IHr|l IHl r IHr|l IHl r IHr|c IH|e c IH|y c IH]; intros b kA kB Hr Hm s; simpl;
      try reflexivity.
    - destruct (right_first b r).
      + apply opnd_rel.
        * intros p1 s1. apply opnd_rel; [intros p2 s2; apply Hr | intros p2 s2; apply Hm].
        * intros p1 s1. apply opnd_mono. intros p2 s2. apply Hm.
      + apply opnd_rel.
        * intros p1 s1. apply opnd_rel; [intros p2 s2; apply Hr | intros p2 s2; apply Hm].
        * intros p1 s1. apply opnd_mono. intros p2 s2. apply Hm.
    - apply IHl.
      + intros p s1. destruct (snd p); [apply Hr | apply IHr; auto].
      + intros p s1. destruct (snd p); [apply Hm | apply cond_mono; auto].
    - apply IHl.
      + intros p s1. destruct (snd p); [apply IHr; auto | apply Hr].
      + intros p s1. destruct (snd p); [apply cond_mono; auto | apply Hm].
    - apply andthen_rel.
      + apply IHl.
        * intros p s1. destruct (snd p); [apply IHr; auto | apply Hr].
        * intros p s1. destruct (snd p); [apply cond_mono; auto | apply Hm].
      + intros s'. apply IHr.
        * intros p s1. destruct (snd p); [reflexivity | apply Hr].
        * intros p s1. destruct (snd p); [apply Ext_refl | apply Hm].
      + intros s'. apply cond_mono; auto. intros p s1. destruct (snd p); [apply Ext_refl | apply Hm].
    - apply IH.
      + intros p s1. apply Hr.
      + intros p s1. apply Hm.
  Qed.

  Lemma select_rel sels : forall b kA kB, krel kA kB -> kmono kB ->
    forall s, Rel (tr_select W D sels b kA s) (tr_select W D sels b kB s).
  Proof.
    induction sels as [|e ss IH]; intros b kA kB Hr Hm s; simpl; [apply Hr|].
    apply opnd_rel.
    - intros p s1. apply IH; [intros row s2; apply Hr | intros row s2; apply Hm].
    - intros p s1. apply select_mono. intros row s2. apply Hm.
  Qed.

  Lemma run_rel q kA kB : krel kA kB -> kmono kB -> forall s, Rel (tr_run W D q kA s) (tr_run W D q kB s).
  Proof.
    intros Hr Hm s. unfold tr_run.
    assert (Hsel : forall b s1, Rel (tr_select W D (q_sels q) b kA s1) (tr_select W D (q_sels q) b kB s1)).
    { intros b s1. apply select_rel; auto. }
    destruct (q_cond q) as [c|]; [|apply Hsel].
    apply cond_rel.
    - intros p s1. destruct (snd p); [reflexivity | apply Hsel].
    - intros p s1. destruct (snd p); [apply Ext_refl | apply select_mono; auto].
  Qed.

  Lemma take_mono n : kmono (take n).
  Proof. intros row s. unfold take. simpl. apply Ext_cons. Qed.
  Lemma take_all_mono : kmono take_all.
  Proof. intros row s. unfold take_all. simpl. apply Ext_cons. Qed.
  Lemma take_rel_S n : krel (take n) (take (S n)).
  Proof.
    intros row s. unfold take, Rel.
    destruct (Nat.leb_spec n (nyields (Yield row :: s))) as [H|H].
    - simpl. apply Ext_refl.
    - destruct (Nat.leb_spec (S n) (nyields (Yield row :: s))); [lia | reflexivity].
  Qed.
  Lemma take_rel_all n : krel (take n) take_all.
  Proof.
    intros row s. unfold take, take_all, Rel.
    destruct (n <=? nyields (Yield row :: s)); [simpl; apply Ext_refl | reflexivity].
  Qed.

  Lemma Ext_rev_Prefix s s' : Ext s s' -> Prefix (rev s) (rev s').
  Proof. intros [l ->]. exists (rev l). apply rev_app_distr. Qed.

  Theorem trace_k_prefix_S q n : Prefix (trace_k W D q n) (trace_k W D q (S n)).
  Proof.
    destruct n as [|n]; [eexists; reflexivity|]. unfold trace_k.
    apply Ext_rev_Prefix, Rel_Ext, run_rel; [apply take_rel_S | apply take_mono].
  Qed.
  Theorem trace_k_prefix_full q n : Prefix (trace_k W D q n) (trace_full W D q).
  Proof.
    destruct n as [|n]; [eexists; reflexivity|]. unfold trace_k, trace_full.
    apply Ext_rev_Prefix, Rel_Ext, run_rel; [apply take_rel_all | apply take_all_mono].
  Qed.
End Prefix.

(* ================= 3. every domain is consumed as the prefix 0, 1, 2, ... ================= *)
Lemma pulls_of_app x a b : pulls_of x (a ++ b) = pulls_of x a ++ pulls_of x b.
Proof.
  induction a as [|e a IH]; simpl; [reflexivity|].
  destruct e; simpl; auto. destruct (Nat.eqb x x0); simpl; now rewrite IH.
Qed.
Lemma pulls_of_rev x s : pulls_of x (rev s) = rev (pulls_of x s).
Proof.
  induction s as [|e s IH]; simpl; [reflexivity|]. rewrite pulls_of_app, IH.
  destruct e; simpl; rewrite ?app_nil_r; auto. destruct (Nat.eqb x x0); simpl; now rewrite ?app_nil_r.
Qed.
Lemma pulls_of_length x s : length (pulls_of x s) = npulls x s.
Proof.
  unfold npulls. induction s as [|e s IH]; simpl; [reflexivity|].
  destruct e; simpl; auto. destruct (Nat.eqb x x0); simpl; auto.
Qed.
Lemma npulls_app x a b : npulls x (a ++ b) = npulls x a + npulls x b.
Proof. unfold npulls. now rewrite filter_app, app_length. Qed.
Lemma npulls_Ext x s s' : Ext s s' -> npulls x s <= npulls x s'.
Proof. intros [l ->]. rewrite npulls_app. lia. Qed.

(* on the newest-first store *)
Definition Inv (s : store) : Prop := forall x, pulls_of x s = rev (seq 0 (npulls x s)).

Lemma Inv_nil : Inv []. Proof. intros x. reflexivity. Qed.
Lemma Inv_nonpull e s : (forall x, is_pull x e = false) -> Inv s -> Inv (e :: s).
Proof.
  intros He H x. specialize (H x). specialize (He x). unfold npulls in *. simpl. rewrite He.
  destruct e; simpl in *; auto. rewrite He. exact H.
Qed.
Lemma Inv_pull x s : Inv s -> Inv (Pull x (npulls x s) :: s).
Proof.
  intros H y. specialize (H y). remember (npulls x s) as n eqn:En.
  destruct (Nat.eqb_spec y x) as [->|N].
  - assert (E1 : pulls_of x (Pull x n :: s) = n :: pulls_of x s) by (simpl; now rewrite Nat.eqb_refl).
    assert (E2 : npulls x (Pull x n :: s) = S (npulls x s)) by (unfold npulls; simpl; now rewrite Nat.eqb_refl).
    rewrite E1, E2, seq_S, rev_app_distr, H, <- En. reflexivity.
  - assert (E1 : pulls_of y (Pull x n :: s) = pulls_of y s).
    { simpl. destruct (Nat.eqb_spec y x); [contradiction | reflexivity]. }
    assert (E2 : npulls y (Pull x n :: s) = npulls y s).
    { unfold npulls; simpl. destruct (Nat.eqb_spec y x); [contradiction | reflexivity]. }
    now rewrite E1, E2.
Qed.
Lemma Inv_touch x i s : i <= npulls x s -> Inv s -> Inv (touch x i s) /\ i < npulls x (touch x i s).
Proof.
  intros Hi H. unfold touch. destruct (Nat.ltb_spec i (npulls x s)); [split; auto|].
  assert (i = npulls x s) as -> by lia. split; [apply Inv_pull; auto|].
  unfold npulls. simpl. rewrite Nat.eqb_refl. simpl. lia.
Qed.
Lemma Inv_finish x s : Inv s -> Inv (finish x s).
Proof. unfold finish. intros H. destruct (ended x s); auto; apply Inv_nonpull; auto. Qed.
Lemma Inv_get v a s : Inv s -> Inv (get_ev v a s).
Proof. unfold get_ev. intros H. destruct v; auto; apply Inv_nonpull; auto. Qed.

Definition kinv {A} (k : A -> store -> store * signal) : Prop := forall a s, Inv s -> Inv (fst (k a s)).

Lemma andthen_inv (o : store * signal) f : Inv (fst o) -> (forall s, Inv s -> Inv (fst (f s))) -> Inv (fst (andthen o f)).
Proof. destruct o as [s [|]]; simpl; auto. Qed.
Lemma each_inv {A} (f : A -> store -> store * signal) l : kinv f -> forall s, Inv s -> Inv (fst (each f l s)).
Proof.
  intros Hf. induction l as [|a l IH]; intros s Hs; simpl; auto.
  apply andthen_inv; auto.
Qed.

Section Order.
  Variable W : world.
  Variable D : domains.

  Lemma enum_loop_inv x (k : val -> store -> store * signal) : kmono k -> kinv k -> forall l i s,
    Inv s -> i <= npulls x s ->
    Inv (fst (each (fun iv s0 => k (snd iv) (touch x (fst iv) s0)) (combine (seq i (length l)) l) s)).
  Proof.
    intros Hm Hk. induction l as [|v l IH]; intros i s Hs Hi; simpl; auto.
    destruct (Inv_touch x i s Hi Hs) as [H1 H2].
    pose proof (Hk v _ H1) as H3. pose proof (npulls_Ext x _ _ (Hm v (touch x i s))) as H4.
    destruct (k v (touch x i s)) as [s2 [|]]; simpl in *; auto.
    apply IH; auto. lia.
  Qed.

  Lemma enum_inv x (k : val -> store -> store * signal) : kmono k -> kinv k -> forall s, Inv s -> Inv (fst (enum D x k s)).
  Proof.
    intros Hm Hk s Hs. unfold enum, indexed. apply andthen_inv.
    - apply enum_loop_inv; auto. lia.
    - intros s' H'. simpl. apply Inv_finish; auto.
  Qed.

  Lemma opnd_inv e : forall b k, kmono k -> kinv k -> forall s, Inv s -> Inv (fst (tr_opnd W D e b k s)).
  Proof.
    induction e as [v|x|e IH a]; intros b k Hm Hk s Hs; simpl.
    - apply Hk; auto.
    - destruct (lookup b x); [apply Hk; auto|]. apply enum_inv; auto.
      + intros v s0. apply Hm.
      + intros v s0. apply Hk.
    - apply IH; auto.
      + intros p s1. eapply Ext_trans; [apply Ext_get | apply Hm].
      + intros p s1 H1. apply Hk. apply Inv_get; auto.
  Qed.

  Lemma cond_inv c : forall b k, kmono k -> kinv k -> forall s, Inv s -> Inv (fst (tr_cond W D c b k s)).
  Proof.
    induction c as [op l r|l IHl r IHr|l IHl r IHr|l IHl r IHr|c IH|e c IH|y c IH]; intros b k Hm Hk s Hs; simpl; auto.
    - destruct (right_first b r); apply opnd_inv; auto.
      + intros p1 s1. apply opnd_mono. intros p2 s2. apply Hm.
      + intros p1 s1 H1. apply opnd_inv; auto; [intros p2 s2; apply Hm | intros p2 s2; apply Hk].
      + intros p1 s1. apply opnd_mono. intros p2 s2. apply Hm.
      + intros p1 s1 H1. apply opnd_inv; auto; [intros p2 s2; apply Hm | intros p2 s2; apply Hk].
    - apply IHl; auto.
      + intros p s1. destruct (snd p); [apply Hm | apply cond_mono; auto].
      + intros p s1 H1. destruct (snd p); [apply Hk; auto | apply IHr; auto].
    - apply IHl; auto.
      + intros p s1. destruct (snd p); [apply cond_mono; auto | apply Hm].
      + intros p s1 H1. destruct (snd p); [apply IHr; auto | apply Hk; auto].
    - apply andthen_inv.
      + apply IHl; auto.
        * intros p s1. destruct (snd p); [apply cond_mono; auto | apply Hm].
        * intros p s1 H1. destruct (snd p); [apply IHr; auto | apply Hk; auto].
      + intros s' H'. apply IHr; auto.
        * intros p s1. destruct (snd p); [apply Ext_refl | apply Hm].
        * intros p s1 H1. destruct (snd p); [exact H1 | apply Hk; auto].
    - apply IH; auto.
      + intros p s1. apply Hm.
      + intros p s1. apply Hk.
  Qed.

  Lemma select_inv sels : forall b k, kmono k -> kinv k -> forall s, Inv s -> Inv (fst (tr_select W D sels b k s)).
  Proof.
    induction sels as [|e ss IH]; intros b k Hm Hk s Hs; simpl; [apply Hk; auto|].
    apply opnd_inv; auto.
    - intros p s1. apply select_mono. intros row s2. apply Hm.
    - intros p s1 H1. apply IH; auto; [intros row s2; apply Hm | intros row s2; apply Hk].
  Qed.

  Lemma run_inv q k : kmono k -> kinv k -> forall s, Inv s -> Inv (fst (tr_run W D q k s)).
  Proof.
    intros Hm Hk s Hs. unfold tr_run.
    assert (Hsel : forall b s1, Inv s1 -> Inv (fst (tr_select W D (q_sels q) b k s1))).
    { intros b s1 H1. apply select_inv; auto. }
    destruct (q_cond q) as [c|]; [|apply Hsel; auto].
    apply cond_inv; auto.
    - intros p s1. destruct (snd p); [apply Ext_refl | apply select_mono; auto].
    - intros p s1 H1. destruct (snd p); [exact H1 | apply Hsel; auto].
  Qed.

  Lemma take_inv n : kinv (take n).
  Proof. intros row s Hs. unfold take. simpl. apply Inv_nonpull; auto. Qed.
  Lemma take_all_inv : kinv take_all.
  Proof. intros row s Hs. unfold take_all. simpl. apply Inv_nonpull; auto. Qed.

  Lemma Inv_in_order x s : Inv s -> pulls_in_order x (rev s).
  Proof.
    intros H. unfold pulls_in_order. rewrite pulls_of_rev, rev_length, pulls_of_length, (H x). apply rev_involutive.
  Qed.

  Theorem trace_k_pulls_in_order q n x : pulls_in_order x (trace_k W D q n).
  Proof.
    destruct n as [|n]; [reflexivity|]. unfold trace_k. apply Inv_in_order.
    apply run_inv; [apply take_mono | apply take_inv | apply Inv_nil].
  Qed.
  Theorem trace_full_pulls_in_order q x : pulls_in_order x (trace_full W D q).
  Proof.
    unfold trace_full. apply Inv_in_order.
    apply run_inv; [apply take_all_mono | apply take_all_inv | apply Inv_nil].
  Qed.
End Order.

(* ================= 4. several evaluations over the same variables ================= *)
Section Seq.
  Variable W : world.
  Variable D : domains.

  Lemma run_from_ext q m s : Ext s (run_from W D q m s).
  Proof. destruct m; simpl; [apply Ext_refl | apply run_mono, take_mono]. Qed.
  Lemma run_from_inv q m s : Inv s -> Inv (run_from W D q m s).
  Proof. intros H. destruct m; simpl; auto. apply run_inv; auto; [apply take_mono | apply take_inv]. Qed.

  Lemma fold_run_inv steps : forall s, Inv s -> Inv (fold_left (fun s qm => run_from W D (fst qm) (snd qm) s) steps s).
  Proof. induction steps as [|[q m] steps IH]; intros s H; simpl; auto. apply IH, run_from_inv; auto. Qed.
  Lemma fold_run_ext steps : forall s, Ext s (fold_left (fun s qm => run_from W D (fst qm) (snd qm) s) steps s).
  Proof.
    induction steps as [|[q m] steps IH]; intros s; simpl; [apply Ext_refl|].
    eapply Ext_trans; [apply run_from_ext | apply IH].
  Qed.

  (* a later evaluation continues the index prefix of every domain: nothing is pulled twice, nothing is skipped *)
  Theorem trace_seq_pulls_in_order steps x : pulls_in_order x (trace_seq W D steps).
  Proof. unfold trace_seq, store_seq. apply Inv_in_order, fold_run_inv, Inv_nil. Qed.

  Theorem trace_seq_prefix steps more : Prefix (trace_seq W D steps) (trace_seq W D (steps ++ more)).
  Proof. unfold trace_seq, store_seq. rewrite fold_left_app. apply Ext_rev_Prefix, fold_run_ext. Qed.

  Theorem trace_seq_single q n : trace_seq W D [(q, n)] = trace_k W D q n.
  Proof. destruct n; reflexivity. Qed.

  (* the rows of a later evaluation are again the first m rows of that query: what an earlier, abandoned evaluation left
     in the domain caches does not change them *)
  Lemma run_from_rows q m s : qfree_o (q_cond q) = true ->
    rows_of (run_from W D q m s) = rev (firstn m (run W D q)) ++ rows_of s.
  Proof.
    intros Hq. destruct m as [|m]; [reflexivity|]. unfold run_from.
    set (r0 := rows_of s).
    pose (R := fun (s1 : store) (t : list (list val)) => rows_of s1 = t ++ r0).
    assert (Rev : forall e s1 t, is_yield e = false -> R s1 t -> R (e :: s1) t).
    { unfold R. intros e s1 t He H. rewrite rows_of_nonyield; auto. }
    assert (Hk : ksim (list (list val)) R (take (nyields s + S m)) (take' (S m))).
    { intros row s1 t H. unfold R in H. unfold take, take', R2, R. simpl fst. simpl snd. split.
      - rewrite !nyields_rows. simpl rows_of. rewrite H. fold r0. simpl length. rewrite app_length.
        destruct (Nat.leb_spec (length r0 + S m) (S (length t + length r0)));
          destruct (Nat.leb_spec m (length t)); auto; lia.
      - simpl. now rewrite H. }
    destruct (run_sim W D _ R Rev q _ _ Hq Hk s [] eq_refl) as [_ H].
    unfold R in H. rewrite H, each_take' by (simpl; lia). simpl length. now rewrite Nat.sub_0_r, app_nil_r.
  Qed.

  Theorem trace_seq_rows2 q1 n q2 m : qfree_o (q_cond q1) = true -> qfree_o (q_cond q2) = true ->
    rows_of (trace_seq W D [(q1, n); (q2, m)]) = firstn n (run W D q1) ++ firstn m (run W D q2).
  Proof.
    intros H1 H2. unfold trace_seq, store_seq. simpl. rewrite rows_of_rev, !run_from_rows by auto. simpl.
    rewrite app_nil_r, rev_app_distr, !rev_involutive. reflexivity.
  Qed.
End Seq.
