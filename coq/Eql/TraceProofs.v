(* C10 -- proofs about the instrumented evaluator Eql/Trace.v (quantifiers included):
   0. the log only grows; the scratch list of an Exists call is written by that call only;
   1. bridge: it hands out exactly the rows of the list-monad model Eql/Eval.v, in order, and the n-stopped run the first n;
   2. the log of a run that stops earlier is a prefix of the log of a run that stops later;
   3. every domain is consumed as the prefix 0, 1, 2, ... (each element pulled at most once, in order);
   4. the same over sequences of evaluations that share variables. *)
From Coq Require Import List ZArith Bool Arith Lia.
From Krrood Require Import Eql.Syntax Eql.Sat Eql.Eval Eql.TraceSpec Eql.Trace.
Import ListNotations.
Open Scope nat_scope.

Definition qfree_o (c : option cond) : bool := match c with Some c => qfree c | None => true end.

(* ================= generic facts about [each] / [andthen] ================= *)
Lemma andthen_ret {S} (o : S * signal) : andthen o (fun s => (s, Continue)) = o.
Proof. destruct o as [s [|]]; reflexivity. Qed.

Lemma andthen_assoc {S} (o : S * signal) f g : andthen (andthen o f) g = andthen o (fun s => andthen (f s) g).
Proof. destruct o as [s [|]]; reflexivity. Qed.

Lemma each_one {S A} (f : A -> S -> S * signal) a s : each f [a] s = f a s.
Proof. simpl. apply andthen_ret. Qed.

Lemma each_app {S A} (f : A -> S -> S * signal) l1 l2 s :
  each f (l1 ++ l2) s = andthen (each f l1 s) (each f l2).
Proof.
  revert s; induction l1 as [|a l1 IH]; intros s; simpl; [reflexivity|].
  rewrite andthen_assoc. destruct (f a s) as [s' [|]]; simpl; auto.
Qed.

Lemma each_ext {S A} (f g : A -> S -> S * signal) l s :
  (forall a s0, f a s0 = g a s0) -> each f l s = each g l s.
Proof.
  intros H; revert s; induction l as [|a l IH]; intros s; simpl; [reflexivity|].
  rewrite H. destruct (g a s) as [s' [|]]; simpl; auto.
Qed.

Lemma each_flat_map {S A B} (g : A -> list B) (f : B -> S -> S * signal) l s :
  each f (flat_map g l) s = each (fun a s0 => each f (g a) s0) l s.
Proof.
  revert s; induction l as [|a l IH]; intros s; simpl; [reflexivity|].
  rewrite each_app. destruct (each f (g a) s) as [s' [|]]; simpl; auto.
Qed.

Lemma each_map {S A B} (g : A -> B) (f : B -> S -> S * signal) l s :
  each f (map g l) s = each (fun a s0 => f (g a) s0) l s.
Proof.
  revert s; induction l as [|a l IH]; intros s; simpl; [reflexivity|].
  destruct (f (g a) s) as [s' [|]]; simpl; auto.
Qed.

Lemma each_filter {S A} (p : A -> bool) (f : A -> S -> S * signal) l s :
  each f (filter p l) s = each (fun a s0 => if p a then f a s0 else (s0, Continue)) l s.
Proof.
  revert s; induction l as [|a l IH]; intros s; simpl; [reflexivity|].
  destruct (p a); simpl; [|apply IH].
  destruct (f a s) as [s' [|]]; simpl; auto.
Qed.

Lemma each_skip {S A} (l : list A) (s : S) : each (fun _ s0 => (s0, Continue)) l s = (s, Continue).
Proof. induction l; simpl; auto. Qed.

Lemma map_snd_indexed {A} (l : list A) : forall n, map snd (combine (seq n (length l)) l) = l.
Proof. induction l as [|a l IH]; intros n; simpl; [reflexivity|]. now rewrite IH. Qed.

(* ================= 1. simulation by the list-monad model ================= *)

(* ================= 0. the log only grows ================= *)
Definition Ext (s s' : store) : Prop := exists l, s' = l ++ s.
Lemma Ext_refl s : Ext s s. Proof. exists []; reflexivity. Qed.
Lemma Ext_trans a b c : Ext a b -> Ext b c -> Ext a c.
Proof. intros [l ->] [m ->]. exists (m ++ l). now rewrite app_assoc. Qed.
Lemma Ext_cons e s : Ext s (e :: s). Proof. exists [e]; reflexivity. Qed.
Lemma Ext_touch x i s : Ext s (touch x i s).
Proof. unfold touch. destruct (i <? npulls x s); [apply Ext_refl | apply Ext_cons]. Qed.
Lemma Ext_finish x s : Ext s (finish x s).
Proof. unfold finish. destruct (ended x s); [apply Ext_refl | apply Ext_cons]. Qed.
Lemma Ext_get v a s : Ext s (get_ev v a s).
Proof. unfold get_ev. destruct v; try apply Ext_refl. apply Ext_cons. Qed.
#[global] Hint Resolve Ext_refl Ext_cons Ext_touch Ext_finish Ext_get : ext.

Definition kmono {A} (k : A -> store -> store * signal) : Prop := forall a s, Ext s (fst (k a s)).
Definition Rel (oA oB : store * signal) : Prop :=
  match oA with
  | (sA, Continue) => oB = (sA, Continue)
  | (sA, Stop) => Ext sA (fst oB)
  end.
Definition krel {A} (kA kB : A -> store -> store * signal) : Prop := forall a s, Rel (kA a s) (kB a s).

Lemma Rel_Ext oA oB : Rel oA oB -> Ext (fst oA) (fst oB).
Proof. destruct oA as [sA [|]]; simpl; [intros ->; apply Ext_refl | auto]. Qed.

Lemma andthen_mono s (o : store * signal) f :
  Ext s (fst o) -> (forall s', Ext s' (fst (f s'))) -> Ext s (fst (andthen o f)).
Proof. destruct o as [s1 [|]]; simpl; intros H Hf; auto. eapply Ext_trans; eauto. Qed.

Lemma each_mono {A} (f : A -> store -> store * signal) l : kmono f -> forall s, Ext s (fst (each f l s)).
Proof.
  intros Hf. induction l as [|a l IH]; intros s; simpl; [apply Ext_refl|].
  apply andthen_mono; auto.
Qed.

Lemma andthen_rel oA oB fA fB :
  Rel oA oB -> (forall s, Rel (fA s) (fB s)) -> (forall s, Ext s (fst (fB s))) ->
  Rel (andthen oA fA) (andthen oB fB).
Proof.
  destruct oA as [sA [|]]; simpl; intros H Hf Hm.
  - subst oB. simpl. apply Hf.
  - apply andthen_mono; auto.
Qed.

Lemma each_rel {A} (f g : A -> store -> store * signal) l :
  krel f g -> kmono g -> forall s, Rel (each f l s) (each g l s).
Proof.
  intros Hr Hm. induction l as [|a l IH]; intros s; simpl; [reflexivity|].
  apply andthen_rel; auto. intros s'. apply each_mono; auto.
Qed.

Lemma each_stop {S A} (l : list A) (s : S) : fst (each (fun _ s0 => (s0, Stop)) l s) = s.
Proof. destruct l; reflexivity. Qed.

Lemma Ext_length s s' : Ext s s' -> length s <= length s'.
Proof. intros [l ->]. rewrite app_length. lia. Qed.

(* the loop of ForAll, for any evaluator of its condition whose log only grows *)
Section ForAllMono.
  Variable trc : binds -> (res -> store -> store * signal) -> store -> store * signal.
  Variable evalc : binds -> list res.
  Variable y : var.
  Variable others : list var.
  Hypothesis trc_mono : forall b k, kmono k -> forall s, Ext s (fst (trc b k s)).

  Lemma drain_full_mono b s : Ext s (drain_full trc b s).
  Proof. unfold drain_full. apply trc_mono. intros a s1. apply Ext_refl. Qed.
  Lemma drain_first_mono b s : Ext s (drain_first trc b s).
  Proof. unfold drain_first. apply trc_mono. intros a s1. apply Ext_refl. Qed.
  Lemma narrow_events_mono bv ss : forall s, Ext s (narrow_events trc bv ss s).
  Proof.
    unfold narrow_events. induction ss as [|s1 ss IH]; intros s; simpl; [apply Ext_refl|].
    eapply Ext_trans; [apply drain_first_mono | apply IH].
  Qed.
  Lemma fa_step_mono bv S s : Ext s (snd (fa_step trc evalc others bv S s)).
  Proof. destruct S; simpl; [apply narrow_events_mono | apply drain_full_mono]. Qed.
  Lemma fa_loop_mono b ivs : forall S s, Ext s (snd (fa_loop trc evalc y others b ivs S s)).
  Proof.
    induction ivs as [|iv rest IH]; intros S s; simpl; [apply Ext_finish|].
    pose proof (fa_step_mono ((y, snd iv) :: b) S (touch y (fst iv) s)) as H.
    destruct (fst (fa_step trc evalc others ((y, snd iv) :: b) S (touch y (fst iv) s))); simpl.
    - eapply Ext_trans; [apply Ext_touch | exact H].
    - eapply Ext_trans; [apply Ext_touch|]. eapply Ext_trans; [exact H | apply IH].
  Qed.
End ForAllMono.

Section Mono.
  Variable W : world.
  Variable D : domains.

  Lemma enum_mono x k : kmono k -> kmono (fun (_ : unit) => enum D x k).
  Proof.
    intros Hk _ s. unfold enum. apply andthen_mono.
    - apply each_mono. intros iv s0. eapply Ext_trans; [apply Ext_touch | apply Hk].
    - intros s'. simpl. apply Ext_finish.
  Qed.

  Lemma opnd_mono e : forall b k, kmono k -> forall s, Ext s (fst (tr_opnd W D e b k s)).
  Proof.
    induction e as [v|x|e IH a]; intros b k Hk s; simpl.
    - apply Hk.
    - destruct (lookup b x); [apply Hk|]. apply (enum_mono x _ (fun v s0 => Hk _ s0) tt).
    - apply IH. intros p s1. eapply Ext_trans; [apply Ext_get | apply Hk].
  Qed.

  Lemma cond_mono c : forall b k, kmono k -> forall s, Ext s (fst (tr_cond W D c b k s)).
  Proof.
    induction c as [op l r|l IHl r IHr|l IHl r IHr|l IHl r IHr|c IH|e c IH|y c IH]; intros b k Hk s; simpl.
    - destruct (right_first b r); apply opnd_mono; intros p1 s1; apply opnd_mono; intros p2 s2; apply Hk.
    - apply IHl. intros p s1. destruct (snd p); [apply Hk | apply IHr; auto].
    - apply IHl. intros p s1. destruct (snd p); [apply IHr; auto | apply Hk].
    - apply andthen_mono.
      + apply IHl. intros p s1. destruct (snd p); [apply IHr; auto | apply Hk].
      + intros s'. eapply Ext_trans; [apply Ext_cons|]. apply IHr; auto. intros p s1. destruct (snd p); [apply Ext_refl | apply Hk].
    - apply IH. intros p s1. apply Hk.
    - eapply Ext_trans; [apply Ext_cons|]. apply IH. intros p s1. destruct (snd p); [apply Ext_refl|].
      destruct (existsb _ _); [apply Ext_refl|]. eapply Ext_trans; [apply Ext_cons | apply Hk].
    - destruct (lookup b y).
      + pose proof (fa_step_mono (tr_cond W D c) (eval W D c) (remove_var y (cond_vars c)) (fun b0 k0 H0 => IH b0 k0 H0)
                                 b None s) as H.
        eapply Ext_trans; [exact H | apply each_mono; auto].
      + pose proof (fa_loop_mono (tr_cond W D c) (eval W D c) y (remove_var y (cond_vars c)) (fun b0 k0 H0 => IH b0 k0 H0)
                                 b (indexed (D y)) None s) as H.
        destruct (fst (fa_loop _ _ _ _ _ _ _ _)); [|eapply Ext_trans; [exact H | apply Hk]].
        eapply Ext_trans; [exact H | apply each_mono; auto].
  Qed.

  Lemma select_mono sels : forall b k, kmono k -> forall s, Ext s (fst (tr_select W D sels b k s)).
  Proof.
    induction sels as [|e ss IH]; intros b k Hk s; simpl; [apply Hk|].
    apply opnd_mono. intros p s1. apply IH. intros row s2. apply Hk.
  Qed.
  Lemma run_mono q k : kmono k -> forall s, Ext s (fst (tr_run W D q k s)).
  Proof.
    intros Hk s. unfold tr_run. destruct (q_cond q) as [c|]; [|apply select_mono; auto].
    apply cond_mono. intros p s1. destruct (snd p); [apply Ext_refl | apply select_mono; auto].
  Qed.
  Lemma take_mono n : kmono (take n).
  Proof. intros row s. unfold take. simpl. apply Ext_cons. Qed.
  Lemma take_all_mono : kmono take_all.
  Proof. intros row s. unfold take_all. simpl. apply Ext_cons. Qed.
End Mono.

(* ================= 0b. the scratch list of an Exists call is written by that call only ================= *)
Definition is_note (n : nat) (e : event) : bool := match e with Note m _ => Nat.eqb n m | _ => false end.
Lemma notes_cons_other n e s : is_note n e = false -> notes n (e :: s) = notes n s.
Proof. destruct e; simpl; auto. intros H. now rewrite H. Qed.

(* [Q n s s']: the log grew and frame n's scratch list is untouched *)
Definition Q (n : nat) (s s' : store) : Prop := Ext s s' /\ notes n s' = notes n s.
Lemma Q_refl n s : Q n s s. Proof. split; [apply Ext_refl | reflexivity]. Qed.
Lemma Q_trans n a b c : Q n a b -> Q n b c -> Q n a c.
Proof. intros [E1 N1] [E2 N2]. split; [eapply Ext_trans; eauto | congruence]. Qed.
Lemma Q_cons n e s : is_note n e = false -> Q n s (e :: s).
Proof. intros H. split; [apply Ext_cons | apply notes_cons_other; auto]. Qed.
Lemma Q_touch n x i s : Q n s (touch x i s).
Proof. unfold touch. destruct (i <? npulls x s); [apply Q_refl | apply Q_cons; reflexivity]. Qed.
Lemma Q_finish n x s : Q n s (finish x s).
Proof. unfold finish. destruct (ended x s); [apply Q_refl | apply Q_cons; reflexivity]. Qed.
Lemma Q_get n v a s : Q n s (get_ev v a s).
Proof. unfold get_ev. destruct v; try apply Q_refl. apply Q_cons; reflexivity. Qed.
Lemma Q_length n s s' : Q n s s' -> length s <= length s'.
Proof. intros [E _]. apply Ext_length; auto. Qed.

Definition kq {A} (n : nat) (k : A -> store -> store * signal) : Prop :=
  forall a s, n < length s -> Q n s (fst (k a s)).

Lemma andthen_Q n s (o : store * signal) f :
  n < length s -> Q n s (fst o) -> (forall s', n < length s' -> Q n s' (fst (f s'))) -> Q n s (fst (andthen o f)).
Proof.
  destruct o as [s1 [|]]; simpl; intros Hn H Hf; auto.
  eapply Q_trans; [exact H | apply Hf]. pose proof (Q_length _ _ _ H). lia.
Qed.
Lemma each_Q {A} n (f : A -> store -> store * signal) l : kq n f -> forall s, n < length s -> Q n s (fst (each f l s)).
Proof.
  intros Hf. induction l as [|a l IH]; intros s Hn; simpl; [apply Q_refl|].
  apply andthen_Q; auto.
Qed.

Section ForAllQuiet.
  Variable trc : binds -> (res -> store -> store * signal) -> store -> store * signal.
  Variable evalc : binds -> list res.
  Variable y : var.
  Variable others : list var.
  Variable n : nat.
  Hypothesis trc_q : forall b k, kq n k -> forall s, n < length s -> Q n s (fst (trc b k s)).

  Lemma drain_full_Q b s : n < length s -> Q n s (drain_full trc b s).
  Proof. intros Hn. unfold drain_full. apply trc_q; auto. intros a s1 H1. apply Q_refl. Qed.
  Lemma drain_first_Q b s : n < length s -> Q n s (drain_first trc b s).
  Proof. intros Hn. unfold drain_first. apply trc_q; auto. intros a s1 H1. apply Q_refl. Qed.
  Lemma narrow_events_Q bv ss : forall s, n < length s -> Q n s (narrow_events trc bv ss s).
  Proof.
    unfold narrow_events. induction ss as [|s1 ss IH]; intros s Hn; simpl; [apply Q_refl|].
    pose proof (drain_first_Q (bv ++ s1) s Hn) as H. eapply Q_trans; [exact H | apply IH].
    pose proof (Q_length _ _ _ H). lia.
  Qed.
  Lemma fa_step_Q bv S s : n < length s -> Q n s (snd (fa_step trc evalc others bv S s)).
  Proof. intros Hn. destruct S; simpl; [apply narrow_events_Q | apply drain_full_Q]; auto. Qed.
  Lemma fa_loop_Q b ivs : forall S s, n < length s -> Q n s (snd (fa_loop trc evalc y others b ivs S s)).
  Proof.
    induction ivs as [|iv rest IH]; intros S s Hn; simpl; [apply Q_finish|].
    pose proof (Q_touch n y (fst iv) s) as H0.
    assert (Hn1 : n < length (touch y (fst iv) s)) by (pose proof (Q_length _ _ _ H0); lia).
    pose proof (fa_step_Q ((y, snd iv) :: b) S _ Hn1) as H.
    destruct (fst (fa_step trc evalc others ((y, snd iv) :: b) S (touch y (fst iv) s))); simpl.
    - eapply Q_trans; eauto.
    - eapply Q_trans; [exact H0|]. eapply Q_trans; [exact H | apply IH]. pose proof (Q_length _ _ _ H). lia.
  Qed.
End ForAllQuiet.

Section Quiet.
  Variable W : world.
  Variable D : domains.
  Variable n : nat.

  Lemma enum_Q x (k : val -> store -> store * signal) : kq n k -> forall s, n < length s -> Q n s (fst (enum D x k s)).
  Proof.
    intros Hk s Hn. unfold enum. apply andthen_Q; auto.
    - apply each_Q; auto. intros iv s0 H0. pose proof (Q_touch n x (fst iv) s0) as H.
      eapply Q_trans; [exact H | apply Hk]. pose proof (Q_length _ _ _ H). lia.
    - intros s' H'. simpl. apply Q_finish.
  Qed.

  Lemma opnd_Q e : forall b (k : binds * val -> store -> store * signal), kq n k ->
    forall s, n < length s -> Q n s (fst (tr_opnd W D e b k s)).
  Proof.
    induction e as [v|x|e IH a]; intros b k Hk s Hn; simpl.
    - apply Hk; auto.
    - destruct (lookup b x); [apply Hk; auto|]. apply enum_Q; auto. intros v s0 H0. apply Hk; auto.
    - apply IH; auto. intros p s1 H1. pose proof (Q_get n (snd p) a s1) as H.
      eapply Q_trans; [exact H | apply Hk]. pose proof (Q_length _ _ _ H). lia.
  Qed.

  Lemma cond_Q c : forall b (k : res -> store -> store * signal), kq n k ->
    forall s, n < length s -> Q n s (fst (tr_cond W D c b k s)).
  Proof.
    induction c as [op l r|l IHl r IHr|l IHl r IHr|l IHl r IHr|c IH|e c IH|y c IH]; intros b k Hk s Hn; simpl.
    - destruct (right_first b r); apply opnd_Q; auto; intros p1 s1 H1; apply opnd_Q; auto; intros p2 s2 H2; apply Hk; auto.
    - apply IHl; auto. intros p s1 H1. destruct (snd p); [apply Hk; auto | apply IHr; auto].
    - apply IHl; auto. intros p s1 H1. destruct (snd p); [apply IHr; auto | apply Hk; auto].
    - apply andthen_Q; auto.
      + apply IHl; auto. intros p s1 H1. destruct (snd p); [apply IHr; auto | apply Hk; auto].
      + intros s' H'. eapply Q_trans; [apply (Q_cons n Pass); reflexivity|]. apply IHr; [|simpl; lia]. intros p s1 H1. destruct (snd p); [apply Q_refl | apply Hk; auto].
    - apply IH; auto. intros p s1 H1. apply Hk; auto.
    - assert (Hne : Nat.eqb n (length s) = false) by (apply Nat.eqb_neq; lia).
      eapply Q_trans; [apply (Q_cons n (Frame (length s))); reflexivity|].
      apply IH; [|simpl; lia]. intros p s1 H1. destruct (snd p); [apply Q_refl|].
      destruct (existsb _ _); [apply Q_refl|].
      eapply Q_trans; [apply (Q_cons n (Note (length s) (map (lookup (fst p)) (exists_others e c))) s1); simpl; exact Hne | apply Hk; simpl; lia].
    - destruct (lookup b y).
      + pose proof (fa_step_Q (tr_cond W D c) (eval W D c) (remove_var y (cond_vars c)) n (fun b0 k0 H0 => IH b0 k0 H0)
                              b None s Hn) as H. simpl in H.
        eapply Q_trans; [exact H | apply each_Q; auto]. pose proof (Q_length _ _ _ H). lia.
      + pose proof (fa_loop_Q (tr_cond W D c) (eval W D c) y (remove_var y (cond_vars c)) n (fun b0 k0 H0 => IH b0 k0 H0)
                              b (indexed (D y)) None s Hn) as H.
        pose proof (Q_length _ _ _ H) as HL.
        destruct (fst (fa_loop _ _ _ _ _ _ _ _)); [|eapply Q_trans; [exact H | apply Hk; lia]].
        eapply Q_trans; [exact H | apply each_Q; auto; lia].
  Qed.

  Lemma select_Q sels : forall b (k : list val -> store -> store * signal), kq n k ->
    forall s, n < length s -> Q n s (fst (tr_select W D sels b k s)).
  Proof.
    induction sels as [|e ss IH]; intros b k Hk s Hn; simpl; [apply Hk; auto|].
    apply opnd_Q; auto. intros p s1 H1. apply IH; auto. intros row s2 H2. apply Hk; auto.
  Qed.
End Quiet.

(* ================= 1. simulation by the list-monad model ================= *)
(* frame tags are positions in the log: every scratch entry belongs to a frame opened earlier *)
Definition tags_lt (s : store) : Prop := forall n key, In (Note n key) s -> n < length s.
Lemma tags_lt_nil : tags_lt []. Proof. intros n key []. Qed.
Lemma notes_none m s : (forall n key, In (Note n key) s -> n <> m) -> notes m s = [].
Proof.
  induction s as [|e s IH]; intros H; simpl; [reflexivity|].
  destruct e; try (apply IH; intros n0 key0 Hin; apply (H n0 key0); right; exact Hin).
  destruct (Nat.eqb_spec m n) as [->|N].
  - exfalso. apply (H n key); [left; reflexivity | reflexivity].
  - apply IH. intros n0 key0 Hin. apply (H n0 key0). right. exact Hin.
Qed.
Lemma tags_lt_fresh s : tags_lt s -> notes (length s) s = [].
Proof. intros H. apply notes_none. intros n key Hin. specialize (H n key Hin). lia. Qed.
Lemma tags_lt_cons e s : (forall n key, e = Note n key -> n < length s) -> tags_lt s -> tags_lt (e :: s).
Proof.
  intros He H n key [Heq|Hin]; simpl.
  - specialize (He n key Heq). lia.
  - specialize (H n key Hin). lia.
Qed.

Definition R2 {T} (R : store -> T -> Prop) (o : store * signal) (o' : T * signal) : Prop :=
  snd o = snd o' /\ R (fst o) (fst o').
Definition ksim {T A} (R : store -> T -> Prop) (k : A -> store -> store * signal) (k' : A -> T -> T * signal) : Prop :=
  forall a s t, R s t -> R2 R (k a s) (k' a t).
(* the relation survives every event the evaluator writes (scratch entries only of frames at or above [lo]) and implies
   well-formed tags *)
Definition Rok {T} (lo : nat) (R : store -> T -> Prop) : Prop :=
  (forall e s t, is_yield e = false -> (forall n key, e = Note n key -> lo <= n /\ n < length s) -> R s t -> R (e :: s) t)
  /\ (forall s t, R s t -> tags_lt s /\ lo <= length s).

Lemma andthen_sim {T} (R : store -> T -> Prop) o o' f f' :
  R2 R o o' -> (forall s t, R s t -> R2 R (f s) (f' t)) -> R2 R (andthen o f) (andthen o' f').
Proof.
  destruct o as [s sg], o' as [t sg']. intros [H1 H2] Hf. simpl in *. subst sg'.
  destruct sg; simpl; [apply Hf; auto | split; auto].
Qed.

Lemma each_sim {T A B} (R : store -> T -> Prop) (g : A -> B) (f : A -> store -> store * signal) (k' : B -> T -> T * signal) l :
  (forall a s t, R s t -> R2 R (f a s) (k' (g a) t)) ->
  forall s t, R s t -> R2 R (each f l s) (each k' (map g l) t).
Proof.
  intros H. induction l as [|a l IH]; intros s t HR; simpl; [split; auto|].
  apply andthen_sim; auto.
Qed.

(* the scratch-threading consumer of Exists on the list-monad side, and what it computes *)
Definition exists_k' {T} (others : list var) (k' : res -> T -> T * signal)
           (p : res) (ts : T * list (list (option val))) : (T * list (list (option val))) * signal :=
  if snd p then (ts, Continue)
  else let key := map (lookup (fst p)) others in
       if existsb (key_eqb key) (snd ts) then (ts, Continue)
       else let o := k' (fst p, false) (fst ts) in ((fst o, key :: snd ts), snd o).

Lemma exists_each {T} others (k' : res -> T -> T * signal) rs : forall ts,
  fst (fst (each (exists_k' others k') rs ts)) = fst (each k' (exists_scan others (snd ts) rs) (fst ts)) /\
  snd (each (exists_k' others k') rs ts) = snd (each k' (exists_scan others (snd ts) rs) (fst ts)).
Proof.
  induction rs as [|[b1 f] rs IH]; intros [t seen]; simpl; [split; reflexivity|].
  unfold exists_k' at 1 3. simpl. destruct f; simpl; [apply (IH (t, seen))|].
  destruct (existsb (key_eqb (map (lookup b1) others)) seen); simpl; [apply (IH (t, seen))|].
  destruct (k' (b1, false) t) as [t2 [|]]; simpl; [|split; reflexivity].
  apply (IH (t2, map (lookup b1) others :: seen)).
Qed.

(* the value the ForAll loop computes does not depend on the log, and is the list-monad model's *)
Section ForAllVal.
  Variable evalc : binds -> list res.
  Variable others : list var.

  Fixpoint fa_vals (bvs : list binds) (S : option (list binds)) : option (list binds) :=
    match bvs with
    | [] => S
    | bv :: rest =>
        match (match S with None => candidates evalc others bv | Some ss => narrow evalc bv ss end) with
        | [] => Some []
        | S' => fa_vals rest (Some S')
        end
    end.
  Lemma fold_narrow_nil bvs : fold_left (fun ss bv => narrow evalc bv ss) bvs [] = [].
  Proof. induction bvs; simpl; auto. Qed.
  Lemma fa_vals_some bvs : forall ss, fa_vals bvs (Some ss) = Some (fold_left (fun ss0 bv => narrow evalc bv ss0) bvs ss).
  Proof.
    induction bvs as [|bv rest IH]; intros ss; simpl; [reflexivity|].
    destruct (narrow evalc bv ss) eqn:E; [now rewrite fold_narrow_nil | apply IH].
  Qed.
  Lemma fa_vals_none bv rest :
    fa_vals (bv :: rest) None = Some (fold_left (fun ss0 bv0 => narrow evalc bv0 ss0) rest (candidates evalc others bv)).
  Proof. simpl. destruct (candidates evalc others bv) eqn:E; [now rewrite fold_narrow_nil | apply fa_vals_some]. Qed.

  Lemma fa_loop_val trc y b ivs : forall S s,
    fst (fa_loop trc evalc y others b ivs S s) = fa_vals (map (fun iv : nat * val => (y, snd iv) :: b) ivs) S.
  Proof.
    induction ivs as [|iv rest IH]; intros S s; simpl; [reflexivity|].
    assert (E : fst (fa_step trc evalc others ((y, snd iv) :: b) S (touch y (fst iv) s))
                = match S with None => candidates evalc others ((y, snd iv) :: b) | Some ss => narrow evalc ((y, snd iv) :: b) ss end)
      by (destruct S; reflexivity).
    rewrite E. destruct (match S with None => _ | Some ss => _ end); [reflexivity | apply IH].
  Qed.
End ForAllVal.

Section Sim.
  Variable W : world.
  Variable D : domains.

  Section WithR.
    Variable T : Type.
    Variable R : store -> T -> Prop.
    Variable lo : nat.
    Hypothesis HR : Rok lo R.

    Lemma R_plain e s t : is_yield e = false -> (forall n key, e <> Note n key) -> R s t -> R (e :: s) t.
    Proof. intros H1 H2 H. apply (proj1 HR); auto. intros n key E. exfalso. apply (H2 n key E). Qed.
    Lemma R_touch x i s t : R s t -> R (touch x i s) t.
    Proof. unfold touch. intros H. destruct (i <? npulls x s); auto. apply R_plain; auto. intros n key E; discriminate. Qed.
    Lemma R_finish x s t : R s t -> R (finish x s) t.
    Proof. unfold finish. intros H. destruct (ended x s); auto. apply R_plain; auto. intros n key E; discriminate. Qed.
    Lemma R_get v a s t : R s t -> R (get_ev v a s) t.
    Proof. unfold get_ev. intros H. destruct v; auto. apply R_plain; auto. intros n key E; discriminate. Qed.

    Lemma enum_sim x (k : val -> store -> store * signal) (k' : val -> T -> T * signal) :
      ksim R k k' -> forall s t, R s t -> R2 R (enum D x k s) (each k' (D x) t).
    Proof.
      intros Hk s t HRst. unfold enum, indexed.
      rewrite <- (andthen_ret (each k' (D x) t)).
      apply andthen_sim.
      - replace (each k' (D x) t) with (each k' (map snd (combine (seq 0 (length (D x))) (D x))) t)
          by (now rewrite map_snd_indexed).
        apply each_sim; auto. intros iv s0 t0 H0. apply Hk. apply R_touch; auto.
      - intros s' t' H'. split; simpl; auto. apply R_finish; auto.
    Qed.

    Lemma opnd_sim e : forall b (k : binds * val -> store -> store * signal) k',
      ksim R k k' -> forall s t, R s t -> R2 R (tr_opnd W D e b k s) (each k' (ev_opnd W D e b) t).
    Proof.
      induction e as [v|x|e IH a]; intros b k k' Hk s t HRst; simpl.
      - rewrite andthen_ret. apply Hk; auto.
      - destruct (lookup b x) as [v|].
        + rewrite each_one. apply Hk; auto.
        + rewrite each_map. apply enum_sim; auto. intros v s0 t0 H0. apply Hk; auto.
      - rewrite each_map. apply IH; auto. intros p s0 t0 H0. apply Hk. apply R_get; auto.
    Qed.

    (* the ForAll loop, given that evaluating its condition with a consumer that hands nothing out keeps the relation *)
    Section ForAllSim.
      Variable trc : binds -> (res -> store -> store * signal) -> store -> store * signal.
      Variable evalc : binds -> list res.
      Variable y : var.
      Variable others : list var.
      Hypothesis full_sim : forall b s t, R s t -> R (drain_full trc b s) t.
      Hypothesis first_sim : forall b s t, R s t -> R (drain_first trc b s) t.

      Lemma narrow_events_sim bv ss : forall s t, R s t -> R (narrow_events trc bv ss s) t.
      Proof. unfold narrow_events. induction ss as [|s1 ss IH]; intros s t H; simpl; auto. Qed.
      Lemma fa_step_sim bv S s t : R s t -> R (snd (fa_step trc evalc others bv S s)) t.
      Proof. intros H. destruct S; simpl; [apply narrow_events_sim | apply full_sim]; auto. Qed.
      Lemma fa_loop_sim b ivs : forall S s t, R s t -> R (snd (fa_loop trc evalc y others b ivs S s)) t.
      Proof.
        induction ivs as [|iv rest IH]; intros S s t H; simpl; [apply R_finish; auto|].
        pose proof (fa_step_sim ((y, snd iv) :: b) S _ t (R_touch y (fst iv) s t H)) as H1.
        destruct (fst (fa_step trc evalc others ((y, snd iv) :: b) S (touch y (fst iv) s))); simpl; auto.
      Qed.
    End ForAllSim.
  End WithR.

  Lemma cond_sim c : forall T (R : store -> T -> Prop) lo, Rok lo R ->
    forall b (k : res -> store -> store * signal) k',
    ksim R k k' -> (forall n, lo <= n -> kq n k) ->
    forall s t, R s t -> R2 R (tr_cond W D c b k s) (each k' (eval W D c b) t).
  Proof.
    induction c as [op l r|l IHl r IHr|l IHl r IHr|l IHl r IHr|c IH|e c IH|y c IH];
      intros T R lo HR b k k' Hk Hq s t HRst.
    - simpl. unfold ev_cmp. destruct (right_first b r); rewrite each_flat_map.
      + eapply opnd_sim; eauto. intros p1 s1 t1 H1. rewrite each_map. eapply opnd_sim; eauto.
        intros p2 s2 t2 H2. apply Hk; auto.
      + eapply opnd_sim; eauto. intros p1 s1 t1 H1. rewrite each_map. eapply opnd_sim; eauto.
        intros p2 s2 t2 H2. apply Hk; auto.
    - simpl. rewrite each_flat_map. eapply IHl; eauto.
      + intros p s1 t1 H1. destruct (snd p).
        * rewrite each_one. apply Hk; auto.
        * eapply IHr; eauto.
      + intros n Hn p s1 H1. destruct (snd p); [apply Hq; auto | apply cond_Q; auto].
    - simpl. rewrite each_flat_map. eapply IHl; eauto.
      + intros p s1 t1 H1. destruct (snd p).
        * eapply IHr; eauto.
        * rewrite each_one. apply Hk; auto.
      + intros n Hn p s1 H1. destruct (snd p); [apply cond_Q; auto | apply Hq; auto].
    - simpl. rewrite each_app. apply andthen_sim.
      + rewrite each_flat_map. eapply IHl; eauto.
        * intros p s1 t1 H1. destruct (snd p).
          -- eapply IHr; eauto.
          -- rewrite each_one. apply Hk; auto.
        * intros n Hn p s1 H1. destruct (snd p); [apply cond_Q; auto | apply Hq; auto].
      + intros s' t' H'. rewrite each_filter. eapply IHr; eauto.
        * intros p s1 t1 H1. destruct (snd p); simpl; [split; auto | apply Hk; auto].
        * intros n Hn p s1 H1. destruct (snd p); [apply Q_refl | apply Hq; auto].
        * apply (proj1 HR); auto. intros n key E; discriminate.
    - simpl. rewrite each_map. eapply IH; eauto.
      + intros p s1 t1 H1. apply Hk; auto.
      + intros n Hn p s1 H1. apply Hq; auto.
    - (* Exists *)
      simpl. set (others := exists_others e c). set (fid := length s).
      destruct (proj2 HR s t HRst) as [Htags Hlo].
      pose (R' := fun (s1 : store) (ts : T * list (list (option val))) =>
                    R s1 (fst ts) /\ notes fid s1 = snd ts /\ fid < length s1).
      assert (HR' : Rok (S fid) R').
      { split.
        - intros ev s1 ts Hy Htag (H1 & H2 & H3). split; [|split].
          + apply (proj1 HR); auto. intros n key E. destruct (Htag n key E). unfold fid in *. lia.
          + rewrite notes_cons_other; auto. destruct ev; simpl; auto.
            destruct (Htag n key eq_refl). apply Nat.eqb_neq. lia.
          + simpl. lia.
        - intros s1 ts (H1 & H2 & H3). destruct (proj2 HR _ _ H1). split; auto. }
      pose (kx := fun (p : res) (s1 : store) =>
                         if snd p then (s1, Continue)
                         else if existsb (key_eqb (map (lookup (fst p)) others)) (notes fid s1) then (s1, Continue)
                              else k (fst p, false) (Note fid (map (lookup (fst p)) others) :: s1)).
      assert (Hsim' : ksim R' kx
                       (exists_k' others k')).
      { intros p s1 [t1 seen] (H1 & H2 & H3). unfold exists_k', kx. simpl in *.
        destruct (snd p); [split; [reflexivity | split; auto]|].
        rewrite H2. destruct (existsb _ seen); [split; [reflexivity | split; auto]|].
        set (key := map (lookup (fst p)) others).
        assert (HRn : R (Note fid key :: s1) t1).
        { apply (proj1 HR); auto. intros n key0 E. inversion E; subst. unfold fid in *. lia. }
        destruct (Hk (fst p, false) _ _ HRn) as [Hs Hr].
        assert (HL : fid < length (Note fid key :: s1)) by (simpl; lia).
        destruct (Hq fid Hlo (fst p, false) _ HL) as [HE HN].
        split; [exact Hs|]. split; [exact Hr|]. split.
        - simpl. rewrite HN. simpl. now rewrite Nat.eqb_refl, H2.
        - pose proof (Ext_length _ _ HE). simpl in *. lia. }
      assert (Hq' : forall n, S fid <= n -> kq n kx).
      { intros n Hn p s1 H1. unfold kx. destruct (snd p); [apply Q_refl|]. destruct (existsb _ _); [apply Q_refl|].
        eapply Q_trans; [apply (Q_cons n (Note fid (map (lookup (fst p)) others)) s1); simpl; apply Nat.eqb_neq; lia|].
        apply Hq; [lia | simpl; lia]. }
      assert (HR0 : R' (Frame fid :: s) (t, [])).
      { split; [|split]; simpl.
        - apply (proj1 HR); auto. intros n key E; discriminate.
        - apply tags_lt_fresh; auto.
        - unfold fid. lia. }
      destruct (IH _ R' (S fid) HR' b kx (exists_k' others k') Hsim' Hq' _ _ HR0) as [Hs (Hr & _ & _)].
      destruct (exists_each others k' (eval W D c b) (t, [])) as [E1 E2]. simpl in E1, E2.
      split; [etransitivity; [exact Hs | exact E2] | rewrite <- E1; exact Hr].
    - (* ForAll *)
      simpl. set (others := remove_var y (cond_vars c)).
      assert (Hfull : forall b0 s0 t0, R s0 t0 -> R (drain_full (tr_cond W D c) b0 s0) t0).
      { intros b0 s0 t0 H0. unfold drain_full.
        destruct (IH _ R lo HR b0 (fun _ s1 => (s1, Continue)) (fun _ t1 => (t1, Continue))
                     (fun _ s1 t1 H1 => conj eq_refl H1) (fun n Hn a s1 H1 => Q_refl n s1) _ _ H0) as [_ H].
        now rewrite each_skip in H. }
      assert (Hfirst : forall b0 s0 t0, R s0 t0 -> R (drain_first (tr_cond W D c) b0 s0) t0).
      { intros b0 s0 t0 H0. unfold drain_first.
        destruct (IH _ R lo HR b0 (fun _ s1 => (s1, Stop)) (fun _ t1 => (t1, Stop))
                     (fun _ s1 t1 H1 => conj eq_refl H1) (fun n Hn a s1 H1 => Q_refl n s1) _ _ H0) as [_ H].
        now rewrite each_stop in H. }
      destruct (lookup b y) as [v|] eqn:Hy.
      + simpl. rewrite (each_map _ k). apply each_sim; [intros a s1 t1 H1; apply Hk; auto|]. apply Hfull; auto.
      + rewrite (fa_loop_val (eval W D c) others (tr_cond W D c) y b (indexed (D y)) None s).
        pose proof (fa_loop_sim _ R lo HR (tr_cond W D c) (eval W D c) y others Hfull Hfirst b (indexed (D y)) None s t HRst) as HL.
        assert (Em : map (fun iv : nat * val => (y, snd iv) :: b) (indexed (D y)) = map (fun v => (y, v) :: b) (D y)).
        { unfold indexed. rewrite <- (map_snd_indexed (D y) 0) at 3. now rewrite map_map. }
        rewrite Em. destruct (map (fun v => (y, v) :: b) (D y)) as [|bv0 bvs].
        * simpl. rewrite andthen_ret. apply Hk; auto.
        * rewrite fa_vals_none. rewrite (each_map _ k). apply each_sim; [intros a s1 t1 H1; apply Hk; auto | exact HL].
  Qed.
  Lemma select_sim sels : forall T (R : store -> T -> Prop) lo, Rok lo R ->
    forall b (k : list val -> store -> store * signal) k',
    ksim R k k' -> forall s t, R s t -> R2 R (tr_select W D sels b k s) (each k' (select W D sels b) t).
  Proof.
    induction sels as [|e ss IH]; intros T R lo HR b k k' Hk s t HRst; simpl.
    - rewrite andthen_ret. apply Hk; auto.
    - rewrite each_flat_map. eapply opnd_sim; eauto. intros p s1 t1 H1. rewrite each_map.
      eapply IH; eauto. intros row s2 t2 H2. apply Hk; auto.
  Qed.

  Lemma run_sim q : forall T (R : store -> T -> Prop) lo, Rok lo R ->
    forall (k : list val -> store -> store * signal) k',
    ksim R k k' -> (forall n, lo <= n -> kq n k) ->
    forall s t, R s t -> R2 R (tr_run W D q k s) (each k' (run W D q) t).
  Proof.
    intros T R lo HR k k' Hk Hq s t HRst. unfold tr_run, run, true_results.
    destruct (q_cond q) as [c|].
    - rewrite each_flat_map, each_map, each_filter.
      eapply cond_sim; eauto.
      + intros p s1 t1 H1. destruct (snd p); simpl; [split; auto | eapply select_sim; eauto].
      + intros n Hn p s1 H1. destruct (snd p); [apply Q_refl | apply select_Q; auto].
    - simpl. rewrite app_nil_r. eapply select_sim; eauto.
  Qed.
End Sim.

(* ---- instance: the rows handed out ---- *)
Lemma rows_of_app a b : rows_of (a ++ b) = rows_of a ++ rows_of b.
Proof. induction a as [|e a IH]; simpl; [reflexivity|]. destruct e; simpl; rewrite ?IH; reflexivity. Qed.
Lemma rows_of_rev s : rows_of (rev s) = rev (rows_of s).
Proof.
  induction s as [|e s IH]; simpl; [reflexivity|]. rewrite rows_of_app, IH.
  destruct e; simpl; rewrite ?app_nil_r; reflexivity.
Qed.
Lemma nyields_rows s : nyields s = length (rows_of s).
Proof. unfold nyields. induction s as [|e s IH]; simpl; [reflexivity|]. destruct e; simpl; auto. Qed.
Lemma rows_of_nonyield e s : is_yield e = false -> rows_of (e :: s) = rows_of s.
Proof. destruct e; simpl; auto; discriminate. Qed.

Definition take' (n : nat) (row : list val) (t : list (list val)) : list (list val) * signal :=
  let t' := row :: t in (t', if n <=? length t' then Stop else Continue).
Definition take_all' (row : list val) (t : list (list val)) : list (list val) * signal := (row :: t, Continue).

Lemma each_take' n l : forall t, length t < n -> fst (each (take' n) l t) = rev (firstn (n - length t) l) ++ t.
Proof.
  induction l as [|a l IH]; intros t Ht; simpl.
  - now rewrite firstn_nil.
  - destruct (Nat.leb_spec n (S (length t))); simpl.
    + replace (n - length t) with 1 by lia. reflexivity.
    + rewrite IH by (simpl; lia). simpl length.
      replace (n - length t) with (S (n - S (length t))) by lia. simpl. now rewrite <- app_assoc.
Qed.
Lemma each_take_all' l : forall t, fst (each take_all' l t) = rev l ++ t.
Proof. induction l as [|a l IH]; intros t; simpl; [reflexivity|]. rewrite IH. now rewrite <- app_assoc. Qed.

Lemma rows_of_plain e s : is_yield e = false -> rows_of (e :: s) = rows_of s.
Proof. apply rows_of_nonyield. Qed.
Lemma kq_cons_yield {A} n (k : A -> store -> store * signal) :
  (forall a s, exists r, fst (k a s) = Yield r :: s) -> kq n k.
Proof. intros H a s Hn. destruct (H a s) as [r ->]. apply Q_cons. reflexivity. Qed.
Lemma take_kq m n : kq n (take m).
Proof. apply kq_cons_yield. intros row s. exists row. reflexivity. Qed.
Lemma take_all_kq n : kq n take_all.
Proof. apply kq_cons_yield. intros row s. exists row. reflexivity. Qed.

Section Bridge.
  Variable W : world.
  Variable D : domains.
  (* rows handed out so far, on top of those of earlier evaluations [r0] *)
  Definition Rrows (r0 : list (list val)) (s : store) (t : list (list val)) : Prop := rows_of s = t ++ r0 /\ tags_lt s.

  Lemma Rrows_ok r0 : Rok 0 (Rrows r0).
  Proof.
    split.
    - intros e s t He Htag [H1 H2]. split; [rewrite rows_of_nonyield; auto|].
      apply tags_lt_cons; auto. intros n key E. destruct (Htag n key E). lia.
    - intros s t [H1 H2]. split; [auto | lia].
  Qed.

  Lemma take_sim r0 n : ksim (Rrows r0) (take (length r0 + n)) (take' n).
  Proof.
    intros row s t [H1 H2]. unfold take, take', R2, Rrows. simpl fst. simpl snd. split; [|split].
    - rewrite !nyields_rows. simpl rows_of. rewrite H1. simpl length. rewrite app_length.
      destruct (Nat.leb_spec (length r0 + n) (S (length t + length r0)));
        destruct (Nat.leb_spec n (S (length t))); auto; lia.
    - simpl. now rewrite H1.
    - apply tags_lt_cons; auto. intros n0 key E; discriminate.
  Qed.
  Lemma take_all_sim r0 : ksim (Rrows r0) take_all take_all'.
  Proof.
    intros row s t [H1 H2]. unfold take_all, take_all', R2, Rrows. simpl. split; [reflexivity|]. split.
    - now rewrite H1.
    - apply tags_lt_cons; auto. intros n0 key E; discriminate.
  Qed.

  (* the instrumented evaluator hands out exactly the rows of the list-monad model, in order *)
  Theorem trace_full_rows q : rows_of (trace_full W D q) = run W D q.
  Proof.
    unfold trace_full. rewrite rows_of_rev.
    destruct (run_sim W D q _ _ 0 (Rrows_ok []) take_all take_all' (take_all_sim []) (fun n _ => take_all_kq n)
                      [] [] (conj eq_refl tags_lt_nil)) as [_ [H _]].
    rewrite H, app_nil_r, each_take_all', app_nil_r. apply rev_involutive.
  Qed.

  (* the run stopped after n rows handed out the first n rows *)
  Theorem trace_k_rows q n : rows_of (trace_k W D q n) = firstn n (run W D q).
  Proof.
    destruct n as [|n]; [reflexivity|]. unfold trace_k. rewrite rows_of_rev.
    destruct (run_sim W D q _ _ 0 (Rrows_ok []) (take (S n)) (take' (S n)) (take_sim [] (S n)) (fun m _ => take_kq (S n) m)
                      [] [] (conj eq_refl tags_lt_nil)) as [_ [H _]].
    rewrite H, app_nil_r, each_take' by (simpl; lia). simpl length. rewrite Nat.sub_0_r, app_nil_r.
    apply rev_involutive.
  Qed.
End Bridge.

(* ================= 2. stopping earlier gives a prefix of the log ================= *)
Section Prefix.
  Variable W : world.
  Variable D : domains.

  Lemma enum_rel x kA kB : krel kA kB -> kmono kB -> forall s, Rel (enum D x kA s) (enum D x kB s).
  Proof.
    intros Hr Hm s. unfold enum. apply andthen_rel.
    - apply each_rel.
      + intros iv s0. apply Hr.
      + intros iv s0. eapply Ext_trans; [apply Ext_touch | apply Hm].
    - intros s'. reflexivity.
    - intros s'. apply Ext_finish.
  Qed.

  Lemma opnd_rel e : forall b kA kB, krel kA kB -> kmono kB ->
    forall s, Rel (tr_opnd W D e b kA s) (tr_opnd W D e b kB s).
  Proof.
    induction e as [v|x|e IH a]; intros b kA kB Hr Hm s; simpl.
    - apply Hr.
    - destruct (lookup b x); [apply Hr|]. apply enum_rel.
      + intros v s0. apply Hr.
      + intros v s0. apply Hm.
    - apply IH.
      + intros p s1. apply Hr.
      + intros p s1. eapply Ext_trans; [apply Ext_get | apply Hm].
  Qed.

  Lemma cond_rel c : forall b kA kB, krel kA kB -> kmono kB ->
    forall s, Rel (tr_cond W D c b kA s) (tr_cond W D c b kB s).
  Proof.
    induction c as [op l r|l IHl r IHr|l IHl r IHr|l IHl r IHr|c IH|e c IH|y c IH]; intros b kA kB Hr Hm s; simpl.
    - destruct (right_first b r).
      + apply opnd_rel.
        * intros p1 s1. apply opnd_rel; [intros p2 s2; apply Hr | intros p2 s2; apply Hm].
        * intros p1 s1. apply opnd_mono. intros p2 s2. apply Hm.
      + apply opnd_rel.
        * intros p1 s1. apply opnd_rel; [intros p2 s2; apply Hr | intros p2 s2; apply Hm].
        * intros p1 s1. apply opnd_mono. intros p2 s2. apply Hm.
    - apply IHl.
      + intros p s1. destruct (snd p); [apply Hr | apply IHr; auto].
      + intros p s1. destruct (snd p); [apply Hm | apply cond_mono; auto].
    - apply IHl.
      + intros p s1. destruct (snd p); [apply IHr; auto | apply Hr].
      + intros p s1. destruct (snd p); [apply cond_mono; auto | apply Hm].
    - apply andthen_rel.
      + apply IHl.
        * intros p s1. destruct (snd p); [apply IHr; auto | apply Hr].
        * intros p s1. destruct (snd p); [apply cond_mono; auto | apply Hm].
      + intros s'. apply IHr.
        * intros p s1. destruct (snd p); [reflexivity | apply Hr].
        * intros p s1. destruct (snd p); [apply Ext_refl | apply Hm].
      + intros s'. eapply Ext_trans; [apply Ext_cons|]. apply cond_mono; auto. intros p s1. destruct (snd p); [apply Ext_refl | apply Hm].
    - apply IH.
      + intros p s1. apply Hr.
      + intros p s1. apply Hm.
    - apply IH.
      + intros p s1. destruct (snd p); [reflexivity|]. destruct (existsb _ _); [reflexivity | apply Hr].
      + intros p s1. destruct (snd p); [apply Ext_refl|]. destruct (existsb _ _); [apply Ext_refl|].
        eapply Ext_trans; [apply Ext_cons | apply Hm].
    - destruct (lookup b y).
      + apply each_rel; auto.
      + destruct (fst (fa_loop _ _ _ _ _ _ _ _)); [apply each_rel; auto | apply Hr].
  Qed.

  Lemma select_rel sels : forall b kA kB, krel kA kB -> kmono kB ->
    forall s, Rel (tr_select W D sels b kA s) (tr_select W D sels b kB s).
  Proof.
    induction sels as [|e ss IH]; intros b kA kB Hr Hm s; simpl; [apply Hr|].
    apply opnd_rel.
    - intros p s1. apply IH; [intros row s2; apply Hr | intros row s2; apply Hm].
    - intros p s1. apply select_mono. intros row s2. apply Hm.
  Qed.

  Lemma run_rel q kA kB : krel kA kB -> kmono kB -> forall s, Rel (tr_run W D q kA s) (tr_run W D q kB s).
  Proof.
    intros Hr Hm s. unfold tr_run.
    assert (Hsel : forall b s1, Rel (tr_select W D (q_sels q) b kA s1) (tr_select W D (q_sels q) b kB s1)).
    { intros b s1. apply select_rel; auto. }
    destruct (q_cond q) as [c|]; [|apply Hsel].
    apply cond_rel.
    - intros p s1. destruct (snd p); [reflexivity | apply Hsel].
    - intros p s1. destruct (snd p); [apply Ext_refl | apply select_mono; auto].
  Qed.

  Lemma take_rel_S n : krel (take n) (take (S n)).
  Proof.
    intros row s. unfold take, Rel.
    destruct (Nat.leb_spec n (nyields (Yield row :: s))) as [H|H].
    - simpl. apply Ext_refl.
    - destruct (Nat.leb_spec (S n) (nyields (Yield row :: s))); [lia | reflexivity].
  Qed.
  Lemma take_rel_all n : krel (take n) take_all.
  Proof.
    intros row s. unfold take, take_all, Rel.
    destruct (n <=? nyields (Yield row :: s)); [simpl; apply Ext_refl | reflexivity].
  Qed.

  Lemma Ext_rev_Prefix s s' : Ext s s' -> Prefix (rev s) (rev s').
  Proof. intros [l ->]. exists (rev l). apply rev_app_distr. Qed.

  Theorem trace_k_prefix_S q n : Prefix (trace_k W D q n) (trace_k W D q (S n)).
  Proof.
    destruct n as [|n]; [eexists; reflexivity|]. unfold trace_k.
    apply Ext_rev_Prefix, Rel_Ext, run_rel; [apply take_rel_S | apply take_mono].
  Qed.
  Theorem trace_k_prefix_full q n : Prefix (trace_k W D q n) (trace_full W D q).
  Proof.
    destruct n as [|n]; [eexists; reflexivity|]. unfold trace_k, trace_full.
    apply Ext_rev_Prefix, Rel_Ext, run_rel; [apply take_rel_all | apply take_all_mono].
  Qed.
End Prefix.

(* ================= 3. every domain is consumed as the prefix 0, 1, 2, ... ================= *)
Lemma pulls_of_app x a b : pulls_of x (a ++ b) = pulls_of x a ++ pulls_of x b.
Proof.
  induction a as [|e a IH]; simpl; [reflexivity|].
  destruct e; simpl; auto. destruct (Nat.eqb x x0); simpl; now rewrite IH.
Qed.
Lemma pulls_of_rev x s : pulls_of x (rev s) = rev (pulls_of x s).
Proof.
  induction s as [|e s IH]; simpl; [reflexivity|]. rewrite pulls_of_app, IH.
  destruct e; simpl; rewrite ?app_nil_r; auto. destruct (Nat.eqb x x0); simpl; now rewrite ?app_nil_r.
Qed.
Lemma pulls_of_length x s : length (pulls_of x s) = npulls x s.
Proof.
  unfold npulls. induction s as [|e s IH]; simpl; [reflexivity|].
  destruct e; simpl; auto. destruct (Nat.eqb x x0); simpl; auto.
Qed.
Lemma npulls_app x a b : npulls x (a ++ b) = npulls x a + npulls x b.
Proof. unfold npulls. now rewrite filter_app, app_length. Qed.
Lemma npulls_Ext x s s' : Ext s s' -> npulls x s <= npulls x s'.
Proof. intros [l ->]. rewrite npulls_app. lia. Qed.

(* on the newest-first store *)
Definition Inv (s : store) : Prop := forall x, pulls_of x s = rev (seq 0 (npulls x s)).

Lemma Inv_nil : Inv []. Proof. intros x. reflexivity. Qed.
Lemma Inv_nonpull e s : (forall x, is_pull x e = false) -> Inv s -> Inv (e :: s).
Proof.
  intros He H x. specialize (H x). specialize (He x). unfold npulls in *. simpl. rewrite He.
  destruct e; simpl in *; auto. rewrite He. exact H.
Qed.
Lemma Inv_pull x s : Inv s -> Inv (Pull x (npulls x s) :: s).
Proof.
  intros H y. specialize (H y). remember (npulls x s) as n eqn:En.
  destruct (Nat.eqb_spec y x) as [->|N].
  - assert (E1 : pulls_of x (Pull x n :: s) = n :: pulls_of x s) by (simpl; now rewrite Nat.eqb_refl).
    assert (E2 : npulls x (Pull x n :: s) = S (npulls x s)) by (unfold npulls; simpl; now rewrite Nat.eqb_refl).
    rewrite E1, E2, seq_S, rev_app_distr, H, <- En. reflexivity.
  - assert (E1 : pulls_of y (Pull x n :: s) = pulls_of y s).
    { simpl. destruct (Nat.eqb_spec y x); [contradiction | reflexivity]. }
    assert (E2 : npulls y (Pull x n :: s) = npulls y s).
    { unfold npulls; simpl. destruct (Nat.eqb_spec y x); [contradiction | reflexivity]. }
    now rewrite E1, E2.
Qed.
Lemma Inv_touch x i s : i <= npulls x s -> Inv s -> Inv (touch x i s) /\ i < npulls x (touch x i s).
Proof.
  intros Hi H. unfold touch. destruct (Nat.ltb_spec i (npulls x s)); [split; auto|].
  assert (i = npulls x s) as -> by lia. split; [apply Inv_pull; auto|].
  unfold npulls. simpl. rewrite Nat.eqb_refl. simpl. lia.
Qed.
Lemma Inv_finish x s : Inv s -> Inv (finish x s).
Proof. unfold finish. intros H. destruct (ended x s); auto; apply Inv_nonpull; auto. Qed.
Lemma Inv_get v a s : Inv s -> Inv (get_ev v a s).
Proof. unfold get_ev. intros H. destruct v; auto; apply Inv_nonpull; auto. Qed.

Definition kinv {A} (k : A -> store -> store * signal) : Prop := forall a s, Inv s -> Inv (fst (k a s)).

Lemma andthen_inv (o : store * signal) f : Inv (fst o) -> (forall s, Inv s -> Inv (fst (f s))) -> Inv (fst (andthen o f)).
Proof. destruct o as [s [|]]; simpl; auto. Qed.
Lemma each_inv {A} (f : A -> store -> store * signal) l : kinv f -> forall s, Inv s -> Inv (fst (each f l s)).
Proof.
  intros Hf. induction l as [|a l IH]; intros s Hs; simpl; auto.
  apply andthen_inv; auto.
Qed.

Section ForAllInv.
  Variable trc : binds -> (res -> store -> store * signal) -> store -> store * signal.
  Variable evalc : binds -> list res.
  Variable y : var.
  Variable others : list var.
  Hypothesis trc_mono : forall b k, kmono k -> forall s, Ext s (fst (trc b k s)).
  Hypothesis trc_inv : forall b k, kmono k -> kinv k -> forall s, Inv s -> Inv (fst (trc b k s)).

  Lemma drain_full_inv b s : Inv s -> Inv (drain_full trc b s).
  Proof. intros H. unfold drain_full. apply trc_inv; auto; [intros a s1; apply Ext_refl | intros a s1 H1; exact H1]. Qed.
  Lemma drain_first_inv b s : Inv s -> Inv (drain_first trc b s).
  Proof. intros H. unfold drain_first. apply trc_inv; auto; [intros a s1; apply Ext_refl | intros a s1 H1; exact H1]. Qed.
  Lemma narrow_events_inv bv ss : forall s, Inv s -> Inv (narrow_events trc bv ss s).
  Proof.
    unfold narrow_events. induction ss as [|s1 ss IH]; intros s H; simpl; auto. apply IH, drain_first_inv; auto.
  Qed.
  Lemma fa_step_inv bv S s : Inv s -> Inv (snd (fa_step trc evalc others bv S s)).
  Proof. intros H. destruct S; simpl; [apply narrow_events_inv | apply drain_full_inv]; auto. Qed.
  Lemma fa_loop_inv b l : forall i S s, Inv s -> i <= npulls y s ->
    Inv (snd (fa_loop trc evalc y others b (combine (seq i (length l)) l) S s)).
  Proof.
    induction l as [|v l IH]; intros i S s Hs Hi; simpl; [apply Inv_finish; auto|].
    destruct (Inv_touch y i s Hi Hs) as [H1 H2].
    pose proof (fa_step_inv ((y, v) :: b) S _ H1) as H3.
    pose proof (npulls_Ext y _ _ (fa_step_mono trc evalc others trc_mono ((y, v) :: b) S (touch y i s))) as H4.
    destruct (fst (fa_step trc evalc others ((y, v) :: b) S (touch y i s))); simpl; auto.
    apply IH; auto. lia.
  Qed.
End ForAllInv.

Section Order.
  Variable W : world.
  Variable D : domains.

  Lemma enum_loop_inv x (k : val -> store -> store * signal) : kmono k -> kinv k -> forall l i s,
    Inv s -> i <= npulls x s ->
    Inv (fst (each (fun iv s0 => k (snd iv) (touch x (fst iv) s0)) (combine (seq i (length l)) l) s)).
  Proof.
    intros Hm Hk. induction l as [|v l IH]; intros i s Hs Hi; simpl; auto.
    destruct (Inv_touch x i s Hi Hs) as [H1 H2].
    pose proof (Hk v _ H1) as H3. pose proof (npulls_Ext x _ _ (Hm v (touch x i s))) as H4.
    destruct (k v (touch x i s)) as [s2 [|]]; simpl in *; auto.
    apply IH; auto. lia.
  Qed.

  Lemma enum_inv x (k : val -> store -> store * signal) : kmono k -> kinv k -> forall s, Inv s -> Inv (fst (enum D x k s)).
  Proof.
    intros Hm Hk s Hs. unfold enum, indexed. apply andthen_inv.
    - apply enum_loop_inv; auto. lia.
    - intros s' H'. simpl. apply Inv_finish; auto.
  Qed.

  Lemma opnd_inv e : forall b k, kmono k -> kinv k -> forall s, Inv s -> Inv (fst (tr_opnd W D e b k s)).
  Proof.
    induction e as [v|x|e IH a]; intros b k Hm Hk s Hs; simpl.
    - apply Hk; auto.
    - destruct (lookup b x); [apply Hk; auto|]. apply enum_inv; auto.
      + intros v s0. apply Hm.
      + intros v s0. apply Hk.
    - apply IH; auto.
      + intros p s1. eapply Ext_trans; [apply Ext_get | apply Hm].
      + intros p s1 H1. apply Hk. apply Inv_get; auto.
  Qed.

  Lemma cond_inv c : forall b k, kmono k -> kinv k -> forall s, Inv s -> Inv (fst (tr_cond W D c b k s)).
  Proof.
    induction c as [op l r|l IHl r IHr|l IHl r IHr|l IHl r IHr|c IH|e c IH|y c IH]; intros b k Hm Hk s Hs; simpl.
    - destruct (right_first b r); apply opnd_inv; auto.
      + intros p1 s1. apply opnd_mono. intros p2 s2. apply Hm.
      + intros p1 s1 H1. apply opnd_inv; auto; [intros p2 s2; apply Hm | intros p2 s2; apply Hk].
      + intros p1 s1. apply opnd_mono. intros p2 s2. apply Hm.
      + intros p1 s1 H1. apply opnd_inv; auto; [intros p2 s2; apply Hm | intros p2 s2; apply Hk].
    - apply IHl; auto.
      + intros p s1. destruct (snd p); [apply Hm | apply cond_mono; auto].
      + intros p s1 H1. destruct (snd p); [apply Hk; auto | apply IHr; auto].
    - apply IHl; auto.
      + intros p s1. destruct (snd p); [apply cond_mono; auto | apply Hm].
      + intros p s1 H1. destruct (snd p); [apply IHr; auto | apply Hk; auto].
    - apply andthen_inv.
      + apply IHl; auto.
        * intros p s1. destruct (snd p); [apply cond_mono; auto | apply Hm].
        * intros p s1 H1. destruct (snd p); [apply IHr; auto | apply Hk; auto].
      + intros s' H'. apply IHr; auto.
        * intros p s1. destruct (snd p); [apply Ext_refl | apply Hm].
        * intros p s1 H1. destruct (snd p); [exact H1 | apply Hk; auto].
    - apply IH; auto.
      + intros p s1. apply Hm.
      + intros p s1. apply Hk.
    - apply IH.
      + intros p s1. destruct (snd p); [apply Ext_refl|]. destruct (existsb _ _); [apply Ext_refl|].
        eapply Ext_trans; [apply Ext_cons | apply Hm].
      + intros p s1 H1. destruct (snd p); [exact H1|]. destruct (existsb _ _); [exact H1|].
        apply Hk. apply Inv_nonpull; auto.
      + apply Inv_nonpull; auto.
    - assert (Hmc : forall b0 k0, kmono k0 -> forall s0, Ext s0 (fst (tr_cond W D c b0 k0 s0))) by (intros; apply cond_mono; auto).
      destruct (lookup b y).
      + apply each_inv; auto.
        apply (drain_full_inv (tr_cond W D c) (fun b0 k0 H0 H1 => IH b0 k0 H0 H1)); auto.
      + pose proof (fa_loop_inv (tr_cond W D c) (eval W D c) y (remove_var y (cond_vars c)) Hmc
                                (fun b0 k0 H0 H1 => IH b0 k0 H0 H1) b (D y) 0 None s Hs (Nat.le_0_l _)) as H.
        unfold indexed. destruct (fst (fa_loop _ _ _ _ _ _ _ _)); [apply each_inv; auto | apply Hk; auto].
  Qed.

  Lemma select_inv sels : forall b k, kmono k -> kinv k -> forall s, Inv s -> Inv (fst (tr_select W D sels b k s)).
  Proof.
    induction sels as [|e ss IH]; intros b k Hm Hk s Hs; simpl; [apply Hk; auto|].
    apply opnd_inv; auto.
    - intros p s1. apply select_mono. intros row s2. apply Hm.
    - intros p s1 H1. apply IH; auto; [intros row s2; apply Hm | intros row s2; apply Hk].
  Qed.

  Lemma run_inv q k : kmono k -> kinv k -> forall s, Inv s -> Inv (fst (tr_run W D q k s)).
  Proof.
    intros Hm Hk s Hs. unfold tr_run.
    assert (Hsel : forall b s1, Inv s1 -> Inv (fst (tr_select W D (q_sels q) b k s1))).
    { intros b s1 H1. apply select_inv; auto. }
    destruct (q_cond q) as [c|]; [|apply Hsel; auto].
    apply cond_inv; auto.
    - intros p s1. destruct (snd p); [apply Ext_refl | apply select_mono; auto].
    - intros p s1 H1. destruct (snd p); [exact H1 | apply Hsel; auto].
  Qed.

  Lemma take_inv n : kinv (take n).
  Proof. intros row s Hs. unfold take. simpl. apply Inv_nonpull; auto. Qed.
  Lemma take_all_inv : kinv take_all.
  Proof. intros row s Hs. unfold take_all. simpl. apply Inv_nonpull; auto. Qed.

  Lemma Inv_in_order x s : Inv s -> pulls_in_order x (rev s).
  Proof.
    intros H. unfold pulls_in_order. rewrite pulls_of_rev, rev_length, pulls_of_length, (H x). apply rev_involutive.
  Qed.

  Theorem trace_k_pulls_in_order q n x : pulls_in_order x (trace_k W D q n).
  Proof.
    destruct n as [|n]; [reflexivity|]. unfold trace_k. apply Inv_in_order.
    apply run_inv; [apply take_mono | apply take_inv | apply Inv_nil].
  Qed.
  Theorem trace_full_pulls_in_order q x : pulls_in_order x (trace_full W D q).
  Proof.
    unfold trace_full. apply Inv_in_order.
    apply run_inv; [apply take_all_mono | apply take_all_inv | apply Inv_nil].
  Qed.
End Order.

(* ================= 4. several evaluations over the same variables ================= *)
Section Seq.
  Variable W : world.
  Variable D : domains.

  Lemma run_from_ext q m s : Ext s (run_from W D q m s).
  Proof. destruct m; simpl; [apply Ext_refl | apply run_mono, take_mono]. Qed.
  Lemma run_from_inv q m s : Inv s -> Inv (run_from W D q m s).
  Proof. intros H. destruct m; simpl; auto. apply run_inv; auto; [apply take_mono | apply take_inv]. Qed.

  Lemma fold_run_inv steps : forall s, Inv s -> Inv (fold_left (fun s qm => run_from W D (fst qm) (snd qm) s) steps s).
  Proof. induction steps as [|[q m] steps IH]; intros s H; simpl; auto. apply IH, run_from_inv; auto. Qed.
  Lemma fold_run_ext steps : forall s, Ext s (fold_left (fun s qm => run_from W D (fst qm) (snd qm) s) steps s).
  Proof.
    induction steps as [|[q m] steps IH]; intros s; simpl; [apply Ext_refl|].
    eapply Ext_trans; [apply run_from_ext | apply IH].
  Qed.

  (* a later evaluation continues the index prefix of every domain: nothing is pulled twice, nothing is skipped *)
  Theorem trace_seq_pulls_in_order steps x : pulls_in_order x (trace_seq W D steps).
  Proof. unfold trace_seq, store_seq. apply Inv_in_order, fold_run_inv, Inv_nil. Qed.

  Theorem trace_seq_prefix steps more : Prefix (trace_seq W D steps) (trace_seq W D (steps ++ more)).
  Proof. unfold trace_seq, store_seq. rewrite fold_left_app. apply Ext_rev_Prefix, fold_run_ext. Qed.

  Theorem trace_seq_single q n : trace_seq W D [(q, n)] = trace_k W D q n.
  Proof. destruct n; reflexivity. Qed.

  (* the rows of a later evaluation are again the first m rows of that query: what an earlier, abandoned evaluation left
     in the domain caches does not change them *)
  Lemma run_from_rows q m s : tags_lt s ->
    rows_of (run_from W D q m s) = rev (firstn m (run W D q)) ++ rows_of s /\ tags_lt (run_from W D q m s).
  Proof.
    intros Ht. destruct m as [|m]; [split; auto|]. unfold run_from. rewrite nyields_rows.
    destruct (run_sim W D q _ _ 0 (Rrows_ok (rows_of s)) _ _ (take_sim (rows_of s) (S m))
                      (fun n _ => take_kq (length (rows_of s) + S m) n) s [] (conj eq_refl Ht)) as [_ [H1 H2]].
    split; auto. rewrite H1, each_take' by (simpl; lia). simpl length. now rewrite Nat.sub_0_r, app_nil_r.
  Qed.

  Theorem trace_seq_rows2 q1 n q2 m :
    rows_of (trace_seq W D [(q1, n); (q2, m)]) = firstn n (run W D q1) ++ firstn m (run W D q2).
  Proof.
    unfold trace_seq, store_seq. simpl. rewrite rows_of_rev.
    destruct (run_from_rows q1 n [] tags_lt_nil) as [H1 T1].
    destruct (run_from_rows q2 m _ T1) as [H2 _].
    rewrite H2, H1. simpl. rewrite app_nil_r, rev_app_distr, !rev_involutive. reflexivity.
  Qed.
End Seq.
