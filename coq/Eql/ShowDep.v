(* Printing of the dependent-variable model's outcome next to the Spec's. *)
From Coq Require Import List ZArith Bool Arith.
From Krrood Require Import Base.Sx Eql.Syntax Eql.Sat Eql.Eval Eql.ShowSpec Eql.EvalDepSpec Eql.EvalDep.
From Krrood Require Export Eql.ShowDepSpec.
Import ListNotations.
Open Scope Z_scope.

Definition dmodel_rows (c : dcase) : sx :=
  show_rows (runD (mk_world (e_world (dc_case c))) (mk_domains (e_doms (dc_case c))) (dc_decls c) (e_query (dc_case c))).
Definition dmodel_differs_as_set (c : dcase) : bool := negb (sx_eqb (as_set (dmodel_rows c)) (as_set (dspec_rows c))).
