(* C01 / C02 -- code-faithful model of the EQL evaluator (symbolic.py), variable level.
   A result is (bindings, is_false); lists are in the yield order of the Python generators.
   Reading notes: DESIGN.md Appendix A.1 / A.2.  Tree-shaped conditions: every Attribute / Comparator / logical
   node object occurs once (a node used twice replays stale state; that is finding class K_sharednode). *)
From Coq Require Import List ZArith Bool Arith.
From Krrood Require Import Eql.Syntax Eql.Sat.
Import ListNotations.

Definition res := (binds * bool)%type.

Definition bound (b : binds) (x : var) : bool :=
  match lookup b x with Some _ => true | None => false end.

Section Eval.
  Variable W : world.
  Variable D : domains.

  (* Variable._evaluate__ / Literal / Attribute (DomainMapping._evaluate__) as operands of a Comparator or of a
     descriptor: the yielded truth flag is False there (bound Variable: since e623d2e; DomainMapping: parent is not a
     logical operator), so only bindings and the value are carried. *)
  Fixpoint ev_opnd (e : opnd) (b : binds) : list (binds * val) :=
    match e with
    | OLit v => [(b, v)]
    | OVar x =>
        match lookup b x with
        | Some v => [(b, v)]
        | None => map (fun v => ((x, v) :: b, v)) (D x)
        end
    | OAttr e a => map (fun p => (fst p, getattr W (snd p) a)) (ev_opnd e b)
    end.

  (* Comparator.get_first_second_operands: the right operand goes first when one of its variables is bound *)
  Definition right_first (b : binds) (r : opnd) : bool := existsb (bound b) (opnd_vars r).

  Definition ev_cmp (op : cmpop) (l r : opnd) (b : binds) : list res :=
    if right_first b r then
      flat_map (fun p1 : binds * val =>
        map (fun p2 : binds * val => (fst p2, negb (apply_op W op (snd p2) (snd p1)))) (ev_opnd l (fst p1)))
        (ev_opnd r b)
    else
      flat_map (fun p1 : binds * val =>
        map (fun p2 : binds * val => (fst p2, negb (apply_op W op (snd p1) (snd p2)))) (ev_opnd r (fst p1)))
        (ev_opnd l b).

  (* Exists._evaluate__ (since c61005c): false results are skipped; a true result is yielded iff the bindings of the OTHER
     variables (those of the quantified expression and of the condition, except the quantified variable itself) were not
     seen before in this call *)
  Definition oval_eqb (a b : option val) : bool :=
    match a, b with Some v, Some w => val_eqb v w | None, None => true | _, _ => false end.
  Fixpoint key_eqb (k1 k2 : list (option val)) : bool :=
    match k1, k2 with
    | [], [] => true
    | a :: k1', b :: k2' => oval_eqb a b && key_eqb k1' k2'
    | _, _ => false
    end.

  Fixpoint exists_scan (others : list var) (seen : list (list (option val))) (rs : list res) : list res :=
    match rs with
    | [] => []
    | (b1, f) :: rs' =>
        if f then exists_scan others seen rs'
        else let key := map (lookup b1) others in
             if existsb (key_eqb key) seen then exists_scan others seen rs'
             else (b1, false) :: exists_scan others (key :: seen) rs'
    end.

  Definition exists_others (e : opnd) (c : cond) : list var :=
    match e with
    | OVar y => remove_var y (cond_vars c)
    | _ => opnd_vars e ++ cond_vars c
    end.

  Definition restrict (xs : list var) (b : binds) : binds := filter (fun p : var * val => nmem (fst p) xs) b.
  Definition first_true (rs : list res) : bool := match rs with [] => false | (_, f) :: _ => negb f end.

  Fixpoint eval (c : cond) (b : binds) : list res :=
    match c with
    | CCmp op l r => ev_cmp op l r b
    | CAnd l r =>
        flat_map (fun p : res => if snd p then [(fst p, true)] else eval r (fst p)) (eval l b)
    | CElseIf l r =>
        flat_map (fun p : res => if snd p then eval r (fst p) else [(fst p, false)]) (eval l b)
    | CUnion l r =>
        (* Union._evaluate__ (since 6dfdafd): left-then-right as ElseIf, then the TRUE results of the right operand on the
           original bindings *)
        flat_map (fun p : res => if snd p then eval r (fst p) else [(fst p, false)]) (eval l b)
        ++ filter (fun p : res => negb (snd p)) (eval r b)
    | CNot c => map (fun p : res => (fst p, negb (snd p))) (eval c b)
    | CExists e c => exists_scan (exists_others e c) [] (eval c b)
    | CForAll y c =>
        (* ForAll._evaluate__: candidate bindings of the other variables from the first value of y, narrowed by every
           further value (first result of the condition decides); never yields a false result; vacuous when y has no
           value (since 0409349) *)
        let others := remove_var y (cond_vars c) in
        match (match lookup b y with Some _ => [b] | None => map (fun v => (y, v) :: b) (D y) end) with
        | [] => [(b, false)]
        | bv0 :: bvs =>
            let s0 := map (fun p : res => restrict others (fst p)) (filter (fun p : res => negb (snd p)) (eval c bv0)) in
            let s := fold_left (fun (ss : list binds) (bv : binds) =>
                                  filter (fun s1 => first_true (eval c (bv ++ s1))) ss) bvs s0 in
            map (fun s1 => (s1 ++ b, false)) s
        end
    end.

  (* QueryObjectDescriptor: true results of the child; the selected expressions are enumerated by nested loops (leftmost
     varies slowest), each under the bindings produced by the ones before it (evaluate_selected_variables since 32abf51;
     before that: itertools.product of independent evaluations, kept as [select_product] for the regression witness) *)
  Definition true_results (c : option cond) : list binds :=
    match c with
    | Some c => map fst (filter (fun p : res => negb (snd p)) (eval c []))
    | None => [[]]
    end.

  Fixpoint product {A : Type} (ls : list (list A)) : list (list A) :=
    match ls with
    | [] => [[]]
    | l :: ls' => flat_map (fun a => map (cons a) (product ls')) l
    end.

  Definition select_product (sels : list opnd) (b : binds) : list (list val) :=
    product (map (fun s => map snd (ev_opnd s b)) sels).

  Fixpoint select (sels : list opnd) (b : binds) : list (list val) :=
    match sels with
    | [] => [[]]
    | s :: ss => flat_map (fun p : binds * val => map (cons (snd p)) (select ss (fst p))) (ev_opnd s b)
    end.

  Definition run (q : query) : list (list val) :=
    flat_map (select (q_sels q)) (true_results (q_cond q)).
End Eval.
