(* C08 proofs, part B: on a tree without Next whose nodes are pairwise distinct the CPS evaluator computes, element by
   element, the pure reading [pe]; hence [run W t = flat_map (rows1 t) (enum W)]. *)
From Coq Require Import List ZArith Bool Arith Lia.
From Krrood Require Import Eql.RuleSpec Eql.RuleEval Eql.RuleBuild Eql.RulePure.
Import ListNotations.

(* ---- store algebra ---- *)
Lemma get_set f n f' n' v S :
  get f n (set f' n' v S) = if Nat.eqb f' f && Nat.eqb n' n then v else get f n S.
Proof. reflexivity. Qed.
Lemma out_set f n v S : out (set f n v S) = out S.
Proof. reflexivity. Qed.
Lemma get_emit f n r S : get f n (emit r S) = get f n S.
Proof. reflexivity. Qed.
Lemma get_set_other_node f n f' n' v S : n' <> n -> get f n (set f' n' v S) = get f n S.
Proof. intros H. rewrite get_set. apply Nat.eqb_neq in H. rewrite H, andb_false_r. reflexivity. Qed.
Lemma get_set_same f n v S : get f n (set f n v S) = v.
Proof. rewrite get_set, !Nat.eqb_refl. reflexivity. Qed.
Lemma get_setb_other_node f n f' n' b S : n' <> n -> get f n (setb f' n' b S) = get f n S.
Proof. apply get_set_other_node. Qed.
Lemma getb_setb_same f n b S : getb f n (setb f n b S) = b.
Proof. unfold getb, setb. rewrite get_set_same. destruct b; reflexivity. Qed.

(* a continuation / a computation leaves the cells of the nodes in P alone *)
Definition keeps (P : nat -> Prop) (k : K) : Prop :=
  forall ie f S f' n, P n -> get f' n (k ie f S) = get f' n S.

Lemma get_add_seen f n e S : get f n (add_seen e S) = get f n S.
Proof. reflexivity. Qed.
Lemma update_conclusion_other id i c S f n : id <> n -> get f n (update_conclusion id i c S) = get f n S.
Proof.
  intros H. unfold update_conclusion. destruct c; [reflexivity|]. destruct (Nat.eqb id (rootsel S)).
  - destruct (seenb _ _ _ _ _); [reflexivity|]. rewrite get_add_seen. rewrite !get_set_other_node; auto.
  - rewrite !get_set_other_node; auto.
Qed.

Lemma yield_upd_other (P : nat -> Prop) id ie c k S f n :
  keeps P k -> P n -> id <> n -> get f n (yield_upd id ie c k S) = get f n S.
Proof.
  intros Hk Hp Hn. unfold yield_upd. rewrite get_set_other_node by auto. rewrite Hk by assumption.
  apply update_conclusion_other; auto.
Qed.

Lemma sel_post_other (P : nat -> Prop) s id l r k ie S f n :
  keeps P k -> P n -> id <> n -> get f n (sel_post s id l r k ie S) = get f n S.
Proof.
  intros Hk Hp Hn. unfold sel_post. rewrite get_set_other_node by auto. rewrite Hk by assumption.
  destruct s.
  - destruct (getb REV id _); [rewrite update_conclusion_other by auto|];
      (destruct (getb LEV id S); [apply update_conclusion_other; auto|reflexivity]).
  - destruct (negb _); [apply update_conclusion_other; auto|].
    destruct (negb _); [apply update_conclusion_other; auto|reflexivity].
  - destruct (getb REV id _); [rewrite update_conclusion_other by auto|];
      (destruct (getb LEV id S); [apply update_conclusion_other; auto|reflexivity]).
Qed.

Section Frame.
  Variable W : list elem.

  (* ev only writes cells of its own nodes (and whatever the continuation writes) *)
  Lemma ev_frame t : nextfree t = true -> forall (P : nat -> Prop) b k S,
      (forall n, In n (ids t) -> ~ P n) -> keeps P k ->
      forall f n, P n -> get f n (ev W t b k S) = get f n S.
  Proof.
    induction t as [id cs c | id s l IHl r IHr]; intros Hnf P b k S Hd Hk f n Hp.
    - simpl. assert (Hid : id <> n) by (intro; subst; apply (Hd n); simpl; auto).
      assert (Hone : forall S ie, get f n (k ie (negb (holds (snd ie) cs)) (setb FLAG id (negb (holds (snd ie) cs)) S)) = get f n S).
      { intros S0 ie. rewrite Hk by assumption. apply get_setb_other_node; auto. }
      destruct b as [ie|]; [apply Hone|].
      generalize (enum W) S. intros L. induction L as [|ie L IHL]; intros S0; simpl; [reflexivity|].
      rewrite IHL. apply Hone.
    - assert (Hdl : forall m, In m (ids l) -> ~ P m) by (intros m Hm; apply Hd; simpl; right; apply in_or_app; auto).
      assert (Hdr : forall m, In m (ids r) -> ~ P m) by (intros m Hm; apply Hd; simpl; right; apply in_or_app; auto).
      assert (Hidn : forall m, P m -> id <> m) by (intros m Hm E; subst; apply (Hd m); simpl; auto).
      destruct s; simpl in Hnf; try discriminate; apply andb_prop in Hnf; destruct Hnf as [Hnl Hnr].
      + (* ExceptIf *)
        cbn [ev]. apply (IHl Hnl P); auto. intros ie fl S1 f0 n0 Hp0.
        destruct fl.
        * rewrite Hk by assumption. apply get_setb_other_node; auto.
        * match goal with |- get _ _ (if getb RY id ?S3 then _ else _) = _ =>
            assert (H3 : get f0 n0 S3 = get f0 n0 S1) end.
          { rewrite (IHr Hnr P); auto.
            - rewrite !get_setb_other_node by auto. reflexivity.
            - intros ie' f' S' f1 n1 Hp1. destruct f'; [reflexivity|].
              rewrite (yield_upd_other P) by auto. apply get_setb_other_node; auto. }
          destruct (getb RY id _).
          -- rewrite get_set_other_node by auto. exact H3.
          -- rewrite (yield_upd_other P) by auto. rewrite get_set_other_node by auto. exact H3.
      + (* Alternative *)
        cbn [ev]. apply (IHl Hnl P); auto. intros ie fl S1 f0 n0 Hp0.
        destruct fl.
        * rewrite get_setb_other_node by auto. rewrite (IHr Hnr P); auto.
          -- rewrite !get_setb_other_node by auto. reflexivity.
          -- intros ie' fr S' f1 n1 Hp1. rewrite (sel_post_other P) by auto.
             rewrite !get_setb_other_node by auto. reflexivity.
        * rewrite (sel_post_other P) by auto. rewrite !get_setb_other_node by auto. reflexivity.
  Qed.
End Frame.

(* ---- more store algebra ---- *)
Ltac fne := unfold FLAG, DYN, LEV, REV, RY; lia.
Lemma get_set_diff f n f' n' v S : (f' <> f \/ n' <> n) -> get f n (set f' n' v S) = get f n S.
Proof.
  intros H. rewrite get_set. destruct H as [H|H]; apply Nat.eqb_neq in H; rewrite H; [reflexivity|rewrite andb_false_r; reflexivity].
Qed.
Lemma get_setb_diff f n f' n' b S : (f' <> f \/ n' <> n) -> get f n (setb f' n' b S) = get f n S.
Proof. apply get_set_diff. Qed.
Lemma getb_set_diff f n f' n' v S : (f' <> f \/ n' <> n) -> getb f n (set f' n' v S) = getb f n S.
Proof. intros H. unfold getb. rewrite get_set_diff by assumption. reflexivity. Qed.

Lemma memb_false i l : ~ In i l -> memb i l = false.
Proof.
  induction l as [|x l IH]; simpl; intros H; [reflexivity|].
  apply Bool.orb_false_iff. split.
  - apply Nat.eqb_neq. intro E. apply H. left. symmetry. exact E.
  - apply IH. intro. apply H. right. assumption.
Qed.

Lemma uc_out id i c S : out (update_conclusion id i c S) = out S.
Proof.
  unfold update_conclusion. destruct c; [reflexivity|]. destruct (Nat.eqb id (rootsel S)); [|reflexivity].
  destruct (seenb _ _ _ _ _); reflexivity.
Qed.
Lemma uc_rootsel id i c S : rootsel (update_conclusion id i c S) = rootsel S.
Proof.
  unfold update_conclusion. destruct c; [reflexivity|]. destruct (Nat.eqb id (rootsel S)); [|reflexivity].
  destruct (seenb _ _ _ _ _); reflexivity.
Qed.
Lemma uc_seen_incl0 id i c S : incl (seen S) (seen (update_conclusion id i c S)).
Proof.
  unfold update_conclusion. destruct c; [apply incl_refl|]. destruct (Nat.eqb id (rootsel S)); [|apply incl_refl].
  destruct (seenb _ _ _ _ _); [apply incl_refl|]. simpl. apply incl_tl, incl_refl.
Qed.
Lemma uc_field id i c S f n : f <> DYN -> get f n (update_conclusion id i c S) = get f n S.
Proof.
  intros H1. unfold update_conclusion. destruct c; [reflexivity|]. destruct (Nat.eqb id (rootsel S)).
  - destruct (seenb _ _ _ _ _); [reflexivity|].
    rewrite get_add_seen. rewrite !get_set_diff by (left; congruence). reflexivity.
  - rewrite !get_set_diff by (left; congruence). reflexivity.
Qed.

(* ---- the coverage memory only grows, by entries of the current element at the nodes of the tree ---- *)
Definition e_node (e : seen_entry) : nat := fst (fst (fst e)).
Definition e_idx (e : seen_entry) : nat := snd e.
Definition grow (P : nat -> Prop) (i : nat) (S S1 : store) : Prop :=
  forall e, In e (seen S1) -> In e (seen S) \/ (e_idx e = i /\ P (e_node e)).
Lemma grow_eq P i S S1 : seen S1 = seen S -> grow P i S S1.
Proof. intros H e He. left. rewrite <- H. exact He. Qed.
Lemma grow_trans P i S S1 S2 : grow P i S S1 -> grow P i S1 S2 -> grow P i S S2.
Proof. intros H1 H2 e He. destruct (H2 e He) as [H|H]; [apply H1; exact H|right; exact H]. Qed.
Lemma grow_mono (P Q : nat -> Prop) i S S1 : (forall n, P n -> Q n) -> grow P i S S1 -> grow Q i S S1.
Proof. intros H H1 e He. destruct (H1 e He) as [H2|[H2 H3]]; [left; exact H2|right; split; [exact H2|apply H; exact H3]]. Qed.
Lemma uc_grow id i c S : grow (fun n => n = id) i S (update_conclusion id i c S).
Proof.
  unfold update_conclusion. destruct c; [apply grow_eq; reflexivity|].
  destruct (Nat.eqb id (rootsel S)); [|apply grow_eq; reflexivity].
  destruct (seenb _ _ _ _ _); [apply grow_eq; reflexivity|].
  intros e [<-|He]; [right; split; reflexivity|left; exact He].
Qed.
Definition fresh_at (id i : nat) (S : store) : Prop := forall e, In e (seen S) -> e_node e = id -> e_idx e <> i.
Lemma fresh_from_grow (P : nat -> Prop) id i S S1 :
  fresh_at id i S -> grow P i S S1 -> (forall n, P n -> n <> id) -> fresh_at id i S1.
Proof.
  intros Hf Hg Hp e He Hn. destruct (Hg e He) as [H|[_ H]]; [apply Hf; assumption|]. exfalso. apply (Hp _ H). exact Hn.
Qed.
Lemma seenb_fresh id tr c i S : fresh_at id i S -> seenb id tr c i S = false.
Proof.
  intros Hf. unfold seenb. destruct (existsb _ _) eqn:E; [|reflexivity]. exfalso.
  apply existsb_exists in E. destruct E as [[[[n t] c'] j] [Hin He]]. simpl in He.
  apply andb_prop in He. destruct He as [He Hj]. apply andb_prop in He. destruct He as [He _].
  apply andb_prop in He. destruct He as [Hn _]. apply Nat.eqb_eq in Hn, Hj. subst.
  apply (Hf _ Hin); reflexivity.
Qed.
(* the selection succeeds: output true, key not covered, nothing selected yet *)
Lemma uc_dyn id i c S :
  getb FLAG id S = false -> fresh_at id i S -> get DYN id S = [] ->
  get DYN id (update_conclusion id i c S) = union [] c.
Proof.
  intros Hf Hs Hd. unfold update_conclusion. destruct c as [|x c]; [exact Hd|].
  destruct (Nat.eqb id (rootsel S)).
  - rewrite (seenb_fresh _ _ _ _ _ Hs). rewrite get_add_seen. rewrite get_set_same. rewrite Hd. reflexivity.
  - rewrite get_set_same. rewrite Hd. reflexivity.
Qed.

Lemma incl_step (i : nat) A B C : incl A (i :: B) -> incl B (i :: C) -> incl A (i :: C).
Proof.
  intros H1 H2 x Hx. apply H1 in Hx. destruct Hx as [->|Hx]; [left; reflexivity|]. apply H2. exact Hx.
Qed.

(* ---- the invariant of one element's pass ---- *)
Definition fresh (t : tree) (i : nat) (S : store) : Prop :=
  forall e, In e (seen S) -> In (e_node e) (ids t) -> e_idx e <> i.
Definition dynclear (t : tree) (S : store) : Prop := forall n, In n (ids t) -> get DYN n S = [].
Definition inT (t : tree) : nat -> Prop := fun n => In n (ids t).

(* the store handed to the continuation *)
Definition Rel (t : tree) (i : nat) (e : elem) (S S1 : store) : Prop :=
  ((out S1 = out S /\
  (forall f n, ~ In n (ids t) -> get f n S1 = get f n S) /\
  grow (inT t) i S S1 /\
  getb FLAG (root_id t) S1 = fst (pe t e) /\
  concl_now t S1 = snd (pe t e)) /\
  rootsel S1 = rootsel S) /\
  incl (seen S) (seen S1).
(* the final store, relative to the store the continuation returned *)
Definition Fin (t : tree) (S' Sf : store) : Prop :=
  (out Sf = out S' /\
  (forall f n, ~ In n (ids t) -> get f n Sf = get f n S') /\
  seen Sf = seen S' /\
  (forall n, In n (ids t) -> get DYN n Sf = [])) /\
  rootsel Sf = rootsel S'.

Lemma root_in t : In (root_id t) (ids t).
Proof. destruct t; simpl; auto. Qed.
Lemma concl_now_same t S S' : (forall f n, In n (ids t) -> get f n S = get f n S') -> concl_now t S = concl_now t S'.
Proof. intros H. destruct t; simpl; [reflexivity|]. apply H. simpl. auto. Qed.

Lemma nodup_app_l {A} (a b : list A) : NoDup (a ++ b) -> NoDup a.
Proof.
  induction a as [|x a IH]; simpl; intros H; [constructor|].
  apply NoDup_cons_iff in H. destruct H as [Hx H]. constructor; [|apply IH; exact H].
  intro. apply Hx, in_or_app; auto.
Qed.
Lemma nodup_app_r {A} (a b : list A) : NoDup (a ++ b) -> NoDup b.
Proof.
  induction a as [|x a IH]; simpl; intros H; [exact H|].
  apply NoDup_cons_iff in H. apply IH, H.
Qed.
Lemma nodup_app_disj {A} (a b : list A) : NoDup (a ++ b) -> forall x, In x a -> ~ In x b.
Proof.
  induction a as [|y a IH]; simpl; intros H x Hx; [destruct Hx|].
  apply NoDup_cons_iff in H. destruct H as [Hy H]. destruct Hx as [->|Hx].
  - intro. apply Hy, in_or_app; auto.
  - apply IH; auto.
Qed.

Section Bound.
  Variable W : list elem.

  Lemma ev_bound t : nextfree t = true -> NoDup (ids t) -> forall i e k S,
      fresh t i S -> dynclear t S -> keeps (inT t) k ->
      exists S1, Rel t i e S S1 /\ Fin t (k (i, e) (fst (pe t e)) S1) (ev W t (Some (i, e)) k S).
  Proof.
    induction t as [id cs c | id s l IHl r IHr]; intros Hnf Hnd i e k S Hfr Hdc Hk.
    - (* leaf *)
      exists (setb FLAG id (negb (holds e cs)) S). split.
      + split; [split; [|reflexivity]|apply incl_refl]. repeat split.
        * intros f n Hn. apply get_setb_diff. right. intro; subst; apply Hn; simpl; auto.
        * apply grow_eq. reflexivity.
        * simpl. apply getb_setb_same.
      + simpl. split; [|reflexivity]. repeat split; auto. intros n [<-|[]]. 
        rewrite (Hk (i, e) _ _ DYN id) by (red; simpl; auto).
        rewrite get_setb_diff by (left; fne). apply Hdc. simpl; auto.
    - (* selector *)
      simpl in Hnd. apply NoDup_cons_iff in Hnd. destruct Hnd as [Hid Hnd].
      assert (Hidl : ~ In id (ids l)) by (intro; apply Hid, in_or_app; auto).
      assert (Hidr : ~ In id (ids r)) by (intro; apply Hid, in_or_app; auto).
      assert (Hndl : NoDup (ids l)) by (eapply nodup_app_l; eauto).
      assert (Hndr : NoDup (ids r)) by (eapply nodup_app_r; eauto).
      assert (Hlr : forall n, In n (ids l) -> ~ In n (ids r)).
      { apply nodup_app_disj. exact Hnd. }
      assert (Hfrl : fresh l i S) by (intros e0 He0 Hn; apply (Hfr e0 He0); simpl; right; apply in_or_app; auto).
      assert (Hml : forall n, inT l n -> inT (Node id s l r) n) by (intros n Hn; red; simpl; right; apply in_or_app; auto).
      assert (Hmr : forall n, inT r n -> inT (Node id s l r) n) by (intros n Hn; red; simpl; right; apply in_or_app; auto).
      assert (Hmi : forall n, n = id -> inT (Node id s l r) n) by (intros n ->; red; simpl; auto).
      assert (Hnl_id : forall n, inT l n -> n <> id) by (intros n Hn E; subst; contradiction).
      assert (Hnr_id : forall n, inT r n -> n <> id) by (intros n Hn E; subst; contradiction).
      assert (Hmlr : forall n, inT l n \/ inT r n -> inT (Node id s l r) n) by (intros n [H|H]; [apply Hml|apply Hmr]; exact H).
      assert (Hnlr_id : forall n, inT l n \/ inT r n -> n <> id) by (intros n [H|H]; [apply Hnl_id|apply Hnr_id]; exact H).
      assert (Hdcl : dynclear l S) by (intros n Hn; apply Hdc; simpl; right; apply in_or_app; auto).
      assert (Hfid : fresh_at id i S) by (intros e0 He0 Hn; apply (Hfr e0 He0); rewrite Hn; simpl; auto).
      assert (Hdid : get DYN id S = []) by (apply Hdc; simpl; auto).
      assert (Hkid : forall ie f S' f', get f' id (k ie f S') = get f' id S') by (intros; apply Hk; red; simpl; auto).
      assert (Hkl : forall ie f S' f' n, In n (ids l) -> get f' n (k ie f S') = get f' n S')
        by (intros; apply Hk; red; simpl; right; apply in_or_app; auto).
      assert (Hkr : forall ie f S' f' n, In n (ids r) -> get f' n (k ie f S') = get f' n S')
        by (intros; apply Hk; red; simpl; right; apply in_or_app; auto).
      assert (HklK : keeps (inT l) k) by (intros ? ? ? ? ? Hx; apply Hkl; exact Hx).
      assert (HkrK : keeps (inT r) k) by (intros ? ? ? ? ? Hx; apply Hkr; exact Hx).
      destruct s; simpl in Hnf; try discriminate; apply andb_prop in Hnf; destruct Hnf as [Hnl Hnr].
      + (* ExceptIf *)
        cbn [ev].
        match goal with |- context [ev W l (Some (i, e)) ?K S] => set (KK := K) end.
        assert (HKK : keeps (inT l) KK).
        { intros ie fl S1 f0 n0 Hp0. red in Hp0. unfold KK.
          assert (id <> n0) by (intro; subst; contradiction).
          destruct fl.
          - rewrite Hkl by assumption. apply get_setb_diff; auto.
          - match goal with |- get _ _ (if getb RY id ?S3 then _ else _) = _ =>
              assert (H3 : get f0 n0 S3 = get f0 n0 S1) end.
            { rewrite (ev_frame W r Hnr (inT l)); auto.
              - rewrite !get_setb_diff by auto. reflexivity.
              - intros n Hn Hn'. exact (Hlr n Hn' Hn).
              - intros ie' f' S' f1 n1 Hp1. destruct f'; [reflexivity|]. red in Hp1.
                assert (id <> n1) by (intro; subst; contradiction).
                rewrite (yield_upd_other (inT l) id _ _ k _ f1 n1 HklK Hp1 H0).
                apply get_setb_diff; auto. }
            destruct (getb RY id _).
            + rewrite get_set_diff by auto. exact H3.
            + rewrite (yield_upd_other (inT l) id _ _ k _ f0 n0 HklK Hp0 H).
              rewrite get_set_diff by auto. exact H3. }
        destruct (IHl Hnl Hndl i e KK S Hfrl Hdcl HKK) as [S1l [[[[Ho1 [Hout1 [Hseen1 [Hfl1 Hcl1]]]] Hrs1] Hin1] Hfinl]].
        destruct (pe l e) as [fl cl] eqn:Epl. simpl in Hfl1, Hcl1, Hfinl.
        destruct fl.
        * (* left false: passed through *)
          assert (Epe : pe (Node id SExc l r) e = (true, [])) by (simpl; rewrite Epl; reflexivity).
          exists (setb FLAG id true S1l). unfold Rel, Fin. rewrite Epe. simpl fst. simpl snd. split.
          -- split; [split; [|exact Hrs1]|exact Hin1]. repeat split.
             ++ exact Ho1.
             ++ intros f n Hn. rewrite get_setb_diff by (right; intro; subst; apply Hn; simpl; auto).
                apply Hout1. intro; apply Hn; simpl; right; apply in_or_app; auto.
             ++ apply (grow_mono (inT l)); [exact Hml|exact Hseen1].
             ++ simpl root_id. apply getb_setb_same.
             ++ change (get DYN id (setb FLAG id true S1l) = []). rewrite get_setb_diff by (left; fne). rewrite Hout1 by assumption. exact Hdid.
          -- unfold KK in Hfinl. simpl in Hfinl. destruct Hfinl as [[Hf1 [Hf2 [Hf3 Hf4]]] Hf5].
             split; [|exact Hf5]. repeat split.
             ++ exact Hf1.
             ++ intros f n Hn. apply Hf2. intro; apply Hn; simpl; right; apply in_or_app; auto.
             ++ exact Hf3.
             ++ intros n [<-|Hn].
                ** rewrite Hf2 by assumption. rewrite Hkid. rewrite get_setb_diff by (left; fne).
                   rewrite Hout1 by assumption. exact Hdid.
                ** apply in_app_or in Hn. destruct Hn as [Hn|Hn]; [apply Hf4; exact Hn|].
                   assert (~ In n (ids l)) by (intro Hx; exact (Hlr n Hx Hn)).
                   rewrite Hf2 by assumption. rewrite Hkr by assumption.
                   rewrite get_setb_diff by (right; intro; subst; contradiction).
                   rewrite Hout1 by assumption. apply Hdc. simpl; right; apply in_or_app; auto.
        * (* left true: the exception branch decides *)
          unfold KK in Hfinl at 1. cbv beta iota zeta in Hfinl. unfold binding in *.
          match type of Hfinl with context [ev W r (Some (i, e)) ?K1 ?SS] => set (K' := K1) in *; set (S2 := SS) in * end.
          assert (HS2 : forall f n, n <> id -> get f n S2 = get f n S1l).
          { intros f n Hn. unfold S2. rewrite !get_setb_diff by auto. reflexivity. }
          assert (HS2l : forall f n, ~ In n (ids l) -> n <> id -> get f n S2 = get f n S).
          { intros f n Hn1 Hn2. rewrite HS2 by assumption. apply Hout1. assumption. }
          assert (HS2id : forall f, f <> FLAG -> f <> RY -> get f id S2 = get f id S).
          { intros f H1 H2. unfold S2. rewrite !get_setb_diff by (left; congruence). apply Hout1. assumption. }
          assert (HS2flag : getb FLAG id S2 = false).
          { unfold S2. unfold getb. rewrite get_setb_diff by (left; fne). apply (getb_setb_same FLAG id false). }
          assert (Hfrr : fresh r i S2).
          { intros e0 He0 Hn. destruct (Hseen1 e0 He0) as [Hin|[_ Hin]].
            - apply (Hfr e0 Hin). simpl; right; apply in_or_app; auto.
            - exfalso. exact (Hlr _ Hin Hn). }
          assert (Hdcr : dynclear r S2).
          { intros n Hn. assert (n <> id) by (intro; subst; contradiction).
            assert (~ In n (ids l)) by (intro Hx; exact (Hlr n Hx Hn)).
            rewrite HS2l by assumption. apply Hdc. simpl; right; apply in_or_app; auto. }
          assert (HK' : keeps (inT r) K').
          { intros ie' f' S' f1 n1 Hp1. red in Hp1. unfold K'. destruct f'; [reflexivity|].
            assert (Hne : id <> n1) by (intro; subst; contradiction).
            rewrite (yield_upd_other (inT r) id _ _ k _ f1 n1 HkrK Hp1 Hne).
            apply get_setb_diff; auto. }
          destruct (IHr Hnr Hndr i e K' S2 Hfrr Hdcr HK') as [S1r [[[[Ho2 [Hout2 [Hseen2 [Hfl2 Hcl2]]]] Hrs2] Hin2] Hfinr]].
          destruct (pe r e) as [fr cr] eqn:Epr. simpl in Hfl2, Hcl2, Hfinr.
          destruct Hfinl as [[Hf1 [Hf2 [Hf3 Hf4]]] Hf5].
          assert (Hrootl : forall f n, In n (ids l) -> get f n S1r = get f n S1l).
          { intros f n Hn. assert (n <> id) by (intro; subst; contradiction).
            rewrite Hout2 by (exact (Hlr n Hn)). apply HS2. assumption. }
          assert (Hidr1 : forall f, get f id S1r = get f id S2) by (intros f; apply Hout2; assumption).
          destruct fr.
          -- (* exception does not hold: the rule's own conclusion *)
             assert (Epe : pe (Node id SExc l r) e = (false, union [] cl)) by (simpl; rewrite Epl, Epr; reflexivity).
             unfold K' in Hfinr at 1. cbv iota in Hfinr.
             destruct Hfinr as [[Hg1 [Hg2 [Hg3 Hg4]]] Hg5].
             assert (Hry : getb RY id (ev W r (Some (i, e)) K' S2) = false).
             { unfold getb. rewrite Hg2 by assumption. rewrite Hidr1. unfold S2, setb. rewrite get_set_same. reflexivity. }
             rewrite Hry in Hf1, Hf2, Hf3, Hf5.
             set (S4 := set RY id (get RY id (setb FLAG id false S1l)) (ev W r (Some (i, e)) K' S2)) in *.
             assert (G4 : grow (fun n => inT l n \/ inT r n) i S S4).
             { apply grow_trans with S1l; [apply (grow_mono (inT l)); [intros n H; left; exact H|exact Hseen1]|].
               apply grow_trans with S1r; [apply (grow_mono (inT r)); [intros n H; right; exact H|exact Hseen2]|].
               apply grow_eq. exact Hg3. }
             assert (HS4l : forall f n, In n (ids l) -> get f n S4 = get f n S1l).
             { intros f n Hn. assert (n <> id) by (intro; subst; contradiction).
               unfold S4. rewrite get_set_diff by auto. rewrite Hg2 by (exact (Hlr n Hn)). apply Hrootl. exact Hn. }
             assert (Hcl4 : concl_now l S4 = cl).
             { rewrite <- Hcl1. apply concl_now_same. exact HS4l. }
             rewrite Hcl4 in *.
             assert (HS4id : forall f, f <> FLAG -> f <> RY -> get f id S4 = get f id S).
             { intros f H1 H2. unfold S4. rewrite get_set_diff by (left; congruence). rewrite Hg2 by assumption.
               rewrite Hidr1. apply HS2id; assumption. }
             assert (HS4flag : getb FLAG id S4 = false).
             { unfold getb, S4. rewrite get_set_diff by (left; fne). rewrite Hg2 by assumption. rewrite Hidr1. exact HS2flag. }
             set (U := update_conclusion id i cl S4) in *.
             assert (HUdyn : get DYN id U = union [] cl).
             { apply uc_dyn; [exact HS4flag| |].
               - exact (fresh_from_grow _ id i S S4 Hfid G4 Hnlr_id).
               - rewrite HS4id by fne. exact Hdid. }
             assert (HUflag : getb FLAG id U = false).
             { unfold getb, U. rewrite uc_field by fne. exact HS4flag. }
             unfold yield_upd in Hf1, Hf2, Hf3, Hf4, Hf5. cbn [fst] in Hf1, Hf2, Hf3, Hf4, Hf5. fold U in Hf1, Hf2, Hf3, Hf4, Hf5. rewrite HUflag in Hf1, Hf2, Hf3, Hf5.
             exists U. unfold Rel, Fin. rewrite Epe. simpl fst. simpl snd. split.
             ++ split; [split; [|unfold U; rewrite uc_rootsel; unfold S4; cbn [rootsel set setb]; rewrite Hg5; unfold K'; cbv beta iota; rewrite Hrs2; unfold S2; cbn [rootsel set setb]; exact Hrs1]|eapply incl_tran; [exact Hin1|]; eapply incl_tran; [exact Hin2|]; unfold U; eapply incl_tran; [|apply uc_seen_incl0]; unfold S4; cbn [seen set]; rewrite Hg3; apply incl_refl]. repeat split.
                ** unfold U. rewrite uc_out. unfold S4. rewrite out_set. rewrite Hg1, Ho2. unfold S2, setb.
                   rewrite !out_set. exact Ho1.
                ** intros f n Hn.
                   assert (Hn1 : n <> id) by (intro; subst; apply Hn; simpl; auto).
                   assert (Hn2 : ~ In n (ids l)) by (intro; apply Hn; simpl; right; apply in_or_app; auto).
                   assert (Hn3 : ~ In n (ids r)) by (intro; apply Hn; simpl; right; apply in_or_app; auto).
                   unfold U. rewrite update_conclusion_other by auto. unfold S4. rewrite get_set_diff by auto.
                   rewrite Hg2 by assumption. rewrite Hout2 by assumption. apply HS2l; assumption.
                ** apply grow_trans with S4; [exact (grow_mono _ _ _ _ _ Hmlr G4)|].
                   exact (grow_mono _ _ _ _ _ Hmi (uc_grow id i cl S4)).
                ** exact HUflag.
                ** exact HUdyn.
             ++ split; [|rewrite Hf5; reflexivity]. repeat split.
                ** rewrite Hf1. apply out_set.
                ** intros f n Hn.
                   assert (Hn1 : n <> id) by (intro; subst; apply Hn; simpl; auto).
                   assert (Hn2 : ~ In n (ids l)) by (intro; apply Hn; simpl; right; apply in_or_app; auto).
                   rewrite Hf2 by assumption. apply get_set_diff. auto.
                ** rewrite Hf3. reflexivity.
                ** intros n [<-|Hn].
                   --- rewrite Hf2 by assumption. apply get_set_same.
                   --- apply in_app_or in Hn. destruct Hn as [Hn|Hn]; [apply Hf4; exact Hn|].
                       assert (~ In n (ids l)) by (intro Hx; exact (Hlr n Hx Hn)).
                       assert (n <> id) by (intro; subst; contradiction).
                       rewrite Hf2 by assumption. rewrite get_set_diff by auto. rewrite Hkr by assumption.
                       unfold U. rewrite update_conclusion_other by auto. unfold S4. rewrite get_set_diff by auto.
                       apply Hg4. exact Hn.
          -- (* the exception holds: its conclusion overrides *)
             assert (Epe : pe (Node id SExc l r) e = (false, union [] cr)) by (simpl; rewrite Epl, Epr; reflexivity).
             unfold K' in Hfinr at 1. cbv iota in Hfinr.
             set (S1r' := setb RY id true S1r) in *.
             assert (HS1r' : forall f n, (RY <> f \/ id <> n) -> get f n S1r' = get f n S1r).
             { intros f n Hn. unfold S1r'. apply get_setb_diff. exact Hn. }
             rewrite Hcl2 in Hfinr.
             assert (G1 : grow (fun n => inT l n \/ inT r n) i S S1r').
             { apply grow_trans with S1l; [apply (grow_mono (inT l)); [intros n H; left; exact H|exact Hseen1]|].
               apply (grow_mono (inT r)); [intros n H; right; exact H|exact Hseen2]. }
             assert (HUflag0 : getb FLAG id S1r' = false).
             { unfold getb. rewrite HS1r' by (left; fne). rewrite Hidr1. exact HS2flag. }
             set (U := update_conclusion id i cr S1r') in *.
             assert (HUdyn : get DYN id U = union [] cr).
             { apply uc_dyn; [exact HUflag0| |].
               - exact (fresh_from_grow _ id i S S1r' Hfid G1 Hnlr_id).
               - rewrite HS1r' by (left; fne). rewrite Hidr1. rewrite HS2id by fne. exact Hdid. }
             assert (HUflag : getb FLAG id U = false).
             { unfold getb, U. rewrite uc_field by fne. exact HUflag0. }
             unfold yield_upd in Hfinr. cbn [fst] in Hfinr. fold U in Hfinr. rewrite HUflag in Hfinr.
             destruct Hfinr as [[Hg1 [Hg2 [Hg3 Hg4]]] Hg5].
             assert (Hry : getb RY id (ev W r (Some (i, e)) K' S2) = true).
             { unfold getb. rewrite Hg2 by assumption. rewrite get_set_diff by (left; fne). rewrite Hkid.
               unfold U. rewrite uc_field by fne. unfold S1r', setb. rewrite get_set_same. reflexivity. }
             rewrite Hry in Hf1, Hf2, Hf3, Hf5.
             exists U. unfold Rel, Fin. rewrite Epe. simpl fst. simpl snd. split.
             ++ split; [split; [|unfold U; rewrite uc_rootsel; unfold S1r'; cbn [rootsel set setb]; rewrite Hrs2; unfold S2; cbn [rootsel set setb]; exact Hrs1]|eapply incl_tran; [exact Hin1|]; eapply incl_tran; [exact Hin2|]; unfold U; eapply incl_tran; [|apply uc_seen_incl0]; apply incl_refl]. repeat split.
                ** unfold U. rewrite uc_out. unfold S1r', setb. rewrite out_set. rewrite Ho2. unfold S2, setb.
                   rewrite !out_set. exact Ho1.
                ** intros f n Hn.
                   assert (Hn1 : n <> id) by (intro; subst; apply Hn; simpl; auto).
                   assert (Hn2 : ~ In n (ids l)) by (intro; apply Hn; simpl; right; apply in_or_app; auto).
                   assert (Hn3 : ~ In n (ids r)) by (intro; apply Hn; simpl; right; apply in_or_app; auto).
                   unfold U. rewrite update_conclusion_other by auto. rewrite HS1r' by auto.
                   rewrite Hout2 by assumption. apply HS2l; assumption.
                ** apply grow_trans with S1r'; [exact (grow_mono _ _ _ _ _ Hmlr G1)|].
                   exact (grow_mono _ _ _ _ _ Hmi (uc_grow id i cr S1r')).
                ** exact HUflag.
                ** exact HUdyn.
             ++ split; [|rewrite Hf5; cbn [rootsel set setb]; rewrite Hg5; reflexivity]. repeat split.
                ** rewrite Hf1. rewrite out_set. rewrite Hg1. apply out_set.
                ** intros f n Hn.
                   assert (Hn1 : n <> id) by (intro; subst; apply Hn; simpl; auto).
                   assert (Hn2 : ~ In n (ids l)) by (intro; apply Hn; simpl; right; apply in_or_app; auto).
                   assert (Hn3 : ~ In n (ids r)) by (intro; apply Hn; simpl; right; apply in_or_app; auto).
                   rewrite Hf2 by assumption. rewrite get_set_diff by auto. rewrite Hg2 by assumption.
                   apply get_set_diff. auto.
                ** rewrite Hf3. cbn [seen set]. rewrite Hg3. reflexivity.
                ** intros n [<-|Hn].
                   --- rewrite Hf2 by assumption. rewrite get_set_diff by (left; fne). rewrite Hg2 by assumption.
                       apply get_set_same.
                   --- apply in_app_or in Hn. destruct Hn as [Hn|Hn]; [apply Hf4; exact Hn|].
                       assert (~ In n (ids l)) by (intro Hx; exact (Hlr n Hx Hn)).
                       assert (n <> id) by (intro; subst; contradiction).
                       rewrite Hf2 by assumption. rewrite get_set_diff by auto. apply Hg4. exact Hn.
      + (* Alternative *)
        cbn [ev].
        match goal with |- context [ev W l (Some (i, e)) ?K S] => set (KK := K) end.
        assert (HKK : keeps (inT l) KK).
        { intros ie fl S1 f0 n0 Hp0. red in Hp0. unfold KK.
          assert (Hne : id <> n0) by (intro; subst; contradiction).
          destruct fl.
          - rewrite get_setb_diff by auto. rewrite (ev_frame W r Hnr (inT l)); auto.
            + rewrite !get_setb_diff by auto. reflexivity.
            + intros n Hn Hn'. exact (Hlr n Hn' Hn).
            + intros ie' fr S' f1 n1 Hp1. red in Hp1.
              assert (Hne1 : id <> n1) by (intro; subst; contradiction).
              rewrite (sel_post_other (inT l) SAlt id l r k _ _ f1 n1 HklK Hp1 Hne1).
              rewrite !get_setb_diff by auto. reflexivity.
          - rewrite (sel_post_other (inT l) SAlt id l r k _ _ f0 n0 HklK Hp0 Hne).
            rewrite !get_setb_diff by auto. reflexivity. }
        destruct (IHl Hnl Hndl i e KK S Hfrl Hdcl HKK) as [S1l [[[[Ho1 [Hout1 [Hseen1 [Hfl1 Hcl1]]]] Hrs1] Hin1] Hfinl]].
        destruct (pe l e) as [fl cl] eqn:Epl. simpl in Hfl1, Hcl1, Hfinl.
        assert (Hrl : root_id l <> id) by (intro E; apply Hidl; rewrite <- E; apply root_in).
        assert (Hrr : root_id r <> id) by (intro E; apply Hidr; rewrite <- E; apply root_in).
        unfold KK in Hfinl at 1. cbv beta iota zeta in Hfinl. unfold binding in *.
        destruct Hfinl as [[Hf1 [Hf2 [Hf3 Hf4]]] Hf5].
        destruct fl.
        * (* left false: try the alternative *)
          match type of Hf1 with context [ev W r (Some (i, e)) ?K1 ?SS] => set (K' := K1) in *; set (S2 := SS) in * end.
          assert (HS2 : forall f n, n <> id -> get f n S2 = get f n S1l).
          { intros f n Hn. unfold S2. rewrite !get_setb_diff by auto. reflexivity. }
          assert (HS2l : forall f n, ~ In n (ids l) -> n <> id -> get f n S2 = get f n S).
          { intros f n Hn1 Hn2. rewrite HS2 by assumption. apply Hout1. assumption. }
          assert (HS2id : forall f, f <> LEV -> get f id S2 = get f id S).
          { intros f H1. unfold S2. rewrite !get_setb_diff by (left; congruence). apply Hout1. assumption. }
          assert (Hfrr : fresh r i S2).
          { intros e0 He0 Hn. destruct (Hseen1 e0 He0) as [Hin|[_ Hin]].
            - apply (Hfr e0 Hin). simpl; right; apply in_or_app; auto.
            - exfalso. exact (Hlr _ Hin Hn). }
          assert (Hdcr : dynclear r S2).
          { intros n Hn. assert (n <> id) by (intro; subst; contradiction).
            assert (~ In n (ids l)) by (intro Hx; exact (Hlr n Hx Hn)).
            rewrite HS2l by assumption. apply Hdc. simpl; right; apply in_or_app; auto. }
          assert (HK' : keeps (inT r) K').
          { intros ie' f' S' f1 n1 Hp1. red in Hp1. unfold K'.
            assert (Hne : id <> n1) by (intro; subst; contradiction).
            rewrite (sel_post_other (inT r) SAlt id l r k _ _ f1 n1 HkrK Hp1 Hne).
            rewrite !get_setb_diff by auto. reflexivity. }
          destruct (IHr Hnr Hndr i e K' S2 Hfrr Hdcr HK') as [S1r [[[[Ho2 [Hout2 [Hseen2 [Hfl2 Hcl2]]]] Hrs2] Hin2] Hfinr]].
          destruct (pe r e) as [fr cr] eqn:Epr. simpl in Hfl2, Hcl2, Hfinr.
          assert (Hidr1 : forall f, get f id S1r = get f id S2) by (intros f; apply Hout2; assumption).
          unfold K' in Hfinr at 1. cbv beta in Hfinr.
          set (Sc := setb REV id true (setb FLAG id fr S1r)) in *.
          assert (HSc : forall f n, n <> id -> get f n Sc = get f n S1r).
          { intros f n Hn. unfold Sc. rewrite !get_setb_diff by auto. reflexivity. }
          assert (Gc : grow (fun n => inT l n \/ inT r n) i S Sc).
          { apply grow_trans with S1l; [apply (grow_mono (inT l)); [intros n H; left; exact H|exact Hseen1]|].
            apply (grow_mono (inT r)); [intros n H; right; exact H|exact Hseen2]. }
          assert (HScid : forall f, f <> REV -> f <> FLAG -> get f id Sc = get f id S2).
          { intros f H1 H2. unfold Sc. rewrite !get_setb_diff by (left; congruence). apply Hidr1. }
          assert (HScflag : getb FLAG id Sc = fr).
          { unfold getb, Sc. rewrite get_setb_diff by (left; fne). apply (getb_setb_same FLAG id fr). }
          assert (Hlflag : getb FLAG (root_id l) Sc = true).
          { unfold getb. rewrite HSc by assumption. rewrite Hout2 by (apply Hlr, root_in).
            rewrite HS2 by assumption. exact Hfl1. }
          assert (Hrflag : getb FLAG (root_id r) Sc = fr).
          { unfold getb. rewrite HSc by assumption. exact Hfl2. }
          assert (Hclr : concl_now r Sc = cr).
          { rewrite <- Hcl2. apply concl_now_same. intros f n Hn. apply HSc. intro; subst; contradiction. }
          unfold sel_post in Hfinr. cbn [fst] in Hfinr. rewrite Hlflag, Hrflag in Hfinr. cbn [negb] in Hfinr.
          destruct fr.
          -- (* nothing fires *)
             assert (Epe : pe (Node id SAlt l r) e = (true, [])) by (simpl; rewrite Epl, Epr; reflexivity).
             cbn [negb] in Hfinr. cbv iota in Hfinr. rewrite HScflag in Hfinr.
             destruct Hfinr as [[Hg1 [Hg2 [Hg3 Hg4]]] Hg5].
             exists Sc. unfold Rel, Fin. rewrite Epe. simpl fst. simpl snd. split.
             ++ split; [split; [|unfold Sc; cbn [rootsel set setb]; rewrite Hrs2; unfold S2; cbn [rootsel set setb]; exact Hrs1]|eapply incl_tran; [exact Hin1|]; exact Hin2]. repeat split.
                ** unfold Sc, setb. rewrite !out_set. rewrite Ho2. unfold S2, setb. rewrite !out_set. exact Ho1.
                ** intros f n Hn.
                   assert (Hn1 : n <> id) by (intro; subst; apply Hn; simpl; auto).
                   assert (Hn2 : ~ In n (ids l)) by (intro; apply Hn; simpl; right; apply in_or_app; auto).
                   assert (Hn3 : ~ In n (ids r)) by (intro; apply Hn; simpl; right; apply in_or_app; auto).
                   rewrite HSc by assumption. rewrite Hout2 by assumption. apply HS2l; assumption.
                ** exact (grow_mono _ _ _ _ _ Hmlr Gc).
                ** exact HScflag.
                ** change (get DYN id Sc = []). rewrite HScid by fne. rewrite HS2id by fne. exact Hdid.
             ++ split; [|rewrite Hf5; cbn [rootsel set setb]; rewrite Hg5; reflexivity]. repeat split.
                ** rewrite Hf1. unfold setb at 1. rewrite out_set. rewrite Hg1. apply out_set.
                ** intros f n Hn.
                   assert (Hn1 : n <> id) by (intro; subst; apply Hn; simpl; auto).
                   assert (Hn2 : ~ In n (ids l)) by (intro; apply Hn; simpl; right; apply in_or_app; auto).
                   assert (Hn3 : ~ In n (ids r)) by (intro; apply Hn; simpl; right; apply in_or_app; auto).
                   rewrite Hf2 by assumption. rewrite get_setb_diff by auto. rewrite Hg2 by assumption.
                   apply get_set_diff. auto.
                ** rewrite Hf3. cbn [seen set setb]. rewrite Hg3. reflexivity.
                ** intros n [<-|Hn].
                   --- rewrite Hf2 by assumption. rewrite get_setb_diff by (left; fne). rewrite Hg2 by assumption.
                       apply get_set_same.
                   --- apply in_app_or in Hn. destruct Hn as [Hn|Hn]; [apply Hf4; exact Hn|].
                       assert (~ In n (ids l)) by (intro Hx; exact (Hlr n Hx Hn)).
                       assert (n <> id) by (intro; subst; contradiction).
                       rewrite Hf2 by assumption. rewrite get_setb_diff by auto. apply Hg4. exact Hn.
          -- (* the alternative fires *)
             assert (Epe : pe (Node id SAlt l r) e = (false, union [] cr)) by (simpl; rewrite Epl, Epr; reflexivity).
             cbn [negb] in Hfinr. cbv iota in Hfinr. rewrite Hclr in Hfinr.
             set (U := update_conclusion id i cr Sc) in *.
             assert (HUdyn : get DYN id U = union [] cr).
             { apply uc_dyn; [exact HScflag| |].
               - exact (fresh_from_grow _ id i S Sc Hfid Gc Hnlr_id).
               - rewrite HScid by fne. rewrite HS2id by fne. exact Hdid. }
             assert (HUflag : getb FLAG id U = false).
             { unfold getb, U. rewrite uc_field by fne. exact HScflag. }
             rewrite HUflag in Hfinr.
             destruct Hfinr as [[Hg1 [Hg2 [Hg3 Hg4]]] Hg5].
             exists U. unfold Rel, Fin. rewrite Epe. simpl fst. simpl snd. split.
             ++ split; [split; [|unfold U; rewrite uc_rootsel; unfold Sc; cbn [rootsel set setb]; rewrite Hrs2; unfold S2; cbn [rootsel set setb]; exact Hrs1]|eapply incl_tran; [exact Hin1|]; eapply incl_tran; [exact Hin2|]; unfold U; eapply incl_tran; [|apply uc_seen_incl0]; apply incl_refl]. repeat split.
                ** unfold U. rewrite uc_out. unfold Sc, setb. rewrite !out_set. rewrite Ho2. unfold S2, setb.
                   rewrite !out_set. exact Ho1.
                ** intros f n Hn.
                   assert (Hn1 : n <> id) by (intro; subst; apply Hn; simpl; auto).
                   assert (Hn2 : ~ In n (ids l)) by (intro; apply Hn; simpl; right; apply in_or_app; auto).
                   assert (Hn3 : ~ In n (ids r)) by (intro; apply Hn; simpl; right; apply in_or_app; auto).
                   unfold U. rewrite update_conclusion_other by auto.
                   rewrite HSc by assumption. rewrite Hout2 by assumption. apply HS2l; assumption.
                ** apply grow_trans with Sc; [exact (grow_mono _ _ _ _ _ Hmlr Gc)|].
                   exact (grow_mono _ _ _ _ _ Hmi (uc_grow id i cr Sc)).
                ** exact HUflag.
                ** exact HUdyn.
             ++ split; [|rewrite Hf5; cbn [rootsel set setb]; rewrite Hg5; reflexivity]. repeat split.
                ** rewrite Hf1. unfold setb at 1. rewrite out_set. rewrite Hg1. apply out_set.
                ** intros f n Hn.
                   assert (Hn1 : n <> id) by (intro; subst; apply Hn; simpl; auto).
                   assert (Hn2 : ~ In n (ids l)) by (intro; apply Hn; simpl; right; apply in_or_app; auto).
                   assert (Hn3 : ~ In n (ids r)) by (intro; apply Hn; simpl; right; apply in_or_app; auto).
                   rewrite Hf2 by assumption. rewrite get_setb_diff by auto. rewrite Hg2 by assumption.
                   apply get_set_diff. auto.
                ** rewrite Hf3. cbn [seen set setb]. rewrite Hg3. reflexivity.
                ** intros n [<-|Hn].
                   --- rewrite Hf2 by assumption. rewrite get_setb_diff by (left; fne). rewrite Hg2 by assumption.
                       apply get_set_same.
                   --- apply in_app_or in Hn. destruct Hn as [Hn|Hn]; [apply Hf4; exact Hn|].
                       assert (~ In n (ids l)) by (intro Hx; exact (Hlr n Hx Hn)).
                       assert (n <> id) by (intro; subst; contradiction).
                       rewrite Hf2 by assumption. rewrite get_setb_diff by auto. apply Hg4. exact Hn.
        * (* left fires *)
          assert (Epe : pe (Node id SAlt l r) e = (false, union [] cl)) by (simpl; rewrite Epl; reflexivity).
          set (Sa := setb FLAG id false (setb LEV id true S1l)) in *.
          assert (HSa : forall f n, n <> id -> get f n Sa = get f n S1l).
          { intros f n Hn. unfold Sa. rewrite !get_setb_diff by auto. reflexivity. }
          assert (HSaid : forall f, f <> LEV -> f <> FLAG -> get f id Sa = get f id S).
          { intros f H1 H2. unfold Sa. rewrite !get_setb_diff by (left; congruence). apply Hout1. assumption. }
          assert (HSaflag : getb FLAG id Sa = false) by (apply (getb_setb_same FLAG id false)).
          assert (Hlflag : getb FLAG (root_id l) Sa = false).
          { unfold getb. rewrite HSa by assumption. exact Hfl1. }
          assert (Hcla : concl_now l Sa = cl).
          { rewrite <- Hcl1. apply concl_now_same. intros f n Hn. apply HSa. intro; subst; contradiction. }
          unfold sel_post in Hf1, Hf2, Hf3, Hf5. cbn [fst] in Hf1, Hf2, Hf3, Hf5.
          rewrite Hlflag in Hf1, Hf2, Hf3, Hf5. cbn [negb] in Hf1, Hf2, Hf3, Hf5. cbv iota in Hf1, Hf2, Hf3, Hf5.
          rewrite Hcla in Hf1, Hf2, Hf3, Hf5.
          set (U := update_conclusion id i cl Sa) in *.
          assert (HUdyn : get DYN id U = union [] cl).
          { apply uc_dyn; [exact HSaflag| |].
            - refine (fresh_from_grow (inT l) id i S Sa Hfid _ Hnl_id). exact Hseen1.
            - rewrite HSaid by fne. exact Hdid. }
          assert (HUflag : getb FLAG id U = false).
          { unfold getb, U. rewrite uc_field by fne. exact HSaflag. }
          rewrite HUflag in Hf1, Hf2, Hf3, Hf5.
          exists U. unfold Rel, Fin. rewrite Epe. simpl fst. simpl snd. split.
          -- split; [split; [|unfold U; rewrite uc_rootsel; unfold Sa; cbn [rootsel set setb]; exact Hrs1]|eapply incl_tran; [exact Hin1|]; unfold U; eapply incl_tran; [|apply uc_seen_incl0]; apply incl_refl]. repeat split.
             ++ unfold U. rewrite uc_out. unfold Sa, setb. rewrite !out_set. exact Ho1.
             ++ intros f n Hn.
                assert (Hn1 : n <> id) by (intro; subst; apply Hn; simpl; auto).
                assert (Hn2 : ~ In n (ids l)) by (intro; apply Hn; simpl; right; apply in_or_app; auto).
                unfold U. rewrite update_conclusion_other by auto. rewrite HSa by assumption. apply Hout1. assumption.
             ++ apply grow_trans with Sa; [apply (grow_mono (inT l)); [exact Hml|exact Hseen1]|].
                exact (grow_mono _ _ _ _ _ Hmi (uc_grow id i cl Sa)).
             ++ exact HUflag.
             ++ exact HUdyn.
          -- split; [|rewrite Hf5; reflexivity]. repeat split.
             ++ rewrite Hf1. apply out_set.
             ++ intros f n Hn.
                assert (Hn1 : n <> id) by (intro; subst; apply Hn; simpl; auto).
                assert (Hn2 : ~ In n (ids l)) by (intro; apply Hn; simpl; right; apply in_or_app; auto).
                rewrite Hf2 by assumption. apply get_set_diff. auto.
             ++ rewrite Hf3. reflexivity.
             ++ intros n [<-|Hn].
                ** rewrite Hf2 by assumption. apply get_set_same.
                ** apply in_app_or in Hn. destruct Hn as [Hn|Hn]; [apply Hf4; exact Hn|].
                   assert (~ In n (ids l)) by (intro Hx; exact (Hlr n Hx Hn)).
                   assert (n <> id) by (intro; subst; contradiction).
                   rewrite Hf2 by assumption. rewrite get_set_diff by auto. rewrite Hkr by assumption.
                   unfold U. rewrite update_conclusion_other by auto. rewrite HSa by assumption.
                   rewrite Hout1 by assumption. apply Hdc. simpl; right; apply in_or_app; auto.
  Qed.
End Bound.

Section Run.
  Variable W : list elem.

  (* without Next the only enumeration is the one of the leftmost leaf *)
  Lemma ev_unbound t : nextfree t = true -> forall k S,
      ev W t None k S = fold_left (fun S ie => ev W t (Some ie) k S) (enum W) S.
  Proof.
    induction t as [id cs c | id s l IHl r IHr]; intros Hnf k S.
    - reflexivity.
    - destruct s; simpl in Hnf; try discriminate; apply andb_prop in Hnf; destruct Hnf as [Hnl Hnr].
      + cbn [ev]. apply IHl. exact Hnl.
      + cbn [ev]. apply IHl. exact Hnl.
  Qed.

  Definition topk (t : tree) : K :=
    fun ie f S => if f then S else match concl_now t S with [] => S | c => emit (c, fst ie) S end.

  Lemma topk_keeps t P : keeps P (topk t).
  Proof.
    intros ie f S f' n _. unfold topk. destruct f; [reflexivity|]. destruct (concl_now t S); reflexivity.
  Qed.

  Definition Inv (t : tree) (j : nat) (S : store) : Prop :=
    (forall e, In e (seen S) -> In (e_node e) (ids t) -> e_idx e < j) /\ dynclear t S.

  Lemma run_fold t : nextfree t = true -> NoDup (ids t) -> forall l j S, Inv t j S ->
      out (fold_left (fun S ie => ev W t (Some ie) (topk t) S) (enum_from j l) S)
      = rev (flat_map (rows1 t) (enum_from j l)) ++ out S.
  Proof.
    intros Hnf Hnd. induction l as [|e l IH]; intros j S [Hlt Hdc]; [reflexivity|].
    simpl enum_from. simpl fold_left.
    assert (Hfr : fresh t j S).
    { intros e0 He0 Hn Hx. specialize (Hlt e0 He0 Hn). lia. }
    destruct (ev_bound W t Hnf Hnd j e (topk t) S Hfr Hdc (topk_keeps t _))
      as [S1 [[[[Ho [Hout [Hseen [Hfl Hcl]]]] _] _] [[Hf1 [Hf2 [Hf3 Hf4]]] _]]].
    rewrite IH.
    - simpl flat_map. rewrite rev_app_distr, <- app_assoc. f_equal.
      unfold binding in *. rewrite Hf1. unfold topk, rows1. simpl snd. simpl fst.
      destruct (pe t e) as [f c]. simpl in *. destruct f; [exact Ho|].
      rewrite Hcl. destruct c; [exact Ho|]. simpl. rewrite Ho. reflexivity.
    - split.
      + intros e0 He0 Hn. unfold binding in *. rewrite Hf3 in He0.
        assert (Hs1 : seen (topk t (j, e) (fst (pe t e)) S1) = seen S1).
        { unfold topk. destruct (fst (pe t e)); [reflexivity|]. destruct (concl_now t S1); reflexivity. }
        rewrite Hs1 in He0. destruct (Hseen e0 He0) as [Hin|[Hi _]]; [specialize (Hlt e0 Hin Hn); lia|lia].
      + exact Hf4.
  Qed.

  Theorem run_nextfree t : nextfree t = true -> NoDup (ids t) -> run W t = flat_map (rows1 t) (enum W).
  Proof.
    intros Hnf Hnd. unfold run.
    change (fun (ie : binding) (f : bool) (S : store) =>
              if f then S else match concl_now t S with [] => S | c => emit (c, fst ie) S end) with (topk t).
    rewrite ev_unbound by exact Hnf. unfold enum. rewrite run_fold; auto.
    - simpl. rewrite app_nil_r. apply rev_involutive.
    - split; [intros e0 []|intros n _; reflexivity].
  Qed.
End Run.
