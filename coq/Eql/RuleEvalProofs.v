(* C08 proofs, part B: on a tree without Next whose nodes are pairwise distinct the CPS evaluator computes, element by
   element, the pure reading [pe]; hence [run W t = flat_map (rows1 t) (enum W)]. *)
From Coq Require Import List ZArith Bool Arith Lia.
From Krrood Require Import Eql.RuleSpec Eql.RuleEval Eql.RuleBuild Eql.RulePure.
Import ListNotations.

(* ---- store algebra ---- *)
Lemma get_set f n f' n' v S :
  get f n (set f' n' v S) = if Nat.eqb f' f && Nat.eqb n' n then v else get f n S.
Proof. reflexivity. Qed.
Lemma out_set f n v S : out (set f n v S) = out S.
Proof. reflexivity. Qed.
Lemma get_emit f n r S : get f n (emit r S) = get f n S.
Proof. reflexivity. Qed.
Lemma get_set_other_node f n f' n' v S : n' <> n -> get f n (set f' n' v S) = get f n S.
Proof. intros H. rewrite get_set. apply Nat.eqb_neq in H. rewrite H, andb_false_r. reflexivity. Qed.
Lemma get_set_same f n v S : get f n (set f n v S) = v.
Proof. rewrite get_set, !Nat.eqb_refl. reflexivity. Qed.
Lemma get_setb_other_node f n f' n' b S : n' <> n -> get f n (setb f' n' b S) = get f n S.
Proof. apply get_set_other_node. Qed.
Lemma getb_setb_same f n b S : getb f n (setb f n b S) = b.
Proof. unfold getb, setb. rewrite get_set_same. destruct b; reflexivity. Qed.

(* a continuation / a computation leaves the cells of the nodes in P alone *)
Definition keeps (P : nat -> Prop) (k : K) : Prop :=
  forall ie f S f' n, P n -> get f' n (k ie f S) = get f' n S.

Lemma update_conclusion_other id i c S f n : id <> n -> get f n (update_conclusion id i c S) = get f n S.
Proof.
  intros H. unfold update_conclusion. destruct c; [reflexivity|].
  destruct (memb i _); [reflexivity|]. rewrite !get_set_other_node; auto.
Qed.

Lemma yield_upd_other (P : nat -> Prop) id ie c k S f n :
  keeps P k -> P n -> id <> n -> get f n (yield_upd id ie c k S) = get f n S.
Proof.
  intros Hk Hp Hn. unfold yield_upd. rewrite get_set_other_node by auto. rewrite Hk by assumption.
  apply update_conclusion_other; auto.
Qed.

Lemma sel_post_other (P : nat -> Prop) s id l r k ie S f n :
  keeps P k -> P n -> id <> n -> get f n (sel_post s id l r k ie S) = get f n S.
Proof.
  intros Hk Hp Hn. unfold sel_post. rewrite get_set_other_node by auto. rewrite Hk by assumption.
  destruct s.
  - destruct (getb REV id _); [rewrite update_conclusion_other by auto|];
      (destruct (getb LEV id S); [apply update_conclusion_other; auto|reflexivity]).
  - destruct (negb _); [apply update_conclusion_other; auto|].
    destruct (negb _); [apply update_conclusion_other; auto|reflexivity].
  - destruct (getb REV id _); [rewrite update_conclusion_other by auto|];
      (destruct (getb LEV id S); [apply update_conclusion_other; auto|reflexivity]).
Qed.

Section Frame.
  Variable W : list elem.

  (* ev only writes cells of its own nodes (and whatever the continuation writes) *)
  Lemma ev_frame t : nextfree t = true -> forall (P : nat -> Prop) b k S,
      (forall n, In n (ids t) -> ~ P n) -> keeps P k ->
      forall f n, P n -> get f n (ev W t b k S) = get f n S.
  Proof.
    induction t as [id cs c | id s l IHl r IHr]; intros Hnf P b k S Hd Hk f n Hp.
    - simpl. assert (Hid : id <> n) by (intro; subst; apply (Hd n); simpl; auto).
      assert (Hone : forall S ie, get f n (k ie (negb (holds (snd ie) cs)) (setb FLAG id (negb (holds (snd ie) cs)) S)) = get f n S).
      { intros S0 ie. rewrite Hk by assumption. apply get_setb_other_node; auto. }
      destruct b as [ie|]; [apply Hone|].
      generalize (enum W) S. intros L. induction L as [|ie L IHL]; intros S0; simpl; [reflexivity|].
      rewrite IHL. apply Hone.
    - assert (Hdl : forall m, In m (ids l) -> ~ P m) by (intros m Hm; apply Hd; simpl; right; apply in_or_app; auto).
      assert (Hdr : forall m, In m (ids r) -> ~ P m) by (intros m Hm; apply Hd; simpl; right; apply in_or_app; auto).
      assert (Hidn : forall m, P m -> id <> m) by (intros m Hm E; subst; apply (Hd m); simpl; auto).
      destruct s; simpl in Hnf; try discriminate; apply andb_prop in Hnf; destruct Hnf as [Hnl Hnr].
      + (* ExceptIf *)
        cbn [ev]. apply (IHl Hnl P); auto. intros ie fl S1 f0 n0 Hp0.
        destruct fl.
        * rewrite Hk by assumption. apply get_setb_other_node; auto.
        * match goal with |- get _ _ (if getb RY id ?S3 then _ else _) = _ =>
            assert (H3 : get f0 n0 S3 = get f0 n0 S1) end.
          { rewrite (IHr Hnr P); auto.
            - rewrite !get_setb_other_node by auto. reflexivity.
            - intros ie' f' S' f1 n1 Hp1. destruct f'; [reflexivity|].
              rewrite (yield_upd_other P) by auto. apply get_setb_other_node; auto. }
          destruct (getb RY id _).
          -- rewrite get_set_other_node by auto. exact H3.
          -- rewrite (yield_upd_other P) by auto. rewrite get_set_other_node by auto. exact H3.
      + (* Alternative *)
        cbn [ev]. apply (IHl Hnl P); auto. intros ie fl S1 f0 n0 Hp0.
        destruct fl.
        * rewrite get_setb_other_node by auto. rewrite (IHr Hnr P); auto.
          -- rewrite !get_setb_other_node by auto. reflexivity.
          -- intros ie' fr S' f1 n1 Hp1. rewrite (sel_post_other P) by auto.
             rewrite !get_setb_other_node by auto. reflexivity.
        * rewrite (sel_post_other P) by auto. rewrite !get_setb_other_node by auto. reflexivity.
  Qed.
End Frame.

(* ---- more store algebra ---- *)
Ltac fne := unfold FLAG, SEENT, SEENF, DYN, LEV, REV, RY; lia.
Lemma get_set_diff f n f' n' v S : (f' <> f \/ n' <> n) -> get f n (set f' n' v S) = get f n S.
Proof.
  intros H. rewrite get_set. destruct H as [H|H]; apply Nat.eqb_neq in H; rewrite H; [reflexivity|rewrite andb_false_r; reflexivity].
Qed.
Lemma get_setb_diff f n f' n' b S : (f' <> f \/ n' <> n) -> get f n (setb f' n' b S) = get f n S.
Proof. apply get_set_diff. Qed.
Lemma getb_set_diff f n f' n' v S : (f' <> f \/ n' <> n) -> getb f n (set f' n' v S) = getb f n S.
Proof. intros H. unfold getb. rewrite get_set_diff by assumption. reflexivity. Qed.

Lemma memb_false i l : ~ In i l -> memb i l = false.
Proof.
  induction l as [|x l IH]; simpl; intros H; [reflexivity|].
  apply Bool.orb_false_iff. split.
  - apply Nat.eqb_neq. intro E. apply H. left. symmetry. exact E.
  - apply IH. intro. apply H. right. assumption.
Qed.

Lemma uc_out id i c S : out (update_conclusion id i c S) = out S.
Proof. unfold update_conclusion. destruct c; [reflexivity|]. destruct (memb i _); reflexivity. Qed.
Lemma uc_field id i c S f n : f <> DYN -> f <> SEENT -> f <> SEENF -> get f n (update_conclusion id i c S) = get f n S.
Proof.
  intros H1 H2 H3. unfold update_conclusion. destruct c; [reflexivity|]. destruct (memb i _); [reflexivity|].
  destruct (negb _); rewrite !get_set_diff by (left; congruence); reflexivity.
Qed.
Lemma uc_seen id i c S n :
  incl (get SEENT n (update_conclusion id i c S)) (i :: get SEENT n S) /\
  incl (get SEENF n (update_conclusion id i c S)) (i :: get SEENF n S).
Proof.
  unfold update_conclusion. destruct c; [split; apply incl_tl, incl_refl|].
  destruct (memb i _); [split; apply incl_tl, incl_refl|].
  destruct (Nat.eq_dec id n) as [->|Hn].
  - destruct (negb _).
    + rewrite get_set_same. rewrite !get_set_diff by (left; fne). split; [apply incl_refl|apply incl_tl, incl_refl].
    + rewrite get_set_same. rewrite !get_set_diff by (left; fne). split; [apply incl_tl, incl_refl|apply incl_refl].
  - rewrite !get_set_diff by (right; assumption). split; apply incl_tl, incl_refl.
Qed.
(* the selection succeeds: output true, key not seen, nothing selected yet *)
Lemma uc_dyn id i c S :
  getb FLAG id S = false -> ~ In i (get SEENT id S) -> get DYN id S = [] ->
  get DYN id (update_conclusion id i c S) = union [] c.
Proof.
  intros Hf Hs Hd. unfold update_conclusion. destruct c as [|x c]; [exact Hd|].
  rewrite Hf. simpl negb. cbv iota. rewrite (memb_false _ _ Hs).
  rewrite get_set_diff by (left; fne). rewrite get_set_same. rewrite Hd. reflexivity.
Qed.

Lemma incl_step (i : nat) A B C : incl A (i :: B) -> incl B (i :: C) -> incl A (i :: C).
Proof.
  intros H1 H2 x Hx. apply H1 in Hx. destruct Hx as [->|Hx]; [left; reflexivity|]. apply H2. exact Hx.
Qed.

(* ---- the invariant of one element's pass ---- *)
Definition fresh (t : tree) (i : nat) (S : store) : Prop :=
  forall n, In n (ids t) -> ~ In i (get SEENT n S) /\ ~ In i (get SEENF n S).
Definition dynclear (t : tree) (S : store) : Prop := forall n, In n (ids t) -> get DYN n S = [].
Definition inT (t : tree) : nat -> Prop := fun n => In n (ids t).

(* the store handed to the continuation *)
Definition Rel (t : tree) (i : nat) (e : elem) (S S1 : store) : Prop :=
  out S1 = out S /\
  (forall f n, ~ In n (ids t) -> get f n S1 = get f n S) /\
  (forall n, incl (get SEENT n S1) (i :: get SEENT n S) /\ incl (get SEENF n S1) (i :: get SEENF n S)) /\
  getb FLAG (root_id t) S1 = fst (pe t e) /\
  concl_now t S1 = snd (pe t e).
(* the final store, relative to the store the continuation returned *)
Definition Fin (t : tree) (S' Sf : store) : Prop :=
  out Sf = out S' /\
  (forall f n, ~ In n (ids t) -> get f n Sf = get f n S') /\
  (forall n, get SEENT n Sf = get SEENT n S' /\ get SEENF n Sf = get SEENF n S') /\
  (forall n, In n (ids t) -> get DYN n Sf = []).

Lemma root_in t : In (root_id t) (ids t).
Proof. destruct t; simpl; auto. Qed.
Lemma concl_now_same t S S' : (forall f n, In n (ids t) -> get f n S = get f n S') -> concl_now t S = concl_now t S'.
Proof. intros H. destruct t; simpl; [reflexivity|]. apply H. simpl. auto. Qed.

Lemma nodup_app_l {A} (a b : list A) : NoDup (a ++ b) -> NoDup a.
Proof.
  induction a as [|x a IH]; simpl; intros H; [constructor|].
  apply NoDup_cons_iff in H. destruct H as [Hx H]. constructor; [|apply IH; exact H].
  intro. apply Hx, in_or_app; auto.
Qed.
Lemma nodup_app_r {A} (a b : list A) : NoDup (a ++ b) -> NoDup b.
Proof.
  induction a as [|x a IH]; simpl; intros H; [exact H|].
  apply NoDup_cons_iff in H. apply IH, H.
Qed.
Lemma nodup_app_disj {A} (a b : list A) : NoDup (a ++ b) -> forall x, In x a -> ~ In x b.
Proof.
  induction a as [|y a IH]; simpl; intros H x Hx; [destruct Hx|].
  apply NoDup_cons_iff in H. destruct H as [Hy H]. destruct Hx as [->|Hx].
  - intro. apply Hy, in_or_app; auto.
  - apply IH; auto.
Qed.

Section Bound.
  Variable W : list elem.

  Lemma ev_bound t : nextfree t = true -> NoDup (ids t) -> forall i e k S,
      fresh t i S -> dynclear t S -> keeps (inT t) k ->
      exists S1, Rel t i e S S1 /\ Fin t (k (i, e) (fst (pe t e)) S1) (ev W t (Some (i, e)) k S).
  Proof.
    induction t as [id cs c | id s l IHl r IHr]; intros Hnf Hnd i e k S Hfr Hdc Hk.
    - (* leaf *)
      exists (setb FLAG id (negb (holds e cs)) S). split.
      + repeat split.
        * intros f n Hn. apply get_setb_diff. right. intro; subst; apply Hn; simpl; auto.
        * unfold setb; rewrite get_set_diff by (left; fne). apply incl_tl, incl_refl.
        * unfold setb; rewrite get_set_diff by (left; fne). apply incl_tl, incl_refl.
        * simpl. apply getb_setb_same.
      + simpl. repeat split; auto. intros n [<-|[]]. 
        rewrite (Hk (i, e) _ _ DYN id) by (red; simpl; auto).
        rewrite get_setb_diff by (left; fne). apply Hdc. simpl; auto.
    - (* selector *)
      simpl in Hnd. apply NoDup_cons_iff in Hnd. destruct Hnd as [Hid Hnd].
      assert (Hidl : ~ In id (ids l)) by (intro; apply Hid, in_or_app; auto).
      assert (Hidr : ~ In id (ids r)) by (intro; apply Hid, in_or_app; auto).
      assert (Hndl : NoDup (ids l)) by (eapply nodup_app_l; eauto).
      assert (Hndr : NoDup (ids r)) by (eapply nodup_app_r; eauto).
      assert (Hlr : forall n, In n (ids l) -> ~ In n (ids r)).
      { apply nodup_app_disj. exact Hnd. }
      assert (Hfrl : fresh l i S) by (intros n Hn; apply Hfr; simpl; right; apply in_or_app; auto).
      assert (Hdcl : dynclear l S) by (intros n Hn; apply Hdc; simpl; right; apply in_or_app; auto).
      assert (Hfid : ~ In i (get SEENT id S) /\ ~ In i (get SEENF id S)) by (apply Hfr; simpl; auto).
      assert (Hdid : get DYN id S = []) by (apply Hdc; simpl; auto).
      assert (Hkid : forall ie f S' f', get f' id (k ie f S') = get f' id S') by (intros; apply Hk; red; simpl; auto).
      assert (Hkl : forall ie f S' f' n, In n (ids l) -> get f' n (k ie f S') = get f' n S')
        by (intros; apply Hk; red; simpl; right; apply in_or_app; auto).
      assert (Hkr : forall ie f S' f' n, In n (ids r) -> get f' n (k ie f S') = get f' n S')
        by (intros; apply Hk; red; simpl; right; apply in_or_app; auto).
      assert (HklK : keeps (inT l) k) by (intros ? ? ? ? ? Hx; apply Hkl; exact Hx).
      assert (HkrK : keeps (inT r) k) by (intros ? ? ? ? ? Hx; apply Hkr; exact Hx).
      destruct s; simpl in Hnf; try discriminate; apply andb_prop in Hnf; destruct Hnf as [Hnl Hnr].
      + (* ExceptIf *)
        cbn [ev].
        match goal with |- context [ev W l (Some (i, e)) ?K S] => set (KK := K) end.
        assert (HKK : keeps (inT l) KK).
        { intros ie fl S1 f0 n0 Hp0. red in Hp0. unfold KK.
          assert (id <> n0) by (intro; subst; contradiction).
          destruct fl.
          - rewrite Hkl by assumption. apply get_setb_diff; auto.
          - match goal with |- get _ _ (if getb RY id ?S3 then _ else _) = _ =>
              assert (H3 : get f0 n0 S3 = get f0 n0 S1) end.
            { rewrite (ev_frame W r Hnr (inT l)); auto.
              - rewrite !get_setb_diff by auto. reflexivity.
              - intros n Hn Hn'. exact (Hlr n Hn' Hn).
              - intros ie' f' S' f1 n1 Hp1. destruct f'; [reflexivity|]. red in Hp1.
                assert (id <> n1) by (intro; subst; contradiction).
                rewrite (yield_upd_other (inT l) id _ _ k _ f1 n1 HklK Hp1 H0).
                apply get_setb_diff; auto. }
            destruct (getb RY id _).
            + rewrite get_set_diff by auto. exact H3.
            + rewrite (yield_upd_other (inT l) id _ _ k _ f0 n0 HklK Hp0 H).
              rewrite get_set_diff by auto. exact H3. }
        destruct (IHl Hnl Hndl i e KK S Hfrl Hdcl HKK) as [S1l [[Ho1 [Hout1 [Hseen1 [Hfl1 Hcl1]]]] Hfinl]].
        destruct (pe l e) as [fl cl] eqn:Epl. simpl in Hfl1, Hcl1, Hfinl.
        destruct fl.
        * (* left false: passed through *)
          assert (Epe : pe (Node id SExc l r) e = (true, [])) by (simpl; rewrite Epl; reflexivity).
          exists (setb FLAG id true S1l). unfold Rel, Fin. rewrite Epe. simpl fst. simpl snd. split.
          -- repeat split.
             ++ exact Ho1.
             ++ intros f n Hn. rewrite get_setb_diff by (right; intro; subst; apply Hn; simpl; auto).
                apply Hout1. intro; apply Hn; simpl; right; apply in_or_app; auto.
             ++ unfold setb; rewrite get_set_diff by (left; fne). apply Hseen1.
             ++ unfold setb; rewrite get_set_diff by (left; fne). apply Hseen1.
             ++ simpl root_id. apply getb_setb_same.
             ++ change (get DYN id (setb FLAG id true S1l) = []). rewrite get_setb_diff by (left; fne). rewrite Hout1 by assumption. exact Hdid.
          -- unfold KK in Hfinl. simpl in Hfinl. destruct Hfinl as [Hf1 [Hf2 [Hf3 Hf4]]].
             repeat split.
             ++ exact Hf1.
             ++ intros f n Hn. apply Hf2. intro; apply Hn; simpl; right; apply in_or_app; auto.
             ++ apply Hf3.
             ++ apply Hf3.
             ++ intros n [<-|Hn].
                ** rewrite Hf2 by assumption. rewrite Hkid. rewrite get_setb_diff by (left; fne).
                   rewrite Hout1 by assumption. exact Hdid.
                ** apply in_app_or in Hn. destruct Hn as [Hn|Hn]; [apply Hf4; exact Hn|].
                   assert (~ In n (ids l)) by (intro Hx; exact (Hlr n Hx Hn)).
                   rewrite Hf2 by assumption. rewrite Hkr by assumption.
                   rewrite get_setb_diff by (right; intro; subst; contradiction).
                   rewrite Hout1 by assumption. apply Hdc. simpl; right; apply in_or_app; auto.
        * (* left true: the exception branch decides *)
          unfold KK in Hfinl at 1. cbv beta iota zeta in Hfinl. unfold binding in *.
          match type of Hfinl with context [ev W r (Some (i, e)) ?K1 ?SS] => set (K' := K1) in *; set (S2 := SS) in * end.
          assert (HS2 : forall f n, n <> id -> get f n S2 = get f n S1l).
          { intros f n Hn. unfold S2. rewrite !get_setb_diff by auto. reflexivity. }
          assert (HS2l : forall f n, ~ In n (ids l) -> n <> id -> get f n S2 = get f n S).
          { intros f n Hn1 Hn2. rewrite HS2 by assumption. apply Hout1. assumption. }
          assert (HS2id : forall f, f <> FLAG -> f <> RY -> get f id S2 = get f id S).
          { intros f H1 H2. unfold S2. rewrite !get_setb_diff by (left; congruence). apply Hout1. assumption. }
          assert (HS2flag : getb FLAG id S2 = false).
          { unfold S2. unfold getb. rewrite get_setb_diff by (left; fne). apply (getb_setb_same FLAG id false). }
          assert (Hfrr : fresh r i S2).
          { intros n Hn. assert (n <> id) by (intro; subst; contradiction).
            assert (~ In n (ids l)) by (intro Hx; exact (Hlr n Hx Hn)).
            rewrite !HS2l by assumption. apply Hfr. simpl; right; apply in_or_app; auto. }
          assert (Hdcr : dynclear r S2).
          { intros n Hn. assert (n <> id) by (intro; subst; contradiction).
            assert (~ In n (ids l)) by (intro Hx; exact (Hlr n Hx Hn)).
            rewrite HS2l by assumption. apply Hdc. simpl; right; apply in_or_app; auto. }
          assert (HK' : keeps (inT r) K').
          { intros ie' f' S' f1 n1 Hp1. red in Hp1. unfold K'. destruct f'; [reflexivity|].
            assert (Hne : id <> n1) by (intro; subst; contradiction).
            rewrite (yield_upd_other (inT r) id _ _ k _ f1 n1 HkrK Hp1 Hne).
            apply get_setb_diff; auto. }
          destruct (IHr Hnr Hndr i e K' S2 Hfrr Hdcr HK') as [S1r [[Ho2 [Hout2 [Hseen2 [Hfl2 Hcl2]]]] Hfinr]].
          destruct (pe r e) as [fr cr] eqn:Epr. simpl in Hfl2, Hcl2, Hfinr.
          destruct Hfinl as [Hf1 [Hf2 [Hf3 Hf4]]].
          assert (Hrootl : forall f n, In n (ids l) -> get f n S1r = get f n S1l).
          { intros f n Hn. assert (n <> id) by (intro; subst; contradiction).
            rewrite Hout2 by (exact (Hlr n Hn)). apply HS2. assumption. }
          assert (Hidr1 : forall f, get f id S1r = get f id S2) by (intros f; apply Hout2; assumption).
          destruct fr.
          -- (* exception does not hold: the rule's own conclusion *)
             assert (Epe : pe (Node id SExc l r) e = (false, union [] cl)) by (simpl; rewrite Epl, Epr; reflexivity).
             unfold K' in Hfinr at 1. cbv iota in Hfinr.
             destruct Hfinr as [Hg1 [Hg2 [Hg3 Hg4]]].
             assert (Hry : getb RY id (ev W r (Some (i, e)) K' S2) = false).
             { unfold getb. rewrite Hg2 by assumption. rewrite Hidr1. unfold S2, setb. rewrite get_set_same. reflexivity. }
             rewrite Hry in Hf1, Hf2, Hf3.
             set (S4 := set RY id (get RY id (setb FLAG id false S1l)) (ev W r (Some (i, e)) K' S2)) in *.
             assert (HS4l : forall f n, In n (ids l) -> get f n S4 = get f n S1l).
             { intros f n Hn. assert (n <> id) by (intro; subst; contradiction).
               unfold S4. rewrite get_set_diff by auto. rewrite Hg2 by (exact (Hlr n Hn)). apply Hrootl. exact Hn. }
             assert (Hcl4 : concl_now l S4 = cl).
             { rewrite <- Hcl1. apply concl_now_same. exact HS4l. }
             rewrite Hcl4 in *.
             assert (HS4id : forall f, f <> FLAG -> f <> RY -> get f id S4 = get f id S).
             { intros f H1 H2. unfold S4. rewrite get_set_diff by (left; congruence). rewrite Hg2 by assumption.
               rewrite Hidr1. apply HS2id; assumption. }
             assert (HS4flag : getb FLAG id S4 = false).
             { unfold getb, S4. rewrite get_set_diff by (left; fne). rewrite Hg2 by assumption. rewrite Hidr1. exact HS2flag. }
             set (U := update_conclusion id i cl S4) in *.
             assert (HUdyn : get DYN id U = union [] cl).
             { apply uc_dyn; [exact HS4flag| |].
               - rewrite HS4id by fne. apply Hfid.
               - rewrite HS4id by fne. exact Hdid. }
             assert (HUflag : getb FLAG id U = false).
             { unfold getb, U. rewrite uc_field by fne. exact HS4flag. }
             unfold yield_upd in Hf1, Hf2, Hf3, Hf4. cbn [fst] in Hf1, Hf2, Hf3, Hf4. fold U in Hf1, Hf2, Hf3, Hf4. rewrite HUflag in Hf1, Hf2, Hf3.
             exists U. unfold Rel, Fin. rewrite Epe. simpl fst. simpl snd. split.
             ++ repeat split.
                ** unfold U. rewrite uc_out. unfold S4. rewrite out_set. rewrite Hg1, Ho2. unfold S2, setb.
                   rewrite !out_set. exact Ho1.
                ** intros f n Hn.
                   assert (Hn1 : n <> id) by (intro; subst; apply Hn; simpl; auto).
                   assert (Hn2 : ~ In n (ids l)) by (intro; apply Hn; simpl; right; apply in_or_app; auto).
                   assert (Hn3 : ~ In n (ids r)) by (intro; apply Hn; simpl; right; apply in_or_app; auto).
                   unfold U. rewrite update_conclusion_other by auto. unfold S4. rewrite get_set_diff by auto.
                   rewrite Hg2 by assumption. rewrite Hout2 by assumption. apply HS2l; assumption.
                ** eapply incl_step; [apply uc_seen|]. unfold S4. rewrite get_set_diff by (left; fne).
                   rewrite (proj1 (Hg3 n)). eapply incl_step; [apply Hseen2|]. unfold S2, setb.
                   rewrite !get_set_diff by (left; fne). apply Hseen1.
                ** eapply incl_step; [apply uc_seen|]. unfold S4. rewrite get_set_diff by (left; fne).
                   rewrite (proj2 (Hg3 n)). eapply incl_step; [apply Hseen2|]. unfold S2, setb.
                   rewrite !get_set_diff by (left; fne). apply Hseen1.
                ** exact HUflag.
                ** exact HUdyn.
             ++ repeat split.
                ** rewrite Hf1. apply out_set.
                ** intros f n Hn.
                   assert (Hn1 : n <> id) by (intro; subst; apply Hn; simpl; auto).
                   assert (Hn2 : ~ In n (ids l)) by (intro; apply Hn; simpl; right; apply in_or_app; auto).
                   rewrite Hf2 by assumption. apply get_set_diff. auto.
                ** rewrite (proj1 (Hf3 n)). apply get_set_diff. left; fne.
                ** rewrite (proj2 (Hf3 n)). apply get_set_diff. left; fne.
                ** intros n [<-|Hn].
                   --- rewrite Hf2 by assumption. apply get_set_same.
                   --- apply in_app_or in Hn. destruct Hn as [Hn|Hn]; [apply Hf4; exact Hn|].
                       assert (~ In n (ids l)) by (intro Hx; exact (Hlr n Hx Hn)).
                       assert (n <> id) by (intro; subst; contradiction).
                       rewrite Hf2 by assumption. rewrite get_set_diff by auto. rewrite Hkr by assumption.
                       unfold U. rewrite update_conclusion_other by auto. unfold S4. rewrite get_set_diff by auto.
                       apply Hg4. exact Hn.
          -- (* the exception holds: its conclusion overrides *)
             assert (Epe : pe (Node id SExc l r) e = (false, union [] cr)) by (simpl; rewrite Epl, Epr; reflexivity).
             unfold K' in Hfinr at 1. cbv iota in Hfinr.
             set (S1r' := setb RY id true S1r) in *.
             assert (HS1r' : forall f n, (RY <> f \/ id <> n) -> get f n S1r' = get f n S1r).
             { intros f n Hn. unfold S1r'. apply get_setb_diff. exact Hn. }
             rewrite Hcl2 in Hfinr.
             assert (HUflag0 : getb FLAG id S1r' = false).
             { unfold getb. rewrite HS1r' by (left; fne). rewrite Hidr1. exact HS2flag. }
             set (U := update_conclusion id i cr S1r') in *.
             assert (HUdyn : get DYN id U = union [] cr).
             { apply uc_dyn; [exact HUflag0| |].
               - rewrite HS1r' by (left; fne). rewrite Hidr1. rewrite HS2id by fne. apply Hfid.
               - rewrite HS1r' by (left; fne). rewrite Hidr1. rewrite HS2id by fne. exact Hdid. }
             assert (HUflag : getb FLAG id U = false).
             { unfold getb, U. rewrite uc_field by fne. exact HUflag0. }
             unfold yield_upd in Hfinr. cbn [fst] in Hfinr. fold U in Hfinr. rewrite HUflag in Hfinr.
             destruct Hfinr as [Hg1 [Hg2 [Hg3 Hg4]]].
             assert (Hry : getb RY id (ev W r (Some (i, e)) K' S2) = true).
             { unfold getb. rewrite Hg2 by assumption. rewrite get_set_diff by (left; fne). rewrite Hkid.
               unfold U. rewrite uc_field by fne. unfold S1r', setb. rewrite get_set_same. reflexivity. }
             rewrite Hry in Hf1, Hf2, Hf3.
             exists U. unfold Rel, Fin. rewrite Epe. simpl fst. simpl snd. split.
             ++ repeat split.
                ** unfold U. rewrite uc_out. unfold S1r', setb. rewrite out_set. rewrite Ho2. unfold S2, setb.
                   rewrite !out_set. exact Ho1.
                ** intros f n Hn.
                   assert (Hn1 : n <> id) by (intro; subst; apply Hn; simpl; auto).
                   assert (Hn2 : ~ In n (ids l)) by (intro; apply Hn; simpl; right; apply in_or_app; auto).
                   assert (Hn3 : ~ In n (ids r)) by (intro; apply Hn; simpl; right; apply in_or_app; auto).
                   unfold U. rewrite update_conclusion_other by auto. rewrite HS1r' by auto.
                   rewrite Hout2 by assumption. apply HS2l; assumption.
                ** eapply incl_step; [apply uc_seen|]. rewrite HS1r' by (left; fne).
                   eapply incl_step; [apply Hseen2|]. unfold S2, setb.
                   rewrite !get_set_diff by (left; fne). apply Hseen1.
                ** eapply incl_step; [apply uc_seen|]. rewrite HS1r' by (left; fne).
                   eapply incl_step; [apply Hseen2|]. unfold S2, setb.
                   rewrite !get_set_diff by (left; fne). apply Hseen1.
                ** exact HUflag.
                ** exact HUdyn.
             ++ repeat split.
                ** rewrite Hf1. rewrite out_set. rewrite Hg1. apply out_set.
                ** intros f n Hn.
                   assert (Hn1 : n <> id) by (intro; subst; apply Hn; simpl; auto).
                   assert (Hn2 : ~ In n (ids l)) by (intro; apply Hn; simpl; right; apply in_or_app; auto).
                   assert (Hn3 : ~ In n (ids r)) by (intro; apply Hn; simpl; right; apply in_or_app; auto).
                   rewrite Hf2 by assumption. rewrite get_set_diff by auto. rewrite Hg2 by assumption.
                   apply get_set_diff. auto.
                ** rewrite (proj1 (Hf3 n)). rewrite get_set_diff by (left; fne). rewrite (proj1 (Hg3 n)).
                   apply get_set_diff. left; fne.
                ** rewrite (proj2 (Hf3 n)). rewrite get_set_diff by (left; fne). rewrite (proj2 (Hg3 n)).
                   apply get_set_diff. left; fne.
                ** intros n [<-|Hn].
                   --- rewrite Hf2 by assumption. rewrite get_set_diff by (left; fne). rewrite Hg2 by assumption.
                       apply get_set_same.
                   --- apply in_app_or in Hn. destruct Hn as [Hn|Hn]; [apply Hf4; exact Hn|].
                       assert (~ In n (ids l)) by (intro Hx; exact (Hlr n Hx Hn)).
                       assert (n <> id) by (intro; subst; contradiction).
                       rewrite Hf2 by assumption. rewrite get_set_diff by auto. apply Hg4. exact Hn.
      + (* Alternative *)
        cbn [ev].
        match goal with |- context [ev W l (Some (i, e)) ?K S] => set (KK := K) end.
        assert (HKK : keeps (inT l) KK).
        { intros ie fl S1 f0 n0 Hp0. red in Hp0. unfold KK.
          assert (Hne : id <> n0) by (intro; subst; contradiction).
          destruct fl.
          - rewrite get_setb_diff by auto. rewrite (ev_frame W r Hnr (inT l)); auto.
            + rewrite !get_setb_diff by auto. reflexivity.
            + intros n Hn Hn'. exact (Hlr n Hn' Hn).
            + intros ie' fr S' f1 n1 Hp1. red in Hp1.
              assert (Hne1 : id <> n1) by (intro; subst; contradiction).
              rewrite (sel_post_other (inT l) SAlt id l r k _ _ f1 n1 HklK Hp1 Hne1).
              rewrite !get_setb_diff by auto. reflexivity.
          - rewrite (sel_post_other (inT l) SAlt id l r k _ _ f0 n0 HklK Hp0 Hne).
            rewrite !get_setb_diff by auto. reflexivity. }
        destruct (IHl Hnl Hndl i e KK S Hfrl Hdcl HKK) as [S1l [[Ho1 [Hout1 [Hseen1 [Hfl1 Hcl1]]]] Hfinl]].
        destruct (pe l e) as [fl cl] eqn:Epl. simpl in Hfl1, Hcl1, Hfinl.
        assert (Hrl : root_id l <> id) by (intro E; apply Hidl; rewrite <- E; apply root_in).
        assert (Hrr : root_id r <> id) by (intro E; apply Hidr; rewrite <- E; apply root_in).
        unfold KK in Hfinl at 1. cbv beta iota zeta in Hfinl. unfold binding in *.
        destruct Hfinl as [Hf1 [Hf2 [Hf3 Hf4]]].
        destruct fl.
        * (* left false: try the alternative *)
          match type of Hf1 with context [ev W r (Some (i, e)) ?K1 ?SS] => set (K' := K1) in *; set (S2 := SS) in * end.
          assert (HS2 : forall f n, n <> id -> get f n S2 = get f n S1l).
          { intros f n Hn. unfold S2. rewrite !get_setb_diff by auto. reflexivity. }
          assert (HS2l : forall f n, ~ In n (ids l) -> n <> id -> get f n S2 = get f n S).
          { intros f n Hn1 Hn2. rewrite HS2 by assumption. apply Hout1. assumption. }
          assert (HS2id : forall f, f <> LEV -> get f id S2 = get f id S).
          { intros f H1. unfold S2. rewrite !get_setb_diff by (left; congruence). apply Hout1. assumption. }
          assert (Hfrr : fresh r i S2).
          { intros n Hn. assert (n <> id) by (intro; subst; contradiction).
            assert (~ In n (ids l)) by (intro Hx; exact (Hlr n Hx Hn)).
            rewrite !HS2l by assumption. apply Hfr. simpl; right; apply in_or_app; auto. }
          assert (Hdcr : dynclear r S2).
          { intros n Hn. assert (n <> id) by (intro; subst; contradiction).
            assert (~ In n (ids l)) by (intro Hx; exact (Hlr n Hx Hn)).
            rewrite HS2l by assumption. apply Hdc. simpl; right; apply in_or_app; auto. }
          assert (HK' : keeps (inT r) K').
          { intros ie' f' S' f1 n1 Hp1. red in Hp1. unfold K'.
            assert (Hne : id <> n1) by (intro; subst; contradiction).
            rewrite (sel_post_other (inT r) SAlt id l r k _ _ f1 n1 HkrK Hp1 Hne).
            rewrite !get_setb_diff by auto. reflexivity. }
          destruct (IHr Hnr Hndr i e K' S2 Hfrr Hdcr HK') as [S1r [[Ho2 [Hout2 [Hseen2 [Hfl2 Hcl2]]]] Hfinr]].
          destruct (pe r e) as [fr cr] eqn:Epr. simpl in Hfl2, Hcl2, Hfinr.
          assert (Hidr1 : forall f, get f id S1r = get f id S2) by (intros f; apply Hout2; assumption).
          unfold K' in Hfinr at 1. cbv beta in Hfinr.
          set (Sc := setb REV id true (setb FLAG id fr S1r)) in *.
          assert (HSc : forall f n, n <> id -> get f n Sc = get f n S1r).
          { intros f n Hn. unfold Sc. rewrite !get_setb_diff by auto. reflexivity. }
          assert (HScid : forall f, f <> REV -> f <> FLAG -> get f id Sc = get f id S2).
          { intros f H1 H2. unfold Sc. rewrite !get_setb_diff by (left; congruence). apply Hidr1. }
          assert (HScflag : getb FLAG id Sc = fr).
          { unfold getb, Sc. rewrite get_setb_diff by (left; fne). apply (getb_setb_same FLAG id fr). }
          assert (Hlflag : getb FLAG (root_id l) Sc = true).
          { unfold getb. rewrite HSc by assumption. rewrite Hout2 by (apply Hlr, root_in).
            rewrite HS2 by assumption. exact Hfl1. }
          assert (Hrflag : getb FLAG (root_id r) Sc = fr).
          { unfold getb. rewrite HSc by assumption. exact Hfl2. }
          assert (Hclr : concl_now r Sc = cr).
          { rewrite <- Hcl2. apply concl_now_same. intros f n Hn. apply HSc. intro; subst; contradiction. }
          unfold sel_post in Hfinr. cbn [fst] in Hfinr. rewrite Hlflag, Hrflag in Hfinr. cbn [negb] in Hfinr.
          destruct fr.
          -- (* nothing fires *)
             assert (Epe : pe (Node id SAlt l r) e = (true, [])) by (simpl; rewrite Epl, Epr; reflexivity).
             cbn [negb] in Hfinr. cbv iota in Hfinr. rewrite HScflag in Hfinr.
             destruct Hfinr as [Hg1 [Hg2 [Hg3 Hg4]]].
             exists Sc. unfold Rel, Fin. rewrite Epe. simpl fst. simpl snd. split.
             ++ repeat split.
                ** unfold Sc, setb. rewrite !out_set. rewrite Ho2. unfold S2, setb. rewrite !out_set. exact Ho1.
                ** intros f n Hn.
                   assert (Hn1 : n <> id) by (intro; subst; apply Hn; simpl; auto).
                   assert (Hn2 : ~ In n (ids l)) by (intro; apply Hn; simpl; right; apply in_or_app; auto).
                   assert (Hn3 : ~ In n (ids r)) by (intro; apply Hn; simpl; right; apply in_or_app; auto).
                   rewrite HSc by assumption. rewrite Hout2 by assumption. apply HS2l; assumption.
                ** unfold Sc, setb. rewrite !get_set_diff by (left; fne).
                   eapply incl_step; [apply Hseen2|]. unfold S2, setb.
                   rewrite !get_set_diff by (left; fne). apply Hseen1.
                ** unfold Sc, setb. rewrite !get_set_diff by (left; fne).
                   eapply incl_step; [apply Hseen2|]. unfold S2, setb.
                   rewrite !get_set_diff by (left; fne). apply Hseen1.
                ** exact HScflag.
                ** change (get DYN id Sc = []). rewrite HScid by fne. rewrite HS2id by fne. exact Hdid.
             ++ repeat split.
                ** rewrite Hf1. unfold setb at 1. rewrite out_set. rewrite Hg1. apply out_set.
                ** intros f n Hn.
                   assert (Hn1 : n <> id) by (intro; subst; apply Hn; simpl; auto).
                   assert (Hn2 : ~ In n (ids l)) by (intro; apply Hn; simpl; right; apply in_or_app; auto).
                   assert (Hn3 : ~ In n (ids r)) by (intro; apply Hn; simpl; right; apply in_or_app; auto).
                   rewrite Hf2 by assumption. rewrite get_setb_diff by auto. rewrite Hg2 by assumption.
                   apply get_set_diff. auto.
                ** rewrite (proj1 (Hf3 n)). rewrite get_setb_diff by (left; fne). rewrite (proj1 (Hg3 n)).
                   apply get_set_diff. left; fne.
                ** rewrite (proj2 (Hf3 n)). rewrite get_setb_diff by (left; fne). rewrite (proj2 (Hg3 n)).
                   apply get_set_diff. left; fne.
                ** intros n [<-|Hn].
                   --- rewrite Hf2 by assumption. rewrite get_setb_diff by (left; fne). rewrite Hg2 by assumption.
                       apply get_set_same.
                   --- apply in_app_or in Hn. destruct Hn as [Hn|Hn]; [apply Hf4; exact Hn|].
                       assert (~ In n (ids l)) by (intro Hx; exact (Hlr n Hx Hn)).
                       assert (n <> id) by (intro; subst; contradiction).
                       rewrite Hf2 by assumption. rewrite get_setb_diff by auto. apply Hg4. exact Hn.
          -- (* the alternative fires *)
             assert (Epe : pe (Node id SAlt l r) e = (false, union [] cr)) by (simpl; rewrite Epl, Epr; reflexivity).
             cbn [negb] in Hfinr. cbv iota in Hfinr. rewrite Hclr in Hfinr.
             set (U := update_conclusion id i cr Sc) in *.
             assert (HUdyn : get DYN id U = union [] cr).
             { apply uc_dyn; [exact HScflag| |].
               - rewrite HScid by fne. rewrite HS2id by fne. apply Hfid.
               - rewrite HScid by fne. rewrite HS2id by fne. exact Hdid. }
             assert (HUflag : getb FLAG id U = false).
             { unfold getb, U. rewrite uc_field by fne. exact HScflag. }
             rewrite HUflag in Hfinr.
             destruct Hfinr as [Hg1 [Hg2 [Hg3 Hg4]]].
             exists U. unfold Rel, Fin. rewrite Epe. simpl fst. simpl snd. split.
             ++ repeat split.
                ** unfold U. rewrite uc_out. unfold Sc, setb. rewrite !out_set. rewrite Ho2. unfold S2, setb.
                   rewrite !out_set. exact Ho1.
                ** intros f n Hn.
                   assert (Hn1 : n <> id) by (intro; subst; apply Hn; simpl; auto).
                   assert (Hn2 : ~ In n (ids l)) by (intro; apply Hn; simpl; right; apply in_or_app; auto).
                   assert (Hn3 : ~ In n (ids r)) by (intro; apply Hn; simpl; right; apply in_or_app; auto).
                   unfold U. rewrite update_conclusion_other by auto.
                   rewrite HSc by assumption. rewrite Hout2 by assumption. apply HS2l; assumption.
                ** eapply incl_step; [apply uc_seen|]. unfold Sc, setb. rewrite !get_set_diff by (left; fne).
                   eapply incl_step; [apply Hseen2|]. unfold S2, setb.
                   rewrite !get_set_diff by (left; fne). apply Hseen1.
                ** eapply incl_step; [apply uc_seen|]. unfold Sc, setb. rewrite !get_set_diff by (left; fne).
                   eapply incl_step; [apply Hseen2|]. unfold S2, setb.
                   rewrite !get_set_diff by (left; fne). apply Hseen1.
                ** exact HUflag.
                ** exact HUdyn.
             ++ repeat split.
                ** rewrite Hf1. unfold setb at 1. rewrite out_set. rewrite Hg1. apply out_set.
                ** intros f n Hn.
                   assert (Hn1 : n <> id) by (intro; subst; apply Hn; simpl; auto).
                   assert (Hn2 : ~ In n (ids l)) by (intro; apply Hn; simpl; right; apply in_or_app; auto).
                   assert (Hn3 : ~ In n (ids r)) by (intro; apply Hn; simpl; right; apply in_or_app; auto).
                   rewrite Hf2 by assumption. rewrite get_setb_diff by auto. rewrite Hg2 by assumption.
                   apply get_set_diff. auto.
                ** rewrite (proj1 (Hf3 n)). rewrite get_setb_diff by (left; fne). rewrite (proj1 (Hg3 n)).
                   apply get_set_diff. left; fne.
                ** rewrite (proj2 (Hf3 n)). rewrite get_setb_diff by (left; fne). rewrite (proj2 (Hg3 n)).
                   apply get_set_diff. left; fne.
                ** intros n [<-|Hn].
                   --- rewrite Hf2 by assumption. rewrite get_setb_diff by (left; fne). rewrite Hg2 by assumption.
                       apply get_set_same.
                   --- apply in_app_or in Hn. destruct Hn as [Hn|Hn]; [apply Hf4; exact Hn|].
                       assert (~ In n (ids l)) by (intro Hx; exact (Hlr n Hx Hn)).
                       assert (n <> id) by (intro; subst; contradiction).
                       rewrite Hf2 by assumption. rewrite get_setb_diff by auto. apply Hg4. exact Hn.
        * (* left fires *)
          assert (Epe : pe (Node id SAlt l r) e = (false, union [] cl)) by (simpl; rewrite Epl; reflexivity).
          set (Sa := setb FLAG id false (setb LEV id true S1l)) in *.
          assert (HSa : forall f n, n <> id -> get f n Sa = get f n S1l).
          { intros f n Hn. unfold Sa. rewrite !get_setb_diff by auto. reflexivity. }
          assert (HSaid : forall f, f <> LEV -> f <> FLAG -> get f id Sa = get f id S).
          { intros f H1 H2. unfold Sa. rewrite !get_setb_diff by (left; congruence). apply Hout1. assumption. }
          assert (HSaflag : getb FLAG id Sa = false) by (apply (getb_setb_same FLAG id false)).
          assert (Hlflag : getb FLAG (root_id l) Sa = false).
          { unfold getb. rewrite HSa by assumption. exact Hfl1. }
          assert (Hcla : concl_now l Sa = cl).
          { rewrite <- Hcl1. apply concl_now_same. intros f n Hn. apply HSa. intro; subst; contradiction. }
          unfold sel_post in Hf1, Hf2, Hf3. cbn [fst] in Hf1, Hf2, Hf3.
          rewrite Hlflag in Hf1, Hf2, Hf3. cbn [negb] in Hf1, Hf2, Hf3. cbv iota in Hf1, Hf2, Hf3.
          rewrite Hcla in Hf1, Hf2, Hf3.
          set (U := update_conclusion id i cl Sa) in *.
          assert (HUdyn : get DYN id U = union [] cl).
          { apply uc_dyn; [exact HSaflag| |].
            - rewrite HSaid by fne. apply Hfid.
            - rewrite HSaid by fne. exact Hdid. }
          assert (HUflag : getb FLAG id U = false).
          { unfold getb, U. rewrite uc_field by fne. exact HSaflag. }
          rewrite HUflag in Hf1, Hf2, Hf3.
          exists U. unfold Rel, Fin. rewrite Epe. simpl fst. simpl snd. split.
          -- repeat split.
             ++ unfold U. rewrite uc_out. unfold Sa, setb. rewrite !out_set. exact Ho1.
             ++ intros f n Hn.
                assert (Hn1 : n <> id) by (intro; subst; apply Hn; simpl; auto).
                assert (Hn2 : ~ In n (ids l)) by (intro; apply Hn; simpl; right; apply in_or_app; auto).
                unfold U. rewrite update_conclusion_other by auto. rewrite HSa by assumption. apply Hout1. assumption.
             ++ eapply incl_step; [apply uc_seen|]. unfold Sa, setb. rewrite !get_set_diff by (left; fne). apply Hseen1.
             ++ eapply incl_step; [apply uc_seen|]. unfold Sa, setb. rewrite !get_set_diff by (left; fne). apply Hseen1.
             ++ exact HUflag.
             ++ exact HUdyn.
          -- repeat split.
             ++ rewrite Hf1. apply out_set.
             ++ intros f n Hn.
                assert (Hn1 : n <> id) by (intro; subst; apply Hn; simpl; auto).
                assert (Hn2 : ~ In n (ids l)) by (intro; apply Hn; simpl; right; apply in_or_app; auto).
                rewrite Hf2 by assumption. apply get_set_diff. auto.
             ++ rewrite (proj1 (Hf3 n)). apply get_set_diff. left; fne.
             ++ rewrite (proj2 (Hf3 n)). apply get_set_diff. left; fne.
             ++ intros n [<-|Hn].
                ** rewrite Hf2 by assumption. apply get_set_same.
                ** apply in_app_or in Hn. destruct Hn as [Hn|Hn]; [apply Hf4; exact Hn|].
                   assert (~ In n (ids l)) by (intro Hx; exact (Hlr n Hx Hn)).
                   assert (n <> id) by (intro; subst; contradiction).
                   rewrite Hf2 by assumption. rewrite get_set_diff by auto. rewrite Hkr by assumption.
                   unfold U. rewrite update_conclusion_other by auto. rewrite HSa by assumption.
                   rewrite Hout1 by assumption. apply Hdc. simpl; right; apply in_or_app; auto.
  Qed.
End Bound.

Section Run.
  Variable W : list elem.

  (* without Next the only enumeration is the one of the leftmost leaf *)
  Lemma ev_unbound t : nextfree t = true -> forall k S,
      ev W t None k S = fold_left (fun S ie => ev W t (Some ie) k S) (enum W) S.
  Proof.
    induction t as [id cs c | id s l IHl r IHr]; intros Hnf k S.
    - reflexivity.
    - destruct s; simpl in Hnf; try discriminate; apply andb_prop in Hnf; destruct Hnf as [Hnl Hnr].
      + cbn [ev]. apply IHl. exact Hnl.
      + cbn [ev]. apply IHl. exact Hnl.
  Qed.

  Definition topk (t : tree) : K :=
    fun ie f S => if f then S else match concl_now t S with [] => S | c => emit (c, fst ie) S end.

  Lemma topk_keeps t P : keeps P (topk t).
  Proof.
    intros ie f S f' n _. unfold topk. destruct f; [reflexivity|]. destruct (concl_now t S); reflexivity.
  Qed.

  Definition Inv (t : tree) (j : nat) (S : store) : Prop :=
    (forall n x, In n (ids t) -> In x (get SEENT n S) \/ In x (get SEENF n S) -> x < j) /\ dynclear t S.

  Lemma run_fold t : nextfree t = true -> NoDup (ids t) -> forall l j S, Inv t j S ->
      out (fold_left (fun S ie => ev W t (Some ie) (topk t) S) (enum_from j l) S)
      = rev (flat_map (rows1 t) (enum_from j l)) ++ out S.
  Proof.
    intros Hnf Hnd. induction l as [|e l IH]; intros j S [Hlt Hdc]; [reflexivity|].
    simpl enum_from. simpl fold_left.
    assert (Hfr : fresh t j S).
    { intros n Hn. split; intro Hx.
      - specialize (Hlt n j Hn (or_introl Hx)). lia.
      - specialize (Hlt n j Hn (or_intror Hx)). lia. }
    destruct (ev_bound W t Hnf Hnd j e (topk t) S Hfr Hdc (topk_keeps t _))
      as [S1 [[Ho [Hout [Hseen [Hfl Hcl]]]] [Hf1 [Hf2 [Hf3 Hf4]]]]].
    rewrite IH.
    - simpl flat_map. rewrite rev_app_distr, <- app_assoc. f_equal.
      unfold binding in *. rewrite Hf1. unfold topk, rows1. simpl snd. simpl fst.
      destruct (pe t e) as [f c]. simpl in *. destruct f; [exact Ho|].
      rewrite Hcl. destruct c; [exact Ho|]. simpl. rewrite Ho. reflexivity.
    - split.
      + intros n x Hn Hx. unfold binding in *.
        assert (Hs1 : get SEENT n (topk t (j, e) (fst (pe t e)) S1) = get SEENT n S1) by (apply topk_keeps with (P := fun _ => True); exact I).
        assert (Hs2 : get SEENF n (topk t (j, e) (fst (pe t e)) S1) = get SEENF n S1) by (apply topk_keeps with (P := fun _ => True); exact I).
        rewrite (proj1 (Hf3 n)), (proj2 (Hf3 n)), Hs1, Hs2 in Hx.
        destruct Hx as [Hx|Hx].
        * apply (proj1 (Hseen n)) in Hx. destruct Hx as [<-|Hx]; [lia|]. specialize (Hlt n x Hn (or_introl Hx)). lia.
        * apply (proj2 (Hseen n)) in Hx. destruct Hx as [<-|Hx]; [lia|]. specialize (Hlt n x Hn (or_intror Hx)). lia.
      + exact Hf4.
  Qed.

  Theorem run_nextfree t : nextfree t = true -> NoDup (ids t) -> run W t = flat_map (rows1 t) (enum W).
  Proof.
    intros Hnf Hnd. unfold run.
    change (fun (ie : binding) (f : bool) (S : store) =>
              if f then S else match concl_now t S with [] => S | c => emit (c, fst ie) S end) with (topk t).
    rewrite ev_unbound by exact Hnf. unfold enum. rewrite run_fold; auto.
    - simpl. rewrite app_nil_r. apply rev_involutive.
    - split; [intros n x _ [[]|[]]|intros n _; reflexivity].
  Qed.
End Run.
