(* C08 proofs for the two-variable evaluator, part 6: the whole run of EVERY tree.
   The root selector hands each of its rows to update_conclusion2, which records (truth, conclusions, bindings of the
   variables the conclusions name) and drops a row whose record is known.  As a SET, the inferred instances are those
   of the true rows of the pure reading [pes2] of the tree over the whole domain. *)
From Coq Require Import List ZArith Bool Arith Lia.
From Krrood Require Import Eql.RuleSpec Eql.RuleEval Eql.RuleBuild Eql.RulePure Eql.RuleEval2 Eql.RuleEvalProofs
  Eql.RuleNextProofs Eql.RuleEval2Proofs Eql.RuleEval2RootProofs Eql.RuleEval2MultiProofs.
Import ListNotations.

(* the true rows, as (conclusions, binding) *)
Definition trows (rows : list row2) : list (list nat * bind2) :=
  map (fun y => (snd (fst y), snd y)) (filter rtrue rows).

Lemma trows_cons y rest :
  trows (y :: rest) = if fst (fst y) then trows rest else (snd (fst y), snd y) :: trows rest.
Proof. destruct y as [[[|] c] B]; reflexivity. Qed.

Lemma existsb_filter {A} (f g : A -> bool) l : (forall x, f x = true -> g x = true) ->
  existsb f (filter g l) = existsb f l.
Proof.
  intros H. induction l as [|x l IH]; [reflexivity|]. simpl. destruct (g x) eqn:E; simpl; rewrite IH; [reflexivity|].
  destruct (f x) eqn:F; [|reflexivity]. rewrite (H x F) in E. discriminate.
Qed.

Section RootAll.
  Variable selof : nat -> nat.
  Variables (Cs : list celem) (Bs : list belem).

  Lemma topk2_good t P : kgood P (topk2 t).
  Proof.
    split; [apply topk2_keeps|]. intros B f S. unfold topk2. destruct f; [reflexivity|]. destruct (concl_now2 t S); reflexivity.
  Qed.

  Lemma insts_cons c B L x : In x (insts selof ((c, B) :: L)) <-> In x (map (fun tg => inst_of selof tg B) c) \/ In x (insts selof L).
  Proof. unfold insts. cbn [flat_map fst snd]. apply in_app_iff. Qed.

  (* a single rule at the root: no selector, every true row is inferred *)
  Lemma segI_leaf_out id cs c : forall rows S Send,
    SegI (inT (Leaf id cs c)) (topk2 (Leaf id cs c)) id (concl_now2 (Leaf id cs c)) rows S Send ->
    forall x, In x (insts selof (out2 Send)) <-> In x (insts selof (out2 S)) \/ In x (insts selof (trows rows)).
  Proof.
    induction rows as [|y rest IH]; intros S Send H x.
    - cbn [SegI] in H. destruct H as [Ho _]. rewrite Ho. simpl. tauto.
    - cbn [SegI] in H. destruct H as [S1 [A [Bf [C D]]]]. rewrite (IH _ _ D x). clear IH D.
      destruct A as [Ho _]. destruct y as [[f cc] B']. cbn [fst snd] in *. rewrite trows_cons. cbn [fst snd].
      destruct f.
      + unfold topk2. rewrite Ho. tauto.
      + unfold topk2. rewrite (C eq_refl). rewrite insts_cons. destruct cc as [|c0 cc'].
        * rewrite Ho. simpl. tauto.
        * cbn [out2 emit2]. rewrite insts_cons, Ho. tauto.
  Qed.

  Section Node.
    Variables (id : nat) (s : sel) (l r : tree).
    Let t := Node id s l r.
    Definition tent (e : seen_entry2) : bool := match e with (_, tr, _, _) => tr end.
    Definition InvR (S : store2) (E : list (list nat * bind2)) : Prop :=
      rootsel2 S = id /\ filter tent (seen2 S) = map (ent selof id) E /\ out2 S = map row E.

    Lemma seenb2_true cx key S : seenb2 id true cx key S = existsb (entry_is2 id true cx key) (filter tent (seen2 S)).
    Proof.
      unfold seenb2. symmetry. apply existsb_filter. intros [[[n tr] c'] k'] H. unfold entry_is2 in H. simpl.
      apply andb_prop in H. destruct H as [H _]. apply andb_prop in H. destruct H as [H _].
      apply andb_prop in H. destruct H as [H _]. apply andb_prop in H. destruct H as [_ H].
      destruct tr; [reflexivity|discriminate].
    Qed.

    Lemma segR_root : forall rows S Send E, InvR S E ->
      SegR selof (inT t) (topk2 t) id rows S Send ->
      exists E', InvR Send E' /\
                 forall x, In x (insts selof (map row E')) <->
                           In x (insts selof (map row E)) \/ In x (insts selof (trows (map norm rows))).
    Proof.
      induction rows as [|y rest IH]; intros S Send E [Hroot [Hseen Hout]] H.
      - cbn [SegR] in H. destruct H as [Ho [Hs [Hr _]]]. exists E. split; [split; [congruence|split; congruence]|].
        intros x. simpl. tauto.
      - cbn [SegR] in H. destruct H as [S' [cx [A [Bf [C [D Hrest]]]]]].
        destruct A as [Ho [Hs [Hr _]]].
        assert (HrS' : rootsel2 S' = id) by congruence.
        assert (HsS' : filter tent (seen2 S') = map (ent selof id) E) by congruence.
        assert (HoS' : out2 S' = map row E) by congruence.
        destruct y as [[f cy] By]. cbn [fst snd] in *.
        set (U := update_conclusion2 selof id By cx S') in *.
        assert (HUflag : getb2 FLAG id U = f).
        { unfold getb2, U. rewrite uc2_cell by (left; unfold FLAG, DYN; lia). exact Bf. }
        rewrite HUflag in Hrest.
        cbn [map]. rewrite trows_cons. unfold norm at 1 2 3. cbn [fst snd].
        destruct f.
        + (* a false row: whatever it records, nothing is inferred *)
          assert (HI : InvR (topk2 t By true U) E).
          { unfold topk2. unfold U, update_conclusion2. destruct cx as [|x0 cx']; [split; [|split]; assumption|].
            rewrite HrS', Nat.eqb_refl. rewrite Bf. cbn [negb].
            destruct (seenb2 id false (x0 :: cx') (key2 selof (x0 :: cx') By) S'); [split; [|split]; assumption|].
            split; [exact HrS'|]. split; [|exact HoS']. cbn [seen2 add_seen2 set2 filter tent]. exact HsS'. }
          destruct (IH _ Send E HI Hrest) as [E' [HI' Hx]]. exists E'. split; [exact HI'|]. exact Hx.
        + (* a true row *)
          specialize (D eq_refl). subst cx.
          unfold topk2 in Hrest. cbv iota in Hrest. change (concl_now2 t U) with (get2 DYN id U) in Hrest.
          unfold U, update_conclusion2 in Hrest. destruct cy as [|x0 cy'].
          * rewrite C in Hrest.
            destruct (IH _ Send E (conj HrS' (conj HsS' HoS')) Hrest) as [E' [HI' Hx]]. exists E'. split; [exact HI'|].
            intros x. rewrite Hx. cbn [union]. rewrite insts_cons. simpl. tauto.
          * rewrite HrS', Nat.eqb_refl in Hrest. rewrite Bf in Hrest. cbn [negb] in Hrest.
            set (c := union [] (x0 :: cy')).
            assert (Hcne : c <> []) by (apply union_cons_nonempty).
            destruct (seenb2 id true (x0 :: cy') (key2 selof (x0 :: cy') By) S') eqn:Esn.
            -- (* the record is known: the row is dropped *)
               rewrite C in Hrest.
               destruct (IH _ Send E (conj HrS' (conj HsS' HoS')) Hrest) as [E' [HI' Hx]]. exists E'. split; [exact HI'|].
               intros x. rewrite Hx. rewrite insts_cons.
               split; [tauto|]. intros [Hx0|[Hx0|Hx0]]; [tauto| |tauto]. left.
               apply in_map_iff in Hx0. destruct Hx0 as [tg [Hx0 Htg]]. subst x.
               rewrite seenb2_true, HsS' in Esn. apply existsb_exists in Esn. destruct Esn as [e0 [He0 Hm]].
               apply in_map_iff in He0. destruct He0 as [[cx0 B0] [He0 HinE]]. subst e0. unfold ent, entry_is2 in Hm. cbn [fst snd] in Hm.
               apply andb_prop in Hm. destruct Hm as [Hm Hk2]. apply andb_prop in Hm. destruct Hm as [Hm Hk1].
               apply andb_prop in Hm. destruct Hm as [_ Hse].
               assert (Htg' : In tg (x0 :: cy')) by (unfold c in Htg; apply union_in in Htg; destruct Htg as [[]|Htg]; exact Htg).
               destruct (same_record selof _ _ _ _ Hse Hk1 Hk2 tg Htg') as [Hin0 Hinst].
               unfold insts. apply in_flat_map. exists (row (cx0, B0)). split; [apply in_map; exact HinE|].
               unfold row. cbn [fst snd]. apply in_map_iff. exists tg. split; [symmetry; exact Hinst|].
               apply union_in. right. exact Hin0.
            -- (* a new record: the row is inferred *)
               match type of Hrest with context [add_seen2 ?e ?S0] => set (U' := add_seen2 e S0) in * end.
               assert (HUdyn : get2 DYN id U' = c).
               { unfold U', add_seen2. change (get2 DYN id (set2 DYN id (union (get2 DYN id S') (x0 :: cy')) S') = c).
                 rewrite get2_set2_same, C. reflexivity. }
               rewrite HUdyn in Hrest. destruct c as [|c0 c'] eqn:Ec; [congruence|].
               assert (HI : InvR (emit2 (c0 :: c', By) U') ((x0 :: cy', By) :: E)).
               { split; [exact HrS'|]. split.
                 - cbn [seen2 emit2]. unfold U'. cbn [seen2 add_seen2 set2 filter tent map]. rewrite HsS'. reflexivity.
                 - cbn [out2 emit2]. unfold U'. cbn [out2 add_seen2 set2 map]. rewrite HoS'. unfold row at 2. cbn [fst snd].
                   fold c. rewrite Ec. reflexivity. }
               destruct (IH _ Send _ HI Hrest) as [E' [HI' Hx]]. exists E'. split; [exact HI'|].
               intros x. rewrite Hx. cbn [map]. unfold row at 1. unfold norm. cbn [fst snd]. fold c. rewrite Ec.
               rewrite !insts_cons. tauto.
    Qed.
  End Node.

  (* the whole run of every tree with pairwise distinct nodes, as a set of inferred instances *)
  Theorem run2_all t : NoDup (ids t) ->
    forall x, In x (insts selof (run2 selof Cs Bs t)) <-> In x (insts selof (trows (pes2 Cs Bs t None))).
  Proof.
    intros Hnd x. unfold run2.
    change (fun (B : bind2) (f : bool) (S : store2) =>
              if f then S else match concl_now2 t S with [] => S | c => emit2 (c, B) S end) with (topk2 t).
    rewrite in_insts_rev.
    destruct t as [id cs c | id s l r].
    - destruct (leaf_seg selof Cs Bs id cs c None (topk2 (Leaf id cs c)) (init_root2 id)) as [H _].
      + intros n _. split; reflexivity.
      + apply topk2_good.
      + cbn [root_id]. rewrite (segI_leaf_out id cs c _ _ _ H x). simpl. tauto.
    - destruct (node_facts _ _ _ _ Hnd) as [Hidl [Hidr _]].
      destruct (raw_all selof Cs Bs id s l r Hnd None (topk2 (Node id s l r)) (init_root2 id)) as [H _]; auto.
      + intros n _. split; reflexivity.
      + apply topk2_good.
      + cbn [root_id].
        assert (HI0 : InvR id (init_root2 id) []) by (split; [reflexivity|split; reflexivity]).
        destruct (segR_root id s l r _ _ _ [] HI0 H) as [E' [[_ [_ Ho]] Hx]].
        rewrite Ho, Hx. cbn [pes2]. simpl. tauto.
  Qed.
End RootAll.
