(* C03 (b) -- whole evaluations over cached domains do not depend on the history (rule-free queries, any domains);
   rule queries included since a3cd335 (selector memory forgotten at the start of an evaluation). *)
From Coq Require Import List ZArith Bool Arith Lia.
From Krrood Require Import Eql.DomainCacheSpec Eql.DomainCache Eql.DomainCacheProofs Eql.ReevalSpec Eql.Reeval.
Import ListNotations.
Open Scope Z_scope.

(* [w]: what the variable's cache will eventually hold (the de-duplicated domain); no NoDup requirement any more *)
Definition dgood (d : dstate) (w : list Z) : Prop := fold_left ins (src d) (cache d) = w.

Lemma iter_full_good d w : dgood d w -> fst (iter_full d) = w /\ dgood (snd (iter_full d)) w.
Proof. intros E. unfold iter_full, dgood in *; simpl. auto. Qed.

(* the link to the handle machine: a fresh handle of the current iterator run to exhaustion is [iter_full] *)
Lemma iter_full_exhaust d w : dgood d w ->
  rexhaust (S (S (length w))) d (RLive 0 []) [] = Some (iter_full d).
Proof.
  intros E. etransitivity; [apply (rexhaust_fresh w d E)|]. unfold iter_full. unfold dgood in E. now rewrite E.
Qed.

Lemma Forall2_nth_some {X Y} (P : X -> Y -> Prop) l W x d :
  Forall2 P l W -> nth_error l x = Some d -> exists w, nth_error W x = Some w /\ P d w.
Proof.
  intros H. revert x. induction H as [|a b l W Hab H IH]; intros [|x] E; simpl in *; try discriminate.
  - injection E as ->. eauto.
  - eauto.
Qed.

Lemma Forall2_nth_none {X Y} (P : X -> Y -> Prop) l W x :
  Forall2 P l W -> nth_error l x = None -> nth_error W x = None.
Proof.
  intros H. revert x. induction H as [|a b l W Hab H IH]; intros [|x] E; simpl in *; try discriminate; auto.
Qed.

Lemma Forall2_upd {X Y} (P : X -> Y -> Prop) l W x d w :
  Forall2 P l W -> nth_error W x = Some w -> P d w -> Forall2 P (upd x d l) W.
Proof.
  intros H. revert x. induction H as [|a b l W Hab H IH]; intros [|x] E Hp; simpl in *; try discriminate.
  - injection E as ->. constructor; auto.
  - constructor; auto.
Qed.

Section Good.
  Variable W : world.
  Variable A : attrs.
  (* the caches stand for the world W; the selector memory may hold anything (it is forgotten when an evaluation starts) *)
  Definition good (s : qstate) : Prop := Forall2 dgood (doms s) W.

  Lemma enum_good s x : good s -> fst (enum s x) = domW W x /\ good (snd (enum s x)).
  Proof.
    intros G. unfold good in *. unfold enum, domW. destruct (nth_error (doms s) x) as [d|] eqn:E.
    - destruct (Forall2_nth_some _ _ _ _ _ G E) as (w & Ew & Hd).
      destruct (iter_full_good d w Hd) as [F1 F2].
      destruct (iter_full d) as [vs d'] eqn:Ei. simpl in *. subst vs. split.
      + symmetry. apply nth_error_nth. auto.
      + simpl. eapply Forall2_upd; eauto.
    - pose proof (Forall2_nth_none _ _ _ _ G E) as En. simpl. split; auto.
      apply nth_error_None in En. rewrite nth_overflow; auto.
  Qed.

  Lemma loop_good {X R} (f : X -> qstate -> list R * qstate) (g : X -> list R) xs :
    (forall x s, good s -> fst (f x s) = g x /\ good (snd (f x s))) ->
    forall s, good s -> fst (loop xs f s) = flat_map g xs /\ good (snd (loop xs f s)).
  Proof.
    intros Hf. induction xs as [|x xs IH]; intros s G; simpl; auto.
    destruct (Hf x s G) as [F1 F2]. destruct (f x s) as [r1 s1]. simpl in *.
    destruct (IH s1 F2) as [L1 L2]. destruct (loop xs f s1) as [r2 s2]. simpl in *. subst. auto.
  Qed.

  Definition kgood {R} (k : bindings -> qstate -> list R * qstate) (g : bindings -> list R) : Prop :=
    forall b s, good s -> fst (k b s) = g b /\ good (snd (k b s)).

  Lemma with_var_good {R} (k : bindings -> qstate -> list R * qstate) g x :
    kgood k g -> kgood (fun b s => with_var x b s k) (fun b => with_varW W x b g).
  Proof.
    intros Hk b s G. unfold with_var, with_varW. destruct (lookup b x); [apply Hk; auto|].
    destruct (enum_good s x G) as [E1 E2]. destruct (enum s x) as [vs s']. simpl in *. subst vs.
    apply (loop_good (fun v s => k ((x, v) :: b) s) (fun v => g ((x, v) :: b))); auto.
  Qed.

  Lemma bind_all_good {R} (k : bindings -> qstate -> list R * qstate) g xs :
    kgood k g -> kgood (fun b s => bind_all xs b s k) (fun b => bind_allW W xs b g).
  Proof.
    intros Hk. induction xs as [|x xs IH]; simpl; auto.
    apply (with_var_good (fun b' s' => bind_all xs b' s' k) (fun b' => bind_allW W xs b' g) x IH).
  Qed.

  Lemma eval_atom_good a : kgood (eval_atom A a) (eval_atomW W A a).
  Proof.
    unfold eval_atom, eval_atomW.
    apply (bind_all_good (fun b' s' => (if sat_atom A b' a then [b'] else [], s'))
                         (fun b' => if sat_atom A b' a then [b'] else [])).
    intros b s G. simpl. auto.
  Qed.

  Lemma eval_conds_good cs : kgood (eval_conds A cs) (eval_condsW W A cs).
  Proof.
    induction cs as [|a cs IH]; intros b s G; simpl; auto.
    destruct (eval_atom_good a b s G) as [E1 E2]. destruct (eval_atom A a b s) as [bs s1]. simpl in *. subst bs.
    apply (loop_good (fun b' s' => eval_conds A cs b' s') (eval_condsW W A cs)); auto.
  Qed.

  (* rule-free AND rule queries: the selector memory is forgotten at the start, so the rows are the isolated ones *)
  Theorem run_isolated q s : good s ->
    fst (run A s q) = iso_rows W A q /\ good (snd (run A s q)).
  Proof.
    intros G. unfold run, iso_rows.
    destruct (eval_conds_good (q_conds q) [] s G) as [E1 E2].
    destruct (eval_conds A (q_conds q) [] s) as [bs s1]. simpl in *. subst bs.
    destruct (q_rule q) as [exc|].
    - destruct (conclude A exc (q_sel q) (eval_condsW W A (q_conds q) []) []) as [rows seen]. simpl. split; auto.
    - apply (loop_good (fun b s => bind_all (q_sel q) b s (fun b' s' => ([row (q_sel q) b'], s')))
                       (fun b => bind_allW W (q_sel q) b (fun b' => [row (q_sel q) b']))); auto.
      intros b s0 G0.
      apply (bind_all_good (fun b' s' => ([row (q_sel q) b'], s')) (fun b' => [row (q_sel q) b'])); auto.
      intros b' s' G'. simpl. auto.
  Qed.

  Theorem hist_isolated qs : forall s, good s -> hist A s qs = map (iso_rows W A) qs.
  Proof.
    induction qs as [|q qs IH]; intros s G; simpl; auto.
    destruct (run_isolated q s G) as [E1 E2]. destruct (run A s q) as [rows s']. simpl in *.
    subst rows. f_equal. apply IH; auto.
  Qed.
End Good.

(* the world a state stands for: every domain de-duplicated (first occurrences) *)
Lemma good_cold W : good (map dedup W) (cold W).
Proof.
  unfold good, cold; simpl. induction W; simpl; constructor; auto. reflexivity.
Qed.

Theorem reeval_idempotent W A q s : good W s ->
  fst (run A (snd (run A s q)) q) = fst (run A s q).
Proof.
  intros G. destruct (run_isolated W A q s G) as [E1 E2].
  destruct (run_isolated W A q _ E2) as [E3 _]. congruence.
Qed.

(* ---- regression: the code before a3cd335 ---- *)
(* rule query with a refinement: the selector remembered every binding it concluded for; the second evaluation was empty *)
Definition q_rule_w : query := {| q_sel := [0%nat]; q_conds := [ACmpC 0 Cge 1]; q_rule := Some [ACmpC 0 Cge 2] |}.
Definition W_w : world := [[10; 11; 12; 13]].
Definition A_w : attrs := [(10, 0); (11, 1); (12, 2); (13, 3)].

Lemma refuted_rule_reeval_old :
  hist_old A_w (cold W_w) [q_rule_w; q_rule_w] = [[[0; 11]; [1; 12]; [1; 13]]; []] /\
  iso_rows W_w A_w q_rule_w = [[0; 11]; [1; 12]; [1; 13]] /\
  hist A_w (cold W_w) [q_rule_w; q_rule_w] = [[[0; 11]; [1; 12]; [1; 13]]; [[0; 11]; [1; 12]; [1; 13]]].
Proof. repeat split; vm_compute; reflexivity. Qed.

(* duplicate domain element: once, on every evaluation (it was twice on the first one with the previous iterator) *)
Definition q_plain_w : query := {| q_sel := [0%nat]; q_conds := [ACmpC 0 Cge 0]; q_rule := None |}.
Example dup_reeval_once :
  hist [(10, 5)] (cold [[10; 10]]) [q_plain_w; q_plain_w] = [[[10]]; [[10]]] /\
  iso_rows (map dedup [[10; 10]]) [(10, 5)] q_plain_w = [[10]].
Proof. split; vm_compute; reflexivity. Qed.

Example reeval_nonvacuous :
  let q := {| q_sel := [0%nat; 1%nat]; q_conds := [ACmpC 0 Cge 1; ACmpV 0 Clt 1]; q_rule := None |} in
  let W := [[10; 11; 12]; [20; 21]] in
  let A := [(10, 0); (11, 1); (12, 2); (20, 2); (21, 3)] in
  good (map dedup W) (cold W) /\
  hist A (cold W) [q; q] = [[[11; 20]; [11; 21]; [12; 21]]; [[11; 20]; [11; 21]; [12; 21]]].
Proof.
  simpl. split; [apply (good_cold [[10; 11; 12]; [20; 21]])|vm_compute; reflexivity].
Qed.
