(* C02 (predicate bridge) -- exactly one result per satisfying assignment, with predicate atoms.
   For Union-free conditions the results of [peval] are a PARTITION of the assignment space (no domain listing an
   element twice); in the negation-normal and_/else-if fragment every true result is total; so the rows of a query are
   a Permutation of the Spec's enumeration.  Proof structure of Eql/CountProofs.v and Eql/BagProofs.v. *)
From Coq Require Import List ZArith Bool Arith Lia Permutation.
From Krrood Require Import Eql.Syntax Eql.Sat Eql.Eval Eql.EvalProofs Eql.RunProofs Eql.CountProofs Eql.EvalQInv Eql.BagProofs.
From Krrood Require Eql.EvalQTotal.
From Krrood Require Import Eql.PredCond Eql.PredCondProofs.
Import ListNotations.

Fixpoint pufree (c : pcond) : bool :=
  match c with
  | PCmp _ _ _ | PPred _ _ => true
  | PAnd l r | PElseIf l r => pufree l && pufree r
  | PUnion _ _ => false
  | PNot c => pufree c
  end.

(* negation-normal form over atoms (comparisons and calls), and_, and else-if only between conditions over the same variables *)
Fixpoint pnnf (c : pcond) : bool :=
  match c with
  | PCmp _ _ _ | PPred _ _ => true
  | PNot (PCmp _ _ _) | PNot (PPred _ _) => true
  | PNot _ => false
  | PAnd l r => pnnf l && pnnf r
  | PElseIf l r => pnnf l && pnnf r && same_vars (pcond_vars l) (pcond_vars r)
  | PUnion _ _ => false
  end.

Lemma pnnf_pufree c : pnnf c = true -> pufree c = true.
Proof.
  induction c as [op l r|p es|l IHl r IHr|l IHl r IHr|l IHl r IHr|c IH]; simpl; intros H; auto.
  - apply andb_prop in H as [Hl Hr]. now rewrite IHl, IHr.
  - apply andb_prop in H as [H _]. apply andb_prop in H as [Hl Hr]. now rewrite IHl, IHr.
  - destruct c; try discriminate; reflexivity.
Qed.

Lemma pinj_nnf c : nnf c = true -> pnnf (pinj c) = true.
Proof.
  induction c as [op l r|l IHl r IHr|l IHl r IHr|l IHl r IHr|c IH|e c IH|y c IH]; simpl; intros H; auto; try discriminate.
  - apply andb_prop in H as [Hl Hr]. now rewrite IHl, IHr.
  - apply andb_prop in H as [H S]. apply andb_prop in H as [Hl Hr]. rewrite IHl, IHr by auto.
    rewrite !pinj_vars by (apply ufree_qfree, nnf_ufree; auto). now rewrite S.
  - destruct c; try discriminate. reflexivity.
Qed.

Section Partition.
  Variable W : world.
  Variable D : domains.
  Variable P : nat -> list val -> bool.
  Hypothesis Dnodup : forall x, NoDup (D x).

  Definition coval (rho : asg) (r : binds * list val) : bool := extendsb rho (fst r).

  Lemma ev_args_zero es b rho : ~ extends rho b -> cnt (coval rho) (ev_args W D es b) = 0.
  Proof.
    intros Hn. apply cnt_zero. intros [b' vs] Hin. unfold coval. simpl. apply extendsb_false.
    intros Hx. apply Hn. eapply ev_args_sound; eauto.
  Qed.

  Lemma ev_args_partition es : forall b rho,
    extends rho b -> (forall x, In x (args_vars es) -> In (rho x) (D x)) ->
    cnt (coval rho) (ev_args W D es b) = 1.
  Proof.
    induction es as [|e es IH]; simpl; intros b rho He Hd.
    - unfold cnt, coval. simpl. apply extendsb_iff in He. now rewrite He.
    - apply cnt_flat_map_eq1 with (p := covo rho).
      + apply (ev_opnd_partition W D Dnodup); auto. intros; apply Hd, in_or_app; auto.
      + intros [b1 v1] Hp Cp. simpl.
        rewrite (cnt_map (coval rho) (coval rho)) by (intros q; reflexivity).
        apply ev_args_zero. apply extendsb_false. exact Cp.
      + intros [b1 v1] Hp Cp. simpl.
        rewrite (cnt_map (coval rho) (coval rho)) by (intros q; reflexivity).
        apply IH; [apply extendsb_iff; exact Cp|]. intros; apply Hd, in_or_app; auto.
  Qed.

  Lemma ev_pred_partition p es b rho :
    extends rho b -> (forall x, In x (args_vars es) -> In (rho x) (D x)) ->
    cnt (cov rho) (ev_pred W D P p es b) = 1.
  Proof.
    intros He Hd. unfold ev_pred. rewrite <- (ev_args_partition es b rho He Hd).
    apply cnt_map. intros q. reflexivity.
  Qed.

  Lemma peval_zero c b rho : ~ extends rho b -> cnt (cov rho) (peval W D P c b) = 0.
  Proof.
    intros Hn. apply cnt_zero. intros [b' f] Hin. unfold cov. simpl. apply extendsb_false.
    intros Hx. apply Hn. eapply peval_mono; eauto.
  Qed.

  (* the partition: exactly one result covers each compatible assignment *)
  Theorem peval_partition c : pufree c = true -> forall b rho,
    extends rho b -> (forall x, In x (pcond_vars c) -> In (rho x) (D x)) ->
    cnt (cov rho) (peval W D P c b) = 1.
  Proof.
    induction c as [op l r|p es|l IHl r IHr|l IHl r IHr|l IHl r IHr|c IH]; simpl; intros U b rho He Hd; try discriminate.
    - apply (ev_cmp_partition W D Dnodup); auto.
    - apply ev_pred_partition; auto.
    - apply andb_prop in U as [Ul Ur]. apply cnt_flat_map_eq1 with (p := cov rho).
      + apply IHl; auto. intros; apply Hd, in_or_app; auto.
      + intros [b1 f1] Hp Cp. simpl. destruct f1.
        * unfold cnt, cov in *. simpl in *. now rewrite Cp.
        * apply peval_zero. apply extendsb_false. exact Cp.
      + intros [b1 f1] Hp Cp. simpl. destruct f1.
        * unfold cnt, cov in *. simpl in *. now rewrite Cp.
        * apply IHr; auto. apply extendsb_iff. exact Cp. intros; apply Hd, in_or_app; auto.
    - apply andb_prop in U as [Ul Ur]. apply cnt_flat_map_eq1 with (p := cov rho).
      + apply IHl; auto. intros; apply Hd, in_or_app; auto.
      + intros [b1 f1] Hp Cp. simpl. destruct f1.
        * apply peval_zero. apply extendsb_false. exact Cp.
        * unfold cnt, cov in *. simpl in *. now rewrite Cp.
      + intros [b1 f1] Hp Cp. simpl. destruct f1.
        * apply IHr; auto. apply extendsb_iff. exact Cp. intros; apply Hd, in_or_app; auto.
        * unfold cnt, cov in *. simpl in *. now rewrite Cp.
    - rewrite <- (IH U b rho He Hd). apply cnt_map. intros q. reflexivity.
  Qed.

  Theorem peval_exactly_once c : pufree c = true -> forall b rho,
    extends rho b -> (forall x, In x (pcond_vars c) -> In (rho x) (D x)) ->
    cnt (covt rho) (peval W D P c b) = if psat W P rho c then 1 else 0.
  Proof.
    intros U b rho He Hd. pose proof (peval_partition c U b rho He Hd) as H1.
    assert (Hflag : forall r, In r (peval W D P c b) -> cov rho r = true -> snd r = negb (psat W P rho c)).
    { intros [b' f] Hin Hc. simpl. unfold cov in Hc. simpl in Hc. apply extendsb_iff in Hc.
      destruct f.
      - rewrite (peval_sound W D P c false b b' Hin rho Hc). reflexivity.
      - rewrite (peval_sound W D P c true b b' Hin rho Hc). reflexivity. }
    unfold cnt in *. revert H1 Hflag. induction (peval W D P c b) as [|r l IHl]; simpl; intros H1 Hflag.
    - discriminate.
    - unfold covt at 1. destruct (cov rho r) eqn:Cr; simpl in *.
      + rewrite (Hflag r) by auto. rewrite negb_involutive.
        assert (Z0 : length (filter (covt rho) l) = 0).
        { apply (cnt_zero (covt rho)). intros a Ha. unfold covt. destruct (cov rho a) eqn:Ca; auto.
          exfalso. assert (In a (filter (cov rho) l)) by (apply filter_In; auto).
          destruct (filter (cov rho) l); [contradiction|discriminate]. }
        destruct (psat W P rho c); simpl; lia.
      + apply IHl; auto.
  Qed.
End Partition.

(* ---------- totality and domain of the results ---------- *)
Section Total.
  Variable W : world.
  Variable D : domains.
  Variable P : nat -> list val -> bool.

  Lemma ev_args_binds es : forall b b' vs, In (b', vs) (ev_args W D es b) ->
    binds_all b' (args_vars es) /\ (forall x, bound b x = true -> bound b' x = true).
  Proof.
    induction es as [|e es IH]; simpl; intros b b' vs Hin.
    - destruct Hin as [[= <- <-]|[]]. split; auto. intros x [].
    - apply in_flat_map in Hin as ([b1 v1] & H1 & H2). apply in_map_iff in H2 as ([b2 vs2] & [= <- <-] & H2). simpl in *.
      destruct (IH _ _ _ H2) as [Hall Hmono]. split.
      + intros x Hx. apply in_app_or in Hx as [Hx|Hx]; auto.
        apply Hmono. eapply (ev_opnd_binds W D); eauto.
      + intros x Hx. apply Hmono. eapply (bound_mono_opnd W D); eauto.
  Qed.

  Lemma ev_args_dom es : forall b b' vs, In (b', vs) (ev_args W D es b) -> dom_in b b' (args_vars es).
  Proof.
    induction es as [|e es IH]; simpl; intros b b' vs Hin.
    - destruct Hin as [[= <- <-]|[]]. apply dom_in_refl.
    - apply in_flat_map in Hin as ([b1 v1] & H1 & H2). apply in_map_iff in H2 as ([b2 vs2] & [= <- <-] & H2). simpl in *.
      eapply dom_in_trans; [eapply (ev_opnd_dom W D); eauto | eapply IH; eauto | |]; intros; apply in_or_app; auto.
  Qed.

  Lemma peval_bound_mono c : forall b b' f x, In (b', f) (peval W D P c b) -> bound b x = true -> bound b' x = true.
  Proof.
    induction c as [op l r|p es|l IHl r IHr|l IHl r IHr|l IHl r IHr|c IH]; simpl; intros b b' f x Hin Hb.
    - eapply (ev_cmp_binds W D); eauto.
    - apply ev_pred_inv in Hin as (vs & H & _). eapply ev_args_binds; eauto.
    - apply in_flat_map in Hin as ([b1 f1] & H1 & H2). simpl in H2. destruct f1.
      + destruct H2 as [[= <- <-]|[]]. eauto.
      + eauto.
    - apply in_flat_map in Hin as ([b1 f1] & H1 & H2). simpl in H2. destruct f1.
      + eauto.
      + destruct H2 as [[= <- <-]|[]]. eauto.
    - apply in_app_or in Hin as [Hin|Hin]; [|apply filter_In in Hin as [Hin _]; eauto].
      apply in_flat_map in Hin as ([b1 f1] & H1 & H2). simpl in H2. destruct f1.
      + eauto.
      + destruct H2 as [[= <- <-]|[]]. eauto.
    - apply in_map_iff in Hin as ([b1 f1] & [= <- <-] & H1). eauto.
  Qed.

  Lemma peval_dom c : forall b b' f, In (b', f) (peval W D P c b) -> dom_in b b' (pcond_vars c).
  Proof.
    induction c as [op l r|p es|l IHl r IHr|l IHl r IHr|l IHl r IHr|c IH]; simpl; intros b b' f Hin.
    - eapply (ev_cmp_dom W D); eauto.
    - apply ev_pred_inv in Hin as (vs & H & _). eapply ev_args_dom; eauto.
    - apply in_flat_map in Hin as ([b1 f1] & H1 & H2). simpl in H2. destruct f1.
      + destruct H2 as [[= <- <-]|[]]. eapply dom_in_weaken; eauto. intros; apply in_or_app; auto.
      + eapply dom_in_trans; eauto; intros; apply in_or_app; auto.
    - apply in_flat_map in Hin as ([b1 f1] & H1 & H2). simpl in H2. destruct f1.
      + eapply dom_in_trans; eauto; intros; apply in_or_app; auto.
      + destruct H2 as [[= <- <-]|[]]. eapply dom_in_weaken; eauto. intros; apply in_or_app; auto.
    - apply in_app_or in Hin as [Hin|Hin].
      + apply in_flat_map in Hin as ([b1 f1] & H1 & H2). simpl in H2. destruct f1.
        * eapply dom_in_trans; eauto; intros; apply in_or_app; auto.
        * destruct H2 as [[= <- <-]|[]]. eapply dom_in_weaken; eauto. intros; apply in_or_app; auto.
      + apply filter_In in Hin as [Hin _]. eapply dom_in_weaken; eauto. intros; apply in_or_app; auto.
    - apply in_map_iff in Hin as ([b1 f1] & [= <- <-] & H1). eauto.
  Qed.

  (* in the fragment every TRUE result binds every variable the condition ranges over *)
  Theorem peval_true_total c : pnnf c = true -> forall b b',
    In (b', false) (peval W D P c b) -> binds_all b' (pcond_vars c).
  Proof.
    induction c as [op l r|p es|l IHl r IHr|l IHl r IHr|l IHl r IHr|c IH]; simpl; intros N b b' Hin; try discriminate.
    - eapply (ev_cmp_binds W D); eauto.
    - apply ev_pred_inv in Hin as (vs & H & _). eapply ev_args_binds; eauto.
    - apply andb_prop in N as [Nl Nr].
      apply in_flat_map in Hin as ([b1 f1] & H1 & H2). simpl in H2. destruct f1.
      + destruct H2 as [[= ]|[]].
      + intros x Hx. apply in_app_or in Hx as [Hx|Hx].
        * eapply peval_bound_mono; eauto. eapply IHl; eauto.
        * eapply IHr; eauto.
    - apply andb_prop in N as [N Sv]. apply andb_prop in N as [Nl Nr]. apply andb_prop in Sv as [S1 S2].
      apply in_flat_map in Hin as ([b1 f1] & H1 & H2). simpl in H2. destruct f1.
      + intros x Hx. eapply IHr; eauto. apply in_app_or in Hx as [Hx|Hx]; auto.
        eapply nsubset_In; eauto.
      + destruct H2 as [[= <-]|[]]. intros x Hx. eapply IHl; eauto. apply in_app_or in Hx as [Hx|Hx]; auto.
        eapply nsubset_In; eauto.
    - destruct c as [op l r|p es| | | |]; try discriminate;
        apply in_map_iff in Hin as ([b1 f1] & [= <- Hf] & H1); simpl in *.
      + eapply (ev_cmp_binds W D); eauto.
      + apply ev_pred_inv in H1 as (vs & H & _). eapply ev_args_binds; eauto.
  Qed.
End Total.

(* ---------- whole queries: the rows are a Permutation of the Spec's enumeration ---------- *)
Section Bag.
  Variable W : world.
  Variable D : domains.
  Variable P : nat -> list val -> bool.
  Hypothesis Dnodup : forall x, NoDup (D x).

  Variable q : pquery.
  Let c := pq_cond q.
  Hypothesis Nc : pnnf c = true.
  Hypothesis Hroots : forall x, In x (flat_map opnd_vars (pq_sels q)) -> In x (pcond_vars c).

  Let vs := nodup Nat.eq_dec (pquery_vars q).

  Lemma pvs_iff x : In x vs <-> In x (pcond_vars c).
  Proof.
    unfold vs. rewrite nodup_In. unfold pquery_vars. fold c. rewrite in_app_iff. split; [intros [H|H]; auto|auto].
  Qed.

  Definition PTR : list binds := ptrue_results W D P c.

  Lemma PTR_in b1 : In b1 PTR <-> In (b1, false) (peval W D P c []).
  Proof.
    unfold PTR, ptrue_results. rewrite in_map_iff. split.
    - intros ([b f] & <- & H). apply filter_In in H as [H Hf]. simpl in *. destruct f; [discriminate|auto].
    - intros H. exists (b1, false). split; auto. apply filter_In. auto.
  Qed.

  Lemma PTR_total b1 : In b1 PTR -> forall x, In x vs -> exists v, lookup b1 x = Some v /\ In v (D x).
  Proof.
    intros H x Hx. apply PTR_in in H. apply pvs_iff in Hx.
    pose proof (peval_true_total W D P c Nc _ _ H x Hx) as Hb. unfold bound in Hb.
    destruct (lookup b1 x) eqn:E; [|discriminate]. exists v. split; auto.
    eapply (peval_bok W D P c); eauto. apply b_ok_nil.
  Qed.

  Lemma PTR_dom b1 : In b1 PTR -> forall x, lookup b1 x <> None -> In x vs.
  Proof.
    intros H x Hx. apply PTR_in in H. apply pvs_iff.
    destruct (peval_dom W D P c _ _ _ H x Hx) as [Hn|Hc]; auto. simpl in Hn. congruence.
  Qed.

  Lemma PTR_extends b1 : In b1 PTR -> extends (asg_of (norm vs b1)) b1.
  Proof.
    intros H x v Hl. rewrite asg_norm.
    - unfold asg_of. now rewrite Hl.
    - eapply PTR_dom; eauto. congruence.
  Qed.

  Lemma PTR_sat b1 : In b1 PTR -> psat W P (asg_of (norm vs b1)) c = true.
  Proof.
    intros H. apply (peval_sound W D P c true [] b1); [now apply PTR_in|now apply PTR_extends].
  Qed.

  Lemma pin_dom_norm b1 : In b1 PTR -> forall x, In x (pcond_vars c) -> In (asg_of (norm vs b1) x) (D x).
  Proof.
    intros H x Hx. apply pvs_iff in Hx. rewrite asg_norm by exact Hx.
    destruct (PTR_total b1 H x Hx) as (v & Hl & Hv). unfold asg_of. now rewrite Hl.
  Qed.

  Theorem PTR_perm :
    Permutation (map (norm vs) PTR) (filter (fun a => psat W P (asg_of a) c) (assignments D vs)).
  Proof.
    apply NoDup_Permutation.
    - apply (NoDup_map_cnt binds_eqb (norm vs) PTR binds_eqb_eq). intros b1 H1.
      set (rho := asg_of (norm vs b1)).
      assert (Hle : cnt (fun a2 => binds_eqb (norm vs a2) (norm vs b1)) PTR <= cnt (covt rho) (peval W D P c [])).
      { unfold PTR, ptrue_results. rewrite cnt_map_filter. apply cnt_le. intros [b f] Hin Hp. simpl in Hp.
        apply andb_prop in Hp as [Hf Hp]. apply binds_eqb_eq in Hp. destruct f; [discriminate|].
        unfold covt, cov. simpl. rewrite andb_true_r. apply extendsb_iff. unfold rho. rewrite <- Hp.
        apply PTR_extends. now apply PTR_in. }
      rewrite (peval_exactly_once W D P Dnodup c (pnnf_pufree c Nc) [] rho (extends_nil _)) in Hle.
      + destruct (psat W P rho c); lia.
      + apply pin_dom_norm. exact H1.
    - apply NoDup_filter, NoDup_assignments; auto.
    - intros a. rewrite filter_In, in_map_iff. split.
      + intros (b1 & <- & Hb). split; [|now apply PTR_sat].
        apply norm_in_assignments. intros x Hx.
        destruct (PTR_total b1 Hb x Hx) as (v & Hl & Hv). unfold asg_of. now rewrite Hl.
      + intros [Ha Hs].
        assert (Hnd : NoDup vs) by apply NoDup_nodup.
        destruct (peval_complete W D P c [] (asg_of a) (extends_nil _)) as (b1 & H1 & He).
        * intros x Hx. apply pvs_iff in Hx. destruct (assignments_sound D vs a Ha x Hx) as (v & Hl & Hv).
          unfold asg_of. now rewrite Hl.
        * rewrite Hs in H1. simpl in H1. exists b1. split; [|now apply PTR_in].
          rewrite (assignments_shape D vs Hnd a Ha). unfold norm. apply map_ext_in. intros x Hx. f_equal.
          destruct (PTR_total b1 (proj2 (PTR_in b1) H1) x Hx) as (v & Hl & _). unfold asg_of at 1. rewrite Hl.
          symmetry. now apply He.
  Qed.

  Lemma pselect_total b1 : In b1 PTR ->
    select W D (pq_sels q) b1 = [map (den W (asg_of (norm vs b1))) (pq_sels q)].
  Proof.
    intros H.
    assert (Hv : forall s x, In s (pq_sels q) -> In x (opnd_vars s) -> In x vs).
    { intros s x Hs Hx. apply pvs_iff, Hroots. apply in_flat_map. eauto. }
    rewrite (select_bound W D).
    - f_equal. apply map_ext_in. intros s Hs. apply den_ext. intros x Hx. symmetry. apply asg_norm. eauto.
    - intros s x Hs Hx. destruct (PTR_total b1 H x (Hv s x Hs Hx)) as (v & Hl & _). unfold bound. now rewrite Hl.
  Qed.

  (* exactly one row per satisfying assignment *)
  Theorem prun_perm : Permutation (prun W D P q) (panswers_exec W D P q).
  Proof.
    unfold prun, panswers_exec. fold c. fold PTR. fold vs.
    assert (E : flat_map (select W D (pq_sels q)) PTR
                = map (fun a => map (den W (asg_of a)) (pq_sels q)) (map (norm vs) PTR)).
    { rewrite map_map. assert (Hall : forall b1, In b1 PTR -> In b1 PTR) by auto. revert Hall.
      generalize PTR at 1 3 4. intros l Hl. induction l as [|b1 l IH]; simpl; auto.
      rewrite (pselect_total b1 (Hl b1 (or_introl eq_refl))). simpl. f_equal. apply IH. intros; apply Hl; now right. }
    rewrite E. apply Permutation_map. apply PTR_perm.
  Qed.
End Bag.
