(* C03 -- Spec-only side of the correspondence: encodings into sx and "implementation = Spec" tests.
   Depends on the Spec files only, so that the search for a failing input still runs when a model does not build. *)
From Coq Require Import List ZArith Bool.
From Krrood Require Import Base.Sx Eql.DomainCacheSpec Eql.ReevalSpec.
Import ListNotations.
Open Scope Z_scope.

Definition sx_ires (r : ires) : sx :=
  match r with
  | IRow r => SL (map SZ r) | IStop => SZ (-1) | IErr => SZ (-2) | IOut => SZ (-7) | IClosed => SZ (-3)
  end.
Definition sx_log (l : list ires) : sx := SL (map sx_ires l).
Definition sx_zs (l : list Z) : sx := SL (map SZ l).
Definition sx_rows (l : list (list Z)) : sx := SL (map sx_zs l).

Definition scache_case := (list Z * list sop)%type.
(* a domain is the set of its elements in first-occurrence order: an element listed twice is one element *)
Definition scache_spec (c : scache_case) : sx := sx_zs (spec_log (dedup (fst c)) (snd c) []).
Definition cache_code_spec (c : scache_case) (impl : sx) : Z := if sx_eqb impl (scache_spec c) then 0 else 3.

Definition hist_case := (world * attrs * list query)%type.
Definition hist_spec (c : hist_case) : sx := let '(W, A, qs) := c in SL (map sx_rows (map (iso_rows (map dedup W) A) qs)).
Definition hist_code_spec (c : hist_case) (impl : sx) : Z := if sx_eqb impl (hist_spec c) then 0 else 3.

Definition sched_case := (world * attrs * list query * list iop)%type.
Definition sched_spec (c : sched_case) : sx := let '(W, A, qs, ops) := c in sx_log (spec_sched (map dedup W) A qs ops).
Definition sched_code_spec (c : sched_case) (impl : sx) : Z := if sx_eqb impl (sched_spec c) then 0 else 3.
