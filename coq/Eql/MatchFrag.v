(* C11 -- the fragment F11 (decidable), the hypotheses on worlds and class models, and the concrete cases the harness
   writes (evaluated by vm_compute). *)
From Coq Require Import List ZArith Bool Arith.
From Krrood Require Import Base.Sx Eql.Syntax Eql.ShowSpec Eql.MatchSpec Eql.MatchSpecShow Gen.Match Eql.Match.
Import ListNotations.

Fixpoint names (l : alist) : list nat :=
  match l with ANil => [] | ACons a _ rest => a :: names rest end.
Definition nmemb (a : nat) (l : list nat) : bool := existsb (Nat.eqb a) l.

(* a nested match on a collection must emit at least one condition (otherwise no member is required: finding C11-e) *)
Definition head_ok (cs : list tcond) : bool :=
  match cs with [] => false | _ => true end.

Section Frag.
  Variable C : cmodel.
  Variable objcls : cls -> bool.     (* classes whose instances are objects of the world (not int / str) *)

  (* [st]: strict (every nested match on a collection emits a condition) or lax (the class of finding C11-e allowed) *)
  Variable st : bool.
  Fixpoint fok_pat (oc : cls) (p : path) (a : nat) (q : pat) {struct q} : bool :=
    match q with
    | Pat t l =>
        let d := dflt (f_type C oc a) in
        let kw := negb (is_anil l) in
        let pv := nested_var C oc p a t kw in
        is_some (f_type C oc a) && objcls d
        && (if f_iter C oc a then type_filter C oc a t || negb st || head_ok (tr_alist C d pv l) else true)
        && fok_alist d pv l
    end
  with fok_alist (oc : cls) (p : path) (l : alist) {struct l} : bool :=
    match l with
    | ANil => true
    | ACons a c rest => negb (nmemb a (names rest)) && fok_apat oc p a c && fok_alist oc p rest
    end
  with fok_apat (oc : cls) (p : path) (a : nat) (c : apat) {struct c} : bool :=
    match c with
    | PLit v => is_some (f_type C oc a) && (f_iter C oc a || negb (is_coll v)) && negb (f_bcoll C oc a)
    | PMatch q => fok_pat oc p a q
    | PAny v => is_some (f_type C oc a) && is_coll v && negb (f_bcoll C oc a)
    | PAll v => is_some (f_type C oc a) && f_iter C oc a && match v with VLO _ => true | _ => false end
    | PVar _ => false        (* a let-variable as value: finding C11-f (C11_refuted_letvalue) *)
    | PSel c' => match c' with PMatch _ | PAny _ | PAll _ => fok_apat oc p a c' | _ => false end
    end.

  (* F11 (st = true): the pattern is well typed against the class model, keyword names are distinct, no nested match on a
     collection that emits no condition *)
End Frag.
Definition F11 (C : cmodel) (objcls : cls -> bool) (T : cls) (l : alist) : bool := fok_alist C objcls true T PRoot l.
(* F11 without the clause that excludes finding C11-e: what is proved there is the relaxed reading [lax_*] below *)
Definition F11lax (C : cmodel) (objcls : cls -> bool) (T : cls) (l : alist) : bool := fok_alist C objcls false T PRoot l.

(* The relaxed reading that the code implements: as the Spec [matches], except that a nested match on a collection
   attribute that emits no condition (no type filter, no condition from its keywords) constrains nothing -- it does not
   even require a member.  For patterns in F11 it coincides with the Spec (lax_strict in MatchProofs.v). *)
Definition cnil (cs : list tcond) : bool := match cs with [] => true | _ => false end.
Section Lax.
  Variable C : cmodel.
  Variable M : mworld.
  Fixpoint lax_pat (oc : cls) (p : path) (a : nat) (q : pat) (v : val) {struct q} : bool :=
    match q with
    | Pat t l =>
        let d := dflt (f_type C oc a) in
        let pv := nested_var C oc p a t (negb (is_anil l)) in
        match v with
        | VO o' => type_ok (sub C) M t o' && lax_alist d pv l o'
        | VLO xs =>
            if f_iter C oc a && negb (type_filter C oc a t) && cnil (tr_alist C d pv l) then true
            else existsb (fun x => type_ok (sub C) M t x && lax_alist d pv l x) xs
        | _ => false
        end
    end
  with lax_alist (oc : cls) (p : path) (l : alist) (o : Z) {struct l} : bool :=
    match l with
    | ANil => true
    | ACons a c rest => lax_apat oc p a c (attr (mw M) o a) && lax_alist oc p rest o
    end
  with lax_apat (oc : cls) (p : path) (a : nat) (c : apat) (v : val) {struct c} : bool :=
    match c with
    | PLit lit => lit_ok M v lit
    | PMatch q => lax_pat oc p a q v
    | PAny vals => common M v vals
    | PAll vals => same_set M v vals
    | PVar vals => common M v vals
    | PSel c' => lax_apat oc p a c' v
    end.
  Definition lax_run (T : cls) (l : alist) (dom : list Z) : list Z :=
    filter (fun o => sub C (otype M o) T && lax_alist T PRoot l o) dom.
End Lax.

(* hypotheses on the class model and the world (Props; the harness checks the boolean versions below on its data) *)
Definition sub_refl (C : cmodel) : Prop := forall c, sub C c c = true.
Definition sub_trans (C : cmodel) : Prop := forall a b c, sub C a b = true -> sub C b c = true -> sub C a c = true.
Definition typed (C : cmodel) (objcls : cls -> bool) (M : mworld) : Prop :=
  forall o oc a d, sub C (otype M o) oc = true -> f_type C oc a = Some d ->
    if f_iter C oc a
    then exists xs, attr (mw M) o a = VLO xs /\ forall x, In x xs -> sub C (otype M x) d = true
    else if objcls d
         then exists o', attr (mw M) o a = VO o' /\ sub C (otype M o') d = true
         else f_bcoll C oc a = true \/ is_coll (attr (mw M) o a) = false.

(* ------------------------------------------------------------------ concrete cases (record in MatchSpecShow.v) *)
Definition nmemb' := nmemb.
Fixpoint find_field (l : list (nat * nat * bool * nat)) (oc a : nat) : option (bool * nat) :=
  match l with
  | [] => None
  | (oc', a', it, d) :: l' => if Nat.eqb oc oc' && Nat.eqb a a' then Some (it, d) else find_field l' oc a
  end.

Definition case_cmodel (c : mcase) : cmodel :=
  {| sub := pair_mem (c_sub c);
     f_iter := fun oc a => match find_field (c_fields c) oc a with Some (it, _) => it | None => false end;
     f_type := fun oc a => match find_field (c_fields c) oc a with Some (_, d) => Some d | None => None end;
     f_opt := pair_mem (c_opt c);
     f_bcoll := pair_mem (c_bcoll c) |}.
Definition case_objcls (c : mcase) : cls -> bool := fun d => nmemb d (c_objcls c).

(* boolean versions of the hypotheses over the finite data of a case *)
Definition all_classes (c : mcase) : list nat := map fst (c_sub c) ++ map snd (c_sub c).
Definition sub_refl_b (c : mcase) : bool :=
  forallb (fun k => pair_mem (c_sub c) k k) (all_classes c ++ map snd (c_types c) ++ map (fun f : nat * nat * bool * nat => snd f) (c_fields c)).
Definition sub_trans_b (c : mcase) : bool :=
  forallb (fun p : nat * nat => forallb (fun q : nat * nat =>
     if Nat.eqb (snd p) (fst q) then pair_mem (c_sub c) (fst p) (snd q) else true) (c_sub c)) (c_sub c).
Definition typed_b (c : mcase) : bool :=
  let Cm := case_cmodel c in let M := case_world c in
  forallb (fun ot : Z * nat =>
    forallb (fun f : nat * nat * bool * nat =>
      match f with (oc, a, it, d) =>
        if sub Cm (snd ot) oc then
          match attr (mw M) (fst ot) a with
          | VLO xs => it && forallb (fun x => sub Cm (otype M x) d) xs
          | VO o' => negb it && case_objcls c d && sub Cm (otype M o') d
          | VI _ => negb it && negb (case_objcls c d)
          | VLI _ => negb it && negb (case_objcls c d) && pair_mem (c_bcoll c) oc a
          end
        else true
      end) (c_fields c)) (c_types c).
Fixpoint nodup_b (l : list Z) : bool :=
  match l with [] => true | x :: l' => negb (existsb (Z.eqb x) l') && nodup_b l' end.

(* the outcome of the model: the set of identities returned, or [-1; 940] for TypeError (940 = sum of the character
   codes of "TypeError", the harness's encoding of an exception) *)
Definition model_out (c : mcase) : sx :=
  if build_raises (case_cmodel c) (c_T c) (c_pat c) then SL [SZ (-1); SZ 2129]     (* NoneWrappedFieldError *)
  else if run_araises (case_cmodel c) (case_world c) (c_T c) (c_pat c) (c_dom c) then SL [SZ (-1); SZ 1470]   (* AttributeError *)
  else if run_raises (case_cmodel c) (case_world c) (c_T c) (c_pat c) (c_dom c) then SL [SZ (-1); SZ 940]
  else zset (run (case_cmodel c) (case_world c) (c_T c) (c_pat c) (c_dom c)).
(* objects that are not listed have class 0, which must not be related to any class *)
(* no attribute value is None (object 0), no collection holds it, it is not in the domain *)
Definition nonone_v (v : val) : bool :=
  match v with VO o => negb (Z.eqb o 0) | VLO xs => negb (existsb (Z.eqb 0) xs) | _ => true end.
Definition nonone_b (c : mcase) : bool :=
  forallb (fun row : Z * Z * list (nat * val) => forallb (fun av : nat * val => nonone_v (snd av)) (snd row)) (c_world c)
  && negb (existsb (Z.eqb 0) (c_dom c)).
Definition no_none (M : mworld) (dom : list Z) : Prop :=
  (forall o a, nonone_v (attr (mw M) o a) = true) /\ ~ In 0%Z dom.
Definition class0_b (c : mcase) : bool := forallb (fun p : nat * nat => negb (Nat.eqb (fst p) 0)) (c_sub c).
Definition in_F (c : mcase) : bool :=
  F11 (case_cmodel c) (case_objcls c) (c_T c) (c_pat c) && sub_trans_b c && typed_b c && class0_b c && nonone_b c.
Definition model_rows_out (c : mcase) : sx :=
  if build_raises (case_cmodel c) (c_T c) (c_pat c) then SL [SZ (-1); SZ 2129]
  else if run_araises (case_cmodel c) (case_world c) (c_T c) (c_pat c) (c_dom c) then SL [SZ (-1); SZ 1470]
  else if run_raises (case_cmodel c) (case_world c) (c_T c) (c_pat c) (c_dom c) then SL [SZ (-1); SZ 940]
  else rows_set (run_rows (case_cmodel c) (case_world c) (c_rootsel c) (c_T c) (c_pat c) (c_dom c)).
Definition lax_out (c : mcase) : sx := zset (lax_run (case_cmodel c) (case_world c) (c_T c) (c_pat c) (c_dom c)).
Definition in_Flax (c : mcase) : bool :=
  F11lax (case_cmodel c) (case_objcls c) (c_T c) (c_pat c) && sub_trans_b c && typed_b c && class0_b c && nonone_b c.
(* what the harness asks for per case: model answer, Spec answer, inside F11?, number of conditions emitted *)
Definition case_out (c : mcase) : sx :=
  SL [model_out c; spec_out c; SB (in_F c); SN (length (tr_alist (case_cmodel c) (c_T c) PRoot (c_pat c)));
      lax_out c; SB (in_Flax c); model_rows_out c; spec_rows_out c].
