(* C08 proofs for the ONE-variable evaluator (RuleEval.v): EVERY tree (ExceptIf / ElseIf / Next anywhere).
   Evaluated with x bound a tree yields a SEQUENCE of rows (Next up to two per row of its operands); [pes1] is the pure
   reading of that sequence, [o_Inner] states that the continuation is called exactly on these rows, in order, and that
   between the calls only scratch cells of the tree's own nodes change.
   (Same development as RuleEval2MultiProofs.v for the two-variable evaluator; the stores differ.) *)
From Coq Require Import List ZArith Bool Arith Lia.
From Krrood Require Import Eql.RuleSpec Eql.RuleEval Eql.RuleBuild Eql.RulePure Eql.RuleEvalProofs.
Import ListNotations.

(* ---- store algebra ---- *)
Lemma getb_setb_diff f n f' n' b S : (f' <> f \/ n' <> n) -> getb f n (setb f' n' b S) = getb f n S.
Proof. intros H. unfold getb. rewrite get_setb_diff by exact H. reflexivity. Qed.

(* S' agrees with S except on the cells of the nodes in P *)
Definition same_but (P : nat -> Prop) (S S' : store) : Prop :=
  out S' = out S /\ seen S' = seen S /\ rootsel S' = rootsel S /\
  forall f n, ~ P n -> get f n S' = get f n S.
Lemma sb_refl P S : same_but P S S.
Proof. split; [reflexivity|split; [reflexivity|split; [reflexivity|]]]. reflexivity. Qed.
Lemma sb_trans (P : nat -> Prop) S S1 S2 : same_but P S S1 -> same_but P S1 S2 -> same_but P S S2.
Proof.
  intros [A1 [A2 [A3 A4]]] [B1 [B2 [B3 B4]]]. split; [congruence|split; [congruence|split; [congruence|]]].
  intros f n Hn. rewrite B4, A4; auto.
Qed.
Lemma sb_mono (P Q : nat -> Prop) S S' : (forall n, P n -> Q n) -> same_but P S S' -> same_but Q S S'.
Proof. intros H [A1 [A2 [A3 A4]]]. split; [exact A1|split; [exact A2|split; [exact A3|]]]. intros f n Hn. apply A4. intro. apply Hn. auto. Qed.
Lemma sb_set (P : nat -> Prop) f n v S : P n -> same_but P S (set f n v S).
Proof. intros H. split; [reflexivity|split; [reflexivity|split; [reflexivity|]]]. intros f' n' Hn. apply get_set_diff. right. intro E. subst. contradiction. Qed.
Lemma sb_setb (P : nat -> Prop) f n b S : P n -> same_but P S (setb f n b S).
Proof. apply sb_set. Qed.
Lemma sb_get (P : nat -> Prop) S S' f n : same_but P S S' -> ~ P n -> get f n S' = get f n S.
Proof. intros [_ [_ [_ H]]] Hn. apply H. exact Hn. Qed.
Lemma sb_getb (P : nat -> Prop) S S' f n : same_but P S S' -> ~ P n -> getb f n S' = getb f n S.
Proof. intros H Hn. unfold getb. rewrite (sb_get P S S' f n H Hn). reflexivity. Qed.
Lemma sb_root (P : nat -> Prop) S S' : same_but P S S' -> rootsel S' = rootsel S.
Proof. intros [_ [_ [H _]]]. exact H. Qed.

(* an inner selector only proposes *)
Lemma uc_inner id i c S : id <> rootsel S ->
  same_but (fun n => n = id) S (update_conclusion id i c S) /\
  get DYN id (update_conclusion id i c S) = union (get DYN id S) c /\
  forall f, f <> DYN -> get f id (update_conclusion id i c S) = get f id S.
Proof.
  intros H. unfold update_conclusion. destruct c as [|x c].
  - split; [apply sb_refl|]. split; reflexivity.
  - apply Nat.eqb_neq in H. rewrite H. split; [apply sb_set; reflexivity|]. split.
    + apply get_set_same.
    + intros f Hf. apply get_set_diff. left. congruence.
Qed.
Lemma uc_cell id i c S f n : (f <> DYN \/ n <> id) -> get f n (update_conclusion id i c S) = get f n S.
Proof.
  intros H. unfold update_conclusion. destruct c; [reflexivity|]. destruct (Nat.eqb id (rootsel S)).
  - destruct (seenb _ _ _ _ _); [reflexivity|]. unfold add_seen. change (get f n (set DYN id (union (get DYN id S) (n0 :: c)) S) = get f n S).
    apply get_set_diff. destruct H; [left|right]; congruence.
  - apply get_set_diff. destruct H; [left|right]; congruence.
Qed.

Section Obs.
  Variable W : list elem.
  Variable A : Type.
  Variable obs : store -> A.

  (* an observation that neither the tree's own writes nor the continuation change *)
  Lemma ev_obs t : forall b k S,
      (forall n, In n (ids t) -> forall f v S, obs (set f n v S) = obs S) ->
      (forall e S, obs (add_seen e S) = obs S) ->
      (forall B f S, obs (k B f S) = obs S) ->
      obs (ev W t b k S) = obs S.
  Proof.
    induction t as [id cs c | id s l IHl r IHr]; intros b k S Hset Hadd Hk.
    - assert (Hid : forall f v S, obs (set f id v S) = obs S) by (intros; apply Hset; simpl; auto).
      cbn [ev]. destruct b as [B|].
      + rewrite Hk. apply Hid.
      + generalize (enum W) S. intros L. induction L as [|ic L IHL]; intros S0; cbn [fold_left]; [reflexivity|].
        rewrite IHL. rewrite Hk. apply Hid.
    - assert (Hid : forall f v S, obs (set f id v S) = obs S) by (intros; apply Hset; simpl; auto).
      assert (Hsl : forall n, In n (ids l) -> forall f v S, obs (set f n v S) = obs S)
        by (intros n Hn; apply Hset; simpl; right; apply in_or_app; auto).
      assert (Hsr : forall n, In n (ids r) -> forall f v S, obs (set f n v S) = obs S)
        by (intros n Hn; apply Hset; simpl; right; apply in_or_app; auto).
      assert (Huc : forall (B : binding) c S, obs (update_conclusion id (fst B) c S) = obs S).
      { intros B c S0. unfold update_conclusion. destruct c; [reflexivity|]. destruct (Nat.eqb id (rootsel S0)).
        - destruct (seenb _ _ _ _ _); [reflexivity|]. rewrite Hadd. apply Hid.
        - apply Hid. }
      assert (Hyu : forall B c S, obs (yield_upd id B c k S) = obs S).
      { intros B c S0. unfold yield_upd. rewrite Hid, Hk. apply Huc. }
      assert (Hpost : forall s0 B S, obs (sel_post s0 id l r k B S) = obs S).
      { intros s0 B S0. unfold sel_post. rewrite Hid, Hk. destruct s0.
        - destruct (getb REV id _); [rewrite Huc|]; (destruct (getb LEV id S0); [apply Huc|reflexivity]).
        - destruct (negb _); [apply Huc|]. destruct (negb _); [apply Huc|reflexivity].
        - destruct (getb REV id _); [rewrite Huc|]; (destruct (getb LEV id S0); [apply Huc|reflexivity]). }
      assert (Her : forall s0 src S, obs (setb REV id false (ev W r src
                     (fun B fr S' => sel_post s0 id l r k B (setb REV id true (setb FLAG id fr S'))) (setb LEV id false S))) = obs S).
      { intros s0 src S0. unfold setb at 1. rewrite Hid. rewrite IHr; auto.
        - apply Hid.
        - intros B fr S'. rewrite Hpost. unfold setb. rewrite !Hid. reflexivity. }
      assert (Hel : forall s0 S, obs (ev W l b (fun B fl S' =>
                     if fl then setb REV id false (ev W r (Some B)
                                  (fun B fr S' => sel_post s0 id l r k B (setb REV id true (setb FLAG id fr S')))
                                  (setb LEV id false (setb LEV id true S')))
                     else sel_post s0 id l r k B (setb FLAG id false (setb LEV id true S'))) S) = obs S).
      { intros s0 S0. apply IHl; auto. intros B fl S'. destruct fl.
        - rewrite Her. apply Hid.
        - rewrite Hpost. unfold setb. rewrite !Hid. reflexivity. }
      destruct s.
      + cbn [ev]. apply IHl; auto. intros B fl S1. destruct fl.
        * rewrite Hk. apply Hid.
        * match goal with |- obs (if getb RY id ?S3 then _ else _) = _ => assert (H3 : obs S3 = obs S1) end.
          { rewrite IHr; auto.
            - unfold setb. rewrite !Hid. reflexivity.
            - intros B' f' S'. destruct f'; [reflexivity|]. rewrite Hyu. apply Hid. }
          destruct (getb RY id _).
          -- rewrite Hid. exact H3.
          -- rewrite Hyu, Hid. exact H3.
      + cbn [ev]. apply Hel.
      + cbn [ev]. unfold setb at 1. rewrite Hid. rewrite IHr; auto.
        * unfold setb at 1. rewrite Hid. apply Hel.
        * intros B fr S'. destruct fr.
          -- unfold setb. rewrite !Hid. reflexivity.
          -- rewrite Hpost. unfold setb. rewrite !Hid. reflexivity.
  Qed.
End Obs.

(* ---- the pure reading: the sequence of rows ---- *)
Definition row1 := (bool * list nat * binding)%type.
Definition rtrue (x : row1) : bool := negb (fst (fst x)).
Definition norm (x : row1) : row1 := (fst (fst x), union [] (snd (fst x)), snd x).

(* rows a selector lets through, with the conclusions it selects (before they are merged into its own set); on false
   rows the conclusions are irrelevant *)
Definition raws_exc (L : list row1) (R : binding -> list row1) : list row1 :=
  flat_map (fun x : row1 => if fst (fst x) then [((true, @nil nat, snd x) : row1)]
                     else match filter rtrue (R (snd x)) with
                          | [] => [(false, snd (fst x), snd x)]
                          | T => T
                          end) L.
Definition raws_alt (L : list row1) (R : binding -> list row1) : list row1 :=
  flat_map (fun x : row1 => if fst (fst x) then R (snd x) else [(false, snd (fst x), snd x)]) L.
Definition raws (s : sel) (L : list row1) (R : binding -> list row1) (R2 : list row1) : list row1 :=
  match s with
  | SExc => raws_exc L R
  | SAlt => raws_alt L R
  | SNext => raws_alt L R ++ filter rtrue R2
  end.

Section Pes.
  Variable W : list elem.
  (* the rows of a tree for a source: x bound (Some ie), or the whole domain (None) *)
  Fixpoint pes1 (t : tree) (b : option binding) : list row1 :=
    match t with
    | Leaf _ cs c =>
        match b with
        | Some B => [(negb (holds (snd B) cs), c, B)]
        | None => map (fun B : binding => (negb (holds (snd B) cs), c, B)) (enum W)
        end
    | Node _ s l r => map norm (raws s (pes1 l b) (fun B => pes1 r (Some B)) (pes1 r b))
    end.
End Pes.

(* ---- sequences of calls of the continuation ---- *)
Section Seg.
  Variable P : nat -> Prop.
  Variable k : K.

  (* inner form: at each call the tree's root flag and (on true rows) its conclusions are those of the row *)
  Fixpoint SegI (rid : nat) (cn : store -> list nat) (rows : list row1) (S Send : store) : Prop :=
    match rows with
    | [] => same_but P S Send
    | x :: rest => exists S1, same_but P S S1 /\ getb FLAG rid S1 = fst (fst x) /\
                              (fst (fst x) = false -> cn S1 = snd (fst x)) /\
                              SegI rid cn rest (k (snd x) (fst (fst x)) S1) Send
    end.
  (* raw form for a selector node: every row passes through update_conclusion exactly once *)
  Fixpoint SegR (id : nat) (rows : list row1) (S Send : store) : Prop :=
    match rows with
    | [] => same_but P S Send
    | x :: rest => exists S' cx, same_but P S S' /\ getb FLAG id S' = fst (fst x) /\ get DYN id S' = [] /\
                                 (fst (fst x) = false -> cx = snd (fst x)) /\
                                 SegR id rest (k (snd x) (getb FLAG id (update_conclusion id (fst (snd x)) cx S'))
                                                 (update_conclusion id (fst (snd x)) cx S')) Send
    end.

  Lemma segI_pre rid cn rows S S' Send : same_but P S S' -> SegI rid cn rows S' Send -> SegI rid cn rows S Send.
  Proof.
    destruct rows as [|x rest]; cbn [SegI]; intros H H'.
    - eapply sb_trans; eauto.
    - destruct H' as [S1 [A B]]. exists S1. split; [eapply sb_trans; eauto|exact B].
  Qed.
  Lemma segR_pre id rows S S' Send : same_but P S S' -> SegR id rows S' Send -> SegR id rows S Send.
  Proof.
    destruct rows as [|x rest]; cbn [SegR]; intros H H'.
    - eapply sb_trans; eauto.
    - destruct H' as [S1 [cx [A B]]]. exists S1, cx. split; [eapply sb_trans; eauto|exact B].
  Qed.
  Lemma segR_post id rows : forall S Send Send', SegR id rows S Send -> same_but P Send Send' -> SegR id rows S Send'.
  Proof.
    induction rows as [|x rest IH]; cbn [SegR]; intros S Send Send' H H'.
    - eapply sb_trans; eauto.
    - destruct H as [S1 [cx [A [B [C [D E]]]]]]. exists S1, cx. repeat (split; [assumption|]). eapply IH; eauto.
  Qed.
  Lemma segR_app id a : forall b S Smid Send, SegR id a S Smid -> SegR id b Smid Send -> SegR id (a ++ b) S Send.
  Proof.
    induction a as [|x rest IH]; cbn [SegR app]; intros b S Smid Send H H'.
    - eapply segR_pre; eauto.
    - destruct H as [S1 [cx [A [B [C [D E]]]]]]. exists S1, cx. repeat (split; [assumption|]). eapply IH; eauto.
  Qed.
End Seg.

Lemma segI_mono (P Q : nat -> Prop) k rid cn rows : (forall n, P n -> Q n) ->
  forall S Send, SegI P k rid cn rows S Send -> SegI Q k rid cn rows S Send.
Proof.
  intros HPQ. induction rows as [|x rest IH]; cbn [SegI]; intros S Send H.
  - eapply sb_mono; eauto.
  - destruct H as [S1 [A [B [C D]]]]. exists S1. split; [eapply sb_mono; eauto|]. auto.
Qed.

Definition Pre (t : tree) (S : store) : Prop := forall n, In n (ids t) -> get DYN n S = [] /\ get REV n S = [].
Definition kgood (P : nat -> Prop) (k : K) : Prop :=
  keeps P k /\ forall B f S, rootsel (k B f S) = rootsel S.


Section Inner.
  Variable W : list elem.

  Definition Inner (t : tree) : Prop :=
    forall b k S, ~ In (rootsel S) (ids t) -> Pre t S -> kgood (inT t) k ->
      SegI (inT t) k (root_id t) (concl_now t) (pes1 W t b) S (ev W t b k S) /\
      Pre t (ev W t b k S).
  Definition Raw (id : nat) (s : sel) (l r : tree) : Prop :=
    forall b k S, ~ In (rootsel S) (ids l) -> ~ In (rootsel S) (ids r) ->
      Pre (Node id s l r) S -> kgood (inT (Node id s l r)) k ->
      SegR (inT (Node id s l r)) k id (raws s (pes1 W l b) (fun B => pes1 W r (Some B)) (pes1 W r b)) S
        (ev W (Node id s l r) b k S) /\
      Pre (Node id s l r) (ev W (Node id s l r) b k S).

  Lemma leaf_seg id cs c : forall b k S, Pre (Leaf id cs c) S -> kgood (inT (Leaf id cs c)) k ->
      SegI (inT (Leaf id cs c)) k id (concl_now (Leaf id cs c)) (pes1 W (Leaf id cs c) b) S
        (ev W (Leaf id cs c) b k S) /\
      Pre (Leaf id cs c) (ev W (Leaf id cs c) b k S).
  Proof.
    intros b k S Hpre [Hk Hkr]. cbn [ev pes1 root_id].
    assert (Hin : inT (Leaf id cs c) id) by (red; simpl; auto).
    assert (Hgen : forall (L : list binding) S0, Pre (Leaf id cs c) S0 ->
               let step := fun (S : store) (x : binding) => k x (negb (holds (snd x) cs)) (setb FLAG id (negb (holds (snd x) cs)) S) in
               SegI (inT (Leaf id cs c)) k id (concl_now (Leaf id cs c))
                 (map (fun x : binding => (negb (holds (snd x) cs), c, x)) L) S0 (fold_left step L S0) /\
               Pre (Leaf id cs c) (fold_left step L S0)).
    { induction L as [|x L IHL]; intros S0 Hp0 step.
      - split; [apply sb_refl|exact Hp0].
      - cbn [map fold_left SegI fst snd].
        assert (Hp1 : Pre (Leaf id cs c) (step S0 x)).
        { intros n Hn. destruct Hn as [<-|[]]. unfold step. rewrite !(Hk _ _ _ _ id Hin).
          rewrite !get_setb_diff by (left; unfold FLAG, DYN, REV; lia). apply Hp0. simpl. auto. }
        destruct (IHL (step S0 x) Hp1) as [I1 I2]. split; [|exact I2].
        exists (setb FLAG id (negb (holds (snd x) cs)) S0). split; [apply sb_setb; exact Hin|]. split; [apply getb_setb_same|].
        split; [reflexivity|]. exact I1. }
    destruct b as [B|].
    - exact (Hgen [B] S Hpre).
    - exact (Hgen (enum W) S Hpre).
  Qed.
  Lemma inner_leaf id cs c : Inner (Leaf id cs c).
  Proof. intros b k S _ Hpre Hk. apply leaf_seg; assumption. Qed.

  (* an inner selector only proposes: the raw form gives the inner form *)
  Lemma segR_segI (P : nat -> Prop) k id : P id -> kgood P k ->
    forall rows S Send, id <> rootsel S -> SegR P k id rows S Send ->
      SegI P k id (fun S => get DYN id S) (map norm rows) S Send.
  Proof.
    intros HP [Hk Hkr]. induction rows as [|x rest IH]; cbn [SegR SegI map]; intros S Send Hne H; [exact H|].
    destruct H as [S' [cx [A [Bf [C [D E]]]]]].
    assert (Hne' : id <> rootsel S') by (rewrite (sb_root _ _ _ A); exact Hne).
    destruct (uc_inner id (fst (snd x)) cx S' Hne') as [HUsb [HUdyn HUother]].
    set (U := update_conclusion id (fst (snd x)) cx S') in *.
    assert (HUflag : getb FLAG id U = fst (fst x)).
    { unfold getb. rewrite HUother by (unfold FLAG, DYN; lia). exact Bf. }
    exists U. split; [|split; [exact HUflag|split]].
    - eapply sb_trans; [exact A|]. eapply sb_mono; [|exact HUsb]. intros n ->. exact HP.
    - intros Hf. unfold norm. cbn [fst snd]. rewrite HUdyn, C, (D Hf). reflexivity.
    - unfold norm at 1 2. cbn [fst snd]. rewrite HUflag in E. apply IH; [|exact E].
      rewrite Hkr. unfold U. rewrite uc_rootsel. exact Hne'.
  Qed.

  Lemma raw_inner id s l r : Raw id s l r -> Inner (Node id s l r).
  Proof.
    intros H b k S Hroot Hpre Hk.
    assert (Hrl : ~ In (rootsel S) (ids l)) by (intro; apply Hroot; simpl; right; apply in_or_app; auto).
    assert (Hrr : ~ In (rootsel S) (ids r)) by (intro; apply Hroot; simpl; right; apply in_or_app; auto).
    assert (Hrid : id <> rootsel S) by (intro E; apply Hroot; rewrite <- E; simpl; auto).
    destruct (H b k S Hrl Hrr Hpre Hk) as [H1 H2]. split; [|exact H2].
    cbn [pes1 root_id]. change (concl_now (Node id s l r)) with (fun S => get DYN id S).
    apply segR_segI; auto. red. simpl. auto.
  Qed.
End Inner.

Lemma node_facts id s l r : NoDup (ids (Node id s l r)) ->
  ~ In id (ids l) /\ ~ In id (ids r) /\ (forall n, In n (ids l) -> ~ In n (ids r)) /\ NoDup (ids l) /\ NoDup (ids r).
Proof.
  intros Hnd. cbn [ids] in Hnd. apply NoDup_cons_iff in Hnd. destruct Hnd as [Hid Hnd].
  split; [intro; apply Hid, in_or_app; auto|]. split; [intro; apply Hid, in_or_app; auto|].
  split; [apply nodup_app_disj; exact Hnd|]. split; [eapply nodup_app_l; eauto|eapply nodup_app_r; eauto].
Qed.

Lemma filter_none {A} (f : A -> bool) l : existsb f l = false -> filter f l = [].
Proof.
  induction l as [|x l IH]; [reflexivity|]. simpl. intros H. apply orb_false_iff in H. destruct H as [H1 H2].
  rewrite H1. auto.
Qed.
Lemma filter_some {A} (f : A -> bool) l : existsb f l = true -> filter f l <> [].
Proof.
  induction l as [|x l IH]; [discriminate|]. simpl. intros H. destruct (f x); [discriminate|]. apply IH. exact H.
Qed.

(* ---- ExceptIf over sequences of rows ---- *)
Section ExcNode.
  Variable W : list elem.
  Variables (id : nat) (l r : tree).
  Hypothesis Hl : Inner W l.
  Hypothesis Hr : Inner W r.
  Hypothesis Hnd : NoDup (ids (Node id SExc l r)).
  Let t := Node id SExc l r.
  Variable k : K.
  Variable rs : nat.
  Hypothesis Hk : kgood (inT t) k.
  Hypothesis Hrsl : ~ In rs (ids l).
  Hypothesis Hrsr : ~ In rs (ids r).

  Let Hidl : ~ In id (ids l) := proj1 (node_facts _ _ _ _ Hnd).
  Let Hidr : ~ In id (ids r) := proj1 (proj2 (node_facts _ _ _ _ Hnd)).
  Let Hlr : forall n, In n (ids l) -> ~ In n (ids r) := proj1 (proj2 (proj2 (node_facts _ _ _ _ Hnd))).

  Definition excK' : K :=
    fun B' f' S' => if f' then S' else yield_upd id B' (concl_now r S') k (setb RY id true S').
  Definition excKK : K :=
    fun B fl S1 =>
      if fl then k B true (setb FLAG id fl S1)
      else
        let S3 := ev W r (Some B) excK' (setb RY id false (setb FLAG id fl S1)) in
        let S4 := set RY id (get RY id (setb FLAG id fl S1)) S3 in
        if getb RY id S3 then S4 else yield_upd id B (concl_now l S4) k S4.
  Lemma ev_exc_unfold b S : ev W t b k S = ev W l b excKK S.
  Proof. reflexivity. Qed.

  Lemma kt_id B f S f' : get f' id (k B f S) = get f' id S.
  Proof. apply (proj1 Hk). red. simpl. auto. Qed.
  Lemma kt_l B f S f' n : In n (ids l) -> get f' n (k B f S) = get f' n S.
  Proof. intros H. apply (proj1 Hk). red. simpl. right. apply in_or_app. auto. Qed.
  Lemma kt_r B f S f' n : In n (ids r) -> get f' n (k B f S) = get f' n S.
  Proof. intros H. apply (proj1 Hk). red. simpl. right. apply in_or_app. auto. Qed.

  Section ObsK.
    Variable A : Type.
    Variable obs : store -> A.
    Hypothesis Oid : forall f v S, obs (set f id v S) = obs S.
    Hypothesis Or : forall n, In n (ids r) -> forall f v S, obs (set f n v S) = obs S.
    Hypothesis Oadd : forall e S, obs (add_seen e S) = obs S.
    Hypothesis Ok : forall B f S, obs (k B f S) = obs S.
    Lemma obs_uc (B : binding) c S : obs (update_conclusion id (fst B) c S) = obs S.
    Proof.
      unfold update_conclusion. destruct c; [reflexivity|]. destruct (Nat.eqb id (rootsel S)).
      - destruct (seenb _ _ _ _ _); [reflexivity|]. rewrite Oadd. apply Oid.
      - apply Oid.
    Qed.
    Lemma obs_yu B c S : obs (yield_upd id B c k S) = obs S.
    Proof. unfold yield_upd. rewrite Oid, Ok. apply obs_uc. Qed.
    Lemma obs_excK' B f S : obs (excK' B f S) = obs S.
    Proof. unfold excK'. destruct f; [reflexivity|]. rewrite obs_yu. apply Oid. Qed.
    Lemma obs_excKK B f S : obs (excKK B f S) = obs S.
    Proof.
      unfold excKK. destruct f.
      - rewrite Ok. apply Oid.
      - assert (H3 : obs (ev W r (Some B) excK' (setb RY id false (setb FLAG id false S))) = obs S).
        { rewrite (ev_obs W A obs r); auto.
          - unfold setb. rewrite !Oid. reflexivity.
          - intros. apply obs_excK'. }
        cbv zeta. destruct (getb RY id _).
        + rewrite Oid. exact H3.
        + rewrite obs_yu, Oid. exact H3.
    Qed.
  End ObsK.

  Lemma excK'_good : kgood (inT r) excK'.
  Proof.
    split.
    - intros B f S f' n Hn. red in Hn. apply (obs_excK' _ (fun S => get f' n S)).
      + intros. apply get_set_diff. right. intro; subst; contradiction.
      + reflexivity.
      + intros. apply kt_r. exact Hn.
    - intros B f S. apply (obs_excK' _ rootsel); try reflexivity. apply (proj2 Hk).
  Qed.
  Lemma excKK_good : kgood (inT l) excKK.
  Proof.
    split.
    - intros B f S f' n Hn. red in Hn. apply (obs_excKK _ (fun S => get f' n S)).
      + intros. apply get_set_diff. right. intro; subst; contradiction.
      + intros m Hm f0 v S0. apply get_set_diff. right. intro; subst. exact (Hlr _ Hn Hm).
      + reflexivity.
      + intros. apply kt_l. exact Hn.
    - intros B f S. apply (obs_excKK _ rootsel); try reflexivity. apply (proj2 Hk).
  Qed.

  Definition Jx (S : store) : Prop :=
    get DYN id S = [] /\ get REV id S = [] /\ Pre r S /\ rootsel S = rs.
  Lemma Jx_sb (Q : nat -> Prop) S S' : same_but Q S S' -> (forall n, Q n -> n <> id /\ ~ In n (ids r)) -> Jx S -> Jx S'.
  Proof.
    intros Hsb HQ [J1 [J2 [J3 J4]]].
    assert (Hid : ~ Q id) by (intro H; destruct (HQ _ H); congruence).
    split; [rewrite (sb_get _ _ _ _ _ Hsb Hid); exact J1|]. split; [rewrite (sb_get _ _ _ _ _ Hsb Hid); exact J2|].
    split; [|rewrite (sb_root _ _ _ Hsb); exact J4].
    intros n Hn. assert (Hq : ~ Q n) by (intro H; destruct (HQ _ H); contradiction).
    rewrite !(sb_get _ _ _ _ _ Hsb Hq). apply J3. exact Hn.
  Qed.
  Lemma Jx_k B f S : Jx S -> Jx (k B f S).
  Proof.
    intros [J1 [J2 [J3 J4]]]. split; [rewrite kt_id; exact J1|]. split; [rewrite kt_id; exact J2|].
    split; [|rewrite (proj2 Hk); exact J4]. intros n Hn. rewrite !kt_r by exact Hn. apply J3. exact Hn.
  Qed.

  Definition Jr (S1 : store) (b : bool) (S : store) : Prop :=
    getb FLAG id S = false /\ get DYN id S = [] /\ get REV id S = [] /\ getb RY id S = b /\ rootsel S = rs /\
    forall f n, In n (ids l) -> get f n S = get f n S1.

  Lemma exc_rrows S1 : forall rowsR b S Send, Jr S1 b S ->
    SegI (inT r) excK' (root_id r) (concl_now r) rowsR S Send ->
    SegR (inT t) k id (filter rtrue rowsR) S Send /\ Jr S1 (b || existsb rtrue rowsR) Send.
  Proof.
    assert (Hmr : forall n, inT r n -> inT t n) by (intros n Hn; red; simpl; right; apply in_or_app; auto).
    assert (Hti : inT t id) by (red; simpl; auto).
    assert (Jr_sb : forall b S S', same_but (inT r) S S' -> Jr S1 b S -> Jr S1 b S').
    { intros b S S' Hsb [A1 [A2 [A3 [A4 [A5 A6]]]]].
      split; [rewrite (sb_getb _ _ _ _ _ Hsb Hidr); exact A1|]. split; [rewrite (sb_get _ _ _ _ _ Hsb Hidr); exact A2|].
      split; [rewrite (sb_get _ _ _ _ _ Hsb Hidr); exact A3|]. split; [rewrite (sb_getb _ _ _ _ _ Hsb Hidr); exact A4|].
      split; [rewrite (sb_root _ _ _ Hsb); exact A5|]. intros f n Hn. rewrite (sb_get _ _ _ _ _ Hsb (Hlr _ Hn)). apply A6. exact Hn. }
    induction rowsR as [|y rest IH]; intros b S Send HJ H.
    - cbn [SegI] in H. cbn [filter existsb SegR]. rewrite orb_false_r. split; [apply (sb_mono _ _ _ _ Hmr H)|apply (Jr_sb _ _ _ H HJ)].
    - cbn [SegI] in H. destruct H as [S1r [A [Bf [C D]]]]. pose proof (Jr_sb _ _ _ A HJ) as HJ1.
      destruct y as [[fr cr] Br]. cbn [fst snd] in *. destruct fr.
      + (* a false row of the exception: consumed *)
        cbn [filter rtrue existsb fst negb]. unfold excK' in D at 2. cbv beta iota in D.
        destruct (IH b S1r Send HJ1 D) as [I1 I2]. split; [|exact I2].
        eapply segR_pre; [apply (sb_mono _ _ _ _ Hmr A)|exact I1].
      + (* the exception holds: its conclusion is yielded *)
        cbn [filter rtrue existsb fst negb]. rewrite orb_true_r.
        unfold excK' in D at 2. cbv beta iota in D. rewrite (C eq_refl) in D. unfold yield_upd in D.
        set (S' := setb RY id true S1r) in *.
        set (U := update_conclusion id (fst Br) cr S') in *.
        destruct HJ1 as [A1 [A2 [A3 [A4 [A5 A6]]]]].
        assert (HS'flag : getb FLAG id S' = false) by (unfold S'; rewrite getb_setb_diff by (left; unfold RY, FLAG; lia); exact A1).
        assert (HS'dyn : get DYN id S' = []) by (unfold S'; rewrite get_setb_diff by (left; unfold RY, DYN; lia); exact A2).
        assert (HJn : Jr S1 true (set DYN id [] (k Br (getb FLAG id U) U))).
        { split; [|split; [|split; [|split; [|split]]]].
          - unfold getb. rewrite get_set_diff by (left; unfold DYN, FLAG; lia). rewrite kt_id. unfold U.
            rewrite uc_cell by (left; unfold FLAG, DYN; lia). exact HS'flag.
          - apply get_set_same.
          - rewrite get_set_diff by (left; unfold DYN, REV; lia). rewrite kt_id. unfold U.
            rewrite uc_cell by (left; unfold REV, DYN; lia). unfold S'. rewrite get_setb_diff by (left; unfold RY, REV; lia). exact A3.
          - unfold getb. rewrite get_set_diff by (left; unfold DYN, RY; lia). rewrite kt_id. unfold U.
            rewrite uc_cell by (left; unfold RY, DYN; lia). unfold S', setb. rewrite get_set_same. reflexivity.
          - cbn [rootsel set]. rewrite (proj2 Hk). unfold U. rewrite uc_rootsel. exact A5.
          - intros f n Hn. assert (n <> id) by (intro; subst; contradiction).
            rewrite get_set_diff by (right; congruence). rewrite kt_l by exact Hn. unfold U.
            rewrite uc_cell by (right; assumption). unfold S'. rewrite get_setb_diff by (right; congruence). apply A6. exact Hn. }
        destruct (IH true _ Send HJn D) as [I1 I2]. split; [|exact I2].
        cbn [SegR fst snd]. exists S', cr. split; [|split; [exact HS'flag|split; [exact HS'dyn|split; [reflexivity|]]]].
        * eapply sb_trans; [apply (sb_mono _ _ _ _ Hmr A)|]. apply sb_setb. exact Hti.
        * fold U. eapply segR_pre; [|exact I1]. apply sb_set. exact Hti.
  Qed.

  Definition exc_g (x : row1) : list row1 :=
    if fst (fst x) then [((true, @nil nat, snd x) : row1)]
    else match filter rtrue (pes1 W r (Some (snd x))) with
         | [] => [(false, snd (fst x), snd x)]
         | T => T
         end.

  Lemma exc_row x S1 : Jx S1 -> getb FLAG (root_id l) S1 = fst (fst x) ->
    (fst (fst x) = false -> concl_now l S1 = snd (fst x)) ->
    SegR (inT t) k id (exc_g x) S1 (excKK (snd x) (fst (fst x)) S1) /\ Jx (excKK (snd x) (fst (fst x)) S1).
  Proof.
    assert (Hmr : forall n, inT r n -> inT t n) by (intros n Hn; red; simpl; right; apply in_or_app; auto).
    assert (Hti : inT t id) by (red; simpl; auto).
    intros HJ Hfl Hcl. destruct x as [[fl cl] Bl]. cbn [fst snd] in *. unfold exc_g. cbn [fst snd].
    destruct HJ as [J1 [J2 [J3 J4]]]. destruct fl.
    - (* the base does not hold *)
      unfold excKK. cbv iota. cbn [SegR fst snd]. split.
      + exists (setb FLAG id true S1), []. split; [apply sb_setb; exact Hti|]. split; [apply getb_setb_same|].
        split; [rewrite get_setb_diff by (left; unfold FLAG, DYN; lia); exact J1|]. split; [discriminate|].
        cbn [update_conclusion]. rewrite getb_setb_same. apply sb_refl.
      + apply Jx_k. split; [rewrite get_setb_diff by (left; unfold FLAG, DYN; lia); exact J1|].
        split; [rewrite get_setb_diff by (left; unfold FLAG, REV; lia); exact J2|]. split; [|exact J4].
        intros n Hn. rewrite !get_setb_diff by (right; intro; subst; contradiction). apply J3. exact Hn.
    - (* the base holds *)
      specialize (Hcl eq_refl). unfold excKK. cbv iota zeta.
      set (S2 := setb RY id false (setb FLAG id false S1)).
      assert (HS2 : same_but (fun n => n = id) S1 S2) by (unfold S2; eapply sb_trans; apply sb_setb; reflexivity).
      assert (HrS2 : ~ In (rootsel S2) (ids r)) by (rewrite (sb_root _ _ _ HS2), J4; exact Hrsr).
      assert (HpS2 : Pre r S2).
      { intros n Hn. rewrite !(sb_get _ _ _ _ _ HS2) by (intro; subst; contradiction). apply J3. exact Hn. }
      destruct (Hr (Some Bl) excK' S2 HrS2 HpS2 excK'_good) as [Hseg Hpre3].
      set (S3 := ev W r (Some Bl) excK' S2) in *.
      assert (HJr : Jr S1 false S2).
      { unfold S2. split; [rewrite getb_setb_diff by (left; unfold RY, FLAG; lia); apply getb_setb_same|].
        split; [rewrite !get_setb_diff by (left; unfold RY, FLAG, DYN; lia); exact J1|].
        split; [rewrite !get_setb_diff by (left; unfold RY, FLAG, REV; lia); exact J2|].
        split; [apply getb_setb_same|]. split; [exact J4|].
        intros f n Hn. rewrite !get_setb_diff by (right; intro; subst; contradiction). reflexivity. }
      destruct (exc_rrows S1 _ false S2 S3 HJr Hseg) as [HR HJ3]. cbn [orb] in HJ3.
      destruct HJ3 as [A1 [A2 [A3 [A4 [A5 A6]]]]]. rewrite A4.
      set (S4 := set RY id (get RY id (setb FLAG id false S1)) S3).
      assert (HS4 : same_but (inT t) S3 S4) by (apply sb_set; exact Hti).
      assert (HJx4 : Jx S4).
      { unfold S4. split; [rewrite get_set_diff by (left; unfold RY, DYN; lia); exact A2|].
        split; [rewrite get_set_diff by (left; unfold RY, REV; lia); exact A3|]. split; [|exact A5].
        intros n Hn. rewrite !get_set_diff by (right; intro; subst; contradiction). apply Hpre3. exact Hn. }
      destruct (existsb rtrue (pes1 W r (Some Bl))) eqn:Eex.
      + (* an exception held: nothing more *)
        pose proof (filter_some _ _ Eex) as Hne.
        destruct (filter rtrue (pes1 W r (Some Bl))) as [|y T] eqn:Ef; [congruence|].
        split; [|exact HJx4].
        eapply segR_pre; [apply (sb_mono (fun n => n = id)); [intros n ->; exact Hti|exact HS2]|].
        eapply segR_post; [exact HR|exact HS4].
      + (* no exception held: the rule's own conclusion *)
        rewrite (filter_none _ _ Eex) in *. cbn [SegR] in HR.
        assert (Hcl4 : concl_now l S4 = cl).
        { rewrite <- Hcl. apply concl_now_same. intros f n Hn. unfold S4.
          rewrite get_set_diff by (right; intro; subst; contradiction). apply A6. exact Hn. }
        rewrite Hcl4. unfold yield_upd.
        set (U := update_conclusion id (fst Bl) cl S4).
        assert (HS4flag : getb FLAG id S4 = false).
        { unfold getb, S4. rewrite get_set_diff by (left; unfold RY, FLAG; lia). exact A1. }
        split.
        * cbn [SegR fst snd]. exists S4, cl. split; [|split; [exact HS4flag|split; [exact (proj1 HJx4)|split; [reflexivity|]]]].
          -- eapply sb_trans; [apply (sb_mono (fun n => n = id)); [intros n ->; exact Hti|exact HS2]|].
             eapply sb_trans; [exact HR|exact HS4].
          -- fold U. cbn [SegR]. apply sb_set. exact Hti.
        * destruct HJx4 as [B1 [B2 [B3 B4]]].
          split; [apply get_set_same|]. split; [|split].
          -- rewrite get_set_diff by (left; unfold DYN, REV; lia). rewrite kt_id. unfold U.
             rewrite uc_cell by (left; unfold REV, DYN; lia). exact B2.
          -- intros n Hn. assert (n <> id) by (intro; subst; contradiction).
             rewrite !get_set_diff by (right; congruence). rewrite !kt_r by exact Hn. unfold U.
             rewrite !uc_cell by (right; assumption). apply B3. exact Hn.
          -- cbn [rootsel set]. rewrite (proj2 Hk). unfold U. rewrite uc_rootsel. exact B4.
  Qed.

  Lemma exc_rows : forall rowsL S Send, Jx S ->
    SegI (inT l) excKK (root_id l) (concl_now l) rowsL S Send ->
    SegR (inT t) k id (raws_exc rowsL (fun B => pes1 W r (Some B))) S Send /\ Jx Send.
  Proof.
    assert (Hml : forall n, inT l n -> inT t n) by (intros n Hn; red; simpl; right; apply in_or_app; auto).
    assert (HQl : forall n, inT l n -> n <> id /\ ~ In n (ids r)).
    { intros n Hn. split; [intro; subst; contradiction|apply Hlr; exact Hn]. }
    induction rowsL as [|x rest IH]; intros S Send HJ H.
    - cbn [SegI] in H. cbn [raws_exc flat_map SegR]. split; [apply (sb_mono _ _ _ _ Hml H)|apply (Jx_sb _ _ _ H HQl HJ)].
    - cbn [SegI] in H. destruct H as [S1 [A [Bf [C D]]]].
      pose proof (Jx_sb _ _ _ A HQl HJ) as HJ1.
      destruct (exc_row x S1 HJ1 Bf C) as [R1 R2].
      destruct (IH _ Send R2 D) as [I1 I2]. split; [|exact I2].
      change (raws_exc (x :: rest) (fun B => pes1 W r (Some B))) with (exc_g x ++ raws_exc rest (fun B => pes1 W r (Some B))).
      eapply segR_pre; [apply (sb_mono _ _ _ _ Hml A)|]. eapply segR_app; eauto.
  Qed.
End ExcNode.

Theorem raw_exc W id l r :
  Inner W l -> Inner W r -> NoDup (ids (Node id SExc l r)) -> Raw W id SExc l r.
Proof.
  intros Hl Hr Hnd b k S Hrl Hrr Hpre Hk.
  destruct (node_facts _ _ _ _ Hnd) as [Hidl [Hidr [Hlr _]]].
  rewrite (ev_exc_unfold W id l r k).
  assert (Hpl : Pre l S) by (intros n Hn; apply Hpre; simpl; right; apply in_or_app; auto).
  destruct (Hl b (excKK W id l r k) S Hrl Hpl (excKK_good W id l r Hnd k Hk)) as [Hseg Hpl'].
  assert (HJ : Jx id r (rootsel S) S).
  { split; [apply Hpre; simpl; auto|]. split; [apply Hpre; simpl; auto|]. split; [|reflexivity].
    intros n Hn. apply Hpre. simpl. right. apply in_or_app. auto. }
  destruct (exc_rows W id l r Hr Hnd k (rootsel S) Hk Hrl Hrr _ S _ HJ Hseg) as [HR [J1 [J2 [J3 _]]]].
  split; [exact HR|].
  intros n [<-|Hn]; [split; assumption|]. apply in_app_or in Hn. destruct Hn as [Hn|Hn]; [apply Hpl'|apply J3]; exact Hn.
Qed.

(* ---- ElseIf and Next over sequences of rows (they share Alternative/Next's loop around ElseIf/Union) ---- *)
Section AltNode.
  Variable W : list elem.
  Variables (id : nat) (s : sel) (l r : tree).
  Hypothesis Hs : s <> SExc.
  Hypothesis Hr : Inner W r.
  Hypothesis Hnd : NoDup (ids (Node id s l r)).
  Let t := Node id s l r.
  Variable k : K.
  Variable rs : nat.
  Hypothesis Hk : kgood (inT t) k.
  Hypothesis Hrsr : ~ In rs (ids r).

  Let Hidl : ~ In id (ids l) := proj1 (node_facts _ _ _ _ Hnd).
  Let Hidr : ~ In id (ids r) := proj1 (proj2 (node_facts _ _ _ _ Hnd)).
  Let Hlr : forall n, In n (ids l) -> ~ In n (ids r) := proj1 (proj2 (proj2 (node_facts _ _ _ _ Hnd))).

  Definition altKr : K :=
    fun B fr S' => sel_post s id l r k B (setb REV id true (setb FLAG id fr S')).
  Definition altKK : K :=
    fun B fl S' =>
      if fl then setb REV id false (ev W r (Some B) altKr (setb LEV id false (setb LEV id true S')))
      else sel_post s id l r k B (setb FLAG id false (setb LEV id true S')).
  Definition nextK2 : K :=
    fun B fr S' => if fr then setb REV id true (setb FLAG id fr S')
                   else sel_post s id l r k B (setb REV id true (setb FLAG id fr S')).

  Lemma at_id B f S f' : get f' id (k B f S) = get f' id S.
  Proof. apply (proj1 Hk). red. simpl. auto. Qed.
  Lemma at_l B f S f' n : In n (ids l) -> get f' n (k B f S) = get f' n S.
  Proof. intros H. apply (proj1 Hk). red. simpl. right. apply in_or_app. auto. Qed.
  Lemma at_r B f S f' n : In n (ids r) -> get f' n (k B f S) = get f' n S.
  Proof. intros H. apply (proj1 Hk). red. simpl. right. apply in_or_app. auto. Qed.

  Section ObsK.
    Variable A : Type.
    Variable obs : store -> A.
    Hypothesis Oid : forall f v S, obs (set f id v S) = obs S.
    Hypothesis Or : forall n, In n (ids r) -> forall f v S, obs (set f n v S) = obs S.
    Hypothesis Oadd : forall e S, obs (add_seen e S) = obs S.
    Hypothesis Ok : forall B f S, obs (k B f S) = obs S.
    Lemma aobs_uc (B : binding) c S : obs (update_conclusion id (fst B) c S) = obs S.
    Proof.
      unfold update_conclusion. destruct c; [reflexivity|]. destruct (Nat.eqb id (rootsel S)).
      - destruct (seenb _ _ _ _ _); [reflexivity|]. rewrite Oadd. apply Oid.
      - apply Oid.
    Qed.
    Lemma aobs_post B S : obs (sel_post s id l r k B S) = obs S.
    Proof.
      unfold sel_post. rewrite Oid, Ok. destruct s.
      - destruct (getb REV id _); [rewrite aobs_uc|]; (destruct (getb LEV id S); [apply aobs_uc|reflexivity]).
      - destruct (negb _); [apply aobs_uc|]. destruct (negb _); [apply aobs_uc|reflexivity].
      - destruct (getb REV id _); [rewrite aobs_uc|]; (destruct (getb LEV id S); [apply aobs_uc|reflexivity]).
    Qed.
    Lemma aobs_Kr B f S : obs (altKr B f S) = obs S.
    Proof. unfold altKr. rewrite aobs_post. unfold setb. rewrite !Oid. reflexivity. Qed.
    Lemma aobs_K2 B f S : obs (nextK2 B f S) = obs S.
    Proof. unfold nextK2. destruct f; [|rewrite aobs_post]; unfold setb; rewrite !Oid; reflexivity. Qed.
    Lemma aobs_KK B f S : obs (altKK B f S) = obs S.
    Proof.
      unfold altKK. destruct f.
      - unfold setb at 1. rewrite Oid. rewrite (ev_obs W A obs r); auto.
        + unfold setb. rewrite !Oid. reflexivity.
        + intros. apply aobs_Kr.
      - rewrite aobs_post. unfold setb. rewrite !Oid. reflexivity.
    Qed.
  End ObsK.

  Lemma altKr_good : kgood (inT r) altKr.
  Proof.
    split.
    - intros B f S f' n Hn. red in Hn. apply (aobs_Kr _ (fun S => get f' n S)).
      + intros. apply get_set_diff. right. intro; subst; contradiction.
      + reflexivity.
      + intros. apply at_r. exact Hn.
    - intros B f S. apply (aobs_Kr _ rootsel); try reflexivity. apply (proj2 Hk).
  Qed.
  Lemma nextK2_good : kgood (inT r) nextK2.
  Proof.
    split.
    - intros B f S f' n Hn. red in Hn. apply (aobs_K2 _ (fun S => get f' n S)).
      + intros. apply get_set_diff. right. intro; subst; contradiction.
      + reflexivity.
      + intros. apply at_r. exact Hn.
    - intros B f S. apply (aobs_K2 _ rootsel); try reflexivity. apply (proj2 Hk).
  Qed.
  Lemma altKK_good : kgood (inT l) altKK.
  Proof.
    split.
    - intros B f S f' n Hn. red in Hn. apply (aobs_KK _ (fun S => get f' n S)).
      + intros. apply get_set_diff. right. intro; subst; contradiction.
      + intros m Hm f0 v S0. apply get_set_diff. right. intro; subst. exact (Hlr _ Hn Hm).
      + reflexivity.
      + intros. apply at_l. exact Hn.
    - intros B f S. apply (aobs_KK _ rootsel); try reflexivity. apply (proj2 Hk).
  Qed.

  (* the loop body once the state of the node is known *)
  Lemma post_left B S : getb LEV id S = true -> get REV id S = [] -> getb FLAG (root_id l) S = false ->
    sel_post s id l r k B S
    = set DYN id [] (k B (getb FLAG id (update_conclusion id (fst B) (concl_now l S) S))
                        (update_conclusion id (fst B) (concl_now l S) S)).
  Proof.
    intros HL HR HF. unfold sel_post. destruct s; [contradiction| |].
    - rewrite HF. reflexivity.
    - rewrite HL. assert (E : getb REV id (update_conclusion id (fst B) (concl_now l S) S) = false).
      { unfold getb. rewrite uc_cell by (left; unfold REV, DYN; lia). rewrite HR. reflexivity. }
      rewrite E. reflexivity.
  Qed.
  Lemma post_right B S fr : getb LEV id S = false -> getb REV id S = true -> getb FLAG (root_id l) S = true ->
    getb FLAG (root_id r) S = fr ->
    exists cx, (fr = false -> cx = concl_now r S) /\
      sel_post s id l r k B S
      = set DYN id [] (k B (getb FLAG id (update_conclusion id (fst B) cx S)) (update_conclusion id (fst B) cx S)).
  Proof.
    intros HL HR HF Hfr. unfold sel_post. destruct s; [contradiction| |].
    - rewrite HF, Hfr. cbn [negb]. destruct fr; cbn [negb].
      + exists []. split; [discriminate|reflexivity].
      + exists (concl_now r S). split; reflexivity.
    - rewrite HL, HR. exists (concl_now r S). split; reflexivity.
  Qed.
  Lemma post_second B S : s = SNext -> getb LEV id S = false -> getb REV id S = true ->
    sel_post s id l r k B S
    = set DYN id [] (k B (getb FLAG id (update_conclusion id (fst B) (concl_now r S) S))
                        (update_conclusion id (fst B) (concl_now r S) S)).
  Proof. intros -> HL HR. unfold sel_post. rewrite HL, HR. reflexivity. Qed.

  Definition Jy (S : store) : Prop :=
    get DYN id S = [] /\ get REV id S = [] /\ Pre r S /\ rootsel S = rs.
  Lemma Jy_sb (Q : nat -> Prop) S S' : same_but Q S S' -> (forall n, Q n -> n <> id /\ ~ In n (ids r)) -> Jy S -> Jy S'.
  Proof.
    intros Hsb HQ [J1 [J2 [J3 J4]]].
    assert (Hid : ~ Q id) by (intro H; destruct (HQ _ H); congruence).
    split; [rewrite (sb_get _ _ _ _ _ Hsb Hid); exact J1|]. split; [rewrite (sb_get _ _ _ _ _ Hsb Hid); exact J2|].
    split; [|rewrite (sb_root _ _ _ Hsb); exact J4].
    intros n Hn. assert (Hq : ~ Q n) by (intro H; destruct (HQ _ H); contradiction).
    rewrite !(sb_get _ _ _ _ _ Hsb Hq). apply J3. exact Hn.
  Qed.

  (* while the rows of the right operand arrive *)
  Definition Ja (S0 : store) (S : store) : Prop :=
    getb LEV id S = false /\ get DYN id S = [] /\ rootsel S = rs /\
    forall f n, In n (ids l) -> get f n S = get f n S0.
  Lemma Ja_sb S0 S S' : same_but (inT r) S S' -> Ja S0 S -> Ja S0 S'.
  Proof.
    intros Hsb [A1 [A2 [A3 A4]]].
    split; [rewrite (sb_getb _ _ _ _ _ Hsb Hidr); exact A1|]. split; [rewrite (sb_get _ _ _ _ _ Hsb Hidr); exact A2|].
    split; [rewrite (sb_root _ _ _ Hsb); exact A3|]. intros f n Hn. rewrite (sb_get _ _ _ _ _ Hsb (Hlr _ Hn)). apply A4. exact Hn.
  Qed.
  (* after one row has been handed to k through update_conclusion *)
  Lemma Ja_step S0 S' B cx : getb LEV id S' = false -> rootsel S' = rs ->
    (forall f n, In n (ids l) -> get f n S' = get f n S0) ->
    Ja S0 (set DYN id [] (k B (getb FLAG id (update_conclusion id (fst B) cx S')) (update_conclusion id (fst B) cx S'))).
  Proof.
    intros HL HR Hl0. split; [|split; [|split]].
    - unfold getb. rewrite get_set_diff by (left; unfold DYN, LEV; lia). rewrite at_id.
      rewrite uc_cell by (left; unfold LEV, DYN; lia). exact HL.
    - apply get_set_same.
    - cbn [rootsel set]. rewrite (proj2 Hk). rewrite uc_rootsel. exact HR.
    - intros f n Hn. assert (n <> id) by (intro; subst; contradiction).
      rewrite get_set_diff by (right; congruence). rewrite at_l by exact Hn.
      rewrite uc_cell by (right; assumption). apply Hl0. exact Hn.
  Qed.

  Lemma alt_rrows S0 : getb FLAG (root_id l) S0 = true ->
    forall rowsR S Send, Ja S0 S ->
    SegI (inT r) altKr (root_id r) (concl_now r) rowsR S Send ->
    SegR (inT t) k id rowsR S Send /\ Ja S0 Send.
  Proof.
    intros Hfl0.
    assert (Hmr : forall n, inT r n -> inT t n) by (intros n Hn; red; simpl; right; apply in_or_app; auto).
    assert (Hti : inT t id) by (red; simpl; auto).
    assert (Hrootr : root_id r <> id) by (intro E; apply Hidr; rewrite <- E; apply root_in).
    assert (Hrootl : root_id l <> id) by (intro E; apply Hidl; rewrite <- E; apply root_in).
    induction rowsR as [|y rest IH]; intros S Send HJ H.
    - cbn [SegI] in H. cbn [SegR]. split; [apply (sb_mono _ _ _ _ Hmr H)|apply (Ja_sb _ _ _ H HJ)].
    - cbn [SegI] in H. destruct H as [S1r [A [Bf [C D]]]]. pose proof (Ja_sb _ _ _ A HJ) as [A1 [A2 [A3 A4]]].
      destruct y as [[fr cr] Br]. cbn [fst snd] in *.
      unfold altKr in D at 2.
      set (S' := setb REV id true (setb FLAG id fr S1r)) in *.
      assert (HS' : same_but (fun n => n = id) S1r S') by (unfold S'; eapply sb_trans; apply sb_setb; reflexivity).
      assert (HS'lev : getb LEV id S' = false).
      { unfold S'. rewrite !getb_setb_diff by (left; unfold REV, FLAG, LEV; lia). exact A1. }
      assert (HS'rev : getb REV id S' = true) by (apply getb_setb_same).
      assert (HS'fl : getb FLAG (root_id l) S' = true).
      { rewrite (sb_getb _ _ _ _ _ HS') by exact Hrootl. unfold getb. rewrite A4 by apply root_in. exact Hfl0. }
      assert (HS'fr : getb FLAG (root_id r) S' = fr) by (rewrite (sb_getb _ _ _ _ _ HS') by exact Hrootr; exact Bf).
      destruct (post_right Br S' fr HS'lev HS'rev HS'fl HS'fr) as [cx [Hcx Hpost]]. rewrite Hpost in D.
      assert (HS'l : forall f n, In n (ids l) -> get f n S' = get f n S0).
      { intros f n Hn. rewrite (sb_get _ _ _ _ _ HS') by (intro; subst; contradiction). apply A4. exact Hn. }
      assert (HS'root : rootsel S' = rs) by (rewrite (sb_root _ _ _ HS'); exact A3).
      destruct (IH _ Send (Ja_step S0 S' Br cx HS'lev HS'root HS'l) D) as [I1 I2]. split; [|exact I2].
      cbn [SegR fst snd]. exists S', cx. split; [|split; [|split; [|split]]].
      + eapply sb_trans; [apply (sb_mono _ _ _ _ Hmr A)|]. apply (sb_mono (fun n => n = id)); [intros n ->; exact Hti|exact HS'].
      + unfold S'. rewrite getb_setb_diff by (left; unfold REV, FLAG; lia). apply getb_setb_same.
      + unfold S'. rewrite !get_setb_diff by (left; unfold REV, FLAG, DYN; lia). exact A2.
      + intros Hf. rewrite (Hcx Hf). rewrite <- (C Hf). apply concl_now_same. intros f n Hn.
        apply (sb_get _ _ _ _ _ HS'). intro; subst; contradiction.
      + eapply segR_pre; [|exact I1]. apply sb_set. exact Hti.
  Qed.

  Definition alt_g (x : row1) : list row1 :=
    if fst (fst x) then pes1 W r (Some (snd x)) else [(false, snd (fst x), snd x)].

  Lemma alt_row x S1 : Jy S1 -> getb FLAG (root_id l) S1 = fst (fst x) ->
    (fst (fst x) = false -> concl_now l S1 = snd (fst x)) ->
    SegR (inT t) k id (alt_g x) S1 (altKK (snd x) (fst (fst x)) S1) /\ Jy (altKK (snd x) (fst (fst x)) S1).
  Proof.
    assert (Hmr : forall n, inT r n -> inT t n) by (intros n Hn; red; simpl; right; apply in_or_app; auto).
    assert (Hti : inT t id) by (red; simpl; auto).
    assert (Hrootl : root_id l <> id) by (intro E; apply Hidl; rewrite <- E; apply root_in).
    intros HJ Hfl Hcl. destruct x as [[fl cl] Bl]. cbn [fst snd] in *. unfold alt_g. cbn [fst snd].
    destruct HJ as [J1 [J2 [J3 J4]]]. destruct fl.
    - (* the left operand does not hold: the rows of the right operand *)
      unfold altKK. cbv iota.
      set (S2 := setb LEV id false (setb LEV id true S1)).
      assert (HS2 : same_but (fun n => n = id) S1 S2) by (unfold S2; eapply sb_trans; apply sb_setb; reflexivity).
      assert (HrS2 : ~ In (rootsel S2) (ids r)) by (rewrite (sb_root _ _ _ HS2), J4; exact Hrsr).
      assert (HpS2 : Pre r S2).
      { intros n Hn. rewrite !(sb_get _ _ _ _ _ HS2) by (intro; subst; contradiction). apply J3. exact Hn. }
      destruct (Hr (Some Bl) altKr S2 HrS2 HpS2 altKr_good) as [Hseg Hpre3].
      set (S3 := ev W r (Some Bl) altKr S2) in *.
      assert (HJa : Ja S1 S2).
      { unfold S2. split; [apply getb_setb_same|]. split; [rewrite !get_setb_diff by (left; unfold LEV, DYN; lia); exact J1|].
        split; [exact J4|]. intros f n Hn. rewrite !get_setb_diff by (right; intro; subst; contradiction). reflexivity. }
      destruct (alt_rrows S1 Hfl _ S2 S3 HJa Hseg) as [HR [A1 [A2 [A3 A4]]]]. split.
      + eapply segR_pre; [apply (sb_mono (fun n => n = id)); [intros n ->; exact Hti|exact HS2]|].
        eapply segR_post; [exact HR|]. apply sb_setb. exact Hti.
      + split; [rewrite get_setb_diff by (left; unfold REV, DYN; lia); exact A2|]. split; [apply get_set_same|].
        split; [|exact A3]. intros n Hn. rewrite !get_setb_diff by (right; intro; subst; contradiction). apply Hpre3. exact Hn.
    - (* the left operand holds *)
      specialize (Hcl eq_refl). unfold altKK. cbv iota.
      set (S' := setb FLAG id false (setb LEV id true S1)).
      assert (HS' : same_but (fun n => n = id) S1 S') by (unfold S'; eapply sb_trans; apply sb_setb; reflexivity).
      assert (HS'lev : getb LEV id S' = true) by (unfold S'; rewrite getb_setb_diff by (left; unfold FLAG, LEV; lia); apply getb_setb_same).
      assert (HS'rev : get REV id S' = []) by (unfold S'; rewrite !get_setb_diff by (left; unfold FLAG, LEV, REV; lia); exact J2).
      assert (HS'fl : getb FLAG (root_id l) S' = false) by (rewrite (sb_getb _ _ _ _ _ HS') by exact Hrootl; exact Hfl).
      rewrite (post_left Bl S' HS'lev HS'rev HS'fl).
      assert (Hcl' : concl_now l S' = cl).
      { rewrite <- Hcl. apply concl_now_same. intros f n Hn. apply (sb_get _ _ _ _ _ HS'). intro; subst; contradiction. }
      rewrite Hcl'. set (U := update_conclusion id (fst Bl) cl S').
      assert (HS'dyn : get DYN id S' = []) by (unfold S'; rewrite !get_setb_diff by (left; unfold FLAG, LEV, DYN; lia); exact J1).
      split.
      + cbn [SegR fst snd]. exists S', cl. split; [apply (sb_mono (fun n => n = id)); [intros n ->; exact Hti|exact HS']|].
        split; [apply getb_setb_same|]. split; [exact HS'dyn|]. split; [reflexivity|]. fold U. apply sb_set. exact Hti.
      + split; [apply get_set_same|]. split; [|split].
        * rewrite get_set_diff by (left; unfold DYN, REV; lia). rewrite at_id. unfold U.
          rewrite uc_cell by (left; unfold REV, DYN; lia). exact HS'rev.
        * intros n Hn. assert (n <> id) by (intro; subst; contradiction).
          rewrite !get_set_diff by (right; congruence). rewrite !at_r by exact Hn. unfold U.
          rewrite !uc_cell by (right; assumption). rewrite !(sb_get _ _ _ _ _ HS') by assumption. apply J3. exact Hn.
        * cbn [rootsel set]. rewrite (proj2 Hk). unfold U. rewrite uc_rootsel. rewrite (sb_root _ _ _ HS'). exact J4.
  Qed.

  Lemma alt_rows : forall rowsL S Send, Jy S ->
    SegI (inT l) altKK (root_id l) (concl_now l) rowsL S Send ->
    SegR (inT t) k id (raws_alt rowsL (fun B => pes1 W r (Some B))) S Send /\ Jy Send.
  Proof.
    assert (Hml : forall n, inT l n -> inT t n) by (intros n Hn; red; simpl; right; apply in_or_app; auto).
    assert (HQl : forall n, inT l n -> n <> id /\ ~ In n (ids r)).
    { intros n Hn. split; [intro; subst; contradiction|apply Hlr; exact Hn]. }
    induction rowsL as [|x rest IH]; intros S Send HJ H.
    - cbn [SegI] in H. cbn [raws_alt flat_map SegR]. split; [apply (sb_mono _ _ _ _ Hml H)|apply (Jy_sb _ _ _ H HQl HJ)].
    - cbn [SegI] in H. destruct H as [S1 [A [Bf [C D]]]].
      pose proof (Jy_sb _ _ _ A HQl HJ) as HJ1.
      destruct (alt_row x S1 HJ1 Bf C) as [R1 R2].
      destruct (IH _ Send R2 D) as [I1 I2]. split; [|exact I2].
      change (raws_alt (x :: rest) (fun B => pes1 W r (Some B))) with (alt_g x ++ raws_alt rest (fun B => pes1 W r (Some B))).
      eapply segR_pre; [apply (sb_mono _ _ _ _ Hml A)|]. eapply segR_app; eauto.
  Qed.

  (* the second pass of Next: the true rows of the right operand, from the original source *)
  Lemma next_rrows S0 : s = SNext -> forall rowsR S Send, Ja S0 S ->
    SegI (inT r) nextK2 (root_id r) (concl_now r) rowsR S Send ->
    SegR (inT t) k id (filter rtrue rowsR) S Send /\ Ja S0 Send.
  Proof.
    intros Hsn.
    assert (Hmr : forall n, inT r n -> inT t n) by (intros n Hn; red; simpl; right; apply in_or_app; auto).
    assert (Hti : inT t id) by (red; simpl; auto).
    induction rowsR as [|y rest IH]; intros S Send HJ H.
    - cbn [SegI] in H. cbn [SegR filter]. split; [apply (sb_mono _ _ _ _ Hmr H)|apply (Ja_sb _ _ _ H HJ)].
    - cbn [SegI] in H. destruct H as [S1r [A [Bf [C D]]]]. pose proof (Ja_sb _ _ _ A HJ) as [A1 [A2 [A3 A4]]].
      destruct y as [[fr cr] Br]. cbn [fst snd] in *.
      unfold nextK2 in D at 2.
      set (S' := setb REV id true (setb FLAG id fr S1r)) in *.
      assert (HS' : same_but (fun n => n = id) S1r S') by (unfold S'; eapply sb_trans; apply sb_setb; reflexivity).
      assert (HS'lev : getb LEV id S' = false).
      { unfold S'. rewrite !getb_setb_diff by (left; unfold REV, FLAG, LEV; lia). exact A1. }
      assert (HS'rev : getb REV id S' = true) by (apply getb_setb_same).
      assert (HS'l : forall f n, In n (ids l) -> get f n S' = get f n S0).
      { intros f n Hn. rewrite (sb_get _ _ _ _ _ HS') by (intro; subst; contradiction). apply A4. exact Hn. }
      assert (HS'root : rootsel S' = rs) by (rewrite (sb_root _ _ _ HS'); exact A3).
      assert (HS'dyn : get DYN id S' = []).
      { unfold S'. rewrite !get_setb_diff by (left; unfold REV, FLAG, DYN; lia). exact A2. }
      destruct fr.
      + (* a false row: dropped inside Union *)
        cbn [filter rtrue fst negb]. cbv iota in D.
        assert (HJ' : Ja S0 S') by (split; [exact HS'lev|split; [exact HS'dyn|split; [exact HS'root|exact HS'l]]]).
        destruct (IH _ Send HJ' D) as [I1 I2]. split; [|exact I2].
        eapply segR_pre; [|exact I1]. eapply sb_trans; [apply (sb_mono _ _ _ _ Hmr A)|].
        apply (sb_mono (fun n => n = id)); [intros n ->; exact Hti|exact HS'].
      + cbn [filter rtrue fst negb]. cbv iota in D. rewrite (post_second Br S' Hsn HS'lev HS'rev) in D.
        assert (Hcr : concl_now r S' = cr).
        { rewrite <- (C eq_refl). apply concl_now_same. intros f n Hn. apply (sb_get _ _ _ _ _ HS'). intro; subst; contradiction. }
        rewrite Hcr in D.
        destruct (IH _ Send (Ja_step S0 S' Br cr HS'lev HS'root HS'l) D) as [I1 I2]. split; [|exact I2].
        cbn [SegR fst snd]. exists S', cr. split; [|split; [|split; [exact HS'dyn|split; [reflexivity|]]]].
        * eapply sb_trans; [apply (sb_mono _ _ _ _ Hmr A)|]. apply (sb_mono (fun n => n = id)); [intros n ->; exact Hti|exact HS'].
        * unfold S'. rewrite getb_setb_diff by (left; unfold REV, FLAG; lia). apply getb_setb_same.
        * eapply segR_pre; [|exact I1]. apply sb_set. exact Hti.
  Qed.
End AltNode.

Theorem raw_alt W id l r :
  Inner W l -> Inner W r -> NoDup (ids (Node id SAlt l r)) -> Raw W id SAlt l r.
Proof.
  intros Hl Hr Hnd b k S Hrl Hrr Hpre Hk.
  assert (Hs : SAlt <> SExc) by discriminate.
  change (ev W (Node id SAlt l r) b k S)
    with (ev W l b (altKK W id SAlt l r k) S).
  assert (Hpl : Pre l S) by (intros n Hn; apply Hpre; simpl; right; apply in_or_app; auto).
  destruct (Hl b _ S Hrl Hpl (altKK_good W id SAlt l r Hs Hnd k Hk)) as [Hseg Hpl'].
  assert (HJ : Jy id r (rootsel S) S).
  { split; [apply Hpre; simpl; auto|]. split; [apply Hpre; simpl; auto|]. split; [|reflexivity].
    intros n Hn. apply Hpre. simpl. right. apply in_or_app. auto. }
  destruct (alt_rows W id SAlt l r Hs Hr Hnd k (rootsel S) Hk Hrr _ S _ HJ Hseg) as [HR [J1 [J2 [J3 _]]]].
  split; [exact HR|].
  intros n [<-|Hn]; [split; assumption|]. apply in_app_or in Hn. destruct Hn as [Hn|Hn]; [apply Hpl'|apply J3]; exact Hn.
Qed.

Theorem raw_next W id l r :
  Inner W l -> Inner W r -> NoDup (ids (Node id SNext l r)) -> Raw W id SNext l r.
Proof.
  intros Hl Hr Hnd b k S Hrl Hrr Hpre Hk.
  assert (Hs : SNext <> SExc) by discriminate.
  destruct (node_facts _ _ _ _ Hnd) as [Hidl [Hidr [Hlr _]]].
  assert (Hti : inT (Node id SNext l r) id) by (red; simpl; auto).
  change (ev W (Node id SNext l r) b k S)
    with (setb REV id false (ev W r b (nextK2 id SNext l r k)
            (setb LEV id false (ev W l b (altKK W id SNext l r k) S)))).
  assert (Hpl : Pre l S) by (intros n Hn; apply Hpre; simpl; right; apply in_or_app; auto).
  destruct (Hl b _ S Hrl Hpl (altKK_good W id SNext l r Hs Hnd k Hk)) as [Hseg Hpl'].
  assert (HJ : Jy id r (rootsel S) S).
  { split; [apply Hpre; simpl; auto|]. split; [apply Hpre; simpl; auto|]. split; [|reflexivity].
    intros n Hn. apply Hpre. simpl. right. apply in_or_app. auto. }
  destruct (alt_rows W id SNext l r Hs Hr Hnd k (rootsel S) Hk Hrr _ S _ HJ Hseg) as [HR1 [J1 [J2 [J3 J4]]]].
  set (Smid := ev W l b (altKK W id SNext l r k) S) in *.
  set (S2 := setb LEV id false Smid).
  assert (HS2 : same_but (fun n => n = id) Smid S2) by (apply sb_setb; reflexivity).
  assert (HrS2 : ~ In (rootsel S2) (ids r)) by (rewrite (sb_root _ _ _ HS2), J4; exact Hrr).
  assert (HpS2 : Pre r S2).
  { intros n Hn. rewrite !(sb_get _ _ _ _ _ HS2) by (intro; subst; contradiction). apply J3. exact Hn. }
  destruct (Hr b _ S2 HrS2 HpS2 (nextK2_good id SNext l r Hs Hnd k Hk)) as [Hseg2 Hpre3].
  assert (HJa : Ja id l (rootsel S) Smid S2).
  { unfold S2. split; [apply getb_setb_same|]. split; [rewrite get_setb_diff by (left; unfold LEV, DYN; lia); exact J1|].
    split; [exact J4|]. intros f n Hn. apply get_setb_diff. right. intro; subst; contradiction. }
  destruct (next_rrows id SNext l r Hs Hnd k (rootsel S) Hk Hrr Smid eq_refl _ S2 _ HJa Hseg2) as [HR2 [A1 [A2 [A3 A4]]]].
  split.
  - cbn [raws]. eapply segR_app; [exact HR1|].
    eapply segR_pre; [apply (sb_mono (fun n => n = id)); [intros n ->; exact Hti|exact HS2]|].
    eapply segR_post; [exact HR2|]. apply sb_setb. exact Hti.
  - intros n [<-|Hn].
    + split; [rewrite get_setb_diff by (left; unfold REV, DYN; lia); exact A2|apply get_set_same].
    + assert (Hnid : n <> id) by (intro; subst; apply in_app_or in Hn; destruct Hn; contradiction).
      rewrite !get_setb_diff by (right; congruence).
      apply in_app_or in Hn. destruct Hn as [Hn|Hn]; [|apply Hpre3; exact Hn].
      rewrite !A4 by exact Hn. apply Hpl'. exact Hn.
Qed.

(* every tree with pairwise distinct nodes: the continuation is called on the rows of the pure reading, in order *)
Theorem inner_all W t : NoDup (ids t) -> Inner W t.
Proof.
  induction t as [id cs c | id s l IHl r IHr]; intros Hnd; [apply inner_leaf|].
  destruct (node_facts _ _ _ _ Hnd) as [_ [_ [_ [Hndl Hndr]]]].
  apply raw_inner. destruct s; [apply raw_exc|apply raw_alt|apply raw_next]; auto.
Qed.
Theorem raw_all W id s l r : NoDup (ids (Node id s l r)) -> Raw W id s l r.
Proof.
  intros Hnd. destruct (node_facts _ _ _ _ Hnd) as [_ [_ [_ [Hndl Hndr]]]].
  destruct s; [apply raw_exc|apply raw_alt|apply raw_next]; auto using inner_all.
Qed.
