(* C11 -- Spec: which domain elements a match pattern denotes.  No dependency on the model.
   Reading of the statement fixed in DESIGN.md section 6, C11:
     literal            equality; on a collection attribute membership (a literal collection: some element of the
                        attribute is a member of the literal)
     nested match       the attribute value has the given type and satisfies the nested attributes; on a collection
                        attribute: SOME element does
     match_any(vals)    at least one common element         match_all(vals)   the same set of elements
   Elements are compared with their own [==] (world key [okey]); results are identities. *)
From Coq Require Import List ZArith Bool Arith.
From Krrood Require Import Eql.Syntax.
Import ListNotations.

Definition cls := nat.

(* a pattern as the user writes it: entity_matching(T, domain)(a1 = ..., a2 = ...) *)
Inductive pat : Type :=
| Pat (ty : option cls) (attrs : alist)          (* match(T)(...) ; ty = None: match()(...) *)
with alist : Type :=
| ANil
| ACons (a : nat) (c : apat) (rest : alist)
with apat : Type :=
| PLit (v : val)                                  (* a plain value: scalar, object or list *)
| PMatch (p : pat)                                (* match(T)(...) / select(T)(...) / match_any(T)(...) *)
| PAny (v : val)                                  (* match_any([v1, ...]) *)
| PAll (v : val)                                  (* match_all([v1, ...]) *)
| PVar (v : val)                                  (* a let-variable over the explicit domain [v1, ...] given as the value *)
| PSel (c : apat).                                (* the same value written with select / select_any / select_all: the inner
                                                     part is reported in the result rows *)

Scheme pat_mind := Induction for pat Sort Prop
  with alist_mind := Induction for alist Sort Prop
  with apat_mind := Induction for apat Sort Prop.
Combined Scheme pat_mutind from pat_mind, alist_mind, apat_mind.

(* objects carry a class; [sub c d] = issubclass(c, d) *)
Record mworld : Type := { mw : world; otype : Z -> cls }.

Definition is_coll (v : val) : bool := match v with VLI _ | VLO _ => true | _ => false end.
Definition elems (v : val) : list val :=
  match v with VLI l => map VI l | VLO l => map VO l | _ => [] end.
Definition as_elems (v : val) : list val := if is_coll v then elems v else [v].

Section Spec.
  Variable sub : cls -> cls -> bool.
  Variable M : mworld.
  Let W := mw M.

  Definition vmem (x : val) (l : list val) : bool := existsb (py_eq W x) l.
  Definition common (a b : val) : bool := existsb (fun x => vmem x (as_elems b)) (as_elems a).
  Definition same_set (a b : val) : bool :=
    forallb (fun x => vmem x (as_elems b)) (as_elems a) && forallb (fun y => vmem y (as_elems a)) (as_elems b).
  Definition lit_ok (av lit : val) : bool := if is_coll av then common av lit else py_eq W av lit.

  Definition type_ok (t : option cls) (o : Z) : bool :=
    match t with None => true | Some T => sub (otype M o) T end.

  Fixpoint matches (p : pat) (o : Z) {struct p} : bool :=
    match p with Pat t l => type_ok t o && matches_attrs l o end
  with matches_attrs (l : alist) (o : Z) {struct l} : bool :=
    match l with
    | ANil => true
    | ACons a c rest => matches_attr c (attr W o a) && matches_attrs rest o
    end
  with matches_attr (c : apat) (v : val) {struct c} : bool :=
    match c with
    | PLit lit => lit_ok v lit
    | PMatch p => match v with VO o' => matches p o' | VLO xs => existsb (matches p) xs | _ => false end
    | PAny vals => common v vals
    | PAll vals => same_set v vals
    | PVar vals => common v vals       (* the attribute equals / has a member equal to SOME value of the variable's domain *)
    | PSel c' => matches_attr c' v      (* selecting does not constrain *)
    end.

  (* the answer: the domain elements of type T that satisfy the pattern (identities; order of the domain) *)
  Definition spec_run (T : cls) (l : alist) (D : list Z) : list Z :=
    filter (matches (Pat (Some T) l)) D.

  (* ---- result rows: the projections of the satisfying assignments onto the selected inner parts.
     A satisfying assignment chooses, for every nested match on a collection attribute, one member that satisfies it.
     A selected keyword contributes the attribute value and, on a collection attribute, also the chosen member
     (in this order); columns follow the order in which the keywords are written, depth first. ---- *)
  Definition guard (b : bool) (rows : list (list val)) : list (list val) := if b then rows else [].
  Definition cols (s : bool) (vs : list val) : list val := if s then vs else [].
  Fixpoint srows_pat (s : bool) (q : pat) (v : val) {struct q} : list (list val) :=
    match q with
    | Pat t l =>
        match v with
        | VO o' => guard (type_ok t o') (map (app (cols s [v])) (srows_alist l o'))
        | VLO xs => flat_map (fun x => guard (type_ok t x) (map (app (cols s [v; VO x])) (srows_alist l x))) xs
        | _ => []
        end
    end
  with srows_alist (l : alist) (o : Z) {struct l} : list (list val) :=
    match l with
    | ANil => [[]]
    | ACons a c rest =>
        flat_map (fun r1 => map (app r1) (srows_alist rest o)) (srows_apat false c (attr W o a))
    end
  with srows_apat (s : bool) (c : apat) (v : val) {struct c} : list (list val) :=
    match c with
    | PLit lit => guard (lit_ok v lit) [[]]
    | PMatch q => srows_pat s q v
    | PAny vals => guard (common v vals) [cols s [v]]
    | PAll vals => guard (same_set v vals) [cols s [v]]
    | PVar vals => guard (common v vals) [[]]
    | PSel c' => srows_apat true c' v
    end.

  (* is anything selected at all (otherwise the root element is what is returned) *)
  Fixpoint anysel_alist (l : alist) : bool :=
    match l with ANil => false | ACons _ c rest => anysel_apat c || anysel_alist rest end
  with anysel_apat (c : apat) : bool :=
    match c with
    | PSel _ => true
    | PMatch (Pat _ l) => anysel_alist l
    | _ => false
    end.
  (* entity_selection(T, dom)(...) reports the root element as first column; entity_matching(T, dom)(...) reports it
     only when nothing else is selected *)
  Definition spec_rows (rootsel : bool) (T : cls) (l : alist) (D : list Z) : list (list val) :=
    let rs := rootsel || negb (anysel_alist l) in
    flat_map (fun o => guard (sub (otype M o) T) (map (app (cols rs [VO o])) (srows_alist l o))) D.
End Spec.
