(* C11 -- Spec: which domain elements a match pattern denotes.  No dependency on the model.
   Reading of the statement fixed in DESIGN.md section 6, C11:
     literal            equality; on a collection attribute membership (a literal collection: some element of the
                        attribute is a member of the literal)
     nested match       the attribute value has the given type and satisfies the nested attributes; on a collection
                        attribute: SOME element does
     match_any(vals)    at least one common element         match_all(vals)   the same set of elements
   Elements are compared with their own [==] (world key [okey]); results are identities. *)
From Coq Require Import List ZArith Bool Arith.
From Krrood Require Import Eql.Syntax.
Import ListNotations.

Definition cls := nat.

(* a pattern as the user writes it: entity_matching(T, domain)(a1 = ..., a2 = ...) *)
Inductive pat : Type :=
| Pat (ty : option cls) (attrs : alist)          (* match(T)(...) ; ty = None: match()(...) *)
with alist : Type :=
| ANil
| ACons (a : nat) (c : apat) (rest : alist)
with apat : Type :=
| PLit (v : val)                                  (* a plain value: scalar, object or list *)
| PMatch (p : pat)                                (* match(T)(...) / select(T)(...) / match_any(T)(...) *)
| PAny (v : val)                                  (* match_any([v1, ...]) *)
| PAll (v : val).                                 (* match_all([v1, ...]) *)

Scheme pat_mind := Induction for pat Sort Prop
  with alist_mind := Induction for alist Sort Prop
  with apat_mind := Induction for apat Sort Prop.
Combined Scheme pat_mutind from pat_mind, alist_mind, apat_mind.

(* objects carry a class; [sub c d] = issubclass(c, d) *)
Record mworld : Type := { mw : world; otype : Z -> cls }.

Definition is_coll (v : val) : bool := match v with VLI _ | VLO _ => true | _ => false end.
Definition elems (v : val) : list val :=
  match v with VLI l => map VI l | VLO l => map VO l | _ => [] end.
Definition as_elems (v : val) : list val := if is_coll v then elems v else [v].

Section Spec.
  Variable sub : cls -> cls -> bool.
  Variable M : mworld.
  Let W := mw M.

  Definition vmem (x : val) (l : list val) : bool := existsb (py_eq W x) l.
  Definition common (a b : val) : bool := existsb (fun x => vmem x (as_elems b)) (as_elems a).
  Definition same_set (a b : val) : bool :=
    forallb (fun x => vmem x (as_elems b)) (as_elems a) && forallb (fun y => vmem y (as_elems a)) (as_elems b).
  Definition lit_ok (av lit : val) : bool := if is_coll av then common av lit else py_eq W av lit.

  Definition type_ok (t : option cls) (o : Z) : bool :=
    match t with None => true | Some T => sub (otype M o) T end.

  Fixpoint matches (p : pat) (o : Z) {struct p} : bool :=
    match p with Pat t l => type_ok t o && matches_attrs l o end
  with matches_attrs (l : alist) (o : Z) {struct l} : bool :=
    match l with
    | ANil => true
    | ACons a c rest => matches_attr c (attr W o a) && matches_attrs rest o
    end
  with matches_attr (c : apat) (v : val) {struct c} : bool :=
    match c with
    | PLit lit => lit_ok v lit
    | PMatch p => match v with VO o' => matches p o' | VLO xs => existsb (matches p) xs | _ => false end
    | PAny vals => common v vals
    | PAll vals => same_set v vals
    end.

  (* the answer: the domain elements of type T that satisfy the pattern (identities; order of the domain) *)
  Definition spec_run (T : cls) (l : alist) (D : list Z) : list Z :=
    filter (matches (Pat (Some T) l)) D.
End Spec.
