(* C08 proofs for two-variable programs, part 4: the pure reading [pe2] of the written tree is the Spec [rdr2].
   The fragment: the program is next_rule-free; exactly one refinement J starts with the join `b == c.parent`; J's own
   block holds refinements only; outside J every condition reads c only and every conclusion is built from c only;
   at and below J conditions and conclusions are free (c, b or both).  On tree level this is [ok2]. *)
From Coq Require Import List ZArith Bool Arith Lia.
From Krrood Require Import Eql.RuleSpec Eql.RuleSpec2 Eql.RuleEval Eql.RuleBuild Eql.RulePure Eql.RuleEval2
  Eql.RuleEvalProofs Eql.RuleSpecProofs Eql.RuleProofs Eql.RuleBuildProofs Eql.RuleEval2Proofs Eql.RuleEval2RootProofs.
Import ListNotations.

(* ---- the join marker removed, on trees ---- *)
Definition nomark (a : atom) : bool := negb (is_marker a).
Fixpoint stripT (t : tree) : tree :=
  match t with
  | Leaf i cs c => Leaf i (filter nomark cs) c
  | Node i s l r => Node i s (stripT l) (stripT r)
  end.

Lemma tlevel_strip r : forall k acc,
  tlevel k (strip r) (option_map stripT acc) = stripT (tlevel k r acc).
Proof.
  induction r as [cs tg body IH] using rule_ind'. intros k acc.
  cbn [strip tlevel].
  set (go := fix go (l : list (kind * rule)) : list (kind * rule) :=
               match l with [] => [] | (k, q) :: l' => (k, strip q) :: go l' end).
  assert (Hrf : (fix rf (l : list (kind * rule)) {struct l} : tree :=
                   match l with
                   | [] => Leaf 0 (filter (fun a => negb (is_marker a)) cs) (tag_list tg)
                   | (KRef, q) :: l' => Node 0 SExc (rf l') (tlevel KAlt q None)
                   | _ :: l' => rf l'
                   end) (go body)
                = stripT ((fix rf (l : list (kind * rule)) {struct l} : tree :=
                   match l with
                   | [] => Leaf 0 cs (tag_list tg)
                   | (KRef, q) :: l' => Node 0 SExc (rf l') (tlevel KAlt q None)
                   | _ :: l' => rf l'
                   end) body)).
  { induction body as [|[k0 q0] body IHb]; [reflexivity|].
    inversion IH as [|? ? Hq Hrest]; subst. specialize (IHb Hrest). simpl in Hq.
    cbn [go]. fold go. destruct k0.
    - cbn [stripT]. rewrite IHb. f_equal. apply (Hq KAlt None).
    - exact IHb.
    - exact IHb. }
  rewrite Hrf. clear Hrf.
  match goal with |- _ = stripT (_ body ?T0) => set (t0 := T0) end.
  assert (Ht0 : match option_map stripT acc with
                | None => stripT ((fix rf (l : list (kind * rule)) {struct l} : tree :=
                   match l with
                   | [] => Leaf 0 cs (tag_list tg)
                   | (KRef, q) :: l' => Node 0 SExc (rf l') (tlevel KAlt q None)
                   | _ :: l' => rf l'
                   end) body)
                | Some a => Node 0 (sel_of k) a (stripT ((fix rf (l : list (kind * rule)) {struct l} : tree :=
                   match l with
                   | [] => Leaf 0 cs (tag_list tg)
                   | (KRef, q) :: l' => Node 0 SExc (rf l') (tlevel KAlt q None)
                   | _ :: l' => rf l'
                   end) body))
                end = stripT t0).
  { unfold t0. destruct acc; reflexivity. }
  rewrite Ht0. clear Ht0. generalize t0. clear t0.
  induction body as [|[k0 q0] body IHb]; intros t0; [reflexivity|].
  inversion IH as [|? ? Hq Hrest]; subst. specialize (IHb Hrest). simpl in Hq.
  cbn [go]. fold go. destruct k0.
  - apply IHb.
  - rewrite <- IHb. f_equal. apply (Hq KAlt (Some t0)).
  - rewrite <- IHb. f_equal. apply (Hq KNext (Some t0)).
Qed.
Lemma tree_of_strip prog : tree_of (strip prog) = stripT (tree_of prog).
Proof. apply (tlevel_strip prog KAlt None). Qed.

Lemma has_next_strip r : has_next (strip r) = has_next r.
Proof.
  induction r as [cs tg body IH] using rule_ind'. cbn [strip has_next].
  induction body as [|[k0 q0] body IHb]; [reflexivity|].
  inversion IH as [|? ? Hq Hrest]; subst. specialize (IHb Hrest). simpl in Hq.
  rewrite Hq, IHb. reflexivity.
Qed.

Lemma stripT_erase t : stripT (erase t) = erase (stripT t).
Proof. induction t as [|i s l IHl r IHr]; simpl; [reflexivity|]. rewrite IHl, IHr. reflexivity. Qed.

(* ---- the fragment on tree level ---- *)
Definition conly (a : atom) : bool :=
  Nat.eqb (at_attr a) 0 && match at_rhs a with RConst _ => true | RAttr b => Nat.eqb b 0 end.

Section Frag.
  Variable selof : nat -> nat.
  (* reads and names c only *)
  Fixpoint cfree (t : tree) : bool :=
    match t with
    | Leaf _ cs c => forallb conly cs && forallb (fun tg => Nat.eqb (selof tg) 0) c
    | Node _ s l r => match s with SNext => false | _ => cfree l && cfree r end
    end.
  (* below the join: anything but a second join *)
  Fixpoint anyb (t : tree) : bool :=
    match t with
    | Leaf _ cs _ => forallb nomark cs
    | Node _ s l r => match s with SNext => false | _ => anyb l && anyb r end
    end.
  Fixpoint spine2 (t : tree) : bool :=
    match t with
    | Leaf _ cs _ => is_join cs && forallb nomark (tl cs)
    | Node _ SExc l r => spine2 l && anyb r
    | Node _ _ _ _ => false
    end.
  Fixpoint ok2 (t : tree) : bool :=
    match t with
    | Leaf _ cs c => forallb conly cs && forallb (fun tg => Nat.eqb (selof tg) 0) c
    | Node _ SExc l r => (ok2 l && cfree r) || (cfree l && (ok2 r || spine2 r))
    | Node _ SAlt l r => (ok2 l && cfree r) || (cfree l && ok2 r)
    | Node _ SNext _ _ => false
    end.

  Lemma conly_nomark a : conly a = true -> nomark a = true.
  Proof.
    unfold conly, nomark, is_marker. intros H. apply andb_prop in H. destruct H as [H _].
    apply Nat.eqb_eq in H. rewrite H. reflexivity.
  Qed.
  Lemma nomark_head cs : forallb nomark cs = true -> is_join cs = false.
  Proof.
    destruct cs as [|a cs]; [reflexivity|]. simpl. intros H. apply andb_prop in H. destruct H as [H _].
    unfold nomark, is_marker in H. apply negb_true_iff in H. exact H.
  Qed.
  Lemma forallb_impl {A} (f g : A -> bool) l : (forall x, f x = true -> g x = true) -> forallb f l = true -> forallb g l = true.
  Proof. intros H. rewrite !forallb_forall. intros H1 x Hx. apply H, H1, Hx. Qed.
  Lemma filter_all {A} (f : A -> bool) l : forallb f l = true -> filter f l = l.
  Proof.
    induction l as [|x l IH]; [reflexivity|]. simpl. intros H. apply andb_prop in H. destruct H as [H1 H2].
    rewrite H1, IH; auto.
  Qed.

  Lemma cfree_anyb t : cfree t = true -> anyb t = true.
  Proof.
    induction t as [id cs c | id s l IHl r IHr]; simpl; intros H.
    - apply andb_prop in H. destruct H as [H _]. apply (forallb_impl _ _ _ conly_nomark H).
    - destruct s; try discriminate; apply andb_prop in H; destruct H as [H1 H2]; rewrite IHl, IHr; auto.
  Qed.
  Lemma anyb_jfree t : anyb t = true -> jfree t = true /\ nextfree t = true /\ stripT t = t.
  Proof.
    induction t as [id cs c | id s l IHl r IHr]; simpl; intros H.
    - rewrite (nomark_head cs H), (filter_all _ _ H). auto.
    - destruct s; try discriminate; apply andb_prop in H; destruct H as [H1 H2];
        destruct (IHl H1) as [A1 [A2 A3]]; destruct (IHr H2) as [B1 [B2 B3]]; rewrite A1, A2, A3, B1, B2, B3; auto.
  Qed.
  Lemma spine2_spineb t : spine2 t = true -> spineb t = true /\ nextfree t = true.
  Proof.
    induction t as [id cs c | id s l IHl r IHr]; simpl; intros H.
    - apply andb_prop in H. destruct H as [H _]. auto.
    - destruct s; try discriminate. apply andb_prop in H. destruct H as [H1 H2].
      destruct (IHl H1) as [A1 A2]. destruct (anyb_jfree r H2) as [B1 [B2 _]]. rewrite A1, A2, B1, B2. auto.
  Qed.
  Lemma cfree_jfree t : cfree t = true -> jfree t = true /\ nextfree t = true.
  Proof. intros H. destruct (anyb_jfree t (cfree_anyb t H)) as [A [B _]]. auto. Qed.
  Lemma ok2_okb t : ok2 t = true -> okb t = true /\ nextfree t = true.
  Proof.
    induction t as [id cs c | id s l IHl r IHr]; simpl; intros H.
    - apply andb_prop in H. destruct H as [H _]. rewrite (nomark_head cs (forallb_impl _ _ _ conly_nomark H)). auto.
    - destruct s; try discriminate.
      + apply orb_prop in H. destruct H as [H|H]; apply andb_prop in H; destruct H as [H1 H2].
        * destruct (IHl H1) as [A1 A2]. destruct (cfree_jfree r H2) as [B1 B2]. rewrite A1, A2, B1, B2. auto.
        * destruct (cfree_jfree l H1) as [A1 A2]. rewrite A1, A2. apply orb_prop in H2. destruct H2 as [H2|H2].
          -- destruct (IHr H2) as [B1 B2]. rewrite B1, B2. simpl. rewrite orb_true_r. auto.
          -- destruct (spine2_spineb r H2) as [B1 B2]. rewrite B1, B2. simpl. rewrite !orb_true_r. auto.
      + apply orb_prop in H. destruct H as [H|H]; apply andb_prop in H; destruct H as [H1 H2].
        * destruct (IHl H1) as [A1 A2]. destruct (cfree_jfree r H2) as [B1 B2]. rewrite A1, A2, B1, B2. auto.
        * destruct (cfree_jfree l H1) as [A1 A2]. destruct (IHr H2) as [B1 B2]. rewrite A1, A2, B1, B2. simpl. rewrite orb_true_r. auto.
  Qed.

  Variable Bs : list belem.

  (* without the join a tree reads the binding as one element *)
  Lemma pe2_jfree t : jfree t = true -> forall B, pe2 Bs t B = (pe t (elem_of B), B).
  Proof.
    induction t as [id cs c | id s l IHl r IHr]; simpl; intros H B.
    - apply negb_true_iff in H. rewrite H. reflexivity.
    - apply andb_prop in H. destruct H as [H1 H2]. rewrite (IHl H1 B).
      destruct (pe l (elem_of B)) as [fl cl]. rewrite (IHr H2 B). destruct (pe r (elem_of B)) as [fr cr].
      destruct s; destruct fl; destruct fr; reflexivity.
  Qed.
  Lemma holds_conly cs e e' : forallb conly cs = true -> fst e = fst e' -> holds e cs = holds e' cs.
  Proof.
    intros H He. unfold holds. induction cs as [|a cs IH]; [reflexivity|]. simpl in *.
    apply andb_prop in H. destruct H as [Ha H]. rewrite (IH H). f_equal.
    unfold conly in Ha. apply andb_prop in Ha. destruct Ha as [A1 A2]. apply Nat.eqb_eq in A1.
    unfold atom_holds. rewrite A1. cbn [attr_of]. rewrite He. destruct (at_rhs a) as [k|b]; [reflexivity|].
    apply Nat.eqb_eq in A2. subst b. cbn [attr_of]. rewrite He. reflexivity.
  Qed.
  Lemma pe_cfree t e e' : cfree t = true -> fst e = fst e' -> pe t e = pe t e'.
  Proof.
    induction t as [id cs c | id s l IHl r IHr]; simpl; intros H He.
    - apply andb_prop in H. destruct H as [H _]. rewrite (holds_conly cs e e' H He). reflexivity.
    - destruct s; try discriminate; apply andb_prop in H; destruct H as [H1 H2]; rewrite (IHl H1 He), (IHr H2 He); reflexivity.
  Qed.
  Lemma pe_cfree_tags t e : cfree t = true -> forall tg, In tg (snd (pe t e)) -> selof tg = 0.
  Proof.
    induction t as [id cs c | id s l IHl r IHr]; simpl; intros H tg Hin.
    - apply andb_prop in H. destruct H as [_ H]. rewrite forallb_forall in H. apply Nat.eqb_eq. apply H. exact Hin.
    - assert (Hl : cfree l = true /\ cfree r = true) by (destruct s; try discriminate; apply andb_prop in H; exact H).
      destruct Hl as [H1 H2]. specialize (IHl H1). specialize (IHr H2).
      destruct (pe l e) as [fl cl]. destruct (pe r e) as [fr cr]. cbn [snd] in *.
      destruct s; destruct fl; destruct fr; cbn [snd] in Hin; try (destruct Hin; fail);
        apply union_in in Hin; destruct Hin as [[]|Hin]; auto.
  Qed.

  (* the joining refinement: b becomes c.parent, and the remaining conditions read (c.k, c.parent.a) *)
  Lemma pe2_spine t : spine2 t = true -> forall B a, nth_error Bs (parent_of B) = Some a ->
    let B1 := {| bc := bc B; bb := Some (parent_of B, a) |} in
    pe2 Bs t B = (pe (stripT t) (elem_of B1), B1).
  Proof.
    induction t as [id cs c | id s l IHl r IHr]; simpl; intros H B a Hp.
    - apply andb_prop in H. destruct H as [Hj Hn]. rewrite Hj, Hp.
      destruct cs as [|a0 cs]; [discriminate|]. cbn [tl] in *. simpl in Hj.
      cbn [filter]. unfold nomark at 1, is_marker. rewrite Hj. cbn [negb]. rewrite (filter_all _ _ Hn). reflexivity.
    - destruct s; try discriminate. apply andb_prop in H. destruct H as [H1 H2].
      rewrite (IHl H1 B a Hp). destruct (anyb_jfree r H2) as [Hjr [_ Hsr]]. rewrite Hsr.
      destruct (pe (stripT l) _) as [fl cl]. rewrite (pe2_jfree r Hjr). destruct (pe r _) as [fr cr].
      destruct fl; destruct fr; reflexivity.
  Qed.

  (* the whole tree, entered with b unbound *)
  Lemma pe2_ok2 t : ok2 t = true -> forall B a, bb B = None -> nth_error Bs (parent_of B) = Some a ->
    let e := (fst (snd (bc B)), a) in
    let p := pe2 Bs t B in
    (fst (fst p), snd (fst p)) = pe (stripT t) e /\
    bc (snd p) = bc B /\
    (bb (snd p) = None \/ bb (snd p) = Some (parent_of B, a)) /\
    (forall tg, In tg (snd (fst p)) -> selof tg <> 0 -> bb (snd p) = Some (parent_of B, a)).
  Proof.
    induction t as [id cs c | id s l IHl r IHr]; intros H B a Hb Hp e.
    - simpl in H. assert (Hcf : cfree (Leaf id cs c) = true) by exact H.
      destruct (cfree_jfree _ Hcf) as [Hj _]. destruct (anyb_jfree _ (cfree_anyb _ Hcf)) as [_ [_ Hs]].
      rewrite Hs. cbv zeta. rewrite (pe2_jfree _ Hj). cbn [fst snd].
      rewrite (pe_cfree _ (elem_of B) e Hcf) by reflexivity.
      split; [destruct (pe (Leaf id cs c) e); reflexivity|]. split; [reflexivity|]. split; [left; exact Hb|].
      intros tg Hin Hne. exfalso. apply Hne. eapply pe_cfree_tags; eauto.
    - assert (Hcfree : forall u B0, cfree u = true -> fst (elem_of B0) = fst e ->
                 pe2 Bs u B0 = (pe (stripT u) e, B0) /\ forall tg, In tg (snd (pe (stripT u) e)) -> selof tg = 0).
      { intros u B0 Hu He. destruct (cfree_jfree _ Hu) as [Hj _]. destruct (anyb_jfree _ (cfree_anyb _ Hu)) as [_ [_ Hs]].
        rewrite Hs, (pe2_jfree _ Hj), (pe_cfree _ _ e Hu He). split; [reflexivity|]. apply pe_cfree_tags. exact Hu. }
      assert (He0 : fst (elem_of B) = fst e) by reflexivity.
      cbn [stripT]. destruct s; simpl in H; try discriminate.
      + (* ExceptIf *)
        apply orb_prop in H. destruct H as [H|H]; apply andb_prop in H; destruct H as [H1 H2].
        * destruct (IHl H1 B a Hb Hp) as [A1 [A2 [A3 A4]]]. fold e in A1. cbv zeta. cbn [pe2 pe].
          destruct (pe2 Bs l B) as [[fl cl] Bl]. cbn [fst snd] in *. rewrite <- A1.
          assert (HeBl : fst (elem_of Bl) = fst e) by (unfold elem_of; rewrite A2; reflexivity).
          destruct (Hcfree r Bl H2 HeBl) as [R1 R2]. rewrite R1. destruct (pe (stripT r) e) as [fr cr]. cbn [snd] in R2.
          destruct fl; [cbn [fst snd]; repeat split; auto; intros tg []|].
          destruct fr; cbn [fst snd]; (split; [reflexivity|]); (split; [exact A2|]); (split; [exact A3|]); intros tg Hin Hne;
            apply union_in in Hin; destruct Hin as [[]|Hin]; first [apply (A4 tg); assumption|exfalso; apply Hne, R2, Hin].
        * destruct (Hcfree l B H1 He0) as [L1 L2]. cbv zeta. cbn [pe2 pe]. rewrite L1.
          destruct (pe (stripT l) e) as [fl cl]. cbn [snd] in L2.
          destruct fl; [cbn [fst snd]; repeat split; auto; intros tg []|].
          apply orb_prop in H2. destruct H2 as [H2|H2].
          -- destruct (IHr H2 B a Hb Hp) as [A1 [A2 [A3 A4]]]. fold e in A1.
             destruct (pe2 Bs r B) as [[fr cr] Br]. cbn [fst snd] in *. rewrite <- A1.
             destruct fr; cbn [fst snd]; (split; [reflexivity|]).
             ++ split; [reflexivity|]. split; [left; exact Hb|]. intros tg Hin Hne.
                apply union_in in Hin; destruct Hin as [[]|Hin]. exfalso. apply Hne, L2, Hin.
             ++ split; [exact A2|]. split; [exact A3|]. intros tg Hin Hne.
                apply union_in in Hin; destruct Hin as [[]|Hin]. apply (A4 tg); assumption.
          -- rewrite (pe2_spine r H2 B a Hp).
             assert (Ee : elem_of {| bc := bc B; bb := Some (parent_of B, a) |} = e) by reflexivity.
             rewrite Ee. destruct (pe (stripT r) e) as [fr cr].
             destruct fr; cbn [fst snd]; (split; [reflexivity|]).
             ++ split; [reflexivity|]. split; [left; exact Hb|]. intros tg Hin Hne.
                apply union_in in Hin; destruct Hin as [[]|Hin]. exfalso. apply Hne, L2, Hin.
             ++ split; [reflexivity|]. split; [right; reflexivity|]. intros; reflexivity.
      + (* ElseIf *)
        apply orb_prop in H. destruct H as [H|H]; apply andb_prop in H; destruct H as [H1 H2].
        * destruct (IHl H1 B a Hb Hp) as [A1 [A2 [A3 A4]]]. fold e in A1. cbv zeta. cbn [pe2 pe].
          destruct (pe2 Bs l B) as [[fl cl] Bl]. cbn [fst snd] in *. rewrite <- A1.
          assert (HeBl : fst (elem_of Bl) = fst e) by (unfold elem_of; rewrite A2; reflexivity).
          destruct (Hcfree r Bl H2 HeBl) as [R1 R2]. rewrite R1. destruct (pe (stripT r) e) as [fr cr]. cbn [snd] in R2.
          destruct fl.
          -- destruct fr; cbn [fst snd]; (split; [reflexivity|]); (split; [exact A2|]); (split; [exact A3|]); intros tg Hin Hne;
               [destruct Hin|]. apply union_in in Hin; destruct Hin as [[]|Hin]. exfalso. apply Hne, R2, Hin.
          -- cbn [fst snd]. split; [reflexivity|]. split; [exact A2|]. split; [exact A3|]. intros tg Hin Hne.
             apply union_in in Hin; destruct Hin as [[]|Hin]. apply (A4 tg); assumption.
        * destruct (Hcfree l B H1 He0) as [L1 L2]. cbv zeta. cbn [pe2 pe]. rewrite L1.
          destruct (pe (stripT l) e) as [fl cl]. cbn [snd] in L2.
          destruct fl.
          -- destruct (IHr H2 B a Hb Hp) as [A1 [A2 [A3 A4]]]. fold e in A1.
             destruct (pe2 Bs r B) as [[fr cr] Br]. cbn [fst snd] in *. rewrite <- A1.
             destruct fr; cbn [fst snd]; (split; [reflexivity|]); (split; [exact A2|]); (split; [exact A3|]); intros tg Hin Hne;
               [destruct Hin|]. apply union_in in Hin; destruct Hin as [[]|Hin]. apply (A4 tg); assumption.
          -- cbn [fst snd]. split; [reflexivity|]. split; [reflexivity|]. split; [left; exact Hb|]. intros tg Hin Hne.
             apply union_in in Hin; destruct Hin as [[]|Hin]. exfalso. apply Hne, L2, Hin.
  Qed.
End Frag.

(* ---- ids do not matter ---- *)
Lemma jfree_erase t : jfree (erase t) = jfree t.
Proof. induction t as [|i s l IHl r IHr]; simpl; [reflexivity|]. rewrite IHl, IHr. reflexivity. Qed.
Lemma spineb_erase t : spineb (erase t) = spineb t.
Proof. induction t as [|i s l IHl r IHr]; simpl; [reflexivity|]. rewrite IHl, jfree_erase. reflexivity. Qed.
Lemma okb_erase t : okb (erase t) = okb t.
Proof. induction t as [|i s l IHl r IHr]; simpl; [reflexivity|]. rewrite IHl, IHr, !jfree_erase, spineb_erase. reflexivity. Qed.
Lemma pe2_erase Bs t : forall B, pe2 Bs (erase t) B = pe2 Bs t B.
Proof.
  induction t as [|i s l IHl r IHr]; intros B; simpl; [reflexivity|]. rewrite IHl.
  destruct (pe2 Bs l B) as [[fl cl] Bl]. rewrite IHr. reflexivity.
Qed.

(* ---- the theorem ---- *)
Definition model2 (selof : nat -> nat) (prog : rule) (Cs : list celem) (Bs : list belem) : option (list (list nat * bind2)) :=
  match build prog with
  | Some h => match reify h with Some t => Some (run2 selof Cs Bs t) | None => None end
  | None => None
  end.
Definition F2b (selof : nat -> nat) (prog : rule) : bool := negb (has_next prog) && ok2 selof (tree_of prog).
Definition inrangeb (Cs : list celem) (Bs : list belem) : bool := forallb (fun c => Nat.ltb (snd c) (length Bs)) Cs.

Lemma enum_from_nth {A} (L : list A) d : forall j i x, In (i, x) (enum_from j L) -> j <= i /\ nth (i - j) L d = x.
Proof.
  induction L as [|y L IH]; intros j i x H; [destruct H|]. simpl in H. destruct H as [E|H].
  - inversion E; subst. rewrite Nat.sub_diag. split; [lia|reflexivity].
  - apply IH in H. destruct H as [H1 H2]. split; [lia|]. replace (i - j) with (S (i - S j)) by lia. exact H2.
Qed.
Lemma enum_from_map {A B} (f : A -> B) (L : list A) : forall j,
  enum_from j (map f L) = map (fun ia => (fst ia, f (snd ia))) (enum_from j L).
Proof. induction L as [|y L IH]; intros j; [reflexivity|]. simpl. rewrite IH. reflexivity. Qed.

Section Final.
  Variable selof : nat -> nat.
  Variables (Cs : list celem) (Bs : list belem).

  Lemma rows_of_element prog t i c a :
    erase t = tree_of prog -> F2b selof prog = true -> nth i Cs (0%Z, 0) = c -> nth_error Bs (snd c) = Some a ->
    insts selof (rows2 Bs t (cbind (i, c)))
    = map (inst2 selof Cs) (map (fun tg => (tg, i)) (rdr1 (strip prog) (fst c, nth (snd c) Bs 0%Z))).
  Proof.
    intros He HF Hnth Hp. unfold F2b in HF. apply andb_prop in HF. destruct HF as [Hn Hok]. apply negb_true_iff in Hn.
    assert (Hn' : has_next (strip prog) = false) by (rewrite has_next_strip; exact Hn).
    destruct (pe_tree_of (strip prog) (fst c, nth (snd c) Bs 0%Z) Hn') as [_ [Hr _]]. rewrite Hr. clear Hr.
    rewrite tree_of_strip.
    assert (Ea : nth (snd c) Bs 0%Z = a) by (apply nth_error_nth; exact Hp).
    rewrite Ea.
    destruct (pe2_ok2 selof Bs (tree_of prog) Hok (cbind (i, c)) a eq_refl Hp) as [A1 [A2 [A3 A4]]].
    cbn [cbind bc snd fst] in A1. unfold rows2. rewrite <- (pe2_erase Bs t), He.
    destruct (pe2 Bs (tree_of prog) (cbind (i, c))) as [[f cc] B']. cbn [fst snd] in *. rewrite <- A1. cbn [fst snd].
    destruct f; [reflexivity|].
    assert (Hmap : map (fun tg => inst_of selof tg B') cc = map (inst2 selof Cs) (map (fun tg => (tg, i)) cc)).
    { rewrite map_map. apply map_ext_in. intros tg Htg. unfold inst_of, inst2. cbn [fst snd]. rewrite A2. cbn [fst].
      f_equal. destruct (Nat.eqb (selof tg) 0) eqn:E0; [reflexivity|].
      apply Nat.eqb_neq in E0. rewrite (A4 tg Htg E0). f_equal. transitivity (snd c); [reflexivity|]. f_equal. symmetry. exact Hnth. }
    destruct cc as [|c0 cc']; [reflexivity|]. unfold insts. cbn [flat_map fst snd]. rewrite app_nil_r. exact Hmap.
  Qed.

  Theorem rules2_ok prog : F2b selof prog = true -> inrangeb Cs Bs = true ->
    exists rows, model2 selof prog Cs Bs = Some rows /\
                 forall x, In x (insts selof rows) <-> In x (rdr2 selof prog Cs Bs).
  Proof.
    intros HF Hin.
    destruct (build_written prog) as [h [t [Hb [Hr [He Hnd]]]]].
    unfold model2. rewrite Hb, Hr. eexists. split; [reflexivity|].
    assert (Hok : ok2 selof (tree_of prog) = true) by (unfold F2b in HF; apply andb_prop in HF; apply HF).
    destruct (ok2_okb selof _ Hok) as [Hokb Hnf].
    rewrite <- He, okb_erase in Hokb. rewrite <- He, nextfree_erase in Hnf.
    assert (Hrange : inrange Cs Bs).
    { intros c Hc. unfold inrangeb in Hin. rewrite forallb_forall in Hin. apply Nat.ltb_lt. apply Hin. exact Hc. }
    intros x. rewrite (run2_okb selof Cs Bs t Hokb Hnf Hnd Hrange x).
    assert (Heq : insts selof (flat_map (fun ic => rows2 Bs t (cbind ic)) (enum Cs)) = rdr2 selof prog Cs Bs); [|rewrite Heq; tauto].
    unfold rdr2, rdr, encode_world, enum. rewrite enum_from_map.
    assert (Hgen : forall L, (forall i c, In (i, c) L -> nth i Cs (0%Z, 0) = c /\ In c Cs) ->
              insts selof (flat_map (fun ic => rows2 Bs t (cbind ic)) L)
              = map (inst2 selof Cs)
                  (flat_map (fun ie => map (fun tg => (tg, fst ie)) (rdr1 (strip prog) (snd ie)))
                     (map (fun ia : nat * celem => (fst ia, (fst (snd ia), nth (snd (snd ia)) Bs 0%Z))) L))).
    { induction L as [|[i c] L IH]; intros HL; [reflexivity|].
      cbn [flat_map map fst snd]. rewrite insts_app, map_app. f_equal.
      - destruct (HL i c (or_introl eq_refl)) as [Hn Hc].
        destruct (nth_error Bs (snd c)) as [a|] eqn:E.
        + apply (rows_of_element prog t i c a He HF Hn E).
        + apply nth_error_None in E. specialize (Hrange c Hc). lia.
      - apply IH. intros i' c' H'. apply HL. right. exact H'. }
    apply Hgen. intros i c Hic. destruct (enum_from_nth Cs (0%Z, 0) 0 i c Hic) as [_ Hn]. rewrite Nat.sub_0_r in Hn.
    split; [exact Hn|]. eapply enum_from_in. exact Hic.
  Qed.
End Final.

(* ---- a witness inside the fragment: two connections share a body, the conclusion of J names b only ---- *)
Definition w2_prog : rule :=
  Rule [Atom 0 CGe (RConst 0%Z)] (Some 0)
       [(KRef, Rule [Atom 2 CEq (RConst 0%Z); Atom 1 CEq (RConst 1%Z)] (Some 1)
                    [(KRef, Rule [Atom 0 CEq (RConst 2%Z)] (Some 2) [])])].
Definition w2_sel (t : nat) : nat := match t with 0 => 0 | 1 => 1 | _ => 2 end.
Definition w2_Cs : list celem := [(0%Z, 0); (2%Z, 0); (1%Z, 1); (3%Z, 0)].
Definition w2_Bs : list belem := [1%Z; 0%Z].
Lemma rules2_nonvacuous :
  F2b w2_sel w2_prog = true /\ inrangeb w2_Cs w2_Bs = true /\
  rdr2 w2_sel w2_prog w2_Cs w2_Bs
  = [(1, None, Some 0); (2, Some 1, Some 0); (0, Some 2, None); (1, None, Some 0)] /\
  option_map (insts w2_sel) (model2 w2_sel w2_prog w2_Cs w2_Bs)
  = Some [(1, None, Some 0); (2, Some 1, Some 0); (0, Some 2, None)].
Proof. vm_compute. repeat split. Qed.
