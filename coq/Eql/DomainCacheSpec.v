(* C03 (a) -- Spec of iterating a variable's domain.  No dependency on the model.
   A domain element is represented by its [HashedValue.id_] (the wrapped value is a function of it).
   Right-hand side of the property: an evaluation that runs alone on a fresh query sees the elements of the
   domain iterable, in order.  [dedup] (first occurrences) is what the cache holds afterwards. *)
From Coq Require Import List ZArith Bool.
Import ListNotations.
Open Scope Z_scope.

Definition hv := Z.

Definition mem (v : hv) (l : list hv) : bool := existsb (Z.eqb v) l.

(* dict insertion keyed by id_: an existing key keeps its position *)
Definition ins (c : list hv) (v : hv) : list hv := if mem v c then c else c ++ [v].

Definition dedup (l : list hv) : list hv := fold_left ins l [].

(* what one iterator over the domain, run alone on a fresh cache, yields *)
Definition iter_spec (domain : list hv) : list hv := domain.

Definition is_prefix (a b : list hv) : Prop := exists x, b = a ++ x.

Fixpoint prefixb (a b : list hv) : bool :=
  match a, b with
  | [], _ => true
  | x :: a', y :: b' => Z.eqb x y && prefixb a' b'
  | _ :: _, [] => false
  end.

(* ---- Spec of a whole schedule over one domain: every iterator is independent of the others.
   An iterator is a position in [domain]; [None] = finished or abandoned (further next -> StopIteration).
   Log entry per operation: value yielded | -1 StopIteration | -3 create/abandon | -9 no such handle.  (-2 = RuntimeError never) *)
Inductive sop := SCreate | SNext (h : nat) | SAbandon (h : nat).

Fixpoint supd {A} (n : nat) (x : A) (l : list A) : list A :=
  match l, n with
  | [], _ => []
  | _ :: t, O => x :: t
  | a :: t, S n' => a :: supd n' x t
  end.

Definition spec_step (domain : list hv) (o : sop) (hs : list (option nat)) : Z * list (option nat) :=
  match o with
  | SCreate => (-3, hs ++ [Some O])
  | SNext h => match nth_error hs h with
               | None => (-9, hs)
               | Some None => (-1, hs)
               | Some (Some k) => match nth_error domain k with
                                  | Some v => (v, supd h (Some (S k)) hs)
                                  | None => (-1, supd h None hs)
                                  end
               end
  | SAbandon h => match nth_error hs h with
                  | None => (-9, hs)
                  | Some _ => (-3, supd h None hs)
                  end
  end.

Fixpoint spec_log (domain : list hv) (ops : list sop) (hs : list (option nat)) : list Z :=
  match ops with
  | [] => []
  | o :: r => let '(z, hs') := spec_step domain o hs in z :: spec_log domain r hs'
  end.
