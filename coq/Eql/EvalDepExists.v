(* C01 (flatten / nested sub-queries), proofs part 5: one positive existential conjunct over a plain or a flattened
   variable -- exists(y, body) or and_(c0, exists(y, body)) with c0, body quantifier-free (the shape
   exists(y, ...) with y = flatten(z.items), z = flatten(x.kids)).
   Exists de-duplicates its true results on the bindings of [exists_othersG]; nothing is lost when every variable the
   body may bind, other than y, is among them ([ex_closed], decidable). *)
From Coq Require Import List ZArith Bool Arith Lia.
From Krrood Require Import Eql.Syntax Eql.Sat Eql.Eval Eql.EvalProofs Eql.RunProofs Eql.EvalQInv Eql.EvalQDefs Eql.EvalQProofs
  Eql.EvalDepSpec Eql.EvalDep Eql.EvalDepGeneric Eql.EvalDepProofs Eql.EvalDepRun Eql.EvalDepExec.
Import ListNotations.

(* every variable the evaluation of [x] may bind *)
Fixpoint closv (ds : decls) (x : var) : list var :=
  match ds with
  | [] => [x]
  | (z, g) :: ds' => if Nat.eqb x z then z :: flat_map (closv ds') (gen_allvars g) else closv ds' x
  end.

Section Syntactic.
  Variable W : world.
  Variable E : venv.
  Let V := ve_var E.

  Section Pres.
    Hypothesis Hp : forall x b b' v, In (b', v) (V x b) -> pres b b'.

    Lemma opndG_pres e : forall b b' v, In (b', v) (evG_opnd W E e b) -> pres b b'.
    Proof.
      induction e as [w|x|e IH a]; simpl; intros b b' v Hin.
      - destruct Hin as [[= <- <-]|[]]. apply pres_refl.
      - eapply Hp; eauto.
      - apply in_map_iff in Hin as ([b1 v1] & [= <- <-] & H1). eauto.
    Qed.

    Lemma cmpG_pres op l r b b' f : In (b', f) (evG_cmp W E op l r b) -> pres b b'.
    Proof.
      intros H. apply cmpG_inv in H as (b1 & lv & rv & _ & [[H1 H2]|[H1 H2]]);
        eapply pres_trans; eapply opndG_pres; eauto.
    Qed.

    Lemma evalG_pres c : qfree c = true -> forall b b' f, In (b', f) (evalG W E c b) -> pres b b'.
    Proof.
      induction c as [op l r|l IHl r IHr|l IHl r IHr|l IHl r IHr|c IH|e c IH|y c IH]; simpl; intros Q b b' f Hin; try discriminate;
        try (apply andb_prop in Q as [Ql Qr]; specialize (IHl Ql); specialize (IHr Qr)); try specialize (IH Q).
      - eapply cmpG_pres; eauto.
      - apply in_flat_map in Hin as ([b1 f1] & H1 & H2). simpl in H2. destruct f1.
        + destruct H2 as [[= <- <-]|[]]. eauto.
        + eapply pres_trans; eauto.
      - apply in_flat_map in Hin as ([b1 f1] & H1 & H2). simpl in H2. destruct f1.
        + eapply pres_trans; eauto.
        + destruct H2 as [[= <- <-]|[]]. eauto.
      - apply in_app_or in Hin as [Hin|Hin]; [|apply filter_In in Hin as [Hin _]; eauto].
        apply in_flat_map in Hin as ([b1 f1] & H1 & H2). simpl in H2. destruct f1.
        + eapply pres_trans; eauto.
        + destruct H2 as [[= <- <-]|[]]. eauto.
      - apply in_map_iff in Hin as ([b1 f1] & [= <- <-] & H1). eauto.
    Qed.

    Lemma true_resultsG_pres c b b1 : qfree_opt c = true -> In b1 (true_resultsG W E c b) -> pres b b1.
    Proof.
      destruct c as [c|]; simpl; intros Q Hin.
      - apply in_map_iff in Hin as ([b2 f] & <- & Hf). apply filter_In in Hf as [Hf _]. eapply evalG_pres; eauto.
      - destruct Hin as [<-|[]]. apply pres_refl.
    Qed.
  End Pres.

  Section Dom.
    Variable C : var -> list var.
    Hypothesis Hd : forall x b b' v, In (b', v) (V x b) -> dom_in b b' (C x).

    Lemma opndG_dom e : forall b b' v, In (b', v) (evG_opnd W E e b) -> dom_in b b' (flat_map C (opnd_vars e)).
    Proof.
      induction e as [w|x|e IH a]; simpl; intros b b' v Hin.
      - destruct Hin as [[= <- <-]|[]]. apply dom_in_refl.
      - unfold opnd_vars. simpl. rewrite app_nil_r. eapply Hd; eauto.
      - apply in_map_iff in Hin as ([b1 v1] & [= <- <-] & H1). exact (IH _ _ _ H1).
    Qed.

    Lemma cmpG_dom op l r b b' f : In (b', f) (evG_cmp W E op l r b) -> dom_in b b' (flat_map C (opnd_vars l ++ opnd_vars r)).
    Proof.
      intros H. rewrite flat_map_app. apply cmpG_inv in H as (b1 & lv & rv & _ & [[H1 H2]|[H1 H2]]);
        (eapply dom_in_trans; [eapply opndG_dom; eauto|eapply opndG_dom; eauto| |]);
        intros x Hx; apply in_or_app; auto.
    Qed.

    Lemma evalG_dom c : qfree c = true -> forall b b' f, In (b', f) (evalG W E c b) -> dom_in b b' (flat_map C (cond_vars c)).
    Proof.
      induction c as [op l r|l IHl r IHr|l IHl r IHr|l IHl r IHr|c IH|e c IH|y c IH]; simpl; intros Q b b' f Hin; try discriminate;
        try (apply andb_prop in Q as [Ql Qr]; specialize (IHl Ql); specialize (IHr Qr); rewrite flat_map_app); try specialize (IH Q).
      - eapply cmpG_dom; eauto.
      - apply in_flat_map in Hin as ([b1 f1] & H1 & H2). simpl in H2. destruct f1.
        + destruct H2 as [[= <- <-]|[]]. eapply dom_in_weaken; eauto. intros; apply in_or_app; auto.
        + eapply dom_in_trans; eauto; intros; apply in_or_app; auto.
      - apply in_flat_map in Hin as ([b1 f1] & H1 & H2). simpl in H2. destruct f1.
        + eapply dom_in_trans; eauto; intros; apply in_or_app; auto.
        + destruct H2 as [[= <- <-]|[]]. eapply dom_in_weaken; eauto. intros; apply in_or_app; auto.
      - apply in_app_or in Hin as [Hin|Hin].
        + apply in_flat_map in Hin as ([b1 f1] & H1 & H2). simpl in H2. destruct f1.
          * eapply dom_in_trans; eauto; intros; apply in_or_app; auto.
          * destruct H2 as [[= <- <-]|[]]. eapply dom_in_weaken; eauto. intros; apply in_or_app; auto.
        + apply filter_In in Hin as [Hin _]. eapply dom_in_weaken; eauto. intros; apply in_or_app; auto.
      - apply in_map_iff in Hin as ([b1 f1] & [= <- <-] & H1). eauto.
    Qed.

    Lemma true_resultsG_dom c b b1 : qfree_opt c = true -> In b1 (true_resultsG W E c b) ->
      dom_in b b1 (flat_map C (cond_vars_opt c)).
    Proof.
      destruct c as [c|]; simpl; intros Q Hin.
      - apply in_map_iff in Hin as ([b2 f] & <- & Hf). apply filter_In in Hf as [Hf _]. eapply evalG_dom; eauto.
      - destruct Hin as [<-|[]]. apply dom_in_refl.
    Qed.
  End Dom.
End Syntactic.

Section LevelsSyn.
  Variable W : world.
  Variable D : domains.
  Let env (ds : decls) : venv := {| ve_var := evv W D ds; ve_roots := roots ds; ve_flat := flat_below ds |}.

  Lemma pres_cons b x v : lookup b x = None -> pres b ((x, v) :: b).
  Proof. intros Hn y u Hl. rewrite lookup_cons_ne; auto. intros ->. congruence. Qed.

  Lemma evv_pres ds : wf_sub_q ds = true -> forall x b b' v, In (b', v) (evv W D ds x b) -> pres b b'.
  Proof.
    induction ds as [|[z g] ds IH]; intros Hq x b b' v Hin.
    - simpl in Hin. unfold var_plain in Hin. destruct (lookup b x) eqn:E.
      + destruct Hin as [[= <- <-]|[]]. apply pres_refl.
      + apply in_map_iff in Hin as (w & [= <- <-] & _). now apply pres_cons.
    - simpl in Hq. apply andb_prop in Hq as [Hq0 Hq']. specialize (IH Hq'). simpl in Hin.
      destruct (Nat.eqb_spec x z) as [->|Hne]; [|eapply IH; eauto].
      destruct (lookup b z) eqn:E.
      + destruct Hin as [[= <- <-]|[]]. apply pres_refl.
      + assert (Hc : forall b1 w, pres b b1 -> pres b ((z, w) :: b1)).
        { intros b1 w Hp y u Hl. rewrite lookup_cons_ne; [auto|]. intros ->. congruence. }
        destruct g as [e|z0 c].
        * apply in_flat_map in Hin as ([b1 lv] & H1 & Hin). apply in_map_iff in Hin as (w & [= <- <-] & _).
          apply Hc. exact (opndG_pres W (env ds) IH e _ _ _ H1).
        * apply in_flat_map in Hin as (b1 & H1 & Hin). apply in_map_iff in Hin as ([b2 v2] & [= <- <-] & H2).
          apply Hc. simpl in *. eapply pres_trans; [exact (true_resultsG_pres W (env ds) IH c b b1 Hq0 H1)|eauto].
  Qed.

  Lemma dom_in_cons b b1 z w xs : dom_in b b1 xs -> dom_in b ((z, w) :: b1) (z :: xs).
  Proof.
    intros H y Hy. destruct (Nat.eq_dec y z) as [->|Hne]; [right; now left|].
    rewrite lookup_cons_ne in Hy by exact Hne. destruct (H y Hy); auto. right. now right.
  Qed.

  Lemma evv_dom ds : wf_sub_q ds = true -> forall x b b' v, In (b', v) (evv W D ds x b) -> dom_in b b' (closv ds x).
  Proof.
    induction ds as [|[z g] ds IH]; intros Hq x b b' v Hin.
    - simpl in Hin. unfold var_plain in Hin. destruct (lookup b x) eqn:E.
      + destruct Hin as [[= <- <-]|[]]. apply dom_in_refl.
      + apply in_map_iff in Hin as (w & [= <- <-] & _). simpl.
        apply (dom_in_cons b b x w []). apply dom_in_refl.
    - simpl in Hq. apply andb_prop in Hq as [Hq0 Hq']. specialize (IH Hq'). simpl in Hin. simpl closv.
      destruct (Nat.eqb_spec x z) as [->|Hne]; [|eapply IH; eauto].
      destruct (lookup b z) eqn:E.
      + destruct Hin as [[= <- <-]|[]]. apply dom_in_refl.
      + destruct g as [e|z0 c].
        * apply in_flat_map in Hin as ([b1 lv] & H1 & Hin). apply in_map_iff in Hin as (w & [= <- <-] & _).
          apply dom_in_cons. exact (opndG_dom W (env ds) (closv ds) IH e _ _ _ H1).
        * apply in_flat_map in Hin as (b1 & H1 & Hin). apply in_map_iff in Hin as ([b2 v2] & [= <- <-] & H2).
          apply dom_in_cons. simpl in *.
          eapply dom_in_trans; [exact (true_resultsG_dom W (env ds) (closv ds) IH c b b1 Hq0 H1)|exact (IH _ _ _ _ H2)| |].
          -- intros y Hy. apply in_or_app. now right.
          -- intros y Hy. apply in_or_app. now left.
  Qed.
End LevelsSyn.

(* ---------- the shape and its side conditions ---------- *)
Definition ex_shape (c : cond) : option (option cond * var * cond) :=
  match c with
  | CExists (OVar y) body => Some (None, y, body)
  | CAnd c0 (CExists (OVar y) body) => Some (Some c0, y, body)
  | _ => None
  end.

Definition strip_cond (c0 : option cond) (body : cond) : cond :=
  match c0 with Some c0 => CAnd c0 body | None => body end.

Definition others_of (DS : decls) (y : var) (body : cond) : list var :=
  remove_var y (roots DS y ++ flat_map (roots DS) (cond_vars body)) ++ flat_below DS y.

Definition ex_side (DS : decls) (sels : list opnd) (c0 : option cond) (y : var) (body : cond) : bool :=
  qfree_opt c0 && qfree body && nmem y (cond_vars body) &&
  negb (nmem y (cond_vars_opt c0)) && negb (nmem y (flat_map opnd_vars sels)) &&
  forallb (fun d : var * gen => negb (nmem y (gen_allvars (snd d)))) DS &&
  match find_decl DS y with Some (SubOf _ _) => false | _ => true end &&
  (* every variable the body may bind, other than y, is part of the de-duplication key *)
  forallb (fun x => Nat.eqb x y || nmem x (others_of DS y body)) (flat_map (closv DS) (cond_vars body)).

Lemma wf_find_decl DS z g : wf_ds DS = true -> In (z, g) DS -> find_decl DS z = Some g.
Proof.
  intros Hwf Hin. apply in_split in Hin as (pre & post & ->). now apply find_decl_at.
Qed.

Lemma vars_strip c0 body x : In x (cond_vars (strip_cond c0 body)) <-> In x (cond_vars_opt c0) \/ In x (cond_vars body).
Proof. unfold strip_cond. destruct c0; simpl; [rewrite in_app_iff|]; tauto. Qed.

Section Normalise.
  Variable W : world.
  Variable D : domains.

  (* an admissible assignment, with every sub-query's own variable set to the sub-query's value, is admissible in the
     strong sense the evaluator produces (first half of the proof of runD_complete) *)
  Lemma normalise DS q rho : wf_sub DS = true -> localb DS q = true ->
    validD W D DS [] (mentioned DS q) rho ->
    GoodD W D DS (norm DS rho) /\
    (forall x, ~ In x (locals DS) -> norm DS rho x = rho x) /\
    (forall x, In x (flat_map opnd_vars (q_sels q) ++ cond_vars_opt (q_cond q) ++
                     flat_map (fun d : var * gen => gen_vars (snd d)) DS) -> ~ In x (locals DS)) /\
    (forall z g, In (z, g) DS -> ~ In z (locals DS)).
  Proof.
    intros Hsub Hloc [Hv1 Hv2].
    unfold localb in Hloc. apply andb_prop in Hloc as [Hnd Hloc]. rewrite forallb_forall in Hloc.
    assert (HL : forall x, In x (flat_map opnd_vars (q_sels q) ++ cond_vars_opt (q_cond q) ++
                                 flat_map (fun d : var * gen => gen_vars (snd d)) DS) -> ~ In x (locals DS)).
    { intros x Hx. specialize (Hloc x Hx). apply negb_true_iff in Hloc. now apply nmem_false. }
    set (rho' := norm DS rho).
    assert (F0 : forall x, ~ In x (locals DS) -> rho' x = rho x).
    { intros x Hx. unfold rho', norm. now rewrite alias_none. }
    assert (F1 : forall z g, In (z, g) DS -> ~ In z (locals DS)).
    { intros z g Hz Hl. apply in_locals in Hl as (z' & c' & Hl).
      destruct (wf_sub_in DS z' z c' Hsub Hl) as [_ Hn]. exact (in_find_decl _ _ _ Hz Hn). }
    assert (HgenL : forall z g x, In (z, g) DS -> In x (gen_vars g) -> ~ In x (locals DS)).
    { intros z g x Hz Hx. apply HL. apply in_or_app. right. apply in_or_app. right.
      apply in_flat_map. exists (z, g). auto. }
    assert (HM3 : forall z g x, In (z, g) DS -> In x (gen_vars g) -> In x (mentioned DS q)).
    { intros z g x Hz Hx. unfold mentioned. apply in_or_app. right. apply in_or_app. right.
      apply in_flat_map. exists (z, g). auto. }
    repeat split; auto.
    - intros z g x Hz Hx Hp. fold rho'. rewrite F0 by (eapply HgenL; eauto). apply Hv1; eauto.
    - intros z g Hz. fold rho'. rewrite F0 by (eapply F1; eauto).
      rewrite (range_ext W D rho' rho g) by (intros x Hx; apply F0; eapply HgenL; eauto). apply Hv2; auto.
    - intros z z0 c Hz. fold rho'. rewrite (F0 z) by (eapply F1; eauto). unfold rho', norm.
      now rewrite (alias_some DS z z0 c Hnd Hz).
  Qed.
End Normalise.

Section ExTheorem.
  Variable W : world.
  Variable D : domains.

  Definition strip_query (q : query) (c0 : option cond) (body : cond) : query :=
    {| q_sels := q_sels q; q_cond := Some (strip_cond c0 body) |}.

  Definition in_FDx (DS : decls) (q : query) : bool :=
    match q_cond q with
    | Some c => match ex_shape c with
                | Some (c0, y, body) => ex_side DS (q_sels q) c0 y body && in_FD W D DS (strip_query q c0 body)
                | None => false
                end
    | None => false
    end.

  Variable DS : decls.
  Variable q : query.
  Variable c0 : option cond.
  Variable y : var.
  Variable body : cond.
  Let c := match c0 with Some c0 => CAnd c0 (CExists (OVar y) body) | None => CExists (OVar y) body end.
  Let q' := strip_query q c0 body.
  Let E := envD W D DS.
  Hypothesis Hcond : q_cond q = Some c.
  Hypothesis Hside : ex_side DS (q_sels q) c0 y body = true.
  Hypothesis HFD : in_FD W D DS q' = true.

  Let start (b0 : binds) : Prop :=
    match c0 with Some c0 => In (b0, false) (evalG W E c0 []) | None => b0 = [] end.

  Lemma true_results_ex b1 : In b1 (true_resultsG W E (Some c) []) <->
    exists b0, start b0 /\ In (b1, false) (exists_scan (others_of DS y body) [] (evalG W E body b0)).
  Proof.
    unfold true_resultsG, c, start. destruct c0 as [c0'|]; simpl; split.
    - intros H. apply in_map_iff in H as ([b2 f] & <- & Hf). apply filter_In in Hf as [Hf Ht]. simpl in *.
      destruct f; [discriminate|]. apply in_flat_map in Hf as ([b0 f0] & H0 & H1). simpl in H1. destruct f0.
      + destruct H1 as [[=]|[]].
      + exists b0. auto.
    - intros (b0 & H0 & H1). apply in_map_iff. exists (b1, false). split; auto. apply filter_In. split; auto.
      apply in_flat_map. exists (b0, false). auto.
    - intros H. apply in_map_iff in H as ([b2 f] & <- & Hf). apply filter_In in Hf as [Hf Ht]. simpl in *.
      destruct f; [discriminate|]. exists []. auto.
    - intros (b0 & -> & H1). apply in_map_iff. exists (b1, false). split; auto. apply filter_In. auto.
  Qed.

  Lemma true_results_strip b1 : In b1 (true_resultsG W E (q_cond q') []) <->
    exists b0, start b0 /\ In (b1, false) (evalG W E body b0).
  Proof.
    unfold q', strip_query, strip_cond, true_resultsG, start. simpl. destruct c0 as [c0'|]; simpl; split.
    - intros H. apply in_map_iff in H as ([b2 f] & <- & Hf). apply filter_In in Hf as [Hf Ht]. simpl in *.
      destruct f; [discriminate|]. apply in_flat_map in Hf as ([b0 f0] & H0 & H1). simpl in H1. destruct f0.
      + destruct H1 as [[=]|[]].
      + exists b0. auto.
    - intros (b0 & H0 & H1). apply in_map_iff. exists (b1, false). split; auto. apply filter_In. split; auto.
      apply in_flat_map. exists (b0, false). auto.
    - intros H. apply in_map_iff in H as ([b2 f] & <- & Hf). apply filter_In in Hf as [Hf Ht]. simpl in *.
      destruct f; [discriminate|]. exists []. auto.
    - intros (b0 & -> & H1). apply in_map_iff. exists (b1, false). split; auto. apply filter_In. auto.
  Qed.

  (* ----- what the side conditions say ----- *)
  Let Hside' := Hside.
  Lemma side_facts :
    qfree_opt c0 = true /\ qfree body = true /\ In y (cond_vars body) /\ ~ In y (cond_vars_opt c0) /\
    ~ In y (flat_map opnd_vars (q_sels q)) /\ (forall z g, In (z, g) DS -> ~ In y (gen_allvars g)) /\
    (forall z0 cz, find_decl DS y <> Some (SubOf z0 cz)) /\
    (forall x, In x (flat_map (closv DS) (cond_vars body)) -> x = y \/ In x (others_of DS y body)).
  Proof.
    pose proof Hside as H. unfold ex_side in H.
    repeat (apply andb_prop in H as [H ?]).
    repeat split; auto.
    - now apply nmem_true.
    - apply nmem_false. now apply negb_true_iff.
    - apply nmem_false. now apply negb_true_iff.
    - intros z g Hin. match goal with F : forallb _ DS = true |- _ => rewrite forallb_forall in F; specialize (F _ Hin) end.
      simpl in H2. apply nmem_false. now apply negb_true_iff.
    - intros z0 cz Hf. rewrite Hf in H1. discriminate.
    - intros x Hx. rewrite forallb_forall in H0. specialize (H0 x Hx). apply orb_prop in H0 as [H0|H0].
      + left. now apply Nat.eqb_eq.
      + right. now apply nmem_true.
  Qed.

  Lemma FD_facts : wf_ds DS = true /\ wf_sub DS = true /\ localb DS q' = true.
  Proof.
    pose proof HFD as H. unfold in_FD in H. cbv zeta in H.
    apply andb_prop in H as [H _]. apply andb_prop in H as [H _]. apply andb_prop in H as [H _].
    apply andb_prop in H as [H Hl]. apply andb_prop in H as [Hw Hs]. auto.
  Qed.

  Lemma qfree_strip : qfree (strip_cond c0 body) = true.
  Proof.
    destruct side_facts as (Q0 & Qb & _). unfold strip_cond. destruct c0; simpl in *; auto. now rewrite Q0, Qb.
  Qed.


  (* ----- soundness ----- *)
  Lemma runD_ex_sound row : In row (runD W D DS q) -> answerD W D DS q row.
  Proof.
    intros Hin. destruct side_facts as (Q0 & Qb & Hyb & Hy0 & Hys & Hyg & Hysub & Hclos).
    destruct FD_facts as (Hwf & Hsub & Hloc).
    unfold runD, runG in Hin. fold E in Hin. rewrite Hcond in Hin.
    apply in_flat_map in Hin as (b1 & Hb1 & Hrow).
    apply true_results_ex in Hb1 as (b0 & Hs0 & Hsc). apply exists_scan_in in Hsc as [Hsc _].
    assert (Hrun' : In row (runD W D DS q')).
    { unfold runD, runG. fold E. apply in_flat_map. exists b1. split; [|exact Hrow].
      apply true_results_strip. eauto. }
    apply (in_FD_exact W D DS q' HFD) in Hrun' as (rho & [Hv1 Hv2] & Hsat & ->).
    assert (HQ : qvarsD_opt (q_cond q') = []) by (simpl; apply qvarsD_qfree, qfree_strip).
    rewrite HQ in Hv2. simpl in Hsat. rewrite satD_qfree in Hsat by apply qfree_strip.
    assert (Hs0' : sat_opt W D rho c0 = true /\ sat W D rho body = true).
    { unfold strip_cond in Hsat. destruct c0; simpl in *; [apply andb_prop in Hsat|]; auto. }
    destruct Hs0' as [Hsat0 Hsatb].
    exists rho. split; [|split; auto].
    - split.
      + intros x Hx Hp. apply Hv1; auto. unfold mentioned in *. rewrite Hcond in Hx. simpl in *.
        apply in_app_or in Hx as [Hx|Hx]; [apply in_or_app; now left|]. apply in_or_app. right.
        apply in_app_or in Hx as [Hx|Hx]; [|apply in_or_app; now right].
        rewrite fvD_qfree by apply qfree_strip.
        assert (Hex : In x (remove_var y (fvD DS body) ++ qdeps DS y) -> In x (cond_vars (strip_cond c0 body) ++ flat_map (fun d : var * gen => gen_vars (snd d)) DS)).
        { intros Hx'. apply in_app_or in Hx' as [Hx'|Hx'].
          - apply in_or_app. left. apply vars_strip. right. apply in_remove_var in Hx' as [Hx' _]. now rewrite fvD_qfree in Hx'.
          - apply in_or_app. right. unfold qdeps in Hx'. destruct (find_decl DS y) as [g|] eqn:Ef; [|contradiction].
            apply in_flat_map. exists (y, g). split; auto. now apply find_decl_in. }
        unfold c in Hx. destruct c0 as [c0'|]; simpl in Hx.
        * apply in_app_or in Hx as [Hx|Hx]; [|apply Hex; exact Hx].
          apply in_or_app. left. apply vars_strip. left. simpl in *. now rewrite fvD_qfree in Hx.
        * apply Hex. exact Hx.
      + intros z g Hz _. apply Hv2; auto.
    - rewrite Hcond. simpl.
      assert (Hex : satD W D DS rho (CExists (OVar y) body) = true).
      { simpl. apply existsb_exists. exists (rho y). split.
        - unfold qrange. destruct (find_decl DS y) as [g|] eqn:Ef.
          + apply Hv2; auto. now apply find_decl_in.
          + apply Hv1; auto. unfold mentioned. simpl. apply in_or_app. right. apply in_or_app. left.
            rewrite fvD_qfree by apply qfree_strip. apply vars_strip. now right.
        - rewrite satD_qfree by exact Qb. rewrite <- Hsatb. apply sat_ext. intros x _. unfold upd.
          destruct (Nat.eqb_spec x y) as [->|]; auto. }
      unfold c. destruct c0 as [c0'|]; simpl in *; [|exact Hex].
      rewrite satD_qfree by exact Q0. rewrite Hsat0. exact Hex.
  Qed.

  (* ----- completeness ----- *)
  Lemma runD_ex_complete row : answerD W D DS q row -> In row (runD W D DS q).
  Proof.
    intros (rho & [Hv1 Hv2] & Hsat & ->).
    destruct side_facts as (Q0 & Qb & Hyb & Hy0 & Hys & Hyg & Hysub & Hclos).
    destruct FD_facts as (Hwf & Hsub & Hloc).
    rewrite Hcond in Hsat, Hv2. simpl in Hsat, Hv2.
    assert (HQ : qvarsD c = [y]).
    { unfold c. destruct c0 as [c0'|]; simpl in *; rewrite ?(qvarsD_qfree _ Q0), (qvarsD_qfree _ Qb); reflexivity. }
    rewrite HQ in Hv2.
    (* the witness of the existential *)
    assert (Hw : sat_opt W D rho c0 = true /\ exists v, In v (qrange W D DS rho y) /\ sat W D (upd rho y v) body = true).
    { assert (Hex : satD W D DS rho (CExists (OVar y) body) = true ->
                    exists v, In v (qrange W D DS rho y) /\ sat W D (upd rho y v) body = true).
      { simpl. intros H. apply existsb_exists in H as (v & Hv & Hs). exists v. split; auto. now rewrite satD_qfree in Hs. }
      unfold c in Hsat. destruct c0 as [c0'|]; simpl in *.
      - apply andb_prop in Hsat as [H1 H2]. rewrite satD_qfree in H1 by exact Q0. auto.
      - auto. }
    destruct Hw as (Hsat0 & v & Hv & Hsatb).
    set (rho1 := upd rho y v).
    assert (Hgy : forall z g, In (z, g) DS -> ~ In y (gen_vars g)).
    { intros z g Hz Hy. apply (Hyg z g Hz). now apply gen_vars_sub. }
    assert (Hr1 : forall z g, In (z, g) DS -> range W D rho1 g = range W D rho g).
    { intros z g Hz. apply range_ext. intros x Hx. unfold rho1. apply upd_ne. intros ->. exact (Hgy z g Hz Hx). }
    (* rho1 is admissible for the query without the quantifier *)
    assert (Hval1 : validD W D DS [] (mentioned DS q') rho1).
    { split.
      - intros x Hx Hp. unfold rho1. destruct (Nat.eq_dec x y) as [->|Hne].
        + rewrite upd_eq. unfold qrange in Hv. now rewrite Hp in Hv.
        + rewrite upd_ne by exact Hne. apply Hv1; auto. unfold mentioned in *. rewrite Hcond. simpl in *.
          apply in_app_or in Hx as [Hx|Hx]; [apply in_or_app; now left|]. apply in_or_app. right.
          apply in_app_or in Hx as [Hx|Hx]; [|apply in_or_app; now right]. apply in_or_app. left.
          rewrite fvD_qfree in Hx by apply qfree_strip. apply vars_strip in Hx.
          assert (Hb : In x (cond_vars body) -> In x (remove_var y (fvD DS body) ++ qdeps DS y)).
          { intros Hxb. apply in_or_app. left. apply in_remove_var. split; auto. now rewrite fvD_qfree. }
          unfold c. destruct c0 as [c0'|]; simpl in *.
          * destruct Hx as [Hx|Hx]; apply in_or_app; [left; now rewrite fvD_qfree|right; auto].
          * destruct Hx as [[]|Hx]. auto.
      - intros z g Hz _. rewrite (Hr1 z g Hz). unfold rho1. destruct (Nat.eq_dec z y) as [->|Hne].
        + rewrite upd_eq. unfold qrange in Hv. now rewrite (wf_find_decl DS y g Hwf Hz) in Hv.
        + rewrite upd_ne by exact Hne. apply Hv2; auto. intros [Hc|[]]. congruence. }
    destruct (normalise W D DS q' rho1 Hsub Hloc Hval1) as (Hgood & F0 & HL & F1).
    set (rho1' := norm DS rho1) in *.
    assert (HyL : ~ In y (locals DS)).
    { apply HL. simpl. apply in_or_app. right. apply in_or_app. left. apply vars_strip. now right. }
    assert (HcondL : forall x, In x (cond_vars_opt c0) \/ In x (cond_vars body) -> ~ In x (locals DS)).
    { intros x Hx. apply HL. simpl. apply in_or_app. right. apply in_or_app. left. now apply vars_strip. }
    assert (HselL : forall x, In x (flat_map opnd_vars (q_sels q)) -> ~ In x (locals DS)).
    { intros x Hx. apply HL. simpl. apply in_or_app. now left. }
    assert (HInD : forall x, In x (flat_map opnd_vars (q_sels q)) \/ In x (cond_vars_opt c0) \/ In x (cond_vars body) ->
                   InD D DS rho1' x).
    { intros x Hx Hp. rewrite F0.
      - destruct Hval1 as [H1 _]. apply H1; auto. unfold mentioned. simpl. destruct Hx as [Hx|Hx].
        + apply in_or_app. now left.
        + apply in_or_app. right. apply in_or_app. left. rewrite fvD_qfree by apply qfree_strip. now apply vars_strip.
      - destruct Hx as [Hx|Hx]; [now apply HselL|now apply HcondL]. }
    assert (Hsat0' : sat_opt W D rho1' c0 = true).
    { rewrite <- Hsat0. destruct c0 as [c0'|] eqn:Ec0; simpl in *; auto. apply sat_ext. intros x Hx.
      apply fv_sub_vars in Hx. rewrite F0 by (apply HcondL; now left). unfold rho1. apply upd_ne. intros ->. contradiction. }
    assert (Hsatb' : sat W D rho1' body = true).
    { rewrite <- Hsatb. apply sat_ext. intros x Hx. apply fv_sub_vars in Hx. apply F0. apply HcondL. now right. }
    (* the evaluator's side *)
    assert (Hc : forall x b rho0, GoodD W D DS rho0 -> (undecl [] x /\ InD D DS rho0 x) -> extends rho0 b ->
                   exists b', In (b', rho0 x) (evv W D DS x b) /\ extends rho0 b').
    { intros x b rho0 G [U I] Ex. eapply (evv_complete W D DS Hwf Hsub DS [] eq_refl); eauto. }
    assert (Hun : forall x, undecl [] x) by (intros x z g []).
    assert (Hk : forall x b b' v0, undecl [] x -> In (b', v0) (evv W D DS x b) -> BokD W D DS b -> BokD W D DS b')
      by (intros; eapply (evv_keep W D DS Hwf Hsub DS [] eq_refl); eauto).
    assert (Hq : wf_sub_q DS = true) by (now apply wf_sub_q_of).
    (* stage 1: the quantifier-free conjunct *)
    assert (Hst : exists b0, start b0 /\ extends rho1' b0 /\ BokD W D DS b0).
    { unfold start. destruct c0 as [c0'|] eqn:Ec0; simpl in *.
      - destruct (evalG_complete W D E (GoodD W D DS) (fun r x => undecl [] x /\ InD D DS r x) Hc c0' Q0 [] rho1' Hgood)
          as (b0 & H0 & He0).
        + intros x Hx. split; auto.
        + apply extends_nil.
        + rewrite Hsat0' in H0. simpl in H0. exists b0. repeat split; auto.
          eapply (evalG_keep W E (BokD W D DS) (undecl []) Hk c0' Q0); eauto. apply BokD_nil.
      - exists []. repeat split; auto. apply extends_nil. apply BokD_nil. }
    destruct Hst as (b0 & Hs0 & He0 & HB0).
    (* stage 2: the body, then the de-duplication *)
    destruct (evalG_complete W D E (GoodD W D DS) (fun r x => undecl [] x /\ InD D DS r x) Hc body Qb b0 rho1' Hgood)
      as (b1 & H1 & He1); auto.
    rewrite Hsatb' in H1. simpl in H1.
    destruct (exists_scan_complete (others_of DS y body) (evalG W E body b0) [] b1 H1) as [Hx|(b1' & H1' & K)]; [discriminate|].
    pose proof (exists_scan_in _ _ _ _ H1') as [H1'' _].
    assert (HB1 : BokD W D DS b1') by (eapply (evalG_keep W E (BokD W D DS) (undecl []) Hk body Qb); eauto).
    pose proof (evalG_pres W E (evv_pres W D DS Hq) body Qb _ _ _ H1'') as Hp1.
    pose proof (evalG_dom W E (closv DS) (evv_dom W D DS Hq) body Qb _ _ _ H1'') as Hd1.
    set (rho2 := fun x => match lookup b1' x with Some u => u | None => rho1' x end).
    assert (HA : forall x, x <> y -> rho2 x = rho1' x).
    { intros x Hne. unfold rho2. destruct (lookup b1' x) as [u|] eqn:Eu; auto.
      destruct (Hd1 x) as [Hb0|Hcl]; [congruence| |].
      - destruct (lookup b0 x) as [u0|] eqn:E0; [|congruence].
        rewrite (Hp1 _ _ E0) in Eu. injection Eu as <-. symmetry. now apply He0.
      - destruct (Hclos x Hcl) as [->|Hoth]; [contradiction|].
        pose proof (map_eq_in _ _ _ K x Hoth) as Kx. rewrite Eu in Kx. symmetry. now apply He1. }
    assert (He2 : extends rho2 b1') by (intros x u Hl; unfold rho2; now rewrite Hl).
    assert (Hr2 : forall z g, In (z, g) DS -> range W D rho2 g = range W D rho1' g).
    { intros z g Hz. apply range_ext. intros x Hx. apply HA. intros ->. exact (Hgy z g Hz Hx). }
    destruct Hgood as (G1 & G2 & G3).
    assert (Hgood2 : GoodD W D DS rho2).
    { split; [|split].
      - intros z g x Hz Hx Hp. rewrite HA; [eapply G1; eauto|]. intros ->. exact (Hgy z g Hz Hx).
      - intros z g Hz. rewrite (Hr2 z g Hz). destruct (Nat.eq_dec z y) as [->|Hne].
        + unfold rho2 at 1. destruct (lookup b1' y) as [u|] eqn:Eu; [|now apply G2].
          pose proof (HB1 rho2 He2 y u Eu) as Hb. rewrite (wf_find_decl DS y g Hwf Hz) in Hb. now rewrite <- (Hr2 y g Hz).
        + rewrite HA by exact Hne. now apply G2.
      - intros z z0 cz Hz. rewrite !HA.
        + eapply G3; eauto.
        + intros ->. apply (Hysub z0 cz). now apply wf_find_decl.
        + intros ->. apply (Hyg z _ Hz). simpl. now left. }
    unfold runD, runG. fold E. rewrite Hcond. apply in_flat_map. exists b1'. split.
    - apply true_results_ex. eauto.
    - assert (Erow : map (den W rho) (q_sels q) = map (den W rho2) (q_sels q)).
      { apply map_den_ext. intros x Hx.
        assert (Hne : x <> y) by (intros ->; contradiction).
        rewrite (HA x Hne). unfold rho1'. rewrite F0 by (now apply HselL). unfold rho1. now rewrite upd_ne. }
      rewrite Erow.
      apply (selectG_complete W E (GoodD W D DS) (fun r x => undecl [] x /\ InD D DS r x) Hc); auto.
      intros x Hx. split; auto. intros Hp. rewrite HA by (intros ->; contradiction). apply HInD; auto.
  Qed.

  Theorem runD_ex_exact : forall row, In row (runD W D DS q) <-> answerD W D DS q row.
  Proof. intros row. split; [apply runD_ex_sound|apply runD_ex_complete]. Qed.
End ExTheorem.

(* the flag implies the theorem *)
Theorem in_FDx_exact W D DS q : in_FDx W D DS q = true ->
  forall row, In row (runD W D DS q) <-> answerD W D DS q row.
Proof.
  unfold in_FDx. destruct (q_cond q) as [c|] eqn:Ec; [|discriminate].
  destruct (ex_shape c) as [[[c0 y] body]|] eqn:Es; [|discriminate].
  intros H. apply andb_prop in H as [Hside HFD].
  apply (runD_ex_exact W D DS q c0 y body); auto.
  rewrite Ec. f_equal. unfold ex_shape in Es.
  destruct c as [op l r|l r|l r|l r|c1|e c1|y1 c1]; try discriminate.
  - destruct r as [op l1 r1|l1 r1|l1 r1|l1 r1|c1|e c1|y1 c1]; try discriminate.
    destruct e as [v1|y1|e1 a1]; try discriminate. now injection Es as <- <- <-.
  - destruct e as [v1|y1|e1 a1]; try discriminate. now injection Es as <- <- <-.
Qed.
