(* C03 (c) -- whole evaluations interleaved: the coroutine machine.  Executable (the harness compares it with the real iterators
   on every enumerated schedule) AND the object of the isolation theorem of Eql/DomainCacheSchedProofs.v.
   An evaluate() iterator of a conjunctive query is a coroutine whose only shared state is the domain cache of its
   variables; it is written here in continuation-passing style as a tree [co] of domain pulls, so that it can be
   suspended at a yield and resumed after other iterators ran.  The machine is generic in the handle model
   (current HashedIterable.__iter__ = [rstep]; the previous one = [hstep]).  The harness runs it (vm_compute) next to the real
   iterators on every enumerated schedule; scratch state on shared nodes (_is_false_, _eval_parent_) is not modelled. *)
From Coq Require Import List ZArith Bool Arith.
From Krrood Require Import Base.Sx Eql.DomainCacheSpec Eql.DomainCache Eql.ReevalSpec Eql.ReevalSpecSx.
Import ListNotations.
Open Scope Z_scope.

Inductive co :=
| CNew (x : nat) (k : nat -> co)          (* iter(variable._domain_): a new handle *)
| CPull (h : nat) (k : out -> co)         (* next(handle) *)
| CYield (r : list Z) (k : co)            (* a row leaves evaluate() *)
| CForget (k : co)                        (* evaluate(), first advance: the selectors of the query object forget their coverage
                                             (krrood 769edfe: the loop also reaches the selected variables' nodes and a try/finally
                                             repeats it for Variable nodes at the end; both are no-ops for variables with a GIVEN domain,
                                             the only ones in these models -- Variable._forget_evaluation_memory_ is pinned) *)
| CConclude (key : list Z) (k : list Z -> co)
                                          (* ConclusionSelector.update_conclusion for key = tag :: binding; the continuation gets
                                             the node's _conclusion_ set (tags) as the descriptor is about to see it *)
| CConclClear (k : co)                    (* self._conclusion_.clear() when the selector is resumed after its yield *)
| CEnd | CErr | COut.                     (* StopIteration | RuntimeError | model ran out of fuel *)

Section Compile.
  Variable A : attrs.
  Variable F : nat.     (* bound on the length of one pass over a domain: S (S (size of the largest domain)) *)

  Fixpoint hloop (fuel : nat) (h : nat) (body : Z -> co -> co) (done : co) : co :=
    match fuel with
    | O => COut
    | S f => CPull h (fun o => match o with
                               | OYield v => body v (hloop f h body done)
                               | OStop => done
                               | OErr => CErr
                               end)
    end.

  Definition with_varC (x : nat) (b : bindings) (k : bindings -> co -> co) (done : co) : co :=
    match lookup b x with
    | Some _ => k b done
    | None => CNew x (fun h => hloop F h (fun v resume => k ((x, v) :: b) resume) done)
    end.

  Fixpoint bind_allC (xs : list nat) (b : bindings) (k : bindings -> co -> co) (done : co) : co :=
    match xs with
    | [] => k b done
    | x :: r => with_varC x b (fun b' resume => bind_allC r b' k resume) done
    end.

  Definition eval_atomC (a : atom) (b : bindings) (k : bindings -> co -> co) (done : co) : co :=
    bind_allC (atom_vars a) b (fun b' resume => if sat_atom A b' a then k b' resume else resume) done.

  Fixpoint eval_condsC (cs : list atom) (b : bindings) (k : bindings -> co -> co) (done : co) : co :=
    match cs with
    | [] => k b done
    | a :: r => eval_atomC a b (fun b' resume => eval_condsC r b' k resume) done
    end.

  (* evaluate_selected_variables (krrood 32abf51): lazy nested loops over the selected expressions, leftmost slowest, each
     evaluated under the bindings the ones before it produced; a bound selected variable yields once, an unbound one opens
     a handle on its domain; a row leaves as soon as the innermost loop produces it (nothing is drained beforehand) *)
  (* a rule query (ONE ExceptIf selector, evaluated by the query descriptor itself, so it records coverage -- krrood a70801b: an
     inner selector would only propose its conclusions; conclusion_selector.py): for every base row the selector picks the refinement's
     conclusion (tag 1) or the base one (tag 0), adds it to the node's _conclusion_ set unless that conclusion already covered
     the binding, and yields to the descriptor; the descriptor applies EVERY conclusion it finds in the set (none: the row is
     skipped; two -- one left there by another, suspended evaluation of the same query object --: both Adds run and the set's
     iteration order decides, tag -5 = "0 or 1"); the set is cleared when the selector is resumed. *)
  Definition compile (q : query) : co :=
    match q_rule q with
    | None => eval_condsC (q_conds q) []
                (fun b resume => bind_allC (q_sel q) b (fun b' r => CYield (row (q_sel q) b') r) resume) CEnd
    | Some exc =>
        (* krrood 23d12cd: the selector also clears its _conclusion_ set when its generator is first advanced, so what an
           iterator abandoned at a row left there does not leak into this evaluation *)
        CForget (CConclClear (eval_condsC (q_conds q) []
          (fun b resume =>
             let tag := if forallb (sat_atom A b) exc then 1 else 0 in
             let key := row (q_sel q) b in
             CConclude (tag :: key)
               (fun pend => match pend with
                            | [] => CConclClear resume
                            | [t] => CYield (t :: key) (CConclClear resume)
                            | _ => CYield ((-5) :: key) (CConclClear resume)
                            end)) CEnd))
    end.
End Compile.

Section Machine.
  Variable H : Type.
  Variable h0 : H.
  Variable hstp : dstate -> H -> out * dstate * H.

  (* state kept on the selector node of a query object: coverage memory, _conclusion_ set *)
  Definition nstate := (list (list Z) * list Z)%type.
  (* an evaluate() iterator: its suspended continuation, the domain iterators (handles) IT created -- generator objects
     local to the evaluation, numbered in creation order -- and the query object it evaluates *)
  Record iter := { i_co : co; i_hs : list (nat * H); i_obj : nat }.
  (* shared between the iterators: the domain cache of every variable, the selector node of every query object *)
  Record isys := { caches : list dstate; iters : list iter; nodes : list nstate }.

  Definition add_tag (t : Z) (p : list Z) : list Z := if mem t p then p else p ++ [t].
  Definition conclude_node (key : list Z) (nd : nstate) : nstate :=
    if memkey key (fst nd) then nd else (fst nd ++ [key], add_tag (hd 0 key) (snd nd)).

  Fixpoint drive (o : nat) (c : co) (cs : list dstate) (hs : list (nat * H)) (ns : list nstate)
    : ires * co * list dstate * list (nat * H) * list nstate :=
    match c with
    | CNew x k => drive o (k (length hs)) cs (hs ++ [(x, h0)]) ns
    | CPull h k =>
        match nth_error hs h with
        | None => (IOut, CEnd, cs, hs, ns)
        | Some (x, st) =>
            match nth_error cs x with
            | None => drive o (k OStop) cs hs ns              (* a variable outside the world has no values (as Reeval.enum) *)
            | Some d => let '(out_, d', st') := hstp d st in drive o (k out_) (upd x d' cs) (upd h (x, st') hs) ns
            end
        end
    | CYield r k => (IRow r, k, cs, hs, ns)
    | CForget k => match nth_error ns o with
                   | None => (IOut, CEnd, cs, hs, ns)
                   | Some nd => drive o k cs hs (upd o ([], snd nd) ns)
                   end
    | CConclude key k =>
        match nth_error ns o with
        | None => (IOut, CEnd, cs, hs, ns)
        | Some nd => let nd' := conclude_node key nd in drive o (k (snd nd')) cs hs (upd o nd' ns)
        end
    | CConclClear k => match nth_error ns o with
                       | None => (IOut, CEnd, cs, hs, ns)
                       | Some nd => drive o k cs hs (upd o (fst nd, []) ns)
                       end
    | CEnd => (IStop, CEnd, cs, hs, ns)
    | CErr => (IErr, CEnd, cs, hs, ns)
    | COut => (IOut, CEnd, cs, hs, ns)
    end.

  Definition istep (op_ : iop) (S : isys) : ires * isys :=
    match op_ with
    | INext i => match nth_error (iters S) i with
                 | Some it =>
                     let '(r, c', cs, hs, ns) := drive (i_obj it) (i_co it) (caches S) (i_hs it) (nodes S) in
                     (r, {| caches := cs; iters := upd i {| i_co := c'; i_hs := hs; i_obj := i_obj it |} (iters S); nodes := ns |})
                 | None => (IOut, S)
                 end
    | IClose i => match nth_error (iters S) i with
                  | Some it => (IClosed, {| caches := caches S; nodes := nodes S;
                                            iters := upd i {| i_co := CEnd; i_hs := i_hs it; i_obj := i_obj it |} (iters S) |})
                  | None => (IClosed, S)
                  end
    end.

  Fixpoint ilog (ops : list iop) (S : isys) : list ires :=
    match ops with
    | [] => []
    | o :: r => let '(x, S') := istep o S in x :: ilog r S'
    end.

  (* the same run, recording per iterator what it delivered: rows in order, whether it was closed, whether it ended by itself *)
  Record itrace := { t_rows : list (list Z); t_closed : bool; t_stopped : bool; t_failed : bool }.
  Definition record (op_ : iop) (r : ires) (T : list itrace) : list itrace :=
    match op_ with
    | INext i => match nth_error T i with
                 | None => T
                 | Some t =>
                     upd i (match r with
                            | IRow row => {| t_rows := t_rows t ++ [row]; t_closed := t_closed t; t_stopped := t_stopped t; t_failed := t_failed t |}
                            | IStop => {| t_rows := t_rows t; t_closed := t_closed t; t_stopped := t_stopped t || negb (t_closed t); t_failed := t_failed t |}
                            | IErr | IOut => {| t_rows := t_rows t; t_closed := t_closed t; t_stopped := t_stopped t; t_failed := true |}
                            | IClosed => t
                            end) T
                 end
    | IClose i => match nth_error T i with
                  | None => T
                  | Some t => upd i {| t_rows := t_rows t; t_closed := true; t_stopped := t_stopped t; t_failed := t_failed t |} T
                  end
    end.
  Fixpoint irun (ops : list iop) (S : isys) (T : list itrace) : isys * list itrace :=
    match ops with
    | [] => (S, T)
    | o :: r => let '(x, S') := istep o S in irun r S' (record o x T)
    end.
End Machine.

Definition maxlen (W : world) : nat := fold_right (fun w m => Nat.max (length w) m) O W.

(* [qobjs]: the query objects; [itobj]: which object every iterator evaluates (iterators of one object share its node state) *)
Definition q_none : query := {| q_sel := []; q_conds := []; q_rule := None |}.
Definition fuel_for (W : world) : nat := S (S (S (2 * maxlen W))).
Definition isys1 {H} (W : world) (A : attrs) (qobjs : list query) (itobj : list nat) : isys H :=
  {| caches := map (fun w => {| cache := []; src := w |}) W;
     iters := map (fun o => {| i_co := compile A (fuel_for W) (nth o qobjs q_none); i_hs := []; i_obj := o |}) itobj;
     nodes := map (fun _ => ([], [])) qobjs |}.
Definition trace0 : itrace := {| t_rows := []; t_closed := false; t_stopped := false; t_failed := false |}.
(* rule-free queries keep nothing on their nodes: every iterator may as well be its own object *)
Definition isys0 {H} (W : world) (A : attrs) (qs : list query) : isys H := isys1 W A qs (seq 0 (length qs)).

(* prediction on the current code (iterator of commit 1997e3c) / on the previous iterator (regression only) *)
Definition model_sched (W : world) (A : attrs) (qs : list query) (ops : list iop) : list ires :=
  ilog rstate (RLive 0 []) rstep ops (isys0 W A qs).
Definition old_sched (W : world) (A : attrs) (qs : list query) (ops : list iop) : list ires :=
  ilog hstate HNew hstep ops (isys0 W A qs).

Definition model_rsched (W : world) (A : attrs) (qobjs : list query) (itobj : list nat) (ops : list iop) : list ires :=
  ilog rstate (RLive 0 []) rstep ops (isys1 W A qobjs itobj).

(* ---- cases of the harness (encodings: Eql/ReevalSpecSx.v) ---- *)
Definition to_sop (o : op) : sop := match o with Create => SCreate | Next h => SNext h | Abandon h => SAbandon h end.

(* (a) one HashedIterable, schedule of handle operations: impl vs model vs spec *)
Definition cache_case := (list Z * list op)%type.
Definition cache_model (c : cache_case) : sx := sx_zs (rrun_log (snd c) (rinit (fst c))).
Definition cache_old (c : cache_case) : sx := sx_zs (run_log (snd c) (init (fst c))).
Definition cache_spec (c : cache_case) : sx := scache_spec (fst c, map to_sop (snd c)).
Definition cache_code (c : cache_case) (impl : sx) : Z := classify impl (cache_model c) (cache_spec c).

(* (c) several evaluate() iterators *)
Definition sched_model (c : sched_case) : sx := let '(W, A, qs, ops) := c in sx_log (model_sched W A qs ops).
Definition sched_old (c : sched_case) : sx := let '(W, A, qs, ops) := c in sx_log (old_sched W A qs ops).
Definition sched_code (c : sched_case) (impl : sx) : Z := classify impl (sched_model c) (sched_spec c).

(* no tolerated class is left for the cache: every schedule over every domain is inside F.  The second digit records
   whether the PREVIOUS iterator would have failed on the case (1) -- a measure of how much of the sweep exercises the repair *)
Definition cache_code_class (c : cache_case) (impl : sx) : Z :=
  cache_code c impl * 10 + (if sx_eqb (cache_old c) (cache_spec c) then 0 else 1).
Definition sched_code_rep (c : sched_case) (impl : sx) : Z :=
  sched_code c impl * 10 + (if sx_eqb (sched_old c) (sched_spec c) then 0 else 1).

(* (c') iterators of query OBJECTS (rule queries keep state on their selector node, shared by all evaluations of the object) *)
Definition rsched_case := (world * attrs * list query * list nat * list iop)%type.
Definition rsched_model (c : rsched_case) : sx := let '(W, A, qo, io, ops) := c in sx_log (model_rsched W A qo io ops).
Definition rsched_spec (c : rsched_case) : sx :=
  let '(W, A, qo, io, ops) := c in
  sx_log (spec_sched (map dedup W) A (map (fun o => nth o qo q_none) io) ops).
(* the model may say "tag 0 or 1" (SZ (-5)) where two conclusions are applied in set-iteration order *)
Fixpoint sx_wmatch (m i : sx) {struct m} : bool :=
  match m, i with
  | SZ x, SZ y => Z.eqb x y || (Z.eqb x (-5) && (Z.eqb y 0 || Z.eqb y 1))
  | SL xs, SL ys =>
      (fix go (xs ys : list sx) {struct xs} : bool :=
         match xs, ys with
         | [], [] => true
         | x :: xs', y :: ys' => sx_wmatch x y && go xs' ys'
         | _, _ => false
         end) xs ys
  | _, _ => false
  end.
Definition rsched_code (c : rsched_case) (impl : sx) : Z :=
  let m := sx_wmatch (rsched_model c) impl in
  if sx_eqb impl (rsched_spec c) then (if m then 0 else 1) else if m then 2 else 3.
