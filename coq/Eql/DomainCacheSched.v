(* C03 (c) -- whole evaluations interleaved: an executable prediction, NOT a theorem.
   An evaluate() iterator of a conjunctive query is a coroutine whose only shared state is the domain cache of its
   variables; it is written here in continuation-passing style as a tree [co] of domain pulls, so that it can be
   suspended at a yield and resumed after other iterators ran.  The machine is generic in the handle model
   (current HashedIterable.__iter__ = [rstep]; the previous one = [hstep]).  The harness runs it (vm_compute) next to the real
   iterators on every enumerated schedule; scratch state on shared nodes (_is_false_, _eval_parent_) is not modelled. *)
From Coq Require Import List ZArith Bool Arith.
From Krrood Require Import Base.Sx Eql.DomainCacheSpec Eql.DomainCache Eql.ReevalSpec Eql.ReevalSpecSx.
Import ListNotations.
Open Scope Z_scope.

Inductive co :=
| CNew (x : nat) (k : nat -> co)          (* iter(variable._domain_): a new handle *)
| CPull (h : nat) (k : out -> co)         (* next(handle) *)
| CYield (r : list Z) (k : co)            (* a row leaves evaluate() *)
| CEnd | CErr | COut.                     (* StopIteration | RuntimeError | model ran out of fuel *)

Section Compile.
  Variable A : attrs.
  Variable F : nat.     (* bound on the length of one pass over a domain: S (S (size of the largest domain)) *)

  Fixpoint hloop (fuel : nat) (h : nat) (body : Z -> co -> co) (done : co) : co :=
    match fuel with
    | O => COut
    | S f => CPull h (fun o => match o with
                               | OYield v => body v (hloop f h body done)
                               | OStop => done
                               | OErr => CErr
                               end)
    end.

  Definition with_varC (x : nat) (b : bindings) (k : bindings -> co -> co) (done : co) : co :=
    match lookup b x with
    | Some _ => k b done
    | None => CNew x (fun h => hloop F h (fun v resume => k ((x, v) :: b) resume) done)
    end.

  Fixpoint bind_allC (xs : list nat) (b : bindings) (k : bindings -> co -> co) (done : co) : co :=
    match xs with
    | [] => k b done
    | x :: r => with_varC x b (fun b' resume => bind_allC r b' k resume) done
    end.

  Definition eval_atomC (a : atom) (b : bindings) (k : bindings -> co -> co) (done : co) : co :=
    bind_allC (atom_vars a) b (fun b' resume => if sat_atom A b' a then k b' resume else resume) done.

  Fixpoint eval_condsC (cs : list atom) (b : bindings) (k : bindings -> co -> co) (done : co) : co :=
    match cs with
    | [] => k b done
    | a :: r => eval_atomC a b (fun b' resume => eval_condsC r b' k resume) done
    end.

  (* evaluate_selected_variables (krrood 32abf51): lazy nested loops over the selected expressions, leftmost slowest, each
     evaluated under the bindings the ones before it produced; a bound selected variable yields once, an unbound one opens
     a handle on its domain; a row leaves as soon as the innermost loop produces it (nothing is drained beforehand) *)
  Definition compile (q : query) : co :=
    eval_condsC (q_conds q) []
      (fun b resume => bind_allC (q_sel q) b (fun b' r => CYield (row (q_sel q) b') r) resume) CEnd.
End Compile.

Section Machine.
  Variable H : Type.
  Variable h0 : H.
  Variable hstp : dstate -> H -> out * dstate * H.

  Record isys := { caches : list dstate; handles : list (nat * H); its : list co }.

  Fixpoint drive (c : co) (cs : list dstate) (hs : list (nat * H)) : ires * co * list dstate * list (nat * H) :=
    match c with
    | CNew x k => drive (k (length hs)) cs (hs ++ [(x, h0)])
    | CPull h k =>
        match nth_error hs h with
        | None => (IOut, CEnd, cs, hs)
        | Some (x, st) =>
            match nth_error cs x with
            | None => (IOut, CEnd, cs, hs)
            | Some d => let '(o, d', st') := hstp d st in drive (k o) (upd x d' cs) (upd h (x, st') hs)
            end
        end
    | CYield r k => (IRow r, k, cs, hs)
    | CEnd => (IStop, CEnd, cs, hs)
    | CErr => (IErr, CEnd, cs, hs)
    | COut => (IOut, CEnd, cs, hs)
    end.

  Definition istep (o : iop) (S : isys) : ires * isys :=
    match o with
    | INext i => match nth_error (its S) i with
                 | None => (IOut, S)
                 | Some c => let '(r, c', cs, hs) := drive c (caches S) (handles S) in
                             (r, {| caches := cs; handles := hs; its := upd i c' (its S) |})
                 end
    | IClose i => (IClosed, {| caches := caches S; handles := handles S; its := upd i CEnd (its S) |})
    end.

  Fixpoint ilog (ops : list iop) (S : isys) : list ires :=
    match ops with
    | [] => []
    | o :: r => let '(x, S') := istep o S in x :: ilog r S'
    end.
End Machine.

Definition maxlen (W : world) : nat := fold_right (fun w m => Nat.max (length w) m) O W.

Definition isys0 {H} (W : world) (A : attrs) (qs : list query) : isys H :=
  {| caches := map (fun w => {| cache := []; src := w |}) W; handles := [];
     its := map (compile A (S (S (S (2 * maxlen W))))) qs |}.

(* prediction on the current code (iterator of commit 1997e3c) / on the previous iterator (regression only) *)
Definition model_sched (W : world) (A : attrs) (qs : list query) (ops : list iop) : list ires :=
  ilog rstate (RLive 0 []) rstep ops (isys0 W A qs).
Definition old_sched (W : world) (A : attrs) (qs : list query) (ops : list iop) : list ires :=
  ilog hstate HNew hstep ops (isys0 W A qs).

(* ---- cases of the harness (encodings: Eql/ReevalSpecSx.v) ---- *)
Definition to_sop (o : op) : sop := match o with Create => SCreate | Next h => SNext h | Abandon h => SAbandon h end.

(* (a) one HashedIterable, schedule of handle operations: impl vs model vs spec *)
Definition cache_case := (list Z * list op)%type.
Definition cache_model (c : cache_case) : sx := sx_zs (rrun_log (snd c) (rinit (fst c))).
Definition cache_old (c : cache_case) : sx := sx_zs (run_log (snd c) (init (fst c))).
Definition cache_spec (c : cache_case) : sx := scache_spec (fst c, map to_sop (snd c)).
Definition cache_code (c : cache_case) (impl : sx) : Z := classify impl (cache_model c) (cache_spec c).

(* (c) several evaluate() iterators *)
Definition sched_model (c : sched_case) : sx := let '(W, A, qs, ops) := c in sx_log (model_sched W A qs ops).
Definition sched_old (c : sched_case) : sx := let '(W, A, qs, ops) := c in sx_log (old_sched W A qs ops).
Definition sched_code (c : sched_case) (impl : sx) : Z := classify impl (sched_model c) (sched_spec c).

(* no tolerated class is left for the cache: every schedule over every domain is inside F.  The second digit records
   whether the PREVIOUS iterator would have failed on the case (1) -- a measure of how much of the sweep exercises the repair *)
Definition cache_code_class (c : cache_case) (impl : sx) : Z :=
  cache_code c impl * 10 + (if sx_eqb (cache_old c) (cache_spec c) then 0 else 1).
Definition sched_code_rep (c : sched_case) (impl : sx) : Z :=
  sched_code c impl * 10 + (if sx_eqb (sched_old c) (sched_spec c) then 0 else 1).
