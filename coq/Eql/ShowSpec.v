(* Concrete worlds / domains written by the harness, and printing of Spec outcomes into [sx].
   Independent of the model, so that the implementation can still be compared with the Spec when the model is broken. *)
From Coq Require Import List ZArith Bool Arith.
From Krrood Require Import Base.Sx Eql.Syntax Eql.Sat.
Import ListNotations.
Open Scope Z_scope.

(* object id, equality key, attribute table *)
Definition wdata := list (Z * Z * list (nat * val)).

Fixpoint find_obj (d : wdata) (o : Z) : option (Z * list (nat * val)) :=
  match d with
  | [] => None
  | (o', k, t) :: d' => if Z.eqb o o' then Some (k, t) else find_obj d' o
  end.
Fixpoint find_attr (t : list (nat * val)) (a : nat) : val :=
  match t with
  | [] => VI 0
  | (a', v) :: t' => if Nat.eqb a a' then v else find_attr t' a
  end.

Definition mk_world (d : wdata) : world :=
  {| attr := fun o a => match find_obj d o with Some (_, t) => find_attr t a | None => VI 0 end;
     okey := fun o => match find_obj d o with Some (k, _) => k | None => o end |}.

Fixpoint mk_domains (l : list (var * list val)) : domains :=
  fun x => match l with
           | [] => []
           | (y, vs) :: l' => if Nat.eqb x y then vs else mk_domains l' x
           end.

Record ecase : Type := { e_world : wdata; e_doms : list (var * list val); e_query : query }.

Definition show_val (v : val) : sx :=
  match v with
  | VI z => SL [SZ 0; SZ z]
  | VO o => SL [SZ 1; SZ o]
  | VLI l => SL [SZ 2; SL (map SZ l)]
  | VLO l => SL [SZ 3; SL (map SZ l)]
  end.
Definition show_rows (rows : list (list val)) : sx := SL (map (fun r => SL (map show_val r)) rows).

Definition spec_rows (c : ecase) : sx :=
  show_rows (answers_exec (mk_world (e_world c)) (mk_domains (e_doms c)) (e_query c)).
Definition as_set (s : sx) : sx := match s with SL l => SL (sx_set l) | _ => s end.
Definition as_bag (s : sx) : sx := match s with SL l => SL (sx_sort l) | _ => s end.
