(* C12 -- Spec.  No dependency on the model (Gen/Pred.v, Eql/PredEval.v) or on the idiom table.

   Part 1: how Python itself binds the parameters of a def with positional-or-keyword parameters
           [params] in a call f( *pos, **kw ), and when such a call is well formed.
   Part 2: arguments written over query variables, their value under an assignment, the candidate
           bindings of a condition pred(args) and what the property demands of its evaluation:
           one call per candidate binding, with exactly the values of the written arguments, and
           the truth of the concrete call. *)
From Coq Require Import List ZArith Bool.
Import ListNotations.
Open Scope Z_scope.

Section Bind.
  Context {V : Type}.

  Fixpoint index_of (p : Z) (params : list Z) : option nat :=
    match params with
    | [] => None
    | q :: r => if Z.eqb q p then Some O else option_map S (index_of p r)
    end.

  Fixpoint assoc (k : Z) (kw : list (Z * V)) : option V :=
    match kw with
    | [] => None
    | (k', v) :: r => if Z.eqb k' k then Some v else assoc k r
    end.

  (* the value parameter p receives *explicitly* from the call (None: not a parameter, or left to its default) *)
  Definition python_bind (params : list Z) (pos : list V) (kw : list (Z * V)) (p : Z) : option V :=
    match index_of p params with
    | None => None
    | Some i => match nth_error pos i with
                | Some v => Some v
                | None => assoc p kw
                end
    end.

  (* Python accepts the call (TypeError otherwise): not too many positionals; every keyword names a
     parameter that no positional already fills; no keyword twice.  (Whether every parameter without
     default is filled is [complete] below.) *)
  Definition call_ok (params : list Z) (pos : list V) (kw : list (Z * V)) : Prop :=
    (length pos <= length params)%nat /\
    NoDup (map fst kw) /\
    forall k, In k (map fst kw) -> exists i, index_of k params = Some i /\ (length pos <= i)%nat.

  Definition complete (params required : list Z) (pos : list V) (kw : list (Z * V)) : Prop :=
    forall p, In p required -> python_bind params pos kw p <> None.

  (* executable versions for the correspondence check *)
  Fixpoint nodupb (l : list Z) : bool :=
    match l with
    | [] => true
    | a :: r => negb (existsb (Z.eqb a) r) && nodupb r
    end.

  Definition call_okb (params : list Z) (pos : list V) (kw : list (Z * V)) : bool :=
    (length pos <=? length params)%nat && nodupb (map fst kw) &&
    forallb (fun k => match index_of k params with Some i => (length pos <=? i)%nat | None => false end) (map fst kw).

  Definition completeb (params required : list Z) (pos : list V) (kw : list (Z * V)) : bool :=
    forallb (fun p => match python_bind params pos kw p with Some _ => true | None => false end) required.
End Bind.

(* ------------------------------------------------------------------------------------------- *)
(* Part 2.  Values are integers (objects are interned by the harness); a world gives every
   variable its domain and every attribute its value. *)

Inductive arg : Type :=
| ALit (v : Z)              (* an ordinary object written as argument *)
| AVar (x : Z)              (* a query variable *)
| AAttr (a : arg) (f : Z).  (* a.f *)

Fixpoint arg_var (a : arg) : option Z :=
  match a with ALit _ => None | AVar x => Some x | AAttr a _ => arg_var a end.

Definition arg_is_symbolic (a : arg) : bool :=
  match a with ALit _ => false | _ => true end.

Definition assignment := list (Z * Z).

Section Sem.
  Variable dom : Z -> list Z.
  Variable attr : Z -> Z -> Z.        (* attr f v = getattr(v, f) *)

  Definition lookup (rho : assignment) (x : Z) : option Z := assoc x rho.

  Fixpoint den (rho : assignment) (a : arg) : Z :=
    match a with
    | ALit v => v
    | AVar x => match lookup rho x with Some v => v | None => 0 end
    | AAttr a f => attr f (den rho a)
    end.

  (* all extensions of b by the variables xs (in order), each over its domain; first variable outermost *)
  Fixpoint cands (b : assignment) (xs : list Z) : list assignment :=
    match xs with
    | [] => [b]
    | x :: r => flat_map (fun v => cands (b ++ [(x, v)]) r) (dom x)
    end.

  Definition call_of (kwargs : list (Z * arg)) (rho : assignment) : list (Z * Z) :=
    map (fun ka => (fst ka, den rho (snd ka))) kwargs.

  (* variables of the written arguments that b leaves open, in writing order (with repetitions) *)
  Definition open_vars (b : assignment) (kwargs : list (Z * arg)) : list Z :=
    flat_map (fun ka => match arg_var (snd ka) with
                        | Some x => match lookup b x with Some _ => [] | None => [x] end
                        | None => []
                        end) kwargs.

  Fixpoint dedup (l : list Z) : list Z :=
    match l with
    | [] => []
    | a :: r => a :: filter (fun z => negb (Z.eqb z a)) (dedup r)
    end.

  (* What the property demands of evaluating pred(kwargs) under the bindings b, for a function whose
     concrete call with keyword binding c returns [body c] and whose truth is [truthy]:
     exactly one (binding, call, truth) per candidate binding. *)
  Definition spec_eval {R : Type} (body : list (Z * Z) -> R) (truthy : R -> bool)
             (kwargs : list (Z * arg)) (b : assignment) : list (assignment * list (Z * Z) * bool) :=
    map (fun rho => (rho, call_of kwargs rho, truthy (body (call_of kwargs rho))))
        (cands b (dedup (open_vars b kwargs))).
End Sem.
