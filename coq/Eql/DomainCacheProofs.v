(* C03 (a) -- proofs about the HashedIterable model.
   1. current __iter__, schedules with at most one live handle: every handle that runs to exhaustion yields the
      domain, no handle dies, every handle (also abandoned ones) has yielded a prefix of the domain.   (NoDup domains)
   2. current __iter__, two live handles: refuted (lost rows; RuntimeError), and duplicate elements: refuted.
   3. the repaired (index-based) iterator: every schedule whatsoever, every domain. *)
From Coq Require Import List ZArith Bool Arith Lia.
From Krrood Require Import Eql.DomainCacheSpec Eql.DomainCache.
Import ListNotations.
Open Scope Z_scope.

(* ------------------------------------------------------------------ lists *)
Lemma nth_error_upd_eq {A} (l : list A) n x a :
  nth_error l n = Some a -> nth_error (upd n x l) n = Some x.
Proof.
  revert n; induction l as [|b l IH]; intros [|n] H; simpl in *; try discriminate; auto.
Qed.

Lemma nth_error_upd_neq {A} (l : list A) n m x :
  m <> n -> nth_error (upd n x l) m = nth_error l m.
Proof.
  revert n m; induction l as [|b l IH]; intros [|n] [|m] H; simpl; auto; try congruence.
Qed.

Lemma nth_error_upd_inv {A} (l : list A) n m x y :
  nth_error (upd n x l) m = Some y ->
  (m = n /\ y = x /\ exists a, nth_error l n = Some a) \/ (m <> n /\ nth_error l m = Some y).
Proof.
  intros H. destruct (Nat.eq_dec m n) as [->|Hne].
  - left. destruct (nth_error l n) as [a|] eqn:E.
    + rewrite (nth_error_upd_eq l n x a E) in H. injection H as <-. eauto.
    + exfalso. revert n H E. induction l as [|b l IH]; intros [|n] H E; simpl in *; try discriminate.
      eapply IH; eauto.
  - right. rewrite nth_error_upd_neq in H; auto.
Qed.

Lemma firstn_S_nth {A} (l : list A) i v :
  nth_error l i = Some v -> firstn (S i) l = firstn i l ++ [v].
Proof.
  revert i; induction l as [|a l IH]; intros [|i] H; simpl in *; try discriminate.
  - injection H as ->. reflexivity.
  - f_equal. apply IH; auto.
Qed.

Lemma mem_In v l : mem v l = true <-> In v l.
Proof.
  unfold mem. rewrite existsb_exists. split.
  - intros [x [Hx E]]. apply Z.eqb_eq in E. subst; auto.
  - intros H. exists v. split; auto. apply Z.eqb_refl.
Qed.

Lemma mem_false_nodup c v r : NoDup (c ++ v :: r) -> mem v c = false.
Proof.
  intros H. destruct (mem v c) eqn:E; auto. apply mem_In in E.
  apply NoDup_remove_2 in H. exfalso. apply H. apply in_or_app. auto.
Qed.

Lemma prefix_refl (l : list hv) : is_prefix l l.
Proof. exists []. now rewrite app_nil_r. Qed.

Lemma prefix_app (a b c : list hv) : is_prefix a b -> is_prefix a (b ++ c).
Proof. intros [x ->]. exists (x ++ c). now rewrite app_assoc. Qed.

Lemma prefix_firstn i (l : list hv) : is_prefix (firstn i l) l.
Proof. exists (skipn i l). now rewrite firstn_skipn. Qed.

Lemma prefix_nil (l : list hv) : is_prefix [] l.
Proof. exists l. reflexivity. Qed.

Lemma prefix_length_eq (a b : list hv) : is_prefix a b -> (length b <= length a)%nat -> a = b.
Proof.
  intros [x ->] H. rewrite app_length in H. destruct x; [now rewrite app_nil_r|simpl in H; lia].
Qed.

Lemma prefix_is_firstn (a b : list hv) : is_prefix a b -> a = firstn (length a) b.
Proof.
  intros [x ->]. rewrite firstn_app, Nat.sub_diag, firstn_all. simpl. now rewrite app_nil_r.
Qed.

Lemma prefix_trans (a b c : list hv) : is_prefix a b -> is_prefix b c -> is_prefix a c.
Proof. intros [x ->] [y ->]. exists (x ++ y). now rewrite app_assoc. Qed.

(* ------------------------------------------------------------------ 1. sequential schedules, current code *)
Section Sequential.
  Variable domain : list hv.
  Hypothesis Hnd : NoDup domain.

  Definition hinv (d : dstate) (st : hstate) (tr : list hv) : Prop :=
    match st with
    | HNew => tr = []
    | HReplay i n0 => n0 = length (cache d) /\ tr = firstn i (cache d)
    | HDrain => tr = cache d
    | HDone => tr = domain
    | HClosed => is_prefix tr domain
    | HFailed => False
    end.

  Definition dinv (d : dstate) : Prop := cache d ++ src d = domain.

  Lemma hinv_dead d d' st tr : live st = false -> hinv d st tr -> hinv d' st tr.
  Proof. destruct st; simpl; intros; try discriminate; auto. Qed.

  Lemma hinv_prefix d st tr : dinv d -> hinv d st tr -> is_prefix tr domain.
  Proof.
    unfold dinv. intros Hd H. destruct st; simpl in H.
    - subst tr. apply prefix_nil.
    - destruct H as [_ ->]. rewrite <- Hd. apply prefix_app, prefix_firstn.
    - subst tr. rewrite <- Hd. apply prefix_app, prefix_refl.
    - subst tr. apply prefix_refl.
    - auto.
    - contradiction.
  Qed.

  Lemma drain_inv d tr o d' st' :
    dinv d -> tr = cache d -> drain d = (o, d', st') ->
    dinv d' /\ hinv d' st' (tr ++ yielded o).
  Proof.
    unfold dinv, drain. intros Hd -> H. destruct (src d) as [|v r] eqn:Es.
    - injection H as <- <- <-. rewrite Es. split; auto.
    - injection H as <- <- <-. simpl.
      assert (Hm : mem v (cache d) = false) by (apply (mem_false_nodup _ _ r); rewrite Hd; auto).
      unfold ins. rewrite Hm. split; auto. rewrite <- app_assoc. simpl. auto.
  Qed.

  Lemma replay_inv d i tr o d' st' :
    dinv d -> tr = firstn i (cache d) -> replay d i (length (cache d)) = (o, d', st') ->
    dinv d' /\ hinv d' st' (tr ++ yielded o).
  Proof.
    intros Hd Ht H. unfold replay in H. rewrite Nat.eqb_refl in H. simpl in H.
    destruct (nth_error (cache d) i) as [v|] eqn:En.
    - injection H as <- <- <-. split; auto. unfold hinv, yielded. split; auto.
      rewrite (firstn_S_nth _ _ _ En). congruence.
    - apply nth_error_None in En. rewrite firstn_all2 in Ht by auto.
      eapply drain_inv; eauto.
  Qed.

  Lemma hstep_inv d st tr o d' st' :
    dinv d -> hinv d st tr -> hstep d st = (o, d', st') ->
    dinv d' /\ hinv d' st' (tr ++ yielded o) /\ (live st = false -> d' = d) /\ (live st' = true -> live st = true).
  Proof.
    intros Hd Hh H. destruct st; simpl in Hh, H.
    - subst tr. destruct (replay_inv d 0%nat [] o d' st' Hd eq_refl H) as [A B]. repeat split; auto; discriminate.
    - destruct Hh as [-> ->]. destruct (replay_inv d i _ o d' st' Hd eq_refl H) as [A B]. repeat split; auto; discriminate.
    - destruct (drain_inv d tr o d' st' Hd Hh H) as [A B]. repeat split; auto; discriminate.
    - injection H as <- <- <-. simpl. rewrite app_nil_r. repeat split; auto.
    - injection H as <- <- <-. simpl. rewrite app_nil_r. repeat split; auto.
    - contradiction.
  Qed.

  Record Inv (S : sys) : Prop := {
    I_d : dinv (dom S);
    I_h : forall h st tr, nth_error (hs S) h = Some (st, tr) -> hinv (dom S) st tr;
    I_one : forall i j a b, nth_error (hs S) i = Some a -> nth_error (hs S) j = Some b ->
                            live (fst a) = true -> live (fst b) = true -> i = j
  }.

  Lemma Inv_init : Inv (init domain).
  Proof.
    constructor; simpl.
    - reflexivity.
    - intros [|h] ? ? H; discriminate.
    - intros [|i] ? ? ? H; discriminate.
  Qed.

  Lemma Inv_next S h : Inv S -> Inv (step (Next h) S).
  Proof.
    intros [Hd Hh Ho]. simpl. destruct (nth_error (hs S) h) as [[st tr]|] eqn:Eh; [|constructor; auto].
    destruct (hstep (dom S) st) as [[o d'] st'] eqn:Es.
    destruct (hstep_inv _ _ _ _ _ _ Hd (Hh _ _ _ Eh) Es) as (A & B & C & D).
    constructor; simpl; auto.
    - intros k st2 tr2 Hk. apply nth_error_upd_inv in Hk. destruct Hk as [(-> & E & _)|(Hne & Hk)].
      + injection E as -> ->. auto.
      + destruct (live st) eqn:El.
        * assert (live st2 = false).
          { destruct (live st2) eqn:E2; auto. exfalso. apply Hne.
            apply (Ho k h (st2, tr2) (st, tr)); auto. }
          eapply hinv_dead; eauto.
        * rewrite (C eq_refl). eauto.
    - intros i j a b Hi Hj La Lb.
      apply nth_error_upd_inv in Hi. apply nth_error_upd_inv in Hj.
      destruct Hi as [(-> & -> & _)|(Hni & Hi)]; destruct Hj as [(-> & -> & _)|(Hnj & Hj)]; auto.
      + simpl in La. apply (Ho h j (st, tr) b); auto.
      + simpl in Lb. apply (Ho i h a (st, tr)); auto.
      + eapply Ho; eauto.
  Qed.

  Lemma Inv_abandon S h : Inv S -> Inv (step (Abandon h) S).
  Proof.
    intros I. pose proof I as [Hd Hh Ho]. simpl.
    destruct (nth_error (hs S) h) as [[st tr]|] eqn:Eh; [|auto].
    constructor; simpl; auto.
    - intros k st2 tr2 Hk. apply nth_error_upd_inv in Hk. destruct Hk as [(-> & E & _)|(Hne & Hk)]; eauto.
      injection E as -> ->. unfold hclose. destruct (live st) eqn:El; eauto.
      simpl. eapply hinv_prefix; eauto.
    - assert (Hc : live (hclose st) = true -> live st = true) by (unfold hclose; destruct (live st) eqn:E; simpl; auto; congruence).
      intros i j a b Hi Hj La Lb.
      apply nth_error_upd_inv in Hi. apply nth_error_upd_inv in Hj.
      destruct Hi as [(-> & -> & _)|(Hni & Hi)]; destruct Hj as [(-> & -> & _)|(Hnj & Hj)]; auto.
      + simpl in La. apply (Ho h j (st, tr) b); auto.
      + simpl in Lb. apply (Ho i h a (st, tr)); auto.
      + eapply Ho; eauto.
  Qed.

  Lemma Inv_create S : Inv S -> existsb (fun p => live (fst p)) (hs S) = false -> Inv (step Create S).
  Proof.
    intros [Hd Hh Ho] Hn.
    assert (Hdead : forall k a, nth_error (hs S) k = Some a -> live (fst a) = false).
    { intros k a Hk. destruct (live (fst a)) eqn:E; auto.
      assert (existsb (fun p => live (fst p)) (hs S) = true).
      { apply existsb_exists. exists a. split; auto. eapply nth_error_In; eauto. }
      congruence. }
    constructor; simpl; auto.
    - intros k st tr Hk. destruct (Nat.lt_ge_cases k (length (hs S))) as [Hl|Hl].
      + rewrite nth_error_app1 in Hk by auto. eauto.
      + rewrite nth_error_app2 in Hk by auto. destruct (k - length (hs S))%nat as [|m]; simpl in Hk.
        * injection Hk as <- <-. reflexivity.
        * destruct m; discriminate.
    - intros i j a b Hi Hj La Lb.
      destruct (Nat.lt_ge_cases i (length (hs S))) as [Hli|Hli].
      { rewrite nth_error_app1 in Hi by auto. rewrite (Hdead _ _ Hi) in La. discriminate. }
      destruct (Nat.lt_ge_cases j (length (hs S))) as [Hlj|Hlj].
      { rewrite nth_error_app1 in Hj by auto. rewrite (Hdead _ _ Hj) in Lb. discriminate. }
      assert (i < length (hs S ++ [(HNew, @nil hv)]))%nat by (apply nth_error_Some; congruence).
      assert (j < length (hs S ++ [(HNew, @nil hv)]))%nat by (apply nth_error_Some; congruence).
      rewrite app_length in *. simpl in *. lia.
  Qed.

  Lemma seq_run_inv ops : forall S S', Inv S -> seq_run ops S = Some S' -> Inv S'.
  Proof.
    induction ops as [|o ops IH]; intros S S' I H; simpl in H.
    - injection H as <-. auto.
    - destruct o.
      + destruct (existsb (fun p => live (fst p)) (hs S)) eqn:E; [discriminate|].
        eapply IH; [|eauto]. apply Inv_create; auto.
      + eapply IH; [|eauto]. apply Inv_next; auto.
      + eapply IH; [|eauto]. apply Inv_abandon; auto.
  Qed.

  Lemma seq_run_is_run ops : forall S S', seq_run ops S = Some S' -> S' = run ops S.
  Proof.
    induction ops as [|o ops IH]; intros S S' H; simpl in H.
    - injection H as <-. reflexivity.
    - unfold run. simpl. fold (run ops (step o S)). destruct o.
      + destruct (existsb (fun p => live (fst p)) (hs S)); [discriminate|]. apply IH; auto.
      + apply IH; auto.
      + apply IH; auto.
  Qed.

  Theorem cache_sequential ops S' h st tr :
    seq_run ops (init domain) = Some S' ->
    nth_error (hs S') h = Some (st, tr) ->
    st <> HFailed /\ (st = HDone -> tr = iter_spec domain) /\ is_prefix tr (iter_spec domain).
  Proof.
    intros Hr Hn. pose proof (seq_run_inv ops _ _ Inv_init Hr) as [Hd Hh Ho].
    pose proof (Hh _ _ _ Hn) as Hi. repeat split.
    - intros ->. exact Hi.
    - intros ->. exact Hi.
    - eapply hinv_prefix; eauto.
  Qed.

  (* ---- a warm cache (the source is exhausted, every element cached): NO restriction on the schedule ---- *)
  Lemma hstep_warm d st o d' st' : src d = [] -> hstep d st = (o, d', st') -> d' = d.
  Proof.
    intros Hs H. destruct st; simpl in H; unfold replay, drain in H; rewrite ?Hs in H;
      repeat match type of H with
             | context [if ?c then _ else _] => destruct c
             | context [match nth_error ?a ?b with _ => _ end] => destruct (nth_error a b)
             end; injection H as <- <- <-; auto.
  Qed.

  Definition warm : dstate := {| cache := domain; src := [] |}.

  Record WInv (S : sys) : Prop := {
    W_d : dom S = warm;
    W_h : forall h st tr, nth_error (hs S) h = Some (st, tr) -> hinv warm st tr
  }.

  Lemma warm_dinv : dinv warm.
  Proof. unfold dinv, warm; simpl. apply app_nil_r. Qed.

  Lemma WInv_step o S : WInv S -> WInv (step o S).
  Proof.
    intros [Hd Hh]. destruct o as [|h|h]; simpl.
    - constructor; simpl; auto. intros k st tr Hk.
      destruct (Nat.lt_ge_cases k (length (hs S))) as [Hl|Hl].
      + rewrite nth_error_app1 in Hk by auto. eauto.
      + rewrite nth_error_app2 in Hk by auto. destruct (k - length (hs S))%nat as [|m]; simpl in Hk.
        * injection Hk as <- <-. reflexivity.
        * destruct m; discriminate.
    - destruct (nth_error (hs S) h) as [[st tr]|] eqn:Eh; [|constructor; auto].
      rewrite Hd. destruct (hstep warm st) as [[o d'] st'] eqn:Es.
      assert (d' = warm) by (eapply hstep_warm; eauto).
      subst d'. destruct (hstep_inv _ _ _ _ _ _ warm_dinv (Hh _ _ _ Eh) Es) as (_ & B & _).
      constructor; simpl; auto. intros k st2 tr2 Hk. apply nth_error_upd_inv in Hk.
      destruct Hk as [(-> & E & _)|(Hne & Hk)]; eauto. injection E as -> ->. auto.
    - destruct (nth_error (hs S) h) as [[st tr]|] eqn:Eh; [|constructor; auto].
      constructor; simpl; auto. intros k st2 tr2 Hk. apply nth_error_upd_inv in Hk.
      destruct Hk as [(-> & E & _)|(Hne & Hk)]; eauto.
      injection E as -> ->. unfold hclose. destruct (live st) eqn:El; eauto.
      simpl. eapply hinv_prefix; eauto. apply warm_dinv.
  Qed.

  Lemma run_WInv ops : forall S, WInv S -> WInv (run ops S).
  Proof.
    induction ops as [|o ops IH]; intros S I; simpl; auto.
    unfold run. simpl. apply IH. apply WInv_step; auto.
  Qed.

  Theorem cache_warm_any_schedule ops h st tr :
    nth_error (hs (run ops {| dom := warm; hs := [] |})) h = Some (st, tr) ->
    st <> HFailed /\ (st = HDone -> tr = iter_spec domain) /\ is_prefix tr (iter_spec domain).
  Proof.
    intros Hn.
    assert (I0 : WInv {| dom := warm; hs := [] |}) by (constructor; simpl; auto; intros [|k] ? ? H; discriminate).
    pose proof (run_WInv ops _ I0) as [Hd Hh]. pose proof (Hh _ _ _ Hn) as Hi. repeat split.
    - intros ->. exact Hi.
    - intros ->. exact Hi.
    - eapply hinv_prefix; eauto. apply warm_dinv.
  Qed.

  (* what a whole sequential evaluation does with a variable: a fresh handle run to exhaustion *)
  Lemma drain_out d o d' st' : drain d = (o, d', st') ->
    match o with OYield _ => live st' = true | OStop => st' = HDone /\ src d' = [] | OErr => st' = HFailed end.
  Proof. unfold drain. destruct (src d) eqn:E; intros H; injection H as <- <- <-; auto. Qed.

  Lemma replay_out d i n o d' st' : replay d i n = (o, d', st') ->
    match o with OYield _ => live st' = true | OStop => st' = HDone /\ src d' = [] | OErr => st' = HFailed end.
  Proof.
    unfold replay. destruct (negb _).
    - intros H; injection H as <- <- <-; auto.
    - destruct (nth_error _ _).
      + intros H; injection H as <- <- <-; auto.
      + apply drain_out.
  Qed.

  Lemma hstep_out d st o d' st' : live st = true -> hstep d st = (o, d', st') ->
    match o with OYield _ => live st' = true | OStop => st' = HDone /\ src d' = [] | OErr => st' = HFailed end.
  Proof.
    destruct st; simpl; intros L H; try discriminate.
    - eapply replay_out; eauto.
    - eapply replay_out; eauto.
    - eapply drain_out; eauto.
  Qed.

  Lemma exhaust_inv fuel : forall d st tr,
    dinv d -> hinv d st tr -> live st = true -> (fuel > length domain - length tr)%nat ->
    exhaust fuel d st tr = Some (domain, {| cache := domain; src := [] |}).
  Proof.
    induction fuel as [|f IH]; intros d st tr Hd Hh Hl Hf; [lia|].
    simpl. destruct (hstep d st) as [[o d'] st'] eqn:Es.
    destruct (hstep_inv _ _ _ _ _ _ Hd Hh Es) as (A & B & C & D).
    pose proof (hinv_prefix _ _ _ A B) as [x Hx].
    pose proof (hstep_out _ _ _ _ _ Hl Es) as Ho.
    destruct o as [v| |]; simpl in B.
    - apply IH; auto. rewrite app_length. simpl.
      assert (E : length domain = length ((tr ++ [v]) ++ x)) by (simpl in Hx; congruence).
      rewrite !app_length in E. simpl in E. lia.
    - rewrite app_nil_r in B. destruct Ho as [-> Hs]. simpl in B. subst tr. f_equal. f_equal.
      unfold dinv in A. rewrite Hs, app_nil_r in A. destruct d'; simpl in *. congruence.
    - exfalso. subst st'. exact B.
  Qed.

  Lemma exhaust_fresh d :
    dinv d -> exhaust (S (S (length domain))) d HNew [] = Some (domain, {| cache := domain; src := [] |}).
  Proof. intros Hd. apply exhaust_inv; simpl; auto. lia. Qed.
End Sequential.

(* the empty domain: a variable without values stays that way for every handle of every sequential schedule *)
Corollary cache_sequential_empty ops S' h st tr :
  seq_run ops (init []) = Some S' -> nth_error (hs S') h = Some (st, tr) -> st <> HFailed /\ tr = [].
Proof.
  intros Hr Hn. destruct (cache_sequential [] (NoDup_nil _) ops S' h st tr Hr Hn) as (A & _ & [x Hx]).
  split; auto. unfold iter_spec in Hx. symmetry in Hx. apply app_eq_nil in Hx. tauto.
Qed.

Example empty_domain_two_handles :
  exists S', seq_run [Create; Next 0; Next 0; Create; Next 1; Create; Abandon 2; Create; Next 3]%nat (init []) = Some S' /\
             hs S' = [(HDone, []); (HDone, []); (HClosed, []); (HDone, [])].
Proof. eexists. split; vm_compute; reflexivity. Qed.

(* ------------------------------------------------------------------ 2. refutations on the current code *)
Definition done_values (S : sys) : list (list hv) :=
  map snd (filter (fun p => match fst p with HDone => true | _ => false end) (hs S)).
Definition any_failed (S : sys) : bool := existsb (fun p => match fst p with HFailed => true | _ => false end) (hs S).

(* nested loops over one variable: the inner iterator consumes the shared generator, the outer one ends early *)
Definition sched_lost : list op := [Create; Next 0; Create; Next 1; Next 1; Next 1; Next 0]%nat.
(* round robin: the first iterator grows the dict under the second one's live view *)
Definition sched_err : list op := [Create; Next 0; Create; Next 1; Next 0; Next 1]%nat.

Lemma refuted_interleave_lost :
  NoDup [1; 2] /\ hs (run sched_lost (init [1; 2])) = [(HDone, [1]); (HDone, [1; 2])].
Proof. split; [repeat constructor; simpl; intuition discriminate|vm_compute; reflexivity]. Qed.

Lemma refuted_interleave_err :
  NoDup [1; 2] /\ hs (run sched_err (init [1; 2])) = [(HDrain, [1; 2]); (HFailed, [1])].
Proof. split; [repeat constructor; simpl; intuition discriminate|vm_compute; reflexivity]. Qed.

(* a duplicate element: twice on the evaluation that drains, once afterwards (sequential schedule) *)
Definition sched_dup : list op := [Create; Next 0; Next 0; Next 0; Create; Next 1; Next 1]%nat.
Lemma refuted_dup :
  seq_run sched_dup (init [7; 7]) <> None /\
  hs (run sched_dup (init [7; 7])) = [(HDone, [7; 7]); (HDone, [7])].
Proof. split; vm_compute; [discriminate|reflexivity]. Qed.

(* ------------------------------------------------------------------ 3. the repaired iterator, any schedule *)
Lemma ins_prefix c v : is_prefix c (ins c v).
Proof. unfold ins. destruct (mem v c); [apply prefix_refl|exists [v]; reflexivity]. Qed.

Lemma fold_ins_prefix s : forall c, is_prefix c (fold_left ins s c).
Proof.
  induction s as [|v s IH]; intros c; simpl; [apply prefix_refl|].
  eapply prefix_trans; [apply ins_prefix|apply IH].
Qed.

Lemma rpull_some s : forall c v c' r, rpull c s = (Some v, c', r) ->
  c' = c ++ [v] /\ fold_left ins r c' = fold_left ins s c.
Proof.
  induction s as [|a s IH]; intros c v c' r H; simpl in H; [discriminate|].
  destruct (mem a c) eqn:E.
  - apply IH in H. destruct H as [-> H]. split; auto. simpl.
    replace (ins c a) with c by (unfold ins; now rewrite E). auto.
  - injection H as <- <- <-. split; auto. simpl.
    replace (ins c a) with (c ++ [a]) by (unfold ins; now rewrite E). auto.
Qed.

Lemma rpull_none s : forall c c' r, rpull c s = (None, c', r) ->
  c' = c /\ r = [] /\ fold_left ins s c = c.
Proof.
  induction s as [|a s IH]; intros c c' r H; simpl in H.
  - injection H as <- <-. auto.
  - destruct (mem a c) eqn:E; [|discriminate].
    apply IH in H. destruct H as (-> & -> & H). repeat split; auto. simpl.
    replace (ins c a) with c by (unfold ins; now rewrite E). auto.
Qed.

Lemma prefix_app_l (a b c : list hv) : is_prefix (a ++ b) c -> is_prefix a c.
Proof. intros [x ->]. exists (b ++ x). now rewrite app_assoc. Qed.

Section Repaired.
  (* [w]: what the cache will eventually hold -- the de-duplicated domain *)
  Variable w : list hv.

  Definition rdinv (d : dstate) : Prop := fold_left ins (src d) (cache d) = w.

  Definition rhinv (d : dstate) (st : rstate) (tr : list hv) : Prop :=
    match st with
    | RLive i pend => length tr = i /\ is_prefix (tr ++ pend) (cache d)
    | RDone => tr = w
    | RClosed => is_prefix tr (cache d)
    end.

  Lemma rhinv_mono d d' st tr x : rhinv d st tr -> cache d' = cache d ++ x -> rhinv d' st tr.
  Proof.
    destruct st; simpl; intros H E; auto.
    - destruct H. split; auto. rewrite E. apply prefix_app; auto.
    - rewrite E. apply prefix_app; auto.
  Qed.

  Lemma rhinv_prefix d st tr : rdinv d -> rhinv d st tr -> is_prefix tr w.
  Proof.
    unfold rdinv. intros Hd H.
    assert (P : is_prefix (cache d) w) by (rewrite <- Hd; apply fold_ins_prefix).
    destruct st; simpl in H.
    - destruct H as [_ H]. apply prefix_app_l in H. eapply prefix_trans; eauto.
    - subst. apply prefix_refl.
    - eapply prefix_trans; eauto.
  Qed.

  Lemma rstep_inv d st tr o d' st' :
    rdinv d -> rhinv d st tr -> rstep d st = (o, d', st') ->
    rdinv d' /\ rhinv d' st' (tr ++ yielded o) /\ exists x, cache d' = cache d ++ x.
  Proof.
    unfold rdinv. intros Hd Hh H. destruct st as [i pend| |]; simpl in H, Hh.
    - destruct Hh as [Hl Hp]. destruct pend as [|v p].
      + rewrite app_nil_r in Hp. destruct (skipn i (cache d)) as [|v p] eqn:Es.
        * assert (Hlen : (length (cache d) <= i)%nat).
          { destruct (Nat.le_gt_cases (length (cache d)) i) as [L|L]; auto.
            assert (length (skipn i (cache d)) = length (cache d) - i)%nat by apply skipn_length.
            rewrite Es in H0. simpl in H0. lia. }
          assert (tr = cache d) by (apply prefix_length_eq; auto; lia). subst tr.
          destruct (rpull (cache d) (src d)) as [[[v|] c] r] eqn:Ep.
          -- injection H as <- <- <-. apply rpull_some in Ep. destruct Ep as [-> Ep]. simpl.
             split; [congruence|]. split; [|eauto]. rewrite app_length. simpl. split; [lia|].
             rewrite app_nil_r. apply prefix_refl.
          -- injection H as <- <- <-. apply rpull_none in Ep. destruct Ep as (-> & -> & Ep). simpl.
             split; [congruence|]. split; [|exists []; now rewrite app_nil_r]. rewrite app_nil_r. congruence.
        * injection H as <- <- <-. split; auto. split; [|exists []; now rewrite app_nil_r].
          simpl. rewrite app_length. simpl. split; [lia|].
          rewrite (prefix_is_firstn _ _ Hp), Hl. rewrite <- app_assoc. simpl. rewrite <- Es, firstn_skipn.
          apply prefix_refl.
      + injection H as <- <- <-. split; auto. split; [|exists []; now rewrite app_nil_r].
        simpl. rewrite app_length. simpl. split; [lia|]. rewrite <- app_assoc. simpl. auto.
    - injection H as <- <- <-. simpl. rewrite app_nil_r. split; auto. split; auto. exists []; now rewrite app_nil_r.
    - injection H as <- <- <-. simpl. rewrite app_nil_r. split; auto. split; auto. exists []; now rewrite app_nil_r.
  Qed.

  Record RInv (S : rsys) : Prop := {
    R_d : rdinv (rdom S);
    R_h : forall h st tr, nth_error (rhs S) h = Some (st, tr) -> rhinv (rdom S) st tr
  }.

  Lemma RInv_step o S : RInv S -> RInv (rsysstep o S).
  Proof.
    intros [Hd Hh]. destruct o as [|h|h]; simpl.
    - constructor; simpl; auto. intros k st tr Hk.
      destruct (Nat.lt_ge_cases k (length (rhs S))) as [Hl|Hl].
      + rewrite nth_error_app1 in Hk by auto. eauto.
      + rewrite nth_error_app2 in Hk by auto. destruct (k - length (rhs S))%nat as [|m]; simpl in Hk.
        * injection Hk as <- <-. simpl. split; auto. apply prefix_nil.
        * destruct m; discriminate.
    - destruct (nth_error (rhs S) h) as [[st tr]|] eqn:Eh; [|constructor; auto].
      destruct (rstep (rdom S) st) as [[o d'] st'] eqn:Es.
      destruct (rstep_inv _ _ _ _ _ _ Hd (Hh _ _ _ Eh) Es) as (A & B & x & C).
      constructor; simpl; auto. intros k st2 tr2 Hk. apply nth_error_upd_inv in Hk.
      destruct Hk as [(-> & E & _)|(Hne & Hk)].
      + injection E as -> ->. auto.
      + eapply rhinv_mono; eauto.
    - destruct (nth_error (rhs S) h) as [[st tr]|] eqn:Eh; [|constructor; auto].
      constructor; simpl; auto. intros k st2 tr2 Hk. apply nth_error_upd_inv in Hk.
      destruct Hk as [(-> & E & _)|(Hne & Hk)]; eauto.
      injection E as -> ->. pose proof (Hh _ _ _ Eh) as Hi. destruct st; simpl in *; auto.
      destruct Hi as [_ Hi]. eapply prefix_app_l; eauto.
  Qed.

  Lemma rrun_inv ops : forall S, RInv S -> RInv (rrun ops S).
  Proof.
    induction ops as [|o ops IH]; intros S I; simpl; auto.
    unfold rrun. simpl. apply IH. apply RInv_step; auto.
  Qed.

  (* a fresh handle run to exhaustion: what one whole evaluation does with a variable *)
  Lemma rstep_out d st o d' st' : rstep d st = (o, d', st') ->
    match o with
    | OYield _ => exists i p, st' = RLive i p
    | OStop => (exists i p, st = RLive i p) -> st' = RDone /\ src d' = []
    | OErr => False
    end.
  Proof.
    destruct st as [i [|v p]| |]; simpl.
    - destruct (skipn i (cache d)) as [|v p].
      + destruct (rpull (cache d) (src d)) as [[[v|] c] r] eqn:Ep; intros H; injection H as <- <- <-; eauto.
        intros _. apply rpull_none in Ep. simpl. tauto.
      + intros H; injection H as <- <- <-; eauto.
    - intros H; injection H as <- <- <-; eauto.
    - intros H; injection H as <- <- <-. intros (i & p & E). discriminate.
    - intros H; injection H as <- <- <-. intros (i & p & E). discriminate.
  Qed.

  Lemma rexhaust_inv fuel : forall d i p tr,
    rdinv d -> rhinv d (RLive i p) tr -> (fuel > length w - length tr)%nat ->
    rexhaust fuel d (RLive i p) tr = Some (w, {| cache := w; src := [] |}).
  Proof.
    induction fuel as [|f IH]; intros d i p tr Hd Hh Hf; [lia|].
    cbn [rexhaust]. destruct (rstep d (RLive i p)) as [[o d'] st'] eqn:Es.
    destruct (rstep_inv _ _ _ _ _ _ Hd Hh Es) as (A & B & _).
    pose proof (rhinv_prefix _ _ _ A B) as [x Hx].
    pose proof (rstep_out _ _ _ _ _ Es) as Ho.
    destruct o as [v| |]; cbn [yielded] in *.
    - destruct Ho as (i' & p' & ->). apply IH; auto. rewrite app_length. simpl.
      assert (E : length w = length ((tr ++ [v]) ++ x)) by congruence.
      rewrite !app_length in E. simpl in E. lia.
    - destruct Ho as [-> Hs]; eauto. simpl in B. rewrite app_nil_r in B. subst tr. f_equal. f_equal.
      unfold rdinv in A. rewrite Hs in A. simpl in A. destruct d'; simpl in *. congruence.
    - contradiction.
  Qed.

  Lemma rexhaust_fresh d : rdinv d ->
    rexhaust (S (S (length w))) d (RLive 0 []) [] = Some (w, {| cache := w; src := [] |}).
  Proof. intros Hd. apply rexhaust_inv; simpl; auto; [split; auto; apply prefix_nil|lia]. Qed.
End Repaired.

Lemma RInv_init domain : RInv (dedup domain) (rinit domain).
Proof. constructor; simpl; [reflexivity|intros [|h] ? ? H; discriminate]. Qed.

(* THE theorem about the current iterator: every domain (duplicates allowed), every schedule of create/next/abandon
   operations, any number of live handles *)
Theorem cache_any_schedule_repaired domain ops h st tr :
  nth_error (rhs (rrun ops (rinit domain))) h = Some (st, tr) ->
  (st = RDone -> tr = dedup domain) /\ is_prefix tr (dedup domain).
Proof.
  intros Hn. pose proof (rrun_inv (dedup domain) ops _ (RInv_init domain)) as [Hd Hh].
  pose proof (Hh _ _ _ Hn) as Hi. split.
  - intros ->. exact Hi.
  - eapply rhinv_prefix; eauto.
Qed.

Corollary cache_any_schedule_empty ops h st tr :
  nth_error (rhs (rrun ops (rinit []))) h = Some (st, tr) -> tr = [].
Proof.
  intros Hn. destruct (cache_any_schedule_repaired [] ops h st tr Hn) as [_ [x Hx]].
  change (dedup []) with (@nil hv) in Hx. symmetry in Hx. apply app_eq_nil in Hx. tauto.
Qed.

Lemma dedup_nodup_aux s : forall c, NoDup (c ++ s) -> fold_left ins s c = c ++ s.
Proof.
  induction s as [|v s IH]; intros c H; simpl; [now rewrite app_nil_r|].
  replace (ins c v) with (c ++ [v]) by (unfold ins; now rewrite (mem_false_nodup c v s H)).
  rewrite IH; rewrite <- app_assoc; simpl; auto.
Qed.

Lemma dedup_nodup l : NoDup l -> dedup l = l.
Proof. intros H. unfold dedup. now rewrite dedup_nodup_aux. Qed.

(* the repaired iterator on the two schedules that break the current one *)
Example repaired_on_witnesses :
  rhs (rrun (sched_lost ++ [Next 0]%nat) (rinit [1; 2])) = [(RDone, [1; 2]); (RDone, [1; 2])] /\
  rhs (rrun (sched_err ++ [Next 1; Next 0; Next 1]%nat) (rinit [1; 2])) = [(RDone, [1; 2]); (RDone, [1; 2])] /\
  rhs (rrun sched_dup (rinit [7; 7])) = [(RDone, [7]); (RDone, [7])].
Proof. repeat split; vm_compute; reflexivity. Qed.
