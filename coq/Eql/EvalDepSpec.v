(* C01 (flatten / nested sub-queries) -- Spec: the ordinary first-order reading of a query with GENERATED variables.
   Independent of the model (Eql/EvalDep.v).  Besides plain variables over explicit domains a query declares
     z := FlatOf e        z = flatten(e): z ranges over the elements of the collection value of e
     z := SubOf z0 c      z = an(entity(z0, c)): z ranges over the values of z0's domain for which c holds
   Declarations are listed most-dependent first: the source of a declaration mentions plain variables and variables
   declared further down the list only ([wf_ds], decidable).
   An answer is given by ONE assignment of all variables, plain and generated, under which every (free) generated variable
   has a value of its range, every plain variable a value of its domain, and the condition holds; quantifiers over a
   generated variable range over its range under the current assignment. *)
From Coq Require Import List ZArith Bool Arith Lia.
From Krrood Require Import Eql.Syntax Eql.Sat.
Import ListNotations.

Inductive gen : Type :=
| FlatOf (e : opnd)
| SubOf (z0 : var) (c : option cond).

Definition decls := list (var * gen).

Fixpoint find_decl (ds : decls) (x : var) : option gen :=
  match ds with
  | [] => None
  | (z, g) :: ds' => if Nat.eqb x z then Some g else find_decl ds' x
  end.

Definition is_plain (ds : decls) (x : var) : bool := match find_decl ds x with None => true | Some _ => false end.

(* the elements of a collection value (iteration of a Python list) *)
Definition elems (v : val) : list val :=
  match v with VLI l => map VI l | VLO l => map VO l | _ => [] end.

Definition cond_fv_opt (c : option cond) : list var := match c with Some c => cond_fv c | None => [] end.
Definition cond_vars_opt (c : option cond) : list var := match c with Some c => cond_vars c | None => [] end.

(* the variables the range of a generated variable depends on (a sub-query binds its own variable) *)
Definition gen_vars (g : gen) : list var :=
  match g with FlatOf e => opnd_vars e | SubOf z0 c => remove_var z0 (cond_fv_opt c) end.
(* every variable a declaration mentions *)
Definition gen_allvars (g : gen) : list var :=
  match g with FlatOf e => opnd_vars e | SubOf z0 c => z0 :: cond_vars_opt c end.

(* dependency order, by numbering: a generated variable is numbered above everything its declaration mentions and above
   every variable declared further down; in particular it is declared once and never depends on itself *)
Fixpoint wf_ds (ds : decls) : bool :=
  match ds with
  | [] => true
  | (z, g) :: ds' =>
      forallb (fun x => Nat.ltb x z) (gen_allvars g) && forallb (fun d : var * gen => Nat.ltb (fst d) z) ds' && wf_ds ds'
  end.

(* all variables bound by a quantifier somewhere in the condition *)
Fixpoint qvarsD (c : cond) : list var :=
  match c with
  | CCmp _ _ _ => []
  | CAnd l r | CElseIf l r | CUnion l r => qvarsD l ++ qvarsD r
  | CNot c => qvarsD c
  | CExists (OVar y) c => y :: qvarsD c
  | CExists _ c => qvarsD c
  | CForAll y c => y :: qvarsD c
  end.
Definition qvarsD_opt (c : option cond) : list var := match c with Some c => qvarsD c | None => [] end.

(* ---------- query construction: what or_ sees ---------- *)
(* the Variable instances below the node of [x] (DomainMapping: the child's; ResultQuantifier: the selected variable and
   those of the condition) *)
Fixpoint roots (ds : decls) (x : var) : list var :=
  match ds with
  | [] => [x]
  | (z, g) :: ds' =>
      if Nat.eqb x z then
        match g with
        | FlatOf e => flat_map (roots ds') (opnd_vars e)
        | SubOf z0 c => roots ds' z0 ++ flat_map (roots ds') (cond_vars_opt c)
        end
      else roots ds' x
  end.

(* or_ (optimize_or) compares the Variable instances of the two sides: a generated variable counts as the variables
   below it *)
Definition mk_orD (ds : decls) (l r : cond) : cond :=
  if same_vars (flat_map (roots ds) (cond_vars l)) (flat_map (roots ds) (cond_vars r)) then CElseIf l r else CUnion l r.

Section Spec.
  Variable W : world.
  Variable D : domains.

  (* the values a generated variable ranges over under an assignment of the variables its declaration depends on *)
  Definition range (rho : asg) (g : gen) : list val :=
    match g with
    | FlatOf e => elems (den W rho e)
    | SubOf z0 c => filter (fun v => sat_opt W D (upd rho z0 v) c) (D z0)
    end.

  (* what a quantifier over [y] ranges over *)
  Definition qrange (ds : decls) (rho : asg) (y : var) : list val :=
    match find_decl ds y with Some g => range rho g | None => D y end.

  Fixpoint satD (ds : decls) (rho : asg) (c : cond) : bool :=
    match c with
    | CCmp op l r => apply_op W op (den W rho l) (den W rho r)
    | CAnd l r => satD ds rho l && satD ds rho r
    | CElseIf l r | CUnion l r => satD ds rho l || satD ds rho r
    | CNot c => negb (satD ds rho c)
    | CExists (OVar y) c => existsb (fun v => satD ds (upd rho y v) c) (qrange ds rho y)
    | CExists _ c => satD ds rho c
    | CForAll y c => forallb (fun v => satD ds (upd rho y v) c) (qrange ds rho y)
    end.
  Definition satD_opt (ds : decls) (rho : asg) (c : option cond) : bool :=
    match c with Some c => satD ds rho c | None => true end.

  (* free variables: a quantifier binds its variable, and depends on what the range of that variable depends on *)
  Definition qdeps (ds : decls) (y : var) : list var :=
    match find_decl ds y with Some g => gen_vars g | None => [] end.
  Fixpoint fvD (ds : decls) (c : cond) : list var :=
    match c with
    | CCmp _ l r => opnd_vars l ++ opnd_vars r
    | CAnd l r | CElseIf l r | CUnion l r => fvD ds l ++ fvD ds r
    | CNot c => fvD ds c
    | CExists (OVar y) c => remove_var y (fvD ds c) ++ qdeps ds y
    | CExists e c => opnd_vars e ++ fvD ds c
    | CForAll y c => remove_var y (fvD ds c) ++ qdeps ds y
    end.
  Definition fvD_opt (ds : decls) (c : option cond) : list var := match c with Some c => fvD ds c | None => [] end.

  (* the variables an answer speaks about *)
  Definition mentioned (ds : decls) (q : query) : list var :=
    flat_map opnd_vars (q_sels q) ++ fvD_opt ds (q_cond q) ++ flat_map (fun d : var * gen => gen_vars (snd d)) ds.

  (* [rho] is admissible: plain variables take values of their domains, generated variables (that no quantifier binds)
     values of their ranges *)
  Definition validD (ds : decls) (Q M : list var) (rho : asg) : Prop :=
    (forall x, In x M -> find_decl ds x = None -> In (rho x) (D x)) /\
    (forall z g, In (z, g) ds -> ~ In z Q -> In (rho z) (range rho g)).

  Definition answerD (ds : decls) (q : query) (row : list val) : Prop :=
    exists rho, validD ds (qvarsD_opt (q_cond q)) (mentioned ds q) rho /\
                satD_opt ds rho (q_cond q) = true /\
                row = map (den W rho) (q_sels q).

  (* ---------- executable companion ---------- *)
  Definition plain_of (ds : decls) (M : list var) : list var := filter (is_plain ds) (nodup Nat.eq_dec M).

  (* assignments of the plain variables, extended through the declarations in dependency order *)
  Fixpoint gen_asgs (base : list binds) (Q : list var) (ds : decls) : list binds :=
    match ds with
    | [] => base
    | (z, g) :: ds' =>
        flat_map (fun b => if nmem z Q then [b] else map (fun v => (z, v) :: b) (range (asg_of b) g)) (gen_asgs base Q ds')
    end.

  Definition all_asgs (ds : decls) (q : query) : list binds :=
    gen_asgs (assignments D (plain_of ds (mentioned ds q))) (qvarsD_opt (q_cond q)) ds.

  Definition answers_execD (ds : decls) (q : query) : list (list val) :=
    map (fun b => map (den W (asg_of b)) (q_sels q))
        (filter (fun b => satD_opt ds (asg_of b) (q_cond q)) (all_asgs ds q)).

  (* scoping: a generated variable that no quantifier binds does not depend on a quantified one, and quantified
     variables are not selected *)
  Definition scoped (ds : decls) (q : query) : bool :=
    let Q := qvarsD_opt (q_cond q) in
    forallb (fun d : var * gen => nmem (fst d) Q || forallb (fun x => negb (nmem x Q)) (gen_vars (snd d))) ds &&
    forallb (fun x => negb (nmem x Q)) (flat_map opnd_vars (q_sels q)) &&
    forallb (fun x => negb (nmem x Q)) (fvD_opt ds (q_cond q)).

  (* ---------- extensionality ---------- *)
  Lemma range_ext rho rho' g : (forall x, In x (gen_vars g) -> rho x = rho' x) -> range rho g = range rho' g.
  Proof.
    destruct g as [e|z0 c]; simpl; intros H.
    - now rewrite (den_ext W rho rho' e H).
    - apply filter_ext. intros v. apply sat_opt_ext. intros x Hx.
      destruct (Nat.eq_dec x z0) as [->|Hne]; [now rewrite !upd_eq|].
      rewrite !upd_ne by exact Hne. apply H. apply in_remove_var. split; auto.
  Qed.

  Lemma qrange_ext ds rho rho' y : (forall x, In x (qdeps ds y) -> rho x = rho' x) -> qrange ds rho y = qrange ds rho' y.
  Proof. unfold qrange, qdeps. destruct (find_decl ds y); auto. apply range_ext. Qed.

  Lemma satD_ext ds c : forall rho rho',
    (forall x, In x (fvD ds c) -> rho x = rho' x) -> satD ds rho c = satD ds rho' c.
  Proof.
    induction c as [op l r|l IHl r IHr|l IHl r IHr|l IHl r IHr|c IH|e c IH|y c IH]; simpl; intros rho rho' H.
    - rewrite (den_ext W rho rho' l), (den_ext W rho rho' r); auto; intros x Hx; apply H, in_or_app; auto.
    - rewrite (IHl rho rho'), (IHr rho rho'); auto; intros x Hx; apply H, in_or_app; auto.
    - rewrite (IHl rho rho'), (IHr rho rho'); auto; intros x Hx; apply H, in_or_app; auto.
    - rewrite (IHl rho rho'), (IHr rho rho'); auto; intros x Hx; apply H, in_or_app; auto.
    - rewrite (IH rho rho'); auto.
    - destruct e as [v|y|e' a]; simpl in H.
      + apply IH. intros x Hx. apply H. exact Hx.
      + rewrite (qrange_ext ds rho rho' y) by (intros x Hx; apply H, in_or_app; auto).
        apply existsb_ext_in. intros v _. apply IH. intros x Hx.
        destruct (Nat.eq_dec x y) as [->|Hne]; [now rewrite !upd_eq|].
        rewrite !upd_ne by exact Hne. apply H, in_or_app. left. apply in_remove_var. auto.
      + apply IH. intros x Hx. apply H. apply in_or_app. auto.
    - rewrite (qrange_ext ds rho rho' y) by (intros x Hx; apply H, in_or_app; auto).
      apply forallb_ext_in. intros v _. apply IH. intros x Hx.
      destruct (Nat.eq_dec x y) as [->|Hne]; [now rewrite !upd_eq|].
      rewrite !upd_ne by exact Hne. apply H, in_or_app. left. apply in_remove_var. auto.
  Qed.

  Lemma satD_opt_ext ds c rho rho' :
    (forall x, In x (fvD_opt ds c) -> rho x = rho' x) -> satD_opt ds rho c = satD_opt ds rho' c.
  Proof. destruct c; simpl; auto. apply satD_ext. Qed.

  (* without quantifiers the dependent reading is the plain one *)
  Lemma satD_qfree ds c : qfree c = true -> forall rho, satD ds rho c = sat W D rho c.
  Proof.
    induction c as [op l r|l IHl r IHr|l IHl r IHr|l IHl r IHr|c IH|e c IH|y c IH]; simpl; intros Q rho; auto;
      try discriminate; try (apply andb_prop in Q as [Ql Qr]; now rewrite IHl, IHr); try (now rewrite IH).
  Qed.
  Lemma fvD_qfree ds c : qfree c = true -> fvD ds c = cond_vars c.
  Proof.
    induction c as [op l r|l IHl r IHr|l IHl r IHr|l IHl r IHr|c IH|e c IH|y c IH]; simpl; intros Q; auto;
      try discriminate; apply andb_prop in Q as [Ql Qr]; now rewrite IHl, IHr.
  Qed.
  Lemma qvarsD_qfree c : qfree c = true -> qvarsD c = [].
  Proof.
    induction c as [op l r|l IHl r IHr|l IHl r IHr|l IHl r IHr|c IH|e c IH|y c IH]; simpl; intros Q; auto;
      try discriminate; apply andb_prop in Q as [Ql Qr]; now rewrite IHl, IHr.
  Qed.
End Spec.
