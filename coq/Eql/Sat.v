(* C01 / C02 -- Spec: the ordinary first-order reading of an EQL query.
   Independent of the model (Eql/Eval.v). *)
From Coq Require Import List ZArith Bool Arith Lia.
From Krrood Require Import Eql.Syntax.
Import ListNotations.

Definition asg := var -> val.

Fixpoint den (W : world) (rho : asg) (e : opnd) : val :=
  match e with
  | OLit v => v
  | OVar x => rho x
  | OAttr e a => getattr W (den W rho e) a
  end.

Definition upd (rho : asg) (x : var) (w : val) : asg := fun y => if Nat.eqb y x then w else rho y.

Fixpoint sat (W : world) (D : domains) (rho : asg) (c : cond) : bool :=
  match c with
  | CCmp op l r => apply_op W op (den W rho l) (den W rho r)
  | CAnd l r => sat W D rho l && sat W D rho r
  | CElseIf l r | CUnion l r => sat W D rho l || sat W D rho r
  | CNot c => negb (sat W D rho c)
  | CExists (OVar y) c => existsb (fun v => sat W D (upd rho y v) c) (D y)
  | CExists _ c => sat W D rho c
  | CForAll y c => forallb (fun v => sat W D (upd rho y v) c) (D y)
  end.

Definition sat_opt (W : world) (D : domains) (rho : asg) (c : option cond) : bool :=
  match c with Some c => sat W D rho c | None => true end.

Definition in_dom_on (D : domains) (xs : list var) (rho : asg) : Prop :=
  forall x, In x xs -> In (rho x) (D x).

(* [row] is an answer of [q]: one assignment of the query's variables to elements of their domains
   satisfies the condition, and every selected expression is evaluated under that same assignment *)
Definition answer (W : world) (D : domains) (q : query) (row : list val) : Prop :=
  exists rho, in_dom_on D (query_vars q) rho /\ sat_opt W D rho (q_cond q) = true /\
              row = map (den W rho) (q_sels q).

(* ---------- executable companion: enumerate the assignments of the query's variables ---------- *)
Definition binds := list (var * val).

Fixpoint lookup (b : binds) (x : var) : option val :=
  match b with
  | [] => None
  | (y, v) :: b' => if Nat.eqb x y then Some v else lookup b' x
  end.

Definition asg_of (b : binds) : asg := fun x => match lookup b x with Some v => v | None => VI 0 end.

Fixpoint assignments (D : domains) (xs : list var) : list binds :=
  match xs with
  | [] => [[]]
  | x :: xs' => flat_map (fun b => map (fun v => (x, v) :: b) (D x)) (assignments D xs')
  end.

Definition answers_exec (W : world) (D : domains) (q : query) : list (list val) :=
  map (fun b => map (den W (asg_of b)) (q_sels q))
      (filter (fun b => sat_opt W D (asg_of b) (q_cond q)) (assignments D (nodup Nat.eq_dec (query_vars q)))).

(* ---------- the companion computes exactly the answers ---------- *)
Lemma den_ext W rho rho' e :
  (forall x, In x (opnd_vars e) -> rho x = rho' x) -> den W rho e = den W rho' e.
Proof.
  induction e as [v|x|e IH a]; simpl; intros H.
  - reflexivity.
  - apply H. unfold opnd_vars; simpl; auto.
  - f_equal. apply IH. intros x Hx. apply H. exact Hx.
Qed.

Lemma upd_eq rho x w : upd rho x w x = w.
Proof. unfold upd. now rewrite Nat.eqb_refl. Qed.
Lemma upd_ne rho x w y : y <> x -> upd rho x w y = rho y.
Proof. unfold upd. intros H. destruct (Nat.eqb_spec y x); [contradiction|reflexivity]. Qed.

Lemma in_remove_var x y l : In x (remove_var y l) <-> In x l /\ x <> y.
Proof.
  unfold remove_var. rewrite filter_In. split; intros [H1 H2]; split; auto.
  - intros ->. rewrite Nat.eqb_refl in H2. discriminate.
  - destruct (Nat.eqb_spec x y); [contradiction|reflexivity].
Qed.

Lemma existsb_ext_in {A} (f g : A -> bool) l : (forall a, In a l -> f a = g a) -> existsb f l = existsb g l.
Proof. induction l as [|a l IH]; simpl; intros H; auto. rewrite H, IH; auto. Qed.
Lemma forallb_ext_in {A} (f g : A -> bool) l : (forall a, In a l -> f a = g a) -> forallb f l = forallb g l.
Proof. induction l as [|a l IH]; simpl; intros H; auto. rewrite H, IH; auto. Qed.

Lemma sat_ext W D c : forall rho rho',
  (forall x, In x (cond_fv c) -> rho x = rho' x) -> sat W D rho c = sat W D rho' c.
Proof.
  induction c as [op l r|l IHl r IHr|l IHl r IHr|l IHl r IHr|c IH|e c IH|y c IH]; simpl; intros rho rho' H.
  - rewrite (den_ext W rho rho' l), (den_ext W rho rho' r); auto; intros x Hx; apply H, in_or_app; auto.
  - rewrite (IHl rho rho'), (IHr rho rho'); auto; intros x Hx; apply H, in_or_app; auto.
  - rewrite (IHl rho rho'), (IHr rho rho'); auto; intros x Hx; apply H, in_or_app; auto.
  - rewrite (IHl rho rho'), (IHr rho rho'); auto; intros x Hx; apply H, in_or_app; auto.
  - rewrite (IH rho rho'); auto.
  - assert (Hq : forall y, (forall x, In x (remove_var y (cond_fv c)) -> rho x = rho' x) ->
                 existsb (fun v => sat W D (upd rho y v) c) (D y) = existsb (fun v => sat W D (upd rho' y v) c) (D y)).
    { intros y Hy. apply existsb_ext_in. intros v _. apply IH. intros x Hx.
      destruct (Nat.eq_dec x y) as [->|Hne]; [now rewrite !upd_eq|].
      rewrite !upd_ne by exact Hne. apply Hy. apply in_remove_var. auto. }
    destruct e as [v|y|e' a]; simpl in H.
    + apply IH. intros x Hx. apply H. exact Hx.
    + apply Hq. exact H.
    + apply IH. intros x Hx. apply H. apply in_or_app. auto.
  - apply forallb_ext_in. intros v _. apply IH. intros x Hx.
    destruct (Nat.eq_dec x y) as [->|Hne]; [now rewrite !upd_eq|].
    rewrite !upd_ne by exact Hne. apply H. apply in_remove_var. auto.
Qed.

Lemma lookup_cons_eq x v b : lookup ((x, v) :: b) x = Some v.
Proof. simpl. now rewrite Nat.eqb_refl. Qed.
Lemma lookup_cons_ne x y v b : x <> y -> lookup ((y, v) :: b) x = lookup b x.
Proof. simpl. intros H. destruct (Nat.eqb_spec x y); [contradiction|reflexivity]. Qed.

(* every enumerated assignment binds exactly [xs] to domain elements, and every such assignment is enumerated *)
Lemma assignments_sound D xs b :
  In b (assignments D xs) -> forall x, In x xs -> exists v, lookup b x = Some v /\ In v (D x).
Proof.
  revert b. induction xs as [|y xs IH]; simpl; intros b Hb x Hx; [contradiction|].
  apply in_flat_map in Hb as (b0 & Hb0 & Hb). apply in_map_iff in Hb as (v & <- & Hv).
  destruct (Nat.eq_dec x y) as [->|Hne].
  - exists v. rewrite lookup_cons_eq. auto.
  - rewrite lookup_cons_ne by exact Hne. destruct Hx as [->|Hx]; [contradiction|]. eauto.
Qed.

Lemma assignments_complete D xs rho :
  (forall x, In x xs -> In (rho x) (D x)) ->
  exists b, In b (assignments D xs) /\ forall x, In x xs -> lookup b x = Some (rho x).
Proof.
  induction xs as [|y xs IH]; simpl; intros H.
  - exists []. split; auto. intros x [].
  - destruct IH as (b & Hb & Hl); [intros; apply H; auto|].
    exists ((y, rho y) :: b). split.
    + apply in_flat_map. exists b. split; auto. apply in_map_iff. exists (rho y). split; auto.
    + intros x Hx. destruct (Nat.eq_dec x y) as [->|Hne].
      * now rewrite lookup_cons_eq.
      * rewrite lookup_cons_ne by exact Hne. destruct Hx as [->|Hx]; [contradiction|auto].
Qed.

Lemma sat_opt_ext W D rho rho' c :
  (forall x, In x (match c with Some c => cond_fv c | None => [] end) -> rho x = rho' x) ->
  sat_opt W D rho c = sat_opt W D rho' c.
Proof. destruct c; simpl; auto. apply sat_ext. Qed.

Lemma map_den_ext W rho rho' es :
  (forall x, In x (flat_map opnd_vars es) -> rho x = rho' x) -> map (den W rho) es = map (den W rho') es.
Proof.
  intros H. apply map_ext_in. intros e He. apply den_ext. intros x Hx. apply H.
  apply in_flat_map. eauto.
Qed.

Theorem answers_exec_correct W D q row : In row (answers_exec W D q) <-> answer W D q row.
Proof.
  unfold answers_exec, answer. split.
  - intros H. apply in_map_iff in H as (b & <- & Hb). apply filter_In in Hb as [Hb Hs].
    exists (asg_of b). repeat split; auto.
    intros x Hx. destruct (assignments_sound _ _ _ Hb x) as (v & Hl & Hv).
    + apply nodup_In. exact Hx.
    + unfold asg_of. now rewrite Hl.
  - intros (rho & Hd & Hs & ->).
    destruct (assignments_complete D (nodup Nat.eq_dec (query_vars q)) rho) as (b & Hb & Hl).
    + intros x Hx. apply Hd. eapply nodup_In; eauto.
    + assert (E : forall x, In x (query_vars q) -> asg_of b x = rho x).
      { intros x Hx. unfold asg_of. rewrite Hl; auto. apply nodup_In. exact Hx. }
      apply in_map_iff. exists b. split.
      * apply map_den_ext. intros x Hx. apply E. unfold query_vars. apply in_or_app. auto.
      * apply filter_In. split; auto. rewrite <- Hs. apply sat_opt_ext.
        intros x Hx. apply E. unfold query_vars. apply in_or_app. auto.
Qed.
