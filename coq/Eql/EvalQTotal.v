(* C01 with quantifiers, part 3: evaluation under bindings that already bind every variable of a quantifier-free
   condition: no new bindings, at least one result, and the FIRST result tells the truth (what for_all relies on). *)
From Coq Require Import List ZArith Bool Arith Lia.
From Krrood Require Import Eql.Syntax Eql.Sat Eql.Eval Eql.EvalProofs Eql.EvalQInv Eql.EvalQDefs.
Import ListNotations.

Section Total.
  Variable W : world.
  Variable D : domains.

  Lemma asg_of_extends b : extends (asg_of b) b.
  Proof. intros x v H. unfold asg_of. now rewrite H. Qed.

  Lemma ev_opnd_total e : forall b, binds_all b (opnd_vars e) ->
    ev_opnd W D e b = [(b, den W (asg_of b) e)].
  Proof.
    induction e as [w|x|e IH a]; simpl; intros b Hb.
    - reflexivity.
    - assert (Hx : bound b x = true) by (apply Hb; unfold opnd_vars; simpl; auto).
      unfold bound in Hx. unfold asg_of. destruct (lookup b x); [reflexivity|discriminate].
    - rewrite IH by exact Hb. reflexivity.
  Qed.

  Lemma ev_cmp_total op l r b : binds_all b (opnd_vars l ++ opnd_vars r) ->
    ev_cmp W D op l r b = [(b, negb (apply_op W op (den W (asg_of b) l) (den W (asg_of b) r)))].
  Proof.
    intros Hb. unfold ev_cmp.
    assert (Hl : binds_all b (opnd_vars l)) by (intros x Hx; apply Hb, in_or_app; auto).
    assert (Hr : binds_all b (opnd_vars r)) by (intros x Hx; apply Hb, in_or_app; auto).
    destruct (right_first b r); rewrite ?(ev_opnd_total r b Hr), ?(ev_opnd_total l b Hl); simpl;
      rewrite ?(ev_opnd_total r b Hr), ?(ev_opnd_total l b Hl); reflexivity.
  Qed.

  (* every result keeps exactly the incoming bindings *)
  Lemma eval_total_same c : qfree c = true -> forall b, binds_all b (cond_vars c) ->
    forall b' f, In (b', f) (eval W D c b) -> b' = b.
  Proof.
    induction c as [op l r|l IHl r IHr|l IHl r IHr|l IHl r IHr|c IH|e c IH|y c IH]; simpl; intros Q b Hb b' f Hin;
      try discriminate;
      try (apply andb_prop in Q as [Ql Qr];
           assert (Hbl : binds_all b (cond_vars l)) by (intros x Hx; apply Hb, in_or_app; auto);
           assert (Hbr : binds_all b (cond_vars r)) by (intros x Hx; apply Hb, in_or_app; auto)).
    - rewrite ev_cmp_total in Hin by exact Hb. destruct Hin as [[= <- _]|[]]. reflexivity.
    - apply in_flat_map in Hin as ([b1 f1] & H1 & H2). simpl in H2.
      pose proof (IHl Ql b Hbl _ _ H1) as ->. destruct f1.
      + destruct H2 as [[= <- _]|[]]. reflexivity.
      + eauto.
    - apply in_flat_map in Hin as ([b1 f1] & H1 & H2). simpl in H2.
      pose proof (IHl Ql b Hbl _ _ H1) as ->. destruct f1.
      + eauto.
      + destruct H2 as [[= <- _]|[]]. reflexivity.
    - apply in_app_or in Hin as [Hin|Hin]; [|apply filter_In in Hin as [Hin _]; eauto].
      apply in_flat_map in Hin as ([b1 f1] & H1 & H2). simpl in H2.
      pose proof (IHl Ql b Hbl _ _ H1) as ->. destruct f1.
      + eauto.
      + destruct H2 as [[= <- _]|[]]. reflexivity.
    - apply in_map_iff in Hin as ([b1 f1] & [= <- _] & H1). eauto.
  Qed.

  (* the first result tells the truth *)
  Lemma eval_total_head c : qfree c = true -> forall b, binds_all b (cond_vars c) ->
    exists rest, eval W D c b = (b, negb (sat W D (asg_of b) c)) :: rest.
  Proof.
    induction c as [op l r|l IHl r IHr|l IHl r IHr|l IHl r IHr|c IH|e c IH|y c IH]; simpl; intros Q b Hb;
      try discriminate;
      try (apply andb_prop in Q as [Ql Qr];
           assert (Hbl : binds_all b (cond_vars l)) by (intros x Hx; apply Hb, in_or_app; auto);
           assert (Hbr : binds_all b (cond_vars r)) by (intros x Hx; apply Hb, in_or_app; auto);
           destruct (IHl Ql b Hbl) as (restl & El); destruct (IHr Qr b Hbr) as (restr & Er)).
    - rewrite ev_cmp_total by exact Hb. eauto.
    - rewrite El. simpl. destruct (sat W D (asg_of b) l); simpl.
      + rewrite Er. simpl. eauto.
      + eauto.
    - rewrite El. simpl. destruct (sat W D (asg_of b) l); simpl.
      + eauto.
      + rewrite Er. simpl. eauto.
    - rewrite El. simpl. destruct (sat W D (asg_of b) l); simpl.
      + eauto.
      + rewrite Er. simpl. eauto.
    - destruct (IH Q b Hb) as (rest & E). rewrite E. simpl. eauto.
  Qed.

  Lemma first_true_total c b : qfree c = true -> binds_all b (cond_vars c) ->
    first_true (eval W D c b) = sat W D (asg_of b) c.
  Proof.
    intros Q Hb. destruct (eval_total_head c Q b Hb) as (rest & ->). simpl. apply negb_involutive.
  Qed.
End Total.
