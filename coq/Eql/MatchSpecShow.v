(* C11 -- concrete cases written by the harness and the Spec outcome in [sx].  Independent of the model. *)
From Coq Require Import List ZArith Bool Arith.
From Krrood Require Import Base.Sx Eql.Syntax Eql.ShowSpec Eql.MatchSpec.
Import ListNotations.

Record mcase : Type := {
  c_world : wdata;                          (* object id, equality key, attribute table *)
  c_types : list (Z * nat);                 (* object id -> class *)
  c_sub : list (nat * nat);                 (* (c, d): issubclass(c, d), reflexive pairs included *)
  c_fields : list (nat * nat * bool * nat); (* owner class, attribute, is_iterable, type endpoint *)
  c_opt : list (nat * nat);                 (* (owner class, attribute) whose field is Optional[...] *)
  c_bcoll : list (nat * nat);               (* (owner class, attribute) holding a collection of builtin values *)
  c_objcls : list nat;                      (* classes of world objects (the others are int / str) *)
  c_rootsel : bool;                         (* entity_selection (root reported) or entity_matching *)
  c_T : nat;
  c_pat : alist;
  c_dom : list Z }.

Fixpoint assocZ (l : list (Z * nat)) (o : Z) : nat :=
  match l with [] => O | (o', c) :: l' => if Z.eqb o o' then c else assocZ l' o end.
Definition pair_mem (l : list (nat * nat)) (c d : nat) : bool :=
  existsb (fun p : nat * nat => Nat.eqb (fst p) c && Nat.eqb (snd p) d) l.
Definition case_world (c : mcase) : mworld :=
  {| mw := mk_world (c_world c); otype := assocZ (c_types c) |}.
Definition zset (l : list Z) : sx := SL (sx_set (map SZ l)).
Definition spec_out (c : mcase) : sx :=
  zset (spec_run (pair_mem (c_sub c)) (case_world c) (c_T c) (c_pat c) (c_dom c)).
Definition rows_set (rows : list (list val)) : sx := SL (sx_set (map (fun r => SL (map show_val r)) rows)).
Definition spec_rows_out (c : mcase) : sx :=
  rows_set (spec_rows (pair_mem (c_sub c)) (case_world c) (c_rootsel c) (c_T c) (c_pat c) (c_dom c)).
