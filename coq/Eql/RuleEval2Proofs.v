(* C08 proofs for the two-variable evaluator (RuleEval2.v), part 1: inner selectors.
   Since /repo a70801b an inner selector never records coverage, so below the root the evaluation of a Next-free tree
   only touches scratch cells of its own nodes.  [pe2] is the pure reading: (is_false, conclusions, binding after). *)
From Coq Require Import List ZArith Bool Arith Lia.
From Krrood Require Import Eql.RuleSpec Eql.RuleEval Eql.RuleBuild Eql.RulePure Eql.RuleEval2 Eql.RuleEvalProofs.
Import ListNotations.

(* ---- store algebra ---- *)
Lemma get2_set2 f n f' n' v S :
  get2 f n (set2 f' n' v S) = if Nat.eqb f' f && Nat.eqb n' n then v else get2 f n S.
Proof. reflexivity. Qed.
Lemma get2_set2_same f n v S : get2 f n (set2 f n v S) = v.
Proof. rewrite get2_set2, !Nat.eqb_refl. reflexivity. Qed.
Lemma get2_set2_diff f n f' n' v S : (f' <> f \/ n' <> n) -> get2 f n (set2 f' n' v S) = get2 f n S.
Proof.
  intros H. rewrite get2_set2. destruct H as [H|H]; apply Nat.eqb_neq in H; rewrite H; [reflexivity|rewrite andb_false_r; reflexivity].
Qed.
Lemma get2_setb2_diff f n f' n' b S : (f' <> f \/ n' <> n) -> get2 f n (setb2 f' n' b S) = get2 f n S.
Proof. apply get2_set2_diff. Qed.
Lemma getb2_setb2_same f n b S : getb2 f n (setb2 f n b S) = b.
Proof. unfold getb2, setb2. rewrite get2_set2_same. destruct b; reflexivity. Qed.
Lemma getb2_setb2_diff f n f' n' b S : (f' <> f \/ n' <> n) -> getb2 f n (setb2 f' n' b S) = getb2 f n S.
Proof. intros H. unfold getb2. rewrite get2_setb2_diff by exact H. reflexivity. Qed.

(* S' agrees with S except on the cells of the nodes in P *)
Definition same_but (P : nat -> Prop) (S S' : store2) : Prop :=
  out2 S' = out2 S /\ seen2 S' = seen2 S /\ rootsel2 S' = rootsel2 S /\
  forall f n, ~ P n -> get2 f n S' = get2 f n S.
Lemma sb_refl P S : same_but P S S.
Proof. split; [reflexivity|split; [reflexivity|split; [reflexivity|]]]. reflexivity. Qed.
Lemma sb_trans (P : nat -> Prop) S S1 S2 : same_but P S S1 -> same_but P S1 S2 -> same_but P S S2.
Proof.
  intros [A1 [A2 [A3 A4]]] [B1 [B2 [B3 B4]]]. split; [congruence|split; [congruence|split; [congruence|]]].
  intros f n Hn. rewrite B4, A4; auto.
Qed.
Lemma sb_mono (P Q : nat -> Prop) S S' : (forall n, P n -> Q n) -> same_but P S S' -> same_but Q S S'.
Proof. intros H [A1 [A2 [A3 A4]]]. split; [exact A1|split; [exact A2|split; [exact A3|]]]. intros f n Hn. apply A4. intro. apply Hn. auto. Qed.
Lemma sb_set2 (P : nat -> Prop) f n v S : P n -> same_but P S (set2 f n v S).
Proof. intros H. split; [reflexivity|split; [reflexivity|split; [reflexivity|]]]. intros f' n' Hn. apply get2_set2_diff. right. intro E. subst. contradiction. Qed.
Lemma sb_setb2 (P : nat -> Prop) f n b S : P n -> same_but P S (setb2 f n b S).
Proof. apply sb_set2. Qed.

Definition keeps2 (P : nat -> Prop) (k : K2) : Prop :=
  forall B f S f' n, P n -> get2 f' n (k B f S) = get2 f' n S.
Definition dynclear2 (t : tree) (S : store2) : Prop := forall n, In n (ids t) -> get2 DYN n S = [].

Section Inner.
  Variable selof : nat -> nat.
  Variables (Cs : list celem) (Bs : list belem).

  (* an inner selector only proposes *)
  Lemma uc2_inner id B c S : id <> rootsel2 S ->
    same_but (fun n => n = id) S (update_conclusion2 selof id B c S) /\
    get2 DYN id (update_conclusion2 selof id B c S) = union (get2 DYN id S) c /\
    forall f, f <> DYN -> get2 f id (update_conclusion2 selof id B c S) = get2 f id S.
  Proof.
    intros H. unfold update_conclusion2. destruct c as [|x c].
    - split; [apply sb_refl|]. split; reflexivity.
    - apply Nat.eqb_neq in H. rewrite H. split; [apply sb_set2; reflexivity|]. split.
      + apply get2_set2_same.
      + intros f Hf. apply get2_set2_diff. left. congruence.
  Qed.
  Lemma uc2_cell id B c S f n : (f <> DYN \/ n <> id) -> get2 f n (update_conclusion2 selof id B c S) = get2 f n S.
  Proof.
    intros H. unfold update_conclusion2. destruct c; [reflexivity|]. destruct (Nat.eqb id (rootsel2 S)).
    - destruct (seenb2 _ _ _ _ _); [reflexivity|]. unfold add_seen2. change (get2 f n (set2 DYN id (union (get2 DYN id S) (n0 :: c)) S) = get2 f n S).
      apply get2_set2_diff. destruct H; [left|right]; congruence.
    - apply get2_set2_diff. destruct H; [left|right]; congruence.
  Qed.
  Lemma uc2_other id B c S f n : id <> n -> get2 f n (update_conclusion2 selof id B c S) = get2 f n S.
  Proof.
    intros H. unfold update_conclusion2. destruct c; [reflexivity|]. destruct (Nat.eqb id (rootsel2 S)).
    - destruct (seenb2 _ _ _ _ _); [reflexivity|]. unfold add_seen2, get2. simpl. apply Nat.eqb_neq in H. rewrite H, andb_false_r. reflexivity.
    - apply get2_set2_diff. right. exact H.
  Qed.
  Lemma yield_upd2_other (P : nat -> Prop) id B c k S f n :
    keeps2 P k -> P n -> id <> n -> get2 f n (yield_upd2 selof id B c k S) = get2 f n S.
  Proof.
    intros Hk Hp Hn. unfold yield_upd2. rewrite get2_set2_diff by (right; exact Hn). rewrite Hk by assumption.
    apply uc2_other. exact Hn.
  Qed.
  Lemma sel_post2_other (P : nat -> Prop) s id l r k B S f n :
    keeps2 P k -> P n -> id <> n -> get2 f n (sel_post2 selof s id l r k B S) = get2 f n S.
  Proof.
    intros Hk Hp Hn. unfold sel_post2. rewrite get2_set2_diff by (right; exact Hn). rewrite Hk by assumption.
    destruct s.
    - destruct (getb2 REV id _); [rewrite uc2_other by auto|];
        (destruct (getb2 LEV id S); [apply uc2_other; auto|reflexivity]).
    - destruct (negb _); [apply uc2_other; auto|]. destruct (negb _); [apply uc2_other; auto|reflexivity].
    - destruct (getb2 REV id _); [rewrite uc2_other by auto|];
        (destruct (getb2 LEV id S); [apply uc2_other; auto|reflexivity]).
  Qed.

  (* ev2 only writes cells of its own nodes (and whatever the continuation writes) *)
  Lemma ev2_frame t : nextfree t = true -> forall (P : nat -> Prop) b k S,
      (forall n, In n (ids t) -> ~ P n) -> keeps2 P k ->
      forall f n, P n -> get2 f n (ev2 selof Cs Bs t b k S) = get2 f n S.
  Proof.
    induction t as [id cs c | id s l IHl r IHr]; intros Hnf P b k S Hd Hk f n Hp.
    - assert (Hid : id <> n) by (intro; subst; apply (Hd n); simpl; auto).
      cbn [ev2]. destruct (is_join cs).
      + destruct b as [B|]; [|reflexivity].
        generalize (enum Bs) S. intros L. induction L as [|ia L IHL]; intros S0; cbn [fold_left]; [reflexivity|].
        rewrite IHL. rewrite Hk by assumption. apply get2_setb2_diff. right. exact Hid.
      + destruct b as [B|].
        * rewrite Hk by assumption. apply get2_setb2_diff. right. exact Hid.
        * generalize (enum Cs) S. intros L. induction L as [|ic L IHL]; intros S0; cbn [fold_left]; [reflexivity|].
          rewrite IHL. rewrite Hk by assumption. apply get2_setb2_diff. right. exact Hid.
    - assert (Hdl : forall m, In m (ids l) -> ~ P m) by (intros m Hm; apply Hd; simpl; right; apply in_or_app; auto).
      assert (Hdr : forall m, In m (ids r) -> ~ P m) by (intros m Hm; apply Hd; simpl; right; apply in_or_app; auto).
      assert (Hidn : forall m, P m -> id <> m) by (intros m Hm E; subst; apply (Hd m); simpl; auto).
      destruct s; simpl in Hnf; try discriminate; apply andb_prop in Hnf; destruct Hnf as [Hnl Hnr].
      + cbn [ev2]. apply (IHl Hnl P); auto. intros B fl S1 f0 n0 Hp0.
        destruct fl.
        * rewrite Hk by assumption. apply get2_setb2_diff. right. auto.
        * match goal with |- get2 _ _ (if getb2 RY id ?S3 then _ else _) = _ =>
            assert (H3 : get2 f0 n0 S3 = get2 f0 n0 S1) end.
          { rewrite (IHr Hnr P); auto.
            - rewrite !get2_setb2_diff by (right; auto). reflexivity.
            - intros B' f' S' f1 n1 Hp1. destruct f'; [reflexivity|].
              rewrite (yield_upd2_other P) by auto. apply get2_setb2_diff. right. auto. }
          destruct (getb2 RY id _).
          -- rewrite get2_set2_diff by (right; auto). exact H3.
          -- rewrite (yield_upd2_other P) by auto. rewrite get2_set2_diff by (right; auto). exact H3.
      + cbn [ev2]. apply (IHl Hnl P); auto. intros B fl S1 f0 n0 Hp0.
        destruct fl.
        * rewrite get2_setb2_diff by (right; auto). rewrite (IHr Hnr P); auto.
          -- rewrite !get2_setb2_diff by (right; auto). reflexivity.
          -- intros B' fr S' f1 n1 Hp1. rewrite (sel_post2_other P) by auto.
             rewrite !get2_setb2_diff by (right; auto). reflexivity.
        * rewrite (sel_post2_other P) by auto. rewrite !get2_setb2_diff by (right; auto). reflexivity.
  Qed.
End Inner.

(* ---- shape predicates and the pure reading ---- *)
Fixpoint jfree (t : tree) : bool :=
  match t with Leaf _ cs _ => negb (is_join cs) | Node _ _ l r => jfree l && jfree r end.
(* the joining refinement with the refinements written inside its block: the join leaf under a chain of ExceptIf-left *)
Fixpoint spineb (t : tree) : bool :=
  match t with
  | Leaf _ cs _ => is_join cs
  | Node _ SExc l r => spineb l && jfree r
  | Node _ _ _ _ => false
  end.
(* trees that yield one row per binding of c (b unbound on entry if the tree contains the join) *)
Fixpoint okb (t : tree) : bool :=
  match t with
  | Leaf _ cs _ => negb (is_join cs)
  | Node _ SExc l r => (okb l && jfree r) || (jfree l && (okb r || spineb r))
  | Node _ SAlt l r => (okb l && jfree r) || (jfree l && okb r)
  | Node _ SNext _ _ => false
  end.

Section Pure2.
  Variable Bs : list belem.
  (* (is_false, conclusions selected, binding of the row) -- for the join leaf: the row of c.parent *)
  Fixpoint pe2 (t : tree) (B : bind2) : bool * list nat * bind2 :=
    match t with
    | Leaf _ cs c =>
        if is_join cs then
          match nth_error Bs (parent_of B) with
          | Some a => let B' := {| bc := bc B; bb := Some (parent_of B, a) |} in
                      (negb (holds (elem_of B') (tl cs)), c, B')
          | None => (true, c, B)
          end
        else (negb (holds (elem_of B) cs), c, B)
    | Node _ SExc l r =>
        let '(fl, cl, Bl) := pe2 l B in
        if fl then (true, [], Bl)
        else let '(fr, cr, Br) := pe2 r Bl in
             if fr then (false, union [] cl, Bl) else (false, union [] cr, Br)
    | Node _ _ l r =>
        let '(fl, cl, Bl) := pe2 l B in
        if fl then let '(fr, cr, Br) := pe2 r Bl in
                   if fr then (true, [], Br) else (false, union [] cr, Br)
        else (false, union [] cl, Bl)
    end.
End Pure2.

Section Single.
  Variable selof : nat -> nat.
  Variables (Cs : list celem) (Bs : list belem).

  Definition FinR (t : tree) (S' Sf : store2) : Prop := same_but (inT t) S' Sf /\ dynclear2 t Sf.
  (* the tree yields exactly one row for the binding B, the one [pe2] describes *)
  Definition Single (t : tree) (B : bind2) : Prop :=
    forall k S, ~ In (rootsel2 S) (ids t) -> dynclear2 t S -> keeps2 (inT t) k ->
      exists S1, same_but (inT t) S S1 /\
                 getb2 FLAG (root_id t) S1 = fst (fst (pe2 Bs t B)) /\
                 concl_now2 t S1 = snd (fst (pe2 Bs t B)) /\
                 FinR t (k (snd (pe2 Bs t B)) (fst (fst (pe2 Bs t B))) S1) (ev2 selof Cs Bs t (Some B) k S).

  (* the same for continuations that ignore false rows (the right operand of an ExceptIf is consumed like that) *)
  Definition kign (k : K2) : Prop := forall B' S', k B' true S' = S'.
  Definition SingleI (t : tree) (B : bind2) : Prop :=
    forall k S, kign k -> ~ In (rootsel2 S) (ids t) -> dynclear2 t S -> keeps2 (inT t) k ->
      exists S1, same_but (inT t) S S1 /\
                 getb2 FLAG (root_id t) S1 = fst (fst (pe2 Bs t B)) /\
                 concl_now2 t S1 = snd (fst (pe2 Bs t B)) /\
                 FinR t (k (snd (pe2 Bs t B)) (fst (fst (pe2 Bs t B))) S1) (ev2 selof Cs Bs t (Some B) k S).
  Lemma single_I t B : Single t B -> SingleI t B.
  Proof. intros H k S _. apply H. Qed.

  Lemma single_leaf id cs c B : is_join cs = false -> Single (Leaf id cs c) B.
  Proof.
    intros Hj k S Hroot Hdc Hk. cbn [pe2 ev2]. rewrite Hj. cbn [fst snd].
    exists (setb2 FLAG id (negb (holds (elem_of B) cs)) S). split; [|split; [|split; [|split]]].
    - apply sb_setb2. red. simpl. auto.
    - cbn [root_id]. apply getb2_setb2_same.
    - reflexivity.
    - apply sb_refl.
    - intros n [<-|[]]. rewrite (Hk B _ _ DYN id) by (red; simpl; auto).
      rewrite get2_setb2_diff by (left; unfold FLAG, DYN; lia). apply Hdc. simpl. auto.
  Qed.

  Lemma sb_get (P : nat -> Prop) S S' f n : same_but P S S' -> ~ P n -> get2 f n S' = get2 f n S.
  Proof. intros [_ [_ [_ H]]] Hn. apply H. exact Hn. Qed.
  Lemma sb_getb (P : nat -> Prop) S S' f n : same_but P S S' -> ~ P n -> getb2 f n S' = getb2 f n S.
  Proof. intros H Hn. unfold getb2. rewrite (sb_get P S S' f n H Hn). reflexivity. Qed.
  Lemma sb_root (P : nat -> Prop) S S' : same_but P S S' -> rootsel2 S' = rootsel2 S.
  Proof. intros [_ [_ [H _]]]. exact H. Qed.
  Lemma concl_now2_same t S S' : (forall f n, In n (ids t) -> get2 f n S = get2 f n S') -> concl_now2 t S = concl_now2 t S'.
  Proof. intros H. destruct t; simpl; [reflexivity|]. apply H. simpl. auto. Qed.
  Lemma root_in2 t : In (root_id t) (ids t).
  Proof. destruct t; simpl; auto. Qed.

  (* what a selector node does, whether it is the root selector (the one that records coverage) or an inner one: the
     operands are evaluated as inner trees, then [update_conclusion2] is applied once to the selected conclusions *)
  Definition Shape (t : tree) (B : bind2) : Prop :=
    match t with
    | Leaf _ _ _ => True
    | Node id _ l r =>
        forall k S, ~ In (rootsel2 S) (ids l) -> ~ In (rootsel2 S) (ids r) -> dynclear2 t S -> keeps2 (inT t) k ->
          if fst (fst (pe2 Bs t B))
          then exists S1, same_but (inT t) S S1 /\ getb2 FLAG id S1 = true /\ get2 DYN id S1 = [] /\
                          snd (fst (pe2 Bs t B)) = [] /\
                          FinR t (k (snd (pe2 Bs t B)) true S1) (ev2 selof Cs Bs t (Some B) k S)
          else exists S' cx, snd (fst (pe2 Bs t B)) = union [] cx /\ same_but (inT t) S S' /\
                             getb2 FLAG id S' = false /\ get2 DYN id S' = [] /\
                             FinR t (set2 DYN id [] (k (snd (pe2 Bs t B))
                                                       (getb2 FLAG id (update_conclusion2 selof id (snd (pe2 Bs t B)) cx S'))
                                                       (update_conclusion2 selof id (snd (pe2 Bs t B)) cx S')))
                                    (ev2 selof Cs Bs t (Some B) k S)
    end.

  Lemma shape_single id s l r B : Shape (Node id s l r) B -> Single (Node id s l r) B.
  Proof.
    intros H k S Hroot Hdc Hk. cbn [Shape] in H.
    assert (Hrl : ~ In (rootsel2 S) (ids l)) by (intro; apply Hroot; simpl; right; apply in_or_app; auto).
    assert (Hrr : ~ In (rootsel2 S) (ids r)) by (intro; apply Hroot; simpl; right; apply in_or_app; auto).
    assert (Hrid : id <> rootsel2 S) by (intro E; apply Hroot; rewrite <- E; simpl; auto).
    specialize (H k S Hrl Hrr Hdc Hk).
    destruct (pe2 Bs (Node id s l r) B) as [[f c] Bx]. cbn [fst snd] in *. destruct f.
    - destruct H as [S1 [H1 [H2 [H3 [H3' H4]]]]]. exists S1. cbn [concl_now2 root_id]. rewrite H3'. auto.
    - destruct H as [S' [cx [Hc [H1 [H2 [H3 [H4 H5]]]]]]].
      assert (Hrid' : id <> rootsel2 S') by (rewrite (sb_root _ _ _ H1); exact Hrid).
      destruct (uc2_inner selof id Bx cx S' Hrid') as [HUsb [HUdyn HUother]].
      set (U := update_conclusion2 selof id Bx cx S') in *.
      assert (HUflag : getb2 FLAG id U = false).
      { unfold getb2. rewrite HUother by (unfold FLAG, DYN; lia). exact H2. }
      rewrite HUflag in H4.
      exists U. split; [|split; [exact HUflag|split; [|split]]].
      + eapply sb_trans; [exact H1|]. eapply sb_mono; [|exact HUsb]. intros n ->. red. simpl. auto.
      + cbn [concl_now2]. rewrite HUdyn, H3. symmetry. exact Hc.
      + eapply sb_trans; [|exact H4]. apply sb_set2. red. simpl. auto.
      + exact H5.
  Qed.

  Lemma exc_shape id l r B :
    nextfree l = true -> nextfree r = true -> NoDup (ids (Node id SExc l r)) ->
    Single l B -> SingleI r (snd (pe2 Bs l B)) -> Shape (Node id SExc l r) B.
  Proof.
    intros Hnl Hnr Hnd Hl Hr k S Hrl Hrr Hdc Hk.
    cbn [ids] in Hnd. apply NoDup_cons_iff in Hnd. destruct Hnd as [Hid Hnd].
    assert (Hidl : ~ In id (ids l)) by (intro; apply Hid, in_or_app; auto).
    assert (Hidr : ~ In id (ids r)) by (intro; apply Hid, in_or_app; auto).
    assert (Hlr : forall n, In n (ids l) -> ~ In n (ids r)) by (apply nodup_app_disj; exact Hnd).
    assert (Hdcl : dynclear2 l S) by (intros n Hn; apply Hdc; simpl; right; apply in_or_app; auto).
    assert (Hdid : get2 DYN id S = []) by (apply Hdc; simpl; auto).
    assert (Hml : forall n, inT l n -> inT (Node id SExc l r) n) by (intros n Hn; red; simpl; right; apply in_or_app; auto).
    assert (Hmr : forall n, inT r n -> inT (Node id SExc l r) n) by (intros n Hn; red; simpl; right; apply in_or_app; auto).
    assert (Hmi : forall n, n = id -> inT (Node id SExc l r) n) by (intros n ->; red; simpl; auto).
    assert (Hkid : forall B0 f S' f', get2 f' id (k B0 f S') = get2 f' id S') by (intros; apply Hk; red; simpl; auto).
    assert (HklK : keeps2 (inT l) k) by (intros ? ? ? ? ? Hx; apply Hk; apply Hml; exact Hx).
    assert (HkrK : keeps2 (inT r) k) by (intros ? ? ? ? ? Hx; apply Hk; apply Hmr; exact Hx).
    cbn [ev2].
    match goal with |- context [ev2 selof Cs Bs l (Some B) ?K S] => set (KK := K) end.
    assert (HKK : keeps2 (inT l) KK).
    { intros B0 fl S1 f0 n0 Hp0. red in Hp0. unfold KK.
      assert (id <> n0) by (intro; subst; contradiction).
      destruct fl.
      - rewrite HklK by exact Hp0. apply get2_setb2_diff. right. assumption.
      - match goal with |- get2 _ _ (if getb2 RY id ?S3 then _ else _) = _ =>
          assert (H3 : get2 f0 n0 S3 = get2 f0 n0 S1) end.
        { rewrite (ev2_frame selof Cs Bs r Hnr (inT l)); auto.
          - rewrite !get2_setb2_diff by (right; assumption). reflexivity.
          - intros n Hn Hn'. exact (Hlr n Hn' Hn).
          - intros B' f' S' f1 n1 Hp1. destruct f'; [reflexivity|]. red in Hp1.
            assert (id <> n1) by (intro; subst; contradiction).
            rewrite (yield_upd2_other selof (inT l) id _ _ k _ f1 n1 HklK Hp1 H0).
            apply get2_setb2_diff. right. assumption. }
        destruct (getb2 RY id _).
        + rewrite get2_set2_diff by (right; assumption). exact H3.
        + rewrite (yield_upd2_other selof (inT l) id _ _ k _ f0 n0 HklK Hp0 H).
          rewrite get2_set2_diff by (right; assumption). exact H3. }
    destruct (Hl KK S Hrl Hdcl HKK) as [S1l [Hsb1 [Hfl1 [Hcl1 [Hfin1 Hfin1d]]]]].
    cbn [pe2]. destruct (pe2 Bs l B) as [[fl cl] Bl] eqn:Epl. cbn [fst snd] in *.
    destruct fl.
    - (* the base does not hold: its false row is passed through *)
      cbn [fst snd]. exists (setb2 FLAG id true S1l).
      assert (Hsb : same_but (inT (Node id SExc l r)) S (setb2 FLAG id true S1l)).
      { eapply sb_trans; [apply (sb_mono _ _ _ _ Hml Hsb1)|]. apply sb_setb2. apply Hmi. reflexivity. }
      split; [exact Hsb|]. split; [apply getb2_setb2_same|]. split; [|split; [reflexivity|]].
      + cbn [concl_now2]. rewrite get2_setb2_diff by (left; unfold FLAG, DYN; lia). rewrite (sb_get _ _ _ _ _ Hsb1 Hidl). exact Hdid.
      + unfold KK in Hfin1, Hfin1d. cbv beta iota zeta in Hfin1, Hfin1d. split.
        * apply (sb_mono _ _ _ _ Hml Hfin1).
        * intros n [<-|Hn].
          -- rewrite (sb_get _ _ _ _ _ Hfin1 Hidl). rewrite Hkid. rewrite get2_setb2_diff by (left; unfold FLAG, DYN; lia).
             rewrite (sb_get _ _ _ _ _ Hsb1 Hidl). exact Hdid.
          -- apply in_app_or in Hn. destruct Hn as [Hn|Hn]; [apply Hfin1d; exact Hn|].
             assert (Hnl' : ~ In n (ids l)) by (intro Hx; exact (Hlr n Hx Hn)).
             rewrite (sb_get _ _ _ _ _ Hfin1 Hnl'). rewrite HkrK by exact Hn.
             rewrite get2_setb2_diff by (right; intro E; subst; contradiction).
             rewrite (sb_get _ _ _ _ _ Hsb1 Hnl'). apply Hdc. simpl. right. apply in_or_app. auto.
    - (* the base holds: the exception branch decides *)
      unfold KK in Hfin1, Hfin1d. cbv beta iota zeta in Hfin1, Hfin1d.
      match type of Hfin1 with context [ev2 selof Cs Bs r (Some Bl) ?K1 ?SS] => set (K' := K1) in *; set (S2 := SS) in * end.
      assert (HS2 : same_but (fun n => n = id) S1l S2).
      { unfold S2. eapply sb_trans; apply sb_setb2; reflexivity. }
      assert (HS2flag : getb2 FLAG id S2 = false).
      { unfold S2. rewrite getb2_setb2_diff by (left; unfold RY, FLAG; lia). apply getb2_setb2_same. }
      assert (HS2ry : getb2 RY id S2 = false) by (apply getb2_setb2_same).
      assert (HS2dyn : get2 DYN id S2 = []).
      { unfold S2. rewrite !get2_setb2_diff by (left; unfold RY, FLAG, DYN; lia). rewrite (sb_get _ _ _ _ _ Hsb1 Hidl). exact Hdid. }
      assert (HS2r : forall f n, In n (ids r) -> get2 f n S2 = get2 f n S).
      { intros f n Hn. rewrite (sb_get _ _ _ _ _ HS2) by (intro E; subst; contradiction).
        apply (sb_get _ _ _ _ _ Hsb1). intro Hx. exact (Hlr n Hx Hn). }
      assert (HS2root : rootsel2 S2 = rootsel2 S) by (rewrite (sb_root _ _ _ HS2); apply (sb_root _ _ _ Hsb1)).
      assert (Hrr2 : ~ In (rootsel2 S2) (ids r)) by (rewrite HS2root; exact Hrr).
      assert (Hdcr : dynclear2 r S2).
      { intros n Hn. rewrite HS2r by exact Hn. apply Hdc. simpl. right. apply in_or_app. auto. }
      assert (HK' : keeps2 (inT r) K').
      { intros B' f' S' f1 n1 Hp1. red in Hp1. unfold K'. destruct f'; [reflexivity|].
        assert (Hne : id <> n1) by (intro; subst; contradiction).
        rewrite (yield_upd2_other selof (inT r) id _ _ k _ f1 n1 HkrK Hp1 Hne).
        apply get2_setb2_diff. right. exact Hne. }
      assert (HK'i : kign K') by (intros B' S'; reflexivity).
      destruct (Hr K' S2 HK'i Hrr2 Hdcr HK') as [S1r [Hsb2 [Hfl2 [Hcl2 [Hfin2 Hfin2d]]]]].
      destruct (pe2 Bs r Bl) as [[fr cr] Br] eqn:Epr. cbn [fst snd] in *.
      (* cells of id and of l's nodes survive r's evaluation *)
      assert (Hid1r : forall f, get2 f id S1r = get2 f id S2) by (intros f; apply (sb_get _ _ _ _ _ Hsb2); exact Hidr).
      assert (Hl1r : forall f n, In n (ids l) -> get2 f n S1r = get2 f n S1l).
      { intros f n Hn. rewrite (sb_get _ _ _ _ _ Hsb2) by (exact (Hlr n Hn)).
        apply (sb_get _ _ _ _ _ HS2). intro E. subst. contradiction. }
      assert (Hroot1r : rootsel2 S1r = rootsel2 S) by (rewrite (sb_root _ _ _ Hsb2); exact HS2root).
      destruct fr.
      + (* the exception does not hold: the rule's own conclusion *)
        unfold K' in Hfin2 at 1. cbv beta iota in Hfin2.
        set (S3 := ev2 selof Cs Bs r (Some Bl) K' S2) in *.
        assert (Hid3 : forall f, get2 f id S3 = get2 f id S2).
        { intros f. rewrite (sb_get _ _ _ _ _ Hfin2) by exact Hidr. apply Hid1r. }
        assert (Hry : getb2 RY id S3 = false) by (unfold getb2; rewrite Hid3; exact HS2ry).
        rewrite Hry in Hfin1.
        set (S4 := set2 RY id (get2 RY id (setb2 FLAG id false S1l)) S3) in *.
        assert (HS4 : same_but (fun n => n = id) S3 S4) by (apply sb_set2; reflexivity).
        assert (Hl4 : forall f n, In n (ids l) -> get2 f n S4 = get2 f n S1l).
        { intros f n Hn. rewrite (sb_get _ _ _ _ _ HS4) by (intro E; subst; contradiction).
          rewrite (sb_get _ _ _ _ _ Hfin2) by (exact (Hlr n Hn)). apply Hl1r. exact Hn. }
        assert (Hcl4 : concl_now2 l S4 = cl) by (rewrite <- Hcl1; apply concl_now2_same; exact Hl4).
        rewrite Hcl4 in Hfin1.
        unfold yield_upd2 in Hfin1.
        set (U := update_conclusion2 selof id Bl cl S4) in *.
        assert (HS4dyn : get2 DYN id S4 = []).
        { unfold S4. rewrite get2_set2_diff by (left; unfold RY, DYN; lia). rewrite Hid3. exact HS2dyn. }
        assert (HS4flag : getb2 FLAG id S4 = false).
        { unfold getb2. unfold S4. rewrite get2_set2_diff by (left; unfold RY, FLAG; lia).
          rewrite Hid3. exact HS2flag. }
        exists S4, cl. split; [reflexivity|]. split; [|split; [exact HS4flag|split; [exact HS4dyn|]]].
        * eapply sb_trans; [apply (sb_mono _ _ _ _ Hml Hsb1)|].
          eapply sb_trans; [apply (sb_mono _ _ _ _ Hmi HS2)|].
          eapply sb_trans; [apply (sb_mono _ _ _ _ Hmr Hsb2)|].
          eapply sb_trans; [apply (sb_mono _ _ _ _ Hmr Hfin2)|]. apply (sb_mono _ _ _ _ Hmi HS4).
        * split.
          -- apply (sb_mono _ _ _ _ Hml Hfin1).
          -- intros n [<-|Hn].
             ++ rewrite (sb_get _ _ _ _ _ Hfin1 Hidl). apply get2_set2_same.
             ++ apply in_app_or in Hn. destruct Hn as [Hn|Hn]; [apply Hfin1d; exact Hn|].
                assert (Hnl' : ~ In n (ids l)) by (intro Hx; exact (Hlr n Hx Hn)).
                assert (Hnid : n <> id) by (intro E; subst; contradiction).
                rewrite (sb_get _ _ _ _ _ Hfin1 Hnl'). rewrite get2_set2_diff by (right; congruence). rewrite HkrK by exact Hn.
                unfold U. rewrite uc2_other by congruence. rewrite (sb_get _ _ _ _ _ HS4 Hnid). apply Hfin2d. exact Hn.
      + (* the exception holds: its conclusion overrides *)
        unfold K' in Hfin2 at 1. cbv beta iota in Hfin2. rewrite Hcl2 in Hfin2.
        set (S1r' := setb2 RY id true S1r) in *.
        assert (HS1r' : same_but (fun n => n = id) S1r S1r') by (apply sb_setb2; reflexivity).
        unfold yield_upd2 in Hfin2.
        set (U := update_conclusion2 selof id Br cr S1r') in *.
        assert (Hdyn' : get2 DYN id S1r' = []).
        { unfold S1r'. rewrite get2_setb2_diff by (left; unfold RY, DYN; lia). rewrite Hid1r. exact HS2dyn. }
        assert (Hflag' : getb2 FLAG id S1r' = false).
        { unfold getb2. unfold S1r'. rewrite get2_setb2_diff by (left; unfold RY, FLAG; lia).
          rewrite Hid1r. exact HS2flag. }
        set (S3 := ev2 selof Cs Bs r (Some Bl) K' S2) in *.
        assert (Hry : getb2 RY id S3 = true).
        { unfold getb2. rewrite (sb_get _ _ _ _ _ Hfin2 Hidr). rewrite get2_set2_diff by (left; unfold DYN, RY; lia). rewrite Hkid.
          unfold U. rewrite uc2_cell by (left; unfold RY, DYN; lia). unfold S1r', setb2. rewrite get2_set2_same. reflexivity. }
        rewrite Hry in Hfin1.
        exists S1r', cr. split; [reflexivity|]. split; [|split; [exact Hflag'|split; [exact Hdyn'|]]].
        * eapply sb_trans; [apply (sb_mono _ _ _ _ Hml Hsb1)|].
          eapply sb_trans; [apply (sb_mono _ _ _ _ Hmi HS2)|].
          eapply sb_trans; [apply (sb_mono _ _ _ _ Hmr Hsb2)|]. apply (sb_mono _ _ _ _ Hmi HS1r').
        * split.
          -- eapply sb_trans; [|apply (sb_mono _ _ _ _ Hml Hfin1)].
             eapply sb_trans; [|apply sb_set2; apply Hmi; reflexivity]. apply (sb_mono _ _ _ _ Hmr Hfin2).
          -- intros n [<-|Hn].
             ++ rewrite (sb_get _ _ _ _ _ Hfin1 Hidl). rewrite get2_set2_diff by (left; unfold RY, DYN; lia).
                rewrite (sb_get _ _ _ _ _ Hfin2 Hidr). apply get2_set2_same.
             ++ apply in_app_or in Hn. destruct Hn as [Hn|Hn]; [apply Hfin1d; exact Hn|].
                assert (Hnl' : ~ In n (ids l)) by (intro Hx; exact (Hlr n Hx Hn)).
                assert (Hnid : n <> id) by (intro E; subst; contradiction).
                rewrite (sb_get _ _ _ _ _ Hfin1 Hnl'). rewrite get2_set2_diff by (right; congruence). apply Hfin2d. exact Hn.
  Qed.

  Lemma single_exc id l r B :
    nextfree l = true -> nextfree r = true -> NoDup (ids (Node id SExc l r)) ->
    Single l B -> SingleI r (snd (pe2 Bs l B)) -> Single (Node id SExc l r) B.
  Proof. intros. apply shape_single. apply exc_shape; assumption. Qed.

  Lemma alt_shape id l r B :
    nextfree l = true -> nextfree r = true -> NoDup (ids (Node id SAlt l r)) ->
    Single l B -> Single r (snd (pe2 Bs l B)) -> Shape (Node id SAlt l r) B.
  Proof.
    intros Hnl Hnr Hnd Hl Hr k S Hrl Hrr Hdc Hk.
    cbn [ids] in Hnd. apply NoDup_cons_iff in Hnd. destruct Hnd as [Hid Hnd].
    assert (Hidl : ~ In id (ids l)) by (intro; apply Hid, in_or_app; auto).
    assert (Hidr : ~ In id (ids r)) by (intro; apply Hid, in_or_app; auto).
    assert (Hlr : forall n, In n (ids l) -> ~ In n (ids r)) by (apply nodup_app_disj; exact Hnd).
    assert (Hdcl : dynclear2 l S) by (intros n Hn; apply Hdc; simpl; right; apply in_or_app; auto).
    assert (Hdid : get2 DYN id S = []) by (apply Hdc; simpl; auto).
    assert (Hml : forall n, inT l n -> inT (Node id SAlt l r) n) by (intros n Hn; red; simpl; right; apply in_or_app; auto).
    assert (Hmr : forall n, inT r n -> inT (Node id SAlt l r) n) by (intros n Hn; red; simpl; right; apply in_or_app; auto).
    assert (Hmi : forall n, n = id -> inT (Node id SAlt l r) n) by (intros n ->; red; simpl; auto).
    assert (Hkid : forall B0 f S' f', get2 f' id (k B0 f S') = get2 f' id S') by (intros; apply Hk; red; simpl; auto).
    assert (HklK : keeps2 (inT l) k) by (intros ? ? ? ? ? Hx; apply Hk; apply Hml; exact Hx).
    assert (HkrK : keeps2 (inT r) k) by (intros ? ? ? ? ? Hx; apply Hk; apply Hmr; exact Hx).
    assert (Hrootl : root_id l <> id) by (intro E; apply Hidl; rewrite <- E; apply root_in2).
    assert (Hrootr : root_id r <> id) by (intro E; apply Hidr; rewrite <- E; apply root_in2).
    cbn [ev2].
    match goal with |- context [ev2 selof Cs Bs l (Some B) ?K S] => set (KK := K) end.
    assert (HKK : keeps2 (inT l) KK).
    { intros B0 fl S1 f0 n0 Hp0. red in Hp0. unfold KK.
      assert (Hne : id <> n0) by (intro; subst; contradiction).
      destruct fl.
      - rewrite get2_setb2_diff by (right; exact Hne). rewrite (ev2_frame selof Cs Bs r Hnr (inT l)); auto.
        + rewrite !get2_setb2_diff by (right; exact Hne). reflexivity.
        + intros n Hn Hn'. exact (Hlr n Hn' Hn).
        + intros B' fr S' f1 n1 Hp1. red in Hp1.
          assert (Hne1 : id <> n1) by (intro; subst; contradiction).
          rewrite (sel_post2_other selof (inT l) SAlt id l r k _ _ f1 n1 HklK Hp1 Hne1).
          rewrite !get2_setb2_diff by (right; exact Hne1). reflexivity.
      - rewrite (sel_post2_other selof (inT l) SAlt id l r k _ _ f0 n0 HklK Hp0 Hne).
        rewrite !get2_setb2_diff by (right; exact Hne). reflexivity. }
    destruct (Hl KK S Hrl Hdcl HKK) as [S1l [Hsb1 [Hfl1 [Hcl1 [Hfin1 Hfin1d]]]]].
    cbn [pe2]. destruct (pe2 Bs l B) as [[fl cl] Bl] eqn:Epl. cbn [fst snd] in *.
    unfold KK in Hfin1. cbv beta iota zeta in Hfin1.
    destruct fl.
    - (* left false: try the alternative *)
      match type of Hfin1 with context [ev2 selof Cs Bs r (Some Bl) ?K1 ?SS] => set (K' := K1) in *; set (S2 := SS) in * end.
      assert (HS2 : same_but (fun n => n = id) S1l S2).
      { unfold S2. eapply sb_trans; apply sb_setb2; reflexivity. }
      assert (HS2dyn : get2 DYN id S2 = []).
      { unfold S2. rewrite !get2_setb2_diff by (left; unfold LEV, DYN; lia). rewrite (sb_get _ _ _ _ _ Hsb1 Hidl). exact Hdid. }
      assert (HS2r : forall f n, In n (ids r) -> get2 f n S2 = get2 f n S).
      { intros f n Hn. rewrite (sb_get _ _ _ _ _ HS2) by (intro E; subst; contradiction).
        apply (sb_get _ _ _ _ _ Hsb1). intro Hx. exact (Hlr n Hx Hn). }
      assert (HS2root : rootsel2 S2 = rootsel2 S) by (rewrite (sb_root _ _ _ HS2); apply (sb_root _ _ _ Hsb1)).
      assert (Hrr2 : ~ In (rootsel2 S2) (ids r)) by (rewrite HS2root; exact Hrr).
      assert (Hdcr : dynclear2 r S2).
      { intros n Hn. rewrite HS2r by exact Hn. apply Hdc. simpl. right. apply in_or_app. auto. }
      assert (HK' : keeps2 (inT r) K').
      { intros B' f' S' f1 n1 Hp1. red in Hp1. unfold K'.
        assert (Hne : id <> n1) by (intro; subst; contradiction).
        rewrite (sel_post2_other selof (inT r) SAlt id l r k _ _ f1 n1 HkrK Hp1 Hne).
        rewrite !get2_setb2_diff by (right; exact Hne). reflexivity. }
      destruct (Hr K' S2 Hrr2 Hdcr HK') as [S1r [Hsb2 [Hfl2 [Hcl2 [Hfin2 Hfin2d]]]]].
      destruct (pe2 Bs r Bl) as [[fr cr] Br] eqn:Epr. cbn [fst snd] in *.
      assert (Hid1r : forall f, get2 f id S1r = get2 f id S2) by (intros f; apply (sb_get _ _ _ _ _ Hsb2); exact Hidr).
      assert (Hroot1r : rootsel2 S1r = rootsel2 S) by (rewrite (sb_root _ _ _ Hsb2); exact HS2root).
      unfold K' in Hfin2 at 1. cbv beta in Hfin2.
      set (Sc := setb2 REV id true (setb2 FLAG id fr S1r)) in *.
      assert (HSc : same_but (fun n => n = id) S1r Sc).
      { unfold Sc. eapply sb_trans; apply sb_setb2; reflexivity. }
      assert (HScflag : getb2 FLAG id Sc = fr).
      { unfold Sc. rewrite getb2_setb2_diff by (left; unfold REV, FLAG; lia). apply getb2_setb2_same. }
      assert (HScdyn : get2 DYN id Sc = []).
      { unfold Sc. rewrite !get2_setb2_diff by (left; unfold REV, FLAG, DYN; lia). rewrite Hid1r. exact HS2dyn. }
      assert (Hlflag : getb2 FLAG (root_id l) Sc = true).
      { rewrite (sb_getb _ _ _ _ _ HSc) by exact Hrootl. rewrite (sb_getb _ _ _ _ _ Hsb2) by (apply Hlr, root_in2).
        rewrite (sb_getb _ _ _ _ _ HS2) by exact Hrootl. exact Hfl1. }
      assert (Hrflag : getb2 FLAG (root_id r) Sc = fr).
      { rewrite (sb_getb _ _ _ _ _ HSc) by exact Hrootr. exact Hfl2. }
      assert (Hclr : concl_now2 r Sc = cr).
      { rewrite <- Hcl2. apply concl_now2_same. intros f n Hn. apply (sb_get _ _ _ _ _ HSc). intro E. subst. contradiction. }
      assert (HrootSc : rootsel2 Sc = rootsel2 S) by (rewrite (sb_root _ _ _ HSc); exact Hroot1r).
      unfold sel_post2 in Hfin2. rewrite Hlflag, Hrflag in Hfin2. cbn [negb] in Hfin2.
      destruct fr; cbn [negb] in Hfin2; cbv iota in Hfin2.
      + (* nothing fires *)
        rewrite HScflag in Hfin2.
        exists Sc. split; [|split; [exact HScflag|split; [exact HScdyn|split; [reflexivity|]]]].
        * eapply sb_trans; [apply (sb_mono _ _ _ _ Hml Hsb1)|].
          eapply sb_trans; [apply (sb_mono _ _ _ _ Hmi HS2)|].
          eapply sb_trans; [apply (sb_mono _ _ _ _ Hmr Hsb2)|]. apply (sb_mono _ _ _ _ Hmi HSc).
        * split.
          -- eapply sb_trans; [|apply (sb_mono _ _ _ _ Hml Hfin1)].
             eapply sb_trans; [|apply sb_setb2; apply Hmi; reflexivity].
             eapply sb_trans; [|apply (sb_mono _ _ _ _ Hmr Hfin2)]. apply sb_set2. apply Hmi. reflexivity.
          -- intros n [<-|Hn].
             ++ rewrite (sb_get _ _ _ _ _ Hfin1 Hidl). rewrite get2_setb2_diff by (left; unfold REV, DYN; lia).
                rewrite (sb_get _ _ _ _ _ Hfin2 Hidr). apply get2_set2_same.
             ++ apply in_app_or in Hn. destruct Hn as [Hn|Hn]; [apply Hfin1d; exact Hn|].
                assert (Hnl' : ~ In n (ids l)) by (intro Hx; exact (Hlr n Hx Hn)).
                assert (Hnid : n <> id) by (intro E; subst; contradiction).
                rewrite (sb_get _ _ _ _ _ Hfin1 Hnl'). rewrite get2_setb2_diff by (right; congruence). apply Hfin2d. exact Hn.
      + (* the alternative fires *)
        rewrite Hclr in Hfin2.
        set (U := update_conclusion2 selof id Br cr Sc) in *.
        exists Sc, cr. split; [reflexivity|]. split; [|split; [exact HScflag|split; [exact HScdyn|]]].
        * eapply sb_trans; [apply (sb_mono _ _ _ _ Hml Hsb1)|].
          eapply sb_trans; [apply (sb_mono _ _ _ _ Hmi HS2)|].
          eapply sb_trans; [apply (sb_mono _ _ _ _ Hmr Hsb2)|]. apply (sb_mono _ _ _ _ Hmi HSc).
        * split.
          -- eapply sb_trans; [|apply (sb_mono _ _ _ _ Hml Hfin1)].
             eapply sb_trans; [|apply sb_setb2; apply Hmi; reflexivity]. apply (sb_mono _ _ _ _ Hmr Hfin2).
          -- intros n [<-|Hn].
             ++ rewrite (sb_get _ _ _ _ _ Hfin1 Hidl). rewrite get2_setb2_diff by (left; unfold REV, DYN; lia).
                rewrite (sb_get _ _ _ _ _ Hfin2 Hidr). apply get2_set2_same.
             ++ apply in_app_or in Hn. destruct Hn as [Hn|Hn]; [apply Hfin1d; exact Hn|].
                assert (Hnl' : ~ In n (ids l)) by (intro Hx; exact (Hlr n Hx Hn)).
                assert (Hnid : n <> id) by (intro E; subst; contradiction).
                rewrite (sb_get _ _ _ _ _ Hfin1 Hnl'). rewrite get2_setb2_diff by (right; congruence). apply Hfin2d. exact Hn.
    - (* left fires *)
      set (Sa := setb2 FLAG id false (setb2 LEV id true S1l)) in *.
      assert (HSa : same_but (fun n => n = id) S1l Sa).
      { unfold Sa. eapply sb_trans; apply sb_setb2; reflexivity. }
      assert (HSaflag : getb2 FLAG id Sa = false) by (apply getb2_setb2_same).
      assert (HSadyn : get2 DYN id Sa = []).
      { unfold Sa. rewrite !get2_setb2_diff by (left; unfold LEV, FLAG, DYN; lia). rewrite (sb_get _ _ _ _ _ Hsb1 Hidl). exact Hdid. }
      assert (Hlflag : getb2 FLAG (root_id l) Sa = false).
      { rewrite (sb_getb _ _ _ _ _ HSa) by exact Hrootl. exact Hfl1. }
      assert (Hcla : concl_now2 l Sa = cl).
      { rewrite <- Hcl1. apply concl_now2_same. intros f n Hn. apply (sb_get _ _ _ _ _ HSa). intro E. subst. contradiction. }
      assert (HrootSa : rootsel2 Sa = rootsel2 S) by (rewrite (sb_root _ _ _ HSa); apply (sb_root _ _ _ Hsb1)).
      unfold sel_post2 in Hfin1. rewrite Hlflag in Hfin1. cbn [negb] in Hfin1. cbv iota in Hfin1. rewrite Hcla in Hfin1.
      set (U := update_conclusion2 selof id Bl cl Sa) in *.
      exists Sa, cl. split; [reflexivity|]. split; [|split; [exact HSaflag|split; [exact HSadyn|]]].
      + eapply sb_trans; [apply (sb_mono _ _ _ _ Hml Hsb1)|]. apply (sb_mono _ _ _ _ Hmi HSa).
      + split.
        * apply (sb_mono _ _ _ _ Hml Hfin1).
        * intros n [<-|Hn].
          -- rewrite (sb_get _ _ _ _ _ Hfin1 Hidl). apply get2_set2_same.
          -- apply in_app_or in Hn. destruct Hn as [Hn|Hn]; [apply Hfin1d; exact Hn|].
             assert (Hnl' : ~ In n (ids l)) by (intro Hx; exact (Hlr n Hx Hn)).
             assert (Hnid : n <> id) by (intro E; subst; contradiction).
             rewrite (sb_get _ _ _ _ _ Hfin1 Hnl'). rewrite get2_set2_diff by (right; congruence). rewrite HkrK by exact Hn.
             unfold U. rewrite uc2_other by congruence. rewrite (sb_get _ _ _ _ _ HSa Hnid).
             rewrite (sb_get _ _ _ _ _ Hsb1 Hnl'). apply Hdc. simpl. right. apply in_or_app. auto.
  Qed.

  Lemma single_alt id l r B :
    nextfree l = true -> nextfree r = true -> NoDup (ids (Node id SAlt l r)) ->
    Single l B -> Single r (snd (pe2 Bs l B)) -> Single (Node id SAlt l r) B.
  Proof. intros. apply shape_single. apply alt_shape; assumption. Qed.
End Single.
