(* C02 (predicate bridge) -- the cases of harness/eqlpred.py inside Coq: int variables over explicit domains, operands
   that are variables or int literals, comparisons and the six symbolic functions of the harness, and_ / or_ / not_
   through the public constructors' decisions ([mk_por]).  Model rows, Spec rows, the fragment flag and the three-way
   classification are computed here by vm_compute. *)
From Coq Require Import List ZArith Bool Arith Permutation.
From Krrood Require Import Base.Sx Eql.Syntax Eql.Sat Eql.Eval Eql.PredCond Eql.PredCondProofs Eql.PredCondCount.
Import ListNotations.

Record pecase : Type := { pe_doms : list (nat * list Z); pe_sels : list nat; pe_cond : pcond }.

Definition int_world : world := {| attr := fun _ _ => VI 0; okey := fun o => o |}.

Definition pe_dom_z (c : pecase) (x : var) : list Z :=
  match find (fun p : nat * list Z => Nat.eqb (fst p) x) (pe_doms c) with Some p => snd p | None => [] end.
Definition pe_domains (c : pecase) : domains := fun x => map VI (pe_dom_z c x).
Definition pe_query (c : pecase) : pquery := {| pq_sels := map OVar (pe_sels c); pq_cond := pe_cond c |}.

(* the harness' functions: 0 p_even, 1 p_small, 2 p_pos, 3 p_lt, 4 p_sum3, 5 p_same (bool of the result) *)
Definition std_preds (p : nat) (vs : list val) : bool :=
  match p, vs with
  | 0%nat, [VI v] => Z.even v
  | 1%nat, [VI v] => Z.ltb v 2
  | 2%nat, [VI v] => Z.ltb 0 v
  | 3%nat, [VI a; VI b] => Z.ltb a b
  | 4%nat, [VI a; VI b] => Z.eqb (a + b) 3
  | 5%nat, [VI a; VI b] => Z.eqb a b
  | _, _ => false
  end.

Definition show_prow (row : list val) : sx := SL (map (fun v => match v with VI z => SZ z | _ => SZ (-1) end) row).
Definition bag_rows (rows : list (list val)) : sx := SL (sx_sort (map show_prow rows)).

Definition pmodel_rows (c : pecase) : sx := bag_rows (prun int_world (pe_domains c) std_preds (pe_query c)).
Definition pspec_rows (c : pecase) : sx := bag_rows (panswers_exec int_world (pe_domains c) std_preds (pe_query c)).

Fixpoint znodupb (l : list Z) : bool :=
  match l with [] => true | a :: r => negb (existsb (Z.eqb a) r) && znodupb r end.

(* the fragment of the theorem, decided: negation-normal and_/else-if condition, duplicate-free domains, every selected
   variable occurs in the condition *)
Definition pe_in_F (c : pecase) : bool :=
  pnnf (pe_cond c) && forallb (fun p : nat * list Z => znodupb (snd p)) (pe_doms c) &&
  forallb (fun x => nmem x (pcond_vars (pe_cond c))) (pe_sels c).

Definition bagz (o : sx) : sx := match o with SL rows => SL (sx_sort rows) | _ => o end.

(* 100 * class + classify; class 0 = inside the fragment, 1 = outside (Union / negated compound: only impl vs model matters) *)
Definition pe_code (c : pecase) (impl : sx) : Z :=
  ((if pe_in_F c then 0 else 100) + classify (bagz impl) (pmodel_rows c) (pspec_rows c))%Z.

(* ---------- the flag is covered by the theorem ---------- *)
Lemma znodupb_NoDup l : znodupb l = true -> NoDup (map VI l).
Proof.
  induction l as [|a l IH]; simpl; intros H; constructor.
  - apply andb_prop in H as [H _]. intros Hin. apply in_map_iff in Hin as (b & E & Hb). inversion E; subst.
    apply negb_true_iff in H. assert (existsb (Z.eqb a) l = true); [|congruence].
    apply existsb_exists. exists a. split; auto. apply Z.eqb_refl.
  - apply andb_prop in H as [_ H]. auto.
Qed.

Lemma pe_domains_nodup c : forallb (fun p : nat * list Z => znodupb (snd p)) (pe_doms c) = true ->
  forall x, NoDup (pe_domains c x).
Proof.
  intros H x. unfold pe_domains, pe_dom_z. destruct (find _ (pe_doms c)) as [p|] eqn:E; [|constructor].
  apply find_some in E as [Hin _]. rewrite forallb_forall in H. apply znodupb_NoDup. exact (H p Hin).
Qed.

Theorem pe_in_F_perm c : pe_in_F c = true ->
  Permutation (prun int_world (pe_domains c) std_preds (pe_query c))
              (panswers_exec int_world (pe_domains c) std_preds (pe_query c)).
Proof.
  unfold pe_in_F. intros H. apply andb_prop in H as [H Hs]. apply andb_prop in H as [Hn Hd].
  apply prun_perm.
  - apply pe_domains_nodup. exact Hd.
  - exact Hn.
  - simpl. intros x Hx. apply in_flat_map in Hx as (s & Hs' & Hx). apply in_map_iff in Hs' as (y & <- & Hy).
    unfold opnd_vars in Hx. simpl in Hx. destruct Hx as [<-|[]].
    rewrite forallb_forall in Hs. specialize (Hs y Hy). unfold nmem in Hs. apply existsb_exists in Hs as (z & Hz & E).
    apply Nat.eqb_eq in E. now subst.
Qed.

(* the harness passes the implementation's rows AND its own direct Python evaluation: +1000 when that evaluation
   disagrees with the Spec computed here (cross-check of the Spec) *)
Definition pe_code_x (c : pecase) (both : sx) : Z :=
  match both with
  | SL [impl; py] => (pe_code c impl + (if sx_eqb (bagz py) (pspec_rows c) then 0 else 1000))%Z
  | _ => (-1)%Z
  end.
