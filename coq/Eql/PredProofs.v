(* C12 -- proofs about the translated argument merging and dispatch (Gen/Pred.v). *)
From Coq Require Import List ZArith Bool Lia.
From Krrood Require Import Eql.PredIdioms Eql.PredSpec.
From Krrood Require Gen.Pred.
Import ListNotations.
Open Scope Z_scope.
Module G := Gen.Pred.

Section Facts.
  Context {V : Type}.
  Implicit Types (d : dict V) (kw : list (Z * V)).

  Lemma dict_get_assoc d p : dict_get d p = assoc p d.
  Proof. induction d as [|[k v] d IH]; simpl; auto. rewrite IH. reflexivity. Qed.

  Lemma get_set d k v p :
    dict_get (dict_set d k v) p = if Z.eqb k p then Some v else dict_get d p.
  Proof.
    induction d as [|[k' v'] d IH]; simpl.
    - destruct (Z.eqb k p); reflexivity.
    - destruct (Z.eqb k' k) eqn:E; simpl.
      + apply Z.eqb_eq in E. subst k'. destruct (Z.eqb k p); reflexivity.
      + rewrite IH. destruct (Z.eqb k' p) eqn:E2; auto.
        destruct (Z.eqb k p) eqn:E3; auto.
        apply Z.eqb_eq in E2, E3. subst. rewrite Z.eqb_refl in E. discriminate.
  Qed.

  Lemma assoc_None_notin kw p : ~ In p (map fst kw) -> assoc p kw = None.
  Proof.
    induction kw as [|[k v] kw IH]; simpl; auto. intros H.
    destruct (Z.eqb k p) eqn:E. { apply Z.eqb_eq in E. tauto. } apply IH. tauto.
  Qed.

  Lemma assoc_Some_in kw p v : assoc p kw = Some v -> In (p, v) kw.
  Proof.
    induction kw as [|[k w] kw IH]; simpl; [discriminate|].
    destruct (Z.eqb k p) eqn:E.
    - apply Z.eqb_eq in E. intros [= ->]. subst. auto.
    - auto.
  Qed.

  Lemma in_assoc kw p v : NoDup (map fst kw) -> In (p, v) kw -> assoc p kw = Some v.
  Proof.
    induction kw as [|[k w] kw IH]; simpl; [tauto|]. intros Hnd [H|H].
    - injection H as -> ->. rewrite Z.eqb_refl. reflexivity.
    - inversion Hnd as [|? ? Hni Hnd']; subst. destruct (Z.eqb k p) eqn:E.
      + apply Z.eqb_eq in E. subst. exfalso. apply Hni. apply (in_map fst) in H. exact H.
      + auto.
  Qed.

  (* dict.update with unique keys: the new value wins, the others are kept *)
  Lemma get_update kw : NoDup (map fst kw) -> forall d p,
    dict_get (dict_update d kw) p = match assoc p kw with Some v => Some v | None => dict_get d p end.
  Proof.
    unfold dict_update. induction kw as [|[k v] kw IH]; simpl; intros Hnd d p; auto.
    inversion Hnd; subst. rewrite IH by assumption. rewrite get_set. simpl.
    destruct (Z.eqb k p) eqn:E.
    - apply Z.eqb_eq in E. subst. rewrite assoc_None_notin by assumption. reflexivity.
    - reflexivity.
  Qed.

  Lemma keys_set d k v : forall x, In x (map fst (dict_set d k v)) <-> x = k \/ In x (map fst d).
  Proof.
    induction d as [|[k' v'] d IH]; simpl; intros x.
    - intuition.
    - destruct (Z.eqb k' k) eqn:E; simpl.
      + apply Z.eqb_eq in E. subst. intuition.
      + rewrite IH. intuition.
  Qed.

  Lemma nodup_set d k v : NoDup (map fst d) -> NoDup (map fst (dict_set d k v)).
  Proof.
    induction d as [|[k' v'] d IH]; simpl; intros H.
    - constructor; [simpl; tauto | constructor].
    - inversion H; subst. destruct (Z.eqb k' k) eqn:E; simpl.
      + apply Z.eqb_eq in E. subst. constructor; assumption.
      + constructor; auto. rewrite keys_set. intros [->|Hin]; [rewrite Z.eqb_refl in E; discriminate | tauto].
  Qed.

  Lemma nodup_update kw : forall d, NoDup (map fst d) -> NoDup (map fst (dict_update d kw)).
  Proof.
    unfold dict_update. induction kw as [|[k v] kw IH]; simpl; intros d H; auto.
    apply IH. apply nodup_set. exact H.
  Qed.

  Lemma keys_combine (ps : list Z) (pos : list V) : NoDup ps -> NoDup (map fst (combine ps pos)).
  Proof.
    revert pos. induction ps as [|p ps IH]; intros [|a pos] H; simpl; try constructor.
    - inversion H as [|? ? Hni Hnd']; subst. intro Hin. apply Hni.
      clear -Hin. revert pos Hin. induction ps as [|q ps IH]; intros [|b pos]; simpl; try tauto.
      intros [->|Hin]; auto. right. eapply IH. exact Hin.
    - inversion H; subst. auto.
  Qed.

  Lemma assoc_combine (ps : list Z) (pos : list V) p : NoDup ps ->
    assoc p (combine ps pos) = match index_of p ps with Some i => nth_error pos i | None => None end.
  Proof.
    revert pos. induction ps as [|q ps IH]; intros pos Hnd; simpl.
    - reflexivity.
    - inversion Hnd; subst. destruct pos as [|a pos]; simpl.
      + destruct (Z.eqb q p); simpl; auto. destruct (index_of p ps); simpl; auto.
      + destruct (Z.eqb q p) eqn:E; simpl; auto.
        rewrite IH by assumption. destruct (index_of p ps); reflexivity.
  Qed.

  Lemma index_of_lt p ps i : index_of p ps = Some i -> (i < length ps)%nat /\ nth_error ps i = Some p.
  Proof.
    revert i. induction ps as [|q ps IH]; simpl; intros i; [discriminate|].
    destruct (Z.eqb q p) eqn:E.
    - intros [= <-]. apply Z.eqb_eq in E. subst. split; [lia | reflexivity].
    - destruct (index_of p ps) as [j|]; simpl; [|discriminate]. intros [= <-].
      destruct (IH j eq_refl). split; [lia | assumption].
  Qed.

  Lemma index_of_nth ps : NoDup ps -> forall i p, nth_error ps i = Some p -> index_of p ps = Some i.
  Proof.
    induction ps as [|q ps IH]; intros Hnd i p; destruct i; simpl; try discriminate.
    - intros [= ->]. rewrite Z.eqb_refl. reflexivity.
    - inversion Hnd as [|? ? Hni Hnd']; subst. intros H. destruct (Z.eqb q p) eqn:E.
      + apply Z.eqb_eq in E. subst. exfalso. apply Hni. eapply nth_error_In. exact H.
      + rewrite (IH Hnd' i p H). reflexivity.
  Qed.

  (* ------------------------------------------------------------------ merge = Python's binding *)
  Lemma merge_unfold params pos kw flag :
    G.merge_args_and_kwargs params pos kw flag =
    dict_update (dict_of_pairs (combine (skipn (if flag then 1%nat else 0%nat) params) pos)) kw.
  Proof. reflexivity. Qed.

  Lemma merge_get params pos kw : NoDup params -> call_ok params pos kw ->
    forall p, dict_get (G.merge_args_and_kwargs params pos kw false) p = python_bind params pos kw p.
  Proof.
    intros Hnd (Hlen & Hkw & Hk) p. rewrite merge_unfold. simpl skipn.
    rewrite get_update by assumption. unfold dict_of_pairs.
    rewrite get_update by (apply keys_combine; assumption). simpl dict_get.
    rewrite assoc_combine by assumption. unfold python_bind.
    destruct (assoc p kw) as [w|] eqn:Ea.
    - pose proof (assoc_Some_in _ _ _ Ea) as Hin. apply (in_map fst) in Hin. simpl in Hin.
      destruct (Hk p Hin) as (i & Hi & Hle). rewrite Hi.
      assert (nth_error pos i = None) as -> by (apply nth_error_None; lia).
      reflexivity.
    - destruct (index_of p params) as [i|]; [destruct (nth_error pos i)|]; reflexivity.
  Qed.

  Lemma merge_nodup params pos kw flag : NoDup (dict_keys (G.merge_args_and_kwargs params pos kw flag)).
  Proof.
    rewrite merge_unfold. unfold dict_keys. apply nodup_update. unfold dict_of_pairs. apply nodup_update. constructor.
  Qed.

  (* the merged values are exactly the written arguments *)
  Lemma merge_values params pos kw : NoDup params -> call_ok params pos kw ->
    forall v, In v (dict_values (G.merge_args_and_kwargs params pos kw false)) <-> In v pos \/ In v (map snd kw).
  Proof.
    intros Hnd Hok v. pose proof (merge_get params pos kw Hnd Hok) as Hget.
    pose proof (merge_nodup params pos kw false) as Hmn. destruct Hok as (Hlen & Hkw & Hk).
    set (m := G.merge_args_and_kwargs params pos kw false) in *. split.
    - unfold dict_values. rewrite in_map_iff. intros ([p w] & <- & Hin). simpl.
      assert (dict_get m p = Some w) as H by (rewrite dict_get_assoc; apply in_assoc; assumption).
      rewrite Hget in H. unfold python_bind in H. destruct (index_of p params) as [i|]; [|discriminate].
      destruct (nth_error pos i) eqn:En.
      + injection H as ->. left. eapply nth_error_In. exact En.
      + right. apply assoc_Some_in in H. apply (in_map snd) in H. exact H.
    - intros [Hin|Hin].
      + apply In_nth_error in Hin. destruct Hin as (i & Hi).
        assert (i < length pos)%nat as Hlt by (apply nth_error_Some; congruence).
        destruct (nth_error params i) as [p|] eqn:Ep; [|apply nth_error_None in Ep; lia].
        assert (dict_get m p = Some v) as H.
        { rewrite Hget. unfold python_bind. rewrite (index_of_nth params Hnd i p Ep), Hi. reflexivity. }
        rewrite dict_get_assoc in H. apply assoc_Some_in in H. apply (in_map snd) in H. exact H.
      + apply in_map_iff in Hin. destruct Hin as ([k w] & <- & Hin). simpl.
        assert (dict_get m k = Some w) as H.
        { rewrite Hget. unfold python_bind. destruct (Hk k) as (i & Hi & Hle). { apply (in_map fst) in Hin. exact Hin. }
          rewrite Hi. assert (nth_error pos i = None) as -> by (apply nth_error_None; lia).
          apply in_assoc; assumption. }
        rewrite dict_get_assoc in H. apply assoc_Some_in in H. apply (in_map snd) in H. exact H.
  Qed.

  (* ------------------------------------------------------------------ the method path: self is skipped *)
  Lemma call_ok_self self ps (inst : V) pos kw :
    call_ok (self :: ps) (inst :: pos) kw -> call_ok ps pos kw /\ ~ In self (map fst kw).
  Proof.
    intros (Hlen & Hkw & Hk). simpl in Hlen. split; [split; [lia | split; [assumption|]] |].
    - intros k Hin. destruct (Hk k Hin) as (i & Hi & Hle). simpl in Hi, Hle.
      destruct (Z.eqb self k); [injection Hi as <-; lia|].
      destruct (index_of k ps) as [j|]; [|discriminate]. simpl in Hi. injection Hi as <-. exists j. split; [reflexivity | lia].
    - intros Hin. destruct (Hk self Hin) as (i & Hi & Hle). simpl in Hi, Hle. rewrite Z.eqb_refl in Hi. injection Hi as <-. lia.
  Qed.

  Lemma bind_self self ps (inst : V) pos kw p : p <> self ->
    python_bind (self :: ps) (inst :: pos) kw p = python_bind ps pos kw p.
  Proof.
    intros Hne. unfold python_bind. simpl. destruct (Z.eqb self p) eqn:E.
    - apply Z.eqb_eq in E. congruence.
    - destruct (index_of p ps); reflexivity.
  Qed.

  Lemma merge_get_method self ps (inst : V) pos kw :
    NoDup (self :: ps) -> call_ok (self :: ps) (inst :: pos) kw ->
    forall p, dict_get (G.merge_args_and_kwargs (self :: ps) pos kw true) p =
              if Z.eqb p self then None else python_bind (self :: ps) (inst :: pos) kw p.
  Proof.
    intros Hnd Hok p. inversion Hnd; subst. destruct (call_ok_self _ _ _ _ _ Hok) as (Hok' & Hself).
    change (G.merge_args_and_kwargs (self :: ps) pos kw true) with (G.merge_args_and_kwargs ps pos kw false).
    rewrite merge_get by assumption. destruct (Z.eqb p self) eqn:E.
    - apply Z.eqb_eq in E. subst. unfold python_bind.
      assert (index_of self ps = None) as ->; [|reflexivity].
      destruct (index_of self ps) as [i|] eqn:Ei; auto. apply index_of_lt in Ei. destruct Ei as (_ & Hn).
      apply nth_error_In in Hn. tauto.
    - rewrite bind_self; [reflexivity|]. intros ->. rewrite Z.eqb_refl in E. discriminate.
  Qed.

  (* ------------------------------------------------------------------ dispatch *)
  Variable is_var : V -> bool.

  Definition some_var (pos : list V) (kw : list (Z * V)) : bool :=
    existsb is_var pos || existsb is_var (map snd kw).

  Lemma any_merge params pos kw : NoDup params -> call_ok params pos kw ->
    G._any_of_the_kwargs_is_a_variable is_var (G.merge_args_and_kwargs params pos kw false) = some_var pos kw.
  Proof.
    intros Hnd Hok. unfold G._any_of_the_kwargs_is_a_variable, py_any, some_var.
    apply eq_true_iff_eq. rewrite orb_true_iff, !existsb_exists. split.
    - intros (v & Hin & Hv). apply merge_values in Hin; try assumption. destruct Hin; [left|right]; eauto.
    - intros [(v & Hin & Hv)|(v & Hin & Hv)]; exists v; (split; [apply merge_values; auto | assumption]).
  Qed.

  Lemma dispatch_function params pos kw : NoDup params -> call_ok params pos kw ->
    G.symbolic_function_wrapper is_var params pos kw =
    if some_var pos kw then G.MakeVariable G.DecoratedMethod (G.merge_args_and_kwargs params pos kw false)
    else G.CallFunction pos kw.
  Proof.
    intros Hnd Hok. unfold G.symbolic_function_wrapper. rewrite any_merge by assumption. reflexivity.
  Qed.

  Lemma dispatch_predicate self ps (inst : V) pos kw :
    NoDup (self :: ps) -> call_ok (self :: ps) (inst :: pos) kw ->
    G.Predicate_new is_var (self :: ps) pos kw =
    if some_var pos kw then G.MakeVariable G.SubClassOfPredicate (G.merge_args_and_kwargs (self :: ps) pos kw true)
    else G.NewInstance.
  Proof.
    intros Hnd Hok. inversion Hnd; subst. destruct (call_ok_self _ _ _ _ _ Hok) as (Hok' & _).
    unfold G.Predicate_new.
    change (G.merge_args_and_kwargs (self :: ps) pos kw true) with (G.merge_args_and_kwargs ps pos kw false).
    rewrite any_merge by assumption. reflexivity.
  Qed.

  (* ------------------------------------------------------------------ the defect repaired by 264f917 (C12-a):
     merging a plain function's arguments with ignore_first=true (the default the old wrapper relied on)
     binds positional arguments one parameter off and does not see a positional variable *)
  Lemma old_flag_refuted_bind :
    exists (params : list Z) (pos : list bool) (kw : list (Z * bool)),
      NoDup params /\ call_ok params pos kw /\
      exists p, dict_get (G.merge_args_and_kwargs params pos kw true) p <> python_bind params pos kw p.
  Proof.
    exists [1; 2], [true], []. split; [|split].
    - repeat constructor; simpl; intuition discriminate.
    - split; [simpl; lia | split; [constructor | intros k []]].
    - exists 1. vm_compute. discriminate.
  Qed.

  Lemma old_flag_refuted_dispatch :
    exists (params : list Z) (pos : list bool) (kw : list (Z * bool)),
      NoDup params /\ call_ok params pos kw /\ existsb (fun b => b) pos = true /\
      G._any_of_the_kwargs_is_a_variable (fun b => b) (G.merge_args_and_kwargs params pos kw true) = false.
  Proof.
    exists [1], [true], []. split; [|split; [|split]].
    - repeat constructor; simpl; intuition discriminate.
    - split; [simpl; lia | split; [constructor | intros k []]].
    - reflexivity.
    - reflexivity.
  Qed.
End Facts.
