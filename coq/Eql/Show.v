(* Printing of the model's outcomes into [sx], next to the Spec's (Eql/ShowSpec.v). *)
From Coq Require Import List ZArith Bool Arith.
From Krrood Require Import Base.Sx Eql.Syntax Eql.Sat Eql.Eval.
From Krrood Require Export Eql.ShowSpec.
Import ListNotations.
Open Scope Z_scope.

(* rows in yield order (model) / in enumeration order (Spec); the harness compares as sets (C01),
   multisets (C02) or sequences (C10) *)
Definition model_rows (c : ecase) : sx :=
  show_rows (run (mk_world (e_world c)) (mk_domains (e_doms c)) (e_query c)).
Definition both_rows (c : ecase) : sx := SL [model_rows c; spec_rows c].
Definition model_differs_as_set (c : ecase) : bool := negb (sx_eqb (as_set (model_rows c)) (as_set (spec_rows c))).
Definition model_differs_as_bag (c : ecase) : bool := negb (sx_eqb (as_bag (model_rows c)) (as_bag (spec_rows c))).
