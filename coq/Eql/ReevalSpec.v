(* C03 (b) -- Spec: what an evaluation yields when it runs alone on a fresh query.
   Fragment: conjunctive queries  an(set_of([sel...], c1, ..., cn))  with atoms  x.a op c | x.a op y.a  over variables
   with explicit domains, optionally carrying a rule  Add(views, V(sel...)) / refinement(exc...): Add(views, V'(sel...)).
   The isolated result is the plain list-monad reading of the nested generator loops over the domains themselves:
   there is no cache and no state in this file (and no dependency on the model). *)
From Coq Require Import List ZArith Bool.
Import ListNotations.
Open Scope Z_scope.

Inductive cmp := Ceq | Cne | Clt | Cle | Cgt | Cge.
Definition cmpb (op : cmp) (a b : Z) : bool :=
  match op with
  | Ceq => Z.eqb a b | Cne => negb (Z.eqb a b) | Clt => Z.ltb a b
  | Cle => Z.leb a b | Cgt => Z.ltb b a | Cge => Z.leb b a
  end.

Inductive atom := ACmpC (x : nat) (op : cmp) (c : Z) | ACmpV (x : nat) (op : cmp) (y : nat).
Record query := { q_sel : list nat; q_conds : list atom; q_rule : option (list atom) }.

Definition world := list (list Z).          (* variable index -> ids of its domain elements, in order *)
Definition attrs := list (Z * Z).            (* id -> value of attribute a *)
Definition bindings := list (nat * Z).

Fixpoint lookup (b : bindings) (x : nat) : option Z :=
  match b with [] => None | (y, v) :: r => if Nat.eqb x y then Some v else lookup r x end.
Fixpoint aval (A : attrs) (i : Z) : Z :=
  match A with [] => 0 | (j, a) :: r => if Z.eqb i j then a else aval r i end.

Definition atom_vars (a : atom) : list nat := match a with ACmpC x _ _ => [x] | ACmpV x _ y => [x; y] end.
Definition sat_atom (A : attrs) (b : bindings) (a : atom) : bool :=
  match a with
  | ACmpC x op c => match lookup b x with Some v => cmpb op (aval A v) c | None => false end
  | ACmpV x op y => match lookup b x, lookup b y with
                    | Some v, Some w => cmpb op (aval A v) (aval A w)
                    | _, _ => false
                    end
  end.

Definition domW (W : world) (x : nat) : list Z := nth x W [].

Definition with_varW {R} (W : world) (x : nat) (b : bindings) (k : bindings -> list R) : list R :=
  match lookup b x with
  | Some _ => k b
  | None => flat_map (fun v => k ((x, v) :: b)) (domW W x)
  end.
Fixpoint bind_allW {R} (W : world) (xs : list nat) (b : bindings) (k : bindings -> list R) : list R :=
  match xs with
  | [] => k b
  | x :: r => with_varW W x b (fun b' => bind_allW W r b' k)
  end.
Definition eval_atomW (W : world) (A : attrs) (a : atom) (b : bindings) : list bindings :=
  bind_allW W (atom_vars a) b (fun b' => if sat_atom A b' a then [b'] else []).
Fixpoint eval_condsW (W : world) (A : attrs) (cs : list atom) (b : bindings) : list bindings :=
  match cs with
  | [] => [b]
  | a :: r => flat_map (eval_condsW W A r) (eval_atomW W A a b)
  end.

Definition row (sel : list nat) (b : bindings) : list Z :=
  map (fun x => match lookup b x with Some v => v | None => -1 end) sel.

Fixpoint list_eqb (a b : list Z) : bool :=
  match a, b with
  | [], [] => true
  | x :: a', y :: b' => Z.eqb x y && list_eqb a' b'
  | _, _ => false
  end.
Definition memkey (k : list Z) (seen : list (list Z)) : bool := existsb (list_eqb k) seen.

(* conclusion selection of a rule with one refinement: the refinement's conclusion (tag 1) replaces the base conclusion
   (tag 0) when its condition holds; a binding of the conclusion variables concludes once PER SET OF CONCLUSIONS
   (krrood 35fa150: the coverage memory is keyed by truth branch and conclusion set), so the remembered key is tag :: binding *)
Fixpoint conclude (A : attrs) (exc : list atom) (sel : list nat) (bs : list bindings) (seen : list (list Z))
  : list (list Z) * list (list Z) :=
  match bs with
  | [] => ([], seen)
  | b :: r =>
      let tag := if forallb (sat_atom A b) exc then 1 else 0 in
      let key := tag :: row sel b in
      if memkey key seen then conclude A exc sel r seen
      else let '(rows, seen') := conclude A exc sel r (seen ++ [key]) in
           (key :: rows, seen')
  end.

Definition iso_rows (W : world) (A : attrs) (q : query) : list (list Z) :=
  match q_rule q with
  | None => flat_map (fun b => bind_allW W (q_sel q) b (fun b' => [row (q_sel q) b']))
                     (eval_condsW W A (q_conds q) [])
  | Some exc => fst (conclude A exc (q_sel q) (eval_condsW W A (q_conds q) []) [])
  end.

(* ---- Spec of a schedule of next()/close() steps over several evaluate() iterators: every iterator is
   independent of the others and delivers its isolated rows one by one.
   Log entry per operation:  SL-row (as list Z) encoded by the caller | here: Some row / None=StopIteration. *)
Inductive iop := INext (i : nat) | IClose (i : nat).
Inductive ires := IRow (r : list Z) | IStop | IErr | IOut | IClosed.

Fixpoint iupd {X} (n : nat) (x : X) (l : list X) : list X :=
  match l, n with
  | [], _ => []
  | _ :: t, O => x :: t
  | a :: t, S n' => a :: iupd n' x t
  end.

(* state of iterator i: the rows it still has to deliver *)
Definition spec_istep (o : iop) (st : list (list (list Z))) : ires * list (list (list Z)) :=
  match o with
  | INext i => match nth_error st i with
               | None => (IOut, st)
               | Some [] => (IStop, st)
               | Some (r :: rest) => (IRow r, iupd i rest st)
               end
  | IClose i => (IClosed, iupd i [] st)
  end.
Fixpoint spec_ilog (ops : list iop) (st : list (list (list Z))) : list ires :=
  match ops with
  | [] => []
  | o :: r => let '(x, st') := spec_istep o st in x :: spec_ilog r st'
  end.
Definition spec_sched (W : world) (A : attrs) (qs : list query) (ops : list iop) : list ires :=
  spec_ilog ops (map (iso_rows W A) qs).
