(* C08 model, part 2: evaluation of the conclusion selectors ExceptIf / Alternative / Next as the query descriptor
   sees them (conclusion_selector.py, symbolic.py OR/ElseIf/Union/AND/Comparator/QueryObjectDescriptor).

   Generators are modelled in continuation-passing style over an explicit store (DESIGN section 3): the consumer of a
   `yield` runs inside the continuation, so every attribute write happens in Python's order.  The store holds what
   Python keeps outside the row: per node `_is_false_`, `left_evaluated`, `right_evaluated`, the dynamic `_conclusion_`
   set of a selector, `concluded_before[(truth, frozenset(conclusions))]` (keys = identity of the value bound to x), and per ExceptIf activation
   the local `right_yielded` (a cell saved on entry and restored on exit, so nested activations of one node do not clash).

   A tree is what `reify` (RuleBuild.v) reads off the heap through left / right / _child_: leaves are the and_-chains of
   comparators written as one node (the surgery never looks inside them).  A leaf with x unbound enumerates the domain
   (every element is yielded, with flag = not all atoms hold: AND yields its false left results too); with x bound it
   yields the one row.  [A comparator whose id is already in the bindings returns its stale flag; in one-variable
   programs the stale flag is the flag of the same element, so re-computation is the same.] *)
From Coq Require Import List ZArith Bool Arith.
From Krrood Require Import Eql.RuleSpec.
Import ListNotations.

Inductive sel := SExc | SAlt | SNext.
Inductive tree :=
| Leaf (id : nat) (cs : list atom) (concl : list nat)
| Node (id : nat) (s : sel) (l r : tree).

Definition root_id (t : tree) : nat := match t with Leaf id _ _ => id | Node id _ _ _ => id end.

(* ---- store ---- *)
Definition FLAG := 0. Definition DYN := 3.
Definition LEV := 4. Definition REV := 5. Definition RY := 6.

(* [seen]: concluded_before of every selector: (selector node, truth branch, set of conclusions, identity of the value of x) *)
Definition seen_entry := (nat * bool * list nat * nat)%type.
(* [rootsel]: the node the query descriptor evaluates (the conditions root); fixed during an evaluation *)
Record store := { mem : nat -> nat -> list nat; seen : list seen_entry; out : list (list nat * nat); rootsel : nat }.
Definition get (f n : nat) (S : store) : list nat := mem S f n.
Definition set (f n : nat) (v : list nat) (S : store) : store :=
  {| mem := fun f' n' => if Nat.eqb f f' && Nat.eqb n n' then v else mem S f' n'; seen := seen S; out := out S;
     rootsel := rootsel S |}.
Definition getb (f n : nat) (S : store) : bool := match get f n S with [] => false | _ => true end.
Definition setb (f n : nat) (b : bool) (S : store) : store := set f n (if b then [1] else []) S.
Definition emit (row : list nat * nat) (S : store) : store :=
  {| mem := mem S; seen := seen S; out := row :: out S; rootsel := rootsel S |}.
Definition init_root (root : nat) : store := {| mem := fun _ _ => []; seen := []; out := []; rootsel := root |}.

Definition memb (i : nat) (l : list nat) : bool := existsb (Nat.eqb i) l.
Fixpoint union (a b : list nat) : list nat :=
  match b with [] => a | x :: b' => if memb x a then union a b' else union (a ++ [x]) b' end.

Definition binding := (nat * elem)%type.
Definition K := binding -> bool -> store -> store.

Definition concl_now (t : tree) (S : store) : list nat :=
  match t with Leaf _ _ c => c | Node id _ _ _ => get DYN id S end.

(* ConclusionSelector.update_conclusion (since /repo 35fa150): one coverage index per truth branch AND per set of
   conclusions (frozenset(conclusions)); inside it the key is the binding of x (every conclusion mentions x).
   Since /repo a70801b only the selector that the query descriptor evaluates records coverage.
   Conclusions are identified by their tags: distinct Add objects are assumed to carry distinct tags. *)
Definition set_eqb (a b : list nat) : bool :=
  forallb (fun x => memb x b) a && forallb (fun x => memb x a) b.
Definition entry_is (id : nat) (tr : bool) (c : list nat) (i : nat) (e : seen_entry) : bool :=
  match e with (n, t, c', j) => Nat.eqb n id && Bool.eqb t tr && set_eqb c' c && Nat.eqb j i end.
Definition seenb (id : nat) (tr : bool) (c : list nat) (i : nat) (S : store) : bool :=
  existsb (entry_is id tr c i) (seen S).
Definition add_seen (e : seen_entry) (S : store) : store :=
  {| mem := mem S; seen := e :: seen S; out := out S; rootsel := rootsel S |}.
Definition update_conclusion (id i : nat) (concl : list nat) (S : store) : store :=
  match concl with
  | [] => S
  | _ => if Nat.eqb id (rootsel S)
         then (* `_eval_parent_` is the query descriptor: this selector decides and remembers *)
              let tr := negb (getb FLAG id S) in
              if seenb id tr concl i S then S
              else add_seen (id, tr, concl, i) (set DYN id (union (get DYN id S) concl) S)
         else (* an inner selector only proposes its conclusions (since /repo a70801b) *)
              set DYN id (union (get DYN id S) concl) S
  end.

(* `self.update_conclusion(..); yield OperationResult(bindings, self._is_false_, self); self._conclusion_.clear()` *)
Definition yield_upd (id : nat) (ie : binding) (concl : list nat) (k : K) (S : store) : store :=
  let S1 := update_conclusion id (fst ie) concl S in
  set DYN id [] (k ie (getb FLAG id S1) S1).

(* the loop body of Alternative._evaluate__ / Next._evaluate__ around each output of ElseIf / Union *)
Definition sel_post (s : sel) (id : nat) (l r : tree) (k : K) (ie : binding) (S : store) : store :=
  let i := fst ie in
  let S1 := match s with
            | SAlt => if negb (getb FLAG (root_id l) S) then update_conclusion id i (concl_now l S) S
                      else if negb (getb FLAG (root_id r) S) then update_conclusion id i (concl_now r S) S
                      else S
            | _ => let S' := if getb LEV id S then update_conclusion id i (concl_now l S) S else S in
                   if getb REV id S' then update_conclusion id i (concl_now r S') S' else S'
            end in
  set DYN id [] (k ie (getb FLAG id S1) S1).

(* Entry-time resets (since /repo 23d12cd: Union / ElseIf set left_evaluated = right_evaluated = False, ExceptIf / Alternative /
   Next clear `_conclusion_` when `_evaluate__` is entered, once per incoming binding) are not written out below: inside one
   evaluation every activation of a node runs to completion before the node is entered again, so on entry REV and DYN of
   the node are already clear (the invariant [Pre] of RuleMultiProofs.v, proved for every tree: [inner_all]) and LEV is
   written before it is read in every row; the resets only matter after an ABANDONED iterator (property C03). *)
Section Eval.
  Variable W : list elem.

  Fixpoint ev (t : tree) (b : option binding) (k : K) (S : store) {struct t} : store :=
    match t with
    | Leaf id cs _ =>
        let one := fun (S : store) (ie : binding) =>
                     let f := negb (holds (snd ie) cs) in k ie f (setb FLAG id f S) in
        match b with Some ie => one S ie | None => fold_left one (enum W) S end
    | Node id SExc l r =>
        ev l b (fun ie fl S1 =>
          let S1 := setb FLAG id fl S1 in
          if fl then k ie true S1
          else
            let old := get RY id S1 in                              (* `right_yielded` is a local of this activation: *)
            let S2 := setb RY id false S1 in                        (* saved here, restored below *)
            let S3 := ev r (Some ie) (fun ie' f' S' =>
                        if f' then S'
                        else yield_upd id ie' (concl_now r S') k (setb RY id true S')) S2 in
            let ry := getb RY id S3 in
            let S4 := set RY id old S3 in
            if ry then S4 else yield_upd id ie (concl_now l S4) k S4) S
    | Node id s l r =>
        let post := sel_post s id l r k in
        let eval_right := fun (src : option binding) (S : store) =>
          let S := setb LEV id false S in
          let S := ev r src (fun ie fr S' => post ie (setb REV id true (setb FLAG id fr S'))) S in
          setb REV id false S in
        let eval_left := fun (S : store) =>
          ev l b (fun ie fl S' =>
                    let S' := setb LEV id true S' in
                    if fl then eval_right (Some ie) S' else post ie (setb FLAG id false S')) S in
        match s with
        | SAlt => eval_left S
        | _ =>
            (* Union (since /repo 6dfdafd): `yield from filter(is_true, self.evaluate_right(sources))`: a false row of the
               second pass is consumed inside the generator; Next's loop body only sees the true ones *)
            let S := setb LEV id false (eval_left S) in
            let S := ev r b (fun ie fr S' =>
                               let S' := setb REV id true (setb FLAG id fr S') in
                               if fr then S' else post ie S') S in
            setb REV id false S
        end
    end.

  (* QueryObjectDescriptor._evaluate__ under An: keep true rows; apply the conclusions currently selected at the
     conditions root; skip the row when the inferred variable stays unbound; one instance per row.  When several
     conclusions are selected at once the last one in set-iteration order wins: the row carries the whole set. *)
  Definition run (t : tree) : list (list nat * nat) :=
    rev (out (ev t None (fun ie f S =>
                           if f then S
                           else match concl_now t S with [] => S | c => emit (c, fst ie) S end)
                  (init_root (root_id t)))).
End Eval.
