(* C08 proofs for the two-variable evaluator, part 3: the root selector and the whole run.
   The root selector records, for every row it lets through, (truth, conclusions, bindings of the variables the
   conclusions name); a later row with the same record is dropped.  Such a row would only repeat instances that are
   already inferred, so as a SET the inferred instances are those of all rows of the pure reading [pe2]. *)
From Coq Require Import List ZArith Bool Arith Lia.
From Krrood Require Import Eql.RuleSpec Eql.RuleEval Eql.RuleBuild Eql.RulePure Eql.RuleEval2 Eql.RuleEvalProofs
  Eql.RuleNextProofs Eql.RuleEval2Proofs Eql.RuleEval2SpineProofs.
Import ListNotations.

Lemma memb_in x l : memb x l = true <-> In x l.
Proof.
  unfold memb. rewrite existsb_exists. split.
  - intros [y [Hy E]]. apply Nat.eqb_eq in E. subst. exact Hy.
  - intros H. exists x. split; [exact H|apply Nat.eqb_refl].
Qed.
Lemma union_in b : forall a x, In x (union a b) <-> In x a \/ In x b.
Proof.
  induction b as [|y b IH]; intros a x; simpl.
  - tauto.
  - destruct (memb y a) eqn:E.
    + rewrite IH. apply memb_in in E. split; [tauto|]. intros [H|[H|H]]; subst; auto.
    + rewrite IH, in_app_iff. simpl. tauto.
Qed.
Lemma set_eqb_in a b : set_eqb a b = true -> forall x, In x a <-> In x b.
Proof.
  unfold set_eqb. intros H. apply andb_prop in H. destruct H as [H1 H2].
  rewrite forallb_forall in H1, H2. intros x. split; intros Hx.
  - apply memb_in. apply H1. exact Hx.
  - apply memb_in. apply H2. exact Hx.
Qed.

Fixpoint lead (t : tree) : bool := match t with Leaf _ cs _ => negb (is_join cs) | Node _ _ l _ => lead l end.

Section Root.
  Variable selof : nat -> nat.
  Variables (Cs : list celem) (Bs : list belem).

  Definition topk2 (t : tree) : RuleEval2.K2 :=
    fun B f S => if f then S else match concl_now2 t S with [] => S | c => emit2 (c, B) S end.
  Lemma topk2_keeps t P : keeps2 P (topk2 t).
  Proof. intros B f S f' n _. unfold topk2. destruct f; [reflexivity|]. destruct (concl_now2 t S); reflexivity. Qed.

  Lemma ev2_unbound t : lead t = true -> nextfree t = true -> forall k S,
      ev2 selof Cs Bs t None k S
      = fold_left (fun S ic => ev2 selof Cs Bs t (Some {| bc := ic; bb := None |}) k S) (enum Cs) S.
  Proof.
    induction t as [id cs c | id s l IHl r IHr]; intros Hl Hnf k S.
    - simpl in Hl. cbn [ev2]. destruct (is_join cs); [discriminate|]. reflexivity.
    - destruct s; simpl in Hnf; try discriminate; apply andb_prop in Hnf; destruct Hnf as [Hnl Hnr].
      + cbn [ev2]. apply IHl; assumption.
      + cbn [ev2]. apply IHl; assumption.
  Qed.

  Definition rows2 (t : tree) (B : bind2) : list (list nat * bind2) :=
    if fst (fst (pe2 Bs t B)) then []
    else match snd (fst (pe2 Bs t B)) with [] => [] | c => [(c, snd (pe2 Bs t B))] end.
  Definition insts (rows : list (list nat * bind2)) : list (nat * option nat * option nat) :=
    flat_map (fun r => map (fun t => inst_of selof t (snd r)) (fst r)) rows.
  Lemma insts_app a b : insts (a ++ b) = insts a ++ insts b.
  Proof. unfold insts. apply flat_map_app. Qed.

  (* rows with the same coverage record infer the same instances *)
  Lemma same_record c c' B B' : set_eqb c' c = true ->
    Nat.eqb (fst (key2 selof c' B')) (fst (key2 selof c B)) = true ->
    Nat.eqb (snd (key2 selof c' B')) (snd (key2 selof c B)) = true ->
    forall t, In t c -> In t c' /\ inst_of selof t B = inst_of selof t B'.
  Proof.
    intros Hs H1 H2 t Ht. pose proof (set_eqb_in _ _ Hs) as Hin. split; [apply Hin; exact Ht|].
    apply Nat.eqb_eq in H1. apply Nat.eqb_eq in H2. unfold key2 in H1, H2. cbn [fst snd] in H1, H2.
    assert (Huc : uses_c selof c' = uses_c selof c).
    { unfold uses_c. apply eq_true_iff_eq. rewrite !existsb_exists. split; intros [y [Hy E]]; exists y; (split; [apply Hin; exact Hy|exact E]). }
    assert (Hub : uses_b selof c' = uses_b selof c).
    { unfold uses_b. apply eq_true_iff_eq. rewrite !existsb_exists. split; intros [y [Hy E]]; exists y; (split; [apply Hin; exact Hy|exact E]). }
    rewrite Huc in H1. rewrite Hub in H2.
    unfold inst_of. f_equal; [f_equal|].
    - destruct (Nat.eqb (selof t) 1) eqn:E1; [reflexivity|].
      assert (U : uses_c selof c = true) by (unfold uses_c; apply existsb_exists; exists t; split; [exact Ht|rewrite E1; reflexivity]).
      rewrite U in H1. congruence.
    - destruct (Nat.eqb (selof t) 0) eqn:E0; [reflexivity|].
      assert (U : uses_b selof c = true) by (unfold uses_b; apply existsb_exists; exists t; split; [exact Ht|rewrite E0; reflexivity]).
      rewrite U in H2. destruct (bb B) as [[bi a]|], (bb B') as [[bi' a']|]; try congruence; discriminate.
  Qed.

  Section Node.
    Variables (id : nat) (s : sel) (l r : tree).
    Let t := Node id s l r.
    Definition ent (x : list nat * bind2) : seen_entry2 := (id, true, fst x, key2 selof (fst x) (snd x)).
    Definition row (x : list nat * bind2) : list nat * bind2 := (union [] (fst x), snd x).
    Definition Inv2 (S : store2) (E : list (list nat * bind2)) : Prop :=
      rootsel2 S = id /\ dynclear2 t S /\ seen2 S = map ent E /\ out2 S = map row E.

    Lemma root_step B : ~ In id (ids l) -> ~ In id (ids r) -> Shape selof Cs Bs t B ->
      forall S E, Inv2 S E ->
      exists E', Inv2 (ev2 selof Cs Bs t (Some B) (topk2 t) S) E' /\
                 forall x, In x (insts (map row E')) <-> In x (insts (map row E)) \/ In x (insts (rows2 t B)).
    Proof.
      intros Hidl Hidr Hsh S E [Hroot [Hdc [Hseen Hout]]].
      assert (Hrl : ~ In (rootsel2 S) (ids l)) by (rewrite Hroot; exact Hidl).
      assert (Hrr : ~ In (rootsel2 S) (ids r)) by (rewrite Hroot; exact Hidr).
      pose proof (Hsh (topk2 t) S Hrl Hrr Hdc (topk2_keeps t _)) as H.
      unfold rows2. fold t in H.
      set (Sf := ev2 selof Cs Bs t (Some B) (topk2 t) S) in *.
      destruct (pe2 Bs t B) as [[f c] Bx]. cbn [fst snd] in *. destruct f.
      - destruct H as [S1 [H1 [H2 [H3 [H3' [H4 H5]]]]]]. exists E. split.
        + unfold topk2 in H4. destruct H4 as [Ho [Hs [Hr _]]]. destruct H1 as [Ho1 [Hs1 [Hr1 _]]].
          split; [congruence|]. split; [exact H5|]. split; congruence.
        + intros x. simpl. tauto.
      - destruct H as [S' [cx [Hc [H1 [H2 [H3 [H4 H5]]]]]]].
        assert (HrS' : rootsel2 S' = id) by (rewrite (sb_root _ _ _ H1); exact Hroot).
        assert (HsS' : seen2 S' = map ent E) by (destruct H1 as [_ [Hs _]]; congruence).
        assert (HoS' : out2 S' = map row E) by (destruct H1 as [Ho _]; congruence).
        assert (HUflag : getb2 FLAG id (update_conclusion2 selof id Bx cx S') = false).
        { unfold getb2. rewrite uc2_cell by (left; unfold FLAG, DYN; lia). exact H2. }
        rewrite HUflag in H4. unfold topk2 in H4. cbv iota in H4.
        unfold update_conclusion2 in H4. destruct cx as [|x0 cx'].
        + (* nothing selected *)
          change (concl_now2 t S') with (get2 DYN id S') in H4. rewrite H3 in H4.
          exists E. split.
          * destruct H4 as [Ho [Hs [Hr _]]]. split; [simpl in Hr; congruence|]. split; [exact H5|]. simpl in Ho, Hs. split; congruence.
          * simpl in Hc. subst c. intros x. simpl. tauto.
        + rewrite HrS', Nat.eqb_refl in H4. rewrite H2 in H4. cbn [negb] in H4.
          assert (Hcne : c <> []) by (rewrite Hc; apply union_cons_nonempty).
          destruct (seenb2 id true (x0 :: cx') (key2 selof (x0 :: cx') Bx) S') eqn:Esn.
          * (* the record is known: the row is dropped *)
            change (concl_now2 t S') with (get2 DYN id S') in H4. rewrite H3 in H4.
            exists E. split.
            -- destruct H4 as [Ho [Hs [Hr _]]]. split; [simpl in Hr; congruence|]. split; [exact H5|]. simpl in Ho, Hs. split; congruence.
            -- intros x. split; [auto|]. intros [Hx|Hx]; [exact Hx|].
               destruct c as [|c0 c']; [congruence|]. unfold insts in Hx. cbn [flat_map fst snd] in Hx. rewrite app_nil_r in Hx.
               apply in_map_iff in Hx. destruct Hx as [tg [Hx Htg]]. subst x.
               unfold seenb2 in Esn. rewrite HsS' in Esn. apply existsb_exists in Esn. destruct Esn as [e0 [He0 Hm]].
               apply in_map_iff in He0. destruct He0 as [[cx0 B0] [He0 HinE]]. subst e0. unfold ent, entry_is2 in Hm. cbn [fst snd] in Hm.
               apply andb_prop in Hm. destruct Hm as [Hm Hk2]. apply andb_prop in Hm. destruct Hm as [Hm Hk1].
               apply andb_prop in Hm. destruct Hm as [_ Hse].
               assert (Htg' : In tg (x0 :: cx')) by (rewrite Hc in Htg; apply union_in in Htg; destruct Htg as [[]|Htg]; exact Htg).
               destruct (same_record _ _ _ _ Hse Hk1 Hk2 tg Htg') as [Hin0 Hinst].
               unfold insts. apply in_flat_map. exists (row (cx0, B0)). split; [apply in_map; exact HinE|].
               unfold row. cbn [fst snd]. apply in_map_iff. exists tg. split; [symmetry; exact Hinst|].
               apply union_in. right. exact Hin0.
          * (* a new record: the row is inferred *)
            match type of H4 with context [add_seen2 ?e ?S0] => set (U := add_seen2 e S0) in * end.
            assert (HUdyn : get2 DYN id U = c).
            { unfold U, add_seen2. change (get2 DYN id (set2 DYN id (union (get2 DYN id S') (x0 :: cx')) S') = c).
              rewrite get2_set2_same, H3. symmetry. exact Hc. }
            change (concl_now2 t U) with (get2 DYN id U) in H4. rewrite HUdyn in H4.
            destruct c as [|c0 c']; [congruence|].
            exists ((x0 :: cx', Bx) :: E). split.
            -- destruct H4 as [Ho [Hs [Hr _]]]. split; [simpl in Hr; congruence|]. split; [exact H5|].
               simpl in Ho, Hs. split.
               ++ rewrite Hs, HsS'. reflexivity.
               ++ rewrite Ho, HoS'. unfold row at 2. cbn [fst snd map]. rewrite <- Hc. reflexivity.
            -- intros x. cbn [map]. change (insts (row (x0 :: cx', Bx) :: map row E)) with (insts ([row (x0 :: cx', Bx)] ++ map row E)).
               rewrite insts_app, in_app_iff. unfold row at 1. cbn [fst snd]. rewrite <- Hc. tauto.
    Qed.
  End Node.

  Lemma jfree_lead t : jfree t = true -> lead t = true.
  Proof. induction t as [id cs c | id s l IHl r IHr]; simpl; intros H; [exact H|]. apply andb_prop in H. apply IHl, H. Qed.
  Lemma okb_lead t : okb t = true -> lead t = true.
  Proof.
    induction t as [id cs c | id s l IHl r IHr]; simpl; intros H; [exact H|].
    destruct s; try discriminate; apply orb_prop in H; destruct H as [H|H]; apply andb_prop in H; destruct H as [H1 H2];
      auto using jfree_lead.
  Qed.

  Definition inrange : Prop := forall c, In c Cs -> snd c < length Bs.
  Definition cbind (ic : nat * celem) : bind2 := {| bc := ic; bb := None |}.

  Lemma in_insts_rev L x : In x (insts (rev L)) <-> In x (insts L).
  Proof.
    unfold insts. rewrite !in_flat_map. split; intros [r0 [H1 H2]]; exists r0; (split; [|exact H2]).
    - apply in_rev. exact H1.
    - apply in_rev in H1. exact H1.
  Qed.

  Lemma enum_from_in {A} (L : list A) : forall j i x, In (i, x) (enum_from j L) -> In x L.
  Proof.
    induction L as [|y L IH]; intros j i x H; [destruct H|]. simpl in H. destruct H as [E|H].
    - inversion E; subst. left. reflexivity.
    - right. eapply IH. exact H.
  Qed.

  (* the whole run, as a set of inferred instances *)
  Theorem run2_okb t : okb t = true -> nextfree t = true -> NoDup (ids t) -> inrange ->
    forall x, In x (insts (run2 selof Cs Bs t)) <-> In x (insts (flat_map (fun ic => rows2 t (cbind ic)) (enum Cs))).
  Proof.
    intros Hok Hnf Hnd Hin x. unfold run2.
    change (fun (B : bind2) (f : bool) (S : store2) =>
              if f then S else match concl_now2 t S with [] => S | c => emit2 (c, B) S end) with (topk2 t).
    rewrite in_insts_rev. rewrite (ev2_unbound t (okb_lead t Hok) Hnf).
    destruct t as [id cs c | id s l r].
    - (* a single rule *)
      simpl in Hok. apply negb_true_iff in Hok.
      assert (Hfold : forall L S,
                 out2 (fold_left (fun S ic => ev2 selof Cs Bs (Leaf id cs c) (Some (cbind ic)) (topk2 (Leaf id cs c)) S) L S)
                 = rev (flat_map (fun ic => rows2 (Leaf id cs c) (cbind ic)) L) ++ out2 S).
      { induction L as [|ic L IH]; intros S; [reflexivity|]. cbn [fold_left flat_map]. rewrite IH.
        rewrite rev_app_distr, <- app_assoc. f_equal.
        cbn [ev2]. rewrite Hok. unfold rows2. cbn [pe2]. rewrite Hok. cbn [fst snd]. unfold topk2.
        destruct (negb (holds (elem_of (cbind ic)) cs)); [reflexivity|]. cbn [concl_now2]. destruct c; reflexivity. }
      change (fun S ic => ev2 selof Cs Bs (Leaf id cs c) (Some {| bc := ic; bb := None |}) (topk2 (Leaf id cs c)) S)
        with (fun S ic => ev2 selof Cs Bs (Leaf id cs c) (Some (cbind ic)) (topk2 (Leaf id cs c)) S).
      rewrite Hfold. cbn [init_root2 out2]. rewrite app_nil_r. apply in_insts_rev.
    - assert (Hid : ~ In id (ids l ++ ids r)) by (cbn [ids] in Hnd; apply NoDup_cons_iff in Hnd; apply Hnd).
      assert (Hidl : ~ In id (ids l)) by (intro; apply Hid, in_or_app; auto).
      assert (Hidr : ~ In id (ids r)) by (intro; apply Hid, in_or_app; auto).
      assert (Hfold : forall L S E, (forall ic, In ic L -> snd (snd ic) < length Bs) -> Inv2 id s l r S E ->
                 exists E', Inv2 id s l r (fold_left (fun S ic => ev2 selof Cs Bs (Node id s l r) (Some (cbind ic)) (topk2 (Node id s l r)) S) L S) E' /\
                            forall x, In x (insts (map row E')) <->
                                      In x (insts (map row E)) \/ In x (insts (flat_map (fun ic => rows2 (Node id s l r) (cbind ic)) L))).
      { induction L as [|ic L IH]; intros S E HL HI.
        - exists E. split; [exact HI|]. intros y. simpl. tauto.
        - cbn [fold_left flat_map].
          assert (Hsh : Shape selof Cs Bs (Node id s l r) (cbind ic)).
          { apply shape_okb; auto. apply HL. left. reflexivity. }
          destruct (root_step id s l r (cbind ic) Hidl Hidr Hsh S E HI) as [E1 [HI1 Hx1]].
          destruct (IH _ E1 (fun ic' H' => HL ic' (or_intror H')) HI1) as [E2 [HI2 Hx2]].
          exists E2. split; [exact HI2|]. intros y. rewrite Hx2, Hx1, insts_app, in_app_iff. tauto. }
      change (fun S ic => ev2 selof Cs Bs (Node id s l r) (Some {| bc := ic; bb := None |}) (topk2 (Node id s l r)) S)
        with (fun S ic => ev2 selof Cs Bs (Node id s l r) (Some (cbind ic)) (topk2 (Node id s l r)) S).
      destruct (Hfold (enum Cs) (init_root2 id) []) as [E' [[_ [_ [_ Ho]]] Hx]].
      + intros [i c0] Hic. cbn [snd]. apply Hin. eapply enum_from_in. exact Hic.
      + split; [reflexivity|]. split; [intros n _; reflexivity|]. split; reflexivity.
      + cbn [root_id]. rewrite Ho, Hx. simpl. tauto.
  Qed.
End Root.
