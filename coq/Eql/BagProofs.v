(* C02 -- whole queries in the conjunctive / else-if fragment: the rows of [run] are a PERMUTATION of the Spec's
   enumeration of satisfying assignments (exactly one row per satisfying assignment, as multisets). *)
From Coq Require Import List ZArith Bool Arith Lia Permutation.
From Krrood Require Import Eql.Syntax Eql.Sat Eql.Eval Eql.EvalProofs Eql.RunProofs Eql.CountProofs Eql.EvalQInv.
From Krrood Require Eql.EvalQDefs Eql.EvalQTotal.
Import ListNotations.

Lemma cnt_le {A} (p q : A -> bool) l : (forall a, In a l -> p a = true -> q a = true) -> cnt p l <= cnt q l.
Proof.
  unfold cnt. induction l as [|a l IH]; simpl; intros H; auto.
  assert (IH' := IH (fun a' Ha => H a' (or_intror Ha))).
  destruct (p a) eqn:Pa.
  - rewrite (H a (or_introl eq_refl) Pa). simpl. lia.
  - destruct (q a); simpl; lia.
Qed.

Lemma NoDup_map_cnt {A B} (eqb : B -> B -> bool) (f : A -> B) (l : list A) :
  (forall x y, eqb x y = true <-> x = y) ->
  (forall a, In a l -> cnt (fun a' => eqb (f a') (f a)) l <= 1) -> NoDup (map f l).
Proof.
  intros Heq. induction l as [|a l IH]; simpl; intros H; constructor.
  - intros Hin. apply in_map_iff in Hin as (a' & E & Ha').
    specialize (H a (or_introl eq_refl)). unfold cnt in H. simpl in H.
    replace (eqb (f a) (f a)) with true in H by (symmetry; now apply Heq). simpl in H.
    assert (Hc : 1 <= length (filter (fun a'0 => eqb (f a'0) (f a)) l)).
    { clear - Heq E Ha'. induction l as [|b l IH]; [contradiction|]. simpl. destruct Ha' as [->|Ha'].
      - replace (eqb (f a') (f a)) with true by (symmetry; now apply Heq). simpl. lia.
      - destruct (eqb (f b) (f a)); simpl; [lia|auto]. }
    lia.
  - apply IH. intros a' Ha'. specialize (H a' (or_intror Ha')). unfold cnt in *. simpl in H.
    destruct (eqb (f a) (f a')); simpl in H; lia.
Qed.

Definition binds_eqb (a b : binds) : bool :=
  if list_eq_dec (fun p q : var * val =>
                    match Nat.eq_dec (fst p) (fst q), val_eq_dec (snd p) (snd q) with
                    | left e1, left e2 => left (match p, q return fst p = fst q -> snd p = snd q -> p = q with
                                                | (x, v), (y, w) => fun e1 e2 => f_equal2 pair e1 e2 end e1 e2)
                    | right n, _ => right (fun h => n (f_equal fst h))
                    | _, right n => right (fun h => n (f_equal snd h))
                    end) a b then true else false.
Lemma binds_eqb_eq a b : binds_eqb a b = true <-> a = b.
Proof. unfold binds_eqb. destruct (list_eq_dec _ a b); split; congruence. Qed.

Section Bag.
  Variable W : world.
  Variable D : domains.
  Hypothesis Dnodup : forall x, NoDup (D x).

  Definition norm (vs : list var) (b : binds) : binds := map (fun x => (x, asg_of b x)) vs.

  Lemma lookup_norm vs b x : In x vs -> lookup (norm vs b) x = Some (asg_of b x).
  Proof.
    unfold norm. induction vs as [|y vs IH]; simpl; intros H; [contradiction|].
    destruct (Nat.eqb_spec x y) as [->|Hne]; auto. destruct H as [->|H]; [congruence|auto].
  Qed.

  Lemma asg_norm vs b x : In x vs -> asg_of (norm vs b) x = asg_of b x.
  Proof. intros H. unfold asg_of at 1. now rewrite lookup_norm. Qed.

  Lemma norm_in_assignments vs b : (forall x, In x vs -> In (asg_of b x) (D x)) -> In (norm vs b) (assignments D vs).
  Proof.
    unfold norm. induction vs as [|y vs IH]; simpl; intros H; [now left|].
    apply in_flat_map. exists (map (fun x => (x, asg_of b x)) vs). split; [apply IH; auto|].
    apply in_map_iff. exists (asg_of b y). split; auto.
  Qed.

  Lemma assignments_shape vs : NoDup vs -> forall a, In a (assignments D vs) -> a = norm vs a.
  Proof.
    induction vs as [|y vs IH]; simpl; intros Hnd a Ha.
    - destruct Ha as [<-|[]]. reflexivity.
    - inversion Hnd as [|? ? Hny Hnd']; subst.
      apply in_flat_map in Ha as (a0 & Ha0 & Ha). apply in_map_iff in Ha as (v & <- & Hv).
      unfold norm. simpl. unfold asg_of at 1. rewrite lookup_cons_eq. f_equal.
      rewrite (IH Hnd' a0 Ha0) at 1. unfold norm. apply map_ext_in. intros x Hx. f_equal.
      unfold asg_of. rewrite lookup_cons_ne; auto. intros ->. contradiction.
  Qed.

  Lemma NoDup_app_intro {A} (l m : list A) :
    NoDup l -> NoDup m -> (forall x, In x l -> ~ In x m) -> NoDup (l ++ m).
  Proof.
    induction l as [|a l IH]; simpl; intros Hl Hm Hd; auto.
    inversion Hl as [|? ? Hna Hl']; subst. constructor.
    - intros Hin. apply in_app_or in Hin as [Hin|Hin]; [contradiction|]. eapply Hd; eauto.
    - apply IH; auto.
  Qed.

  Lemma NoDup_map_inj {A B} (f : A -> B) l : (forall x y, f x = f y -> x = y) -> NoDup l -> NoDup (map f l).
  Proof.
    intros Hinj. induction l as [|a l IH]; simpl; intros H; constructor; inversion H; subst; auto.
    intros Hin. apply in_map_iff in Hin as (a2 & E & Ha2). apply Hinj in E. subst. contradiction.
  Qed.

  Lemma NoDup_assignments vs : NoDup (assignments D vs).
  Proof.
    induction vs as [|y vs IH]; simpl; [repeat constructor; auto|].
    induction (assignments D vs) as [|a l IHl]; simpl; [constructor|].
    inversion IH as [|? ? Hna Hl]; subst.
    apply NoDup_app_intro; auto.
    - apply NoDup_map_inj; auto. intros v w E. now inversion E.
    - intros b Hb Hin. apply in_map_iff in Hb as (v & <- & Hv).
      apply in_flat_map in Hin as (a2 & Ha2 & Hin). apply in_map_iff in Hin as (w & E & Hw).
      inversion E; subst. contradiction.
  Qed.

  Lemma cnt_map_filter {A B} (P : B -> bool) (T : A -> bool) (f : A -> B) (l : list A) :
    cnt P (map f (filter T l)) = cnt (fun r => T r && P (f r)) l.
  Proof.
    unfold cnt. induction l as [|a l IH]; simpl; auto.
    destruct (T a); simpl; [destruct (P (f a)); simpl; now rewrite IH|exact IH].
  Qed.

  Lemma product_singletons {A} (xs : list A) : product (map (fun x => [x]) xs) = [xs].
  Proof. induction xs as [|x xs IH]; simpl; auto. rewrite IH. reflexivity. Qed.

  (* ---------- the fragment ---------- *)
  Variable q : query.
  Variable c : cond.
  Hypothesis Ec : q_cond q = Some c.
  Hypothesis Nc : nnf c = true.
  Hypothesis Hroots : forall x, In x (flat_map opnd_vars (q_sels q)) -> In x (cond_vars c).

  Let vs := nodup Nat.eq_dec (query_vars q).

  Lemma qfree_c : qfree c = true.
  Proof. apply ufree_qfree, nnf_ufree, Nc. Qed.

  Lemma vs_iff x : In x vs <-> In x (cond_vars c).
  Proof.
    unfold vs. rewrite nodup_In. unfold query_vars. rewrite Ec, (qfree_fv c qfree_c), in_app_iff.
    split; [intros [H|H]; auto|auto].
  Qed.

  Definition TR : list binds := true_results W D (q_cond q).

  Lemma TR_in b1 : In b1 TR <-> In (b1, false) (eval W D c []).
  Proof.
    unfold TR. rewrite Ec. simpl. rewrite in_map_iff. split.
    - intros ([b f] & <- & H). apply filter_In in H as [H Hf]. simpl in *. destruct f; [discriminate|auto].
    - intros H. exists (b1, false). split; auto. apply filter_In. auto.
  Qed.

  Lemma TR_total b1 : In b1 TR -> forall x, In x vs -> exists v, lookup b1 x = Some v /\ In v (D x).
  Proof.
    intros H x Hx. apply TR_in in H. apply vs_iff in Hx.
    pose proof (eval_true_total W D c Nc _ _ H x Hx) as Hb. unfold bound in Hb.
    destruct (lookup b1 x) eqn:E; [|discriminate]. exists v. split; auto.
    eapply (eval_bok W D c qfree_c); eauto. apply b_ok_nil.
  Qed.

  Lemma TR_dom b1 : In b1 TR -> forall x, lookup b1 x <> None -> In x vs.
  Proof.
    intros H x Hx. apply TR_in in H. apply vs_iff.
    destruct (eval_dom W D c _ _ _ H x Hx) as [Hn|Hc]; auto. simpl in Hn. congruence.
  Qed.

  Lemma TR_extends b1 : In b1 TR -> extends (asg_of (norm vs b1)) b1.
  Proof.
    intros H x v Hl. rewrite asg_norm.
    - unfold asg_of. now rewrite Hl.
    - eapply TR_dom; eauto. congruence.
  Qed.

  Lemma TR_sat b1 : In b1 TR -> sat W D (asg_of (norm vs b1)) c = true.
  Proof.
    intros H. apply (eval_sound W D c true [] b1);
      [apply ufree_snd_ok, nnf_ufree, Nc|now apply TR_in|now apply TR_extends].
  Qed.

  Lemma in_dom_norm b1 : In b1 TR -> forall x, In x (cond_vars c) -> In (asg_of (norm vs b1) x) (D x).
  Proof.
    intros H x Hx. apply vs_iff in Hx. rewrite asg_norm by exact Hx.
    destruct (TR_total b1 H x Hx) as (v & Hl & Hv). unfold asg_of. now rewrite Hl.
  Qed.

  (* the normalised true results are exactly the satisfying assignments, each once *)
  Theorem TR_perm :
    Permutation (map (norm vs) TR) (filter (fun a => sat_opt W D (asg_of a) (q_cond q)) (assignments D vs)).
  Proof.
    apply NoDup_Permutation.
    - (* no assignment is produced twice: the partition *)
      apply (NoDup_map_cnt binds_eqb (norm vs) TR binds_eqb_eq). intros b1 H1.
      set (rho := asg_of (norm vs b1)).
      assert (Hle : cnt (fun a2 => binds_eqb (norm vs a2) (norm vs b1)) TR <= cnt (covt rho) (eval W D c [])).
      { unfold TR. rewrite Ec. simpl. rewrite cnt_map_filter. apply cnt_le. intros [b f] Hin Hp. simpl in Hp.
        apply andb_prop in Hp as [Hf Hp]. apply binds_eqb_eq in Hp. destruct f; [discriminate|].
        unfold covt, cov. simpl. rewrite andb_true_r. apply extendsb_iff. unfold rho. rewrite <- Hp.
        apply TR_extends. now apply TR_in. }
      rewrite (eval_exactly_once W D Dnodup c (nnf_ufree c Nc) [] rho (extends_nil _)) in Hle.
      + destruct (sat W D rho c); lia.
      + apply in_dom_norm. exact H1.
    - apply NoDup_filter, NoDup_assignments.
    - intros a. rewrite filter_In, in_map_iff. rewrite Ec. simpl. split.
      + intros (b1 & <- & Hb). split; [|now apply TR_sat].
        apply norm_in_assignments. intros x Hx.
        destruct (TR_total b1 Hb x Hx) as (v & Hl & Hv). unfold asg_of. now rewrite Hl.
      + intros [Ha Hs].
        assert (Hnd : NoDup vs) by apply NoDup_nodup.
        destruct (eval_complete W D c qfree_c [] (asg_of a) (extends_nil _)) as (b1 & H1 & He).
        * intros x Hx. apply vs_iff in Hx. destruct (assignments_sound D vs a Ha x Hx) as (v & Hl & Hv).
          unfold asg_of. now rewrite Hl.
        * rewrite Hs in H1. simpl in H1. exists b1. split; [|now apply TR_in].
          rewrite (assignments_shape vs Hnd a Ha). unfold norm. apply map_ext_in. intros x Hx. f_equal.
          destruct (TR_total b1 (proj2 (TR_in b1) H1) x Hx) as (v & Hl & _). unfold asg_of at 1. rewrite Hl.
          symmetry. now apply He.
  Qed.

  Lemma select_bound sels : forall b1, (forall s x, In s sels -> In x (opnd_vars s) -> bound b1 x = true) ->
    select W D sels b1 = [map (den W (asg_of b1)) sels].
  Proof.
    induction sels as [|s sels IH]; intros b1 Hb; [reflexivity|].
    cbn [select map]. rewrite (EvalQTotal.ev_opnd_total W D s b1) by (intros x Hx; apply (Hb s x); simpl; auto).
    cbn [flat_map fst snd]. rewrite IH by (intros s' x Hs' Hx; apply (Hb s' x); simpl; auto). reflexivity.
  Qed.

  Lemma select_total b1 : In b1 TR ->
    select W D (q_sels q) b1 = [map (den W (asg_of (norm vs b1))) (q_sels q)].
  Proof.
    intros H.
    assert (Hv : forall s x, In s (q_sels q) -> In x (opnd_vars s) -> In x vs).
    { intros s x Hs Hx. apply vs_iff, Hroots. apply in_flat_map. eauto. }
    rewrite select_bound.
    - f_equal. apply map_ext_in. intros s Hs. apply den_ext. intros x Hx. symmetry. apply asg_norm. eauto.
    - intros s x Hs Hx. destruct (TR_total b1 H x (Hv s x Hs Hx)) as (v & Hl & _). unfold bound. now rewrite Hl.
  Qed.

  (* exactly one row per satisfying assignment: the rows are a permutation of the Spec's enumeration *)
  Theorem run_perm : Permutation (run W D q) (answers_exec W D q).
  Proof.
    unfold run, answers_exec. fold TR. fold vs.
    assert (E : flat_map (select W D (q_sels q)) TR
                = map (fun a => map (den W (asg_of a)) (q_sels q)) (map (norm vs) TR)).
    { rewrite map_map. assert (Hall : forall b1, In b1 TR -> In b1 TR) by auto. revert Hall.
      generalize TR at 1 3 4. intros l Hl. induction l as [|b1 l IH]; simpl; auto.
      rewrite (select_total b1 (Hl b1 (or_introl eq_refl))). simpl. f_equal. apply IH. intros; apply Hl; now right. }
    rewrite E. apply Permutation_map. apply TR_perm.
  Qed.
End Bag.

(* ---------- consequences for the(...) and for result-count constraints (Spec side of C09) ---------- *)
From Krrood Require Import Eql.QuantSpec.

Lemma the_spec_perm {A} (l l' : list A) : Permutation l l' -> the_spec l = the_spec l'.
Proof.
  intros H. pose proof (Permutation_length H) as Hl.
  destruct l as [|a [|b l]]; destruct l' as [|a' [|b' l']]; simpl in *; try discriminate; auto.
  apply Permutation_length_1 in H. now subst.
Qed.

Section BagThe.
  Variable W : world.
  Variable D : domains.
  Hypothesis Dnodup : forall x, NoDup (D x).

  (* the(...) over the model's rows behaves exactly as over the enumeration of the satisfying assignments:
     it returns the row when there is exactly one, NoSolutionFound when none, MultipleSolutionFound when several *)
  Theorem the_sees_true_count q c :
    q_cond q = Some c -> nnf c = true ->
    (forall x, In x (flat_map opnd_vars (q_sels q)) -> In x (cond_vars c)) ->
    the_spec (run W D q) = the_spec (answers_exec W D q) /\ length (run W D q) = length (answers_exec W D q).
  Proof.
    intros Ec Nc Hr. pose proof (run_perm W D Dnodup q c Ec Nc Hr) as P. split.
    - now apply the_spec_perm.
    - now apply Permutation_length.
  Qed.
End BagThe.
