(* C08, one variable, every tree: the rows of the pure reading [pes1] summarised per element.
   [fires t e]: the tree yields true rows for e; [Tg t e]: the conclusions (tags) its true rows carry.
   ExceptIf: the exception's conclusions if it fires, else the base's; ElseIf: the first operand that fires;
   Next (also-if): both operands' conclusions. *)
From Coq Require Import List ZArith Bool Arith Lia.
From Krrood Require Import Eql.RuleSpec Eql.RuleEval Eql.RuleBuild Eql.RulePure Eql.RuleEvalProofs
  Eql.RuleMultiProofs Eql.RuleMultiRootProofs.
Import ListNotations.

Fixpoint fires (t : tree) (e : elem) : bool :=
  match t with
  | Leaf _ cs _ => holds e cs
  | Node _ SExc l r => fires l e
  | Node _ _ l r => fires l e || fires r e
  end.
Fixpoint Tg (t : tree) (e : elem) : list nat :=
  match t with
  | Leaf _ cs c => if holds e cs then c else []
  | Node _ SExc l r => if fires l e then (if fires r e then Tg r e else Tg l e) else []
  | Node _ SAlt l r => if fires l e then Tg l e else Tg r e
  | Node _ SNext l r => if fires l e then Tg l e ++ Tg r e else Tg r e
  end.
Lemma Tg_nofire t e : fires t e = false -> Tg t e = [].
Proof.
  induction t as [id cs c | id s l IHl r IHr]; simpl; intros H.
  - rewrite H. reflexivity.
  - destruct s.
    + rewrite H. reflexivity.
    + apply orb_false_iff in H. destruct H as [H1 H2]. rewrite H1. auto.
    + apply orb_false_iff in H. destruct H as [H1 H2]. rewrite H1. auto.
Qed.

Lemma filter_all1 {A} (f : A -> bool) l : forallb f l = true -> filter f l = l.
Proof.
  induction l as [|x l IH]; [reflexivity|]. simpl. intros H. apply andb_prop in H. destruct H as [H1 H2].
  rewrite H1, IH; auto.
Qed.

Section Pure.
  Variable W : list elem.

  (* the rows of the whole domain are the rows of its elements (as a set) *)
  Lemma pes1_unbound t : forall y, In y (pes1 W t None) <-> exists ie, In ie (enum W) /\ In y (pes1 W t (Some ie)).
  Proof.
    induction t as [id cs c | id s l IHl r IHr]; intros y.
    - cbn [pes1]. rewrite in_map_iff. split.
      + intros [ie [E Hin]]. exists ie. split; [exact Hin|]. left. exact E.
      + intros [ie [Hin [E|[]]]]. exists ie. auto.
    - cbn [pes1]. rewrite in_map_iff.
      assert (Hfm : forall (g : row1 -> list row1) y0,
                 In y0 (flat_map g (pes1 W l None)) <-> exists ie, In ie (enum W) /\ In y0 (flat_map g (pes1 W l (Some ie)))).
      { intros g y0. rewrite in_flat_map. split.
        - intros [x [Hx Hy]]. apply IHl in Hx. destruct Hx as [ie [Hie Hx]]. exists ie. split; [exact Hie|].
          apply in_flat_map. exists x. auto.
        - intros [ie [Hie Hy]]. apply in_flat_map in Hy. destruct Hy as [x [Hx Hy]]. exists x. split; [|exact Hy].
          apply IHl. exists ie. auto. }
      split.
      + intros [y0 [E Hy0]]. destruct s; cbn [raws] in *.
        * apply Hfm in Hy0. destruct Hy0 as [ie [Hie Hy0]]. exists ie. split; [exact Hie|]. apply in_map_iff. exists y0. auto.
        * apply Hfm in Hy0. destruct Hy0 as [ie [Hie Hy0]]. exists ie. split; [exact Hie|]. apply in_map_iff. exists y0. auto.
        * apply in_app_or in Hy0. destruct Hy0 as [Hy0|Hy0].
          -- apply Hfm in Hy0. destruct Hy0 as [ie [Hie Hy0]]. exists ie. split; [exact Hie|]. apply in_map_iff. exists y0.
             split; [exact E|]. apply in_or_app. auto.
          -- apply filter_In in Hy0. destruct Hy0 as [Hy0 Ht]. apply IHr in Hy0. destruct Hy0 as [ie [Hie Hy0]].
             exists ie. split; [exact Hie|]. apply in_map_iff. exists y0. split; [exact E|]. apply in_or_app. right.
             apply filter_In. auto.
      + intros [ie [Hie Hy]]. apply in_map_iff in Hy. destruct Hy as [y0 [E Hy0]]. exists y0. split; [exact E|].
        destruct s; cbn [raws] in *.
        * apply Hfm. exists ie. auto.
        * apply Hfm. exists ie. auto.
        * apply in_app_or in Hy0. apply in_or_app. destruct Hy0 as [Hy0|Hy0].
          -- left. apply Hfm. exists ie. auto.
          -- right. apply filter_In in Hy0. destruct Hy0 as [Hy0 Ht]. apply filter_In. split; [|exact Ht].
             apply IHr. exists ie. auto.
  Qed.

  (* one element: the rows are not empty, all carry the element, all have the same truth, and their conclusions are Tg *)
  Definition Summ (t : tree) (ie : binding) : Prop :=
    pes1 W t (Some ie) <> [] /\
    (forall y, In y (pes1 W t (Some ie)) -> snd y = ie /\ fst (fst y) = negb (fires t (snd ie))) /\
    (forall tg, In tg (Tg t (snd ie)) <-> exists y, In y (pes1 W t (Some ie)) /\ rtrue y = true /\ In tg (snd (fst y))).

  Lemma in_norm_rows (rows : list row1) y :
    In y (map norm rows) <-> exists y0, In y0 rows /\ y = (fst (fst y0), union [] (snd (fst y0)), snd y0).
  Proof. rewrite in_map_iff. split; intros [y0 [A B]]; exists y0; unfold norm in *; auto. Qed.

  Lemma summ_all t : forall ie, Summ t ie.
  Proof.
    induction t as [id cs c | id s l IHl r IHr]; intros ie.
    - unfold Summ. cbn [pes1 fires Tg]. split; [discriminate|]. split.
      + intros y [<-|[]]. auto.
      + intros tg. split.
        * intros H. exists (negb (holds (snd ie) cs), c, ie). split; [left; reflexivity|].
          destruct (holds (snd ie) cs); [auto|destruct H].
        * intros [y [[<-|[]] [Ht Hin]]]. unfold rtrue in Ht. cbn [fst snd] in *. rewrite negb_involutive in Ht. rewrite Ht. exact Hin.
    - destruct (IHl ie) as [Ln [Lu Lt]]. destruct (IHr ie) as [Rn [Ru Rt]].
      set (e := snd ie) in *.
      set (L := pes1 W l (Some ie)) in *. set (R := pes1 W r (Some ie)) in *.
      assert (HL0 : exists x0, In x0 L) by (destruct L as [|x0 L']; [congruence|exists x0; left; reflexivity]).
      assert (HR0 : exists y0, In y0 R) by (destruct R as [|y0 R']; [congruence|exists y0; left; reflexivity]).
      (* the rows of r true / false together *)
      assert (HRfilter_t : fires r e = true -> filter rtrue R = R).
      { intros Hf. apply filter_all1. apply forallb_forall. intros y Hy. destruct (Ru y Hy) as [_ E].
        unfold rtrue. rewrite E, Hf. reflexivity. }
      assert (HRfilter_f : fires r e = false -> filter rtrue R = []).
      { intros Hf. apply filter_none. apply not_true_iff_false. intro Hex. apply existsb_exists in Hex.
        destruct Hex as [y [Hy Ht]]. destruct (Ru y Hy) as [_ E]. unfold rtrue in Ht. rewrite E, Hf in Ht. discriminate. }
      (* conclusions after the selector merged them into its own (empty) set *)
      assert (Hun : forall tg cx, In tg (union [] cx) <-> In tg cx).
      { intros tg cx. rewrite union_in1. simpl. tauto. }
      unfold Summ. cbn [pes1]. fold L. change (pes1 W r (Some ie)) with R.
      assert (HRfun : forall x, In x L -> pes1 W r (Some (snd x)) = R) by (intros x Hx; destruct (Lu x Hx) as [E _]; rewrite E; reflexivity).
      destruct s; cbn [raws fires Tg]; fold e.
      + (* ExceptIf *)
        assert (Hrows : forall y, In y (map norm (raws_exc L (fun B => pes1 W r (Some B)))) <->
                  if fires l e
                  then (if fires r e then exists y0, In y0 R /\ y = (false, union [] (snd (fst y0)), ie)
                        else exists x, In x L /\ y = (false, union [] (snd (fst x)), ie))
                  else y = (true, [], ie)).
        { intros y. rewrite in_norm_rows. unfold raws_exc. split.
          - intros [y0 [Hy0 E]]. apply in_flat_map in Hy0. destruct Hy0 as [x [Hx Hy0]].
            destruct (Lu x Hx) as [Ex Efx]. rewrite (HRfun x Hx) in Hy0. rewrite Efx in Hy0.
            destruct (fires l e); cbn [negb] in Hy0.
            + destruct (fires r e) eqn:Fr.
              * rewrite (HRfilter_t eq_refl) in Hy0. destruct R as [|r0 R'] eqn:ER; [congruence|].
                rewrite <- ER in *. exists y0. split; [exact Hy0|]. destruct (Ru y0 Hy0) as [E1 E2]. rewrite E, E1, E2; try rewrite Fr. reflexivity.
              * rewrite (HRfilter_f eq_refl) in Hy0. destruct Hy0 as [<-|[]]. exists x. split; [exact Hx|]. rewrite E, Ex. reflexivity.
            + destruct Hy0 as [<-|[]]. rewrite E, Ex. reflexivity.
          - intros H. destruct (fires l e) eqn:Fl.
            + destruct (fires r e) eqn:Fr.
              * destruct H as [y0 [Hy0 E]]. destruct HL0 as [x0 Hx0]. exists y0. split.
                -- apply in_flat_map. exists x0. split; [exact Hx0|]. destruct (Lu x0 Hx0) as [_ Efx]. rewrite Efx; try rewrite Fl. cbn [negb].
                   rewrite (HRfun x0 Hx0), (HRfilter_t eq_refl). destruct R as [|r0 R'] eqn:ER; [congruence|]. exact Hy0.
                -- destruct (Ru y0 Hy0) as [E1 E2]. rewrite E, E1, E2; try rewrite Fr. reflexivity.
              * destruct H as [x [Hx E]]. exists (false, snd (fst x), ie). split; [|rewrite E; reflexivity].
                apply in_flat_map. exists x. split; [exact Hx|]. destruct (Lu x Hx) as [Ex Efx]. rewrite Efx; try rewrite Fl. cbn [negb].
                rewrite (HRfun x Hx), (HRfilter_f eq_refl), Ex. left. reflexivity.
            + destruct HL0 as [x0 Hx0]. exists (true, [], ie). split; [|rewrite H; reflexivity].
              apply in_flat_map. exists x0. split; [exact Hx0|]. destruct (Lu x0 Hx0) as [Ex Efx]. rewrite Efx; try rewrite Fl. cbn [negb].
              rewrite Ex. left. reflexivity. }
        split; [|split].
        * intro E0. destruct (fires l e) eqn:Fl.
          -- destruct (fires r e) eqn:Fr.
             ++ destruct HR0 as [y0 Hy0]. assert (Hin : In (false, union [] (snd (fst y0)), ie) (map norm (raws_exc L (fun B => pes1 W r (Some B))))).
                { apply Hrows. try rewrite Fl; try rewrite Fr. exists y0. auto. }
                rewrite E0 in Hin. destruct Hin.
             ++ destruct HL0 as [x0 Hx0]. assert (Hin : In (false, union [] (snd (fst x0)), ie) (map norm (raws_exc L (fun B => pes1 W r (Some B))))).
                { apply Hrows. try rewrite Fl; try rewrite Fr. exists x0. auto. }
                rewrite E0 in Hin. destruct Hin.
          -- assert (Hin : In (true, [], ie) (map norm (raws_exc L (fun B => pes1 W r (Some B))))) by (apply Hrows; try rewrite Fl; reflexivity).
             rewrite E0 in Hin. destruct Hin.
        * intros y Hy. apply Hrows in Hy. destruct (fires l e).
          -- destruct (fires r e); destruct Hy as [z [_ ->]]; auto.
          -- rewrite Hy. auto.
        * intros tg. destruct (fires l e) eqn:Fl.
          -- destruct (fires r e) eqn:Fr.
             ++ rewrite Rt. split.
                ** intros [y0 [Hy0 [Ht Hin]]]. exists (false, union [] (snd (fst y0)), ie). split; [|split; [reflexivity|apply Hun; exact Hin]].
                   apply Hrows. try rewrite Fl; try rewrite Fr. exists y0. auto.
                ** intros [y [Hy [Ht Hin]]]. apply Hrows in Hy. try rewrite Fl in Hy; try rewrite Fr in Hy. destruct Hy as [y0 [Hy0 ->]]. cbn [fst snd] in Hin.
                   exists y0. split; [exact Hy0|]. split; [|apply Hun; exact Hin]. destruct (Ru y0 Hy0) as [_ E2]. unfold rtrue. rewrite E2; try rewrite Fr. reflexivity.
             ++ rewrite Lt. split.
                ** intros [x [Hx [Ht Hin]]]. exists (false, union [] (snd (fst x)), ie). split; [|split; [reflexivity|apply Hun; exact Hin]].
                   apply Hrows. try rewrite Fl; try rewrite Fr. exists x. auto.
                ** intros [y [Hy [Ht Hin]]]. apply Hrows in Hy. try rewrite Fl in Hy; try rewrite Fr in Hy. destruct Hy as [x [Hx ->]]. cbn [fst snd] in Hin.
                   exists x. split; [exact Hx|]. split; [|apply Hun; exact Hin]. destruct (Lu x Hx) as [_ E2]. unfold rtrue. rewrite E2; try rewrite Fl. reflexivity.
          -- split; [intros []|]. intros [y [Hy [Ht _]]]. apply Hrows in Hy. try rewrite Fl in Hy. rewrite Hy in Ht. discriminate.
      + (* ElseIf *)
        assert (Hrows : forall y, In y (map norm (raws_alt L (fun B => pes1 W r (Some B)))) <->
                  if fires l e then exists x, In x L /\ y = (false, union [] (snd (fst x)), ie)
                  else exists y0, In y0 R /\ y = (negb (fires r e), union [] (snd (fst y0)), ie)).
        { intros y. rewrite in_norm_rows. unfold raws_alt. split.
          - intros [y0 [Hy0 E]]. apply in_flat_map in Hy0. destruct Hy0 as [x [Hx Hy0]].
            destruct (Lu x Hx) as [Ex Efx]. rewrite (HRfun x Hx) in Hy0. rewrite Efx in Hy0.
            destruct (fires l e); cbn [negb] in Hy0.
            + destruct Hy0 as [<-|[]]. exists x. split; [exact Hx|]. rewrite E, Ex. reflexivity.
            + exists y0. split; [exact Hy0|]. destruct (Ru y0 Hy0) as [E1 E2]. rewrite E, E1, E2. reflexivity.
          - intros H. destruct (fires l e) eqn:Fl.
            + destruct H as [x [Hx E]]. exists (false, snd (fst x), ie). split; [|rewrite E; reflexivity].
              apply in_flat_map. exists x. split; [exact Hx|]. destruct (Lu x Hx) as [Ex Efx]. rewrite Efx; try rewrite Fl. cbn [negb]. rewrite Ex. left. reflexivity.
            + destruct H as [y0 [Hy0 E]]. destruct HL0 as [x0 Hx0]. exists y0. split.
              * apply in_flat_map. exists x0. split; [exact Hx0|]. destruct (Lu x0 Hx0) as [_ Efx]. rewrite Efx; try rewrite Fl. cbn [negb].
                rewrite (HRfun x0 Hx0). exact Hy0.
              * destruct (Ru y0 Hy0) as [E1 E2]. rewrite E, E1, E2. reflexivity. }
        split; [|split].
        * intro E0. destruct (fires l e) eqn:Fl.
          -- destruct HL0 as [x0 Hx0]. assert (Hin : In (false, union [] (snd (fst x0)), ie) (map norm (raws_alt L (fun B => pes1 W r (Some B))))).
             { apply Hrows. try rewrite Fl. exists x0. auto. }
             rewrite E0 in Hin. destruct Hin.
          -- destruct HR0 as [y0 Hy0]. assert (Hin : In (negb (fires r e), union [] (snd (fst y0)), ie) (map norm (raws_alt L (fun B => pes1 W r (Some B))))).
             { apply Hrows. try rewrite Fl. exists y0. auto. }
             rewrite E0 in Hin. destruct Hin.
        * intros y Hy. apply Hrows in Hy. destruct (fires l e); destruct Hy as [z [_ ->]]; auto.
        * intros tg. destruct (fires l e) eqn:Fl.
          -- rewrite Lt. split.
             ++ intros [x [Hx [Ht Hin]]]. exists (false, union [] (snd (fst x)), ie). split; [|split; [reflexivity|apply Hun; exact Hin]].
                apply Hrows. try rewrite Fl. exists x. auto.
             ++ intros [y [Hy [Ht Hin]]]. apply Hrows in Hy. try rewrite Fl in Hy. destruct Hy as [x [Hx ->]]. cbn [fst snd] in Hin.
                exists x. split; [exact Hx|]. split; [|apply Hun; exact Hin]. destruct (Lu x Hx) as [_ E2]. unfold rtrue. rewrite E2; try rewrite Fl. reflexivity.
          -- rewrite Rt. split.
             ++ intros [y0 [Hy0 [Ht Hin]]]. exists (negb (fires r e), union [] (snd (fst y0)), ie). split; [|split; [|apply Hun; exact Hin]].
                ** apply Hrows. try rewrite Fl. exists y0. auto.
                ** destruct (Ru y0 Hy0) as [_ E2]. unfold rtrue in *. rewrite E2 in Ht. exact Ht.
             ++ intros [y [Hy [Ht Hin]]]. apply Hrows in Hy. try rewrite Fl in Hy. destruct Hy as [y0 [Hy0 ->]]. cbn [fst snd] in Hin.
                exists y0. split; [exact Hy0|]. split; [|apply Hun; exact Hin]. destruct (Ru y0 Hy0) as [_ E2]. unfold rtrue in *. rewrite E2. exact Ht.
      + (* Next *)
        assert (Hrows : forall y, In y (map norm (raws_alt L (fun B => pes1 W r (Some B)) ++ filter rtrue R)) <->
                  (if fires l e then exists x, In x L /\ y = (false, union [] (snd (fst x)), ie)
                   else exists y0, In y0 R /\ y = (negb (fires r e), union [] (snd (fst y0)), ie)) \/
                  (fires r e = true /\ exists y0, In y0 R /\ y = (false, union [] (snd (fst y0)), ie))).
        { intros y. rewrite map_app, in_app_iff.
          assert (H1 : In y (map norm (raws_alt L (fun B => pes1 W r (Some B)))) <->
                       if fires l e then exists x, In x L /\ y = (false, union [] (snd (fst x)), ie)
                       else exists y0, In y0 R /\ y = (negb (fires r e), union [] (snd (fst y0)), ie)).
          { rewrite in_norm_rows. unfold raws_alt. split.
            - intros [y0 [Hy0 E]]. apply in_flat_map in Hy0. destruct Hy0 as [x [Hx Hy0]].
              destruct (Lu x Hx) as [Ex Efx]. rewrite (HRfun x Hx) in Hy0. rewrite Efx in Hy0.
              destruct (fires l e); cbn [negb] in Hy0.
              + destruct Hy0 as [<-|[]]. exists x. split; [exact Hx|]. rewrite E, Ex. reflexivity.
              + exists y0. split; [exact Hy0|]. destruct (Ru y0 Hy0) as [E1 E2]. rewrite E, E1, E2. reflexivity.
            - intros H. destruct (fires l e) eqn:Fl.
              + destruct H as [x [Hx E]]. exists (false, snd (fst x), ie). split; [|rewrite E; reflexivity].
                apply in_flat_map. exists x. split; [exact Hx|]. destruct (Lu x Hx) as [Ex Efx]. rewrite Efx; try rewrite Fl. cbn [negb]. rewrite Ex. left. reflexivity.
              + destruct H as [y0 [Hy0 E]]. destruct HL0 as [x0 Hx0]. exists y0. split.
                * apply in_flat_map. exists x0. split; [exact Hx0|]. destruct (Lu x0 Hx0) as [_ Efx]. rewrite Efx; try rewrite Fl. cbn [negb].
                  rewrite (HRfun x0 Hx0). exact Hy0.
                * destruct (Ru y0 Hy0) as [E1 E2]. rewrite E, E1, E2. reflexivity. }
          rewrite H1. clear H1.
          assert (H2 : In y (map norm (filter rtrue R)) <->
                       (fires r e = true /\ exists y0, In y0 R /\ y = (false, union [] (snd (fst y0)), ie))).
          { rewrite in_norm_rows. split.
            - intros [y0 [Hy0 E]]. apply filter_In in Hy0. destruct Hy0 as [Hy0 Ht]. destruct (Ru y0 Hy0) as [E1 E2].
              unfold rtrue in Ht. rewrite E2, negb_involutive in Ht. split; [exact Ht|]. exists y0. split; [exact Hy0|].
              rewrite E, E1, E2, Ht. reflexivity.
            - intros [Fr [y0 [Hy0 E]]]. exists y0. split.
              + apply filter_In. split; [exact Hy0|]. destruct (Ru y0 Hy0) as [_ E2]. unfold rtrue. rewrite E2; try rewrite Fr. reflexivity.
              + destruct (Ru y0 Hy0) as [E1 E2]. rewrite E, E1, E2; try rewrite Fr. reflexivity. }
          rewrite H2. tauto. }
        split; [|split].
        * intro E0. destruct (fires l e) eqn:Fl.
          -- destruct HL0 as [x0 Hx0]. assert (Hin : In (false, union [] (snd (fst x0)), ie) (map norm (raws_alt L (fun B => pes1 W r (Some B)) ++ filter rtrue R))).
             { apply Hrows. left. try rewrite Fl. exists x0. auto. }
             rewrite E0 in Hin. destruct Hin.
          -- destruct HR0 as [y0 Hy0]. assert (Hin : In (negb (fires r e), union [] (snd (fst y0)), ie) (map norm (raws_alt L (fun B => pes1 W r (Some B)) ++ filter rtrue R))).
             { apply Hrows. left. try rewrite Fl. exists y0. auto. }
             rewrite E0 in Hin. destruct Hin.
        * intros y Hy. apply Hrows in Hy. destruct Hy as [Hy|[Fr [y0 [_ ->]]]].
          -- destruct (fires l e); destruct Hy as [z [_ ->]]; auto.
          -- cbn [fst snd]. try rewrite Fr; rewrite orb_true_r. auto.
        * intros tg.
          assert (HTl : fires l e = true -> (In tg (Tg l e) <-> exists y, In y (map norm (raws_alt L (fun B => pes1 W r (Some B)) ++ filter rtrue R)) /\
                           rtrue y = true /\ In tg (snd (fst y)) /\ exists x, In x L /\ y = (false, union [] (snd (fst x)), ie))).
          { intros Fl. rewrite Lt. split.
            - intros [x [Hx [Ht Hin]]]. exists (false, union [] (snd (fst x)), ie). split; [apply Hrows; left; try rewrite Fl; exists x; auto|].
              split; [reflexivity|]. split; [apply Hun; exact Hin|]. exists x. auto.
            - intros [y [_ [_ [Hin [x [Hx ->]]]]]]. cbn [fst snd] in Hin. exists x. split; [exact Hx|]. split; [|apply Hun; exact Hin].
              destruct (Lu x Hx) as [_ E2]. unfold rtrue. rewrite E2; try rewrite Fl. reflexivity. }
          assert (HTr : In tg (Tg r e) <-> fires r e = true /\ exists y0, In y0 R /\ In tg (snd (fst y0))).
          { rewrite Rt. split.
            - intros [y0 [Hy0 [Ht Hin]]]. destruct (Ru y0 Hy0) as [_ E2]. unfold rtrue in Ht. rewrite E2, negb_involutive in Ht. split; [exact Ht|]. exists y0. auto.
            - intros [Fr [y0 [Hy0 Hin]]]. exists y0. split; [exact Hy0|]. split; [|exact Hin]. destruct (Ru y0 Hy0) as [_ E2]. unfold rtrue. rewrite E2; try rewrite Fr. reflexivity. }
          destruct (fires l e) eqn:Fl.
          -- rewrite in_app_iff, (HTl eq_refl), HTr. split.
             ++ intros [[y [Hy [Ht [Hin _]]]]|[Fr [y0 [Hy0 Hin]]]]; [exists y; auto|].
                exists (false, union [] (snd (fst y0)), ie). split; [apply Hrows; right; split; [exact Fr|exists y0; auto]|].
                split; [reflexivity|apply Hun; exact Hin].
             ++ intros [y [Hy [Ht Hin]]]. pose proof Hy as Hy'. apply Hrows in Hy'. try rewrite Fl in Hy'. destruct Hy' as [[x [Hx E]]|[Fr [y0 [Hy0 E]]]].
                ** left. exists y. split; [exact Hy|]. split; [exact Ht|]. split; [exact Hin|]. exists x. auto.
                ** right. split; [exact Fr|]. exists y0. split; [exact Hy0|]. rewrite E in Hin. cbn [fst snd] in Hin. apply Hun. exact Hin.
          -- rewrite HTr. split.
             ++ intros [Fr [y0 [Hy0 Hin]]].
                exists (false, union [] (snd (fst y0)), ie). split; [apply Hrows; right; split; [exact Fr|exists y0; auto]|].
                split; [reflexivity|apply Hun; exact Hin].
             ++ intros [y [Hy [Ht Hin]]]. apply Hrows in Hy. try rewrite Fl in Hy. destruct Hy as [[y0 [Hy0 E]]|[Fr [y0 [Hy0 E]]]].
                ** rewrite E in Ht, Hin. unfold rtrue in Ht. cbn [fst snd] in Ht, Hin. rewrite negb_involutive in Ht.
                   split; [exact Ht|]. exists y0. split; [exact Hy0|]. apply Hun. exact Hin.
                ** split; [exact Fr|]. exists y0. split; [exact Hy0|]. rewrite E in Hin. cbn [fst snd] in Hin. apply Hun. exact Hin.
  Qed.
End Pure.
