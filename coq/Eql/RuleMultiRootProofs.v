(* C08 proofs for the one-variable evaluator: the whole run of EVERY tree (any nesting of ExceptIf / ElseIf / Next).
   The root selector hands each of its rows to update_conclusion, which records (truth, conclusions, identity of x) and
   drops a row whose record is known.  As a SET, the inferred instances are those of the true rows of the pure reading
   [pes1] of the tree over the whole domain. *)
From Coq Require Import List ZArith Bool Arith Lia.
From Krrood Require Import Eql.RuleSpec Eql.RuleEval Eql.RuleBuild Eql.RulePure Eql.RuleEvalProofs Eql.RuleNextProofs
  Eql.RuleMultiProofs.
Import ListNotations.

Lemma memb_in1 x l : memb x l = true <-> In x l.
Proof.
  unfold memb. rewrite existsb_exists. split.
  - intros [y [Hy E]]. apply Nat.eqb_eq in E. subst. exact Hy.
  - intros H. exists x. split; [exact H|apply Nat.eqb_refl].
Qed.
Lemma union_in1 b : forall a x, In x (union a b) <-> In x a \/ In x b.
Proof.
  induction b as [|y b IH]; intros a x; simpl.
  - tauto.
  - destruct (memb y a) eqn:E.
    + rewrite IH. apply memb_in1 in E. split; [tauto|]. intros [H|[H|H]]; subst; auto.
    + rewrite IH, in_app_iff. simpl. tauto.
Qed.
Lemma set_eqb_in1 a b : set_eqb a b = true -> forall x, In x a <-> In x b.
Proof.
  unfold set_eqb. intros H. apply andb_prop in H. destruct H as [H1 H2].
  rewrite forallb_forall in H1, H2. intros x. split; intros Hx.
  - apply memb_in1. apply H1. exact Hx.
  - apply memb_in1. apply H2. exact Hx.
Qed.

(* the true rows, as (conclusions, index of the element) *)
Definition trows1 (rows : list row1) : list (list nat * nat) :=
  map (fun y => (snd (fst y), fst (snd y))) (filter rtrue rows).
Lemma trows1_cons y rest :
  trows1 (y :: rest) = if fst (fst y) then trows1 rest else (snd (fst y), fst (snd y)) :: trows1 rest.
Proof. destruct y as [[[|] c] B]; reflexivity. Qed.

(* the inferred instances of rows (conclusions, index): (tag, index) *)
Definition insts1 (rows : list (list nat * nat)) : list (nat * nat) :=
  flat_map (fun r => map (fun t => (t, snd r)) (fst r)) rows.
Lemma insts1_cons c i L x : In x (insts1 ((c, i) :: L)) <-> In x (map (fun tg => (tg, i)) c) \/ In x (insts1 L).
Proof. unfold insts1. cbn [flat_map fst snd]. apply in_app_iff. Qed.
Lemma in_insts1_rev L x : In x (insts1 (rev L)) <-> In x (insts1 L).
Proof.
  unfold insts1. rewrite !in_flat_map. split; intros [r0 [H1 H2]]; exists r0; (split; [|exact H2]).
  - apply in_rev. exact H1.
  - apply in_rev in H1. exact H1.
Qed.

Lemma existsb_filter1 {A} (f g : A -> bool) l : (forall x, f x = true -> g x = true) ->
  existsb f (filter g l) = existsb f l.
Proof.
  intros H. induction l as [|x l IH]; [reflexivity|]. simpl. destruct (g x) eqn:E; simpl; rewrite IH; [reflexivity|].
  destruct (f x) eqn:F; [|reflexivity]. rewrite (H x F) in E. discriminate.
Qed.

Section RootAll.
  Variable W : list elem.

  Lemma topk_good t P : kgood P (topk t).
  Proof.
    split; [apply topk_keeps|]. intros B f S. unfold topk. destruct f; [reflexivity|]. destruct (concl_now t S); reflexivity.
  Qed.

  (* a single rule at the root: no selector, every true row is inferred *)
  Lemma segI_leaf_out id cs c : forall rows S Send,
    SegI (inT (Leaf id cs c)) (topk (Leaf id cs c)) id (concl_now (Leaf id cs c)) rows S Send ->
    forall x, In x (insts1 (out Send)) <-> In x (insts1 (out S)) \/ In x (insts1 (trows1 rows)).
  Proof.
    induction rows as [|y rest IH]; intros S Send H x.
    - cbn [SegI] in H. destruct H as [Ho _]. rewrite Ho. simpl. tauto.
    - cbn [SegI] in H. destruct H as [S1 [A [Bf [C D]]]]. rewrite (IH _ _ D x). clear IH D.
      destruct A as [Ho _]. destruct y as [[f cc] B']. cbn [fst snd] in *. rewrite trows1_cons. cbn [fst snd].
      destruct f.
      + unfold topk. rewrite Ho. tauto.
      + unfold topk. rewrite (C eq_refl). rewrite insts1_cons. destruct cc as [|c0 cc'].
        * rewrite Ho. simpl. tauto.
        * cbn [out emit]. rewrite insts1_cons, Ho. tauto.
  Qed.

  Section Node.
    Variables (id : nat) (s : sel) (l r : tree).
    Let t := Node id s l r.
    Definition tent (e : seen_entry) : bool := match e with (_, tr, _, _) => tr end.
    Definition ent1 (x : list nat * nat) : seen_entry := (id, true, fst x, snd x).
    Definition rowE (x : list nat * nat) : list nat * nat := (union [] (fst x), snd x).
    Definition InvR (S : store) (E : list (list nat * nat)) : Prop :=
      rootsel S = id /\ filter tent (seen S) = map ent1 E /\ out S = map rowE E.

    Lemma seenb_true1 cx i S : seenb id true cx i S = existsb (entry_is id true cx i) (filter tent (seen S)).
    Proof.
      unfold seenb. symmetry. apply existsb_filter1. intros [[[n tr] c'] k'] H. unfold entry_is in H. simpl.
      apply andb_prop in H. destruct H as [H _]. apply andb_prop in H. destruct H as [H _].
      apply andb_prop in H. destruct H as [_ H]. destruct tr; [reflexivity|discriminate].
    Qed.

    Lemma segR_root : forall rows S Send E, InvR S E ->
      SegR (inT t) (topk t) id rows S Send ->
      exists E', InvR Send E' /\
                 forall x, In x (insts1 (map rowE E')) <->
                           In x (insts1 (map rowE E)) \/ In x (insts1 (trows1 (map norm rows))).
    Proof.
      induction rows as [|y rest IH]; intros S Send E [Hroot [Hseen Hout]] H.
      - cbn [SegR] in H. destruct H as [Ho [Hs [Hr _]]]. exists E. split; [split; [congruence|split; congruence]|].
        intros x. simpl. tauto.
      - cbn [SegR] in H. destruct H as [S' [cx [A [Bf [C [D Hrest]]]]]].
        destruct A as [Ho [Hs [Hr _]]].
        assert (HrS' : rootsel S' = id) by congruence.
        assert (HsS' : filter tent (seen S') = map ent1 E) by congruence.
        assert (HoS' : out S' = map rowE E) by congruence.
        destruct y as [[f cy] By]. cbn [fst snd] in *.
        set (U := update_conclusion id (fst By) cx S') in *.
        assert (HUflag : getb FLAG id U = f).
        { unfold getb, U. rewrite uc_cell by (left; unfold FLAG, DYN; lia). exact Bf. }
        rewrite HUflag in Hrest.
        cbn [map]. rewrite trows1_cons. unfold norm at 1 2 3. cbn [fst snd].
        destruct f.
        + (* a false row: whatever it records, nothing is inferred *)
          assert (HI : InvR (topk t By true U) E).
          { unfold topk. unfold U, update_conclusion. destruct cx as [|x0 cx']; [split; [|split]; assumption|].
            rewrite HrS', Nat.eqb_refl. rewrite Bf. cbn [negb].
            destruct (seenb id false (x0 :: cx') (fst By) S'); [split; [|split]; assumption|].
            split; [exact HrS'|]. split; [|exact HoS']. cbn [seen add_seen set filter tent]. exact HsS'. }
          destruct (IH _ Send E HI Hrest) as [E' [HI' Hx]]. exists E'. split; [exact HI'|]. exact Hx.
        + (* a true row *)
          specialize (D eq_refl). subst cx.
          unfold topk in Hrest. cbv iota in Hrest. change (concl_now t U) with (get DYN id U) in Hrest.
          unfold U, update_conclusion in Hrest. destruct cy as [|x0 cy'].
          * rewrite C in Hrest.
            destruct (IH _ Send E (conj HrS' (conj HsS' HoS')) Hrest) as [E' [HI' Hx]]. exists E'. split; [exact HI'|].
            intros x. rewrite Hx. cbn [union]. rewrite insts1_cons. simpl. tauto.
          * rewrite HrS', Nat.eqb_refl in Hrest. rewrite Bf in Hrest. cbn [negb] in Hrest.
            set (c := union [] (x0 :: cy')).
            assert (Hcne : c <> []) by (apply union_cons_nonempty).
            destruct (seenb id true (x0 :: cy') (fst By) S') eqn:Esn.
            -- (* the record is known: the row is dropped *)
               rewrite C in Hrest.
               destruct (IH _ Send E (conj HrS' (conj HsS' HoS')) Hrest) as [E' [HI' Hx]]. exists E'. split; [exact HI'|].
               intros x. rewrite Hx. rewrite insts1_cons.
               split; [tauto|]. intros [Hx0|[Hx0|Hx0]]; [tauto| |tauto]. left.
               apply in_map_iff in Hx0. destruct Hx0 as [tg [Hx0 Htg]]. subst x.
               rewrite seenb_true1, HsS' in Esn. apply existsb_exists in Esn. destruct Esn as [e0 [He0 Hm]].
               apply in_map_iff in He0. destruct He0 as [[cx0 i0] [He0 HinE]]. subst e0. unfold ent1, entry_is in Hm. cbn [fst snd] in Hm.
               apply andb_prop in Hm. destruct Hm as [Hm Hi]. apply andb_prop in Hm. destruct Hm as [_ Hse].
               apply Nat.eqb_eq in Hi. subst i0.
               assert (Htg' : In tg (x0 :: cy')) by (unfold c in Htg; apply union_in1 in Htg; destruct Htg as [[]|Htg]; exact Htg).
               unfold insts1. apply in_flat_map. exists (rowE (cx0, fst By)). split; [apply in_map; exact HinE|].
               unfold rowE. cbn [fst snd]. apply in_map_iff. exists tg. split; [reflexivity|].
               apply union_in1. right. apply (set_eqb_in1 _ _ Hse). exact Htg'.
            -- (* a new record: the row is inferred *)
               match type of Hrest with context [add_seen ?e ?S0] => set (U' := add_seen e S0) in * end.
               assert (HUdyn : get DYN id U' = c).
               { unfold U', add_seen. change (get DYN id (set DYN id (union (get DYN id S') (x0 :: cy')) S') = c).
                 rewrite get_set_same, C. reflexivity. }
               rewrite HUdyn in Hrest. destruct c as [|c0 c'] eqn:Ec; [congruence|].
               assert (HI : InvR (emit (c0 :: c', fst By) U') ((x0 :: cy', fst By) :: E)).
               { split; [exact HrS'|]. split.
                 - cbn [seen emit]. unfold U'. cbn [seen add_seen set filter tent map]. rewrite HsS'. reflexivity.
                 - cbn [out emit]. unfold U'. cbn [out add_seen set map]. rewrite HoS'. unfold rowE at 2. cbn [fst snd].
                   fold c. rewrite Ec. reflexivity. }
               destruct (IH _ Send _ HI Hrest) as [E' [HI' Hx]]. exists E'. split; [exact HI'|].
               intros x. rewrite Hx. cbn [map]. unfold rowE at 1. unfold norm. cbn [fst snd]. fold c. rewrite Ec.
               rewrite !insts1_cons. tauto.
    Qed.
  End Node.

  (* the whole run of every tree with pairwise distinct nodes, as a set of inferred instances *)
  Theorem run_all t : NoDup (ids t) ->
    forall x, In x (insts1 (run W t)) <-> In x (insts1 (trows1 (pes1 W t None))).
  Proof.
    intros Hnd x. unfold run.
    change (fun (ie : binding) (f : bool) (S : store) =>
              if f then S else match concl_now t S with [] => S | c => emit (c, fst ie) S end) with (topk t).
    rewrite in_insts1_rev.
    destruct t as [id cs c | id s l r].
    - destruct (leaf_seg W id cs c None (topk (Leaf id cs c)) (init_root id)) as [H _].
      + intros n _. split; reflexivity.
      + apply topk_good.
      + cbn [root_id]. rewrite (segI_leaf_out id cs c _ _ _ H x). simpl. tauto.
    - destruct (node_facts _ _ _ _ Hnd) as [Hidl [Hidr _]].
      destruct (raw_all W id s l r Hnd None (topk (Node id s l r)) (init_root id)) as [H _]; auto.
      + intros n _. split; reflexivity.
      + apply topk_good.
      + cbn [root_id].
        assert (HI0 : InvR id (init_root id) []) by (split; [reflexivity|split; reflexivity]).
        destruct (segR_root id s l r _ _ _ [] HI0 H) as [E' [[_ [_ Ho]] Hx]].
        rewrite Ho, Hx. cbn [pes1]. simpl. tauto.
  Qed.
End RootAll.
