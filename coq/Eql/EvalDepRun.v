(* C01 (flatten / nested sub-queries), proofs part 3: whole queries.  The rows of [runD] are exactly the answers of the
   Spec (Eql/EvalDepSpec.v: [answerD]) for quantifier-free main and sub-query conditions:
     complete  -- for every well-formed query;
     sound     -- when no variable the answer speaks about can be left without a value: plain variables have non-empty
                  domains and no generated variable has an empty range under an assignment that is admissible for the
                  variables declared before it (the empty-domain finding class C01-h / C01-h2 otherwise). *)
From Coq Require Import List ZArith Bool Arith Lia.
From Krrood Require Import Eql.Syntax Eql.Sat Eql.Eval Eql.EvalProofs Eql.RunProofs Eql.EvalDepSpec Eql.EvalDep
  Eql.EvalDepGeneric Eql.EvalDepProofs Eql.EvalQDefs.
Import ListNotations.

Lemma find_decl_none_undecl ds x : find_decl ds x = None -> undecl ds x.
Proof. intros H z g Hin ->. exact (in_find_decl _ _ _ Hin H). Qed.

Lemma hd_In {A} (d : A) l : l <> [] -> In (hd d l) l.
Proof. destruct l; [congruence|]. intros _. now left. Qed.

Lemma gen_vars_sub g x : In x (gen_vars g) -> In x (gen_allvars g).
Proof.
  destruct g as [e|z0 c]; simpl; auto. intros H. apply in_remove_var in H as [H _]. right.
  destruct c as [c|]; simpl in *; [|contradiction]. now apply fv_sub_vars.
Qed.

Fixpoint nodupb (l : list var) : bool :=
  match l with [] => true | x :: l' => negb (nmem x l') && nodupb l' end.

(* the sub-queries' own variables, and the sub-query each belongs to *)
Definition locals (DS : decls) : list var :=
  flat_map (fun d : var * gen => match snd d with SubOf z0 _ => [z0] | FlatOf _ => [] end) DS.
Fixpoint alias_of (ds : decls) (x : var) : option var :=
  match ds with
  | [] => None
  | (z, SubOf z0 _) :: ds' => if Nat.eqb x z0 then Some z else alias_of ds' x
  | _ :: ds' => alias_of ds' x
  end.
Definition norm (DS : decls) (rho : asg) : asg :=
  fun x => match alias_of DS x with Some z => rho z | None => rho x end.

(* a sub-query's own variable is local to it: it belongs to one sub-query and occurs nowhere else *)
Definition localb (DS : decls) (q : query) : bool :=
  nodupb (locals DS) &&
  forallb (fun x => negb (nmem x (locals DS)))
          (flat_map opnd_vars (q_sels q) ++ cond_vars_opt (q_cond q) ++ flat_map (fun d : var * gen => gen_vars (snd d)) DS).

Lemma alias_none DS x : ~ In x (locals DS) -> alias_of DS x = None.
Proof.
  induction DS as [|[z g] DS IH]; simpl; auto. intros H. destruct g as [e|z0 c]; simpl in H.
  - auto.
  - destruct (Nat.eqb_spec x z0) as [->|Hne]; [exfalso; apply H; now left|]. apply IH. intros Hin. apply H. now right.
Qed.

Lemma in_locals DS x : In x (locals DS) -> exists z c, In (z, SubOf x c) DS.
Proof.
  unfold locals. intros H. apply in_flat_map in H as ([z g] & Hin & Hx). simpl in Hx.
  destruct g as [e|z0 c]; [contradiction|]. destruct Hx as [<-|[]]. eauto.
Qed.

Lemma alias_some DS z z0 c : nodupb (locals DS) = true -> In (z, SubOf z0 c) DS -> alias_of DS z0 = Some z.
Proof.
  induction DS as [|[z1 g1] DS IH]; simpl; intros Hn Hin; [contradiction|].
  destruct g1 as [e1|z01 c1]; simpl in Hn.
  - destruct Hin as [[=]|Hin]. auto.
  - apply andb_prop in Hn as [Hn1 Hn2]. destruct Hin as [[= -> -> ->]|Hin].
    + now rewrite Nat.eqb_refl.
    + destruct (Nat.eqb_spec z0 z01) as [->|Hne]; [|auto].
      exfalso. apply negb_true_iff in Hn1. apply EvalQInv.nmem_false in Hn1. apply Hn1.
      unfold locals. apply in_flat_map. exists (z, SubOf z01 c). split; auto. simpl. auto.
Qed.

Section Run.
  Variable W : world.
  Variable D : domains.

  (* ---------- completing the bindings of a result to an assignment ---------- *)
  Definition base_fill (b : binds) : asg :=
    fun x => match lookup b x with Some v => v | None => hd (VI 0) (D x) end.
  Fixpoint fillD (ds : decls) (b : binds) : asg :=
    match ds with
    | [] => base_fill b
    | (z, g) :: ds' =>
        let r := fillD ds' b in
        upd r z (match lookup b z with Some v => v | None => hd (VI 0) (range W D r g) end)
    end.

  Lemma fillD_extends ds b : extends (fillD ds b) b.
  Proof.
    induction ds as [|[z g] ds IH]; simpl; intros x v Hl.
    - unfold base_fill. now rewrite Hl.
    - unfold upd. destruct (Nat.eqb_spec x z) as [->|Hne]; [now rewrite Hl|]. now apply IH.
  Qed.

  Lemma fillD_undecl pre ds b x : undecl pre x -> fillD (pre ++ ds) b x = fillD ds b x.
  Proof.
    induction pre as [|[z g] pre IH]; simpl; intros H; auto.
    rewrite upd_ne; [|apply (H z g); now left]. apply IH. intros z' g' Hin. apply (H z' g'). now right.
  Qed.

  Definition plain_ne (DS : decls) (M : list var) : Prop :=
    forall x, In x M -> find_decl DS x = None -> D x <> [].
  Definition ne_ranges (DS : decls) (M : list var) : Prop :=
    forall pre z g ds', DS = pre ++ (z, g) :: ds' -> forall rho,
      (forall x, In x M -> find_decl DS x = None -> In (rho x) (D x)) ->
      (forall z' g', In (z', g') ds' -> In (rho z') (range W D rho g')) ->
      range W D rho g <> [].

  Section Fill.
    Variable DS : decls.
    Variable M : list var.
    Variable b : binds.
    Hypothesis Hwf : wf_ds DS = true.
    Hypothesis Hb : BokD W D DS b.
    Hypothesis Hpne : plain_ne DS M.
    Hypothesis Hrne : ne_ranges DS M.
    Let rho := fillD DS b.

    Lemma fill_plain x : In x M -> find_decl DS x = None -> In (rho x) (D x).
    Proof.
      intros Hx Hp. unfold rho. rewrite <- (app_nil_r DS), fillD_undecl by (apply find_decl_none_undecl; exact Hp).
      simpl. unfold base_fill. destruct (lookup b x) eqn:E.
      - pose proof (Hb (fillD DS b) (fillD_extends DS b) x v E) as H. now rewrite Hp in H.
      - apply hd_In. apply Hpne; auto.
    Qed.

    Lemma fill_valid : forall ds pre, DS = pre ++ ds -> forall z g, In (z, g) ds -> In (rho z) (range W D rho g).
    Proof.
      induction ds as [|[z0 g0] ds IH]; intros pre Hds z g Hin; [contradiction|].
      assert (Hds' : DS = (pre ++ [(z0, g0)]) ++ ds) by (rewrite <- app_assoc; exact Hds).
      specialize (IH _ Hds').
      destruct Hin as [[= -> ->]|Hin]; [|eauto].
      assert (HwfDS' : wf_ds (pre ++ (z, g) :: ds) = true) by (rewrite <- Hds; exact Hwf).
      assert (Hwf2 : wf_ds ((z, g) :: ds) = true) by (eapply wf_ds_app_r; eauto).
      apply wf_ds_cons in Hwf2 as (Hg & _ & _).
      set (r := fillD ds b).
      assert (Er : range W D rho g = range W D r g).
      { apply range_ext. intros x Hx. unfold rho, r. rewrite Hds'. apply fillD_undecl.
        eapply undecl_lt; eauto. apply Hg. now apply gen_vars_sub. }
      assert (Ez : rho z = match lookup b z with Some v => v | None => hd (VI 0) (range W D r g) end).
      { unfold rho. rewrite Hds, fillD_undecl.
        - simpl. apply upd_eq.
        - intros z' g' Hin'. pose proof (wf_ds_pre_gt _ _ _ _ HwfDS' z' g' Hin'). lia. }
      destruct (lookup b z) eqn:E.
      - rewrite Ez. pose proof (Hb rho (fillD_extends DS b) z v E) as H.
        rewrite Hds, (find_decl_at _ _ _ _ HwfDS') in H. exact H.
      - rewrite Ez, Er. apply hd_In. rewrite <- Er.
        apply (Hrne pre z g ds Hds rho); [apply fill_plain|exact IH].
    Qed.
  End Fill.

  (* ---------- soundness ---------- *)
  Theorem runD_sound DS q row :
    wf_ds DS = true -> wf_sub DS = true -> qfree_opt (q_cond q) = true ->
    plain_ne DS (mentioned DS q) -> ne_ranges DS (mentioned DS q) ->
    In row (runD W D DS q) -> answerD W D DS q row.
  Proof.
    intros Hwf Hsub Q Hpne Hrne Hin. unfold runD, runG in Hin.
    apply in_flat_map in Hin as (b1 & Hb1 & Hrow).
    pose proof (evv_sound W D DS Hwf (wf_sub_q_of _ Hsub)) as Hs.
    assert (Hk : forall x b b' v, undecl [] x -> In (b', v) (evv W D DS x b) -> BokD W D DS b -> BokD W D DS b')
      by (intros; eapply (evv_keep W D DS Hwf Hsub DS [] eq_refl); eauto).
    assert (Hun : forall x, undecl [] x) by (intros x z g []).
    assert (HB1 : BokD W D DS b1).
    { apply (true_resultsG_keep W (envD W D DS) (BokD W D DS) (undecl []) Hk (q_cond q) [] b1 Q); auto. apply BokD_nil. }
    destruct (selectG_sound W (envD W D DS) (BokD W D DS) (undecl []) Hs Hk (q_sels q) (fun x _ => Hun x) b1 row Hrow HB1)
      as (b' & HB' & Hall).
    set (rho := fillD DS b').
    destruct (Hall rho (fillD_extends DS b')) as [He1 ->].
    destruct (true_resultsG_sound W D (envD W D DS) Hs (q_cond q) [] b1 Q Hb1 rho He1) as [_ Hsat].
    exists rho. split; [|split; auto].
    - split.
      + intros x Hx Hp. apply (fill_plain DS (mentioned DS q) b' HB' Hpne); auto.
      + intros z g Hz _. apply (fill_valid DS (mentioned DS q) b' Hwf HB' Hpne Hrne DS [] eq_refl z g Hz).
    - destruct (q_cond q) as [c|]; simpl in *; auto. now rewrite satD_qfree.
  Qed.

  (* ---------- completeness ---------- *)
  Theorem runD_complete DS q row :
    wf_ds DS = true -> wf_sub DS = true -> localb DS q = true -> qfree_opt (q_cond q) = true ->
    answerD W D DS q row -> In row (runD W D DS q).
  Proof.
    intros Hwf Hsub Hloc Q (rho & [Hv1 Hv2] & Hsat & ->).
    unfold localb in Hloc. apply andb_prop in Hloc as [Hnd Hloc]. rewrite forallb_forall in Hloc.
    assert (HL : forall x, In x (flat_map opnd_vars (q_sels q) ++ cond_vars_opt (q_cond q) ++
                                 flat_map (fun d : var * gen => gen_vars (snd d)) DS) -> ~ In x (locals DS)).
    { intros x Hx. specialize (Hloc x Hx). apply negb_true_iff in Hloc. now apply EvalQInv.nmem_false. }
    set (rho' := norm DS rho).
    assert (F0 : forall x, ~ In x (locals DS) -> rho' x = rho x).
    { intros x Hx. unfold rho', norm. now rewrite alias_none. }
    assert (F1 : forall z g, In (z, g) DS -> ~ In z (locals DS)).
    { intros z g Hz Hl. apply in_locals in Hl as (z' & c' & Hl).
      destruct (wf_sub_in DS z' z c' Hsub Hl) as [_ Hn]. exact (in_find_decl _ _ _ Hz Hn). }
    assert (HgenL : forall z g x, In (z, g) DS -> In x (gen_vars g) -> ~ In x (locals DS)).
    { intros z g x Hz Hx. apply HL. apply in_or_app. right. apply in_or_app. right.
      apply in_flat_map. exists (z, g). auto. }
    assert (HQ : qvarsD_opt (q_cond q) = []).
    { destruct (q_cond q) as [c|]; simpl in *; auto. now apply qvarsD_qfree. }
    rewrite HQ in Hv2.
    assert (HM3 : forall z g x, In (z, g) DS -> In x (gen_vars g) -> In x (mentioned DS q)).
    { intros z g x Hz Hx. unfold mentioned. apply in_or_app. right. apply in_or_app. right.
      apply in_flat_map. exists (z, g). auto. }
    assert (Hgood : GoodD W D DS rho').
    { split; [|split].
      - intros z g x Hz Hx Hp. rewrite F0 by (eapply HgenL; eauto). apply Hv1; eauto.
      - intros z g Hz. rewrite F0 by (eapply F1; eauto).
        rewrite (range_ext W D rho' rho g) by (intros x Hx; apply F0; eapply HgenL; eauto). apply Hv2; auto.
      - intros z z0 c Hz. rewrite (F0 z) by (eapply F1; eauto). unfold rho', norm.
        now rewrite (alias_some DS z z0 c Hnd Hz). }
    assert (Hc : forall x b rho0, GoodD W D DS rho0 -> (undecl [] x /\ InD D DS rho0 x) -> extends rho0 b ->
                   exists b', In (b', rho0 x) (evv W D DS x b) /\ extends rho0 b').
    { intros x b rho0 G [U I] E. eapply (evv_complete W D DS Hwf Hsub DS [] eq_refl); eauto. }
    assert (Hun : forall x, undecl [] x) by (intros x z g []).
    assert (HcondM : forall x, In x (cond_vars_opt (q_cond q)) -> In x (mentioned DS q)).
    { intros x Hx. unfold mentioned. apply in_or_app. right. apply in_or_app. left.
      destruct (q_cond q) as [c|]; simpl in *; [|contradiction]. now rewrite fvD_qfree. }
    assert (Hsat' : sat_opt W D rho' (q_cond q) = true).
    { rewrite <- Hsat. destruct (q_cond q) as [c|] eqn:Ec; simpl in *; auto. rewrite satD_qfree by exact Q.
      apply sat_ext. intros x Hx. apply F0. apply HL. apply in_or_app. right. apply in_or_app. left.
      simpl. now apply fv_sub_vars. }
    destruct (true_resultsG_complete W D (envD W D DS) (GoodD W D DS) (fun r x => undecl [] x /\ InD D DS r x) Hc
                (q_cond q) [] rho' Q Hgood) as (b1 & Hb1 & He1); auto.
    { intros x Hx. split; auto. intros Hp. rewrite F0.
      - apply Hv1; auto.
      - apply HL. apply in_or_app. right. apply in_or_app. now left. }
    { apply extends_nil. }
    unfold runD, runG. apply in_flat_map. exists b1. split; auto.
    rewrite (map_den_ext W rho rho' (q_sels q)).
    - apply (selectG_complete W (envD W D DS) (GoodD W D DS) (fun r x => undecl [] x /\ InD D DS r x) Hc); auto.
      intros x Hx. split; auto. intros Hp. rewrite F0.
      + apply Hv1; auto. unfold mentioned. apply in_or_app. now left.
      + apply HL. apply in_or_app. now left.
    - intros x Hx. symmetry. apply F0. apply HL. apply in_or_app. now left.
  Qed.

  Theorem runD_exact DS q :
    wf_ds DS = true -> wf_sub DS = true -> localb DS q = true -> qfree_opt (q_cond q) = true ->
    plain_ne DS (mentioned DS q) -> ne_ranges DS (mentioned DS q) ->
    forall row, In row (runD W D DS q) <-> answerD W D DS q row.
  Proof. intros H1 H2 H3 H4 H5 H6 row. split; [apply runD_sound|apply runD_complete]; auto. Qed.

  (* ---------- the condition-level invariant behind both: results are a cylinder cover of the assignment space ---------- *)
  Theorem evalD_cover_sound DS c pol b b' : wf_ds DS = true -> wf_sub DS = true -> qfree c = true ->
    In (b', negb pol) (evalD W D DS c b) -> forall rho, extends rho b' -> sat W D rho c = pol.
  Proof.
    intros Hwf Hsub Q. apply (evalG_sound W D (envD W D DS) (evv_sound W D DS Hwf (wf_sub_q_of _ Hsub)) c Q).
  Qed.

  Theorem evalD_cover_complete DS c : wf_ds DS = true -> wf_sub DS = true -> qfree c = true -> forall b rho,
    GoodD W D DS rho -> (forall x, In x (cond_vars c) -> InD D DS rho x) -> extends rho b ->
    exists b', In (b', negb (sat W D rho c)) (evalD W D DS c b) /\ extends rho b'.
  Proof.
    intros Hwf Hsub Q b rho Hg Hi He.
    apply (evalG_complete W D (envD W D DS) (GoodD W D DS) (fun r x => undecl [] x /\ InD D DS r x)); auto.
    - intros x b0 rho0 G [U I] E. eapply (evv_complete W D DS Hwf Hsub DS [] eq_refl); eauto.
    - intros x Hx. split; auto. intros z g [].
  Qed.
End Run.
