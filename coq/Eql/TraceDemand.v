(* C10 -- the demand bound: inside F10 (quantifier-free, union-free, every selected variable bound by every true result),
   at every moment a result is handed out, a domain has been exhausted only if a variable that was used EARLIER has been
   pulled from at least twice (its loop moved past its first element) -- what a lazy nested-loop enumerator does.
   Proof: a Hoare-style invariant through the CPS evaluator ([Pre] holds whenever a continuation is called, [Post] relates
   the log before and after a continuation returns without stopping). *)
From Coq Require Import List ZArith Bool Arith Lia.
From Krrood Require Import Eql.Syntax Eql.Sat Eql.Eval Eql.TraceSpec Eql.Trace Eql.TraceProofs.
Import ListNotations.
Open Scope nat_scope.

(* ---------- counters under cons / append ---------- *)
Lemma npulls_cons x e s : npulls x (e :: s) = (if is_pull x e then 1 else 0) + npulls x s.
Proof. unfold npulls. simpl. destruct (is_pull x e); reflexivity. Qed.
Lemma ended_cons x e s : ended x (e :: s) = is_end x e || ended x s.
Proof. reflexivity. Qed.
Lemma ended_app x a b : ended x (a ++ b) = ended x a || ended x b.
Proof. unfold ended. apply existsb_app. Qed.
Lemma ended_Ext x s s' : Ext s s' -> ended x s = true -> ended x s' = true.
Proof. intros [l ->] H. rewrite ended_app, H. apply orb_true_r. Qed.
Lemma ended_Ext_false x s s' : Ext s s' -> ended x s' = false -> ended x s = false.
Proof. intros E H. destruct (ended x s) eqn:Hs; auto. rewrite (ended_Ext x s s' E Hs) in H. discriminate. Qed.

Lemma npulls_touch_other y x i s : y <> x -> npulls y (touch x i s) = npulls y s.
Proof.
  intros N. unfold touch. destruct (i <? npulls x s); auto. rewrite npulls_cons. simpl.
  destruct (Nat.eqb_spec y x); [contradiction | reflexivity].
Qed.
Lemma ended_touch z x i s : ended z (touch x i s) = ended z s.
Proof. unfold touch. destruct (i <? npulls x s); reflexivity. Qed.
Lemma npulls_touch_gt x i s : i <= npulls x s -> i < npulls x (touch x i s).
Proof.
  intros H. unfold touch. destruct (Nat.ltb_spec i (npulls x s)); auto.
  rewrite npulls_cons. simpl. rewrite Nat.eqb_refl. lia.
Qed.
Lemma npulls_touch_eq x i s : npulls x s = i -> npulls x (touch x i s) = S i.
Proof.
  intros H. unfold touch. destruct (Nat.ltb_spec i (npulls x s)); [lia|].
  rewrite npulls_cons. simpl. rewrite Nat.eqb_refl. lia.
Qed.
Lemma npulls_finish y x s : npulls y (finish x s) = npulls y s.
Proof. unfold finish. destruct (ended x s); auto. Qed.
Lemma ended_finish_other y x s : y <> x -> ended y (finish x s) = ended y s.
Proof.
  intros N. unfold finish. destruct (ended x s); auto. rewrite ended_cons. simpl.
  destruct (Nat.eqb_spec y x); [contradiction | reflexivity].
Qed.
Lemma ended_finish_self x s : ended x (finish x s) = true.
Proof. unfold finish. destruct (ended x s) eqn:H; auto. rewrite ended_cons. simpl. now rewrite Nat.eqb_refl. Qed.
Lemma npulls_get y v a s : npulls y (get_ev v a s) = npulls y s.
Proof. unfold get_ev. destruct v; auto. Qed.
Lemma ended_get y v a s : ended y (get_ev v a s) = ended y s.
Proof. unfold get_ev. destruct v; auto. Qed.

(* ---------- the invariant ---------- *)
Definition opn (x : var) (s : store) : Prop := 0 < npulls x s /\ ended x s = false.
Definition bef (y x : var) (s : store) : Prop :=
  exists s1 s2, s = s2 ++ s1 /\ npulls x s1 = 0 /\ 1 <= npulls y s1.
Definition J (s : store) : Prop := forall x, ended x s = true -> exists y, bef y x s /\ 2 <= npulls y s.
Definition AllY (s : store) : Prop := forall s2 r s1, s = s2 ++ Yield r :: s1 -> J s1.
Definition OB (b : binds) (s : store) : Prop := forall x, opn x s -> bound b x = true.
Definition Pre (b : binds) (s : store) : Prop := OB b s /\ J s /\ AllY s.
Definition Post (s s' : store) : Prop :=
  Ext s s' /\
  (forall x, opn x s -> npulls x s' = npulls x s /\ ended x s' = false) /\
  (forall x, ~ opn x s -> ~ opn x s') /\
  (AllY s -> AllY s').
Definition Good (s : store) (o : store * signal) : Prop :=
  (AllY s -> AllY (fst o)) /\ (snd o = Continue -> Post s (fst o)).

Lemma opn_dec x s : {opn x s} + {~ opn x s}.
Proof.
  unfold opn. destruct (npulls x s) as [|n]; [right; lia|].
  destruct (ended x s); [right; intros [_ H]; discriminate | left; split; [lia | reflexivity]].
Qed.
Lemma not_opn x s : ~ opn x s -> npulls x s = 0 \/ ended x s = true.
Proof. unfold opn. intros H. destruct (npulls x s) as [|n]; auto. destruct (ended x s); auto. exfalso. apply H. split; [lia|auto]. Qed.

Lemma bef_Ext y x s s' : Ext s s' -> bef y x s -> bef y x s'.
Proof. intros [l ->] (s1 & s2 & -> & H1 & H2). exists s1, (l ++ s2). split; [now rewrite app_assoc | auto]. Qed.

Lemma J_Ext_same s s' : Ext s s' -> (forall x, ended x s' = ended x s) -> J s -> J s'.
Proof.
  intros E He H x Hx. rewrite He in Hx. destruct (H x Hx) as [y [Hb Hn]].
  exists y. split; [eapply bef_Ext; eauto|]. pose proof (npulls_Ext y _ _ E). lia.
Qed.

Lemma AllY_nil : AllY [].
Proof. intros s2 r s1 H. destruct s2; discriminate. Qed.
Lemma AllY_nonyield e s : is_yield e = false -> AllY s -> AllY (e :: s).
Proof.
  intros He H s2 r s1 Heq. destruct s2 as [|e' s2]; simpl in Heq; inversion Heq; subst.
  - discriminate.
  - eapply H; eauto.
Qed.
Lemma AllY_yield r s : J s -> AllY s -> AllY (Yield r :: s).
Proof.
  intros HJ H s2 r' s1 Heq. destruct s2 as [|e' s2]; simpl in Heq; inversion Heq; subst; auto.
  eapply H; eauto.
Qed.
Lemma AllY_touch x i s : AllY s -> AllY (touch x i s).
Proof. unfold touch. destruct (i <? npulls x s); auto. apply AllY_nonyield; auto. Qed.
Lemma AllY_finish x s : AllY s -> AllY (finish x s).
Proof. unfold finish. destruct (ended x s); auto. apply AllY_nonyield; auto. Qed.
Lemma AllY_get v a s : AllY s -> AllY (get_ev v a s).
Proof. unfold get_ev. destruct v; auto. apply AllY_nonyield; auto. Qed.

Lemma Post_refl s : Post s s.
Proof. split; [apply Ext_refl|]. split; [intros x [H1 H2]; auto|]. split; auto. Qed.
Lemma Post_trans a b c : Post a b -> Post b c -> Post a c.
Proof.
  intros (E1 & A1 & B1 & C1) (E2 & A2 & B2 & C2). split; [eapply Ext_trans; eauto|]. split; [|split; auto].
  intros x Hx. destruct (A1 x Hx) as [H1 H2].
  assert (Hb : opn x b) by (destruct Hx; split; [lia | auto]).
  destruct (A2 x Hb) as [H3 H4]. split; [lia | auto].
Qed.
(* events that touch no generator *)
Lemma Post_same s s' :
  Ext s s' -> (forall x, npulls x s' = npulls x s) -> (forall x, ended x s' = ended x s) -> (AllY s -> AllY s') -> Post s s'.
Proof.
  intros E Hn He Ha. split; auto. split; [|split; auto].
  - intros x [H1 H2]. rewrite Hn, He. auto.
  - intros x H [H1 H2]. apply H. rewrite Hn in H1. rewrite He in H2. split; auto.
Qed.
Lemma Post_get v a s : Post s (get_ev v a s).
Proof.
  apply Post_same; [apply Ext_get | intros; apply npulls_get | intros; apply ended_get | apply AllY_get].
Qed.
Lemma Pre_get b v a s : Pre b s -> Pre b (get_ev v a s).
Proof.
  intros (H1 & H2 & H3). split; [|split].
  - intros x [Hx1 Hx2]. apply H1. rewrite npulls_get in Hx1. rewrite ended_get in Hx2. split; auto.
  - apply (J_Ext_same s); auto; [apply Ext_get | intros; apply ended_get].
  - apply AllY_get; auto.
Qed.

Lemma Good_shift s0 s o : Post s0 s -> Good s o -> Good s0 o.
Proof.
  intros HP [G1 G2]. split.
  - intros H. apply G1. destruct HP as (_ & _ & _ & HA). auto.
  - intros H. eapply Post_trans; eauto.
Qed.
Lemma Good_andthen s (o : store * signal) f :
  Good s o -> (forall s1, Post s s1 -> Good s1 (f s1)) -> Good s (andthen o f).
Proof.
  destruct o as [s1 [|]]; simpl; intros [G1 G2] Hf; simpl in *.
  - eapply Good_shift; [apply G2; reflexivity|]. apply Hf. apply G2. reflexivity.
  - split; simpl; auto.
Qed.
Lemma Good_ret s : Good s (s, Continue).
Proof. split; simpl; auto. intros _. apply Post_refl. Qed.
