(* C10 -- the demand bound: inside F10 (quantifier-free, union-free, every selected variable bound by every true result),
   at every moment a result is handed out, a domain has been exhausted only if a variable that was used EARLIER has been
   pulled from at least twice (its loop moved past its first element) -- what a lazy nested-loop enumerator does.
   Proof: a Hoare-style invariant through the CPS evaluator ([Pre] holds whenever a continuation is called, [Post] relates
   the log before and after a continuation returns without stopping). *)
From Coq Require Import List ZArith Bool Arith Lia.
From Krrood Require Import Eql.Syntax Eql.Sat Eql.Eval Eql.TraceSpec Eql.Trace Eql.TraceProofs.
Import ListNotations.
Open Scope nat_scope.

(* ---------- counters under cons / append ---------- *)
Lemma npulls_cons x e s : npulls x (e :: s) = (if is_pull x e then 1 else 0) + npulls x s.
Proof. unfold npulls. simpl. destruct (is_pull x e); reflexivity. Qed.
Lemma ended_cons x e s : ended x (e :: s) = is_end x e || ended x s.
Proof. reflexivity. Qed.
Lemma ended_app x a b : ended x (a ++ b) = ended x a || ended x b.
Proof. unfold ended. apply existsb_app. Qed.
Lemma ended_Ext x s s' : Ext s s' -> ended x s = true -> ended x s' = true.
Proof. intros [l ->] H. rewrite ended_app, H. apply orb_true_r. Qed.
Lemma ended_Ext_false x s s' : Ext s s' -> ended x s' = false -> ended x s = false.
Proof. intros E H. destruct (ended x s) eqn:Hs; auto. rewrite (ended_Ext x s s' E Hs) in H. discriminate. Qed.

Lemma npulls_touch_other y x i s : y <> x -> npulls y (touch x i s) = npulls y s.
Proof.
  intros N. unfold touch. destruct (i <? npulls x s); auto. rewrite npulls_cons. simpl.
  destruct (Nat.eqb_spec y x); [contradiction | reflexivity].
Qed.
Lemma ended_touch z x i s : ended z (touch x i s) = ended z s.
Proof. unfold touch. destruct (i <? npulls x s); reflexivity. Qed.
Lemma npulls_touch_gt x i s : i <= npulls x s -> i < npulls x (touch x i s).
Proof.
  intros H. unfold touch. destruct (Nat.ltb_spec i (npulls x s)); auto.
  rewrite npulls_cons. simpl. rewrite Nat.eqb_refl. lia.
Qed.
Lemma npulls_touch_eq x i s : npulls x s = i -> npulls x (touch x i s) = S i.
Proof.
  intros H. unfold touch. destruct (Nat.ltb_spec i (npulls x s)); [lia|].
  rewrite npulls_cons. simpl. rewrite Nat.eqb_refl. lia.
Qed.
Lemma npulls_finish y x s : npulls y (finish x s) = npulls y s.
Proof. unfold finish. destruct (ended x s); auto. Qed.
Lemma ended_finish_other y x s : y <> x -> ended y (finish x s) = ended y s.
Proof.
  intros N. unfold finish. destruct (ended x s); auto. rewrite ended_cons. simpl.
  destruct (Nat.eqb_spec y x); [contradiction | reflexivity].
Qed.
Lemma ended_finish_self x s : ended x (finish x s) = true.
Proof. unfold finish. destruct (ended x s) eqn:H; auto. rewrite ended_cons. simpl. now rewrite Nat.eqb_refl. Qed.
Lemma npulls_get y v a s : npulls y (get_ev v a s) = npulls y s.
Proof. unfold get_ev. destruct v; auto. Qed.
Lemma ended_get y v a s : ended y (get_ev v a s) = ended y s.
Proof. unfold get_ev. destruct v; auto. Qed.

(* ---------- the invariant ---------- *)
Definition opn (x : var) (s : store) : Prop := 0 < npulls x s /\ ended x s = false.
Definition bef (y x : var) (s : store) : Prop :=
  exists s1 s2, s = s2 ++ s1 /\ npulls x s1 = 0 /\ 1 <= npulls y s1.
(* [xmt x s]: x was already exhausted when the second pass of some Union began *)
Definition xmt (x : var) (s : store) : Prop := exists s2 s1, s = s2 ++ Pass :: s1 /\ ended x s1 = true.
Definition J (s : store) : Prop :=
  forall x, ended x s = true -> xmt x s \/ exists y, bef y x s /\ 2 <= npulls y s.
Definition AllY (s : store) : Prop := forall s2 r s1, s = s2 ++ Yield r :: s1 -> J s1.
Definition OB (b : binds) (s : store) : Prop := forall x, opn x s -> bound b x = true.
Definition Pre (b : binds) (s : store) : Prop := OB b s /\ J s /\ AllY s.
Definition Post (s s' : store) : Prop :=
  Ext s s' /\
  (forall x, opn x s -> npulls x s' = npulls x s /\ ended x s' = false) /\
  (forall x, ~ opn x s -> ~ opn x s') /\
  (AllY s -> AllY s').
Definition Good (s : store) (o : store * signal) : Prop :=
  (AllY s -> AllY (fst o)) /\ (snd o = Continue -> Post s (fst o)).

Lemma opn_dec x s : {opn x s} + {~ opn x s}.
Proof.
  unfold opn. destruct (npulls x s) as [|n]; [right; lia|].
  destruct (ended x s); [right; intros [_ H]; discriminate | left; split; [lia | reflexivity]].
Qed.
Lemma not_opn x s : ~ opn x s -> npulls x s = 0 \/ ended x s = true.
Proof. unfold opn. intros H. destruct (npulls x s) as [|n]; auto. destruct (ended x s); auto. exfalso. apply H. split; [lia|auto]. Qed.

Lemma bef_Ext y x s s' : Ext s s' -> bef y x s -> bef y x s'.
Proof. intros [l ->] (s1 & s2 & -> & H1 & H2). exists s1, (l ++ s2). split; [now rewrite app_assoc | auto]. Qed.

Lemma xmt_Ext x s s' : Ext s s' -> xmt x s -> xmt x s'.
Proof. intros [l ->] (s2 & s1 & -> & H). exists (l ++ s2), s1. split; [now rewrite app_assoc | auto]. Qed.
Lemma J_Ext_same s s' : Ext s s' -> (forall x, ended x s' = ended x s) -> J s -> J s'.
Proof.
  intros E He H x Hx. rewrite He in Hx. destruct (H x Hx) as [Hm|[y [Hb Hn]]].
  - left. eapply xmt_Ext; eauto.
  - right. exists y. split; [eapply bef_Ext; eauto|]. pose proof (npulls_Ext y _ _ E). lia.
Qed.

Lemma AllY_nil : AllY [].
Proof. intros s2 r s1 H. destruct s2; discriminate. Qed.
Lemma AllY_nonyield e s : is_yield e = false -> AllY s -> AllY (e :: s).
Proof.
  intros He H s2 r s1 Heq. destruct s2 as [|e' s2]; simpl in Heq; inversion Heq; subst.
  - discriminate.
  - eapply H; eauto.
Qed.
Lemma AllY_yield r s : J s -> AllY s -> AllY (Yield r :: s).
Proof.
  intros HJ H s2 r' s1 Heq. destruct s2 as [|e' s2]; simpl in Heq; inversion Heq; subst; auto.
  eapply H; eauto.
Qed.
Lemma AllY_touch x i s : AllY s -> AllY (touch x i s).
Proof. unfold touch. destruct (i <? npulls x s); auto. apply AllY_nonyield; auto. Qed.
Lemma AllY_finish x s : AllY s -> AllY (finish x s).
Proof. unfold finish. destruct (ended x s); auto. apply AllY_nonyield; auto. Qed.
Lemma AllY_get v a s : AllY s -> AllY (get_ev v a s).
Proof. unfold get_ev. destruct v; auto. apply AllY_nonyield; auto. Qed.

Lemma Post_refl s : Post s s.
Proof. split; [apply Ext_refl|]. split; [intros x [H1 H2]; auto|]. split; auto. Qed.
Lemma Post_trans a b c : Post a b -> Post b c -> Post a c.
Proof.
  intros (E1 & A1 & B1 & C1) (E2 & A2 & B2 & C2). split; [eapply Ext_trans; eauto|]. split; [|split; auto].
  intros x Hx. destruct (A1 x Hx) as [H1 H2].
  assert (Hb : opn x b) by (destruct Hx; split; [lia | auto]).
  destruct (A2 x Hb) as [H3 H4]. split; [lia | auto].
Qed.
(* events that touch no generator *)
Lemma Post_same s s' :
  Ext s s' -> (forall x, npulls x s' = npulls x s) -> (forall x, ended x s' = ended x s) -> (AllY s -> AllY s') -> Post s s'.
Proof.
  intros E Hn He Ha. split; auto. split; [|split; auto].
  - intros x [H1 H2]. rewrite Hn, He. auto.
  - intros x H [H1 H2]. apply H. rewrite Hn in H1. rewrite He in H2. split; auto.
Qed.
Lemma Post_get v a s : Post s (get_ev v a s).
Proof.
  apply Post_same; [apply Ext_get | intros; apply npulls_get | intros; apply ended_get | apply AllY_get].
Qed.
Lemma Pre_get b v a s : Pre b s -> Pre b (get_ev v a s).
Proof.
  intros (H1 & H2 & H3). split; [|split].
  - intros x [Hx1 Hx2]. apply H1. rewrite npulls_get in Hx1. rewrite ended_get in Hx2. split; auto.
  - apply (J_Ext_same s); auto; [apply Ext_get | intros; apply ended_get].
  - apply AllY_get; auto.
Qed.

Lemma Good_shift s0 s o : Post s0 s -> Good s o -> Good s0 o.
Proof.
  intros HP [G1 G2]. split.
  - intros H. apply G1. destruct HP as (_ & _ & _ & HA). auto.
  - intros H. eapply Post_trans; eauto.
Qed.
Lemma Good_andthen s (o : store * signal) f :
  Good s o -> (forall s1, Post s s1 -> Good s1 (f s1)) -> Good s (andthen o f).
Proof.
  destruct o as [s1 [|]]; simpl; intros [G1 G2] Hf; simpl in *.
  - eapply Good_shift; [apply G2; reflexivity|]. apply Hf. apply G2. reflexivity.
  - split; simpl; auto.
Qed.
Lemma Good_ret s : Good s (s, Continue).
Proof. split; simpl; auto. intros _. apply Post_refl. Qed.

Lemma bound_cons x v b y : bound ((x, v) :: b) y = Nat.eqb y x || bound b y.
Proof. unfold bound. simpl. destruct (Nat.eqb y x); reflexivity. Qed.

Section Demand.
  Variable W : world.
  Variable D : domains.

  (* loop invariant of the enumeration of x started in state s, standing before index i in state s0 *)
  Definition LI (x : var) (s : store) (i : nat) (s0 : store) : Prop :=
    Ext s s0 /\ (i = 0 -> s0 = s) /\ (1 <= i -> Ext (touch x 0 s) s0) /\
    (forall y, y <> x -> (opn y s -> npulls y s0 = npulls y s /\ ended y s0 = false) /\ (~ opn y s -> ~ opn y s0)) /\
    (ended x s = false -> npulls x s0 = i /\ ended x s0 = false) /\
    (forall z, ended z s0 = true -> ended z s = true \/ (1 <= i /\ z <> x /\ npulls z s = 0)) /\
    (AllY s -> AllY s0) /\ i <= npulls x s0.

  Lemma enum_loop x b (k : val -> store -> store * signal) s :
    lookup b x = None -> Pre b s -> ~ opn x s ->
    (forall v s0, Pre ((x, v) :: b) s0 -> Good s0 (k v s0)) ->
    forall l i s0, LI x s i s0 ->
      let o := each (fun iv s1 => k (snd iv) (touch x (fst iv) s1)) (combine (seq i (length l)) l) s0 in
      (AllY s -> AllY (fst o)) /\ (snd o = Continue -> LI x s (i + length l) (fst o)).
  Proof.
    intros Hx (HOB & HJ & HA) Hnx Hk.
    induction l as [|v l IH]; intros i s0 HLI; simpl.
    - split; [apply HLI | intros _; now rewrite Nat.add_0_r].
    - destruct HLI as (E0 & Z0 & E1 & Oth & Xst & Endd & All0 & Ile).
      set (s1 := touch x i s0).
      assert (F1 : Ext s0 s1) by apply Ext_touch.
      assert (F1s : Ext s s1) by (eapply Ext_trans; eauto).
      assert (F2 : i < npulls x s1) by (apply npulls_touch_gt; auto).
      assert (F3 : forall y, y <> x -> npulls y s1 = npulls y s0) by (intros; apply npulls_touch_other; auto).
      assert (F4 : forall z, ended z s1 = ended z s0) by (intros; apply ended_touch).
      assert (HPre : Pre ((x, v) :: b) s1).
      { split; [|split].
        - intros y [Hy1 Hy2]. rewrite bound_cons. destruct (Nat.eqb_spec y x) as [|N]; simpl; auto.
          rewrite (F3 y N) in Hy1. rewrite F4 in Hy2.
          destruct (opn_dec y s) as [Ho|Hn]; [apply HOB; auto|].
          exfalso. destruct (Oth y N) as [_ O2]. apply (O2 Hn). split; auto.
        - intros z Hz. rewrite F4 in Hz. destruct (Endd z Hz) as [Hs | (Hi & Hzx & Hzn)].
          + destruct (HJ z Hs) as [Hm|[y [Hb Hn]]]; [left; eapply xmt_Ext; eauto|].
            right. exists y. split; [eapply bef_Ext; eauto|].
            pose proof (npulls_Ext y _ _ F1s). lia.
          + right. exists x. split; [|lia].
            destruct (E1 Hi) as [l0 Hl0]. destruct F1 as [l1 Hl1].
            exists (touch x 0 s), (l1 ++ l0). split; [|split].
            * rewrite Hl1, Hl0. now rewrite app_assoc.
            * rewrite npulls_touch_other; auto.
            * pose proof (npulls_touch_gt x 0 s). lia.
        - apply AllY_touch; auto. }
      destruct (Hk v s1 HPre) as [G1 G2].
      destruct (k v s1) as [s2 [|]] eqn:Hkv; simpl in *.
      + (* the consumer continues *)
        destruct (G2 eq_refl) as (PE & PA & PB & PC).
        replace (i + S (length l)) with (S i + length l) by lia.
        assert (N1 : Ext s s2) by (eapply Ext_trans; eauto).
        assert (N2 : S i = 0 -> s2 = s) by (intros H; discriminate).
        assert (N3 : 1 <= S i -> Ext (touch x 0 s) s2).
        { intros _. destruct i as [|i'].
          - unfold s1 in PE. rewrite (Z0 eq_refl) in PE. exact PE.
          - eapply Ext_trans; [apply E1; lia|]. eapply Ext_trans; eauto. }
        assert (N4 : forall y, y <> x -> (opn y s -> npulls y s2 = npulls y s /\ ended y s2 = false) /\ (~ opn y s -> ~ opn y s2)).
        { intros y N. destruct (Oth y N) as [O1 O2]. split.
          - intros Ho. destruct (O1 Ho) as [A1 A2].
            assert (Ho1 : opn y s1) by (split; [rewrite F3, A1; auto; apply Ho | rewrite F4; auto]).
            destruct (PA y Ho1) as [B1 B2]. split; auto. rewrite B1, F3, A1; auto.
          - intros Hn. apply PB. intros [C1 C2]. apply (O2 Hn).
            rewrite F3 in C1 by auto. rewrite F4 in C2. split; auto. }
        assert (N5 : ended x s = false -> npulls x s2 = S i /\ ended x s2 = false).
        { intros H. destruct (Xst H) as [X1 X2].
          assert (Ho1 : opn x s1) by (split; [unfold s1; rewrite (npulls_touch_eq x i s0 X1); lia | rewrite F4; auto]).
          destruct (PA x Ho1) as [B1 B2]. split; auto. rewrite B1. unfold s1. apply npulls_touch_eq; auto. }
        assert (N6 : forall z, ended z s2 = true -> ended z s = true \/ (1 <= S i /\ z <> x /\ npulls z s = 0)).
        { intros z Hz. destruct (ended z s1) eqn:Hz1.
          - rewrite F4 in Hz1. destruct (Endd z Hz1) as [|(Q1 & Q2 & Q3)]; [left; auto | right; repeat split; auto].
          - right. assert (Hz0 : npulls z s1 = 0).
            { destruct (opn_dec z s1) as [Ho|Hn].
              - destruct (PA z Ho) as [_ Hc]. rewrite Hc in Hz. discriminate.
              - destruct (not_opn _ _ Hn) as [|Hc]; auto. rewrite Hc in Hz1. discriminate. }
            assert (z <> x) by (intros ->; lia).
            repeat split; auto; [lia|]. pose proof (npulls_Ext z _ _ F1s). lia. }
        assert (N7 : AllY s -> AllY s2) by (intros H; apply PC; apply AllY_touch; auto).
        assert (N8 : S i <= npulls x s2) by (pose proof (npulls_Ext x _ _ PE); lia).
        apply IH. exact (conj N1 (conj N2 (conj N3 (conj N4 (conj N5 (conj N6 (conj N7 N8))))))).
      + (* the consumer stopped *)
        split; [intros H; apply G1; apply AllY_touch; auto | discriminate].
  Qed.

  Lemma enum_good x b (k : val -> store -> store * signal) s :
    lookup b x = None -> Pre b s ->
    (forall v s0, Pre ((x, v) :: b) s0 -> Good s0 (k v s0)) ->
    Good s (enum D x k s).
  Proof.
    intros Hx HPre Hk. pose proof HPre as (HOB & HJ & HA).
    assert (Hnx : ~ opn x s).
    { intros Ho. specialize (HOB x Ho). unfold bound in HOB. rewrite Hx in HOB. discriminate. }
    assert (HLI0 : LI x s 0 s).
    { unfold LI. split; [apply Ext_refl|]. split; [auto|]. split; [intros H; lia|]. split; [|split; [|split; [|split]]].
      - intros y N. split; [intros [H1 H2]; auto | auto].
      - intros H. split; auto. destruct (not_opn _ _ Hnx) as [|Hc]; auto. rewrite Hc in H. discriminate.
      - intros z Hz. left; auto.
      - auto.
      - lia. }
    pose proof (enum_loop x b k s Hx HPre Hnx Hk (D x) 0 s HLI0) as [L1 L2].
    unfold enum, indexed. simpl in L1, L2.
    destruct (each _ (combine (seq 0 (length (D x))) (D x)) s) as [se [|]]; simpl in *.
    - destruct (L2 eq_refl) as (E0 & _ & _ & Oth & _ & _ & All0 & _).
      split; simpl.
      + intros H. apply AllY_finish; auto.
      + intros _. split; [eapply Ext_trans; [eauto | apply Ext_finish]|]. split; [|split].
        * intros y Ho. assert (N : y <> x) by (intros ->; contradiction).
          destruct (Oth y N) as [O1 _]. destruct (O1 Ho) as [A1 A2].
          rewrite npulls_finish, ended_finish_other; auto.
        * intros y Hn [C1 C2]. destruct (Nat.eq_dec y x) as [->|N].
          -- rewrite ended_finish_self in C2. discriminate.
          -- destruct (Oth y N) as [_ O2]. apply (O2 Hn). rewrite npulls_finish in C1.
             rewrite ended_finish_other in C2; auto. split; auto.
        * intros H. apply AllY_finish; auto.
    - split; simpl; auto. discriminate.
  Qed.

  Lemma opnd_good e : forall b (k : binds * val -> store -> store * signal) s,
    Pre b s -> (forall p s0, Pre (fst p) s0 -> Good s0 (k p s0)) -> Good s (tr_opnd W D e b k s).
  Proof.
    induction e as [v|x|e IH a]; intros b k s HPre Hk; simpl.
    - apply Hk; auto.
    - destruct (lookup b x) as [v|] eqn:Hx; [apply Hk; auto|].
      apply enum_good with (b := b); auto.
    - apply IH; auto. intros p s0 H0. eapply Good_shift; [apply Post_get|]. apply Hk. apply Pre_get; auto.
  Qed.

  Lemma Post_plain e s : (forall x, is_pull x e = false) -> (forall x, is_end x e = false) -> is_yield e = false ->
    Post s (e :: s).
  Proof.
    intros H1 H2 H3. apply Post_same; [apply Ext_cons | | | apply AllY_nonyield; auto].
    - intros x. rewrite npulls_cons, H1. reflexivity.
    - intros x. rewrite ended_cons, H2. reflexivity.
  Qed.
  Lemma Pre_plain b e s : (forall x, is_pull x e = false) -> (forall x, is_end x e = false) -> is_yield e = false ->
    Pre b s -> Pre b (e :: s).
  Proof.
    intros H1 H2 H3 (HOB & HJ & HA). split; [|split].
    - intros x [Hx1 Hx2]. apply HOB. rewrite npulls_cons, H1 in Hx1. rewrite ended_cons, H2 in Hx2. split; auto.
    - apply (J_Ext_same s); auto; [apply Ext_cons | intros x; rewrite ended_cons, H2; reflexivity].
    - apply AllY_nonyield; auto.
  Qed.

  Lemma cond_good c : forall_free c = true -> forall b (k : res -> store -> store * signal) s,
    Pre b s -> (forall r s0, Pre (fst r) s0 -> Good s0 (k r s0)) -> Good s (tr_cond W D c b k s).
  Proof.
    induction c as [op l r|l IHl r IHr|l IHl r IHr|l IHl r IHr|c IH|e c IH|y c IH]; intros Hu b k s HPre Hk;
      simpl in Hu; try discriminate; try (apply andb_true_iff in Hu; destruct Hu as [Hul Hur]); simpl.
    - destruct (right_first b r); apply opnd_good; auto; intros p1 s1 H1; apply opnd_good; auto.
    - apply IHl; auto. intros p s1 H1. destruct (snd p); [apply Hk; auto | apply IHr; auto].
    - apply IHl; auto. intros p s1 H1. destruct (snd p); [apply IHr; auto | apply Hk; auto].
    - (* Union: the first pass as ElseIf; when the second pass begins whatever is exhausted is exempt *)
      apply Good_andthen.
      + apply IHl; auto. intros p s1 H1. destruct (snd p); [apply IHr; auto | apply Hk; auto].
      + intros s1 HP. eapply Good_shift; [apply (Post_plain Pass); reflexivity|].
        apply IHr; auto.
        * destruct HPre as (HOB & HJ & HA). destruct HP as (PE & PA & PB & PC). split; [|split].
          -- intros x [Hx1 Hx2]. rewrite npulls_cons in Hx1. simpl in Hx1. rewrite ended_cons in Hx2. simpl in Hx2.
             destruct (opn_dec x s) as [Ho|Hn]; [apply HOB; auto|]. exfalso. apply (PB x Hn). split; auto.
          -- intros x Hx. left. exists [], s1. split; [reflexivity | exact Hx].
          -- apply AllY_nonyield; auto.
        * intros p s2 H2. destruct (snd p); [apply Good_ret | apply Hk; auto].
    - apply IH; auto.
    - (* Exists: a filter over the condition's results *)
      eapply Good_shift; [apply (Post_plain (Frame (length s))); reflexivity|].
      apply IH; auto; [apply Pre_plain; auto|].
      intros p s1 H1. destruct (snd p); [apply Good_ret|]. destruct (existsb _ _); [apply Good_ret|].
      eapply Good_shift; [apply (Post_plain (Note (length s) (map (lookup (fst p)) (exists_others e c)))); reflexivity|].
      apply Hk. apply Pre_plain; auto.
  Qed.

  (* the consumers: they log the row and nothing else *)
  Definition hands_out (k : list val -> store -> store * signal) : Prop := forall row s, fst (k row s) = Yield row :: s.
  Lemma take_hands_out n : hands_out (take n). Proof. intros row s. reflexivity. Qed.
  Lemma take_all_hands_out : hands_out take_all. Proof. intros row s. reflexivity. Qed.

  Lemma J_yield r s : J s -> J (Yield r :: s).
  Proof. apply J_Ext_same; [apply Ext_cons | reflexivity]. Qed.
  Lemma Post_yield r s : J s -> Post s (Yield r :: s).
  Proof. intros HJ. apply Post_same; auto; [apply Ext_cons|]. intros H. apply AllY_yield; auto. Qed.

  Lemma hands_out_good k : hands_out k -> forall row b s, Pre b s -> Good s (k row s).
  Proof.
    intros Hk row b s (_ & HJ & HA). pose proof (Hk row s) as H. destruct (k row s) as [s1 sg]. simpl in H. subst s1.
    split; simpl; [intros _; apply AllY_yield; auto | intros _; apply Post_yield; auto].
  Qed.

  Lemma select_good sels : forall b (k : list val -> store -> store * signal) s,
    Pre b s -> (forall row b0 s0, Pre b0 s0 -> Good s0 (k row s0)) -> Good s (tr_select W D sels b k s).
  Proof.
    induction sels as [|e ss IH]; intros b k s HPre Hk; simpl; [eapply Hk; eauto|].
    apply opnd_good; auto. intros p s0 H0. apply IH; auto. intros row b0 s1 H1. eapply Hk; eauto.
  Qed.
End Demand.

(* ---------- the theorem ---------- *)
Lemma ended_rev x s : ended x (rev s) = ended x s.
Proof.
  induction s as [|e s IH]; simpl; [reflexivity|]. rewrite ended_app, IH. simpl. rewrite orb_false_r. apply orb_comm.
Qed.
Lemma npulls_rev x s : npulls x (rev s) = npulls x s.
Proof.
  induction s as [|e s IH]; simpl; [reflexivity|]. rewrite npulls_app, IH, !npulls_cons.
  change (npulls x []) with 0. lia.
Qed.
Lemma upto_first_app x a r : npulls x a = 0 -> upto_first x (a ++ r) = a ++ upto_first x r.
Proof.
  induction a as [|e a IH]; simpl; [reflexivity|]. rewrite npulls_cons.
  destruct (is_pull x e); [simpl; lia|]. simpl. intros H. now rewrite IH.
Qed.

Lemma J_demand_at s : J s -> demand_at (rev s).
Proof.
  intros H x Hx. rewrite ended_rev in Hx. destruct (H x Hx) as [(s2 & s1 & -> & Hm)|[y [(s1 & s2 & -> & H1 & H2) Hn]]].
  { left. apply exempt_iff. exists (rev s1), (rev s2). split; [|now rewrite ended_rev].
    rewrite rev_app_distr. simpl. now rewrite <- app_assoc. }
  right. exists y. split; [|now rewrite npulls_rev].
  unfold before. rewrite rev_app_distr, upto_first_app by (now rewrite npulls_rev).
  apply Nat.leb_le. rewrite npulls_app, npulls_rev. lia.
Qed.

Lemma AllY_demand_ok s : AllY s -> demand_ok (rev s).
Proof.
  intros H p r rest Heq. rewrite <- (rev_involutive p). apply J_demand_at.
  apply (H (rev rest) r (rev p)).
  rewrite <- (rev_involutive s), Heq, rev_app_distr. simpl. now rewrite <- app_assoc.
Qed.

Lemma Pre_nil : Pre [] [].
Proof.
  split; [|split].
  - intros x [H _]. unfold npulls in H. simpl in H. lia.
  - intros x H. discriminate.
  - apply AllY_nil.
Qed.

Section Final.
  Variable W : world.
  Variable D : domains.

  Lemma run_demand q k : f10 q = true -> hands_out k -> AllY (fst (tr_run W D q k [])).
  Proof.
    intros HF Hk. unfold tr_run. unfold f10 in HF.
    assert (Hsel : forall b s, Pre b s -> Good s (tr_select W D (q_sels q) b k s)).
    { intros b s HP. apply select_good; auto. intros row b0 s0 H0. eapply hands_out_good; eauto. }
    destruct (q_cond q) as [c|].
    - destruct (cond_good W D c HF [] (fun p s1 => if snd p then (s1, Continue) else tr_select W D (q_sels q) (fst p) k s1)
                          [] Pre_nil) as [G _]; [|apply G; apply AllY_nil].
      intros r s0 HP. destruct (snd r); [apply Good_ret | apply Hsel; auto].
    - destruct (Hsel [] [] Pre_nil) as [G _]. apply G, AllY_nil.
  Qed.

  (* C10_demand *)
  Theorem trace_k_demand q n : f10 q = true -> demand_ok (trace_k W D q n).
  Proof.
    intros HF. destruct n as [|n].
    - intros p r rest H. destruct p; discriminate.
    - unfold trace_k. apply AllY_demand_ok. apply run_demand; auto. apply take_hands_out.
  Qed.
  Theorem trace_full_demand q : f10 q = true -> demand_ok (trace_full W D q).
  Proof. intros HF. unfold trace_full. apply AllY_demand_ok. apply run_demand; auto. apply take_all_hands_out. Qed.
End Final.
