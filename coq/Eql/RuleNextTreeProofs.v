(* C08 proofs, part G: one next_rule at the root whose branch is any Next-free tree (a next_rule with refinements of its
   own).  Since /repo a70801b inner selectors do not remember coverage, so the branch r evaluates the same way in the
   fall-through of the first pass and in the second pass; only the Next node at the root de-duplicates. *)
From Coq Require Import List ZArith Bool Arith Lia Permutation.
From Krrood Require Import Eql.RuleSpec Eql.RuleEval Eql.RuleBuild Eql.RulePure Eql.RuleEvalProofs Eql.RuleNextProofs.
Import ListNotations.

(* ---- coverage entries are only ever added at the node the query descriptor evaluates ---- *)
Definition onlyroot (S S' : store) : Prop :=
  rootsel S' = rootsel S /\ forall e0, In e0 (seen S') -> In e0 (seen S) \/ e_node e0 = rootsel S.
Lemma onlyroot_refl S S' : rootsel S' = rootsel S -> seen S' = seen S -> onlyroot S S'.
Proof. intros H1 H2. split; [exact H1|]. intros e0 He. left. rewrite <- H2. exact He. Qed.
Lemma onlyroot_trans S S1 S2 : onlyroot S S1 -> onlyroot S1 S2 -> onlyroot S S2.
Proof.
  intros [H1 H2] [H3 H4]. split; [congruence|]. intros e0 He. destruct (H4 e0 He) as [H|H].
  - apply H2. exact H.
  - right. rewrite <- H1. exact H.
Qed.
Lemma uc_onlyroot id i c S : onlyroot S (update_conclusion id i c S).
Proof.
  split; [apply uc_rootsel|]. unfold update_conclusion. destruct c; [auto|].
  destruct (Nat.eqb id (rootsel S)) eqn:E; [|auto]. destruct (seenb _ _ _ _ _); [auto|].
  intros e0 [<-|He]; [right; apply Nat.eqb_eq in E; exact E|left; exact He].
Qed.
Definition konly (k : K) : Prop := forall ie f S, onlyroot S (k ie f S).

Lemma sel_post_onlyroot s id l r k ie S : konly k -> onlyroot S (sel_post s id l r k ie S).
Proof.
  intros Hk. unfold sel_post.
  match goal with |- onlyroot S (set DYN id [] (k ie ?f ?X)) =>
    assert (HX : onlyroot S X); [|eapply onlyroot_trans; [exact HX|];
      eapply onlyroot_trans; [apply Hk|]; apply onlyroot_refl; reflexivity] end.
  destruct s.
  - destruct (getb LEV id S).
    + destruct (getb REV id _); [eapply onlyroot_trans; apply uc_onlyroot|apply uc_onlyroot].
    + destruct (getb REV id S); [apply uc_onlyroot|apply onlyroot_refl; reflexivity].
  - destruct (negb _); [apply uc_onlyroot|]. destruct (negb _); [apply uc_onlyroot|apply onlyroot_refl; reflexivity].
  - destruct (getb LEV id S).
    + destruct (getb REV id _); [eapply onlyroot_trans; apply uc_onlyroot|apply uc_onlyroot].
    + destruct (getb REV id S); [apply uc_onlyroot|apply onlyroot_refl; reflexivity].
Qed.
Lemma yield_upd_onlyroot id ie c k S : konly k -> onlyroot S (yield_upd id ie c k S).
Proof.
  intros Hk. unfold yield_upd. eapply onlyroot_trans; [apply uc_onlyroot|].
  eapply onlyroot_trans; [apply Hk|]. apply onlyroot_refl; reflexivity.
Qed.

Section OnlyRoot.
  Variable W : list elem.
  Lemma ev_onlyroot t : nextfree t = true -> forall b k S, konly k -> onlyroot S (ev W t b k S).
  Proof.
    induction t as [id cs c | id s l IHl r IHr]; intros Hnf b k S Hk.
    - simpl. destruct b as [ie|].
      + eapply onlyroot_trans; [|apply Hk]. apply onlyroot_refl; reflexivity.
      + generalize (enum W) S. intros L. induction L as [|ie L IHL]; intros S0; simpl; [apply onlyroot_refl; reflexivity|].
        eapply onlyroot_trans; [|apply IHL]. eapply onlyroot_trans; [|apply Hk]. apply onlyroot_refl; reflexivity.
    - destruct s; simpl in Hnf; try discriminate; apply andb_prop in Hnf; destruct Hnf as [Hnl Hnr].
      + cbn [ev]. apply IHl; [exact Hnl|]. intros ie fl S1. destruct fl.
        * eapply onlyroot_trans; [|apply Hk]. apply onlyroot_refl; reflexivity.
        * match goal with |- onlyroot S1 (if getb RY id ?S3 then _ else _) =>
            assert (H3 : onlyroot S1 S3) end.
          { eapply onlyroot_trans; [|apply (IHr Hnr)].
            - apply onlyroot_refl; reflexivity.
            - intros ie' f' S'. destruct f'; [apply onlyroot_refl; reflexivity|].
              eapply onlyroot_trans; [|apply (yield_upd_onlyroot id ie' _ k _ Hk)]. apply onlyroot_refl; reflexivity. }
          destruct (getb RY id _).
          -- eapply onlyroot_trans; [exact H3|]. apply onlyroot_refl; reflexivity.
          -- eapply onlyroot_trans; [exact H3|]. eapply onlyroot_trans; [|apply (yield_upd_onlyroot id ie _ k _ Hk)].
             apply onlyroot_refl; reflexivity.
      + cbn [ev]. apply IHl; [exact Hnl|]. intros ie fl S1. destruct fl.
        * eapply onlyroot_trans; [|apply onlyroot_refl; [|reflexivity]; reflexivity].
          eapply onlyroot_trans; [|apply (IHr Hnr)].
          -- apply onlyroot_refl; reflexivity.
          -- intros ie' fr S'. eapply onlyroot_trans; [|apply (sel_post_onlyroot SAlt id l r k ie' _ Hk)].
             apply onlyroot_refl; reflexivity.
        * eapply onlyroot_trans; [|apply (sel_post_onlyroot SAlt id l r k ie _ Hk)]. apply onlyroot_refl; reflexivity.
  Qed.
End OnlyRoot.

Section RootNextTree.
  Variable W : list elem.
  Variables (id : nat) (l r : tree).
  Let t := Node id SNext l r.
  Hypothesis Hnfl : nextfree l = true.
  Hypothesis Hnfr : nextfree r = true.
  Hypothesis Hnd : NoDup (ids t).

  Definition g1 (ie : nat * elem) : list (list nat * nat) :=
    let (fl, cl) := pe l (snd ie) in
    let (fr, cr) := pe r (snd ie) in
    if fl then (if fr then [] else emitq (union [] cr) (fst ie)) else emitq (union [] cl) (fst ie).
  Definition covR (e : elem) : bool :=
    let (fl, cl) := pe l e in
    let (fr, cr) := pe r e in
    if fl then negb fr && nonempty cr else nonempty cl && set_eqb cl cr.
  Definition g2 (ie : nat * elem) : list (list nat * nat) :=
    let (fr, cr) := pe r (snd ie) in
    if negb fr && negb (covR (snd ie)) then emitq (union [] cr) (fst ie) else [].

  Lemma Tidl : ~ In id (ids l).
  Proof. unfold t in Hnd. simpl in Hnd. apply NoDup_cons_iff in Hnd. destruct Hnd as [H _]. intro. apply H, in_or_app; auto. Qed.
  Lemma Tidr : ~ In id (ids r).
  Proof. unfold t in Hnd. simpl in Hnd. apply NoDup_cons_iff in Hnd. destruct Hnd as [H _]. intro. apply H, in_or_app; auto. Qed.
  Lemma Tndl : NoDup (ids l).
  Proof. unfold t in Hnd. simpl in Hnd. apply NoDup_cons_iff in Hnd. destruct Hnd as [_ H]. eapply nodup_app_l; eauto. Qed.
  Lemma Tndr : NoDup (ids r).
  Proof. unfold t in Hnd. simpl in Hnd. apply NoDup_cons_iff in Hnd. destruct Hnd as [_ H]. eapply nodup_app_r; eauto. Qed.
  Lemma Tlr : forall n, In n (ids l) -> ~ In n (ids r).
  Proof. unfold t in Hnd. simpl in Hnd. apply NoDup_cons_iff in Hnd. destruct Hnd as [_ H]. apply nodup_app_disj. exact H. Qed.

  Lemma topkT_explicit ie S :
    topk t ie false S = match get DYN id S with [] => S | c => emit (c, fst ie) S end.
  Proof. reflexivity. Qed.
  Lemma topkT_mono : kmono (topk t).
  Proof.
    intros ie f S. unfold topk. destruct f; [apply incl_refl|]. destruct (concl_now t S); [apply incl_refl|].
    simpl. apply incl_refl.
  Qed.

  (* ---- what Next's loop body does at the root ---- *)
  Lemma post_next j e c fl' Sc :
    rootsel Sc = id -> get DYN id Sc = [] -> getb FLAG id Sc = fl' ->
    (getb LEV id Sc = true /\ getb REV id Sc = false /\ concl_now l Sc = c) \/
    (getb LEV id Sc = false /\ getb REV id Sc = true /\ concl_now r Sc = c) ->
    let sel := nonempty c && negb (seenb id (negb fl') c j Sc) in
    let S' := sel_post SNext id l r (topk t) (j, e) Sc in
    out S' = rev (if sel && negb fl' then emitq (union [] c) j else []) ++ out Sc /\
    seen S' = (if sel then [(id, negb fl', c, j)] else []) ++ seen Sc /\
    get DYN id S' = [] /\
    (forall f n, f <> DYN \/ n <> id -> get f n S' = get f n Sc) /\
    rootsel S' = id.
  Proof.
    intros Hrs Hd Hf Hcase. cbv zeta. unfold sel_post. cbn [fst]. unfold binding in *.
    assert (HU : (if getb REV id (if getb LEV id Sc then update_conclusion id j (concl_now l Sc) Sc else Sc)
                  then update_conclusion id j (concl_now r (if getb LEV id Sc then update_conclusion id j (concl_now l Sc) Sc else Sc))
                         (if getb LEV id Sc then update_conclusion id j (concl_now l Sc) Sc else Sc)
                  else (if getb LEV id Sc then update_conclusion id j (concl_now l Sc) Sc else Sc))
                 = update_conclusion id j c Sc).
    { destruct Hcase as [[H1 [H2 H3]]|[H1 [H2 H3]]]; rewrite H1.
      - rewrite H3. unfold getb at 1. rewrite uc_field by fne. fold (getb REV id Sc). rewrite H2. reflexivity.
      - rewrite H2, H3. reflexivity. }
    rewrite HU. clear HU.
    rewrite (uc_cases id j c Sc Hrs). rewrite Hf.
    destruct (nonempty c && negb (seenb id (negb fl') c j Sc)) eqn:Esel.
    - set (U := add_seen (id, negb fl', c, j) (set DYN id (union (get DYN id Sc) c) Sc)).
      assert (HUF : getb FLAG id U = fl').
      { unfold U, getb. rewrite get_add_seen. rewrite get_set_diff by (left; fne). exact Hf. }
      rewrite HUF.
      assert (HUD : get DYN id U = union [] c) by (unfold U; rewrite get_add_seen, get_set_same, Hd; reflexivity).
      apply andb_prop in Esel. destruct Esel as [Ene _].
      pose proof (nonempty_union c Ene) as Hne.
      destruct fl'; cbn [negb andb].
      + unfold topk. cbv iota. refine (conj eq_refl (conj eq_refl (conj _ (conj _ Hrs)))).
        * apply get_set_same.
        * intros f n Hn. rewrite get_set_diff by (destruct Hn; [left|right]; congruence).
          unfold U. rewrite get_add_seen. apply get_set_diff. destruct Hn; [left|right]; congruence.
      + rewrite topkT_explicit. cbn [fst]. rewrite HUD.
        destruct (union [] c) as [|y ys] eqn:Eu; [congruence|].
        cbn [emitq rev app]. refine (conj eq_refl (conj eq_refl (conj _ (conj _ Hrs)))).
        * apply get_set_same.
        * intros f n Hn. rewrite get_set_diff by (destruct Hn; [left|right]; congruence). rewrite get_emit.
          unfold U. rewrite get_add_seen. apply get_set_diff. destruct Hn; [left|right]; congruence.
    - cbn [andb].
      assert (Hnil : (if fl' then Sc else match get DYN id Sc with [] => Sc | c0 => emit (c0, j) Sc end) = Sc)
        by (destruct fl'; [reflexivity|rewrite Hd; reflexivity]).
      assert (Htop : topk t (j, e) fl' Sc = Sc).
      { destruct fl'; [reflexivity|]. rewrite topkT_explicit. rewrite Hd. reflexivity. }
      rewrite Hf, Htop. refine (conj eq_refl (conj eq_refl (conj _ (conj _ Hrs)))).
      + apply get_set_same.
      + intros f n Hn. apply get_set_diff. destruct Hn; [left|right]; congruence.
  Qed.

  (* ---- the continuations of Next at the root ---- *)
  Definition KRr (k : K) : K := fun ie fr S' => sel_post SNext id l r k ie (setb REV id true (setb FLAG id fr S')).
  Definition KT1 (k : K) : K :=
    fun ie fl S' =>
      let S' := setb LEV id true S' in
      if fl then setb REV id false (ev W r (Some ie) (KRr k) (setb LEV id false S'))
      else sel_post SNext id l r k ie (setb FLAG id false S').
  Definition KT2 (k : K) : K :=
    fun ie fr S' => let S' := setb REV id true (setb FLAG id fr S') in
                    if fr then S' else sel_post SNext id l r k ie S'.
  Lemma evT_eq b k S :
    ev W t b k S = setb REV id false (ev W r b (KT2 k) (setb LEV id false (ev W l b (KT1 k) S))).
  Proof. reflexivity. Qed.

  Lemma topk_konly : konly (topk t).
  Proof.
    intros ie f S. unfold topk. destruct f; [apply onlyroot_refl; reflexivity|].
    destruct (concl_now t S); apply onlyroot_refl; reflexivity.
  Qed.
  Lemma KRr_keeps (P : nat -> Prop) : (forall n, P n -> id <> n) -> keeps P (KRr (topk t)).
  Proof.
    intros HP ie fr S f n Hn. unfold KRr.
    rewrite (sel_post_other P SNext id l r (topk t) _ _ f n (topk_keeps t _) Hn (HP n Hn)).
    rewrite !get_setb_diff by (right; apply HP; exact Hn). reflexivity.
  Qed.
  Lemma KT2_keeps : keeps (inT r) (KT2 (topk t)).
  Proof.
    intros ie fr S f n Hn. red in Hn. assert (Hne : id <> n) by (intro E; apply Tidr; rewrite E; exact Hn).
    unfold KT2. destruct fr.
    - rewrite !get_setb_diff by auto. reflexivity.
    - rewrite (sel_post_other (inT r) SNext id l r (topk t) _ _ f n (topk_keeps t _) Hn Hne).
      rewrite !get_setb_diff by auto. reflexivity.
  Qed.
  Lemma KT1_keeps : keeps (inT l) (KT1 (topk t)).
  Proof.
    intros ie fl S f n Hn. red in Hn. assert (Hne : id <> n) by (intro E; apply Tidl; rewrite E; exact Hn).
    unfold KT1. destruct fl.
    - rewrite get_setb_diff by auto.
      rewrite (ev_frame W r Hnfr (inT l)); auto.
      + rewrite !get_setb_diff by auto. reflexivity.
      + intros m Hm Hm'. exact (Tlr m Hm' Hm).
      + apply KRr_keeps. intros m Hm E. apply Tidl. rewrite E. exact Hm.
    - rewrite (sel_post_other (inT l) SNext id l r (topk t) _ _ f n (topk_keeps t _) Hn Hne).
      rewrite !get_setb_diff by auto. reflexivity.
  Qed.
  Lemma KRr_konly : konly (KRr (topk t)).
  Proof.
    intros ie fr S. unfold KRr. eapply onlyroot_trans; [|apply sel_post_onlyroot; apply topk_konly].
    apply onlyroot_refl; reflexivity.
  Qed.
  Lemma KT1_konly : konly (KT1 (topk t)).
  Proof.
    intros ie fl S. unfold KT1. destruct fl.
    - eapply onlyroot_trans; [|apply onlyroot_refl; [|reflexivity]; reflexivity].
      eapply onlyroot_trans; [|apply (ev_onlyroot W r Hnfr); apply KRr_konly]. apply onlyroot_refl; reflexivity.
    - eapply onlyroot_trans; [|apply sel_post_onlyroot; apply topk_konly]. apply onlyroot_refl; reflexivity.
  Qed.
  Lemma KT2_konly : konly (KT2 (topk t)).
  Proof.
    intros ie fr S. unfold KT2. destruct fr; [apply onlyroot_refl; reflexivity|].
    eapply onlyroot_trans; [|apply sel_post_onlyroot; apply topk_konly]. apply onlyroot_refl; reflexivity.
  Qed.
  Lemma konly_kmono k : konly k -> (forall ie f S, incl (seen S) (seen (k ie f S))) -> kmono k.
  Proof. intros _ H. exact H. Qed.

  Lemma KRr_mono : kmono (KRr (topk t)).
  Proof.
    intros ie fr S. unfold KRr. change (seen S) with (seen (setb REV id true (setb FLAG id fr S))).
    apply sel_post_seen_incl. apply topkT_mono.
  Qed.
  Lemma KT1_mono : kmono (KT1 (topk t)).
  Proof.
    intros ie fl S. unfold KT1. destruct fl.
    - cbn [seen setb set].
      change (seen S) with (seen (setb LEV id false (setb LEV id true S))).
      apply (ev_seen_incl W r Hnfr). apply KRr_mono.
    - change (seen S) with (seen (setb FLAG id false (setb LEV id true S))). apply sel_post_seen_incl. apply topkT_mono.
  Qed.

  (* no coverage entry of the root for the element that is being processed *)
  Lemma seenb_idx_fresh tr c j S :
    (forall e0, In e0 (seen S) -> e_node e0 = id -> e_idx e0 <> j) -> seenb id tr c j S = false.
  Proof. intros H. apply seenb_fresh. exact H. Qed.

  Definition InvA (j : nat) (S : store) : Prop :=
    (forall e0, In e0 (seen S) -> e_node e0 = id /\ e_idx e0 < j) /\
    dynclear l S /\ dynclear r S /\ get DYN id S = [] /\ getb REV id S = false /\
    (forall i' e', nth_error W i' = Some e' -> i' < j -> seenb id true (snd (pe r e')) i' S = covR e') /\
    rootsel S = id.

  Lemma emitq_nonempty c j : (if nonempty c then emitq (union [] c) j else []) = emitq (union [] c) j.
  Proof. destruct c; reflexivity. Qed.
  Lemma cov_entry_if tr c j : (if nonempty c then [(id, tr, c, j)] else []) = cov_entry id tr c j.
  Proof. destruct c; reflexivity. Qed.

  Lemma stepA j e S : InvA j S -> nth_error W j = Some e ->
    out (ev W l (Some (j, e)) (KT1 (topk t)) S) = rev (g1 (j, e)) ++ out S /\
    InvA (Datatypes.S j) (ev W l (Some (j, e)) (KT1 (topk t)) S).
  Proof.
    intros [Ha [Hdl [Hdr [Hdid [Hrev [Hd Hroot]]]]]] Hnth.
    assert (Hfrl : fresh l j S).
    { intros e0 He0 Hn. destruct (Ha e0 He0) as [E _]. rewrite E in Hn. destruct (Tidl Hn). }
    destruct (ev_bound W l Hnfl Tndl j e (KT1 (topk t)) S Hfrl Hdl KT1_keeps)
      as [S1l [[[[Ho [Hout [Hseen [Hfl Hcl]]]] Hrs1] _] [[Hf1 [Hf2 [Hf3 Hf4]]] Hf5]]].
    set (Sf := ev W l (Some (j, e)) (KT1 (topk t)) S) in *.
    pose proof (ev_onlyroot W l Hnfl (Some (j, e)) (KT1 (topk t)) S KT1_konly) as [Hor1 Hor2]. fold Sf in Hor1, Hor2.
    pose proof (ev_seen_incl W l Hnfl (Some (j, e)) (KT1 (topk t)) S KT1_mono) as Hmono. fold Sf in Hmono.
    assert (Hroot1 : rootsel S1l = id) by (rewrite Hrs1; exact Hroot).
    assert (Hid1 : forall f, get f id S1l = get f id S) by (intros f; apply Hout; exact Tidl).
    assert (Hr1 : forall f n, In n (ids r) -> get f n S1l = get f n S).
    { intros f n Hn. apply Hout. intro Hx. exact (Tlr n Hx Hn). }
    assert (Hfresh1 : forall e0, In e0 (seen S1l) -> e_node e0 = id -> e_idx e0 <> j).
    { intros e0 He0 Hn. destruct (Hseen e0 He0) as [Hin|[_ Hin]].
      - destruct (Ha e0 Hin) as [_ Hlt]. lia.
      - red in Hin. rewrite Hn in Hin. destruct (Tidl Hin). }
    (* the effect of the continuation: rows, new coverage entry, cleared cells *)
    assert (HK : exists tr c X,
       out (KT1 (topk t) (j, e) (fst (pe l e)) S1l) = rev (g1 (j, e)) ++ out S /\
       seen (KT1 (topk t) (j, e) (fst (pe l e)) S1l) = cov_entry id tr c j ++ seen X /\
       (forall e0, In e0 (seen X) -> In e0 (seen S) \/ (e_idx e0 = j /\ e_node e0 <> id)) /\
       get DYN id (KT1 (topk t) (j, e) (fst (pe l e)) S1l) = [] /\
       getb REV id (KT1 (topk t) (j, e) (fst (pe l e)) S1l) = false /\
       (forall n, In n (ids r) -> get DYN n (KT1 (topk t) (j, e) (fst (pe l e)) S1l) = []) /\
       (nonempty c && Bool.eqb tr true && set_eqb c (snd (pe r e))) = covR e).
    { unfold g1, covR. cbn [fst snd]. destruct (pe l e) as [fl cl] eqn:Epl. cbn [fst snd] in *.
      destruct fl.
      - (* fall through to r *)
        unfold KT1. cbv zeta iota.
        set (S2 := setb LEV id false (setb LEV id true S1l)).
        assert (Hfrr : fresh r j S2).
        { intros e0 He0 Hn. destruct (Hseen e0 He0) as [Hin|[_ Hin]].
          - destruct (Ha e0 Hin) as [E _]. rewrite E in Hn. destruct (Tidr Hn).
          - destruct (Tlr _ Hin Hn). }
        assert (Hdcr : dynclear r S2).
        { intros n Hn. unfold S2. rewrite !get_setb_diff by (right; intro E; apply Tidr; rewrite E; exact Hn).
          rewrite Hr1 by exact Hn. apply Hdr. exact Hn. }
        destruct (ev_bound W r Hnfr Tndr j e (KRr (topk t)) S2 Hfrr Hdcr (KRr_keeps (inT r) (fun m Hm E => Tidr (eq_ind_r (fun z => In z (ids r)) Hm E))))
          as [S1r [[[[Ho2 [Hout2 [Hseen2 [Hfl2 Hcl2]]]] Hrs2] _] [[Hg1 [Hg2 [Hg3 Hg4]]] Hg5]]].
        destruct (pe r e) as [fr cr] eqn:Epr. cbn [fst snd] in *.
        set (Sc := setb REV id true (setb FLAG id fr S1r)).
        assert (Hidr : forall f, get f id S1r = get f id S2) by (intros f; apply Hout2; exact Tidr).
        assert (HcRS : rootsel Sc = id) by (unfold Sc; cbn [rootsel set setb]; rewrite Hrs2; exact Hroot1).
        assert (HcD : get DYN id Sc = []).
        { unfold Sc. rewrite !get_setb_diff by (left; fne). rewrite Hidr. unfold S2. rewrite !get_setb_diff by (left; fne).
          rewrite Hid1. exact Hdid. }
        assert (HcF : getb FLAG id Sc = fr).
        { unfold Sc, getb. rewrite get_setb_diff by (left; fne). apply (getb_setb_same FLAG id fr). }
        assert (HcL : getb LEV id Sc = false).
        { unfold Sc, getb. rewrite !get_setb_diff by (left; fne). rewrite Hidr. unfold S2, setb. rewrite get_set_same. reflexivity. }
        assert (HcR : getb REV id Sc = true) by (apply (getb_setb_same REV id true)).
        assert (HcC : concl_now r Sc = cr).
        { rewrite <- Hcl2. apply concl_now_same. intros f n Hn. unfold Sc.
          rewrite !get_setb_diff by (right; intro E; apply Tidr; rewrite E; exact Hn). reflexivity. }
        assert (Hfresh2 : forall e0, In e0 (seen Sc) -> e_node e0 = id -> e_idx e0 <> j).
        { intros e0 He0 Hn. destruct (Hseen2 e0 He0) as [Hin|[_ Hin]].
          - apply (Hfresh1 e0 Hin Hn).
          - red in Hin. rewrite Hn in Hin. destruct (Tidr Hin). }
        destruct (post_next j e cr fr Sc HcRS HcD HcF (or_intror (conj HcL (conj HcR HcC)))) as [P1 [P2 [P3 [P4 P5]]]].
        rewrite (seenb_idx_fresh _ _ _ _ Hfresh2) in P1, P2. cbn [negb] in P1, P2. rewrite andb_true_r in P1, P2.
        change (KRr (topk t) (j, e) fr S1r) with (sel_post SNext id l r (topk t) (j, e) Sc) in Hg1, Hg2, Hg3, Hg4, Hg5.
        exists (negb fr), cr, S1r.
        refine (conj _ (conj _ (conj _ (conj _ (conj _ (conj _ _)))))).
        + unfold binding in *. unfold setb at 1. rewrite out_set. rewrite Hg1, P1. unfold Sc, setb. rewrite !out_set. rewrite Ho2. unfold S2, setb.
          rewrite !out_set. rewrite Ho. f_equal. destruct fr; cbn [negb]; [rewrite andb_false_r; reflexivity|].
          rewrite andb_true_r. rewrite emitq_nonempty. reflexivity.
        + unfold binding in *. cbn [seen setb set]. rewrite Hg3, P2. rewrite cov_entry_if. reflexivity.
        + intros e0 He0. destruct (Hseen2 e0 He0) as [Hin|[Hi Hin]].
          * destruct (Hseen e0 Hin) as [Hin'|[Hi' Hin']]; [left; exact Hin'|right; split; [exact Hi'|]].
            intro E. red in Hin'. rewrite E in Hin'. destruct (Tidl Hin').
          * right. split; [exact Hi|]. intro E. red in Hin. rewrite E in Hin. destruct (Tidr Hin).
        + unfold binding in *. rewrite get_setb_diff by (left; fne). rewrite Hg2 by exact Tidr. exact P3.
        + apply (getb_setb_same REV id false).
        + unfold binding in *. intros n Hn. rewrite get_setb_diff by (left; fne). apply Hg4. exact Hn.
        + rewrite set_eqb_refl. destruct fr, (nonempty cr); reflexivity.
      - (* l fires *)
        unfold KT1. cbv zeta iota.
        set (Sa := setb FLAG id false (setb LEV id true S1l)).
        assert (HaRS : rootsel Sa = id) by exact Hroot1.
        assert (HaD : get DYN id Sa = []).
        { unfold Sa. rewrite !get_setb_diff by (left; fne). rewrite Hid1. exact Hdid. }
        assert (HaF : getb FLAG id Sa = false) by (apply (getb_setb_same FLAG id false)).
        assert (HaL : getb LEV id Sa = true).
        { unfold Sa, getb. rewrite get_setb_diff by (left; fne). unfold setb. rewrite get_set_same. reflexivity. }
        assert (HaR : getb REV id Sa = false).
        { unfold Sa, getb. rewrite !get_setb_diff by (left; fne). rewrite Hid1. exact Hrev. }
        assert (HaC : concl_now l Sa = cl).
        { rewrite <- Hcl. apply concl_now_same. intros f n Hn. unfold Sa.
          rewrite !get_setb_diff by (right; intro E; apply Tidl; rewrite E; exact Hn). reflexivity. }
        destruct (post_next j e cl false Sa HaRS HaD HaF (or_introl (conj HaL (conj HaR HaC)))) as [P1 [P2 [P3 [P4 P5]]]].
        assert (Hfa : forall e0, In e0 (seen Sa) -> e_node e0 = id -> e_idx e0 <> j) by exact Hfresh1.
        rewrite (seenb_idx_fresh _ _ _ _ Hfa) in P1, P2. cbn [negb] in P1, P2. rewrite !andb_true_r in P1, P2.
        exists true, cl, S1l.
        refine (conj _ (conj _ (conj _ (conj P3 (conj _ (conj _ _)))))).
        + rewrite P1. rewrite ?andb_true_r. unfold Sa, setb. rewrite !out_set. rewrite Ho. rewrite emitq_nonempty.
          destruct (pe r e) as [fr cr]. reflexivity.
        + rewrite P2. rewrite cov_entry_if. reflexivity.
        + intros e0 He0. destruct (Hseen e0 He0) as [Hin|[Hi Hin]]; [left; exact Hin|right; split; [exact Hi|]].
          intro E. red in Hin. rewrite E in Hin. destruct (Tidl Hin).
        + unfold getb. rewrite P4 by (left; fne). exact HaR.
        + intros n Hn. rewrite P4 by (right; intro E; apply Tidr; rewrite <- E; exact Hn). unfold Sa.
          rewrite !get_setb_diff by (right; intro E; apply Tidr; rewrite E; exact Hn). rewrite Hr1 by exact Hn. apply Hdr. exact Hn.
        + destruct (pe r e) as [fr cr]. cbn [snd]. destruct (nonempty cl), (set_eqb cl cr); reflexivity. }
    destruct HK as [tr [c [X [K1 [K2' [KX [K3 [K4 [K5 Kcov]]]]]]]]].
    split; [rewrite Hf1; exact K1|].
    unfold InvA. refine (conj _ (conj Hf4 (conj _ (conj _ (conj _ (conj _ _)))))).
    - intros e0 He0. destruct (Hor2 e0 He0) as [Hin|Hn].
      + destruct (Ha e0 Hin) as [E Hlt]. split; [exact E|lia].
      + rewrite Hroot in Hn. split; [exact Hn|]. rewrite Hf3, K2' in He0. apply in_app_or in He0. destruct He0 as [He0|He0].
        * unfold cov_entry in He0. destruct c; [destruct He0|]. destruct He0 as [<-|[]]. unfold e_idx. simpl. lia.
        * destruct (KX e0 He0) as [Hin|[Hi _]]; [destruct (Ha e0 Hin); lia|lia].
    - intros n Hn. rewrite Hf2 by (intro Hx; exact (Tlr n Hx Hn)). apply K5. exact Hn.
    - rewrite Hf2 by exact Tidl. exact K3.
    - unfold getb. rewrite Hf2 by exact Tidl. exact K4.
    - intros i' e' Hn' Hlt.
      rewrite (seenb_split id true (snd (pe r e')) i' (cov_entry id tr c j) S Sf).
      + rewrite cov_entry_is. destruct (Nat.eq_dec i' j) as [->|Hne].
        * assert (e' = e) by congruence. subst e'. rewrite Nat.eqb_refl, andb_true_r.
          assert (Hs0 : seenb id true (snd (pe r e)) j S = false).
          { apply seenb_idx_fresh. intros e0 He0 _. destruct (Ha e0 He0). lia. }
          rewrite Hs0, orb_false_r. exact Kcov.
        * assert (Hj : Nat.eqb j i' = false) by (apply Nat.eqb_neq; congruence).
          rewrite Hj, andb_false_r. cbn [orb]. apply Hd; [exact Hn'|lia].
      + intros e0 Hm. apply entry_is_node in Hm. destruct Hm as [Hm1 Hm2]. split.
        * intros Hin. rewrite Hf3, K2' in Hin. apply in_app_or in Hin. destruct Hin as [Hin|Hin]; [left; exact Hin|].
          destruct (KX e0 Hin) as [Hs|[_ Hs]]; [right; exact Hs|]. contradiction.
        * intros [Hin|Hin]; [rewrite Hf3, K2'; apply in_or_app; left; exact Hin|apply Hmono; exact Hin].
    - rewrite Hor1. exact Hroot.
  Qed.

  Lemma passA L : forall j S, InvA j S ->
    (forall k e, nth_error L k = Some e -> nth_error W (j + k) = Some e) ->
    out (fold_left (fun S ie => ev W l (Some ie) (KT1 (topk t)) S) (enum_from j L) S)
      = rev (flat_map g1 (enum_from j L)) ++ out S /\
    InvA (j + length L) (fold_left (fun S ie => ev W l (Some ie) (KT1 (topk t)) S) (enum_from j L) S).
  Proof.
    induction L as [|e L IH]; intros j S HI HL.
    - simpl. rewrite Nat.add_0_r. auto.
    - cbn [enum_from fold_left flat_map length].
      assert (Hnth : nth_error W j = Some e) by (rewrite <- (Nat.add_0_r j); apply HL; reflexivity).
      destruct (stepA j e S HI Hnth) as [Ho HI'].
      destruct (IH (Datatypes.S j) _ HI') as [Ho2 HI2].
      { intros k e' Hk. replace (Datatypes.S j + k) with (j + Datatypes.S k) by lia. apply HL. exact Hk. }
      unfold binding in *. split.
      + rewrite Ho2, Ho. rewrite rev_app_distr, app_assoc. reflexivity.
      + replace (j + Datatypes.S (length L)) with (Datatypes.S j + length L) by lia. exact HI2.
  Qed.

  Lemma KT2_mono : kmono (KT2 (topk t)).
  Proof.
    intros ie fr S. unfold KT2. destruct fr; [apply incl_refl|].
    change (seen S) with (seen (setb REV id true (setb FLAG id false S))). apply sel_post_seen_incl. apply topkT_mono.
  Qed.

  Definition InvB (j : nat) (S : store) : Prop :=
    get DYN id S = [] /\ dynclear r S /\ getb LEV id S = false /\
    (forall e0, In e0 (seen S) -> e_node e0 = id) /\
    (forall i' e', nth_error W i' = Some e' -> j <= i' -> seenb id true (snd (pe r e')) i' S = covR e') /\
    rootsel S = id.


  Lemma stepB j e S : InvB j S -> nth_error W j = Some e ->
    out (ev W r (Some (j, e)) (KT2 (topk t)) S) = rev (g2 (j, e)) ++ out S /\
    InvB (Datatypes.S j) (ev W r (Some (j, e)) (KT2 (topk t)) S).
  Proof.
    intros [Hdid [Hdr [Hlev [Ha [Hd Hroot]]]]] Hnth.
    assert (Hfrr : fresh r j S).
    { intros e0 He0 Hn. rewrite (Ha e0 He0) in Hn. destruct (Tidr Hn). }
    destruct (ev_bound W r Hnfr Tndr j e (KT2 (topk t)) S Hfrr Hdr KT2_keeps)
      as [S1r [[[[Ho [Hout [Hseen [Hfl Hcl]]]] Hrs1] Hin1] [[Hf1 [Hf2 [Hf3 Hf4]]] Hf5]]].
    set (Sf := ev W r (Some (j, e)) (KT2 (topk t)) S) in *.
    pose proof (ev_onlyroot W r Hnfr (Some (j, e)) (KT2 (topk t)) S KT2_konly) as [Hor1 Hor2]. fold Sf in Hor1, Hor2.
    assert (Hid1 : forall f, get f id S1r = get f id S) by (intros f; apply Hout; exact Tidr).
    unfold g2. cbn [fst snd]. destruct (pe r e) as [fr cr] eqn:Epr. cbn [fst snd] in *.
    set (Sc := setb REV id true (setb FLAG id fr S1r)).
    assert (HcRS : rootsel Sc = id) by (unfold Sc; cbn [rootsel set setb]; rewrite Hrs1; exact Hroot).
    assert (HcD : get DYN id Sc = []) by (unfold Sc; rewrite !get_setb_diff by (left; fne); rewrite Hid1; exact Hdid).
    assert (HcF : getb FLAG id Sc = fr).
    { unfold Sc, getb. rewrite get_setb_diff by (left; fne). apply (getb_setb_same FLAG id fr). }
    assert (HcL : getb LEV id Sc = false).
    { unfold Sc, getb. rewrite !get_setb_diff by (left; fne). rewrite Hid1. exact Hlev. }
    assert (HcR : getb REV id Sc = true) by (apply (getb_setb_same REV id true)).
    assert (HcC : concl_now r Sc = cr).
    { rewrite <- Hcl. apply concl_now_same. intros f n Hn. unfold Sc.
      rewrite !get_setb_diff by (right; intro E; apply Tidr; rewrite E; exact Hn). reflexivity. }
    (* the root's entries in S1r (= in Sc) are those of S *)
    assert (HseenSc : forall tr c i', seenb id tr c i' Sc = seenb id tr c i' S).
    { intros tr c i'. apply seenb_ext. intros e0 Hm. apply entry_is_node in Hm. destruct Hm as [Hn _]. split.
      - intros Hin. destruct (Hseen e0 Hin) as [H|[_ H]]; [exact H|]. red in H. rewrite Hn in H. destruct (Tidr H).
      - intros Hin. apply Hin1. exact Hin. }
    assert (Hcov : seenb id true cr j Sc = covR e).
    { rewrite HseenSc. specialize (Hd j e Hnth (le_n j)). rewrite Epr in Hd. exact Hd. }
    (* what the continuation returns *)
    assert (HK : out (KT2 (topk t) (j, e) fr S1r) = rev (if negb fr && negb (covR e) then emitq (union [] cr) j else []) ++ out S /\
                 (forall e0, In e0 (seen (KT2 (topk t) (j, e) fr S1r)) -> In e0 (seen S1r) \/ e_idx e0 = j) /\
                 incl (seen S1r) (seen (KT2 (topk t) (j, e) fr S1r)) /\
                 get DYN id (KT2 (topk t) (j, e) fr S1r) = [] /\
                 getb LEV id (KT2 (topk t) (j, e) fr S1r) = false).
    { unfold KT2. cbv zeta. fold Sc. destruct fr; cbn [negb andb].
      - refine (conj _ (conj _ (conj _ (conj HcD HcL)))).
        + unfold Sc, setb. rewrite !out_set. exact Ho.
        + intros e0 He0. left. exact He0.
        + apply incl_refl.
      - destruct (post_next j e cr false Sc HcRS HcD HcF (or_intror (conj HcL (conj HcR HcC)))) as [P1 [P2 [P3 [P4 P5]]]].
        cbn [negb] in P1, P2. rewrite Hcov in P1, P2. rewrite ?andb_true_r in P1.
        refine (conj _ (conj _ (conj _ (conj P3 _)))).
        + rewrite P1. unfold Sc, setb. rewrite !out_set. rewrite Ho. f_equal. f_equal.
          destruct (covR e); cbn [negb]; [rewrite andb_false_r; reflexivity|]. rewrite andb_true_r.
          destruct (nonempty cr) eqn:Ene; [reflexivity|]. rewrite (empty_union [] cr Ene). reflexivity.
        + intros e0 He0. rewrite P2 in He0. apply in_app_or in He0. destruct He0 as [He0|He0]; [|left; exact He0].
          right. destruct (nonempty cr && negb (covR e)); [|destruct He0]. destruct He0 as [<-|[]]. reflexivity.
        + rewrite P2. apply incl_appr. apply incl_refl.
        + unfold getb. rewrite P4 by (left; fne). exact HcL. }
    destruct HK as [K1 [K2' [K2m [K3 K4]]]].
    split; [rewrite Hf1; exact K1|].
    unfold InvB. refine (conj _ (conj Hf4 (conj _ (conj _ (conj _ _))))).
    - rewrite Hf2 by exact Tidr. exact K3.
    - unfold getb. rewrite Hf2 by exact Tidr. exact K4.
    - intros e0 He0. destruct (Hor2 e0 He0) as [Hin|Hn]; [apply Ha; exact Hin|rewrite Hroot in Hn; exact Hn].
    - intros i' e' Hn' Hle.
      rewrite <- (Hd i' e' Hn') by lia. apply seenb_ext. intros e0 Hm. apply entry_is_node in Hm. destruct Hm as [Hm1 Hm2]. split.
      + intros Hin. rewrite Hf3 in Hin. destruct (K2' e0 Hin) as [H|H]; [|lia].
        destruct (Hseen e0 H) as [H'|[_ H']]; [exact H'|]. red in H'. rewrite Hm1 in H'. destruct (Tidr H').
      + intros Hin. rewrite Hf3. apply K2m. apply Hin1. exact Hin.
    - rewrite Hor1. exact Hroot.
  Qed.

  Lemma passB L : forall j S, InvB j S ->
    (forall k e, nth_error L k = Some e -> nth_error W (j + k) = Some e) ->
    out (fold_left (fun S ie => ev W r (Some ie) (KT2 (topk t)) S) (enum_from j L) S)
      = rev (flat_map g2 (enum_from j L)) ++ out S.
  Proof.
    induction L as [|e L IH]; intros j S HI HL; [reflexivity|].
    cbn [enum_from fold_left flat_map].
    assert (Hnth : nth_error W j = Some e) by (rewrite <- (Nat.add_0_r j); apply HL; reflexivity).
    destruct (stepB j e S HI Hnth) as [Ho HI'].
    unfold binding in *. rewrite (IH (Datatypes.S j) _ HI').
    - rewrite Ho. rewrite rev_app_distr, app_assoc. reflexivity.
    - intros k e' Hk. replace (Datatypes.S j + k) with (j + Datatypes.S k) by lia. apply HL. exact Hk.
  Qed.

  Theorem run_root_next_tree : run W t = flat_map g1 (enum W) ++ flat_map g2 (enum W).
  Proof.
    unfold run.
    change (fun (ie : binding) (f : bool) (S : store) =>
              if f then S else match concl_now t S with [] => S | c => emit (c, fst ie) S end) with (topk t).
    rewrite evT_eq. unfold setb at 1. rewrite out_set.
    rewrite (ev_unbound W l Hnfl). rewrite (ev_unbound W r Hnfr).
    change (root_id t) with id.
    assert (HI0 : InvA 0 (init_root id)).
    { unfold InvA. refine (conj _ (conj _ (conj _ (conj _ (conj _ (conj _ _)))))).
      - intros e0 [].
      - intros n Hn. reflexivity.
      - intros n Hn. reflexivity.
      - reflexivity.
      - reflexivity.
      - intros i' e' Hn Hlt. lia.
      - reflexivity. }
    destruct (passA W 0 (init_root id) HI0) as [Ho1 HI1]; [intros k e Hk; exact Hk|].
    unfold enum. unfold binding in *.
    remember (fold_left (fun (S : store) (ie : nat * elem) => ev W l (Some ie) (KT1 (topk t)) S) (enum_from 0 W) (init_root id)) as S1 eqn:ES1 in *.
    destruct HI1 as [Ha1 [_ [Hdr1 [Hd1 [_ [Hc1 Hroot1]]]]]].
    assert (HI2 : InvB 0 (setb LEV id false S1)).
    { unfold InvB. refine (conj _ (conj _ (conj _ (conj _ (conj _ Hroot1))))).
      - rewrite get_setb_diff by (left; fne). exact Hd1.
      - intros n Hn. rewrite get_setb_diff by (left; fne). apply Hdr1. exact Hn.
      - apply (getb_setb_same LEV id false).
      - intros e0 He0. apply (Ha1 e0 He0).
      - intros i' e' Hn _. change (seenb id true (snd (pe r e')) i' (setb LEV id false S1)) with (seenb id true (snd (pe r e')) i' S1).
        apply Hc1; [exact Hn|]. apply nth_error_Some. congruence. }
    pose proof (passB W 0 _ HI2 (fun k e Hk => Hk)) as HB. unfold binding in HB. rewrite HB.
    unfold setb at 1. rewrite out_set. rewrite Ho1. cbn [out init_root]. rewrite app_nil_r.
    rewrite rev_app_distr, !rev_involutive. reflexivity.
  Qed.
End RootNextTree.
