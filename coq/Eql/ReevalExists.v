(* C03 -- the de-duplication memory of an Exists node (symbolic.py, Exists._evaluate__: "one result per binding of the
   other variables").  [ks] is the sequence of keys (bindings of the other variables) of the condition's true results; with
   warm domain caches it is the same for every evaluation (C03_cache_warm_any_schedule).  One evaluation = one handle that
   scans [ks] and yields a key the first time it sees it.
   * current code: the memory is a LOCAL of the generator ([lhandle.l_seen]) -> any number of evaluations of the same
     node, consumed in any interleaving, each yield [dedup ks]                                  (theorem, every schedule);
   * memory kept on the node and cleared when an evaluation starts (a plausible refactoring) -> two live evaluations
     wipe and skip each other's keys                                                                   (refuted witness). *)
From Coq Require Import List ZArith Bool Arith Lia.
From Krrood Require Import Eql.DomainCacheSpec Eql.DomainCache Eql.DomainCacheProofs.
Import ListNotations.
Open Scope Z_scope.

Inductive eop := ENew | ENext (h : nat).
Inductive estate := ELive (rest : list Z) | EDone.

(* ---- local memory (the code as it is) ---- *)
Record lhandle := { l_st : estate; l_seen : list Z; l_tr : list Z }.

Definition lnext (h : lhandle) : lhandle :=
  match l_st h with
  | EDone => h
  | ELive rest =>
      match rpull (l_seen h) rest with
      | (Some v, seen', rest') => {| l_st := ELive rest'; l_seen := seen'; l_tr := l_tr h ++ [v] |}
      | (None, seen', _) => {| l_st := EDone; l_seen := seen'; l_tr := l_tr h |}
      end
  end.

Definition lstep (ks : list Z) (o : eop) (hs : list lhandle) : list lhandle :=
  match o with
  | ENew => hs ++ [{| l_st := ELive ks; l_seen := []; l_tr := [] |}]
  | ENext h => match nth_error hs h with None => hs | Some hd => upd h (lnext hd) hs end
  end.
Definition lrun (ks : list Z) (ops : list eop) (hs : list lhandle) : list lhandle :=
  fold_left (fun hs o => lstep ks o hs) ops hs.

Section Local.
  Variable ks : list Z.

  Definition linv (hd : lhandle) : Prop :=
    l_tr hd = l_seen hd /\
    match l_st hd with
    | ELive rest => fold_left ins rest (l_seen hd) = dedup ks
    | EDone => l_seen hd = dedup ks
    end.

  Lemma lnext_inv hd : linv hd -> linv (lnext hd).
  Proof.
    intros [Ht Hs]. unfold lnext. destruct (l_st hd) as [rest|] eqn:E; [|split; auto; now rewrite E].
    destruct (rpull (l_seen hd) rest) as [[[v|] seen'] rest'] eqn:Ep.
    - apply rpull_some in Ep. destruct Ep as [-> Ep]. split; simpl.
      + now rewrite Ht.
      + now rewrite Ep.
    - apply rpull_none in Ep. destruct Ep as (-> & -> & Ep). split; simpl; auto. now rewrite <- Hs.
  Qed.

  Lemma lrun_inv ops : forall hs,
    (forall h hd, nth_error hs h = Some hd -> linv hd) ->
    forall h hd, nth_error (lrun ks ops hs) h = Some hd -> linv hd.
  Proof.
    induction ops as [|o ops IH]; intros hs H; simpl; auto.
    apply IH. destruct o as [|k]; simpl.
    - intros h hd Hn. destruct (Nat.lt_ge_cases h (length hs)) as [Hl|Hl].
      + rewrite nth_error_app1 in Hn by auto. eauto.
      + rewrite nth_error_app2 in Hn by auto. destruct (h - length hs)%nat as [|m]; simpl in Hn.
        * injection Hn as <-. split; reflexivity.
        * destruct m; discriminate.
    - destruct (nth_error hs k) as [hk|] eqn:Ek; auto.
      intros h hd Hn. apply nth_error_upd_inv in Hn. destruct Hn as [(-> & -> & _)|(Hne & Hn)]; eauto.
      apply lnext_inv. eauto.
  Qed.

  Theorem exists_local_isolated ops h hd :
    nth_error (lrun ks ops []) h = Some hd ->
    is_prefix (l_tr hd) (dedup ks) /\ (l_st hd = EDone -> l_tr hd = dedup ks).
  Proof.
    intros Hn.
    assert (I : linv hd).
    { eapply (lrun_inv ops []); eauto. intros [|k] ? H; discriminate. }
    destruct I as [Ht Hs]. split.
    - rewrite Ht. destruct (l_st hd); [rewrite <- Hs; apply fold_ins_prefix|rewrite Hs; apply prefix_refl].
    - intros E. rewrite E in Hs. congruence.
  Qed.
End Local.

(* ---- memory on the node, cleared at the start of every evaluation (the generator body starts at the first next) ---- *)
Inductive sstate := SFresh | SLive (rest : list Z) | SDone.
Record ssys := { s_seen : list Z; s_hs : list (sstate * list Z) }.

Definition spull (seen rest : list Z) (tr : list Z) : list Z * (sstate * list Z) :=
  match rpull seen rest with
  | (Some v, seen', rest') => (seen', (SLive rest', tr ++ [v]))
  | (None, seen', _) => (seen', (SDone, tr))
  end.

Definition sstep (ks : list Z) (o : eop) (S : ssys) : ssys :=
  match o with
  | ENew => {| s_seen := s_seen S; s_hs := s_hs S ++ [(SFresh, [])] |}
  | ENext h =>
      match nth_error (s_hs S) h with
      | None => S
      | Some (SDone, _) => S
      | Some (SFresh, tr) => let '(seen', hd) := spull [] ks tr in                 (* self.seen_bindings.clear() *)
                             {| s_seen := seen'; s_hs := upd h hd (s_hs S) |}
      | Some (SLive rest, tr) => let '(seen', hd) := spull (s_seen S) rest tr in
                                 {| s_seen := seen'; s_hs := upd h hd (s_hs S) |}
      end
  end.
Definition srun (ks : list Z) (ops : list eop) : ssys :=
  fold_left (fun S o => sstep ks o S) ops {| s_seen := []; s_hs := [] |}.

(* lock-step over two evaluations of the same node: the second one clears the first one's memory, then each skips what
   the other yielded *)
Definition lockstep : list eop := [ENew; ENew; ENext 0; ENext 1; ENext 0; ENext 1; ENext 1]%nat.

Lemma refuted_shared_exists_memory :
  s_hs (srun [1; 2] lockstep) = [(SLive [], [1; 2]); (SDone, [1])] /\ dedup [1; 2] = [1; 2] /\
  map l_tr (lrun [1; 2] lockstep []) = [[1; 2]; [1; 2]].
Proof. repeat split; vm_compute; reflexivity. Qed.
