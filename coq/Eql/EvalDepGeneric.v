(* C01 (flatten / nested sub-queries), proofs part 1:
   (a) with no declarations the generalised evaluator IS Eql/Eval.v's evaluator (every condition, quantifiers included);
   (b) the cylinder-cover invariant of Eql/EvalProofs.v re-proved for the generic evaluator [evalG], from four properties
       of the evaluation of a variable (sound / keeps bindings admissible / complete / frame). *)
From Coq Require Import List ZArith Bool Arith Lia.
From Krrood Require Import Eql.Syntax Eql.Sat Eql.Eval Eql.EvalProofs Eql.RunProofs Eql.EvalDepSpec Eql.EvalDep.
Import ListNotations.

(* ---------- (a) no declarations: Eval.eval ---------- *)
Lemma flat_map_roots_nil l : flat_map (roots []) l = l.
Proof. induction l as [|x l IH]; [reflexivity|]. cbn [flat_map]. rewrite IH. reflexivity. Qed.

Lemma fold_filter_ext (f g : binds -> binds -> bool) :
  (forall bv s, f bv s = g bv s) ->
  forall bvs s0, fold_left (fun (ss : list binds) (bv : binds) => filter (f bv) ss) bvs s0 =
                 fold_left (fun (ss : list binds) (bv : binds) => filter (g bv) ss) bvs s0.
Proof.
  intros H. induction bvs as [|bv bvs IH]; simpl; intros s0; auto.
  rewrite (filter_ext _ _ (H bv)). apply IH.
Qed.

Section Nil.
  Variable W : world.
  Variable D : domains.
  Let E0 := envD W D [].

  Lemma evG_opnd_nil e b : evG_opnd W E0 e b = ev_opnd W D e b.
  Proof. induction e as [v|x|e IH a]; simpl; auto; try (now rewrite IH). Qed.

  Lemma right_firstG_nil b r : right_firstG E0 b r = right_first b r.
  Proof. unfold right_firstG, right_first. simpl. now rewrite flat_map_roots_nil. Qed.

  Lemma evG_cmp_nil op l r b : evG_cmp W E0 op l r b = ev_cmp W D op l r b.
  Proof.
    unfold evG_cmp, ev_cmp. rewrite right_firstG_nil. destruct (right_first b r);
      rewrite evG_opnd_nil; apply flat_map_ext; intros p; now rewrite evG_opnd_nil.
  Qed.

  Lemma exists_othersG_nil e c : exists_othersG E0 e c = exists_others e c.
  Proof.
    destruct e as [v|y|e a]; simpl.
    - now rewrite flat_map_roots_nil.
    - rewrite flat_map_roots_nil, app_nil_r. unfold remove_var. simpl. now rewrite Nat.eqb_refl.
    - now rewrite flat_map_roots_nil.
  Qed.

  Lemma forall_othersG_nil y c : forall_othersG E0 y c = remove_var y (cond_vars c).
  Proof.
    unfold forall_othersG, remove_var. simpl. rewrite flat_map_roots_nil. apply filter_ext.
    intros x. simpl. now rewrite orb_false_r.
  Qed.

  Lemma var_plain_fst y b :
    map fst (var_plain D y b) = match lookup b y with Some _ => [b] | None => map (fun v => (y, v) :: b) (D y) end.
  Proof. unfold var_plain. destruct (lookup b y); simpl; auto. rewrite map_map. now apply map_ext. Qed.

  Theorem evalD_nil c : forall b, evalD W D [] c b = eval W D c b.
  Proof.
    unfold evalD. fold E0.
    induction c as [op l r|l IHl r IHr|l IHl r IHr|l IHl r IHr|c IH|e c IH|y c IH]; intros b; simpl.
    - apply evG_cmp_nil.
    - rewrite IHl. apply flat_map_ext. intros p. now rewrite IHr.
    - rewrite IHl. apply flat_map_ext. intros p. now rewrite IHr.
    - rewrite IHl, IHr. f_equal. apply flat_map_ext. intros p. now rewrite IHr.
    - now rewrite IH.
    - now rewrite IH, exists_othersG_nil.
    - rewrite forall_othersG_nil.
      change (map fst (ve_var E0 y b)) with (map fst (var_plain D y b)). rewrite var_plain_fst.
      destruct (match lookup b y with Some _ => [b] | None => map (fun v => (y, v) :: b) (D y) end) as [|bv0 bvs]; auto.
      rewrite IH. f_equal.
      apply (fold_filter_ext (fun bv s1 => first_true (evalG W E0 c (bv ++ s1))) (fun bv s1 => first_true (eval W D c (bv ++ s1)))).
      intros bv s. now rewrite IH.
  Qed.

  Lemma selectG_nil sels : forall b, selectG W E0 sels b = select W D sels b.
  Proof.
    induction sels as [|s ss IH]; intros b; [reflexivity|]. cbn [selectG select].
    rewrite evG_opnd_nil. apply flat_map_ext. intros p. now rewrite IH.
  Qed.

  Theorem runD_nil q : runD W D [] q = run W D q.
  Proof.
    unfold runD, runG, run. fold E0.
    replace (true_resultsG W E0 (q_cond q) []) with (true_results W D (q_cond q)).
    - apply flat_map_ext. intros b. apply selectG_nil.
    - unfold true_resultsG, true_results. destruct (q_cond q) as [c|]; auto.
      now rewrite <- (evalD_nil c []).
  Qed.
End Nil.

(* ---------- (b) the generic cover ---------- *)
Lemma extends_cons_weak rho x v b : rho x = v -> extends rho b -> extends rho ((x, v) :: b).
Proof.
  intros H1 H2 y w. destruct (Nat.eq_dec y x) as [->|Hne].
  - rewrite lookup_cons_eq. intros [= <-]. exact H1.
  - rewrite lookup_cons_ne by exact Hne. apply H2.
Qed.

Section Cover.
  Variable W : world.
  Variable D : domains.
  Variable E : venv.
  Let V := ve_var E.

  (* ----- sound: a result tells the truth about every assignment that extends it ----- *)
  Section Sound.
    Hypothesis Hs : forall x b b' v, In (b', v) (V x b) -> forall rho, extends rho b' -> extends rho b /\ rho x = v.

    Lemma opndG_sound e : forall b b' v,
      In (b', v) (evG_opnd W E e b) -> forall rho, extends rho b' -> extends rho b /\ den W rho e = v.
    Proof.
      induction e as [w|x|e IH a]; simpl; intros b b' v Hin rho He.
      - destruct Hin as [[= <- <-]|[]]. auto.
      - eapply Hs; eauto.
      - apply in_map_iff in Hin as ([b1 v1] & [= <- <-] & H1). simpl in *.
        destruct (IH _ _ _ H1 rho He) as [H2 H3]. split; auto. now rewrite H3.
    Qed.

    Lemma cmpG_inv op l r b b' f :
      In (b', f) (evG_cmp W E op l r b) ->
      exists b1 lv rv, f = negb (apply_op W op lv rv) /\
        ((In (b1, lv) (evG_opnd W E l b) /\ In (b', rv) (evG_opnd W E r b1)) \/
         (In (b1, rv) (evG_opnd W E r b) /\ In (b', lv) (evG_opnd W E l b1))).
    Proof.
      unfold evG_cmp. destruct (right_firstG E b r); intros H;
        apply in_flat_map in H as ([b1 v1] & H1 & H2);
        apply in_map_iff in H2 as ([b2 v2] & [= <- <-] & H2); simpl in *.
      - exists b1, v2, v1. split; auto.
      - exists b1, v1, v2. split; auto.
    Qed.

    Lemma cmpG_sound op l r b b' f :
      In (b', f) (evG_cmp W E op l r b) ->
      forall rho, extends rho b' -> extends rho b /\ f = negb (apply_op W op (den W rho l) (den W rho r)).
    Proof.
      intros H rho He. apply cmpG_inv in H as (b1 & lv & rv & -> & [[H1 H2]|[H1 H2]]).
      - destruct (opndG_sound _ _ _ _ H2 rho He) as [He1 Hr].
        destruct (opndG_sound _ _ _ _ H1 rho He1) as [He0 Hl]. split; auto. now rewrite Hl, Hr.
      - destruct (opndG_sound _ _ _ _ H2 rho He) as [He1 Hl].
        destruct (opndG_sound _ _ _ _ H1 rho He1) as [He0 Hr]. split; auto. now rewrite Hl, Hr.
    Qed.

    Lemma evalG_mono c : qfree c = true -> forall b b' f, In (b', f) (evalG W E c b) -> forall rho, extends rho b' -> extends rho b.
    Proof.
      induction c as [op l r|l IHl r IHr|l IHl r IHr|l IHl r IHr|c IH|e c IH|y c IH]; simpl; intros Q b b' f Hin rho He; try discriminate;
        try (apply andb_prop in Q as [Ql Qr]; specialize (IHl Ql); specialize (IHr Qr)); try specialize (IH Q).
      - eapply cmpG_sound; eauto.
      - apply in_flat_map in Hin as ([b1 f1] & H1 & H2). simpl in H2. destruct f1.
        + destruct H2 as [[= <- <-]|[]]. eauto.
        + eauto.
      - apply in_flat_map in Hin as ([b1 f1] & H1 & H2). simpl in H2. destruct f1.
        + eauto.
        + destruct H2 as [[= <- <-]|[]]. eauto.
      - apply in_app_or in Hin as [Hin|Hin]; [|apply filter_In in Hin as [Hin _]; eauto].
        apply in_flat_map in Hin as ([b1 f1] & H1 & H2). simpl in H2. destruct f1.
        + eauto.
        + destruct H2 as [[= <- <-]|[]]. eauto.
      - apply in_map_iff in Hin as ([b1 f1] & [= <- <-] & H1). eauto.
    Qed.

    Lemma evalG_sound c : qfree c = true -> forall pol b b',
      In (b', negb pol) (evalG W E c b) -> forall rho, extends rho b' -> sat W D rho c = pol.
    Proof.
      induction c as [op l r|l IHl r IHr|l IHl r IHr|l IHl r IHr|c IH|e c IH|y c IH]; simpl; intros Q pol b b' Hin rho He; try discriminate;
        try (apply andb_prop in Q as [Ql Qr]; specialize (IHl Ql); specialize (IHr Qr)); try specialize (IH Q).
      - destruct (cmpG_sound _ _ _ _ _ _ Hin rho He) as [_ Hf].
        destruct (apply_op W op (den W rho l) (den W rho r)), pol; simpl in Hf; congruence.
      - apply in_flat_map in Hin as ([b1 f1] & H1 & H2). simpl in H2. destruct f1.
        + destruct H2 as [[= <- Hp]|[]]. destruct pol; [discriminate|].
          rewrite (IHl false _ _ H1 rho He). reflexivity.
        + destruct pol.
          * rewrite (IHr true _ _ H2 rho He).
            rewrite (IHl true _ _ H1 rho (evalG_mono r Qr _ _ _ H2 rho He)). reflexivity.
          * rewrite (IHr false _ _ H2 rho He). apply andb_false_r.
      - apply in_flat_map in Hin as ([b1 f1] & H1 & H2). simpl in H2. destruct f1.
        + destruct pol.
          * rewrite (IHr true _ _ H2 rho He). apply orb_true_r.
          * rewrite (IHr false _ _ H2 rho He).
            rewrite (IHl false _ _ H1 rho (evalG_mono r Qr _ _ _ H2 rho He)). reflexivity.
        + destruct H2 as [[= <- Hp]|[]]. destruct pol; [|discriminate].
          rewrite (IHl true _ _ H1 rho He). reflexivity.
      - apply in_app_or in Hin as [Hin|Hin].
        + apply in_flat_map in Hin as ([b1 f1] & H1 & H2). simpl in H2. destruct f1.
          * destruct pol.
            -- rewrite (IHr true _ _ H2 rho He). apply orb_true_r.
            -- rewrite (IHr false _ _ H2 rho He).
               rewrite (IHl false _ _ H1 rho (evalG_mono r Qr _ _ _ H2 rho He)). reflexivity.
          * destruct H2 as [[= <- Hp]|[]]. destruct pol; [|discriminate].
            rewrite (IHl true _ _ H1 rho He). reflexivity.
        + apply filter_In in Hin as [Hin Hf]. simpl in Hf. destruct pol; [|discriminate].
          rewrite (IHr true _ _ Hin rho He). apply orb_true_r.
      - apply in_map_iff in Hin as ([b1 f1] & [= <- Hf] & H1).
        assert (f1 = negb (negb pol)) by (destruct f1, pol; simpl in *; congruence). subst f1.
        rewrite (IH (negb pol) _ _ H1 rho He). apply negb_involutive.
    Qed.

    Lemma true_resultsG_sound c b b1 : qfree_opt c = true -> In b1 (true_resultsG W E c b) ->
      forall rho, extends rho b1 -> extends rho b /\ sat_opt W D rho c = true.
    Proof.
      destruct c as [c|]; simpl; intros Q Hin rho He.
      - apply in_map_iff in Hin as ([b2 f] & <- & Hf). apply filter_In in Hf as [Hf Ht]. simpl in *.
        destruct f; [discriminate|]. split.
        + eapply evalG_mono; eauto.
        + eapply (evalG_sound c Q true); eauto.
      - destruct Hin as [<-|[]]. auto.
    Qed.
  End Sound.

  (* ----- admissible bindings stay admissible ----- *)
  Section Keep.
    Variable Bok : binds -> Prop.
    Variable Sc : var -> Prop.
    Hypothesis Hk : forall x b b' v, Sc x -> In (b', v) (V x b) -> Bok b -> Bok b'.

    Lemma opndG_keep e : (forall x, In x (opnd_vars e) -> Sc x) -> forall b b' v,
      In (b', v) (evG_opnd W E e b) -> Bok b -> Bok b'.
    Proof.
      induction e as [w|x|e IH a]; simpl; intros Hsc b b' v Hin Hb.
      - destruct Hin as [[= <- <-]|[]]. auto.
      - eapply Hk; eauto; apply Hsc; unfold opnd_vars; simpl; auto.
      - apply in_map_iff in Hin as ([b1 v1] & [= <- <-] & H1). simpl in *. eapply IH; eauto.
    Qed.

    Lemma cmpG_keep op l r b b' f : (forall x, In x (opnd_vars l ++ opnd_vars r) -> Sc x) ->
      In (b', f) (evG_cmp W E op l r b) -> Bok b -> Bok b'.
    Proof.
      intros Hsc H Hb. apply cmpG_inv in H as (b1 & lv & rv & _ & [[H1 H2]|[H1 H2]]).
      - eapply (opndG_keep r); eauto; [intros; apply Hsc, in_or_app; auto|].
        eapply (opndG_keep l); eauto. intros; apply Hsc, in_or_app; auto.
      - eapply (opndG_keep l); eauto; [intros; apply Hsc, in_or_app; auto|].
        eapply (opndG_keep r); eauto. intros; apply Hsc, in_or_app; auto.
    Qed.

    Lemma evalG_keep c : qfree c = true -> (forall x, In x (cond_vars c) -> Sc x) -> forall b b' f,
      In (b', f) (evalG W E c b) -> Bok b -> Bok b'.
    Proof.
      induction c as [op l r|l IHl r IHr|l IHl r IHr|l IHl r IHr|c IH|e c IH|y c IH]; simpl; intros Q Hsc b b' f Hin Hb; try discriminate;
        try (apply andb_prop in Q as [Ql Qr];
             assert (IHl' := IHl Ql (fun x Hx => Hsc x (in_or_app _ _ x (or_introl Hx))));
             assert (IHr' := IHr Qr (fun x Hx => Hsc x (in_or_app _ _ x (or_intror Hx))))); try specialize (IH Q Hsc).
      - eapply cmpG_keep; eauto.
      - apply in_flat_map in Hin as ([b1 f1] & H1 & H2). simpl in H2. destruct f1.
        + destruct H2 as [[= <- <-]|[]]. eauto.
        + eauto.
      - apply in_flat_map in Hin as ([b1 f1] & H1 & H2). simpl in H2. destruct f1.
        + eauto.
        + destruct H2 as [[= <- <-]|[]]. eauto.
      - apply in_app_or in Hin as [Hin|Hin]; [|apply filter_In in Hin as [Hin _]; eauto].
        apply in_flat_map in Hin as ([b1 f1] & H1 & H2). simpl in H2. destruct f1.
        + eauto.
        + destruct H2 as [[= <- <-]|[]]. eauto.
      - apply in_map_iff in Hin as ([b1 f1] & [= <- <-] & H1). eauto.
    Qed.

    Lemma true_resultsG_keep c b b1 : qfree_opt c = true -> (forall x, In x (cond_vars_opt c) -> Sc x) ->
      In b1 (true_resultsG W E c b) -> Bok b -> Bok b1.
    Proof.
      destruct c as [c|]; simpl; intros Q Hsc Hin Hb.
      - apply in_map_iff in Hin as ([b2 f] & <- & Hf). apply filter_In in Hf as [Hf _]. eapply evalG_keep; eauto.
      - destruct Hin as [<-|[]]. auto.
    Qed.
  End Keep.

  (* ----- frame: variables numbered [n] and above are not touched ----- *)
  Section Frame.
    Variable n : nat.
    Hypothesis Hf : forall x b b' v, x < n -> In (b', v) (V x b) -> forall y, n <= y -> lookup b' y = lookup b y.

    Lemma opndG_frame e : (forall x, In x (opnd_vars e) -> x < n) -> forall b b' v,
      In (b', v) (evG_opnd W E e b) -> forall y, n <= y -> lookup b' y = lookup b y.
    Proof.
      induction e as [w|x|e IH a]; simpl; intros Hlt b b' v Hin y Hy.
      - destruct Hin as [[= <- <-]|[]]. auto.
      - eapply Hf; eauto; apply Hlt; unfold opnd_vars; simpl; auto.
      - apply in_map_iff in Hin as ([b1 v1] & [= <- <-] & H1). simpl in *. eapply IH; eauto.
    Qed.

    Lemma cmpG_frame op l r b b' f : (forall x, In x (opnd_vars l ++ opnd_vars r) -> x < n) ->
      In (b', f) (evG_cmp W E op l r b) -> forall y, n <= y -> lookup b' y = lookup b y.
    Proof.
      intros Hlt H y Hy. apply cmpG_inv in H as (b1 & lv & rv & _ & [[H1 H2]|[H1 H2]]).
      - rewrite (opndG_frame r (fun x Hx => Hlt x (in_or_app _ _ x (or_intror Hx))) _ _ _ H2 y Hy).
        apply (opndG_frame l (fun x Hx => Hlt x (in_or_app _ _ x (or_introl Hx))) _ _ _ H1 y Hy).
      - rewrite (opndG_frame l (fun x Hx => Hlt x (in_or_app _ _ x (or_introl Hx))) _ _ _ H2 y Hy).
        apply (opndG_frame r (fun x Hx => Hlt x (in_or_app _ _ x (or_intror Hx))) _ _ _ H1 y Hy).
    Qed.

    Lemma evalG_frame c : qfree c = true -> (forall x, In x (cond_vars c) -> x < n) -> forall b b' f,
      In (b', f) (evalG W E c b) -> forall y, n <= y -> lookup b' y = lookup b y.
    Proof.
      induction c as [op l r|l IHl r IHr|l IHl r IHr|l IHl r IHr|c IH|e c IH|y0 c IH]; simpl; intros Q Hlt b b' f Hin y Hy; try discriminate;
        try (apply andb_prop in Q as [Ql Qr];
             assert (IHl' := IHl Ql (fun x Hx => Hlt x (in_or_app _ _ x (or_introl Hx))));
             assert (IHr' := IHr Qr (fun x Hx => Hlt x (in_or_app _ _ x (or_intror Hx))))); try specialize (IH Q Hlt).
      - eapply cmpG_frame; eauto.
      - apply in_flat_map in Hin as ([b1 f1] & H1 & H2). simpl in H2. destruct f1.
        + destruct H2 as [[= <- <-]|[]]. eauto.
        + rewrite (IHr' _ _ _ H2 y Hy). eauto.
      - apply in_flat_map in Hin as ([b1 f1] & H1 & H2). simpl in H2. destruct f1.
        + rewrite (IHr' _ _ _ H2 y Hy). eauto.
        + destruct H2 as [[= <- <-]|[]]. eauto.
      - apply in_app_or in Hin as [Hin|Hin]; [|apply filter_In in Hin as [Hin _]; eauto].
        apply in_flat_map in Hin as ([b1 f1] & H1 & H2). simpl in H2. destruct f1.
        + rewrite (IHr' _ _ _ H2 y Hy). eauto.
        + destruct H2 as [[= <- <-]|[]]. eauto.
      - apply in_map_iff in Hin as ([b1 f1] & [= <- <-] & H1). eauto.
    Qed.

    Lemma true_resultsG_frame c b b1 : qfree_opt c = true -> (forall x, In x (cond_vars_opt c) -> x < n) ->
      In b1 (true_resultsG W E c b) -> forall y, n <= y -> lookup b1 y = lookup b y.
    Proof.
      destruct c as [c|]; simpl; intros Q Hlt Hin y Hy.
      - apply in_map_iff in Hin as ([b2 f] & <- & Hf'). apply filter_In in Hf' as [Hf' _]. eapply evalG_frame; eauto.
      - destruct Hin as [<-|[]]. auto.
    Qed.
  End Frame.

  (* ----- complete: every admissible assignment is covered by a result that tells the truth about it ----- *)
  Section Complete.
    Variable Good : asg -> Prop.
    Variable Sc : asg -> var -> Prop.
    Hypothesis Hc : forall x b rho, Good rho -> Sc rho x -> extends rho b ->
      exists b', In (b', rho x) (V x b) /\ extends rho b'.

    Lemma opndG_complete e : forall b rho, Good rho -> (forall x, In x (opnd_vars e) -> Sc rho x) -> extends rho b ->
      exists b', In (b', den W rho e) (evG_opnd W E e b) /\ extends rho b'.
    Proof.
      induction e as [w|x|e IH a]; simpl; intros b rho Hg Hsc He.
      - exists b. auto.
      - apply Hc; auto; apply Hsc; unfold opnd_vars; simpl; auto.
      - destruct (IH b rho Hg Hsc He) as (b' & H1 & H2).
        exists b'. split; auto. apply in_map_iff. exists (b', den W rho e). auto.
    Qed.

    Lemma cmpG_complete op l r b rho : Good rho -> (forall x, In x (opnd_vars l ++ opnd_vars r) -> Sc rho x) -> extends rho b ->
      exists b', In (b', negb (apply_op W op (den W rho l) (den W rho r))) (evG_cmp W E op l r b) /\ extends rho b'.
    Proof.
      intros Hg Hsc He. unfold evG_cmp. destruct (right_firstG E b r).
      - destruct (opndG_complete r b rho Hg) as (b1 & H1 & He1); auto; [intros; apply Hsc, in_or_app; auto|].
        destruct (opndG_complete l b1 rho Hg) as (b2 & H2 & He2); auto; [intros; apply Hsc, in_or_app; auto|].
        exists b2. split; auto. apply in_flat_map. exists (b1, den W rho r). split; auto.
        apply in_map_iff. exists (b2, den W rho l). auto.
      - destruct (opndG_complete l b rho Hg) as (b1 & H1 & He1); auto; [intros; apply Hsc, in_or_app; auto|].
        destruct (opndG_complete r b1 rho Hg) as (b2 & H2 & He2); auto; [intros; apply Hsc, in_or_app; auto|].
        exists b2. split; auto. apply in_flat_map. exists (b1, den W rho l). split; auto.
        apply in_map_iff. exists (b2, den W rho r). auto.
    Qed.

    Lemma evalG_complete c : qfree c = true -> forall b rho,
      Good rho -> (forall x, In x (cond_vars c) -> Sc rho x) -> extends rho b ->
      exists b', In (b', negb (sat W D rho c)) (evalG W E c b) /\ extends rho b'.
    Proof.
      induction c as [op l r|l IHl r IHr|l IHl r IHr|l IHl r IHr|c IH|e c IH|y c IH]; simpl; intros Q b rho Hg Hsc He; try discriminate;
        try (apply andb_prop in Q as [Ql Qr]; specialize (IHl Ql); specialize (IHr Qr)); try specialize (IH Q).
      - apply cmpG_complete; auto.
      - destruct (IHl b rho Hg) as (b1 & H1 & He1); auto; [intros; apply Hsc, in_or_app; auto|].
        destruct (sat W D rho l) eqn:Sl; simpl in *.
        + destruct (IHr b1 rho Hg) as (b2 & H2 & He2); auto; [intros; apply Hsc, in_or_app; auto|].
          exists b2. split; auto. apply in_flat_map. exists (b1, false). auto.
        + exists b1. split; auto. apply in_flat_map. exists (b1, true). split; simpl; auto.
      - destruct (IHl b rho Hg) as (b1 & H1 & He1); auto; [intros; apply Hsc, in_or_app; auto|].
        destruct (sat W D rho l) eqn:Sl; simpl in *.
        + exists b1. split; auto. apply in_flat_map. exists (b1, false). split; simpl; auto.
        + destruct (IHr b1 rho Hg) as (b2 & H2 & He2); auto; [intros; apply Hsc, in_or_app; auto|].
          exists b2. split; auto. apply in_flat_map. exists (b1, true). auto.
      - destruct (IHl b rho Hg) as (b1 & H1 & He1); auto; [intros; apply Hsc, in_or_app; auto|].
        destruct (sat W D rho l) eqn:Sl; simpl in *.
        + exists b1. split; auto. apply in_or_app. left. apply in_flat_map. exists (b1, false). split; simpl; auto.
        + destruct (IHr b1 rho Hg) as (b2 & H2 & He2); auto; [intros; apply Hsc, in_or_app; auto|].
          exists b2. split; auto. apply in_or_app. left. apply in_flat_map. exists (b1, true). auto.
      - destruct (IH b rho Hg Hsc He) as (b1 & H1 & He1).
        exists b1. split; auto. apply in_map_iff. exists (b1, negb (sat W D rho c)). auto.
    Qed.

    Lemma true_resultsG_complete c b rho : qfree_opt c = true -> Good rho ->
      (forall x, In x (cond_vars_opt c) -> Sc rho x) -> extends rho b -> sat_opt W D rho c = true ->
      exists b1, In b1 (true_resultsG W E c b) /\ extends rho b1.
    Proof.
      destruct c as [c|]; simpl; intros Q Hg Hsc He Hs.
      - destruct (evalG_complete c Q b rho Hg Hsc He) as (b1 & H1 & He1). rewrite Hs in H1. simpl in H1.
        exists b1. split; auto. apply in_map_iff. exists (b1, false). split; auto. apply filter_In. auto.
      - exists b. auto.
    Qed.

    Lemma selectG_complete sels : forall b rho, Good rho ->
      (forall x, In x (flat_map opnd_vars sels) -> Sc rho x) -> extends rho b ->
      In (map (den W rho) sels) (selectG W E sels b).
    Proof.
      induction sels as [|s sels IH]; intros b rho Hg Hsc He; [now left|].
      cbn [selectG map].
      destruct (opndG_complete s b rho Hg) as (b' & H1 & He'); auto.
      - intros x Hx. apply Hsc. simpl. apply in_or_app. auto.
      - apply in_flat_map. exists (b', den W rho s). split; auto. cbn [fst snd].
        apply in_map. apply IH; auto. intros x Hx. apply Hsc. simpl. apply in_or_app. auto.
    Qed.
  End Complete.

  (* ----- selection: a row comes with bindings under which every selected expression has the row's value ----- *)
  Section Select.
    Variable Bok : binds -> Prop.
    Variable Sc : var -> Prop.
    Hypothesis Hs : forall x b b' v, In (b', v) (V x b) -> forall rho, extends rho b' -> extends rho b /\ rho x = v.
    Hypothesis Hk : forall x b b' v, Sc x -> In (b', v) (V x b) -> Bok b -> Bok b'.

    Lemma selectG_sound sels : (forall x, In x (flat_map opnd_vars sels) -> Sc x) -> forall b row,
      In row (selectG W E sels b) -> Bok b ->
      exists b', Bok b' /\ forall rho, extends rho b' -> extends rho b /\ row = map (den W rho) sels.
    Proof.
      induction sels as [|s sels IH]; intros Hsc b row Hin Hb.
      - simpl in Hin. destruct Hin as [<-|[]]. exists b. auto.
      - cbn [selectG] in Hin. apply in_flat_map in Hin as ([b1 v] & H1 & Hrow). cbn [fst snd] in Hrow.
        apply in_map_iff in Hrow as (row' & <- & Hrow').
        assert (Hb1 : Bok b1).
        { eapply (opndG_keep Bok Sc Hk s); eauto. intros x Hx. apply Hsc. simpl. apply in_or_app. auto. }
        destruct (IH (fun x Hx => Hsc x (in_or_app _ _ x (or_intror Hx))) b1 row' Hrow' Hb1) as (b' & Hb' & Hall).
        exists b'. split; auto. intros rho He. destruct (Hall rho He) as [He1 ->].
        destruct (opndG_sound Hs _ _ _ _ H1 rho He1) as [He0 Hd]. split; auto. cbn [map]. now rewrite Hd.
    Qed.
  End Select.
End Cover.
