(* C01 with quantifiers, part 2: static side conditions (scoping, must-bind analysis, the four aspects of a cover:
   true/false results sound, true/false assignments covered) and the must-bind lemma. *)
From Coq Require Import List ZArith Bool Arith Lia.
From Krrood Require Import Eql.Syntax Eql.Sat Eql.Eval Eql.EvalProofs Eql.EvalQInv.
Import ListNotations.

Fixpoint qvars (c : cond) : list var :=
  match c with
  | CCmp _ _ _ => []
  | CAnd l r | CElseIf l r | CUnion l r => qvars l ++ qvars r
  | CNot c => qvars c
  | CExists (OVar y) c => y :: qvars c
  | CExists _ c => qvars c
  | CForAll y c => y :: qvars c
  end.

Definition disj (l m : list var) : bool := forallb (fun x => negb (nmem x m)) l.

Lemma disj_spec l m : disj l m = true -> forall x, In x l -> ~ In x m.
Proof.
  unfold disj. rewrite forallb_forall. intros H x Hx Hm. specialize (H x Hx).
  apply nmem_true in Hm. rewrite Hm in H. discriminate.
Qed.

(* Barendregt convention: a quantified variable occurs nowhere outside its quantifier and is quantified once *)
Fixpoint wfq (c : cond) : bool :=
  match c with
  | CCmp _ _ _ => true
  | CAnd l r | CElseIf l r | CUnion l r =>
      wfq l && wfq r && disj (qvars l) (cond_vars r) && disj (qvars r) (cond_vars l)
  | CNot c => wfq c
  | CExists (OVar y) c => wfq c && negb (nmem y (qvars c))
  | CExists _ _ => false
  | CForAll y c => wfq c && negb (nmem y (qvars c))
  end.

Lemma nsubset_spec l m : nsubset l m = true -> forall x, In x l -> In x m.
Proof. unfold nsubset. rewrite forallb_forall. intros H x Hx. apply nmem_true. auto. Qed.

Definition inter (l m : list var) : list var := filter (fun x => nmem x m) l.
Lemma in_inter x l m : In x (inter l m) <-> In x l /\ In x m.
Proof. unfold inter. rewrite filter_In, nmem_true. tauto. Qed.

(* variables certainly bound in every result whose truth is [pol] *)
Fixpoint mb (pol : bool) (c : cond) : list var :=
  match c with
  | CCmp _ l r => opnd_vars l ++ opnd_vars r
  | CAnd l r => if pol then mb true l ++ mb true r else inter (mb false l) (mb true l ++ mb false r)
  | CElseIf l r => if pol then inter (mb true l) (mb false l ++ mb true r) else mb false l ++ mb false r
  | CUnion l r => if pol then inter (inter (mb true l) (mb false l ++ mb true r)) (mb true r)
                  else mb false l ++ mb false r      (* since 6dfdafd: false results only from the first pass *)
  | CNot c => mb (negb pol) c
  | CExists _ c => if pol then mb true c else []
  | CForAll _ _ => []
  end.

Inductive aspect := TS | FS | TC | FC.
Definition dual (a : aspect) : aspect := match a with TS => FS | FS => TS | TC => FC | FC => TC end.

(* [ok a bnd c]: with at least [bnd] bound on entry, aspect [a] of the cover holds for [c]:
   TS/FS: true/false results tell the truth; TC/FC: every satisfying/non-satisfying assignment is covered *)
Fixpoint ok (a : aspect) (bnd : list var) (c : cond) : bool :=
  match c with
  | CCmp _ _ _ => true
  | CAnd l r =>
      match a with
      | TS => ok TS bnd l && ok TS (bnd ++ mb true l) r
      | FS => ok FS bnd l && ok FS (bnd ++ mb true l) r
      | TC => ok TC bnd l && ok TC (bnd ++ mb true l) r
      | FC => ok FC bnd l && ok TC bnd l && ok FC (bnd ++ mb true l) r
      end
  | CElseIf l r =>
      match a with
      | TS => ok TS bnd l && ok TS (bnd ++ mb false l) r
      | FS => ok FS bnd l && ok FS (bnd ++ mb false l) r
      | TC => ok TC bnd l && ok FC bnd l && ok TC (bnd ++ mb false l) r
      | FC => ok FC bnd l && ok FC (bnd ++ mb false l) r
      end
  | CUnion l r =>
      match a with
      | TS => ok TS bnd l && ok TS bnd r
      | FS => ok FS bnd l && ok FS (bnd ++ mb false l) r
      | TC => ok TC bnd l && ok TC bnd r
      | FC => ok FC bnd l && ok FC (bnd ++ mb false l) r
      end
  | CNot c => ok (dual a) bnd c
  | CExists (OVar y) c =>
      match a with TS => ok TS bnd c | FS => true | TC => ok TC bnd c | FC => false end
  | CExists _ _ => false
  | CForAll y c =>
      match a with
      | TS | TC => qfree c && snd_ok true c && nsubset (remove_var y (cond_vars c)) bnd
      | FS => true
      | FC => false
      end
  end.

Definition binds_all (b : binds) (xs : list var) : Prop := forall x, In x xs -> bound b x = true.
Definition fresh (b : binds) (c : cond) : Prop := forall y, In y (qvars c) -> lookup b y = None.
Definition agree_off (Q : list var) (rho rho' : asg) : Prop := forall x, ~ In x Q -> rho' x = rho x.
Definition in_domc (D : domains) (rho : asg) (c : cond) : Prop := forall x, In x (cond_vars c) -> In (rho x) (D x).

Lemma bound_pres b b' x : pres b b' -> bound b x = true -> bound b' x = true.
Proof.
  unfold bound. intros H Hb. destruct (lookup b x) eqn:E; [|discriminate]. now rewrite (H _ _ E).
Qed.

Lemma binds_all_pres b b' xs : pres b b' -> binds_all b xs -> binds_all b' xs.
Proof. intros H Hb x Hx. eapply bound_pres; eauto. Qed.

Lemma binds_all_app b xs ys : binds_all b xs -> binds_all b ys -> binds_all b (xs ++ ys).
Proof. intros H1 H2 x Hx. apply in_app_or in Hx as [Hx|Hx]; auto. Qed.

Lemma fv_sub_vars c : forall x, In x (cond_fv c) -> In x (cond_vars c).
Proof.
  induction c as [op l r|l IHl r IHr|l IHl r IHr|l IHl r IHr|c IH|e c IH|y c IH]; simpl; intros x Hx; auto;
    try (apply in_app_or in Hx as [Hx|Hx]; apply in_or_app; auto).
  - destruct e as [v|z|e' a]; simpl in *.
    + auto.
    + apply in_remove_var in Hx as [Hx _]. right. auto.
    + apply in_app_or in Hx as [Hx|Hx]; apply in_or_app; auto.
  - apply in_remove_var in Hx as [Hx _]. right. auto.
Qed.

Lemma qvars_sub_vars c : forall x, In x (qvars c) -> In x (cond_vars c).
Proof.
  induction c as [op l r|l IHl r IHr|l IHl r IHr|l IHl r IHr|c IH|e c IH|y c IH]; simpl; intros x Hx; auto;
    try (apply in_app_or in Hx as [Hx|Hx]; apply in_or_app; auto).
  - contradiction.
  - destruct e as [v|z|e' a]; simpl in *.
    + auto.
    + destruct Hx as [<-|Hx]; [left; reflexivity|right; auto].
    + apply in_or_app. auto.
  - destruct Hx as [<-|Hx]; auto.
Qed.

Section MB.
  Variable W : world.
  Variable D : domains.

  Lemma ev_opnd_binds_root e : forall b b' v, In (b', v) (ev_opnd W D e b) -> binds_all b' (opnd_vars e).
  Proof.
    induction e as [w|y|e IH a]; simpl; intros b b' v Hin x Hx.
    - destruct Hx.
    - unfold opnd_vars in Hx. simpl in Hx. destruct Hx as [<-|[]].
      destruct (lookup b y) eqn:E.
      + destruct Hin as [[= <- <-]|[]]. unfold bound. now rewrite E.
      + apply in_map_iff in Hin as (w & [= <- <-] & Hw). unfold bound. now rewrite lookup_cons_eq.
    - apply in_map_iff in Hin as ([b1 v1] & [= <- <-] & H1). eapply IH; eauto.
  Qed.

  Lemma ev_cmp_binds_all op l r b b' f :
    In (b', f) (ev_cmp W D op l r b) -> binds_all b' (opnd_vars l ++ opnd_vars r).
  Proof.
    intros H. apply ev_cmp_inv in H as (b1 & lv & rv & _ & [[H1 H2]|[H1 H2]]); intros x Hx;
      apply in_app_or in Hx as [Hx|Hx].
    - eapply bound_pres; [eapply ev_opnd_pres; eauto|]. eapply ev_opnd_binds_root; eauto.
    - eapply ev_opnd_binds_root; eauto.
    - eapply ev_opnd_binds_root; eauto.
    - eapply bound_pres; [eapply ev_opnd_pres; eauto|]. eapply ev_opnd_binds_root; eauto.
  Qed.

  (* every result of truth [pol] binds the must-bind variables *)
  Lemma eval_mb c : forall pol b b', In (b', negb pol) (eval W D c b) -> binds_all b' (mb pol c).
  Proof.
    induction c as [op l r|l IHl r IHr|l IHl r IHr|l IHl r IHr|c IH|e c IH|y c IH]; simpl; intros pol b b' Hin.
    - eapply ev_cmp_binds_all; eauto.
    - apply in_flat_map in Hin as ([b1 f1] & H1 & H2). simpl in H2. destruct f1.
      + destruct H2 as [[= <- Hp]|[]]. destruct pol; [discriminate|].
        intros x Hx. apply in_inter in Hx as [Hx _]. eapply (IHl false); eauto.
      + destruct pol.
        * apply binds_all_app; [|eapply (IHr true); eauto].
          eapply binds_all_pres; [eapply eval_pres; eauto|]. eapply (IHl true); eauto.
        * intros x Hx. apply in_inter in Hx as [_ Hx]. apply in_app_or in Hx as [Hx|Hx].
          -- eapply bound_pres; [eapply eval_pres; eauto|]. eapply (IHl true); eauto.
          -- eapply (IHr false); eauto.
    - apply in_flat_map in Hin as ([b1 f1] & H1 & H2). simpl in H2. destruct f1.
      + destruct pol.
        * intros x Hx. apply in_inter in Hx as [_ Hx]. apply in_app_or in Hx as [Hx|Hx].
          -- eapply bound_pres; [eapply eval_pres; eauto|]. eapply (IHl false); eauto.
          -- eapply (IHr true); eauto.
        * apply binds_all_app; [|eapply (IHr false); eauto].
          eapply binds_all_pres; [eapply eval_pres; eauto|]. eapply (IHl false); eauto.
      + destruct H2 as [[= <- Hp]|[]]. destruct pol; [|discriminate].
        intros x Hx. apply in_inter in Hx as [Hx _]. eapply (IHl true); eauto.
    - apply in_app_or in Hin as [Hin|Hin].
      + apply in_flat_map in Hin as ([b1 f1] & H1 & H2). simpl in H2. destruct f1.
        * destruct pol.
          -- intros x Hx. apply in_inter in Hx as [Hx _]. apply in_inter in Hx as [_ Hx].
             apply in_app_or in Hx as [Hx|Hx].
             ++ eapply bound_pres; [eapply eval_pres; eauto|]. eapply (IHl false); eauto.
             ++ eapply (IHr true); eauto.
          -- intros x Hx. apply in_app_or in Hx as [Hx|Hx].
             ++ eapply bound_pres; [eapply eval_pres; eauto|]. eapply (IHl false); eauto.
             ++ eapply (IHr false); eauto.
        * destruct H2 as [[= <- Hp]|[]]. destruct pol; [|discriminate].
          intros x Hx. apply in_inter in Hx as [Hx _]. apply in_inter in Hx as [Hx _]. eapply (IHl true); eauto.
      + apply filter_In in Hin as [Hin Hf]. simpl in Hf. destruct pol; [|discriminate].
        intros x Hx. apply in_inter in Hx as [_ Hx]. eapply (IHr true); eauto.
    - apply in_map_iff in Hin as ([b1 f1] & [= <- Hf] & H1).
      assert (f1 = negb (negb pol)) by (destruct f1, pol; simpl in *; congruence). subst f1.
      eapply IH; eauto.
    - apply exists_scan_in in Hin as [Hin Hf]. simpl in Hf. destruct pol; [|discriminate].
      eapply (IH true); eauto.
    - intros x [].
  Qed.
End MB.
