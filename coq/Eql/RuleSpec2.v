(* C08 Spec for two-variable rule programs (see RuleEval2.v for the program class): b is determined by c through the
   join, so the Spec is the one-variable ripple-down-rules interpreter [rdr] over the elements (c.k, c.parent.a), one per
   connection, with the join marker removed from the conditions; an inferred instance names c, b or both according to
   its conclusion.  Instances are compared as a SET: the property does not say whether two bindings that agree on
   every constructor argument yield one instance or two.  No dependency on the models. *)
From Coq Require Import List ZArith Bool Arith.
From Krrood Require Import Eql.RuleSpec.
Import ListNotations.

Definition is_marker (a : atom) : bool := Nat.eqb (at_attr a) 2.
Fixpoint strip (r : rule) : rule :=
  match r with
  | Rule cs tg body =>
      Rule (filter (fun a => negb (is_marker a)) cs) tg
           ((fix go (l : list (kind * rule)) : list (kind * rule) :=
               match l with [] => [] | (k, q) :: l' => (k, strip q) :: go l' end) body)
  end.
Definition encode_world (Cs : list (Z * nat)) (Bs : list Z) : list elem :=
  map (fun c => (fst c, nth (snd c) Bs 0%Z)) Cs.
Definition inst2 (selof : nat -> nat) (Cs : list (Z * nat)) (ti : nat * nat) : nat * option nat * option nat :=
  (fst ti,
   if Nat.eqb (selof (fst ti)) 1 then None else Some (snd ti),
   if Nat.eqb (selof (fst ti)) 0 then None else Some (snd (nth (snd ti) Cs (0%Z, 0)))).
Definition rdr2 (selof : nat -> nat) (prog : rule) (Cs : list (Z * nat)) (Bs : list Z) : list (nat * option nat * option nat) :=
  map (inst2 selof Cs) (rdr (strip prog) (encode_world Cs Bs)).
