(* C08: printing of model / spec outcomes into the canonical comparable form (Base/Sx.v) for the correspondence check. *)
From Coq Require Import List ZArith Bool Arith.
From Krrood Require Import Base.Sx Eql.RuleSpec Eql.RuleEval Eql.RuleBuild Eql.RulePure.
Import ListNotations.

(* spec: list of [tag; element index] *)
Definition spec_sx (prog : rule) (W : list elem) : sx :=
  SL (map (fun ti => SL [SN (fst ti); SN (snd ti)]) (rdr prog W)).

(* model: [0; rows] with rows = [[tags selected at once]; element index]   |  [1] construction raised / no tree *)
Definition model_sx (prog : rule) (W : list elem) : sx :=
  match model prog W with
  | Some rows => SL [SZ 0; SL (map (fun r => SL [SL (map SN (fst r)); SN (snd r)]) rows)]
  | None => SL [SZ 1]
  end.

Fixpoint tree_sx (t : tree) : sx :=
  match t with
  | Leaf i _ c => SL [SZ 0; SN i; SL (map SN c)]
  | Node i s l r => SL [SZ (match s with SExc => 1 | SAlt => 2 | SNext => 3 end); SN i; tree_sx l; tree_sx r]
  end.
(* the tree the evaluator sees, and whether it is the intended one *)
Definition shape_sx (prog : rule) : sx :=
  match build prog with
  | Some h => match reify h with
              | Some t => SL [tree_sx t; tree_sx (tree_of prog)]
              | None => SL [SZ 2]
              end
  | None => SL [SZ 1]
  end.

(* shared nodes in the tree the evaluator sees (the surgery made one node the child of two selectors) *)
Definition shared_sx (prog : rule) : sx :=
  match build prog with
  | Some h => match reify h with Some t => SB (negb (nodupb (ids t))) | None => SZ 2 end
  | None => SZ 2
  end.

(* [Gb; has_next; shared; next_rule in the level of a later sibling refinement (unsettled reading); in the proved fragment] *)
Definition fragW_sx (prog : rule) (W : list elem) : sx :=
  SL [SB (Gb prog); SB (has_next prog); shared_sx prog; SB (later_ref_next prog); SB (Fx prog)].
